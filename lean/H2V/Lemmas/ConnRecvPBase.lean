import H2V.Model.ConnStreams
import H2V.Lemmas.CompFlow
/-
  C03 (receive windows are conserved) — part 1: the vocabulary.

  * `KeysOK`    store keys are unique and below `nextKey` (slab and id map)
  * `SameR`     two versions of a stream entry carry the same receive-side flow-control content
  * `Ext s s'`  "`s'` extends `s` without touching receive flow control": the connection-level
                receive fields are equal, every slab entry of `s'` is an entry of `s` with the same
                receive content (entries may have been removed) or a freshly created stream, and the
                id map only lost entries or gained fresh keys.  It is reflexive and transitive; every
                operation of the model that is not a receive-flow-control operation is shown to be an
                `Ext` step (files `ConnRecvPSend`, `ConnRecvPRecv`, `ConnRecvPStreams`).
  * primitive `Ext` lemmas for the state accessors of `ConnStore.lean`.
-/
namespace H2V.Lemmas.ConnRecvP
open H2V H2V.Model H2V.Model.Conn

/-- Σ over the slab of `in_flight_recv_data` -/
def sumInfl (l : List Stream) : Nat := (l.map (·.inFlightRecvData)).sum

@[simp] theorem sumInfl_nil : sumInfl [] = 0 := rfl
@[simp] theorem sumInfl_cons (x : Stream) (l : List Stream) :
    sumInfl (x :: l) = x.inFlightRecvData + sumInfl l := by simp [sumInfl]
@[simp] theorem sumInfl_append (a b : List Stream) : sumInfl (a ++ b) = sumInfl a + sumInfl b := by
  simp [sumInfl, List.sum_append]

theorem sumInfl_filter_le (p : Stream → Bool) (l : List Stream) : sumInfl (l.filter p) ≤ sumInfl l := by
  induction l with
  | nil => simp
  | cons x l ih =>
    by_cases h : p x = true
    · simp [List.filter_cons_of_pos h]; omega
    · have h' : p x = false := by simpa using h
      simp [h']; omega

theorem le_sumInfl_of_mem {x : Stream} {l : List Stream} (h : x ∈ l) : x.inFlightRecvData ≤ sumInfl l := by
  induction l with
  | nil => cases h
  | cons y l ih =>
    rcases List.mem_cons.1 h with rfl | h
    · simp
    · have := ih h; simp; omega

/-- store keys: unique in the slab, all below `nextKey`; the id map too -/
structure KeysOK (st : Store) : Prop where
  nodup : (st.slab.map (·.key)).Nodup
  lt : ∀ x ∈ st.slab, x.key < st.nextKey
  idsNodup : (st.ids.map (·.2)).Nodup
  idsIdNodup : (st.ids.map (·.1)).Nodup
  idsLt : ∀ p ∈ st.ids, p.2 < st.nextKey

theorem eq_of_key_eq {l : List Stream} (hn : (l.map (·.key)).Nodup) {x y : Stream}
    (hx : x ∈ l) (hy : y ∈ l) (h : x.key = y.key) : x = y := by
  induction l with
  | nil => cases hx
  | cons z l ih =>
    simp only [List.map_cons, List.nodup_cons, List.mem_map, not_exists, not_and] at hn
    rcases List.mem_cons.1 hx with hxz | hxl
    · rcases List.mem_cons.1 hy with hyz | hyl
      · rw [hxz, hyz]
      · exact absurd (by rw [← h, hxz]) (hn.1 y hyl)
    · rcases List.mem_cons.1 hy with hyz | hyl
      · exact absurd (by rw [h, hyz]) (hn.1 x hxl)
      · exact ih hn.2 hxl hyl

/-- the same receive-side content (key, receive `FlowControl`, `in_flight_recv_data`), a closed
    stream stays closed, a dropped `RecvStream` stays dropped -/
structure SameR (x x' : Stream) : Prop where
  key : x'.key = x.key
  flow : x'.recvFlow = x.recvFlow
  infl : x'.inFlightRecvData = x.inFlightRecvData
  closed : x.state.isClosed = true → x'.state.isClosed = true
  /-- `is_recv` (the `RecvStream` handle exists) only ever goes from `true` to `false` -/
  recv : x'.isRecv = true → x.isRecv = true

theorem SameR.refl (x : Stream) : SameR x x := ⟨rfl, rfl, rfl, id, id⟩
theorem SameR.trans {x y z : Stream} (h1 : SameR x y) (h2 : SameR y z) : SameR x z :=
  ⟨h2.key.trans h1.key, h2.flow.trans h1.flow, h2.infl.trans h1.infl, fun h => h2.closed (h1.closed h),
   fun h => h1.recv (h2.recv h)⟩

/-- the receive `FlowControl` of `Stream::new(_, _, init)` -/
def newRecvFlow (init : Nat) : FlowControl :=
  ((FlowControl.new.incWindow init).1.assignCapacity init).1

theorem Stream.new_recvFlow (id a b : Nat) : (Stream.new id a b).recvFlow = newRecvFlow b := rfl
theorem Stream.new_infl (id a b : Nat) : (Stream.new id a b).inFlightRecvData = 0 := rfl

/-- a stream entry created after `s`: fresh key, nothing in flight, the window of `Stream::new`
    with the current initial window size — or (`Inner::send_reset` on an unknown id) with 0, and
    then the stream is closed -/
structure Fresh (s : Streams) (x' : Stream) : Prop where
  key : s.store.nextKey ≤ x'.key
  infl : x'.inFlightRecvData = 0
  flow : x'.recvFlow = newRecvFlow s.recv.initWindowSz ∨
         (x'.recvFlow = newRecvFlow 0 ∧ x'.state.isClosed = true)

/-- `s'` extends `s` without touching receive flow control -/
structure Ext (s s' : Streams) : Prop where
  flow : s'.recv.flow = s.recv.flow
  infl : s'.recv.inFlightData = s.recv.inFlightData
  init : s'.recv.initWindowSz = s.recv.initWindowSz
  nk : s.store.nextKey ≤ s'.store.nextKey
  keys : KeysOK s.store → KeysOK s'.store
  slab : KeysOK s.store → ∀ x' ∈ s'.store.slab, (∃ x ∈ s.store.slab, SameR x x') ∨ Fresh s x'
  sum : KeysOK s.store → sumInfl s'.store.slab ≤ sumInfl s.store.slab
  link : ∀ k, k ∈ s'.store.ids.map (·.2) → k ∈ s.store.ids.map (·.2) ∨ s.store.nextKey ≤ k

theorem Ext.refl (s : Streams) : Ext s s :=
  ⟨rfl, rfl, rfl, Nat.le_refl _, id, fun _ x hx => .inl ⟨x, hx, SameR.refl x⟩, fun _ => Nat.le_refl _,
   fun _ h => .inl h⟩

theorem Ext.trans {a b c : Streams} (h1 : Ext a b) (h2 : Ext b c) : Ext a c where
  flow := h2.flow.trans h1.flow
  infl := h2.infl.trans h1.infl
  init := h2.init.trans h1.init
  nk := Nat.le_trans h1.nk h2.nk
  keys := fun hk => h2.keys (h1.keys hk)
  slab := fun hk z hz => by
    rcases h2.slab (h1.keys hk) z hz with ⟨y, hy, hyz⟩ | hf
    · rcases h1.slab hk y hy with ⟨x, hx, hxy⟩ | hf
      · exact .inl ⟨x, hx, hxy.trans hyz⟩
      · refine .inr ⟨?_, ?_, ?_⟩
        · rw [hyz.key]; exact hf.key
        · rw [hyz.infl]; exact hf.infl
        · rcases hf.flow with h | ⟨h, hc⟩
          · exact .inl (by rw [hyz.flow]; exact h)
          · exact .inr ⟨by rw [hyz.flow]; exact h, hyz.closed hc⟩
    · refine .inr ⟨Nat.le_trans h1.nk hf.key, hf.infl, ?_⟩
      rcases hf.flow with h | h
      · exact .inl (h1.init ▸ h)
      · exact .inr h
  sum := fun hk => Nat.le_trans (h2.sum (h1.keys hk)) (h1.sum hk)
  link := fun k hk => by
    rcases h2.link k hk with h | h
    · exact h1.link k h
    · exact .inr (Nat.le_trans h1.nk h)

/-- rewriting the target along a destructuring equation (used after `split` on a `match`) -/
theorem Ext.of_fst_eq {α : Type} {s0 s' : Streams} {r : α} {p : Streams × α}
    (h : p = (s', r)) (hp : Ext s0 p.1) : Ext s0 s' := by subst h; exact hp

/-- only fields outside the store and outside the three connection-level receive fields changed -/
theorem Ext.of_same {s s' : Streams} (h1 : s'.store = s.store) (h2 : s'.recv.flow = s.recv.flow)
    (h3 : s'.recv.inFlightData = s.recv.inFlightData) (h4 : s'.recv.initWindowSz = s.recv.initWindowSz) :
    Ext s s' where
  flow := h2
  infl := h3
  init := h4
  nk := by rw [h1]; exact Nat.le_refl _
  keys := fun hk => by rw [h1]; exact hk
  slab := fun _ x hx => .inl ⟨x, by rw [h1] at hx; exact hx, SameR.refl x⟩
  sum := fun _ => by rw [h1]; exact Nat.le_refl _
  link := fun _ h => .inl (by rw [h1] at h; exact h)

-- ===================================================================== accessors that do not touch the store

theorem panic_ext (s : Streams) (msg : String) : Ext s (s.panic msg) := by
  unfold Streams.panic; split <;> exact Ext.of_same rfl rfl rfl rfl

theorem unsup_ext (s : Streams) (msg : String) : Ext s (s.unsup msg) := by
  unfold Streams.unsup; split <;> exact Ext.of_same rfl rfl rfl rfl

theorem wake_ext (s : Streams) (t : List String) : Ext s (s.wake t) := Ext.of_same rfl rfl rfl rfl

theorem notifyTask_ext (s : Streams) : Ext s s.notifyTask := by
  unfold Streams.notifyTask; split <;> exact Ext.of_same rfl rfl rfl rfl

theorem modPrio_ext (s : Streams) (f : Prioritize → Prioritize) : Ext s (s.modPrio f) :=
  Ext.of_same rfl rfl rfl rfl

theorem modSend_ext (s : Streams) (f : Send → Send) : Ext s (s.modSend f) := Ext.of_same rfl rfl rfl rfl

theorem modCounts_ext (s : Streams) (f : Counts → Counts) : Ext s (s.modCounts f) :=
  Ext.of_same rfl rfl rfl rfl

theorem setCounts_ext (s : Streams) (c : Counts) : Ext s { s with counts := c } := Ext.of_same rfl rfl rfl rfl

theorem modCountsA_ext (s : Streams) (w : String) (f : Counts → Option Counts) : Ext s (s.modCountsA w f) := by
  unfold Streams.modCountsA; split
  · exact Ext.of_same rfl rfl rfl rfl
  · exact panic_ext _ _

/-- `modRecv` with a function that keeps `flow`, `in_flight_data`, `init_window_sz` -/
theorem modRecv_ext (s : Streams) (f : Recv → Recv)
    (h : ∀ r, (f r).flow = r.flow ∧ (f r).inFlightData = r.inFlightData ∧ (f r).initWindowSz = r.initWindowSz) :
    Ext s (s.modRecv f) :=
  Ext.of_same rfl (h _).1 (h _).2.1 (h _).2.2

theorem setQ_ext (s : Streams) (q : QName) (l : List Nat) : Ext s (s.setQ q l) := by
  cases q <;> exact Ext.of_same rfl rfl rfl rfl

theorem setRefs_ext (s : Streams) (n : Nat) : Ext s { s with refs := n } := Ext.of_same rfl rfl rfl rfl

theorem setConnError_ext (s : Streams) (e : Option PErr) :
    Ext s { s with actions := { s.actions with connError := e } } := Ext.of_same rfl rfl rfl rfl

theorem setTask_ext (s : Streams) (t : Option String) :
    Ext s { s with actions := { s.actions with task := t } } := Ext.of_same rfl rfl rfl rfl

-- ===================================================================== the store

theorem get?_mem {st : Store} {k : Nat} {x : Stream} (h : st.get? k = some x) : x ∈ st.slab ∧ x.key = k := by
  unfold Store.get? at h
  exact ⟨List.mem_of_find?_eq_some h, by simpa using List.find?_some h⟩

theorem get?_of_mem {st : Store} (hk : KeysOK st) {x : Stream} (hx : x ∈ st.slab) : st.get? x.key = some x := by
  unfold Store.get?
  cases hf : st.slab.find? (·.key == x.key) with
  | none =>
    have := List.find?_eq_none.1 hf x hx
    simp at this
  | some y =>
    have hy := List.mem_of_find?_eq_some hf
    have hyk : y.key = x.key := by simpa using List.find?_some hf
    rw [eq_of_key_eq hk.nodup hy hx hyk]

/-- the slab is mapped by a function that keeps the receive content of every entry -/
theorem Ext.of_map {s s' : Streams} (g : Stream → Stream)
    (hslab : s'.store.slab = s.store.slab.map g) (hids : s'.store.ids = s.store.ids)
    (hnk : s'.store.nextKey = s.store.nextKey)
    (hg : KeysOK s.store → ∀ x ∈ s.store.slab, SameR x (g x))
    (h2 : s'.recv.flow = s.recv.flow) (h3 : s'.recv.inFlightData = s.recv.inFlightData)
    (h4 : s'.recv.initWindowSz = s.recv.initWindowSz) : Ext s s' where
  flow := h2
  infl := h3
  init := h4
  nk := by rw [hnk]; exact Nat.le_refl _
  keys := fun hk => by
    have hkeys : s'.store.slab.map (·.key) = s.store.slab.map (·.key) := by
      rw [hslab, List.map_map]
      exact List.map_congr_left fun x hx => (hg hk x hx).key
    refine ⟨by rw [hkeys]; exact hk.nodup, ?_, by rw [hids]; exact hk.idsNodup,
      by rw [hids]; exact hk.idsIdNodup, by rw [hids, hnk]; exact hk.idsLt⟩
    intro x' hx'
    rw [hslab] at hx'
    obtain ⟨x, hx, rfl⟩ := List.mem_map.1 hx'
    rw [hnk, (hg hk x hx).key]; exact hk.lt x hx
  slab := fun hk x' hx' => by
    rw [hslab] at hx'
    obtain ⟨x, hx, rfl⟩ := List.mem_map.1 hx'
    exact .inl ⟨x, hx, hg hk x hx⟩
  sum := fun hk => by
    have : sumInfl s'.store.slab = sumInfl s.store.slab := by
      unfold sumInfl
      rw [hslab, List.map_map]
      congr 1
      exact List.map_congr_left fun x hx => (hg hk x hx).infl
    rw [this]; exact Nat.le_refl _
  link := fun _ h => .inl (by rw [hids] at h; exact h)

theorem setStream_ext (s : Streams) (x x' : Stream) (hx : s.store.get? x.key = some x) (h : SameR x x') :
    Ext s (s.setStream x') := by
  refine Ext.of_map (fun y => if y.key == x'.key then x' else y) rfl rfl rfl ?_ rfl rfl rfl
  intro hk y hy
  by_cases hc : y.key = x'.key
  · have : y = x := eq_of_key_eq hk.nodup hy (get?_mem hx).1 (by rw [hc, h.key])
    subst this
    simp [hc, h]
  · simp [hc, SameR.refl]

/-- `modStream` with a function that keeps the receive content of the entry -/
theorem modStream_ext (s : Streams) (id : Nat) (f : Stream → Stream)
    (h : ∀ x, s.store.get? id = some x → SameR x (f x)) : Ext s (s.modStream id f) := by
  unfold Streams.modStream
  split
  · next x hx =>
    have hxk := (get?_mem hx).2
    exact setStream_ext s x (f x) (by rw [hxk]; exact hx) (h x hx)
  · exact panic_ext _ _

theorem modStreamW_ext (s : Streams) (id : Nat) (f : Stream → Stream × List String)
    (h : ∀ x, s.store.get? id = some x → SameR x (f x).1) : Ext s (s.modStreamW id f) := by
  unfold Streams.modStreamW
  split
  · next x hx =>
    have hxk := (get?_mem hx).2
    exact (setStream_ext s x (f x).1 (by rw [hxk]; exact hx) (h x hx)).trans (wake_ext _ _)
  · exact panic_ext _ _

/-- `setStream` of a new version of `s.stream id` (whether the key exists or not) -/
theorem setStream_stream_ext (s : Streams) (id : Nat) (x' : Stream) (h : SameR (s.stream id) x') :
    Ext s (s.setStream x') := by
  cases hg : s.store.get? id with
  | some x =>
    have hx : s.stream id = x := by unfold Streams.stream; rw [hg]; rfl
    rw [hx] at h
    exact setStream_ext s x x' (by rw [(get?_mem hg).2]; exact hg) h
  | none =>
    have hk : (s.stream id).key = id := by unfold Streams.stream; rw [hg]; rfl
    refine Ext.of_map (fun y => if y.key == x'.key then x' else y) rfl rfl rfl ?_ rfl rfl rfl
    intro _ y hy
    have hne : y.key ≠ x'.key := by
      intro hc
      have := List.find?_eq_none.1 (show s.store.slab.find? (·.key == id) = none from hg) y hy
      rw [h.key, hk] at hc
      simp [hc] at this
    simp [hne, SameR.refl]

/-- `s.stream id` is the entry `get?` finds, when there is one -/
theorem stream_eq_of_get? {s : Streams} {id : Nat} {x : Stream} (h : s.store.get? id = some x) :
    s.stream id = x := by unfold Streams.stream; rw [h]; rfl

-- ===================================================================== removal, unlinking, insertion

theorem remove_ext (s : Streams) (k n : Nat) :
    Ext s { s with store := s.store.remove k, recvBufferLeaked := n } where
  flow := rfl
  infl := rfl
  init := rfl
  nk := Nat.le_refl _
  keys := fun hk =>
    ⟨(List.filter_sublist.map _).nodup hk.nodup, fun x hx => hk.lt x (List.mem_filter.1 hx).1,
      hk.idsNodup, hk.idsIdNodup, hk.idsLt⟩
  slab := fun _ x hx => .inl ⟨x, (List.mem_filter.1 hx).1, SameR.refl x⟩
  sum := fun _ => sumInfl_filter_le _ _
  link := fun _ h => .inl h

theorem swapRemove_sub (ids : List (Nat × Nat)) (id : Nat) : ∀ p ∈ Store.swapRemove ids id, p ∈ ids := by
  intro p hp
  unfold Store.swapRemove at hp
  split at hp
  · exact hp
  · split at hp
    · exact hp
    · next i _ last hl =>
      have hlast : last ∈ ids := List.mem_of_getLast? hl
      split at hp
      · exact (List.dropLast_sublist ids).subset hp
      · rcases List.mem_or_eq_of_mem_set hp with h | h
        · exact (List.dropLast_sublist ids).subset h
        · exact h ▸ hlast

theorem swapRemove_nodup {β : Type} (f : Nat × Nat → β) (ids : List (Nat × Nat)) (id : Nat)
    (hn : (ids.map f).Nodup) : ((Store.swapRemove ids id).map f).Nodup := by
  unfold Store.swapRemove
  split
  · exact hn
  · next i hi =>
    split
    · exact hn
    · next last hl =>
      obtain ⟨ys, rfl⟩ := List.getLast?_eq_some_iff.1 hl
      simp only [List.dropLast_concat]
      split
      · rw [List.map_append] at hn; exact (List.nodup_append.1 hn).1
      · next hne =>
        rw [List.map_append, List.nodup_append] at hn
        obtain ⟨hys, -, hdisj⟩ := hn
        have hlast : ∀ y ∈ ys, f y ≠ f last := fun y hy =>
          hdisj (f y) (List.mem_map_of_mem hy) (f last) (by simp)
        rw [List.set_eq_take_append_cons_drop]
        split
        · rw [List.map_append, List.map_cons, List.nodup_append]
          have hsub : (List.take i ys ++ List.drop (i + 1) ys).Sublist ys := by
            conv => rhs; rw [← List.take_append_drop i ys]
            exact List.Sublist.append (List.Sublist.refl _) (List.drop_sublist_drop_left ys (Nat.le_succ i))
          have hnd := (hsub.map f).nodup hys
          rw [List.map_append, List.nodup_append] at hnd
          refine ⟨hnd.1, ?_, ?_⟩
          · rw [List.nodup_cons]
            refine ⟨?_, hnd.2.1⟩
            intro hmem
            obtain ⟨y, hy, hyl⟩ := List.mem_map.1 hmem
            exact hlast y (List.mem_of_mem_drop hy) hyl
          · intro a ha b hb
            rcases List.mem_cons.1 hb with rfl | hb
            · obtain ⟨y, hy, rfl⟩ := List.mem_map.1 ha
              exact hlast y (List.mem_of_mem_take hy)
            · exact hnd.2.2 a ha b hb
        · exact hys

theorem unlink_ext (s : Streams) (id : Nat) : Ext s { s with store := s.store.unlink id } where
  flow := rfl
  infl := rfl
  init := rfl
  nk := Nat.le_refl _
  keys := fun hk =>
    ⟨hk.nodup, hk.lt, swapRemove_nodup _ _ _ hk.idsNodup, swapRemove_nodup _ _ _ hk.idsIdNodup,
      fun p hp => hk.idsLt p (swapRemove_sub _ _ p hp)⟩
  slab := fun _ x hx => .inl ⟨x, hx, SameR.refl x⟩
  sum := fun _ => Nat.le_refl _
  link := fun k h => by
    obtain ⟨p, hp, rfl⟩ := List.mem_map.1 h
    exact .inl (List.mem_map_of_mem (swapRemove_sub _ _ p hp))

/-- the remapping branch of `Store::insert`: the entry of `id` now points to the fresh key `k` -/
def remap (id k : Nat) (ids : List (Nat × Nat)) : List (Nat × Nat) :=
  ids.map fun e => if e.1 == id then (id, k) else e

theorem remap_fst (id k : Nat) (ids : List (Nat × Nat)) : (remap id k ids).map (·.1) = ids.map (·.1) := by
  unfold remap
  rw [List.map_map]
  apply List.map_congr_left
  intro e _
  simp only [Function.comp]
  split
  · next h => exact (by simpa using h : e.1 = id).symm
  · rfl

theorem remap_snd_nodup (id k : Nat) (ids : List (Nat × Nat)) (hid : (ids.map (·.1)).Nodup)
    (hkn : (ids.map (·.2)).Nodup) (hlt : ∀ p ∈ ids, p.2 < k) : ((remap id k ids).map (·.2)).Nodup := by
  induction ids with
  | nil => simp [remap]
  | cons p ids ih =>
    have ih' := ih (List.nodup_cons.1 hid).2 (List.nodup_cons.1 hkn).2 (fun q hq => hlt q (List.mem_cons_of_mem _ hq))
    simp only [List.map_cons, List.nodup_cons, List.mem_map, not_exists, not_and] at hid hkn
    unfold remap at ih' ⊢
    simp only [List.map_cons, List.nodup_cons]
    refine ⟨?_, ih'⟩
    intro hmem
    obtain ⟨q', hq', hq2⟩ := List.mem_map.1 hmem
    obtain ⟨q, hq, rfl⟩ := List.mem_map.1 hq'
    have hqlt := hlt q (List.mem_cons_of_mem _ hq)
    have hplt := hlt p List.mem_cons_self
    by_cases h1 : p.1 = id
    · by_cases h2 : q.1 = id
      · exact hid.1 q hq (h2.trans h1.symm)
      · simp [h1, h2] at hq2; omega
    · by_cases h2 : q.1 = id
      · simp [h1, h2] at hq2; omega
      · simp [h1, h2] at hq2; exact hkn.1 q hq hq2

theorem insert_keysOK (st : Store) (x : Stream) (hk : KeysOK st) : KeysOK (st.insert x).1 := by
  have hins : (st.insert x).1 = Store.mk (st.slab ++ [{ x with key := st.nextKey }])
      (if st.ids.any (·.1 == x.id) then remap x.id st.nextKey st.ids else st.ids ++ [(x.id, st.nextKey)])
      (st.nextKey + 1) := rfl
  rw [hins]
  refine ⟨?_, ?_, ?_, ?_, ?_⟩
  · simp only [List.map_append, List.map_cons, List.map_nil]
    rw [List.nodup_append]
    refine ⟨hk.nodup, by simp, ?_⟩
    intro a ha b hb
    obtain ⟨y, hy, rfl⟩ := List.mem_map.1 ha
    simp only [List.mem_singleton] at hb
    have := hk.lt y hy
    omega
  · intro y hy
    simp only [List.mem_append, List.mem_singleton] at hy
    rcases hy with hy | rfl
    · have := hk.lt y hy; simp only; omega
    · simp
  · simp only
    split
    · exact remap_snd_nodup _ _ _ hk.idsIdNodup hk.idsNodup hk.idsLt
    · rw [List.map_append, List.nodup_append]
      refine ⟨hk.idsNodup, by simp, ?_⟩
      intro a ha b hb
      obtain ⟨p, hp, rfl⟩ := List.mem_map.1 ha
      simp only [List.map_cons, List.map_nil, List.mem_singleton] at hb
      have := hk.idsLt p hp
      omega
  · simp only
    split
    · rw [remap_fst]; exact hk.idsIdNodup
    · next hany =>
      rw [List.map_append, List.nodup_append]
      refine ⟨hk.idsIdNodup, by simp, ?_⟩
      intro a ha b hb
      obtain ⟨p, hp, rfl⟩ := List.mem_map.1 ha
      simp only [List.map_cons, List.map_nil, List.mem_singleton] at hb
      subst hb
      intro heq
      apply hany
      simp only [List.any_eq_true]
      exact ⟨p, hp, by simpa using heq⟩
  · intro p hp
    simp only at hp ⊢
    split at hp
    · obtain ⟨q, hq, rfl⟩ := List.mem_map.1 hp
      split
      · simp
      · have := hk.idsLt q hq; omega
    · simp only [List.mem_append, List.mem_singleton] at hp
      rcases hp with hp | rfl
      · have := hk.idsLt p hp; omega
      · simp

/-- `Store::insert` of a stream that is `Fresh` apart from its key -/
theorem insert_ext (s : Streams) (x : Stream) (hi : x.inFlightRecvData = 0)
    (hf : x.recvFlow = newRecvFlow s.recv.initWindowSz) :
    Ext s { s with store := (s.store.insert x).1 } where
  flow := rfl
  infl := rfl
  init := rfl
  nk := by simp [Store.insert]
  keys := fun hk => insert_keysOK _ _ hk
  slab := fun _ y hy => by
    simp only [Store.insert, List.mem_append, List.mem_singleton] at hy
    rcases hy with hy | rfl
    · exact .inl ⟨y, hy, SameR.refl y⟩
    · exact .inr ⟨Nat.le_refl _, hi, .inl hf⟩
  sum := fun _ => by simp [Store.insert, hi]
  link := fun k h => by
    simp only [Store.insert] at h
    split at h
    · obtain ⟨p, hp, rfl⟩ := List.mem_map.1 h
      obtain ⟨q, hq, rfl⟩ := List.mem_map.1 hp
      split
      · exact .inr (Nat.le_refl _)
      · exact .inl (List.mem_map_of_mem hq)
    · simp only [List.map_append, List.map_cons, List.map_nil, List.mem_append, List.mem_singleton] at h
      rcases h with h | rfl
      · exact .inl h
      · exact .inr (Nat.le_refl _)

/-- the same, after the pair `Store::insert` returns has been destructured -/
theorem insert_ext' (s : Streams) (x : Stream) (store : Store) (k : Nat) (heq : s.store.insert x = (store, k))
    (hi : x.inFlightRecvData = 0) (hf : x.recvFlow = newRecvFlow s.recv.initWindowSz) :
    Ext s { s with store := store } := by
  have : store = (s.store.insert x).1 := by rw [heq]
  rw [this]; exact insert_ext s x hi hf

theorem remove_ext' (s : Streams) (k : Nat) : Ext s { s with store := s.store.remove k } :=
  remove_ext s k s.recvBufferLeaked

theorem unlinkRemove_ext (s : Streams) (id k : Nat) : Ext s { s with store := (s.store.unlink id).remove k } :=
  (unlink_ext s id).trans (remove_ext' _ k)

theorem insert_key (st : Store) (x : Stream) : (st.insert x).2 = st.nextKey := rfl

end H2V.Lemmas.ConnRecvP
