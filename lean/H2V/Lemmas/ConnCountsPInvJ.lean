import H2V.Lemmas.ConnCountsPInvI
/-
  C05 — invariants, part J: the role and the parity of `next_stream_id` never change (whether or not
  an `assert!` has fired) — what `send_push_promise` needs to be an evolution step.
-/
namespace H2V.Lemmas.ConnCountsP
open H2V H2V.Model H2V.Model.Conn

/-- role kept, `next_stream_id` moved the allowed way -/
structure NX (s s' : Streams) : Prop where
  role : s'.counts.isServer = s.counts.isServer
  next : NextOK s.counts.isServer s.actions.send.nextStreamId s'.actions.send.nextStreamId

theorem NX.refl (s : Streams) : NX s s := ⟨rfl, NextOK.refl _ _⟩
theorem NX.trans {a b c : Streams} (h1 : NX a b) (h2 : NX b c) : NX a c :=
  ⟨h2.role.trans h1.role, h1.next.trans (by rw [← h1.role]; exact h2.next)⟩
theorem NX.of_eq {s s' : Streams} (hc : s'.counts.isServer = s.counts.isServer) (ha : s'.actions.send.nextStreamId = s.actions.send.nextStreamId) : NX s s' :=
  ⟨hc, by rw [ha]; exact NextOK.refl _ _⟩
theorem NX.of_df {s s' : Streams} (h : DF s s') : NX s s' := ⟨h.counts.isServer, h.next⟩
theorem NX.of_de {G : SFrame → Prop} {s s' : Streams} (h : DE G s s') : NX s s' := ⟨h.counts.isServer, h.next⟩

theorem NX.nextLocal {s s' : Streams} (h : NX s s') (hn : NextLocal s) : NextLocal s' := by
  intro y hy
  obtain ⟨x, hx, _, hpar⟩ := h.next y hy
  rw [isLocalInit_eq, h.role]
  rcases hpar with e | e
  · have := hn x hx
    rw [isLocalInit_eq] at this
    unfold locId at this ⊢
    rw [e]; exact this
  · exact e

theorem modStream_actions (s : Streams) (k : Nat) (f : Stream → Stream) : (s.modStream k f).actions = s.actions := by
  unfold Streams.modStream; split
  · rfl
  · rw [panic_actions]

theorem NX.modStream (s : Streams) (k : Nat) (f : Stream → Stream) : NX s (s.modStream k f) :=
  NX.of_eq (by rw [modStream_counts2]) (by rw [modStream_actions])

theorem NX.qPush (s : Streams) (q : QName) (k : Nat) : NX s (s.qPush q k).1 := by
  unfold Streams.qPush
  split
  · exact NX.refl _
  · exact (NX.modStream s k _).trans (NX.of_eq (by rw [setQ_counts]) (by cases q <;> rfl))

theorem EvB.nx {ρ : Bool} {s s' : Streams} (h : EvB ρ s s') : NX s s' := by
  induction h with
  | refl s => exact NX.refl s
  | trans _ _ ih1 ih2 => exact ih1.trans ih2
  | free h => exact ⟨h.counts.isServer, h.next⟩
  | setStream st' _ => exact NX.of_eq rfl rfl
  | qPush q k _ _ => exact NX.qPush _ _ _
  | qPushFront q k _ hq => exact NX.of_df (DF.qPushFront _ _ _ hq)
  | qPushOpen k _ => exact NX.qPush _ _ _
  | qPop q _ _ => exact NX.of_df (DF.qPop _ _)
  | qPopOpen => exact NX.of_df (DF.qPop _ _)
  | resetEnq k _ _ _ => exact NX.of_df ((DF.modCountsA _ _ _ (fun _ hc => cd_incReset hc)).trans (DF.qPush _ _ _ (by decide)))
  | insert st _ _ => exact NX.of_eq rfl rfl
  | bracket st _ _ _ ih =>
    refine NX.trans ?_ ih
    exact NX.of_eq rfl rfl
  | unlink _ => exact NX.of_eq rfl rfl
  | remove k n _ => exact NX.of_eq rfl rfl
  | popOpen _ =>
    rename_i s0 _
    have hdf := DF.qPop s0 QName.pendingOpen
    cases hq : s0.qPop .pendingOpen with
    | mk s1 o =>
      rw [hq] at hdf
      cases o with
      | none => exact NX.of_df hdf
      | some id => exact (NX.of_df hdf).trans (NX.of_de (DE.incNumSendStreams (G := fun _ => False) s1 id))
  | acceptFlag k v => exact NX.modStream _ _ _
  | queuePP k pk pid fields _ => exact NX.modStream _ _ _
  | ppAct sid pk pid fields rest pushed _ _ =>
    rename_i s0 _ _
    refine (NX.modStream s0 sid (fun st => { st with pendingSend := rest })).trans ?_
    generalize (s0.modStream sid fun st => { st with pendingSend := rest }) = s1
    unfold ppActivate Streams.queueOpen
    dsimp only
    refine (NX.modStream s1 pushed (fun st => { st with isPendingPush := false })).trans ?_
    generalize (s1.modStream pushed fun st => { st with isPendingPush := false }) = s2
    split
    · split
      · exact (NX.of_de (DE.incNumSendStreams (G := fun _ => False) s2 pushed)).trans (NX.qPush _ _ _)
      · exact NX.qPush _ _ _
    · exact NX.refl _
  | incRecv k st' s1 _ hf =>
    rename_i s0 _
    exact ((NX.modStream s0 k (fun st => { st with state := st' })).trans ⟨hf.counts.isServer, hf.next⟩).trans
      (NX.of_de (DE.incNumRecvStreams (G := fun _ => False) s1 k))
  | decNum k => exact NX.of_de (DE.decNumStreams (G := fun _ => False) _ k)

theorem NX.transitionAfter (s : Streams) (k : Nat) (b : Bool) : NX s (s.transitionAfter k b) := by
  rw [transitionAfter_split]
  refine NX.trans ?_ (transitionAfter_false_ev _ k).nx
  split
  · exact NX.of_df (DF.modCountsA _ _ _ (fun _ hc => cd_decReset hc))
  · exact NX.refl _

theorem EvT.nx {s s' : Streams} (h : EvT s s') : NX s s' := by
  induction h with
  | ev h => exact h.nx
  | trans _ _ ih1 ih2 => exact ih1.trans ih2
  | resetPop =>
    rename_i s0
    have hdf := DF.qPop s0 QName.pendingResetExpired
    cases hq : s0.qPop .pendingResetExpired with
    | mk s1 o =>
      rw [hq] at hdf
      cases o with
      | none => exact NX.of_df hdf
      | some id => exact (NX.of_df hdf).trans (NX.transitionAfter _ _ _)

end H2V.Lemmas.ConnCountsP
