import H2V.Lemmas.ConnWakePStepRecv
/-
  ConnWakeP, part 5 — `Step` for every non-`poll_*` function of `ConnStreams.lean` (streams.rs): the frame
  entry points of `Inner`, the teardown functions (`handle_error`, `recv_go_away`, `recv_eof`) and all
  handle operations (`send_request`, `send_data`, `send_reset`, `reserve_capacity`, `release_capacity`,
  `drop_stream_ref`, …).
-/
namespace H2V.Lemmas.ConnWakeP
open H2V H2V.Model H2V.Model.Conn

section
variable {cx : Option String} {s0 s : Streams}

theorem transition_acc {α : Type} (k : Nat) (f : Streams → Streams × α)
    (hf : ∀ {s' : Streams}, Step cx s0 s' → Step cx s0 (f s').1) (h : Step cx s0 s) :
    Step cx s0 (s.transition k f).1 := by
  unfold Streams.transition
  exact transitionAfter_acc _ _ (hf h)
grind_pattern transition_acc => Step cx s0 (Prod.fst (Streams.transition s k f))

@[grind ←] theorem resetOnRecvStreamErr_acc (k : Nat) (r : Except PErr Unit) (h : Step cx s0 s) :
    Step cx s0 (s.resetOnRecvStreamErr k r).1 := by
  unfold Streams.resetOnRecvStreamErr; step_grind
@[grind ←] theorem actionsSendReset_acc (k : Nat) (r : Reason) (i : Initiator) (h : Step cx s0 s) :
    Step cx s0 (s.actionsSendReset k r i).1 := by
  unfold Streams.actionsSendReset; step_grind
@[grind ←] theorem clearQueues_acc (b : Bool) (h : Step cx s0 s) : Step cx s0 (s.clearQueues b) := by
  unfold Streams.clearQueues; step_grind
@[grind ←] theorem recvHeaders_acc (hd : HeadersIn) (h : Step cx s0 s) : Step cx s0 (s.recvHeaders hd).1 := by
  unfold Streams.recvHeaders; step_grind
@[grind ←] theorem recvData_acc (k : Nat) (p : Bytes) (eos : Bool) (pad : Option Nat) (h : Step cx s0 s) :
    Step cx s0 (s.recvData k p eos pad).1 := by
  unfold Streams.recvData; step_grind
@[grind ←] theorem recvReset_acc (k : Nat) (r : Reason) (h : Step cx s0 s) : Step cx s0 (s.recvReset k r).1 := by
  unfold Streams.recvReset; step_grind
@[grind ←] theorem recvWindowUpdate_acc (k inc : Nat) (h : Step cx s0 s) : Step cx s0 (s.recvWindowUpdate k inc).1 := by
  unfold Streams.recvWindowUpdate; step_grind
@[grind ←] theorem recvPushPromise_acc (k : Nat) (hd : HeadersIn) (h : Step cx s0 s) :
    Step cx s0 (s.recvPushPromise k hd).1 := by
  unfold Streams.recvPushPromise; step_grind

/-- the closure `handle_error` / `recv_go_away` run on a stream -/
theorem errClosure_acc (e : PErr) (k : Nat) (h : Step cx s0 s) :
    Step cx s0 (s.transition k fun s => ((s.recvHandleError k e).sendHandleError k, ())).1 := by
  step_grind
/-- the closure `recv_eof` runs on a stream -/
theorem eofClosure_acc (k : Nat) (h : Step cx s0 s) :
    Step cx s0 (s.transition k fun s => ((s.recvRecvEof k).sendHandleError k, ())).1 := by
  step_grind

@[grind ←] theorem handleError_acc (e : PErr) (h : Step cx s0 s) : Step cx s0 (s.handleError e).1 := by
  unfold Streams.handleError
  exact setConnError_acc e (storeForEach_acc _ (fun k h => errClosure_acc e k h) h)
@[grind ←] theorem recvGoAwayFrame_acc (l : Nat) (r : Reason) (d : Bytes) (h : Step cx s0 s) :
    Step cx s0 (s.recvGoAwayFrame l r d).1 := by
  unfold Streams.recvGoAwayFrame
  split
  · exact (sendRecvGoAway_acc l h).of_fst ‹_›
  · next s1 _ heq =>
    have h1 : Step cx s0 s1 := (sendRecvGoAway_acc l h).of_fst heq
    refine setConnError_acc _ (storeForEach_acc _ (fun k h => ?_) h1)
    dsimp only
    split
    · exact errClosure_acc _ k h
    · exact h
@[grind ←] theorem recvEof_acc (b : Bool) (h : Step cx s0 s) : Step cx s0 (s.recvEof b) := by
  unfold Streams.recvEof
  refine clearQueues_acc b (storeForEach_acc _ (fun k h => eofClosure_acc k h) ?_)
  split
  · exact setConnError_acc _ h
  · exact h
@[grind ←] theorem innerSendReset_acc (k : Nat) (r : Reason) (h : Step cx s0 s) : Step cx s0 (s.innerSendReset k r).1 := by
  unfold Streams.innerSendReset; step_grind
@[grind ←] theorem bufferPending_acc (n : Nat) (w : Writer) (h : Step cx s0 s) :
    Step cx s0 (Streams.bufferPending n s w).1 := by
  unfold Streams.bufferPending; step_grind
@[grind ←] theorem pollSendPendingRefusal_acc (n : Nat) (w : Writer) (io : Tio) (t : String) (h : Step cx s0 s) :
    Step cx s0 (Streams.pollSendPendingRefusal n s w io t).1 := by
  induction n generalizing s w io with
  | zero => unfold Streams.pollSendPendingRefusal; exact h
  | succ n ih => unfold Streams.pollSendPendingRefusal; step_grind
@[grind ←] theorem applyRemoteSettings_acc (v : List (Nat × Nat)) (b : Bool) (h : Step cx s0 s) :
    Step cx s0 (s.applyRemoteSettings v b).1 := by
  unfold Streams.applyRemoteSettings; step_grind
@[grind ←] theorem applyLocalSettingsFrame_acc (v : List (Nat × Nat)) (h : Step cx s0 s) :
    Step cx s0 (s.applyLocalSettingsFrame v).1 := by
  unfold Streams.applyLocalSettingsFrame; step_grind
@[grind ←] theorem refInc_acc (k : Nat) (h : Step cx s0 s) : Step cx s0 (s.refInc k) := by
  unfold Streams.refInc; step_grind
@[grind ←] theorem cloneStreamRef_acc (k : Nat) (h : Step cx s0 s) : Step cx s0 (s.cloneStreamRef k) := by
  unfold Streams.cloneStreamRef; step_grind
@[grind ←] theorem maybeCancel_acc (k : Nat) (h : Step cx s0 s) : Step cx s0 (s.maybeCancel k) := by
  unfold Streams.maybeCancel; step_grind
theorem cancelPromises_acc (l : List Nat) (h : Step cx s0 s) :
    Step cx s0 (l.foldl (fun s promise =>
        let s := s.modStream promise fun st => { st with isPendingAccept := false }
        (s.transition promise fun s =>
          let s := s.maybeCancel promise
          (if (s.stream promise).refCount == 0 then s.releaseClosedCapacity promise else s, ())).1) s) := by
  induction l generalizing s with
  | nil => exact h
  | cons p l ih =>
    rw [List.foldl_cons]
    apply ih
    step_grind
@[grind ←] theorem dropStreamRef_acc (k : Nat) (h : Step cx s0 s) : Step cx s0 (s.dropStreamRef k) := by
  unfold Streams.dropStreamRef
  have hc := @cancelPromises_acc cx s0
  step_grind
@[grind ←] theorem sendRequest_acc (b : Bool) (f : List Hpack.Field) (eos : Bool) (p : Option Nat) (h : Step cx s0 s) :
    Step cx s0 (s.sendRequest b f eos p).1 := by
  unfold Streams.sendRequest; step_grind
@[grind ←] theorem nextIncoming_acc (h : Step cx s0 s) : Step cx s0 s.nextIncoming.1 := by
  unfold Streams.nextIncoming; step_grind
@[grind ←] theorem refSendResponse_acc (k : Nat) (f : List Hpack.Field) (eos : Bool) (h : Step cx s0 s) :
    Step cx s0 (s.refSendResponse k f eos).1 := by
  unfold Streams.refSendResponse; step_grind
@[grind ←] theorem refSendInformationalHeaders_acc (k : Nat) (f : List Hpack.Field) (h : Step cx s0 s) :
    Step cx s0 (s.refSendInformationalHeaders k f).1 := by
  unfold Streams.refSendInformationalHeaders; step_grind
@[grind ←] theorem refSendPushPromise_acc (k : Nat) (v : Bool) (f : List Hpack.Field) (h : Step cx s0 s) :
    Step cx s0 (s.refSendPushPromise k v f).1 := by
  unfold Streams.refSendPushPromise; step_grind
@[grind ←] theorem cloneHandle_acc (h : Step cx s0 s) : Step cx s0 s.cloneHandle := by
  unfold Streams.cloneHandle; step_grind
@[grind ←] theorem dropHandle_acc (h : Step cx s0 s) : Step cx s0 s.dropHandle := by
  unfold Streams.dropHandle; step_grind
@[grind ←] theorem refSendData_acc (k len : Nat) (eos : Bool) (h : Step cx s0 s) : Step cx s0 (s.refSendData k len eos).1 := by
  unfold Streams.refSendData; step_grind
@[grind ←] theorem refSendTrailers_acc (k : Nat) (f : List Hpack.Field) (h : Step cx s0 s) :
    Step cx s0 (s.refSendTrailers k f).1 := by
  unfold Streams.refSendTrailers; step_grind
@[grind ←] theorem refSendReset_acc (k : Nat) (r : Reason) (h : Step cx s0 s) : Step cx s0 (s.refSendReset k r) := by
  unfold Streams.refSendReset; step_grind
@[grind ←] theorem refReserveCapacity_acc (k c : Nat) (h : Step cx s0 s) : Step cx s0 (s.refReserveCapacity k c) := by
  unfold Streams.refReserveCapacity; step_grind
@[grind ←] theorem refReleaseCapacity_acc (k c : Nat) (h : Step cx s0 s) : Step cx s0 (s.refReleaseCapacity k c).1 := by
  unfold Streams.refReleaseCapacity; step_grind
@[grind ←] theorem refClearRecvBuffer_acc (k : Nat) (h : Step cx s0 s) : Step cx s0 (s.refClearRecvBuffer k) := by
  unfold Streams.refClearRecvBuffer; step_grind
end
end H2V.Lemmas.ConnWakeP
