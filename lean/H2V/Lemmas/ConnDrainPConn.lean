import H2V.Lemmas.ConnDrainPWriter
import H2V.Lemmas.ConnDrainPRead
import H2V.Lemmas.ConnCtlPTrace
/-
  ConnDrainP, part 9 — `Connection::poll_ready` and `Connection::poll2` (ConnProto.lean): what each step of
  `poll_ready` leaves behind (`*_spec`), and `poll2Loop_pending`: `poll2` answers `Pending` only with the
  connection task parked on the transport's write waker, or on its read waker with every slot of `poll_ready`
  (PONG, PING, SETTINGS ACK, local SETTINGS, refusal) and the GOAWAY slot empty.
-/
namespace H2V.Lemmas.ConnDrainP
open H2V H2V.Model H2V.Model.Conn

-- ===================================================================== the slots of `Connection::poll_ready`

/-- the connection task is parked on the transport's write waker -/
def WriteParked (c : Conn) : Prop := c.codec.io.writeWaker = some c.cx

/-- what a step of `poll_ready` that only talks to the codec keeps -/
structure CodecStep (c c' : Conn) : Prop where
  cx : c'.cx = c.cx
  cap : CapOK c.codec.w → CapOK c'.codec.w
  rd : c'.codec.io.readWaker = c.codec.io.readWaker
  wr : WriteParked c → WriteParked c'

theorem CodecStep.refl (c : Conn) : CodecStep c c := ⟨rfl, id, rfl, id⟩
theorem CodecStep.trans {a b c : Conn} (h1 : CodecStep a b) (h2 : CodecStep b c) : CodecStep a c :=
  ⟨h2.cx.trans h1.cx, fun h => h2.cap (h1.cap h), h2.rd.trans h1.rd, fun h => h2.wr (h1.wr h)⟩

theorem codecPollReady_spec (c : Conn) :
    CodecStep c c.codecPollReady.1 ∧
    c.codecPollReady.1 = { c with codec := c.codecPollReady.1.codec } ∧
    c.codecPollReady.1.codec.r = c.codec.r ∧
    (c.codecPollReady.2 = .pending → CapOK c.codec.w → WriteParked c.codecPollReady.1) ∧
    (c.codecPollReady.2 = .ok → c.codecPollReady.1.codec.w.hasCapacity = true) := by
  unfold Conn.codecPollReady
  rcases hp : pollReadyW c.codec.w c.codec.io c.cx with ⟨w, io, r⟩
  dsimp only
  have hio := pollReadyW_io hp
  refine ⟨⟨rfl, fun h => h.ofPollReadyW hp, hio.1, ?_⟩, rfl, rfl, ?_, ?_⟩
  · intro hw
    unfold WriteParked at *
    rcases hio.2.1 with e | e
    · show io.writeWaker = _; rw [e]; exact hw
    · exact e
  · intro hr hc
    cases r <;> simp at hr
    exact pollReadyW_pending hc hp
  · intro hr
    cases r <;> simp at hr
    exact hio.2.2 rfl


theorem bufferSimple_step (c : Conn) (n : Nat) (r : String) : CodecStep c (c.bufferSimple n r) :=
  ⟨rfl, fun h => h.bufferSimple _ _, rfl, id⟩

theorem bufferSettings_step (c : Conn) (a : Bool) (v : List (Nat × Nat)) : CodecStep c (c.bufferSettings a v) :=
  bufferSimple_step _ _ _

/-- the PING slot needs nothing from the connection task: the shutdown PING is on its way, and a user's PING is
    on its way or the connection task is registered in `ping_task` (woken by `send_ping`) -/
def PingIdle (pp : PingPong) (cx : String) : Prop :=
  match pp.pendingPing with
  | some p => p.sent = true
  | none => ∀ u, pp.userPings = some u → u.state ≠ Generated.Consts.USER_STATE_PENDING_PING ∧ u.pingTask = some cx

theorem CodecStep.of_codec_eq {c c' : Conn} (h1 : c'.cx = c.cx) (h2 : c'.codec = c.codec) : CodecStep c c' :=
  ⟨h1, fun h => by rw [h2]; exact h, by rw [h2], fun h => by unfold WriteParked at *; rw [h2, h1]; exact h⟩

theorem sendPendingGoAway_spec (c : Conn) :
    CodecStep c c.sendPendingGoAway.1 ∧
    c.sendPendingGoAway.1.pingPong = c.pingPong ∧ c.sendPendingGoAway.1.settings = c.settings ∧
    c.sendPendingGoAway.1.streams = c.streams ∧
    (c.sendPendingGoAway.2 = .pending → CapOK c.codec.w → WriteParked c.sendPendingGoAway.1) ∧
    (c.sendPendingGoAway.2 ≠ .pending → (∀ e, c.sendPendingGoAway.2 ≠ .err e) → c.sendPendingGoAway.1.goAway.pending = none) := by
  unfold Conn.sendPendingGoAway
  split
  · next frame hpend =>
    have hs := codecPollReady_spec c
    rcases hcp : c.codecPollReady with ⟨c1, r1⟩
    rw [hcp] at hs
    obtain ⟨st, he, _, hpe, _⟩ := hs
    dsimp only at st he hpe ⊢
    have e1 : c1.pingPong = c.pingPong := by rw [he]
    have e2 : c1.settings = c.settings := by rw [he]
    have e3 : c1.streams = c.streams := by rw [he]
    cases r1 with
    | pending =>
      dsimp only
      refine ⟨st, e1, e2, e3, ?_, ?_⟩
      · intro _ hc; exact hpe rfl hc
      · intro h _; exact absurd rfl h
    | ok =>
      dsimp only
      refine ⟨?_, e1, e2, e3, ?_, ?_⟩
      · exact st.trans (CodecStep.trans (b := { c1 with goAway := { c1.goAway with pending := none } })
          (.of_codec_eq rfl rfl) (bufferSimple_step _ _ _))
      · intro h; cases h
      · intro _ _; rfl
    | err e =>
      dsimp only
      refine ⟨st.trans (.of_codec_eq rfl rfl), e1, e2, e3, ?_, ?_⟩
      · intro h; cases h
      · intro _ h; exact absurd rfl (h e)
  · next hpend =>
    split
    · split
      · refine ⟨.refl _, rfl, rfl, rfl, ?_, ?_⟩
        · intro h; cases h
        · intro _ _; exact hpend
      · refine ⟨.refl _, rfl, rfl, rfl, ?_, ?_⟩
        · intro h; cases h
        · intro _ _; exact hpend
    · refine ⟨.refl _, rfl, rfl, rfl, ?_, ?_⟩
      · intro h; cases h
      · intro _ _; exact hpend

theorem sendPendingPong_spec (c : Conn) :
    CodecStep c c.sendPendingPong.1 ∧
    c.sendPendingPong.1.goAway = c.goAway ∧ c.sendPendingPong.1.settings = c.settings ∧
    c.sendPendingPong.1.streams = c.streams ∧
    c.sendPendingPong.1.pingPong.pendingPing = c.pingPong.pendingPing ∧
    c.sendPendingPong.1.pingPong.userPings = c.pingPong.userPings ∧
    (c.sendPendingPong.2 = .pending → CapOK c.codec.w → WriteParked c.sendPendingPong.1) ∧
    (c.sendPendingPong.2 = .ok → c.sendPendingPong.1.pingPong.pendingPong = none) := by
  unfold Conn.sendPendingPong
  split
  · next pong hpend =>
    have hs := codecPollReady_spec c
    rcases hcp : c.codecPollReady with ⟨c1, r1⟩
    rw [hcp] at hs
    obtain ⟨st, he, _, hpe, _⟩ := hs
    dsimp only at st he hpe ⊢
    have e0 : c1.goAway = c.goAway := by rw [he]
    have e1 : c1.pingPong = c.pingPong := by rw [he]
    have e2 : c1.settings = c.settings := by rw [he]
    have e3 : c1.streams = c.streams := by rw [he]
    cases r1 with
    | pending =>
      dsimp only
      refine ⟨st, e0, e2, e3, by rw [e1], by rw [e1], ?_, ?_⟩
      · intro _ hc; exact hpe rfl hc
      · intro h; cases h
    | ok =>
      dsimp only
      refine ⟨?_, e0, e2, e3, by show c1.pingPong.pendingPing = _; rw [e1], by show c1.pingPong.userPings = _; rw [e1], ?_, ?_⟩
      · exact st.trans (CodecStep.trans (b := { c1 with pingPong := { c1.pingPong with pendingPong := none } })
          (.of_codec_eq rfl rfl) (bufferSimple_step _ _ _))
      · intro h; cases h
      · intro _; rfl
    | err e =>
      dsimp only
      refine ⟨st.trans (.of_codec_eq rfl rfl), e0, e2, e3, by show c1.pingPong.pendingPing = _; rw [e1],
        by show c1.pingPong.userPings = _; rw [e1], ?_, ?_⟩
      · intro h; cases h
      · intro h; cases h
  · next hpend =>
    refine ⟨.refl _, rfl, rfl, rfl, rfl, rfl, ?_, ?_⟩
    · intro h; cases h
    · intro _; exact hpend


theorem sendPendingPing_spec (c : Conn) :
    CodecStep c c.sendPendingPing.1 ∧
    c.sendPendingPing.1.goAway = c.goAway ∧ c.sendPendingPing.1.settings = c.settings ∧
    c.sendPendingPing.1.streams = c.streams ∧
    c.sendPendingPing.1.pingPong.pendingPong = c.pingPong.pendingPong ∧
    (c.sendPendingPing.2 = .pending → CapOK c.codec.w → WriteParked c.sendPendingPing.1) ∧
    (c.sendPendingPing.2 = .ok → PingIdle c.sendPendingPing.1.pingPong c.cx) := by
  unfold Conn.sendPendingPing
  have hs := codecPollReady_spec c
  split
  · next ping hping =>
    split
    · next hsent =>
      rcases hcp : c.codecPollReady with ⟨c1, r1⟩
      rw [hcp] at hs
      obtain ⟨st, he, _, hpe, _⟩ := hs
      dsimp only at st he hpe
      have e0 : c1.goAway = c.goAway := by rw [he]
      have e1 : c1.pingPong = c.pingPong := by rw [he]
      have e2 : c1.settings = c.settings := by rw [he]
      have e3 : c1.streams = c.streams := by rw [he]
      cases r1 with
      | pending =>
        dsimp only
        refine ⟨st, e0, e2, e3, by rw [e1], ?_, ?_⟩
        · intro _ hc; exact hpe rfl hc
        · intro h; cases h
      | ok =>
        dsimp only
        refine ⟨?_, e0, e2, e3, by show c1.pingPong.pendingPong = _; rw [e1], ?_, ?_⟩
        · exact st.trans ((bufferSimple_step _ _ _).trans (.of_codec_eq rfl rfl))
        · intro h; cases h
        · intro _; unfold PingIdle; rfl
      | err e =>
        dsimp only
        refine ⟨st, e0, e2, e3, by rw [e1], ?_, ?_⟩
        · intro h; cases h
        · intro h; cases h
    · next hsent =>
      refine ⟨.refl _, rfl, rfl, rfl, rfl, ?_, ?_⟩
      · intro h; cases h
      · intro _; unfold PingIdle; rw [hping]; simpa using hsent
  · next hping =>
    split
    · next u hu =>
      dsimp only
      split
      · next hstate =>
        -- the user's PING is due: `poll_ready` on the codec with the registered connection
        have hs' := codecPollReady_spec ({ c with pingPong := { c.pingPong with userPings := some { u with pingTask := some c.cx } } })
        rcases hcp : Conn.codecPollReady ({ c with pingPong := { c.pingPong with userPings := some { u with pingTask := some c.cx } } }) with ⟨c1, r1⟩
        rw [hcp] at hs'
        obtain ⟨st, he, _, hpe, _⟩ := hs'
        dsimp only at st he hpe
        have st0 : CodecStep c ({ c with pingPong := { c.pingPong with userPings := some { u with pingTask := some c.cx } } }) :=
          .of_codec_eq rfl rfl
        have e0 : c1.goAway = c.goAway := by rw [he]
        have e2 : c1.settings = c.settings := by rw [he]
        have e3 : c1.streams = c.streams := by rw [he]
        have e4 : c1.pingPong.pendingPong = c.pingPong.pendingPong := by rw [he]
        have e5 : c1.pingPong.pendingPing = c.pingPong.pendingPing := by rw [he]
        cases r1 with
        | pending =>
          dsimp only
          refine ⟨st0.trans st, e0, e2, e3, e4, ?_, ?_⟩
          · intro _ hc; exact hpe rfl hc
          · intro h; cases h
        | ok =>
          dsimp only
          refine ⟨?_, e0, e2, e3, e4, ?_, ?_⟩
          · exact st0.trans (st.trans ((bufferSimple_step _ _ _).trans (.of_codec_eq rfl rfl)))
          · intro h; cases h
          · intro _
            unfold PingIdle
            show (match c1.pingPong.pendingPing with | some p => p.sent = true | none => _) 
            rw [e5, hping]
            intro u' hu'
            cases hu'
            refine ⟨?_, rfl⟩
            show Generated.Consts.USER_STATE_PENDING_PONG ≠ Generated.Consts.USER_STATE_PENDING_PING
            decide
        | err e =>
          dsimp only
          refine ⟨st0.trans st, e0, e2, e3, e4, ?_, ?_⟩
          · intro h; cases h
          · intro h; cases h
      · next hstate =>
        refine ⟨.of_codec_eq rfl rfl, rfl, rfl, rfl, rfl, ?_, ?_⟩
        · intro h; cases h
        · intro _
          unfold PingIdle
          show (match c.pingPong.pendingPing with | some p => p.sent = true | none => _)
          rw [hping]
          intro u' hu'
          cases hu'
          exact ⟨by simpa using hstate, rfl⟩
    · next hu =>
      refine ⟨.refl _, rfl, rfl, rfl, rfl, ?_, ?_⟩
      · intro h; cases h
      · intro _
        unfold PingIdle
        rw [hping]
        intro u' hu'
        rw [hu] at hu'; cases hu'


theorem CodecStep.of_io_eq {c c' : Conn} (h1 : c'.cx = c.cx) (h2 : c'.codec.io = c.codec.io)
    (h3 : CapOK c.codec.w → CapOK c'.codec.w) : CodecStep c c' :=
  ⟨h1, h3, by rw [h2], fun h => by unfold WriteParked at *; rw [h2, h1]; exact h⟩

open H2V.Lemmas.ConnCtlP (ackAndApply settingsRemotePart settingsLocalSend settingsLocalPart settingsPollSend_eq)

theorem ackAndApply_spec (c : Conn) (settings : List (Nat × Nat)) :
    CodecStep c (ackAndApply c settings).1 ∧ (ackAndApply c settings).1.goAway = c.goAway ∧
    (ackAndApply c settings).1.pingPong = c.pingPong ∧ (ackAndApply c settings).2 ≠ .pending ∧
    (ackAndApply c settings).1.settings.remote = c.settings.remote ∧
    (ackAndApply c settings).1.settings.loc = c.settings.loc := by
  unfold ackAndApply
  dsimp only
  split
  · refine ⟨?_, rfl, rfl, ?_, rfl, rfl⟩
    · exact CodecStep.trans (b := c.bufferSettings true []) (bufferSettings_step _ _ _) (.of_codec_eq rfl rfl)
    · intro h; cases h
  · dsimp only
    refine ⟨CodecStep.trans (b := c.bufferSettings true []) (bufferSettings_step _ _ _) ?_, rfl, rfl, ?_, rfl, rfl⟩
    · refine .of_io_eq rfl rfl ?_
      intro hc
      refine CapOK.of_eq hc ?_ ?_
      · cases (List.find? (fun x => decide (x.fst = 1)) settings) <;> cases (List.find? (fun x => decide (x.fst = 5)) settings) <;> rfl
      · cases (List.find? (fun x => decide (x.fst = 1)) settings) <;> cases (List.find? (fun x => decide (x.fst = 5)) settings) <;> exact Nat.le_refl _
    · intro h; cases h

theorem settingsRemotePart_spec (c : Conn) :
    CodecStep c (settingsRemotePart c).1 ∧ (settingsRemotePart c).1.goAway = c.goAway ∧
    (settingsRemotePart c).1.pingPong = c.pingPong ∧
    (settingsRemotePart c).1.settings.loc = c.settings.loc ∧
    ((settingsRemotePart c).2 = .pending → CapOK c.codec.w → WriteParked (settingsRemotePart c).1) := by
  unfold settingsRemotePart
  split
  · next settings hrem =>
    have hs := codecPollReady_spec c
    rcases hcp : c.codecPollReady with ⟨c1, r1⟩
    rw [hcp] at hs
    obtain ⟨st, he, _, hpe, _⟩ := hs
    dsimp only at st he hpe
    have e0 : c1.goAway = c.goAway := by rw [he]
    have e1 : c1.pingPong = c.pingPong := by rw [he]
    have e2 : c1.settings = c.settings := by rw [he]
    cases r1 with
    | pending =>
      dsimp only
      refine ⟨st, e0, e1, by rw [e2], ?_⟩
      intro _ hc; exact hpe rfl hc
    | err e =>
      dsimp only
      refine ⟨st, e0, e1, by rw [e2], ?_⟩
      intro h; cases h
    | ok =>
      dsimp only
      have ha := ackAndApply_spec c1 settings
      refine ⟨st.trans ha.1, ha.2.1.trans e0, ha.2.2.1.trans e1, by rw [ha.2.2.2.2.2, e2], ?_⟩
      intro h; exact absurd h ha.2.2.2.1
  · refine ⟨.refl _, rfl, rfl, rfl, ?_⟩
    intro h; cases h

theorem settingsLocalSend_spec (c : Conn) :
    CodecStep c (settingsLocalSend c).1 ∧ (settingsLocalSend c).1.goAway = c.goAway ∧
    (settingsLocalSend c).1.pingPong = c.pingPong ∧
    (settingsLocalSend c).1.settings.remote = c.settings.remote ∧
    ((settingsLocalSend c).2 = .pending → CapOK c.codec.w → WriteParked (settingsLocalSend c).1) ∧
    ((settingsLocalSend c).2 = .ok → ∀ v, (settingsLocalSend c).1.settings.loc ≠ .toSend v) := by
  unfold settingsLocalSend
  split
  · next settings hloc =>
    have hs := codecPollReady_spec c
    rcases hcp : c.codecPollReady with ⟨c1, r1⟩
    rw [hcp] at hs
    obtain ⟨st, he, _, hpe, _⟩ := hs
    dsimp only at st he hpe
    have e0 : c1.goAway = c.goAway := by rw [he]
    have e1 : c1.pingPong = c.pingPong := by rw [he]
    have e2 : c1.settings = c.settings := by rw [he]
    cases r1 with
    | pending =>
      dsimp only
      refine ⟨st, e0, e1, by rw [e2], ?_, ?_⟩
      · intro _ hc; exact hpe rfl hc
      · intro h; cases h
    | err e =>
      dsimp only
      refine ⟨st, e0, e1, by rw [e2], ?_, ?_⟩
      · intro h; cases h
      · intro h; cases h
    | ok =>
      dsimp only
      refine ⟨st.trans ((bufferSettings_step _ _ _).trans (.of_codec_eq rfl rfl)), e0, e1, ?_, ?_, ?_⟩
      · show c1.settings.remote = _
        rw [e2]
      · intro h; cases h
      · intro _ v h; cases h
  · next hloc =>
    refine ⟨.refl _, rfl, rfl, rfl, ?_, ?_⟩
    · intro h; cases h
    · intro _ v hv; exact hloc v hv

theorem settingsPollSend_spec (c : Conn) :
    CodecStep c c.settingsPollSend.1 ∧
    c.settingsPollSend.1.goAway = c.goAway ∧ c.settingsPollSend.1.pingPong = c.pingPong ∧
    (c.settingsPollSend.2 = .pending → CapOK c.codec.w → WriteParked c.settingsPollSend.1) ∧
    (c.settingsPollSend.2 = .ok → c.settingsPollSend.1.settings.remote = none ∧
      ∀ v, c.settingsPollSend.1.settings.loc ≠ .toSend v) := by
  rw [settingsPollSend_eq]
  have h1 := settingsRemotePart_spec c
  rcases hr : settingsRemotePart c with ⟨c1, r1⟩
  rw [hr] at h1
  obtain ⟨st1, g1, p1, l1, w1⟩ := h1
  dsimp only at st1 g1 p1 l1 w1
  cases r1 with
  | pending =>
    dsimp only
    refine ⟨st1, g1, p1, ?_, ?_⟩
    · intro _ hc; exact w1 rfl hc
    · intro h; cases h
  | err e =>
    dsimp only
    refine ⟨st1, g1, p1, ?_, ?_⟩
    · intro h; cases h
    · intro h; cases h
  | ok =>
    dsimp only
    unfold settingsLocalPart
    have h2 := settingsLocalSend_spec ({ c1 with settings := { c1.settings with remote := none } })
    have st0 : CodecStep c1 ({ c1 with settings := { c1.settings with remote := none } }) := .of_codec_eq rfl rfl
    obtain ⟨st2, g2, p2, r2, w2, l2⟩ := h2
    refine ⟨st1.trans (st0.trans st2), g2.trans g1, p2.trans p1, ?_, ?_⟩
    · intro hp hc; exact w2 hp (st1.cap hc)
    · intro hok; exact ⟨r2, l2 hok⟩


-- ===================================================================== `send_pending_refusal`

theorem sendPendingRefusal_cap {s : Streams} {w : Writer} (hc : w.hasCapacity = true) :
    (s.sendPendingRefusal w).2.2 = .complete ∧ (s.sendPendingRefusal w).1.recv.refused = none ∧
    (CapOK w → CapOK (s.sendPendingRefusal w).2.1) := by
  unfold Streams.sendPendingRefusal
  cases hr : s.recv.refused with
  | none => exact ⟨rfl, hr, id⟩
  | some sid =>
    dsimp only
    rw [hc]
    exact ⟨rfl, rfl, fun h => h.bufferSimple _ _⟩

theorem sendPendingRefusal_full {s : Streams} {w : Writer} (hc : w.hasCapacity = false) :
    ((s.sendPendingRefusal w).2.2 = .complete → (s.sendPendingRefusal w).1.recv.refused = none) ∧
    (s.sendPendingRefusal w).1 = s ∧ (s.sendPendingRefusal w).2.1 = w := by
  unfold Streams.sendPendingRefusal
  cases hr : s.recv.refused with
  | none => exact ⟨fun _ => hr, rfl, rfl⟩
  | some sid =>
    dsimp only
    rw [hc]
    refine ⟨?_, rfl, rfl⟩
    intro h; cases h

theorem refusal_eq (n : Nat) (s : Streams) (w : Writer) (io : Tio) (tag : String) :
    Streams.pollSendPendingRefusal (n + 1) s w io tag =
      match (s.sendPendingRefusal w).2.2 with
      | .complete => ((s.sendPendingRefusal w).1, (s.sendPendingRefusal w).2.1, io, .ready)
      | .codecFull =>
        match pollReadyW (s.sendPendingRefusal w).2.1 io tag with
        | (w1, io1, .ready) => Streams.pollSendPendingRefusal n (s.sendPendingRefusal w).1 w1 io1 tag
        | (w1, io1, r) => ((s.sendPendingRefusal w).1, w1, io1, r) := by
  rw [Streams.pollSendPendingRefusal]
  rcases s.sendPendingRefusal w with ⟨s1, w1, st⟩
  cases st <;> rfl

theorem refusal_cap {s : Streams} {w : Writer} (n : Nat) (io : Tio) (tag : String) (hc : w.hasCapacity = true) :
    (Streams.pollSendPendingRefusal (n + 1) s w io tag).2.2.2 = .ready ∧
    (Streams.pollSendPendingRefusal (n + 1) s w io tag).1.recv.refused = none ∧
    (Streams.pollSendPendingRefusal (n + 1) s w io tag).2.2.1 = io ∧
    (CapOK w → CapOK (Streams.pollSendPendingRefusal (n + 1) s w io tag).2.1) := by
  have h := sendPendingRefusal_cap (s := s) hc
  rw [refusal_eq, h.1]
  exact ⟨rfl, h.2.1, rfl, h.2.2⟩

theorem refusal_spec {s : Streams} {w : Writer} (n : Nat) (io : Tio) (tag : String) :
    ((Streams.pollSendPendingRefusal (n + 2) s w io tag).2.2.2 = .ready →
      (Streams.pollSendPendingRefusal (n + 2) s w io tag).1.recv.refused = none) ∧
    ((Streams.pollSendPendingRefusal (n + 2) s w io tag).2.2.2 = .pending → CapOK w →
      (Streams.pollSendPendingRefusal (n + 2) s w io tag).2.2.1.writeWaker = some tag) ∧
    (Streams.pollSendPendingRefusal (n + 2) s w io tag).2.2.1.readWaker = io.readWaker ∧
    ((Streams.pollSendPendingRefusal (n + 2) s w io tag).2.2.1.writeWaker = io.writeWaker ∨
      (Streams.pollSendPendingRefusal (n + 2) s w io tag).2.2.1.writeWaker = some tag) ∧
    (CapOK w → CapOK (Streams.pollSendPendingRefusal (n + 2) s w io tag).2.1) := by
  cases hc : w.hasCapacity with
  | true =>
    have := refusal_cap (s := s) (n + 1) io tag hc
    refine ⟨fun _ => this.2.1, fun h => ?_, by rw [this.2.2.1], Or.inl (by rw [this.2.2.1]), this.2.2.2⟩
    rw [this.1] at h; cases h
  | false =>
    have h := sendPendingRefusal_full (s := s) hc
    rw [refusal_eq]
    cases hst : (s.sendPendingRefusal w).2.2 with
    | complete =>
      dsimp only
      refine ⟨fun _ => h.1 hst, ?_, rfl, Or.inl rfl, ?_⟩
      · intro h; cases h
      · rw [h.2.2]; exact id
    | codecFull =>
      dsimp only
      rw [h.2.1, h.2.2]
      rcases hp : pollReadyW w io tag with ⟨w1, io1, r1⟩
      have hio := pollReadyW_io hp
      cases r1 with
      | ready =>
        dsimp only
        have := refusal_cap (s := s) n io1 tag (hio.2.2 rfl)
        refine ⟨fun _ => this.2.1, fun h => ?_, by rw [this.2.2.1]; exact hio.1, ?_, fun h => this.2.2.2 (h.ofPollReadyW hp)⟩
        · rw [this.1] at h; cases h
        · rw [this.2.2.1]; exact hio.2.1
      | pending =>
        dsimp only
        refine ⟨?_, fun _ hcap => pollReadyW_pending hcap hp, hio.1, hio.2.1, fun h => h.ofPollReadyW hp⟩
        intro h; cases h
      | err k =>
        dsimp only
        refine ⟨?_, ?_, hio.1, hio.2.1, fun h => h.ofPollReadyW hp⟩
        · intro h; cases h
        · intro h; cases h


-- ===================================================================== `Connection::poll_ready`

/-- nothing that `poll_ready` sends is owed any more -/
structure ReadyDone (c : Conn) : Prop where
  pong : c.pingPong.pendingPong = none
  ping : PingIdle c.pingPong c.cx
  remote : c.settings.remote = none
  loc : ∀ v, c.settings.loc ≠ .toSend v
  refused : c.streams.recv.refused = none

theorem pollReady_spec (c : Conn) :
    CodecStep c c.pollReady.1 ∧ c.pollReady.1.goAway = c.goAway ∧
    (c.pollReady.2 = .pending → CapOK c.codec.w → WriteParked c.pollReady.1) ∧
    (c.pollReady.2 = .ok → ReadyDone c.pollReady.1) := by
  unfold Conn.pollReady
  have h1 := sendPendingPong_spec c
  rcases hr1 : c.sendPendingPong with ⟨c1, r1⟩
  rw [hr1] at h1
  obtain ⟨st1, g1, s1, t1, pi1, up1, w1, ok1⟩ := h1
  dsimp only at st1 g1 s1 t1 pi1 up1 w1 ok1
  cases r1 with
  | pending => dsimp only; exact ⟨st1, g1, fun _ hc => w1 rfl hc, (fun h => nomatch h)⟩
  | err e => dsimp only; exact ⟨st1, g1, (fun h => nomatch h), (fun h => nomatch h)⟩
  | ok =>
    dsimp only
    have h2 := sendPendingPing_spec c1
    rcases hr2 : c1.sendPendingPing with ⟨c2, r2⟩
    rw [hr2] at h2
    obtain ⟨st2, g2, s2, t2, po2, w2, ok2⟩ := h2
    dsimp only at st2 g2 s2 t2 po2 w2 ok2
    cases r2 with
    | pending => dsimp only; exact ⟨st1.trans st2, g2.trans g1, fun _ hc => w2 rfl (st1.cap hc), (fun h => nomatch h)⟩
    | err e => dsimp only; exact ⟨st1.trans st2, g2.trans g1, (fun h => nomatch h), (fun h => nomatch h)⟩
    | ok =>
      dsimp only
      have h3 := settingsPollSend_spec c2
      rcases hr3 : c2.settingsPollSend with ⟨c3, r3⟩
      rw [hr3] at h3
      obtain ⟨st3, g3, p3, w3, ok3⟩ := h3
      dsimp only at st3 g3 p3 w3 ok3
      cases r3 with
      | pending =>
        dsimp only
        exact ⟨st1.trans (st2.trans st3), g3.trans (g2.trans g1), fun _ hc => w3 rfl (st2.cap (st1.cap hc)), (fun h => nomatch h)⟩
      | err e =>
        dsimp only
        exact ⟨st1.trans (st2.trans st3), g3.trans (g2.trans g1), (fun h => nomatch h), (fun h => nomatch h)⟩
      | ok =>
        dsimp only
        have h4 := refusal_spec (s := c3.streams) (w := c3.codec.w) 2 c3.codec.io c3.cx
        rcases hr4 : Streams.pollSendPendingRefusal 4 c3.streams c3.codec.w c3.codec.io c3.cx with ⟨s4, w4, io4, r4⟩
        rw [hr4] at h4
        obtain ⟨ok4, pe4, rd4, wr4, cap4⟩ := h4
        dsimp only at ok4 pe4 rd4 wr4 cap4 ⊢
        have st4 : CodecStep c3 { c3 with streams := s4, codec := { c3.codec with w := w4, io := io4 } } := by
          refine ⟨rfl, cap4, rd4, ?_⟩
          intro hw
          unfold WriteParked at *
          rcases wr4 with e | e
          · show io4.writeWaker = _; rw [e]; exact hw
          · exact e
        have cx3 : c3.cx = c.cx := st3.cx.trans (st2.cx.trans st1.cx)
        refine ⟨st1.trans (st2.trans (st3.trans st4)), g3.trans (g2.trans g1), ?_, ?_⟩
        · intro hp hc
          cases r4 with
          | pending => exact pe4 rfl (st3.cap (st2.cap (st1.cap hc)))
          | ready => cases hp
          | err k => cases hp
        · intro hok
          cases r4 with
          | pending => cases hok
          | err k => cases hok
          | ready =>
            refine ⟨?_, ?_, (ok3 rfl).1, (ok3 rfl).2, ok4 rfl⟩
            · show c3.pingPong.pendingPong = none
              rw [p3, po2]; exact ok1 rfl
            · show PingIdle c3.pingPong c3.cx
              rw [p3, st3.cx, st2.cx]; exact ok2 rfl

end H2V.Lemmas.ConnDrainP
