import H2V.Lemmas.ConnCtlPViewSend2
import H2V.Lemmas.ConnCtlPViewFrames
/-
  ConnCtlP, view lemmas part 5 — the rest of ConnStreams.lean: writing (`bufferPending`,
  `pollComplete`, `pollSendPendingRefusal`) and the handle methods (`send_request`, `StreamRef::*`,
  `OpaqueStreamRef::*`, `drop_stream_ref`, …).  All of them are plain frame lemmas: none writes a
  field of the view.
-/
set_option autoImplicit false
set_option linter.unusedSimpArgs false
namespace H2V.Lemmas.ConnCtlP
open H2V H2V.Model H2V.Model.Conn

-- ===================================================================== writing

@[simp] theorem view_bufferPending (fuel : Nat) (s : Streams) (w : Writer) :
    view (Streams.bufferPending fuel s w).1 = view s := by
  unfold Streams.bufferPending; view_auto

@[simp] theorem view_pollComplete (fuel : Nat) (s : Streams) (w : Writer) (io : Tio) (tag : String) :
    view (Streams.pollComplete fuel s w io tag).1 = view s := by
  induction fuel generalizing s w io with
  | zero => simp [Streams.pollComplete]
  | succ n ih => unfold Streams.pollComplete; view_auto

@[simp] theorem view_pollSendPendingRefusal' (fuel : Nat) (s : Streams) (w : Writer) (io : Tio) (tag : String) :
    view (Streams.pollSendPendingRefusal fuel s w io tag).1 = view s := by
  induction fuel generalizing s w io with
  | zero => simp [Streams.pollSendPendingRefusal]
  | succ n ih => unfold Streams.pollSendPendingRefusal; view_auto

-- ===================================================================== handles

@[simp] theorem view_refInc (s : Streams) (id : Nat) : view (s.refInc id) = view s := by
  unfold Streams.refInc; simp

@[simp] theorem view_cloneStreamRef (s : Streams) (id : Nat) : view (s.cloneStreamRef id) = view s := by
  unfold Streams.cloneStreamRef; simp

@[simp] theorem view_maybeCancel (s : Streams) (id : Nat) : view (s.maybeCancel id) = view s := by
  unfold Streams.maybeCancel; view_auto

/-- a `fold` whose step keeps the view keeps the view -/
theorem view_foldl (l : List Nat) (f : Streams → Nat → Streams) (hf : ∀ s a, view (f s a) = view s) (s : Streams) :
    view (l.foldl f s) = view s := by
  induction l generalizing s with
  | nil => rfl
  | cons a l ih => rw [List.foldl_cons, ih, hf]

/-- the `fold` over the pending push promises in `drop_stream_ref` (the shape it had before the model
    change of the afternoon; kept for reference) -/
theorem view_dropPromises (l : List Nat) (s : Streams) :
    view (l.foldl (fun s promise =>
        let s := s.modStream promise fun st => { st with isPendingAccept := false }
        (s.transition promise fun s => (s.maybeCancel promise, ())).1) s) = view s :=
  view_foldl l _ (fun s a => by
    dsimp only
    rw [view_transition _ _ _ (fun s => by simp)]
    simp) s

@[simp] theorem view_dropStreamRef (s : Streams) (id : Nat) : view (s.dropStreamRef id) = view s := by
  unfold Streams.dropStreamRef
  dsimp only
  rw [view_transition]
  · view_auto
  · intro s
    split
    · rw [view_foldl]
      · simp
      · intro s a
        rw [view_transition _ _ _ (fun s => by dsimp only; split <;> simp)]
        simp
    · simp

@[simp] theorem view_sendRequest (s : Streams) (isHead : Bool) (fields : List Hpack.Field) (eos : Bool) (pending : Option Nat) :
    view (s.sendRequest isHead fields eos pending).1 = view s := by
  unfold Streams.sendRequest; view_auto

@[simp] theorem view_pollPendingOpen (s : Streams) (pending : Option Nat) (tag : String) :
    view (s.pollPendingOpen pending tag).1 = view s := by
  unfold Streams.pollPendingOpen; view_auto

@[simp] theorem view_nextIncoming (s : Streams) : view s.nextIncoming.1 = view s := by
  unfold Streams.nextIncoming; view_auto

@[simp] theorem view_refSendResponse (s : Streams) (k : Nat) (fields : List Hpack.Field) (eos : Bool) :
    view (s.refSendResponse k fields eos).1 = view s := by
  unfold Streams.refSendResponse; exact view_transition _ _ _ (fun s => by simp)

@[simp] theorem view_refSendInformationalHeaders (s : Streams) (k : Nat) (fields : List Hpack.Field) :
    view (s.refSendInformationalHeaders k fields).1 = view s := by
  unfold Streams.refSendInformationalHeaders; exact view_transition _ _ _ (fun s => by simp)

@[simp] theorem view_refSendPushPromise (s : Streams) (parent : Nat) (valid : Bool) (fields : List Hpack.Field) :
    view (s.refSendPushPromise parent valid fields).1 = view s := by
  unfold Streams.refSendPushPromise; view_auto

@[simp] theorem view_cloneHandle (s : Streams) : view s.cloneHandle = view s := rfl

@[simp] theorem view_dropHandle (s : Streams) : view s.dropHandle = view s := by
  unfold Streams.dropHandle; view_auto

@[simp] theorem view_refSendData (s : Streams) (id len : Nat) (eos : Bool) : view (s.refSendData id len eos).1 = view s := by
  unfold Streams.refSendData; exact view_transition _ _ _ (fun s => by simp)

@[simp] theorem view_refSendTrailers (s : Streams) (id : Nat) (fields : List Hpack.Field) :
    view (s.refSendTrailers id fields).1 = view s := by
  unfold Streams.refSendTrailers; exact view_transition _ _ _ (fun s => by simp)

@[simp] theorem view_refSendReset (s : Streams) (id : Nat) (reason : Reason) : view (s.refSendReset id reason) = view s := by
  unfold Streams.refSendReset; view_auto

@[simp] theorem view_refReserveCapacity (s : Streams) (id cap : Nat) : view (s.refReserveCapacity id cap) = view s := by
  unfold Streams.refReserveCapacity; simp

@[simp] theorem view_releaseDataFrame (s : Streams) (n : Nat) :
    view (s.modCounts fun c => c.releaseDataFrame n) = view s :=
  view_modCounts s _ (fun c => releaseDataFrame_keep c n)

@[simp] theorem view_refPollData (s : Streams) (id : Nat) (tag : String) : view (s.refPollData id tag).1 = view s := by
  unfold Streams.refPollData; view_auto

@[simp] theorem view_refReleaseCapacity (s : Streams) (id cap : Nat) : view (s.refReleaseCapacity id cap).1 = view s := by
  unfold Streams.refReleaseCapacity; simp

@[simp] theorem view_refClearRecvBuffer (s : Streams) (id : Nat) : view (s.refClearRecvBuffer id) = view s := by
  unfold Streams.refClearRecvBuffer; simp

@[simp] theorem view_refPollPushed (s : Streams) (id : Nat) (t : String) : view (s.refPollPushed id t).1 = view s := by
  unfold Streams.refPollPushed
  rcases h : s.recvPollPushed id t with ⟨s1, r⟩
  have hv : view s1 = view s := by
    have := view_recvPollPushed s id t; rw [h] at this; exact this
  cases r <;> simp [hv]

end H2V.Lemmas.ConnCtlP
