import H2V.Lemmas.ConnNoPanicPDsStep
/-
  C08 (no panic) — `DSum` / `Coupled` as invariants, part 8: `KM` (the marker names the stream of the DATA frame the
  codec holds) through the write path: `Streams::poll_complete`, `Streams::send_pending_refusal`.  No hypothesis:
  `dst.buffer(frame)` sets marker and frame together while the codec holds nothing else, `reclaim_frame` clears the marker,
  everything else only drops the marker (`clear_queue`) or lets the codec hold less (`flush`).
-/
namespace H2V.Lemmas.ConnNoPanicP
open H2V H2V.Model H2V.Model.Conn H2V.Lemmas.ConnCountsP
attribute [local irreducible] wrapSubU32 wrapSubUsize

theorem reclaimFrameInner_marker (s : Streams) (fr : DataFrame) :
    (s.reclaimFrameInner fr).1.prio.inFlightDataFrame = .nothing := by
  unfold Streams.reclaimFrameInner
  dsimp only
  split
  · rw [panic_prioP]; rfl
  · rfl
  · split
    · split
      · rw [(qPush_uk _ _ _ (by decide)).nf, modStream_prio]; rfl
      · rw [modStream_prio]; rfl
    · rfl

/-- **`Prioritize::reclaim_frame`** -/
theorem reclaimFrame_km {s : Streams} {w : Writer} (h : KM s w) :
    KM (s.reclaimFrame w).1 (s.reclaimFrame w).2.1 ∧ (s.reclaimFrame w).2.1 = { w with lastDataFrame := none } := by
  unfold Streams.reclaimFrame Writer.takeLastDataFrame
  cases hld : w.lastDataFrame with
  | none =>
    refine ⟨?_, rfl⟩
    dsimp only
    exact h.wle ⟨fun _ => .inl rfl, fun fr hf => by
      rcases hf with e | ⟨nd, e, e2⟩
      · cases e
      · exact .inr ⟨nd, e, e2⟩⟩
  | some fr =>
    dsimp only
    exact ⟨.of_nothing (reclaimFrameInner_marker s fr), rfl⟩

theorem bufferData_cases {w w' : Writer} {len : Nat} {e : Bool} {fr : DataFrame} (h : w.bufferData len e fr = some w') :
    (w'.lastDataFrame = some fr ∧ w'.next = w.next) ∨
    (w'.lastDataFrame = w.lastDataFrame ∧ ∃ nd, w'.next = some nd ∧ nd.frame = fr) := by
  unfold Writer.bufferData at h
  split at h
  · cases h
  · dsimp only at h
    split at h
    · split at h
      · cases h; exact .inr ⟨rfl, _, rfl, rfl⟩
      · cases h; exact .inr ⟨rfl, _, rfl, rfl⟩
    · cases h; exact .inl ⟨rfl, rfl⟩

/-- **`dst.buffer(frame)`** while the codec holds no DATA frame -/
theorem bufferOut_km (s : Streams) {w : Writer} (f : Streams.OutFrame) (hw1 : w.lastDataFrame = none) (hw2 : w.next = none) :
    KM (s.bufferOut w f).1 (s.bufferOut w f).2 := by
  unfold Streams.bufferOut
  cases f with
  | data len e fr =>
    dsimp only
    cases hb : w.bufferData len e fr with
    | none => dsimp only; exact .of_none hw1 hw2
    | some w' =>
      dsimp only
      intro fr' hf k hk
      have hk' : k = fr.key := by
        have : InFlightData.dataFrame fr.key = InFlightData.dataFrame k := hk
        cases this; rfl
      rw [hk']
      rcases bufferData_cases hb with ⟨h1, h2⟩ | ⟨h1, nd, h2, h3⟩
      · rcases hf with e1 | ⟨nd', e1, _⟩
        · rw [h1] at e1; cases e1; rfl
        · rw [h2, hw2] at e1; cases e1
      · rcases hf with e1 | ⟨nd', e1, e2⟩
        · rw [h1, hw1] at e1; cases e1
        · rw [h2] at e1; cases e1; rw [← e2, h3]
  | headers sid eos fields =>
    exact .of_none ((bufferHeaders_keeps _ _ _ _).1.trans hw1) ((bufferHeaders_keeps _ _ _ _).2.trans hw2)
  | reset sid reason => exact .of_none hw1 hw2
  | pushPromise sid p fields =>
    exact .of_none ((bufferPushPromise_keeps _ _ _ _).1.trans hw1) ((bufferPushPromise_keeps _ _ _ _).2.trans hw2)

/-- **the loop of `Prioritize::buffer_pending`** -/
theorem prioBufferPendingLoop_km (fuel : Nat) : ∀ {s : Streams} {w : Writer}, KM s w → w.lastDataFrame = none →
    KM (Streams.prioBufferPendingLoop fuel s w).1 (Streams.prioBufferPendingLoop fuel s w).2.1 := by
  induction fuel with
  | zero =>
    intro s w h _
    unfold Streams.prioBufferPendingLoop
    exact h.nf (.inl (by rw [panic_prioP]))
  | succ n ih =>
    intro s w h hw1
    unfold Streams.prioBufferPendingLoop
    split
    · exact h
    · next hcap =>
      have hw2 : w.next = none := hasCapacity_nextP (by simpa using hcap)
      dsimp only
      generalize (match s.popPendingOpen with
        | (s, some id) => ((s.qPushFront .pendingSend id).1).tryAssignCapacity id
        | (s, none) => s) = s1
      split
      · next s2 f heq =>
        have hb := bufferOut_km s2 f hw1 hw2
        generalize s2.bufferOut w f = p at hb ⊢
        obtain ⟨s3, w3⟩ := p
        have hr := reclaimFrame_km hb
        generalize s3.reclaimFrame w3 = q at hr ⊢
        obtain ⟨s4, w4, b4⟩ := q
        dsimp only at hr
        exact ih hr.1 (by rw [hr.2])
      · exact .of_none hw1 hw2

theorem prioBufferPending_km (fuel : Nat) {s : Streams} {w : Writer} (h : KM s w) :
    KM (Streams.prioBufferPending fuel s w).1 (Streams.prioBufferPending fuel s w).2.1 := by
  unfold Streams.prioBufferPending
  have hr := reclaimFrame_km h
  generalize s.reclaimFrame w = q at hr ⊢
  obtain ⟨s1, w1, b1⟩ := q
  dsimp only at hr
  exact prioBufferPendingLoop_km fuel hr.1 (by rw [hr.2])

theorem bufferPending_km (fuel : Nat) {s : Streams} {w : Writer} (h : KM s w) :
    KM (Streams.bufferPending fuel s w).1 (Streams.bufferPending fuel s w).2.1 := by
  unfold Streams.bufferPending
  have h1 : KM (s.recvBufferPending w).1 (s.recvBufferPending w).2.1 :=
    (h.nf (recvBufferPending_fk s w).nf).wle (recvBufferPending_wle s w)
  split
  · next s1 w1 heq => rw [heq] at h1; exact h1
  · next s1 w1 heq => rw [heq] at h1; exact prioBufferPending_km fuel h1

/-- **`Streams::poll_complete` keeps `KM`** -/
theorem pollComplete_km (fuel : Nat) : ∀ {s : Streams} {w : Writer}, KM s w → ∀ (io : Tio) (tag : String),
    KM (Streams.pollComplete fuel s w io tag).1 (Streams.pollComplete fuel s w io tag).2.1 := by
  induction fuel with
  | zero =>
    intro s w h io tag
    unfold Streams.pollComplete
    exact h.nf (.inl (by rw [panic_prioP]))
  | succ n ih =>
    intro s w h io tag
    unfold Streams.pollComplete
    have hw1 := pollReadyW_wle w io tag
    split
    · next w1 io1 heq =>
      rw [heq] at hw1
      have hb := bufferPending_km (n + 1) (h.wle hw1)
      generalize Streams.bufferPending (n + 1) s w1 = r at hb ⊢
      obtain ⟨s2, w2, status⟩ := r
      dsimp only at hb ⊢
      cases status with
      | codecFull => exact ih hb io1 tag
      | complete =>
        dsimp only
        have hfl := (flush_wle w2 io1 tag).1
        have h3 : KM ({ s2 with actions := { s2.actions with task := some tag } } : Streams) w2 := hb.nf (.inl rfl)
        split
        · next w3 io3 heq3 =>
          rw [heq3] at hfl
          have h4 := reclaimFrame_km (h3.wle hfl)
          generalize Streams.reclaimFrame _ w3 = q at h4 ⊢
          obtain ⟨s4, w4, b4⟩ := q
          dsimp only at h4 ⊢
          split
          · exact h4.1
          · exact ih h4.1 io3 tag
        · next w3 io3 r3 hne heq3 =>
          rw [heq3] at hfl
          exact h3.wle hfl
    · next w1 io1 r1 hne heq =>
      rw [heq] at hw1
      exact h.wle hw1

/-- **`Streams::send_pending_refusal` keeps `KM`** -/
theorem pollSendPendingRefusal_km (fuel : Nat) : ∀ {s : Streams} {w : Writer}, KM s w → ∀ (io : Tio) (tag : String),
    KM (Streams.pollSendPendingRefusal fuel s w io tag).1 (Streams.pollSendPendingRefusal fuel s w io tag).2.1 := by
  induction fuel with
  | zero => intro s w h io tag; unfold Streams.pollSendPendingRefusal; exact h
  | succ n ih =>
    intro s w h io tag
    unfold Streams.pollSendPendingRefusal
    have hpr : (s.sendPendingRefusal w).1.prio = s.prio := by
      unfold Streams.sendPendingRefusal; split
      · split <;> rfl
      · rfl
    have hw : WLE w (s.sendPendingRefusal w).2.1 := by
      unfold Streams.sendPendingRefusal; split
      · split
        · exact .refl _
        · exact .of_eq rfl rfl
      · exact .refl _
    have h1 : KM (s.sendPendingRefusal w).1 (s.sendPendingRefusal w).2.1 := (h.nf (.inl (by rw [hpr]))).wle hw
    split
    · next s1 w1 heq => rw [heq] at h1; exact h1
    · next s1 w1 heq =>
      rw [heq] at h1
      have hw' := pollReadyW_wle w1 io tag
      split
      · next w2 io2 heq2 => rw [heq2] at hw'; exact ih (h1.wle hw') io2 tag
      · next w2 io2 r2 hne heq2 => rw [heq2] at hw'; exact h1.wle hw'

-- ===================================================================== together with np-poll's `WI`

/-- **the write path**: from `WI` (np-poll) and `KM`: out of (model) fuel, or `WI` and `KM` again -/
theorem pollComplete_wk {E : Nat → Prop} {g : ConnRecvP.Ghost} (fuel : Nat) {s : Streams} {w : Writer} (h : WI E g s w)
    (hk : KM s w) (io : Tio) (tag : String) :
    OutOfFuel (Streams.pollComplete fuel s w io tag).1 ∨
    (WI E g (Streams.pollComplete fuel s w io tag).1 (Streams.pollComplete fuel s w io tag).2.1 ∧
     KM (Streams.pollComplete fuel s w io tag).1 (Streams.pollComplete fuel s w io tag).2.1) := by
  rcases pollComplete_w fuel h io tag with h' | h'
  · exact .inl h'
  · exact .inr ⟨h', pollComplete_km fuel hk io tag⟩

theorem pollSendPendingRefusal_wk {E : Nat → Prop} {g : ConnRecvP.Ghost} (fuel : Nat) {s : Streams} {w : Writer}
    (h : WI E g s w) (hk : KM s w) (io : Tio) (tag : String) :
    WI E g (Streams.pollSendPendingRefusal fuel s w io tag).1 (Streams.pollSendPendingRefusal fuel s w io tag).2.1 ∧
    KM (Streams.pollSendPendingRefusal fuel s w io tag).1 (Streams.pollSendPendingRefusal fuel s w io tag).2.1 :=
  ⟨pollSendPendingRefusal_w fuel h io tag, pollSendPendingRefusal_km fuel hk io tag⟩

end H2V.Lemmas.ConnNoPanicP
