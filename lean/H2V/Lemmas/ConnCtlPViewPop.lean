import H2V.Lemmas.ConnCtlPViewSend
/-
  ConnCtlP, view lemmas — `Prioritize::pop_frame`.  Its body is so large that `unfold` / the equation
  lemmas / an `rfl` against a copy that mentions `Streams.popFrame fuel` are rejected by the kernel
  ("deep recursion").  The structural recursion is opened by hand instead: `popFrame n = Nat.brecOn n
  popFrame._f`, and for the functional `popFrame._f (n+1) b s m = popBody b.1 s m` IS accepted as `rfl`
  (`popBody`: a copy of the loop body with the recursive call abstracted and the two straight-line
  parts `popFinish`, `popSendData` factored out; the recursive call of the functional is `b.1`).  That
  one `rfl` takes about two minutes; everything else is cheap.
-/
set_option autoImplicit false
set_option linter.unusedSimpArgs false
namespace H2V.Lemmas.ConnCtlP
open H2V H2V.Model H2V.Model.Conn

/-- induction over a structural recursion on `Nat` opened by hand -/
theorem brecOn_go_ind {M : Type} (F : (t : Nat) → Nat.below (motive := fun _ => M) t → M) (P : M → Prop)
    (h0 : P (F 0 PUnit.unit))
    (hs : ∀ n (b : Nat.below (motive := fun _ => M) (n + 1)), P b.1 → P (F (n + 1) b)) :
    ∀ n, P (Nat.brecOn (motive := fun _ => M) n F) := by
  intro n
  show P (Nat.brecOn.go (motive := fun _ => M) n F).1
  induction n with
  | zero => exact h0
  | succ n ih => exact hs n (Nat.brecOn.go (motive := fun _ => M) n F) ih

/-- `finish` of `popFrame` -/
def popFinish (id : Nat) (isPendingReset : Bool) (s : Streams) (f : Streams.OutFrame) : Streams × Option Streams.OutFrame :=
  let st := s.stream id
  let s := if !st.pendingSend.isEmpty || st.state.isScheduledReset then (s.qPush .pendingSend id).1 else s
  (s.transitionAfter id isPendingReset, some f)

/-- the DATA arm once a frame is really sent -/
def popSendData (id : Nat) (isPendingReset : Bool) (stId sz : Nat) (eos : Bool) (rest : List SFrame) (len : Nat)
    (s : Streams) : Streams × Option Streams.OutFrame :=
  let s := s.modStream id fun st => { st with pendingSend := rest }
  let (st', w, bad) := (s.stream id).sendData len s.prio.maxBufferSize
  let s := (s.setStream st').wake w
  let s := if bad then s.panic "assertion failed: self.window_size.0 >= sz as i32 (stream)" else s
  let s := s.modPrio fun p => { p with flow := (p.flow.assignCapacity len).1 }
  let (fl, r) := s.prio.flow.sendData len
  let s := s.modPrio fun p => { p with flow := fl }
  let s := match r with
    | .error .assertFailed => s.panic "assertion failed: self.window_size.0 >= sz as i32 (connection)"
    | _ => s
  let flagEos := if sz > len then false else eos
  popFinish id isPendingReset s (.data len flagEos { key := id, sid := stId, rest := sz - len, eos := eos })

/-- the body of `popFrame (fuel+1)` with the recursive call abstracted -/
def popBody (rec : Streams → Nat → Streams × Option Streams.OutFrame) (s : Streams) (maxLen : Nat) :
    Streams × Option Streams.OutFrame :=
  match s.qPop .pendingSend with
  | (s, none) => (s, none)
  | (s, some id) =>
    let st := s.stream id
    let isPendingReset := st.isPendingResetExpiration
    match st.pendingSend with
    | .data sz eos :: rest =>
      let discard : Bool := match st.state.getScheduledReset with
        | some reason => reason != NO_ERROR
        | none => false
      if discard then
        let s := (s.clearQueue id).reclaimAllCapacity id
        rec (s.qPush .pendingSend id).1 maxLen
      else
        let streamCapacity := st.sendFlow.available
        if sz > 0 && streamCapacity.eqUsize 0 then
          rec s maxLen
        else
          let len := usizeAsU32 (min (min sz maxLen) streamCapacity.asSize)
          if len > 0 && len > st.sendFlow.windowSz then
            rec s maxLen
          else popSendData id isPendingReset st.id sz eos rest len s
    | .headers heos fields :: rest =>
      popFinish id isPendingReset (s.modStream id fun st => { st with pendingSend := rest }) (.headers st.id heos fields)
    | .reset reason :: rest =>
      popFinish id isPendingReset (s.modStream id fun st => { st with pendingSend := rest }) (.reset st.id reason)
    | .pushPromise pk pid fields :: rest =>
      let s := s.modStream id fun st => { st with pendingSend := rest }
      match s.store.findKey? pid with
      | none =>
        let st := s.stream id
        let s := if !st.pendingSend.isEmpty || st.state.isScheduledReset then (s.qPush .pendingSend id).1 else s
        rec (s.transitionAfter id isPendingReset) maxLen
      | some pushed =>
        let _ := pk
        let s := s.modStream pushed fun st => { st with isPendingPush := false }
        let s :=
          if !(s.stream pushed).pendingSend.isEmpty then
            if s.counts.canIncNumSendStreams then (((s.incNumSendStreams pushed).qPush .pendingSend pushed).1)
            else s.queueOpen pushed
          else s
        popFinish id isPendingReset s (.pushPromise st.id pid fields)
    | [] =>
      match st.state.getScheduledReset with
      | some reason =>
        let s := s.modStreamW id fun st => st.setReset reason .library
        popFinish id isPendingReset s (.reset st.id reason)
      | none =>
        rec (s.transitionAfter id isPendingReset) maxLen

theorem popFrame_f_succ (n : Nat) (b : Nat.below (motive := fun _ => Streams → Nat → Streams × Option Streams.OutFrame) (n + 1))
    (s : Streams) (m : Nat) : Streams.popFrame._f (n + 1) b s m = popBody b.1 s m := rfl


@[simp] theorem view_popFinish (id : Nat) (b : Bool) (s : Streams) (f : Streams.OutFrame) :
    view (popFinish id b s f).1 = view s := by
  unfold popFinish
  dsimp only
  split <;> simp

@[simp] theorem view_popSendData (id : Nat) (b : Bool) (stId sz : Nat) (eos : Bool) (rest : List SFrame) (len : Nat)
    (s : Streams) : view (popSendData id b stId sz eos rest len s).1 = view s := by
  unfold popSendData
  dsimp only
  rw [view_popFinish]
  (repeat' split) <;> simp

theorem view_popBody (rec : Streams → Nat → Streams × Option Streams.OutFrame)
    (hrec : ∀ s m, view (rec s m).1 = view s) (s : Streams) (maxLen : Nat) :
    view (popBody rec s maxLen).1 = view s := by
  unfold popBody
  rcases hq : s.qPop .pendingSend with ⟨s1, o⟩
  have hv1 : view s1 = view s := by
    have := view_qPop s .pendingSend; rw [hq] at this; exact this
  cases o with
  | none => exact hv1
  | some id =>
    dsimp only
    rw [← hv1]
    split
    · split
      · rw [hrec]; simp
      · split
        · rw [hrec]
        · split
          · rw [hrec]
          · rw [view_popSendData]
    · rw [view_popFinish]; simp
    · rw [view_popFinish]; simp
    · split
      · rw [hrec]; simp
        split <;> simp
      · rw [view_popFinish]
        (repeat' split) <;> simp
    · split
      · rw [view_popFinish]; simp
      · rw [hrec]; simp

@[simp] theorem view_popFrame (fuel : Nat) (s : Streams) (maxLen : Nat) :
    view (Streams.popFrame fuel s maxLen).1 = view s := by
  have key : ∀ (s : Streams) (maxLen : Nat),
      view ((Nat.brecOn (motive := fun _ => Streams → Nat → Streams × Option Streams.OutFrame) fuel
        Streams.popFrame._f) s maxLen).1 = view s := by
    apply brecOn_go_ind Streams.popFrame._f (fun f => ∀ (s : Streams) (maxLen : Nat), view (f s maxLen).1 = view s)
    · intro s m; rfl
    · intro n b hb s m
      rw [popFrame_f_succ]
      exact view_popBody b.1 hb s m
  have h := key s maxLen
  delta Streams.popFrame
  exact h

end H2V.Lemmas.ConnCtlP
