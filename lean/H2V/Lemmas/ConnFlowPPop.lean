import H2V.Lemmas.ConnFlowPWin
/-
  ConnFlowP, part 13 — what `pop_frame` does to the windows: the relational specification `PopRel`.

  If `pop_frame` hands out a DATA frame of `len` octets for the stream with store key `k`, there is
  the state `s1` at the moment the chunk was cut (reached from the entry state by window-frame steps
  only: queue handling, discarded frames of reset streams, capacity handed back) such that
    * `len ≤ max_len`, `len ≤` the stream's assigned capacity, and `len = 0` or `len ≤` the stream's
      send window (`DataCut`);
    * the connection window and the stream's window and capacity are charged exactly `len`, nothing
      else changes (`Charged`).
  If it hands out anything else (or nothing), no window changed at all.
-/
namespace H2V.Lemmas.ConnFlowP
open H2V H2V.Model H2V.Model.Conn H2V.Lemmas.Comp

/-- the chunk cut off the front DATA frame fits -/
structure DataCut (s1 : Streams) (k len maxLen : Nat) : Prop where
  le_max : len ≤ maxLen
  le_cap : len ≤ (s1.stream k).sendFlow.available.asSize
  le_win : len = 0 ∨ len ≤ (s1.stream k).sendFlow.windowSz

/-- `len` octets charged to stream `k` and to the connection, nothing else touched -/
structure Charged (s1 s' : Streams) (k len : Nat) : Prop where
  conn_window : s'.prio.flow.windowSize.val = s1.prio.flow.windowSize.val - len
  conn_avail : s'.prio.flow.available = s1.prio.flow.available
  streams : KeysOk s1.store → KeysOk s'.store ∧
    ∀ y ∈ s'.store.slab,
      (∃ x ∈ s1.store.slab, x.key = y.key ∧
        y.sendFlow.windowSize.val = x.sendFlow.windowSize.val - (if x.key = k then (len : Int) else 0) ∧
        y.sendFlow.available.val = x.sendFlow.available.val - (if x.key = k then (len : Int) else 0)) ∨
      s1.store.nextKey ≤ y.key

theorem Charged.fr {s1 s2 s' : Streams} {k len : Nat} (h : Charged s1 s2 k len) (hn : s2.store.nextKey = s1.store.nextKey)
    (hf : Fr s2 s') : Charged s1 s' k len := by
  refine ⟨by rw [hf.1]; exact h.conn_window, by rw [hf.1]; exact h.conn_avail, fun hk => ?_⟩
  obtain ⟨hk2, hm2⟩ := h.streams hk
  obtain ⟨hk', hn', hm'⟩ := hf.2.2 hk2
  refine ⟨hk', fun y hy => ?_⟩
  rcases hm' y hy with ⟨x, hx, hkey, hfl⟩ | ⟨hkey, _⟩
  · rcases hm2 x hx with ⟨w, hw, hk1, hw1, ha1⟩ | hfresh
    · exact Or.inl ⟨w, hw, hk1.trans hkey, by rw [← hfl]; exact hw1, by rw [← hfl]; exact ha1⟩
    · exact Or.inr (hkey ▸ hfresh)
  · exact Or.inr (hn ▸ hkey)

/-- the relational specification of `pop_frame` -/
def PopRel (s : Streams) (maxLen : Nat) (r : Streams × Option Streams.OutFrame) : Prop :=
  match r.2 with
  | some (.data len _ fr) =>
    ∃ s1, WFr s s1 ∧ SafeInv s1 ∧ DataCut s1 fr.key len maxLen ∧ Charged s1 r.1 fr.key len
  | _ => WFr s r.1

theorem PopRel.wfr {s t : Streams} {m : Nat} {r : Streams × Option Streams.OutFrame} (h : WFr s t)
    (hr : PopRel t m r) : PopRel s m r := by
  unfold PopRel at *
  split
  · rename_i len _ fr heq
    rw [heq] at hr
    obtain ⟨s1, h1, h2, h3, h4⟩ := hr
    exact ⟨s1, h.trans h1, h2, h3, h4⟩
  · rename_i hne
    split at hr
    · rename_i heq; exact absurd heq (hne _ _ _)
    · exact h.trans hr

theorem set_set (a : Store) {st1 st' : Stream} (hk : st1.key = st'.key) : (a.set st1).set st' = a.set st' := by
  unfold Store.set
  simp only [List.map_map]
  congr 1
  apply List.map_congr_left
  intro x _
  simp only [Function.comp]
  by_cases hx : x.key = st1.key
  · have e1 : (x.key == st1.key) = true := by simpa using hx
    have e2 : (st1.key == st'.key) = true := by simpa using hk
    have e3 : (x.key == st'.key) = true := by simpa using hx.trans hk
    simp only [e1, if_true, e2, e3]
  · have e1 : (x.key == st1.key) = false := by simpa using hx
    have e3 : (x.key == st'.key) = false := by rw [← hk]; exact e1
    simp only [e1, Bool.false_eq_true, if_false, e3]

/-- the DATA arm: `emitC` charges exactly `len` -/
theorem charged_emitC {sd : Stream → Nat → Nat → Stream × List String × Bool} (hsd : SdOk sd) {s : Streams}
    (h : SafeInv s) (id len : Nat) (rest : List SFrame)
    (h1 : len ≤ (s.stream id).sendFlow.available.asSize)
    (h2 : len = 0 ∨ len ≤ (s.stream id).sendFlow.windowSz) :
    Charged s (emitC sd s id len rest) id len ∧ (emitC sd s id len rest).store.nextKey = s.store.nextKey := by
  have hstore := emitC_store sd s id len rest
  have hflow := emitC_flow sd s id len rest
  have hA := h.av_le
  have hA0 := h.a0
  have hW := h.whi
  cases hget : s.store.get? id with
  | none =>
    have hb : s.stream id = { key := id, id := 0 } := by unfold Streams.stream; rw [hget]; rfl
    have hl0 : len = 0 := by
      rw [hb] at h1
      have : ({ key := id, id := 0 } : Stream).sendFlow.available.asSize = 0 := rfl
      omega
    subst hl0
    rw [modStream_none hget, panic_store, stream_panic, hb] at hstore
    have hk := hsd ((s.panic s!"dangling store key {id}").stream id) 0 (s.panic s!"dangling store key {id}").prio.maxBufferSize
    rw [stream_panic, hb] at hk
    have hslab : (emitC sd s id 0 rest).store.slab = s.store.slab := by
      rw [hstore]; exact set_of_none (by rw [hk.1]; exact hget)
    have hnext : (emitC sd s id 0 rest).store.nextKey = s.store.nextKey := by rw [hstore]; rfl
    have hc := conn_assign (f := s.prio.flow) hA0 (n := 0) (by omega32)
    refine ⟨⟨?_, ?_, fun hko => ⟨⟨by rw [hslab]; exact hko.1, by rw [hslab, hnext]; exact hko.2⟩, fun y hy => ?_⟩⟩, hnext⟩
    · rw [hflow, sendData_zero, hc.2]; simp
    · rw [hflow, sendData_zero]
      have := hc.1
      cases hav : (s.prio.flow.assignCapacity 0).1.available
      rw [hav] at this; simp only at this
      cases hav2 : s.prio.flow.available
      rw [hav2] at this; simp only at this
      congr 1; omega
    · rw [hslab] at hy
      exact Or.inl ⟨y, hy, rfl, by split <;> simp, by split <;> simp⟩
  | some st =>
    have hm := get?_mem hget
    have hs1 : (s.modStream id fun st => { st with pendingSend := rest }).stream id = { st with pendingSend := rest } :=
      stream_modStream_self hget _ rfl
    have hk := hsd ((s.modStream id fun st => { st with pendingSend := rest }).stream id) len
      (s.modStream id fun st => { st with pendingSend := rest }).prio.maxBufferSize
    rw [hs1] at hk hstore
    rw [stream_of_get hget] at h1 h2
    have hok := h.st st hm.1
    have hsend := flOk_send hok h1 h2
    have hle := h.st_le hm.1
    have hl : (len : Int) ≤ st.sendFlow.available.val := by
      rw [asSize_eq] at h1; have := hok.av0; omega
    have hc := conn_send (f := s.prio.flow) hA0 (n := len) (by omega) hW
    have hstore1 : (s.modStream id fun st => { st with pendingSend := rest }).store =
        s.store.set { st with pendingSend := rest } := by
      unfold Streams.modStream; rw [hget]; rfl
    rw [hstore1] at hstore
    generalize hst' : (sd { st with pendingSend := rest } len
      (s.modStream id fun st => { st with pendingSend := rest }).prio.maxBufferSize).1 = st' at hk hstore
    have hk1 : st'.key = id := by rw [hk.1]; exact hm.2
    rw [set_set _ (show ({ st with pendingSend := rest } : Stream).key = st'.key by rw [hk1]; exact hm.2)] at hstore
    have hnext : (emitC sd s id len rest).store.nextKey = s.store.nextKey := by rw [hstore]; rfl
    refine ⟨⟨?_, ?_, fun hko => ?_⟩, hnext⟩
    · rw [hflow, hc.2.1]
    · rw [hflow]
      have := hc.1
      cases hav : ((s.prio.flow.assignCapacity len).1.sendData len).1.available
      rw [hav] at this; simp only at this
      cases hav2 : s.prio.flow.available
      rw [hav2] at this; simp only at this
      congr 1
    · have hkeys : (emitC sd s id len rest).store.slab.map (·.key) = s.store.slab.map (·.key) := by
        rw [hstore, set_keys]
      refine ⟨⟨by rw [hkeys]; exact hko.1, fun y hy => ?_⟩, fun y hy => ?_⟩
      · obtain ⟨x, hx, hkx⟩ := mem_of_map_key_eq hkeys hy
        rw [hnext, ← hkx]; exact hko.2 x hx
      · rw [hstore] at hy
        simp only [Store.set, List.mem_map] at hy
        obtain ⟨x, hx, rfl⟩ := hy
        refine Or.inl ⟨x, hx, ?_⟩
        by_cases hxk : x.key = id
        · have hxst : x = st := key_inj hko.1 hx hm.1 (hxk.trans hm.2.symm)
          have e1 : (x.key == st'.key) = true := by simp [hxk, hk1]
          simp only [e1, if_true, if_pos hxk]
          rw [hk.2, hxst]
          exact ⟨hm.2.trans hk1.symm, hsend.2.2.1, hsend.2.1⟩
        · have e1 : (x.key == st'.key) = false := by simp [hk1, hxk]
          simp only [e1, Bool.false_eq_true, if_false, if_neg hxk]
          exact ⟨trivial, by simp, by simp⟩

theorem PopRel.other {s t : Streams} {m : Nat} {o : Option Streams.OutFrame} (h : WFr s t)
    (ho : ∀ len e fr, o ≠ some (.data len e fr)) : PopRel s m (t, o) := by
  unfold PopRel
  split
  · rename_i heq; exact absurd heq (ho _ _ _)
  · exact h

theorem PopRel.data {s s1 t : Streams} {m len : Nat} {e : Bool} {fr : DataFrame} (h : WFr s s1) (hs : SafeInv s1)
    (hc : DataCut s1 fr.key len m) (hch : Charged s1 t fr.key len) : PopRel s m (t, some (.data len e fr)) :=
  ⟨s1, h, hs, hc, hch⟩

theorem popRel_emit {sd : Stream → Nat → Nat → Stream × List String × Bool} (hsd : SdOk sd) {s s' : Streams}
    (h : SafeInv s) {id : Nat} (heq : s.qPop .pendingSend = (s', some id)) (sz maxLen : Nat) (rest : List SFrame)
    (hc : ¬(decide (usizeAsU32 (min (min sz maxLen) (s'.stream id).sendFlow.available.asSize) > 0) &&
            decide (usizeAsU32 (min (min sz maxLen) (s'.stream id).sendFlow.available.asSize) >
              (s'.stream id).sendFlow.windowSz)) = true)
    (Y : Streams)
    (hY : Fr (emitC sd s' id (usizeAsU32 (min (min sz maxLen) (s'.stream id).sendFlow.available.asSize)) rest) Y)
    (e : Bool) (fr : DataFrame) (hfr : fr.key = id) :
    PopRel s maxLen (Y, some (.data (usizeAsU32 (min (min sz maxLen) (s'.stream id).sendFlow.available.asSize)) e fr)) := by
  simp only [Bool.and_eq_true, decide_eq_true_eq, not_and, Nat.not_lt] at hc
  have hs1 : SafeInv s' := SafeInvG.of_fst_eq heq (h.fr ((Fr.refl _).qPop _))
  have hw : WFr s s' := WFr.of_fst_eq heq ((Fr.refl _).qPop _).wfr
  have hle1 : usizeAsU32 (min (min sz maxLen) (s'.stream id).sendFlow.available.asSize) ≤
      (s'.stream id).sendFlow.available.asSize := Nat.le_trans (usizeAsU32_le _) (Nat.min_le_right _ _)
  have hle2 : usizeAsU32 (min (min sz maxLen) (s'.stream id).sendFlow.available.asSize) ≤ maxLen :=
    Nat.le_trans (usizeAsU32_le _) (Nat.le_trans (Nat.min_le_left _ _) (Nat.min_le_right _ _))
  generalize usizeAsU32 (min (min sz maxLen) (s'.stream id).sendFlow.available.asSize) = len at *
  have hlw : len = 0 ∨ len ≤ (s'.stream id).sendFlow.windowSz := by omega
  have hch := charged_emitC hsd hs1 id len rest hle1 hlw
  refine PopRel.data hw hs1 ?_ ?_
  · rw [hfr]; exact ⟨hle2, hle1, hlw⟩
  · rw [hfr]; exact hch.1.fr hch.2 hY

set_option maxHeartbeats 800000 in
theorem popFrameC_spec {sd : Stream → Nat → Nat → Stream × List String × Bool} (hsd : SdOk sd) (fuel : Nat) :
    ∀ {s : Streams}, SafeInv s → ∀ maxLen, PopRel s maxLen (popFrameC sd fuel s maxLen) := by
  induction fuel with
  | zero => intro s h m; rw [popFrameC_zero]; exact PopRel.other (WFr.refl _) (by intros; simp)
  | succ n ih =>
    intro s h maxLen
    rw [popFrameC_succ']
    dsimp only
    repeat' split
    all_goals first
      | (guard_last_arg ConnFlowP.popFrameC
         refine PopRel.wfr ?_ (ih ?_ _)
         · wfr_auto
         · safe_auto)
      | exact popRel_emit hsd h ‹_› _ _ _ ‹_› _ (by fr_auto) _ _ rfl
      | exact PopRel.other (by wfr_auto) (by intros; simp)

theorem popFrame_spec {s : Streams} (h : SafeInv s) (fuel maxLen : Nat) :
    PopRel s maxLen (Streams.popFrame fuel s maxLen) := by
  rw [popFrameC.eq]; exact popFrameC_spec sdOk_sendData fuel h maxLen

end H2V.Lemmas.ConnFlowP
