import H2V.Lemmas.ConnNoPanicPPushFns
/-
  C08 (no panic) — PUSH_PROMISE bookkeeping, part 3: the frame `PP` for the teardown loops, `Store::for_each`,
  `counts.transition`, the settings functions and the frame entry points that do not insert.
-/
namespace H2V.Lemmas.ConnNoPanicP
open H2V H2V.Model H2V.Model.Conn H2V.Lemmas.ConnCountsP
attribute [local irreducible] wrapSubU32 wrapSubUsize

macro "pp_auto_ih" ih:ident : tactic =>
  `(tactic| repeat (first | pp_step | with_reducible refine PP.trans ?_ ($ih ..) | pp_side | intro _ | split | dsimp only))

-- ===================================================================== queue-draining loops

theorem clearPendingCapacity_pp (n : Nat) (s : Streams) : PP s (Streams.clearPendingCapacity n s) := by
  induction n generalizing s with
  | zero => unfold Streams.clearPendingCapacity; exact .refl _
  | succ n ih => unfold Streams.clearPendingCapacity; pp_auto_ih ih
theorem clearPendingSend_pp (n : Nat) (s : Streams) : PP s (Streams.clearPendingSend n s) := by
  induction n generalizing s with
  | zero => unfold Streams.clearPendingSend; exact .refl _
  | succ n ih => unfold Streams.clearPendingSend; pp_auto_ih ih
theorem clearPendingOpen_pp (n : Nat) (s : Streams) : PP s (Streams.clearPendingOpen n s) := by
  induction n generalizing s with
  | zero => unfold Streams.clearPendingOpen; exact .refl _
  | succ n ih => unfold Streams.clearPendingOpen; pp_auto_ih ih
theorem sendClearQueues_pp (s : Streams) : PP s s.sendClearQueues := by
  unfold Streams.sendClearQueues; pp_auto
theorem clearExpiredResetStreams_pp (n : Nat) (s : Streams) : PP s (Streams.clearExpiredResetStreams n s) := by
  induction n generalizing s with
  | zero => unfold Streams.clearExpiredResetStreams; exact .refl _
  | succ n ih => unfold Streams.clearExpiredResetStreams; pp_auto_ih ih
theorem clearStreamWindowUpdateQueue_pp (n : Nat) (s : Streams) : PP s (Streams.clearStreamWindowUpdateQueue n s) := by
  induction n generalizing s with
  | zero => unfold Streams.clearStreamWindowUpdateQueue; exact .refl _
  | succ n ih => unfold Streams.clearStreamWindowUpdateQueue; pp_auto_ih ih
theorem clearAllResetStreams_pp (n : Nat) (s : Streams) : PP s (Streams.clearAllResetStreams n s) := by
  induction n generalizing s with
  | zero => unfold Streams.clearAllResetStreams; exact .refl _
  | succ n ih => unfold Streams.clearAllResetStreams; pp_auto_ih ih
theorem clearAllPendingAccept_pp (n : Nat) (s : Streams) : PP s (Streams.clearAllPendingAccept n s) := by
  induction n generalizing s with
  | zero => unfold Streams.clearAllPendingAccept; exact .refl _
  | succ n ih => unfold Streams.clearAllPendingAccept; pp_auto_ih ih
theorem recvClearQueues_pp (s : Streams) (b : Bool) : PP s (s.recvClearQueues b) := by
  unfold Streams.recvClearQueues; pp_auto
theorem clearQueues_pp (s : Streams) (b : Bool) : PP s (s.clearQueues b) := by
  unfold Streams.clearQueues; pp_auto

-- ===================================================================== `counts.transition`, `Store::for_each`

theorem transition_pp {α : Type} (s : Streams) (k : Nat) (f : Streams → Streams × α) (hf : ∀ s, PP s (f s).1) :
    PP s (s.transition k f).1 := by
  have : (s.transition k f).1 = (f s).1.transitionAfter k (s.stream k).isPendingResetExpiration := by
    unfold Streams.transition; rfl
  rw [this]
  exact (hf s).trans (transitionAfter_pp _ _ _)

theorem tryForEach_pp (f : Streams → Nat → Streams × Option PErr) (hf : ∀ s k, PP s (f s k).1) :
    ∀ (fuel i len : Nat) (s : Streams), PP s (Streams.tryForEach f fuel i len s).1 := by
  intro fuel
  induction fuel with
  | zero => intro i len s; exact .refl _
  | succ n ih =>
    intro i len s
    unfold Streams.tryForEach
    split
    · split
      · exact panic_pp _ _
      · next id _ =>
        have := hf s id
        split
        · next s' e heq => rw [heq] at this; exact this
        · next s' heq =>
          rw [heq] at this
          dsimp only
          split
          · exact .trans this (ih _ _ _)
          · exact .trans this (ih _ _ _)
    · exact .refl _

theorem storeTryForEach_pp (s : Streams) (f : Streams → Nat → Streams × Option PErr) (hf : ∀ s k, PP s (f s k).1) :
    PP s (s.storeTryForEach f).1 := tryForEach_pp f hf _ _ _ s

theorem storeForEach_pp (s : Streams) (f : Streams → Nat → Streams) (hf : ∀ s k, PP s (f s k)) :
    PP s (s.storeForEach f) := storeTryForEach_pp s _ (fun s k => hf s k)

theorem tryForEachAcc_pp (f : Nat → Streams → Nat → Streams × Nat × Option PErr) (hf : ∀ a s k, PP s (f a s k).1) :
    ∀ (fuel i len acc : Nat) (s : Streams), PP s (Streams.tryForEachAcc f fuel i len acc s).1 := by
  intro fuel
  induction fuel with
  | zero => intro i len acc s; exact .refl _
  | succ n ih =>
    intro i len acc s
    unfold Streams.tryForEachAcc
    split
    · split
      · exact panic_pp _ _
      · next id _ =>
        have := hf acc s id
        split
        · next s' a' e heq => rw [heq] at this; exact this
        · next s' a' heq =>
          rw [heq] at this
          dsimp only
          split
          · exact .trans this (ih _ _ _ _)
          · exact .trans this (ih _ _ _ _)
    · exact .refl _

theorem setConnError_pp (s : Streams) (o : Option PErr) :
    PP s { s with actions := { s.actions with connError := o } } := .of_store rfl

theorem errClosure_pp (s : Streams) (k : Nat) (e : PErr) :
    PP s (s.transition k fun s => ((s.recvHandleError k e).sendHandleError k, ())).1 :=
  transition_pp s k _ (fun s => (recvHandleError_pp s k e).trans (sendHandleError_pp _ k))

theorem handleError_pp (s : Streams) (err : PErr) : PP s (s.handleError err).1 := by
  unfold Streams.handleError
  exact (storeForEach_pp s _ (fun s k => errClosure_pp s k err)).trans (setConnError_pp _ _)

theorem recvGoAwayFrame_pp (s : Streams) (last : Nat) (r : Reason) (d : Bytes) : PP s (s.recvGoAwayFrame last r d).1 := by
  unfold Streams.recvGoAwayFrame
  have h0 := sendRecvGoAway_pp s last
  split
  · next s1 e heq => rw [heq] at h0; exact h0
  · next s1 _ heq =>
    rw [heq] at h0
    refine h0.trans (.trans (storeForEach_pp _ _ (fun s k => ?_)) (setConnError_pp _ _))
    dsimp only
    split
    · exact errClosure_pp _ _ _
    · exact .refl _

theorem recvEof_pp (s : Streams) (b : Bool) : PP s (s.recvEof b) := by
  unfold Streams.recvEof
  dsimp only
  generalize hs1 : (if s.actions.connError.isNone = true then _ else s) = s1
  have h1 : PP s s1 := by
    rw [← hs1]; split
    · exact setConnError_pp _ _
    · exact .refl _
  have a2 := storeForEach_pp s1 (fun s id => (s.transition id fun s => ((s.recvRecvEof id).sendHandleError id, ())).1)
    (fun s k => transition_pp s k _ (fun s => (recvRecvEof_pp s k).trans (sendHandleError_pp _ k)))
  exact (h1.trans a2).trans (clearQueues_pp _ _)

-- ===================================================================== settings

theorem sarsWindow_pp (s : Streams) (a : Option Nat) : PP s (sarsWindow s a).1 := by
  unfold sarsWindow
  split
  · exact .refl _
  · next val =>
    dsimp only
    have h2 : PP s (s.modSend fun sd => { sd with initWindowSz := val }) := modSend_pp _ _
    generalize (s.modSend fun sd => { sd with initWindowSz := val }) = s2 at h2 ⊢
    split
    · have h3 := tryForEachAcc_pp (Streams.decStreamWindow (s.actions.send.initWindowSz - val))
        (fun a t k => decStreamWindow_pp _ a t k) (2 * s2.store.ids.length + 1) 0 s2.store.ids.length 0 s2
      split
      · next s3 _ e heq => rw [heq] at h3; exact h2.trans h3
      · next s3 total heq => rw [heq] at h3; exact h2.trans (h3.trans (assignConnectionCapacity_pp _ _))
    · split
      · refine h2.trans (storeTryForEach_pp _ _ (fun t k => ?_))
        have := sendRecvStreamWindowUpdate_pp t k (val - s.actions.send.initWindowSz)
        split
        · next s' r heq => rw [heq] at this; exact this
        · next s' _ heq => rw [heq] at this; exact this
      · exact h2

theorem sendApplyRemoteSettings_pp (s : Streams) (a b c : Option Nat) : PP s (s.sendApplyRemoteSettings a b c).1 := by
  rw [sars_eq]
  have h1 : PP s (match c with
      | some v => s.modSend fun sd => { sd with isExtendedConnectProtocolEnabled := v != 0 }
      | none => s) := by
    split
    · exact modSend_pp _ _
    · exact .refl _
  have h2 := h1.trans (sarsWindow_pp _ a)
  generalize sarsWindow _ a = p at h2 ⊢
  obtain ⟨s2, res⟩ := p
  dsimp only at h2 ⊢
  split
  · exact h2
  · dsimp only
    split
    · exact h2.trans (modSend_pp _ _)
    · exact h2

theorem applyRemoteSettings_pp (s : Streams) (vals : List (Nat × Nat)) (b : Bool) : PP s (s.applyRemoteSettings vals b).1 := by
  unfold Streams.applyRemoteSettings
  exact (modCounts_pp _ _).trans (sendApplyRemoteSettings_pp _ _ _ _)

theorem alsDec_pp (dec : Nat) (s : Streams) (k : Nat) : PP s (alsDec dec s k).1 := by
  unfold alsDec; pp_auto
theorem alsInc_pp (inc : Nat) (s : Streams) (k : Nat) : PP s (alsInc inc s k).1 := by
  unfold alsInc; pp_auto

theorem alsRest_pp (s s1 : Streams) (h1 : PP s s1) (a : Option Nat) :
    PP s (match a with
      | none => (s1, (.ok () : Except PErr Unit))
      | some target =>
        let oldSz := s1.recv.initWindowSz
        let s := s1.modRecv fun r => { r with initWindowSz := target }
        let (s, res) : Streams × Option PErr :=
          if target < oldSz then s.storeTryForEach (alsDec (oldSz - target))
          else if target > oldSz then s.storeTryForEach (alsInc (target - oldSz))
          else (s, none)
        match res with
        | some e => (s, .error e)
        | none => (s, .ok ())).1 := by
  split
  · exact h1
  · next target =>
    dsimp only
    have h2 : PP s (s1.modRecv fun r => { r with initWindowSz := target }) := h1.trans (modRecv_pp _ _)
    generalize (s1.modRecv fun r => { r with initWindowSz := target }) = s2 at h2 ⊢
    have h3 : PP s (if target < s1.recv.initWindowSz then s2.storeTryForEach (alsDec (s1.recv.initWindowSz - target))
        else if target > s1.recv.initWindowSz then s2.storeTryForEach (alsInc (target - s1.recv.initWindowSz))
        else (s2, none)).1 := by
      split
      · exact h2.trans (storeTryForEach_pp _ _ (fun t k => alsDec_pp _ t k))
      · split
        · exact h2.trans (storeTryForEach_pp _ _ (fun t k => alsInc_pp _ t k))
        · exact h2
    generalize (if target < s1.recv.initWindowSz then s2.storeTryForEach (alsDec (s1.recv.initWindowSz - target))
        else if target > s1.recv.initWindowSz then s2.storeTryForEach (alsInc (target - s1.recv.initWindowSz))
        else (s2, none)) = p at h3 ⊢
    obtain ⟨s3, res⟩ := p
    dsimp only at h3 ⊢
    split <;> exact h3

theorem applyLocalSettings_pp (s : Streams) (a b : Option Nat) : PP s (s.applyLocalSettings a b).1 := by
  rw [als_eq]
  cases b with
  | none => exact alsRest_pp s s (.refl _) a
  | some v => exact alsRest_pp s _ (modRecv_pp _ _) a

theorem applyLocalSettingsFrame_pp (s : Streams) (vals : List (Nat × Nat)) : PP s (s.applyLocalSettingsFrame vals).1 := by
  unfold Streams.applyLocalSettingsFrame; exact applyLocalSettings_pp _ _ _

theorem setTargetConnectionWindow_pp (s : Streams) (t : Nat) : PP s (s.setTargetConnectionWindow t).1 := by
  unfold Streams.setTargetConnectionWindow; pp_auto

-- ===================================================================== frames and handle calls that do not insert

theorem resetOnRecvStreamErr_pp (s : Streams) (k : Nat) (r : Except PErr Unit) : PP s (s.resetOnRecvStreamErr k r).1 := by
  unfold Streams.resetOnRecvStreamErr; pp_auto

theorem actionsSendReset_pp (s : Streams) (k : Nat) (r : Reason) (i : Initiator) : PP s (s.actionsSendReset k r i).1 := by
  unfold Streams.actionsSendReset
  refine transition_pp s k _ (fun s => ?_)
  pp_auto

theorem refSendReset_pp (s : Streams) (k : Nat) (r : Reason) : PP s (s.refSendReset k r) := by
  unfold Streams.refSendReset
  have := actionsSendReset_pp s k r .user
  pp_auto

theorem recvData_pp (s : Streams) (id : Nat) (p : Bytes) (eos : Bool) (pad : Option Nat) : PP s (s.recvData id p eos pad).1 := by
  unfold Streams.recvData
  dsimp only
  split
  · pp_auto
  · next k _ =>
    refine transition_pp s k _ (fun s => ?_)
    pp_auto

theorem recvReset_pp (s : Streams) (id : Nat) (r : Reason) : PP s (s.recvReset id r).1 := by
  unfold Streams.recvReset
  split
  · exact .refl _
  split
  · exact .refl _
  split
  · split <;> exact .refl _
  · next k _ =>
    split
    · exact .refl _
    · refine transition_pp s k _ (fun s => ?_)
      pp_auto

theorem recvWindowUpdate_pp (s : Streams) (id inc : Nat) : PP s (s.recvWindowUpdate id inc).1 := by
  unfold Streams.recvWindowUpdate; pp_auto

theorem refSendResponse_pp (s : Streams) (k : Nat) (f : List Hpack.Field) (eos : Bool) : PP s (s.refSendResponse k f eos).1 :=
  transition_pp s k _ (fun s => sendHeaders_pp s k eos f)
theorem refSendInformationalHeaders_pp (s : Streams) (k : Nat) (f : List Hpack.Field) :
    PP s (s.refSendInformationalHeaders k f).1 :=
  transition_pp s k _ (fun s => sendInterimInformationalHeaders_pp s k f)
theorem refSendData_pp (s : Streams) (k len : Nat) (eos : Bool) : PP s (s.refSendData k len eos).1 :=
  transition_pp s k _ (fun s => prioSendData_pp s k len eos)
theorem refSendTrailers_pp (s : Streams) (k : Nat) (f : List Hpack.Field) : PP s (s.refSendTrailers k f).1 :=
  transition_pp s k _ (fun s => sendTrailers_pp s k f)

theorem refInc_pp (s : Streams) (k : Nat) : PP s (s.refInc k) := by
  unfold Streams.refInc; pp_auto
theorem cloneStreamRef_pp (s : Streams) (k : Nat) : PP s (s.cloneStreamRef k) := by
  unfold Streams.cloneStreamRef; pp_auto
theorem recvNextIncoming_pp (s : Streams) : PP s s.recvNextIncoming.1 := by
  unfold Streams.recvNextIncoming; pp_auto
theorem nextIncoming_pp (s : Streams) : PP s s.nextIncoming.1 := by
  unfold Streams.nextIncoming; pp_auto
theorem recvTakeRequest_pp (s : Streams) (k : Nat) : PP s (s.recvTakeRequest k).1 := by
  unfold Streams.recvTakeRequest; pp_auto
theorem recvPollResponse_pp (n : Nat) (s : Streams) (k : Nat) (t : String) : PP s (Streams.recvPollResponse n s k t).1 := by
  induction n generalizing s with
  | zero => unfold Streams.recvPollResponse; exact .refl _
  | succ n ih => unfold Streams.recvPollResponse; pp_auto_ih ih
theorem dropPre_pp (s : Streams) (k : Nat) : PP s (dropPre s k) := by
  unfold dropPre; pp_auto

end H2V.Lemmas.ConnNoPanicP
