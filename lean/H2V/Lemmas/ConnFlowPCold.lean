import H2V.Lemmas.ConnFlowPMoves
/-
  ConnFlowP, part 30 — a stream that is reset (by us, by the peer, by a connection error) ends up
  holding no send capacity: what it held went back to the connection through `giveBack`
  (`ConnFlowPMoves.lean`, exact) and `assign_connection_capacity` cannot hand anything to it again.

  `KeyP id P s`: every slab entry with store key `id` satisfies `P` — a per-stream predicate carried
  through the model functions by the same peeling technique as the other relations.
-/
namespace H2V.Lemmas.ConnFlowP
open H2V H2V.Model H2V.Model.Conn H2V.Lemmas.Comp

def KeyP (id : Nat) (P : Stream → Prop) (s : Streams) : Prop := ∀ x ∈ s.store.slab, x.key = id → P x

/-- cannot be assigned capacity by `try_assign_capacity`: not send-streaming, nothing buffered -/
def QuietSt (x : Stream) : Prop := x.state.isSendStreaming = false ∧ x.bufferedSendData = 0
/-- … and holds none -/
def ColdSt (x : Stream) : Prop := x.sendFlow.available.val = 0 ∧ QuietSt x

section
variable {id : Nat} {P : Stream → Prop} {t : Streams}

theorem KeyP.same {t' : Streams} (h : KeyP id P t) (hs : t'.store.slab = t.store.slab) : KeyP id P t' := by
  intro x hx; rw [hs] at hx; exact h x hx

theorem KeyP.panic (h : KeyP id P t) (m : String) : KeyP id P (t.panic m) := h.same (by rw [panic_store])

/-- an update of any entry that keeps the key and does not destroy `P` -/
theorem KeyP.modStream' {k : Nat} {f : Stream → Stream} (hf : ∀ x, (f x).key = x.key ∧ (P x → P (f x)))
    (h : KeyP id P t) : KeyP id P (t.modStream k f) := by
  unfold Streams.modStream
  split
  · rename_i st hget
    intro y hy hk
    simp only [Streams.setStream, Store.set, List.mem_map] at hy
    obtain ⟨x, hx, rfl⟩ := hy
    by_cases he : (x.key == (f st).key) = true
    · simp only [he, if_true] at hk ⊢
      have hm := get?_mem hget
      exact (hf st).2 (h st hm.1 ((hf st).1.symm.trans hk))
    · simp only [he, if_false] at hk ⊢
      exact h x hx hk
  · exact h.panic _

theorem KeyP.modStreamW' {k : Nat} {f : Stream → Stream × List String}
    (hf : ∀ x, (f x).1.key = x.key ∧ (P x → P (f x).1)) (h : KeyP id P t) : KeyP id P (t.modStreamW k f) := by
  unfold Streams.modStreamW
  split
  · rename_i st hget
    intro y hy hk
    simp only [Streams.wake, Streams.setStream, Store.set, List.mem_map] at hy
    obtain ⟨x, hx, rfl⟩ := hy
    by_cases he : (x.key == (f st).1.key) = true
    · simp only [he, if_true] at hk ⊢
      have hm := get?_mem hget
      exact (hf st).2 (h st hm.1 ((hf st).1.symm.trans hk))
    · simp only [he, if_false] at hk ⊢
      exact h x hx hk
  · exact h.panic _

/-- an update of the entry `id` that *establishes* `P` -/
theorem KeyP.establish {f : Stream → Stream} (hf : ∀ x, (f x).key = x.key ∧ P (f x)) (t : Streams) :
    KeyP id P (t.modStream id f) := by
  unfold Streams.modStream
  split
  · rename_i st hget
    intro y hy hk
    simp only [Streams.setStream, Store.set, List.mem_map] at hy
    obtain ⟨x, hx, rfl⟩ := hy
    have hm := get?_mem hget
    by_cases he : (x.key == (f st).key) = true
    · simp only [he, if_true]
      exact (hf st).2
    · exfalso
      simp only [he, if_false] at hk
      simp only [beq_iff_eq] at he
      exact he (hk.trans ((hf st).1.trans hm.2).symm)
  · intro y hy hk
    rename_i hget
    rw [panic_store] at hy
    unfold Store.get? at hget
    have := List.find?_eq_none.1 hget y hy
    simp [hk] at this

theorem KeyP.establishW {f : Stream → Stream × List String} (hf : ∀ x, (f x).1.key = x.key ∧ P (f x).1) (t : Streams) :
    KeyP id P (t.modStreamW id f) := by
  unfold Streams.modStreamW
  split
  · rename_i st hget
    intro y hy hk
    simp only [Streams.wake, Streams.setStream, Store.set, List.mem_map] at hy
    obtain ⟨x, hx, rfl⟩ := hy
    have hm := get?_mem hget
    by_cases he : (x.key == (f st).1.key) = true
    · simp only [he, if_true]
      exact (hf st).2
    · exfalso
      simp only [he, if_false] at hk
      simp only [beq_iff_eq] at he
      exact he (hk.trans ((hf st).1.trans hm.2).symm)
  · intro y hy hk
    rename_i hget
    rw [panic_store] at hy
    unfold Store.get? at hget
    have := List.find?_eq_none.1 hget y hy
    simp [hk] at this

theorem KeyP.and {Q : Stream → Prop} (h1 : KeyP id P t) (h2 : KeyP id Q t) : KeyP id (fun x => P x ∧ Q x) t :=
  fun x hx hk => ⟨h1 x hx hk, h2 x hx hk⟩

theorem KeyP.mono {Q : Stream → Prop} (h : KeyP id P t) (hpq : ∀ x, P x → Q x) : KeyP id Q t :=
  fun x hx hk => hpq x (h x hx hk)

theorem KeyP.unsup (h : KeyP id P t) (m : String) : KeyP id P (t.unsup m) := by
  refine h.same ?_; unfold Streams.unsup; split <;> rfl
theorem KeyP.wake (h : KeyP id P t) (w : List String) : KeyP id P (t.wake w) := h.same rfl
theorem KeyP.notifyTask (h : KeyP id P t) : KeyP id P t.notifyTask := by
  refine h.same ?_; unfold Streams.notifyTask; split <;> rfl
theorem KeyP.modRecv (h : KeyP id P t) (f : Recv → Recv) : KeyP id P (t.modRecv f) := h.same rfl
theorem KeyP.modSend (h : KeyP id P t) (f : Send → Send) : KeyP id P (t.modSend f) := h.same rfl
theorem KeyP.modPrio (h : KeyP id P t) (f : Prioritize → Prioritize) : KeyP id P (t.modPrio f) := h.same rfl
theorem KeyP.modCounts (h : KeyP id P t) (f : Counts → Counts) : KeyP id P (t.modCounts f) := h.same rfl
theorem KeyP.modCountsA (h : KeyP id P t) (w : String) (f : Counts → Option Counts) : KeyP id P (t.modCountsA w f) := by
  unfold Streams.modCountsA; split
  · exact h.same rfl
  · exact h.panic _
theorem KeyP.setQ (h : KeyP id P t) (q : QName) (l : List Nat) : KeyP id P (t.setQ q l) := h.same (by cases q <;> rfl)
theorem KeyP.withStoreUnlink (h : KeyP id P t) (i : Nat) : KeyP id P { t with store := t.store.unlink i } := h.same rfl
theorem KeyP.withStoreRemoveLeak (h : KeyP id P t) (k n : Nat) :
    KeyP id P { t with store := t.store.remove k, recvBufferLeaked := n } := by
  intro y hy hk
  exact h y (List.mem_filter.1 hy).1 hk
theorem KeyP.of_fst_eq {α : Type} {p : Streams × α} {t' : Streams} {r : α} (he : p = (t', r)) (h : KeyP id P p.1) :
    KeyP id P t' := by subst he; exact h

end

/-- what the predicates of this file look at -/
@[reducible] def CoreEq (x y : Stream) : Prop :=
  x.sendFlow = y.sendFlow ∧ x.state = y.state ∧ x.bufferedSendData = y.bufferedSendData ∧
  x.requestedSendCapacity = y.requestedSendCapacity
/-- `P` looks at nothing else -/
@[reducible] def CoreP (P : Stream → Prop) : Prop := ∀ x y, CoreEq x y → P x → P y

theorem KeyP.modStreamC {id k : Nat} {P : Stream → Prop} {t : Streams} {f : Stream → Stream} (hP : CoreP P)
    (hf : ∀ x, (f x).key = x.key ∧ CoreEq x (f x)) (h : KeyP id P t) : KeyP id P (t.modStream k f) :=
  KeyP.modStream' (fun x => ⟨(hf x).1, hP x (f x) (hf x).2⟩) h
theorem KeyP.modStreamWC {id k : Nat} {P : Stream → Prop} {t : Streams} {f : Stream → Stream × List String}
    (hP : CoreP P) (hf : ∀ x, (f x).1.key = x.key ∧ CoreEq x (f x).1) (h : KeyP id P t) :
    KeyP id P (t.modStreamW k f) :=
  KeyP.modStreamW' (fun x => ⟨(hf x).1, hP x (f x).1 (hf x).2⟩) h

theorem notifySend_core (x : Stream) : x.notifySend.1.key = x.key ∧ CoreEq x x.notifySend.1 := by
  unfold Stream.notifySend
  cases x.sendTask <;> dsimp only <;> split <;> exact ⟨rfl, rfl, rfl, rfl, rfl⟩
theorem notifyRecv_core (x : Stream) : x.notifyRecv.1.key = x.key ∧ CoreEq x x.notifyRecv.1 := by
  unfold Stream.notifyRecv; split <;> exact ⟨rfl, rfl, rfl, rfl, rfl⟩
theorem notifyPush_core (x : Stream) : x.notifyPush.1.key = x.key ∧ CoreEq x x.notifyPush.1 := by
  unfold Stream.notifyPush; split <;> exact ⟨rfl, rfl, rfl, rfl, rfl⟩

/-- side condition of `KeyP.modStreamC`: the update touches neither key nor send flow, state, buffered -/
syntax "keypf" : tactic
macro_rules | `(tactic| keypf) => `(tactic| first
  | (intro _; exact ⟨rfl, rfl, rfl, rfl, rfl⟩)
  | (intro x; cases ‹QName› <;> exact ⟨rfl, rfl, rfl, rfl, rfl⟩)
  | exact notifySend_core
  | exact notifyRecv_core
  | exact notifyPush_core)

syntax "keyp_peel" : tactic
macro_rules | `(tactic| keyp_peel) => `(tactic| first
  | with_reducible apply KeyP.panic
  | with_reducible apply KeyP.unsup
  | with_reducible apply KeyP.wake
  | with_reducible apply KeyP.notifyTask
  | with_reducible apply KeyP.modRecv
  | with_reducible apply KeyP.modSend
  | with_reducible apply KeyP.modPrio
  | with_reducible apply KeyP.modCounts
  | with_reducible apply KeyP.modCountsA
  | with_reducible apply KeyP.setQ
  | (guard_mk; with_reducible apply KeyP.withStoreUnlink)
  | (guard_mk; with_reducible apply KeyP.withStoreRemoveLeak)
  | (with_reducible apply KeyP.modStreamC (by assumption); (· keypf))
  | (with_reducible apply KeyP.modStreamWC (by assumption); (· keypf))
  | apply_ih
  | (with_reducible apply KeyP.of_fst_eq; (· with_reducible assumption)))
macro "keyp_auto" : tactic => `(tactic| repeat' (first
  | with_reducible assumption | (guard_not_mk; keyp_peel) | (guard_mk; keyp_peel) | split | dsimp only))
macro "keyp_by" f:ident : tactic => `(tactic| (unfold $f; (try dsimp only); keyp_auto))

section
variable {id : Nat} {P : Stream → Prop} {t : Streams} (hP : CoreP P)
include hP

theorem KeyP.qPush (h : KeyP id P t) (q : QName) (k : Nat) : KeyP id P (t.qPush q k).1 := by keyp_by Streams.qPush
theorem KeyP.qPushFront (h : KeyP id P t) (q : QName) (k : Nat) : KeyP id P (t.qPushFront q k).1 := by
  keyp_by Streams.qPushFront
theorem KeyP.qPop (h : KeyP id P t) (q : QName) : KeyP id P (t.qPop q).1 := by keyp_by Streams.qPop
theorem KeyP.decNumStreams (h : KeyP id P t) (k : Nat) : KeyP id P (t.decNumStreams k) := by
  keyp_by Streams.decNumStreams
macro_rules | `(tactic| keyp_peel) => `(tactic| first
  | with_reducible apply KeyP.qPush
  | with_reducible apply KeyP.qPushFront
  | with_reducible apply KeyP.qPop
  | with_reducible apply KeyP.decNumStreams)
theorem KeyP.transitionAfter (h : KeyP id P t) (k : Nat) (b : Bool) : KeyP id P (t.transitionAfter k b) := by
  keyp_by Streams.transitionAfter
macro_rules | `(tactic| keyp_peel) => `(tactic| with_reducible apply KeyP.transitionAfter)
theorem KeyP.scheduleSend (h : KeyP id P t) (k : Nat) : KeyP id P (t.scheduleSend k) := by keyp_by Streams.scheduleSend
macro_rules | `(tactic| keyp_peel) => `(tactic| with_reducible apply KeyP.scheduleSend)

end

-- ===================================================================== cold streams stay cold

theorem coreP_quiet : CoreP QuietSt := by
  intro x y h hx
  unfold QuietSt at *
  rw [← h.2.1, ← h.2.2.1]; exact hx

theorem coreP_cold : CoreP ColdSt := by
  intro x y h hx
  unfold ColdSt at *
  exact ⟨by rw [← h.1]; exact hx.1, coreP_quiet x y h hx.2⟩

/-- `try_assign_capacity` (on any stream) gives nothing to a cold stream -/
theorem KeyP.tryAssignCapacity_cold {id : Nat} {t : Streams} (h : KeyP id ColdSt t) (k : Nat) :
    KeyP id ColdSt (t.tryAssignCapacity k) := by
  have hP := coreP_cold
  by_cases hk : k = id
  · subst hk
    -- the guard `!is_send_streaming && buffered == 0` returns at once
    cases hget : t.store.get? k with
    | none =>
      have hb : t.stream k = { key := k, id := 0 } := by unfold Streams.stream; rw [hget]; rfl
      unfold Streams.tryAssignCapacity
      dsimp only
      split
      · exact h
      split
      · exact h
      rw [hb]
      split
      · exact h
      · rename_i hc; exact absurd rfl hc
    | some st =>
      have hm := get?_mem hget
      have hc := h st hm.1 hm.2
      unfold Streams.tryAssignCapacity
      dsimp only
      split
      · exact h
      split
      · exact h
      rw [stream_of_get hget]
      split
      · exact h
      · rename_i hne
        exfalso; apply hne
        rw [hc.2.1, hc.2.2]; rfl
  · -- another stream: only entries with key `k` are touched
    have hother : ∀ (f : Stream → Stream × List String), (∀ x, (f x).1.key = x.key) →
        ∀ {u : Streams}, KeyP id ColdSt u → KeyP id ColdSt (u.modStreamW k f) := by
      intro f hf u hu
      unfold Streams.modStreamW
      split
      · rename_i st hget
        intro y hy hyk
        simp only [Streams.wake, Streams.setStream, Store.set, List.mem_map] at hy
        obtain ⟨x, hx, rfl⟩ := hy
        by_cases he : (x.key == (f st).1.key) = true
        · exfalso
          simp only [he, if_true] at hyk
          exact hk ((get?_mem hget).2.symm.trans ((hf st).symm.trans hyk))
        · simp only [he] at hyk ⊢
          exact hu x hx hyk
      · exact hu.panic _
    unfold Streams.tryAssignCapacity
    dsimp only
    split
    · exact h
    split
    · exact h
    split
    · exact h
    generalize hS1 : (if _ > 0 then _ else t) = S1
    have hS : KeyP id ColdSt S1 := by
      subst hS1
      split
      · exact KeyP.modPrio (hother _ (fun x => (assignCapacity_kf x _ _).1) h) _
      · exact h
    clear hS1
    keyp_auto

theorem KeyP.assignConnectionCapacityLoop_cold {id : Nat} (fuel : Nat) :
    ∀ {t : Streams}, KeyP id ColdSt t → KeyP id ColdSt (Streams.assignConnectionCapacityLoop fuel t) := by
  have hP := coreP_cold
  induction fuel with
  | zero => intro t h; exact h
  | succ n ih =>
    intro t h
    unfold Streams.assignConnectionCapacityLoop
    dsimp only
    repeat' first
      | with_reducible assumption
      | with_reducible apply KeyP.tryAssignCapacity_cold
      | (guard_not_mk; keyp_peel) | (guard_mk; keyp_peel) | split | dsimp only

theorem KeyP.vacuous {id : Nat} {P : Stream → Prop} {t : Streams} (h : t.store.get? id = none) : KeyP id P t := by
  intro y hy hk
  unfold Store.get? at h
  have := List.find?_eq_none.1 h y hy
  simp [hk] at this

/-- giving back everything a quiet stream holds makes it cold -/
theorem giveBack_cold {t : Streams} (h : SafeInv t) {id : Nat} {st : Stream} (hget : t.store.get? id = some st)
    (hq : QuietSt st) : KeyP id ColdSt (giveBack t id st.sendFlow.available.asSize) := by
  have hm := get?_mem hget
  have hf := flOk_claim (h.st st hm.1) (Nat.le_refl st.sendFlow.available.asSize)
  have h0 := (h.st st hm.1).av0
  intro y hy hk
  have hslab : (giveBack t id st.sendFlow.available.asSize).store.slab =
      (t.store.set { st with sendFlow := (st.sendFlow.claimCapacity st.sendFlow.available.asSize).1 }).slab := by
    unfold giveBack Streams.modStream; rw [hget]; rfl
  rw [hslab] at hy
  simp only [Store.set, List.mem_map] at hy
  obtain ⟨x, hx, rfl⟩ := hy
  by_cases he : (x.key == st.key) = true
  · simp only [he, if_true]
    refine ⟨?_, hq⟩
    show (st.sendFlow.claimCapacity st.sendFlow.available.asSize).1.available.val = 0
    rw [hf.2.1, asSize_eq]; omega
  · exfalso
    simp only [he] at hk
    simp only [beq_iff_eq] at he
    exact he (hk.trans hm.2.symm)

/-- **`reclaim_all_capacity` leaves a quiet stream cold** -/
theorem reclaimAll_cold {t : Streams} (h : SafeInv t) {id : Nat} (hq : KeyP id QuietSt t) :
    KeyP id ColdSt (t.reclaimAllCapacity id) := by
  cases hget : t.store.get? id with
  | none =>
    have hb : t.stream id = { key := id, id := 0 } := by unfold Streams.stream; rw [hget]; rfl
    unfold Streams.reclaimAllCapacity
    dsimp only
    rw [hb]
    split
    · rename_i hpos
      exact absurd hpos (Nat.lt_irrefl 0)
    · exact KeyP.vacuous hget
  | some st =>
    have hm := get?_mem hget
    by_cases hpos : st.sendFlow.available.asSize > 0
    · have he := reclaimAllCapacity_eq t id (by rw [stream_of_get hget]; exact hpos)
      rw [he, stream_of_get hget]
      exact KeyP.assignConnectionCapacityLoop_cold _ (giveBack_cold h hget (hq st hm.1 hm.2))
    · unfold Streams.reclaimAllCapacity
      dsimp only
      rw [stream_of_get hget, if_neg hpos]
      intro y hy hk
      have : y = st := key_inj h.keys.1 hy hm.1 (hk.trans hm.2.symm)
      subst this
      have h0 := (h.st y hy).av0
      rw [asSize_eq] at hpos
      exact ⟨by omega, hq y hy hk⟩

end H2V.Lemmas.ConnFlowP
