import H2V.Lemmas.ConnNoPanicPConnIwsBase
/-
  GENERATED from ConnNoPanicPConnStep.lean by /tmp/np/conn/gen_iws.py (`ConnP ↦ ConnP'`, namespace `Iws`; the invariant
  `Iws.ConnOK` contains `IwsInv`): see ConnNoPanicPConnIwsBase.lean.  Original header:
  C08 (no panic) — connection layer, part 2: the single steps of `Connection::poll`
  (`go_away*`, `handle_go_away`, `handle_poll2_result`, `send_pending_go_away`, `poll_ready`) are
  histories of stream-layer operations satisfying `ConnP'` (with the codec's writer tracked: `HistW`), and
  keep the connection invariant `ConnOK`.  None of them records a panic of the connection layer.
-/
namespace H2V.Lemmas.ConnNoPanicP.Iws
open H2V H2V.Model H2V.Model.Conn
open H2V.Lemmas.ConnResetP (Op run)
open H2V.Lemmas.ConnCtlP (GoAwayInv Keep15 Step15 GaLe gaLast view)

/-- a step of the connection: invariant kept, `(streams, codec.w)` moved by a history -/
structure CS (X : String → Prop) (c c' : Conn) : Prop extends OKStep c c' where
  hist : HistWX ConnP' X c.streams c.codec.w c'.streams c'.codec.w

theorem CS.ok {X : String → Prop} {c c' : Conn} (h : CS X c c') (hc : ConnOK c) : ConnOK c' := h.toOKStep.ok hc

/-- the streams-only history of a step -/
theorem CS.histS {X : String → Prop} {c c' : Conn} (h : CS X c c') : HistX ConnP' X c.streams c'.streams := h.hist.hist

theorem CS.trans {X : String → Prop} {a b c : Conn} (h1 : CS X a b) (h2 : CS X b c) : CS X a c where
  ga := h2.ga
  gale := h1.gale.trans h2.gale
  ping := fun p hp => by
    obtain ⟨q, hq, e1⟩ := h2.ping p hp
    obtain ⟨r, hr, e2⟩ := h1.ping q hq
    exact ⟨r, hr, e1.trans e2⟩
  rd := fun h => h2.rd (h1.rd h)
  hist := h1.hist.trans h2.hist

theorem CS.monoX {X Y : String → Prop} (hxy : ∀ m, X m → Y m) {c c' : Conn} (h : CS X c c') : CS Y c c' :=
  { h with hist := h.hist.monoX hxy }

theorem CS.refl {X : String → Prop} {c : Conn} (hi : GoAwayInv c) : CS X c c :=
  ⟨⟨hi, GaLe.refl c, fun p h => ⟨p, h, rfl⟩, id⟩, .refl⟩

/-- assemble a step from ConnCtlP's `Step15`, the frame facts and the history -/
theorem CS.mk' {X : String → Prop} {c c' : Conn} (h : Step15 c c') (hp : c'.pingPong.pendingPing = c.pingPong.pendingPing)
    (hr : c'.codec.r = c.codec.r) (hl : c'.settings = c.settings)
    (hh : HistW ConnP' c.streams c.codec.w c'.streams c'.codec.w) : CS X c c' :=
  ⟨.of_step15 h hp hr (.of_eq (by rw [hl]) (by rw [hl])), hh.toX'⟩

/-- a step that does not touch what the invariant looks at, nor `streams`, nor the codec -/
theorem CS.same {X : String → Prop} {c c' : Conn} (hi : GoAwayInv c) (hg : c'.goAway = c.goAway) (hs : c'.streams = c.streams)
    (hp : c'.pingPong.pendingPing = c.pingPong.pendingPing) (hc : c'.codec = c.codec) (hl : c'.settings = c.settings) :
    CS X c c' :=
  .mk' ((Keep15.of_view hg (by rw [hs])).step hi) hp (by rw [hc]) hl (.same hs (by rw [hc]))

theorem CS.of_fst {X : String → Prop} {α : Type} {c c' : Conn} {x : Conn × α} {a : α} (h : CS X c x.1) (e : x = (c', a)) :
    CS X c c' := by subst e; exact h

-- ===================================================================== frame facts (unconditional)

theorem goAwayNowData_frame (c : Conn) (e : Reason) (d : Bytes) :
    (c.goAwayNowData e d).pingPong = c.pingPong ∧ (c.goAwayNowData e d).codec = c.codec ∧
    (c.goAwayNowData e d).settings = c.settings := by
  unfold Conn.goAwayNowData
  dsimp only
  split <;> exact ⟨rfl, rfl, rfl⟩

theorem dynGoAway_frame (c : Conn) (id : Nat) (e : Reason) :
    (c.dynGoAway id e).pingPong = c.pingPong ∧ (c.dynGoAway id e).codec = c.codec ∧
    (c.dynGoAway id e).settings = c.settings := by
  unfold Conn.dynGoAway
  dsimp only
  split <;> exact ⟨rfl, rfl, rfl⟩

theorem handleGoAway_frame (c : Conn) (r : Reason) (d : Bytes) (i : Initiator) :
    (c.handleGoAway r d i).pingPong = c.pingPong ∧ (c.handleGoAway r d i).codec = c.codec ∧
    (c.handleGoAway r d i).settings = c.settings := by
  rcases ConnCtlP.handleGoAway_cases c r d i with h | h <;> rw [h]
  · exact ⟨rfl, rfl, rfl⟩
  · exact goAwayNowData_frame _ r d

-- ===================================================================== go_away / go_away_now / handle_go_away

/-- `DynConnection::go_away(id, e)` at its call sites (`last_processed_id ≤ id ≤ max_stream_id`, `id` not above
    the announced id): exactly `Recv::go_away(id)`, with its `assert!` true -/
theorem dynGoAway_cs {X : String → Prop} {c : Conn} (id : Nat) (e : Reason)
    (h1 : (view c.streams).lpi ≤ id) (h2 : id ≤ (view c.streams).rmax)
    (h3 : ∀ ga, c.goAway.goingAway = some ga → id ≤ ga.lastProcessedId) : CS X c (c.dynGoAway id e) := by
  obtain ⟨d1, d2, -, d4, -, -⟩ := ConnCtlP.dynGoAway_inv c id e h1 h2 h3
  obtain ⟨-, dv, -, -, -⟩ := ConnCtlP.recvGoAway_ok c.streams id h2
  obtain ⟨f1, f2, f3⟩ := dynGoAway_frame c id e
  refine .mk' ⟨d1, ?_, ?_⟩ (by rw [f1]) (by rw [f2]) f3 (.op1 (.recvGoAway id) h2 rfl d2 (by rw [f2]))
  · intro m hm
    refine ⟨id, by unfold gaLast; rw [d4]; rfl, ?_⟩
    unfold gaLast at hm
    cases hga : c.goAway.goingAway with
    | none => rw [hga] at hm; cases hm
    | some ga =>
      rw [hga] at hm
      simp at hm
      rw [← hm]
      exact h3 ga hga
  · intro hs
    rw [d2, dv]; exact hs

/-- `DynConnection::go_away_now(e)` / `go_away_now_data(e, data)`: `streams` untouched, the `assert!` true -/
theorem goAwayNowData_cs {X : String → Prop} {c : Conn} (hi : GoAwayInv c) (e : Reason) (d : Bytes) :
    CS X c (c.goAwayNowData e d) := by
  obtain ⟨f1, f2, f3⟩ := goAwayNowData_frame c e d
  exact .mk' (ConnCtlP.goAwayNowData_step15 c e d hi) (by rw [f1]) (by rw [f2]) f3
    (.same (ConnCtlP.goAwayNowData_inv c e d hi).2 (by rw [f2]))

theorem goAwayNow_cs {X : String → Prop} {c : Conn} (hi : GoAwayInv c) (e : Reason) : CS X c (c.goAwayNow e) :=
  goAwayNowData_cs hi e []

theorem cs_handleError {X : String → Prop} {c : Conn} (hi : GoAwayInv c) (e : PErr) (he : ∀ id r, e ≠ .reset id r .remote) :
    CS X c { c with streams := (c.streams.handleError e).1 } :=
  .mk' ((ConnCtlP.keep15_handleError c e).step hi) rfl rfl rfl (.op1 (.handleError e) he rfl rfl rfl)

/-- `DynConnection::handle_go_away`: `Streams::handle_error`, then `go_away_now_data` -/
theorem handleGoAway_cs {X : String → Prop} {c : Conn} (hi : GoAwayInv c) (r : Reason) (d : Bytes) (i : Initiator) :
    CS X c (c.handleGoAway r d i) := by
  rcases ConnCtlP.handleGoAway_cases c r d i with h | h <;> rw [h]
  · exact .same hi rfl rfl rfl rfl rfl
  · have s1 : CS X c { c with streams := (c.streams.handleError (.goAway d r i)).1 } :=
      cs_handleError hi _ (fun _ _ h => by cases h)
    exact s1.trans (goAwayNowData_cs s1.ga r d)

/-- **`DynConnection::handle_poll2_result`**: `handle_error`, `send_reset` (library resets), nothing else -/
theorem handlePoll2Result_cs {X : String → Prop} {c : Conn} (hi : GoAwayInv c) (res : Except PErr Unit) :
    CS X c (c.handlePoll2Result res).1 := by
  unfold Conn.handlePoll2Result
  cases res with
  | ok u => exact .same hi rfl rfl rfl rfl rfl
  | error e =>
    cases e with
    | goAway d r i => exact handleGoAway_cs hi r d i
    | reset id r i =>
      dsimp only
      split
      · exact .refl hi
      · rcases hs : c.streams.innerSendReset id r with ⟨s, rr⟩
        have hv : view s = view c.streams := by
          have := ConnCtlP.view_innerSendReset c.streams id r; rw [hs] at this; exact this
        have s1 : CS X c { c with streams := s } :=
          .mk' ((Keep15.of_view (c := c) (c' := { c with streams := s }) rfl hv).step hi) rfl rfl rfl
            (.op1 (.innerSendReset id r) trivial rfl (by show s = (c.streams.innerSendReset id r).1; rw [hs]) rfl)
        cases rr with
        | ok u => exact s1
        | error g => exact s1.trans (handleGoAway_cs s1.ga _ _ _)
    | io kind msg =>
      dsimp only
      have s1 : CS X c { c with streams := (c.streams.handleError (.io kind msg)).1 } :=
        cs_handleError hi _ (fun _ _ h => by cases h)
      split
      · exact s1.trans (.same s1.ga rfl rfl rfl rfl rfl)
      · exact s1

-- ===================================================================== the parts of poll_ready

/-- what is proved by hand for the pieces of `poll_ready`: pending PING kept up to `sent`, reader untouched,
    `(streams, codec.w)` moved by a history (the GOAWAY part comes from ConnCtlP's `Keep15`) -/
structure QS (c c' : Conn) : Prop where
  ping : ∀ p', c'.pingPong.pendingPing = some p' → ∃ p, c.pingPong.pendingPing = some p ∧ p'.payload = p.payload
  rd : c'.codec.r = c.codec.r
  loc : LocLe c c'
  hist : HistW ConnP' c.streams c.codec.w c'.streams c'.codec.w

theorem QS.refl (c : Conn) : QS c c := ⟨fun p h => ⟨p, h, rfl⟩, rfl, .refl c, .refl⟩
theorem QS.trans {a b c : Conn} (h1 : QS a b) (h2 : QS b c) : QS a c := by
  refine ⟨fun p hp => ?_, h2.rd.trans h1.rd, h1.loc.trans h2.loc, h1.hist.trans h2.hist⟩
  obtain ⟨q, hq, e1⟩ := h2.ping p hp
  obtain ⟨r, hr, e2⟩ := h1.ping q hq
  exact ⟨r, hr, e1.trans e2⟩
/-- nothing relevant changes -/
theorem QS.same {c c' : Conn} (hp : c'.pingPong.pendingPing = c.pingPong.pendingPing) (hc : c'.codec = c.codec)
    (hs : c'.streams = c.streams) (hl : c'.settings = c.settings) : QS c c' :=
  ⟨fun p h => ⟨p, by rw [← hp]; exact h, rfl⟩, by rw [hc], .of_eq (by rw [hl]) (by rw [hl]), .same hs (by rw [hc])⟩
/-- a writer step of the connection -/
theorem QS.wstep {c c' : Conn} (hp : c'.pingPong.pendingPing = c.pingPong.pendingPing) (hr : c'.codec.r = c.codec.r)
    (hs : c'.streams = c.streams) (hl : c'.settings = c.settings) (hw : WStep c.codec.w c'.codec.w) : QS c c' :=
  ⟨fun p h => ⟨p, by rw [← hp]; exact h, rfl⟩, hr, .of_eq (by rw [hl]) (by rw [hl]), .w1 hw hs⟩
theorem QS.cs {X : String → Prop} {c c' : Conn} (h : QS c c') (k : Step15 c c') : CS X c c' :=
  ⟨⟨k.1, k.2, h.ping, fun hn => hn.keep h.rd h.loc⟩, h.hist.toX'⟩

/-- `dst.poll_ready(cx)`: a writer step; everything else of the connection stays -/
theorem codecPollReady_of {c c1 : Conn} {st : H2V.Model.Conn.Step} (h : c.codecPollReady = (c1, st)) :
    QS c c1 ∧ c1.pingPong = c.pingPong ∧ c1.settings = c.settings ∧ c1.cx = c.cx := by
  have : QS c c.codecPollReady.1 ∧ c.codecPollReady.1.pingPong = c.pingPong ∧ c.codecPollReady.1.settings = c.settings ∧
      c.codecPollReady.1.cx = c.cx := ⟨.wstep rfl rfl rfl rfl (.pollReadyW _ _ _), rfl, rfl, rfl⟩
  rw [h] at this
  exact this

theorem sendPendingGoAway_qs (c : Conn) : QS c c.sendPendingGoAway.1 := by
  unfold Conn.sendPendingGoAway
  cases hp : c.goAway.pending with
  | none => dsimp only; (repeat' split) <;> exact .refl c
  | some f =>
    dsimp only
    rcases h : c.codecPollReady with ⟨c1, st⟩
    obtain ⟨k1, -, -, -⟩ := codecPollReady_of h
    cases st with
    | pending => exact k1
    | err e => exact k1.trans (.same rfl rfl rfl rfl)
    | ok => exact k1.trans (.wstep rfl rfl rfl rfl (.bufferSimple _ _ _))

theorem sendPendingPong_qs (c : Conn) : QS c c.sendPendingPong.1 := by
  unfold Conn.sendPendingPong
  cases hp : c.pingPong.pendingPong with
  | none => exact .refl c
  | some pong =>
    dsimp only
    rcases h : c.codecPollReady with ⟨c1, st⟩
    obtain ⟨k1, -, -, -⟩ := codecPollReady_of h
    cases st with
    | pending => exact k1
    | err e => exact k1.trans (.same rfl rfl rfl rfl)
    | ok => exact k1.trans (.wstep rfl rfl rfl rfl (.bufferSimple _ _ _))

theorem sendPendingPing_qs (c : Conn) : QS c c.sendPendingPing.1 := by
  unfold Conn.sendPendingPing
  cases hp : c.pingPong.pendingPing with
  | some ping =>
    dsimp only
    split
    · rcases h : c.codecPollReady with ⟨c1, st⟩
      obtain ⟨k1, -, -, -⟩ := codecPollReady_of h
      cases st with
      | ok =>
        refine ⟨fun p' hp' => ⟨ping, hp, ?_⟩, k1.rd, k1.loc, k1.hist.trans (.w1 (.bufferSimple _ _ _) rfl)⟩
        simp at hp'
        rw [← hp']
      | pending => exact k1
      | err e => exact k1
    · exact .refl c
  | none =>
    dsimp only
    cases hu : c.pingPong.userPings with
    | none => exact .refl c
    | some u =>
      dsimp only
      have k0 : QS c { c with pingPong := { c.pingPong with userPings := some { u with pingTask := some c.cx } } } :=
        .same rfl rfl rfl rfl
      split
      · rcases h : Conn.codecPollReady _ with ⟨c1, st⟩
        obtain ⟨k1, -, -, -⟩ := codecPollReady_of h
        have k1 := k0.trans k1
        cases st with
        | ok =>
          exact k1.trans (.wstep rfl rfl rfl rfl (.bufferSimple _ _ _))
        | pending => exact k1
        | err e => exact k1
      · exact k0

theorem ackAndApply_qs (c : Conn) (v : List (Nat × Nat)) (hv : ConnFlowP.SettingsOk v) : QS c (ConnCtlP.ackAndApply c v).1 := by
  unfold ConnCtlP.ackAndApply
  dsimp only
  have k0 : QS c (c.bufferSettings true []) := .wstep rfl rfl rfl rfl (.bufferSimple _ _ _)
  rcases h : Streams.applyRemoteSettings (c.bufferSettings true []).streams v
      (!(c.bufferSettings true []).settings.hasReceivedRemoteInitialSettings) with ⟨s, r⟩
  have k1 : QS (c.bufferSettings true []) { c.bufferSettings true [] with
      settings := { (c.bufferSettings true []).settings with hasReceivedRemoteInitialSettings := true }, streams := s } :=
    ⟨fun p hp => ⟨p, hp, rfl⟩, rfl, .of_eq rfl rfl, .op1 (.applyRemoteSettings v _) hv rfl (by
      show s = (Streams.applyRemoteSettings (c.bufferSettings true []).streams v _).1; rw [h]) rfl⟩
  cases r with
  | error e => exact k0.trans k1
  | ok u =>
    dsimp only
    refine (k0.trans k1).trans ⟨fun p hp => ⟨p, hp, rfl⟩, rfl, .of_eq rfl rfl, ?_⟩
    dsimp only
    cases (List.find? (fun x => decide (x.fst = 1)) v) <;> cases (List.find? (fun x => decide (x.fst = 5)) v)
    · exact .refl
    · exact .w1 (.setMaxFrameSize _ _) rfl
    · exact .w1 (.setHpackMax _ _) rfl
    · exact (HistW.w1 (.setHpackMax _ _) rfl).trans (.w1 (.setMaxFrameSize _ _) rfl)

theorem settingsPollSend_qs (c : Conn) (hrem : ∀ v, c.settings.remote = some v → ConnFlowP.SettingsOk v) :
    QS c c.settingsPollSend.1 := by
  have hloc : ∀ c : Conn, QS c (ConnCtlP.settingsLocalSend c).1 := by
    intro c
    unfold ConnCtlP.settingsLocalSend
    cases hl : c.settings.loc with
    | toSend vals =>
      dsimp only
      rcases h : c.codecPollReady with ⟨c1, st⟩
      obtain ⟨k1, -, e3, -⟩ := codecPollReady_of h
      cases st with
      | ok =>
        refine k1.trans ⟨fun p hp => ⟨p, hp, rfl⟩, rfl, ⟨?_, fun v hv => hv⟩, .w1 (.bufferSimple _ _ _) rfl⟩
        intro v hv
        have : v = vals := by
          rcases hv with hv | hv
          · cases hv
          · injection hv with hv; exact hv.symm
        subst this
        exact Or.inl (by rw [e3]; exact hl)
      | pending => exact k1
      | err e => exact k1
    | waitingAck _ => exact .refl c
    | synced => exact .refl c
  have hrem : QS c (ConnCtlP.settingsRemotePart c).1 := by
    unfold ConnCtlP.settingsRemotePart
    cases hr : c.settings.remote with
    | none => exact .refl c
    | some v =>
      dsimp only
      rcases h : c.codecPollReady with ⟨c1, st⟩
      obtain ⟨k1, -, -, -⟩ := codecPollReady_of h
      cases st with
      | pending => exact k1
      | err e => exact k1
      | ok => exact k1.trans (ackAndApply_qs c1 v (hrem v hr))
  rw [ConnCtlP.settingsPollSend_eq]
  rcases hR : ConnCtlP.settingsRemotePart c with ⟨c1, st⟩
  rw [hR] at hrem
  dsimp only at hrem
  cases st with
  | ok =>
    have hm : QS c1 { c1 with settings := { c1.settings with remote := none } } :=
      ⟨fun p hp => ⟨p, hp, rfl⟩, rfl, ⟨fun v hv => hv, fun v hv => by cases hv⟩, .refl⟩
    exact hrem.trans (hm.trans (hloc _))
  | pending => exact hrem
  | err e => exact hrem

/-- `Connection::poll_ready`: pongs, pings, SETTINGS (`apply_remote_settings`), then the refused stream -/
theorem pollReady_qs (c : Conn) (hrem : ∀ v, c.settings.remote = some v → ConnFlowP.SettingsOk v) :
    QS c c.pollReady.1 ∧ (c.pollReady.2 = .ok → c.pollReady.1.streams.recv.refused = none) := by
  unfold Conn.pollReady
  have q1 := sendPendingPong_qs c
  rcases h1 : c.sendPendingPong with ⟨c1, st1⟩
  rw [h1] at q1
  dsimp only at q1
  cases st1 with
  | pending => exact ⟨q1, fun h => by cases h⟩
  | err e => exact ⟨q1, fun h => by cases h⟩
  | ok =>
    dsimp only
    have q2 := sendPendingPing_qs c1
    rcases h2 : c1.sendPendingPing with ⟨c2, st2⟩
    rw [h2] at q2
    dsimp only at q2
    cases st2 with
    | pending => exact ⟨q1.trans q2, fun h => by cases h⟩
    | err e => exact ⟨q1.trans q2, fun h => by cases h⟩
    | ok =>
      dsimp only
      have q3 := settingsPollSend_qs c2 (fun v hv => hrem v ((q1.trans q2).loc.2 v hv))
      rcases h3 : c2.settingsPollSend with ⟨c3, st3⟩
      rw [h3] at q3
      dsimp only at q3
      cases st3 with
      | pending => exact ⟨(q1.trans q2).trans q3, fun h => by cases h⟩
      | err e => exact ⟨(q1.trans q2).trans q3, fun h => by cases h⟩
      | ok =>
        dsimp only
        have hr := pollSendPendingRefusal_ready 4 c3.streams c3.codec.w c3.codec.io c3.cx
        have q4 : QS c3 { c3 with
            streams := (Streams.pollSendPendingRefusal 4 c3.streams c3.codec.w c3.codec.io c3.cx).1,
            codec := { c3.codec with w := (Streams.pollSendPendingRefusal 4 c3.streams c3.codec.w c3.codec.io c3.cx).2.1,
                                     io := (Streams.pollSendPendingRefusal 4 c3.streams c3.codec.w c3.codec.io c3.cx).2.2.1 } } :=
          ⟨fun p hp => ⟨p, hp, rfl⟩, rfl, .of_eq rfl rfl, .pollSendPendingRefusal 4 c3.codec.io c3.cx .refl trivial⟩
        rcases h4 : Streams.pollSendPendingRefusal 4 c3.streams c3.codec.w c3.codec.io c3.cx with ⟨s, w, io, r⟩
        rw [h4] at hr q4
        refine ⟨((q1.trans q2).trans q3).trans q4, ?_⟩
        intro hok
        cases r with
        | ready => exact hr rfl
        | pending => cases hok
        | err k => cases hok

theorem keep15_pollReady (c : Conn) : Keep15 c c.pollReady.1 := by
  rw [← ConnCtlP.pollReadyT_fst]; exact (ConnCtlP.pollReadyT_keep c).1

theorem step15_sendPendingGoAway {c : Conn} (hi : GoAwayInv c) : Step15 c c.sendPendingGoAway.1 := by
  rw [← ConnCtlP.sendPendingGoAwayT_fst]
  exact ⟨(ConnCtlP.sendPendingGoAwayT_sent c hi).1, (ConnCtlP.sendPendingGoAwayT_sent c hi).2.1.mono⟩

/-- `GoAway::send_pending_go_away`: `streams` untouched; the writer: `poll_ready`, then the GOAWAY frame -/
theorem sendPendingGoAway_cs {X : String → Prop} {c : Conn} (hi : GoAwayInv c) : CS X c c.sendPendingGoAway.1 :=
  (sendPendingGoAway_qs c).cs (step15_sendPendingGoAway hi)

/-- **`Connection::poll_ready`** is a history (`apply_remote_settings`, `send_pending_refusal`); when it answers
    `Ready(Ok)` no refused stream is left (`recv.refused = none`), no SETTINGS is unanswered, no PONG is owed -/
theorem pollReady_cs {X : String → Prop} {c : Conn} (hi : GoAwayInv c)
    (hrem : ∀ v, c.settings.remote = some v → ConnFlowP.SettingsOk v) :
    CS X c c.pollReady.1 ∧ c.pollReady.1.goAway = c.goAway ∧
    (c.pollReady.2 = .ok → c.pollReady.1.streams.recv.refused = none ∧ c.pollReady.1.settings.remote = none ∧
      c.pollReady.1.pingPong.pendingPong = none) := by
  obtain ⟨q, hr⟩ := pollReady_qs c hrem
  refine ⟨q.cs ((keep15_pollReady c).step hi), (keep15_pollReady c).1, fun hok => ?_⟩
  have := (ConnCtlP.pollReadyT_spec c).2
  rw [ConnCtlP.pollReadyT_fst] at this
  exact ⟨hr hok, this (by rw [hok]; rfl)⟩

end H2V.Lemmas.ConnNoPanicP.Iws
