import H2V.Lemmas.ConnPartPGaClosure
/-
  ConnPartP, part 3 — C15: coverage of the `store.for_each` in `Inner::recv_go_away`.
  After `recv_go_away(last_stream_id, reason, debug)`:
    * EVERY stream linked in the id map that is locally initiated and has `id > last_stream_id` or is
      still waiting in `pending_open` is released or `Failed (remote GOAWAY(debug, reason))`;
    * EVERY other slab entry is still there and `Unt` (nothing but the six fields that the hand-out of
      the freed connection capacity writes may differ);
    * no entry appears.
-/
namespace H2V.Lemmas.ConnPartP
open H2V H2V.Model H2V.Model.Conn H2V.Lemmas.ConnWakeP

/-- the selection of `recv_go_away`, for an endpoint whose role is `srv` -/
def Sel (last : Nat) (srv : Bool) (a : Stream) : Prop :=
  (a.id > last ∨ a.isPendingOpen = true) ∧ (srv == (a.id % 2 == 0)) = true

theorem Sel.congr {last : Nat} {srv : Bool} {a b : Stream} (h1 : b.id = a.id) (h2 : b.isPendingOpen = a.isPendingOpen) :
    Sel last srv b ↔ Sel last srv a := by unfold Sel; rw [h1, h2]

/-- what a failed stream looks like, whatever it was before -/
structure Mk (b : Stream) : Prop where
  resolved : Resolved b
  cleared : Cleared b
  sched : b.isPendingOpen = true → b.state.getScheduledReset = none

theorem Failed.toMk {err : PErr} {a b : Stream} (h : Failed err a b) : Mk b := ⟨h.resolved, h.cleared, h.sched⟩

/-- how an entry of the store can evolve during `recv_go_away` -/
def GaR (last : Nat) (srv : Bool) (err : PErr) (a b : Stream) : Prop :=
  (Unt a b ∧ (Resolved a → Resolved b)) ∨ (Sel last srv a ∧ Failed err a b)

section rel
variable {last : Nat} {srv : Bool} {err : PErr} {a b c : Stream}

theorem GaR.refl (a : Stream) : GaR last srv err a a := Or.inl ⟨Unt.refl a, fun h => h⟩

theorem GaR.id (h : GaR last srv err a b) : b.id = a.id := by
  rcases h with ⟨h, _⟩ | ⟨_, h⟩
  · exact h.id
  · exact h.id
theorem GaR.isPendingOpen (h : GaR last srv err a b) : b.isPendingOpen = a.isPendingOpen := by
  rcases h with ⟨h, _⟩ | ⟨_, h⟩
  · exact h.isPendingOpen
  · exact h.isPendingOpen
theorem GaR.sel (h : GaR last srv err a b) : Sel last srv b ↔ Sel last srv a := Sel.congr h.id h.isPendingOpen

theorem failState_congr (hs : b.state = a.state) (hp : b.isPendingOpen = a.isPendingOpen) (hi : b.id = a.id) :
    failState err b = failState err a := by unfold failState; rw [hs, hp, hi]

theorem Failed.of_unt_left (hu : Unt a b) (h : Failed err b c) : Failed err a c :=
  ⟨h.rest.trans (maskF_of_mask hu), h.state.trans (failState_congr hu.state hu.isPendingOpen hu.id), h.cleared, h.resolved⟩

theorem GaR.trans (h1 : GaR last srv err a b) (h2 : GaR last srv err b c) : GaR last srv err a c := by
  rcases h1 with ⟨u1, r1⟩ | ⟨s1, f1⟩
  · rcases h2 with ⟨u2, r2⟩ | ⟨s2, f2⟩
    · exact Or.inl ⟨u1.trans u2, fun h => r2 (r1 h)⟩
    · exact Or.inr ⟨(Sel.congr u1.id u1.isPendingOpen).mp s2, f2.of_unt_left u1⟩
  · rcases h2 with ⟨u2, r2⟩ | ⟨_, f2⟩
    · exact Or.inr ⟨s1, f1.unt u2 (r2 f1.resolved)⟩
    · exact Or.inr ⟨s1, f1.again f2⟩

theorem GaR.mk (h : GaR last srv err a b) (hm : Mk a) : Mk b := by
  rcases h with ⟨u, r⟩ | ⟨_, f⟩
  · exact ⟨r hm.resolved, ⟨u.pendingSend.trans hm.cleared.1, u.buffered.trans hm.cleared.2, u.requested.trans hm.cleared.3⟩,
      fun hp => by rw [u.state]; exact hm.sched (by rw [← u.isPendingOpen]; exact hp)⟩
  · exact f.toMk
end rel

/-- the relation between the store before and during/after `recv_go_away` -/
structure GA (last : Nat) (srv : Bool) (err : PErr) (s s' : Streams) : Prop where
  fresh : ∀ k, s.store.get? k = none → s'.store.get? k = none
  keep : ∀ k a, s.store.get? k = some a →
    (Sel last srv a ∧ s'.store.get? k = none) ∨ ∃ b, s'.store.get? k = some b ∧ GaR last srv err a b

section ga
variable {last : Nat} {srv : Bool} {err : PErr}

theorem GA.refl (s : Streams) : GA last srv err s s :=
  ⟨fun _ h => h, fun _ a h => Or.inr ⟨a, h, GaR.refl a⟩⟩

theorem GA.trans {s s' s'' : Streams} (h1 : GA last srv err s s') (h2 : GA last srv err s' s'') :
    GA last srv err s s'' where
  fresh := fun k h => h2.fresh k (h1.fresh k h)
  keep := fun k a h => by
    rcases h1.keep k a h with ⟨r, h'⟩ | ⟨b, hb, hab⟩
    · exact Or.inl ⟨r, h2.fresh k h'⟩
    · rcases h2.keep k b hb with ⟨r, h''⟩ | ⟨c, hc, hbc⟩
      · exact Or.inl ⟨hab.sel.mp r, h''⟩
      · exact Or.inr ⟨c, hc, hab.trans hbc⟩

theorem GA.of_store_eq {s s' : Streams} (h : s'.store = s.store) : GA last srv err s s' := by
  refine ⟨by rw [h]; exact fun _ h => h, ?_⟩
  rw [h]; exact fun _ a h => Or.inr ⟨a, h, GaR.refl a⟩

/-- the condition of the closure is `Sel` of the entry it looks at -/
theorem sel_iff_cond {t : Streams} (hsrv : Srv srv t) (a : Stream) :
    ((decide (a.id > last) || a.isPendingOpen) && t.counts.isLocalInit a.id) = true ↔ Sel last srv a := by
  rw [isLocalInit_of_srv hsrv]
  unfold Sel
  simp only [Bool.and_eq_true, Bool.or_eq_true, decide_eq_true_eq]

/-- one call of the closure of `recv_go_away` -/
theorem ga_closure {t : Streams} (hsrv : Srv srv t) (k : Nat) : GA last srv err t (goAwayClosure last err t k) := by
  cases ha : t.store.get? k with
  | none =>
    -- a dangling key reads as a blank stream with id 0: not selected
    have : goAwayClosure last err t k = t := by
      unfold goAwayClosure
      have hb : t.stream k = { key := k, id := 0 } := by unfold Streams.stream; rw [ha]; rfl
      simp only [hb]
      rw [if_neg]
      simp
    rw [this]; exact GA.refl t
  | some a =>
    have hst : t.stream k = a := stream_eq_of_get? ha
    by_cases hsel : Sel last srv a
    · have : goAwayClosure last err t k = errClosure err t k := by
        unfold goAwayClosure
        simp only [hst]
        rw [if_pos ((sel_iff_cond hsrv a).mpr hsel)]
        rfl
      rw [this]
      refine ⟨fun k' hn => errClosure_fresh err hn, fun k' a' ha' => ?_⟩
      by_cases hk : k' = k
      · subst hk
        rw [ha] at ha'; cases ha'
        rcases errClosure_self err ha with hn | ⟨b, hb, hf⟩
        · exact Or.inl ⟨hsel, hn⟩
        · exact Or.inr ⟨b, hb, Or.inr ⟨hsel, hf⟩⟩
      · obtain ⟨b', hb', hu⟩ := errClosure_other err hk ha'
        refine Or.inr ⟨b', hb', Or.inl ⟨hu, fun hr => ?_⟩⟩
        rcases (errClosure_rs err t k).keep k' a' ha' with ⟨_, hn⟩ | ⟨c, hc, hac⟩
        · rw [hn] at hb'; cases hb'
        · rw [hc] at hb'; cases hb'; exact hac.res hr
    · have : goAwayClosure last err t k = t := by
        unfold goAwayClosure
        simp only [hst]
        rw [if_neg (fun h => hsel ((sel_iff_cond hsrv a).mp h))]
      rw [this]; exact GA.refl t

/-- `P e t` of the loop: the entry of `e`, if it is (still) there and selected, looks failed -/
def Visited (last : Nat) (srv : Bool) (e : Nat × Nat) (t : Streams) : Prop :=
  ∀ b, t.store.get? e.2 = some b → Sel last srv b → Mk b

theorem visited_of_ga {t t' : Streams} (h : GA last srv err t t') {e : Nat × Nat} (hv : Visited last srv e t) :
    Visited last srv e t' := by
  intro b hb hsel
  cases ha : t.store.get? e.2 with
  | none => rw [h.fresh _ ha] at hb; cases hb
  | some a =>
    rcases h.keep _ a ha with ⟨_, hn⟩ | ⟨c, hc, hac⟩
    · rw [hn] at hb; cases hb
    · rw [hc] at hb; cases hb
      exact hac.mk (hv a ha (hac.sel.mp hsel))

/-- the closure makes the entry it is called on `Visited` -/
theorem visited_closure {t : Streams} (hsrv : Srv srv t) (e : Nat × Nat) :
    Visited last srv e (goAwayClosure last err t e.2) := by
  intro b hb hsel
  cases ha : t.store.get? e.2 with
  | none =>
    rw [(ga_closure (last := last) (err := err) hsrv e.2).fresh _ ha] at hb; cases hb
  | some a =>
    have hst : t.stream e.2 = a := stream_eq_of_get? ha
    by_cases hsa : Sel last srv a
    · have : goAwayClosure last err t e.2 = errClosure err t e.2 := by
        unfold goAwayClosure
        simp only [hst]
        rw [if_pos ((sel_iff_cond hsrv a).mpr hsa)]
        rfl
      rw [this] at hb
      rcases errClosure_self err ha with hn | ⟨b', hb', hf⟩
      · rw [hn] at hb; cases hb
      · rw [hb'] at hb; cases hb; exact hf.toMk
    · have : goAwayClosure last err t e.2 = t := by
        unfold goAwayClosure
        simp only [hst]
        rw [if_neg (fun h => hsa ((sel_iff_cond hsrv a).mp h))]
      rw [this, ha] at hb; cases hb
      exact absurd hsel hsa

theorem goAwayClosure_srv {t : Streams} (hsrv : Srv srv t) (k : Nat) : Srv srv (goAwayClosure last err t k) := by
  rcases goAwayClosure_cases last err t k with h | h
  · rw [h]; exact errClosure_srv _ _ hsrv
  · rw [h]; exact hsrv

/-- `swap_remove(x)` keeps every entry with another id -/
theorem mem_swapRemove_of_ne {l : List (Nat × Nat)} {x : Nat} {e : Nat × Nat} (he : e ∈ l) (hne : e.1 ≠ x) :
    e ∈ Store.swapRemove l x := by
  unfold Store.swapRemove
  split
  · exact he
  · next i hi =>
    split
    · exact he
    · next last hl =>
      simp only
      have hne' : l ≠ [] := by intro h; subst h; cases he
      have hdl : l = l.dropLast ++ [last] := by
        have := List.dropLast_concat_getLast hne'
        rw [List.getLast?_eq_some_getLast hne'] at hl
        cases hl
        exact this.symm
      have hi' := List.findIdx?_eq_some_iff_getElem.mp hi
      obtain ⟨hil, hix, _⟩ := hi'
      have hix' : l[i].1 = x := by simpa using hix
      rw [hdl] at he
      rcases List.mem_append.mp he with h1 | h1
      · split
        · exact h1
        · -- `e` sits in `dropLast`, at an index other than `i`
          obtain ⟨j, hj, hje⟩ := List.getElem_of_mem h1
          have hji : j ≠ i := by
            intro h; subst h
            have : l[j] = e := by
              rw [← hje]; exact (List.getElem_dropLast ..).symm
            rw [this] at hix'; exact hne hix'
          have : (l.dropLast.set i last)[j]'(by simpa using hj) = e := by
            rw [List.getElem_set_ne (Ne.symm hji)]; exact hje
          exact this ▸ List.getElem_mem _
      · have hel : e = last := by simpa using h1
        subst hel
        split
        · next hlast =>
          -- `i` is the last index: the removed entry is `last` itself, whose id is `x`
          exfalso
          have : l[i] = e := by
            have h2 : l.getLast hne' = e := by
              rw [List.getLast?_eq_some_getLast hne'] at hl; exact Option.some.inj hl
            rw [← h2, List.getLast_eq_getElem]
            congr 1; omega
          rw [this] at hix'; exact hne hix'
        · next hlast =>
          have hil' : i < l.dropLast.length := by simp; omega
          exact List.mem_iff_getElem.mpr ⟨i, by simpa using hil', by rw [List.getElem_set_self]⟩

/-- the id-map entries of unselected streams: still there -/
def KeepsLinks (last : Nat) (srv : Bool) (s1 t : Streams) : Prop :=
  ∀ e ∈ s1.store.ids, ∀ a, s1.store.get? e.2 = some a → ¬ Sel last srv a → e ∈ t.store.ids

/-- one call of the closure keeps the id-map entries of the unselected streams -/
theorem keepsLinks_closure {s1 t : Streams} (hids : IdsOK t.store) (hsrv : Srv srv t) (hga : GA last srv err s1 t)
    (hk : KeepsLinks last srv s1 t) {e0 : Nat × Nat} (he0 : e0 ∈ t.store.ids) :
    KeepsLinks last srv s1 (goAwayClosure last err t e0.2) := by
  intro e he a ha hns
  have het := hk e he a ha hns
  have hC := errClosure_closure err
  -- the entry of `e` in `t`
  rcases hga.keep e.2 a ha with ⟨hs, _⟩ | ⟨b, hb, hab⟩
  · exact absurd hs hns
  · have hnsb : ¬ Sel last srv b := fun h => hns (hab.sel.mp h)
    by_cases hee : e0 = e
    · subst hee
      -- the closure looks at an unselected entry: nothing happens
      have hst : t.stream e0.2 = b := stream_eq_of_get? hb
      have : goAwayClosure last err t e0.2 = t := by
        unfold goAwayClosure
        simp only [hst]
        rw [if_neg (fun h => hnsb ((sel_iff_cond hsrv b).mp h))]
      rw [this]; exact het
    · rcases goAwayClosure_cases last err t e0.2 with h | h
      · rw [h]
        have hne : e.1 ≠ e0.1 := by
          intro h1
          -- ids are unique in the map
          have hnd := hids.1
          obtain ⟨i, hi⟩ := List.getElem?_of_mem het
          obtain ⟨j, hj⟩ := List.getElem?_of_mem he0
          have h2 := findIdx?_of_nodup hnd hi
          have h3 := findIdx?_of_nodup hnd hj
          rw [h1] at h2
          rw [h2] at h3
          have hij : i = j := Option.some.inj h3
          subst hij
          rw [hi] at hj
          exact hee (Option.some.inj hj).symm
        cases hg0 : t.store.get? e0.2 with
        | none => rw [hC.ids_none t e0.2 hg0]; exact het
        | some a0 =>
          rcases hC.ids t e0.2 a0 hg0 with h2 | h2
          · rw [h2]; exact het
          · rw [h2, hids.2 e0 he0 a0 hg0]; exact mem_swapRemove_of_ne het hne
      · rw [h]; exact het

/-- the loop of `recv_go_away` -/
theorem ga_forEach (s1 : Streams) (hids : IdsOK s1.store) (hsrv : Srv srv s1) :
    GA last srv err s1 (s1.storeForEach (goAwayClosure last err)) ∧
    KeepsLinks last srv s1 (s1.storeForEach (goAwayClosure last err)) ∧
    ∀ e ∈ s1.store.ids, Visited last srv e (s1.storeForEach (goAwayClosure last err)) := by
  have hC := errClosure_closure err
  have key := tryForEach_visits (goAwayClosure last err)
    (fun t => IdsOK t.store ∧ Srv srv t ∧ GA last srv err s1 t ∧ KeepsLinks last srv s1 t)
    (fun e t => Visited last srv e t)
    (fun t hI => hI.1.1)
    (fun t e hI _ => visited_closure hI.2.1 e)
    (fun t e e' hI _ hP => visited_of_ga (ga_closure hI.2.1 e.2) hP)
    (fun t e hI he => by
      refine ⟨?_, goAwayClosure_srv hI.2.1 e.2, hI.2.2.1.trans (ga_closure hI.2.1 e.2),
        keepsLinks_closure hI.1 hI.2.1 hI.2.2.1 hI.2.2.2 he⟩
      rcases goAwayClosure_cases last err t e.2 with h | h
      · rw [h]; exact hC.idsOK hI.1 he
      · rw [h]; exact hI.1)
    (fun t e hI he => by
      rcases goAwayClosure_cases last err t e.2 with h | h
      · rw [h]
        cases hga : t.store.get? e.2 with
        | none => exact Or.inl (hC.ids_none t e.2 hga)
        | some a0 => rw [← hI.1.2 e he a0 hga]; exact hC.ids t e.2 a0 hga
      · rw [h]; exact Or.inl rfl)
    s1.store.ids (2 * s1.store.ids.length + 1) 0 s1 ⟨hids, hsrv, GA.refl s1, fun e he _ _ _ => he⟩ (by omega)
    (fun e he => by
      obtain ⟨j, hj⟩ := List.getElem?_of_mem he
      exact Or.inr ⟨j, Nat.zero_le _, hj⟩)
  unfold Streams.storeForEach Streams.storeTryForEach
  exact ⟨key.1.2.2.1, key.1.2.2.2, key.2⟩

end ga

/-- **coverage of `Inner::recv_go_away`**: for a store whose id map is a map (`IdsOK`: every reachable
    state), after an accepted GOAWAY(last, reason, debug)
    * `conn_error` is the remote GOAWAY;
    * no slab entry appears;
    * every slab entry that is not selected — peer-initiated, or (id ≤ last and not in `pending_open`) —
      is still there and untouched up to the capacity-assignment fields (`Unt`);
    * every selected entry that the id map knows is released or `Failed`;
    * a selected entry that the id map does not know (unlinked earlier) is at worst `Failed` (never
      happens: it is not visited) or `Unt`. -/
theorem recvGoAwayFrame_cover (s s' : Streams) (hids : IdsOK s.store) (last : Nat) (r : Reason) (d : Bytes)
    (hok : s.recvGoAwayFrame last r d = (s', .ok ())) :
    s'.actions.connError = some (PErr.remoteGoAway d r) ∧
    (∀ k, s.store.get? k = none → s'.store.get? k = none) ∧
    (∀ k a, s.store.get? k = some a → ¬ Sel last s.counts.isServer a →
      ∃ b, s'.store.get? k = some b ∧ Unt a b) ∧
    (∀ e ∈ s.store.ids, ∀ a, s.store.get? e.2 = some a → Sel last s.counts.isServer a →
      s'.store.get? e.2 = none ∨ ∃ b, s'.store.get? e.2 = some b ∧ Failed (PErr.remoteGoAway d r) a b) ∧
    (∀ e ∈ s.store.ids, ∀ a, s.store.get? e.2 = some a → ¬ Sel last s.counts.isServer a → e ∈ s'.store.ids) := by
  unfold Streams.recvGoAwayFrame at hok
  rcases hsg : s.sendRecvGoAway last with ⟨s1, e | u⟩
  · rw [hsg] at hok; cases hok
  · rw [hsg] at hok
    simp only at hok
    obtain ⟨rfl, _⟩ := Prod.mk.inj hok
    have h1s : s1.store = s.store := by
      have : s1 = (s.sendRecvGoAway last).1 := by rw [hsg]
      rw [this]; unfold Streams.sendRecvGoAway; split <;> rfl
    have hsrv1 : Srv s.counts.isServer s1 := by
      have := sendRecvGoAway_srv last (b := s.counts.isServer) (s := s) rfl
      rw [hsg] at this; exact this
    obtain ⟨hga, hkl, hvis⟩ := ga_forEach (last := last) (err := PErr.remoteGoAway d r) s1 (h1s ▸ hids) hsrv1
    -- the loop of the model is that loop; `conn_error` is set afterwards
    have hloop : (s1.storeForEach fun s id =>
        let st := s.stream id
        if ((decide (st.id > last) || st.isPendingOpen) && s.counts.isLocalInit st.id) = true then
          (s.transition id fun s => ((s.recvHandleError id (PErr.remoteGoAway d r)).sendHandleError id, ())).1
        else s) = s1.storeForEach (goAwayClosure last (PErr.remoteGoAway d r)) := rfl
    refine ⟨rfl, fun k hn => ?_, fun k a ha hns => ?_, fun e he a ha hsel => ?_, fun e he a ha hns => ?_⟩
    · show (Streams.storeForEach _ _).store.get? k = none
      rw [hloop]; exact hga.fresh k (h1s ▸ hn)
    · show ∃ b, (Streams.storeForEach _ _).store.get? k = some b ∧ _
      rw [hloop]
      rcases hga.keep k a (h1s ▸ ha) with ⟨hs, _⟩ | ⟨b, hb, hab⟩
      · exact absurd hs hns
      · rcases hab with ⟨hu, _⟩ | ⟨hs, _⟩
        · exact ⟨b, hb, hu⟩
        · exact absurd hs hns
    · show (Streams.storeForEach _ _).store.get? e.2 = none ∨ ∃ b, (Streams.storeForEach _ _).store.get? e.2 = some b ∧ _
      rw [hloop]
      rcases hga.keep e.2 a (h1s ▸ ha) with ⟨_, hn⟩ | ⟨b, hb, hab⟩
      · exact Or.inl hn
      · right
        refine ⟨b, hb, ?_⟩
        rcases hab with ⟨hu, _⟩ | ⟨_, hf⟩
        · have hm : Mk b := hvis e (h1s ▸ he) b hb ((Sel.congr hu.id hu.isPendingOpen).mpr hsel)
          exact Failed.of_unt hu hm.resolved hm.cleared hm.sched
        · exact hf
    · show e ∈ (Streams.storeForEach _ _).store.ids
      rw [hloop]
      exact hkl e (h1s ▸ he) a (h1s ▸ ha) hns

end H2V.Lemmas.ConnPartP
