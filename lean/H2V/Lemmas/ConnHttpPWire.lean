import H2V.Lemmas.ConnHttpPReader
import H2V.Lemmas.HpackDecSplit
/-
  C13 (ConnHttpP), part 26 — the ghost field list is what HPACK decodes from the CONCATENATION of the
  block's fragments: a second ghost (decoder at the start of the block, octets of the block so far)
  carried next to the reader, tied to `ghostNext` by `H2V.Lemmas.HpackDec.split_invariance`.
-/
namespace H2V.Lemmas.ConnHttpP
open H2V H2V.Model H2V.Model.Frame H2V.Model.Hpack H2V.Model.CodecRead H2V.Lemmas.HpackDec

/-- ghost: (HPACK decoder when the block in progress started, block fragments concatenated so far) -/
abbrev WGhost := Option (Decoder × Bytes)

def wireNext (w : WGhost) (r : Reader) (bytes : Bytes) : WGhost :=
  let head := Head.parse bytes
  let payload := bytes.drop 9
  if r.partialBlk.isSome ∧ head.kind ≠ 9 then w
  else match head.kind with
    | 1 => match loadHeadersHead head payload with
      | .ok (_, _, _, _, frag) => some (r.hpack, frag)
      | .error _ => w
    | 5 => match loadPushPromiseHead head payload with
      | .ok (_, _, _, frag) => some (r.hpack, frag)
      | .error _ => w
    | 9 => match w with
      | some (d0, src) => some (d0, src ++ payload)
      | none => none
    | _ => w

/-- the reader's HPACK state, partial buffer and the ghost list are those of decoding the
    concatenated fragments from the decoder the block started with -/
structure WInv (r : Reader) (g : List Header) (w : WGhost) : Prop where
  part : ∀ p, r.partialBlk = some p → ∃ d0 src, w = some (d0, src) ∧ r.hpack = (d0.decode src).dec ∧
    p.buf = (d0.decode src).tail ∧ g = (d0.decode src).fields ∧ resumable (d0.decode src).result = true

theorem afterHpack_partial (r : Reader) (c : Continuable) (tail : Bytes) (count : Nat) (eh : Bool) (sid : Nat)
    (res : Except FErr Unit) (p : Partial) (hp : (afterHpack r c tail count eh sid res).1.partialBlk = some p) :
    p.buf = tail ∧ (res = .ok () ∨ ∃ e, res = .error (.hpack e) ∧ e.isNeedMore = true) := by
  unfold afterHpack at hp
  cases res with
  | ok u =>
    cases eh
    · simp only [Bool.false_eq_true, if_false, Option.some.injEq] at hp
      subst hp; exact ⟨rfl, Or.inl rfl⟩
    · simp only [if_true] at hp; cases hp
  | error e =>
    cases e with
    | hpack e =>
      simp only at hp
      split at hp
      · rename_i hc
        have : eh = false := by simpa using hc.2
        subst this
        simp only [Bool.false_eq_true, if_false, Option.some.injEq] at hp
        subst hp
        exact ⟨rfl, Or.inr ⟨e, rfl, hc.1⟩⟩
      · cases hp
    | _ => cases hp


/-- `load_hpack` + the `header_block!` tail against the decoder output `o = dec.decode src` -/
theorem load_after_w (r : Reader) (b : HeaderBlock) (src : Bytes) (dec : Decoder)
    (mk : HeaderBlock → Continuable) (cnt : Nat) (eh : Bool) (sid : Nat) (out : Reader × DF)
    (ho : out = afterHpack { r with hpack := (HeaderBlock.load b src r.maxHeaderListSize dec).2.1 }
      (mk (HeaderBlock.load b src r.maxHeaderListSize dec).1) (HeaderBlock.load b src r.maxHeaderListSize dec).2.2.1
      cnt eh sid (HeaderBlock.load b src r.maxHeaderListSize dec).2.2.2) :
    out.1.hpack = (dec.decode src).dec ∧
    (∀ p, out.1.partialBlk = some p → p.buf = (dec.decode src).tail ∧ resumable (dec.decode src).result = true) ∧
    (∀ blk, dfBlock out.2 = some blk → (dec.decode src).result = .ok ()) := by
  subst ho
  have hres : ∀ x, (HeaderBlock.load b src r.maxHeaderListSize dec).2.2.2 = x →
      (x = .ok () → (dec.decode src).result = .ok ()) ∧
      (∀ e, x = .error (.hpack e) → (dec.decode src).result = .error e) := by
    intro x hx
    rw [load_eq] at hx
    simp only at hx
    split at hx
    · subst hx; exact ⟨fun h => (by cases h), fun e h => (by cases h)⟩
    · cases hr : (dec.decode src).result with
      | error e' =>
        rw [hr] at hx
        subst hx
        exact ⟨fun h => (by cases h), fun e h => (by cases h; rfl)⟩
      | ok u =>
        rw [hr] at hx
        simp only at hx
        split at hx <;> (subst hx; exact ⟨fun _ => rfl, fun e h => (by cases h)⟩)
  obtain ⟨a1, -, a3⟩ := afterHpack_cases { r with hpack := (HeaderBlock.load b src r.maxHeaderListSize dec).2.1 }
    (mk (HeaderBlock.load b src r.maxHeaderListSize dec).1) (HeaderBlock.load b src r.maxHeaderListSize dec).2.2.1
    cnt eh sid (HeaderBlock.load b src r.maxHeaderListSize dec).2.2.2
  obtain ⟨h1, h2⟩ := hres _ rfl
  refine ⟨by rw [a1]; simp only [load_eq], fun p hp => ?_, fun blk hb => h1 (a3 blk hb).2⟩
  obtain ⟨e1, e2⟩ := afterHpack_partial _ _ _ _ _ _ _ p hp
  refine ⟨by rw [e1]; simp only [load_eq], ?_⟩
  rcases e2 with e2 | ⟨e, e2, hn⟩
  · rw [h1 e2]; rfl
  · rw [h2 e e2]; exact hn

theorem winv_same (r r' : Reader) (g : List Header) (w : WGhost) (hi : WInv r g w) (h1 : r'.hpack = r.hpack)
    (h2 : r'.partialBlk = r.partialBlk) : WInv r' g w :=
  ⟨fun p hp => by rw [h1]; exact hi.part p (by rw [← h2]; exact hp)⟩

theorem winv_drop (r' : Reader) (g : List Header) (w : WGhost) (h2 : r'.partialBlk = none) : WInv r' g w :=
  ⟨fun p hp => by rw [h2] at hp; cases hp⟩

theorem w_simple_arm (r : Reader) (g : List Header) (w : WGhost) (x : Except FErr Frame) (hi : WInv r g w)
    (hx : ∀ f, x = .ok f → dfBlock (.frame f) = none) (P : HeaderBlock → Prop) :
    WInv (match x with | .ok f => (r, DF.frame f) | .error _ => (r, connErr)).1 g w ∧
    ∀ blk, dfBlock (match x with | .ok f => (r, DF.frame f) | .error _ => (r, connErr)).2 = some blk → P blk := by
  cases x with
  | ok f => exact ⟨hi, fun blk hb => by simp only at hb; rw [hx f rfl] at hb; cases hb⟩
  | error e => exact ⟨hi, fun blk hb => by cases hb⟩

/-- **the ghost list is the HPACK decoding of the concatenated fragments** — invariant of `decode_frame`,
    and for a delivered block the decoding of the whole block succeeded -/
theorem decodeFrame_winv (r : Reader) (g : List Header) (w : WGhost) (bytes : Bytes) (hi : WInv r g w) :
    WInv (decodeFrame r bytes).1 (ghostNext g r bytes) (wireNext w r bytes) ∧
    ∀ blk, dfBlock (decodeFrame r bytes).2 = some blk →
      ∃ d0 src, wireNext w r bytes = some (d0, src) ∧ ghostNext g r bytes = (d0.decode src).fields ∧
        (d0.decode src).result = .ok () := by
  unfold decodeFrame ghostNext wireNext
  simp only
  by_cases hp : r.partialBlk.isSome = true ∧ (Head.parse bytes).kind ≠ 9
  · simp only [if_pos hp]
    exact ⟨hi, fun blk hb => by cases hb⟩
  · simp only [if_neg hp]
    split
    · rename_i hk; simp only [hk]; exact w_simple_arm r g w _ hi (nb_settings _ _) _
    · rename_i hk; simp only [hk]; exact w_simple_arm r g w _ hi (nb_ping _ _) _
    · rename_i hk; simp only [hk]; exact w_simple_arm r g w _ hi (nb_wu _ _) _
    · rename_i hk; simp only [hk]; exact w_simple_arm r g w _ hi (nb_data _ _) _
    · rename_i hk; simp only [hk]; exact w_simple_arm r g w _ hi (nb_reset _ _) _
    · rename_i hk; simp only [hk]
      split
      · exact ⟨hi, fun blk hb => by cases hb⟩
      · exact w_simple_arm r g w _ hi (nb_goaway _) _
    · rename_i hk; simp only [hk]
      split
      · exact ⟨hi, fun blk hb => by cases hb⟩
      · split
        · rename_i f hf
          exact ⟨hi, fun blk hb => by simp only at hb; rw [nb_priority _ _ _ hf] at hb; cases hb⟩
        · exact ⟨hi, fun blk hb => by cases hb⟩
        · exact ⟨hi, fun blk hb => by cases hb⟩
    · -- HEADERS
      rename_i hk; simp only [hk]
      cases hl : loadHeadersHead (Head.parse bytes) (List.drop 9 bytes) with
      | error e =>
        simp only
        split <;> first | exact ⟨hi, fun blk hb => by cases hb⟩ | contradiction
      | ok x =>
        obtain ⟨sid, eos, eh, dep, frag⟩ := x
        simp only
        obtain ⟨l1, l2, l3⟩ := load_after_w r {} frag r.hpack (fun b => .headers sid eos dep b) 0 eh
          (Head.parse bytes).sid _ rfl
        refine ⟨⟨fun p hp' => ?_⟩, fun blk hb => ⟨r.hpack, frag, rfl, rfl, l3 blk hb⟩⟩
        obtain ⟨b1, b2⟩ := l2 p hp'
        exact ⟨r.hpack, frag, rfl, l1, b1, rfl, b2⟩
    · -- PUSH_PROMISE
      rename_i hk; simp only [hk]
      cases hl : loadPushPromiseHead (Head.parse bytes) (List.drop 9 bytes) with
      | error e =>
        simp only
        split <;> first | exact ⟨hi, fun blk hb => by cases hb⟩ | contradiction
      | ok x =>
        obtain ⟨sid, promised, eh, frag⟩ := x
        simp only
        obtain ⟨l1, l2, l3⟩ := load_after_w r {} frag r.hpack (fun b => .pushPromise sid promised b) 0 eh
          (Head.parse bytes).sid _ rfl
        refine ⟨⟨fun p hp' => ?_⟩, fun blk hb => ⟨r.hpack, frag, rfl, rfl, l3 blk hb⟩⟩
        obtain ⟨b1, b2⟩ := l2 p hp'
        exact ⟨r.hpack, frag, rfl, l1, b1, rfl, b2⟩
    · -- CONTINUATION
      rename_i hk; simp only [hk]
      cases hpb : r.partialBlk with
      | none => exact ⟨⟨fun p' hp' => by simp only at hp'; rw [hpb] at hp'; cases hp'⟩, fun blk hb => by cases hb⟩
      | some p =>
        simp only
        obtain ⟨d0, src0, hw, h1, h2, h3, h4⟩ := hi.part p hpb
        subst hw
        simp only
        have hdrop : ∀ (df : DF) (g' : List Header) (w' : WGhost), dfBlock df = none →
            WInv ({ r with partialBlk := none }, df).1 g' w' ∧
            ∀ blk, dfBlock ({ r with partialBlk := none }, df).2 = some blk →
              ∃ d0 src, w' = some (d0, src) ∧ g' = (d0.decode src).fields ∧ (d0.decode src).result = .ok () :=
          fun df g' w' hd => ⟨winv_drop _ g' w' rfl, fun blk hb => by simp only at hb; rw [hd] at hb; cases hb⟩
        by_cases c1 : p.frame.sid ≠ (Head.parse bytes).sid
        · simp only [if_pos c1]; exact hdrop _ _ _ rfl
        · simp only [if_neg c1]
          by_cases c2 : ¬(Head.parse bytes).flag &&& 4 = 4 ∧
              (if (Head.parse bytes).flag &&& 4 = 4 then 0 else p.count + 1) > r.maxContinuationFrames
          · simp only [if_pos c2]; exact hdrop _ _ _ rfl
          · simp only [if_neg c2]
            by_cases c3 : ¬List.isEmpty p.buf = true ∧
                p.frame.blk.isOverSize = true ∧ List.length p.buf + List.length bytes > r.maxHeaderListSize
            · simp only [if_pos c3]; exact hdrop _ _ _ rfl
            · simp only [if_neg c3]
              obtain ⟨l1, l2, l3⟩ := load_after_w { r with partialBlk := none } p.frame.blk (p.buf ++ List.drop 9 bytes)
                r.hpack.continueBlock (fun b => p.frame.setBlk b)
                (if (Head.parse bytes).flag &&& 4 = 4 then 0 else p.count + 1)
                (decide ((Head.parse bytes).flag &&& 4 = 4)) (Head.parse bytes).sid _ rfl
              -- `split_invariance`: decoding `src0 ++ payload` from `d0` = going on from the partial state
              have hsplit := split_invariance d0 src0 (List.drop 9 bytes)
              unfold feed at hsplit
              rw [if_pos h4] at hsplit
              simp only at hsplit
              rw [← h1, ← h2] at hsplit
              have e_f : (d0.decode (src0 ++ List.drop 9 bytes)).fields =
                  g ++ loadedFields r.hpack.continueBlock (p.buf ++ List.drop 9 bytes) := by rw [hsplit, h3]
              have e_d : (d0.decode (src0 ++ List.drop 9 bytes)).dec =
                  (r.hpack.continueBlock.decode (p.buf ++ List.drop 9 bytes)).dec := by rw [hsplit]
              have e_t : (d0.decode (src0 ++ List.drop 9 bytes)).tail =
                  (r.hpack.continueBlock.decode (p.buf ++ List.drop 9 bytes)).tail := by rw [hsplit]
              have e_r : (d0.decode (src0 ++ List.drop 9 bytes)).result =
                  (r.hpack.continueBlock.decode (p.buf ++ List.drop 9 bytes)).result := by rw [hsplit]
              refine ⟨⟨fun p' hp' => ?_⟩, fun blk hb => ⟨d0, _, rfl, e_f.symm, by rw [e_r]; exact l3 blk hb⟩⟩
              obtain ⟨b1, b2⟩ := l2 p' hp'
              exact ⟨d0, _, rfl, by rw [e_d]; exact l1, by rw [e_t]; exact b1, e_f.symm, by rw [e_r]; exact b2⟩
    · rename_i hk1 hk2 hk3 hk4 hk5 hk6 hk7 hk8 hk9 hk10
      repeat' split
      all_goals first
        | exact ⟨hi, fun blk hb => by cases hb⟩
        | (exfalso; first | exact hk8 ‹_› | exact hk9 ‹_› | exact hk10 ‹_›)


theorem winv_new (mfs : Nat) : WInv (Reader.new mfs) [] none := winv_drop _ _ _ rfl

theorem winv_queueSizeUpdate (r : Reader) (g : List Header) (w : WGhost) (v : Nat) (hn : r.partialBlk = none) :
    WInv { r with hpack := r.hpack.queueSizeUpdate v } g w := winv_drop _ _ _ hn

/-- a sequence of complete frames through `decode_frame`, with both ghosts -/
def runFrames : Reader × List Header × WGhost → List Bytes → Reader × List Header × WGhost
  | x, [] => x
  | (r, g, w), b :: rest => runFrames ((decodeFrame r b).1, ghostNext g r b, wireNext w r b) rest

theorem runFrames_inv : ∀ (frames : List Bytes) (r : Reader) (g : List Header) (w : WGhost), RInv r g → WInv r g w →
    RInv (runFrames (r, g, w) frames).1 (runFrames (r, g, w) frames).2.1 ∧
    WInv (runFrames (r, g, w) frames).1 (runFrames (r, g, w) frames).2.1 (runFrames (r, g, w) frames).2.2
  | [], _, _, _, h1, h2 => ⟨h1, h2⟩
  | b :: rest, r, g, w, h1, h2 =>
    runFrames_inv rest _ _ _ (decodeFrame_inv r g b h1).1 (decodeFrame_winv r g w b h2).1

/-- **wire to block, any fragmentation**: after ANY sequence of frames from a fresh reader, a HEADERS /
    PUSH_PROMISE block that the next frame completes (a) is unflagged, (b) stands for the field list
    `(d0.decode src).fields` where `src` is the concatenation of the block's fragments and `d0` the HPACK
    decoder state when the block began, and that decoding succeeded, (c) — unless over-size — violates
    none of the common rules and holds exactly those fields -/
theorem delivered_block_is_decoding_of_concatenation (mfs : Nat) (frames : List Bytes) (bytes : Bytes) (blk : HeaderBlock)
    (hd : dfBlock (decodeFrame (runFrames (Reader.new mfs, [], none) frames).1 bytes).2 = some blk) :
    ∃ d0 src, (d0.decode src).result = .ok () ∧ blk.isMalformed = false ∧ BlockInv blk (d0.decode src).fields ∧
      (∀ x ∈ (d0.decode src).fields, fieldOk x = true) ∧
      wireNext (runFrames (Reader.new mfs, [], none) frames).2.2 (runFrames (Reader.new mfs, [], none) frames).1 bytes
        = some (d0, src) := by
  obtain ⟨h1, h2⟩ := runFrames_inv frames _ _ _ (rinv_new mfs) (winv_new mfs)
  obtain ⟨d0, src, e1, e2, e3⟩ := (decodeFrame_winv _ _ _ bytes h2).2 blk hd
  obtain ⟨a, b, c⟩ := (decodeFrame_inv _ _ bytes h1).2 blk hd
  rw [e2] at b c
  exact ⟨d0, src, e3, a, b, c, e1⟩

end H2V.Lemmas.ConnHttpP
