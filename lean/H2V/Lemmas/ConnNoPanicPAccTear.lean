import H2V.Lemmas.ConnNoPanicPAccPath
/-
  C08 (no panic) — the server accept path, part 8: `J` along the loops — `Store::for_each` with the
  closures of `handle_error` / `recv_go_away` / `recv_eof`, the queue-draining loops of `clear_queues`,
  `clear_expired_reset_streams`, the store walks of SETTINGS.
-/
namespace H2V.Lemmas.ConnNoPanicP
open H2V H2V.Model H2V.Model.Conn H2V.Lemmas.ConnCountsP
attribute [local irreducible] wrapSubU32 wrapSubUsize

-- ===================================================================== `Store::try_for_each`

theorem tryForEach_al (f : Streams → Nat → Streams × Option PErr) (hf : ∀ s k, AL [] s (f s k).1) :
    ∀ (fuel i len : Nat) (s : Streams), AL [] s (Streams.tryForEach f fuel i len s).1 := by
  intro fuel
  induction fuel with
  | zero => intro i len s; exact .refl _ _
  | succ n ih =>
    intro i len s
    unfold Streams.tryForEach
    split
    · split
      · exact panic_al _ _
      · next id _ =>
        have := hf s id
        split
        · next s' e heq => rw [heq] at this; exact this
        · next s' heq =>
          rw [heq] at this
          dsimp only
          split
          · exact .trans this (ih _ _ _) (fun _ h => h)
          · exact .trans this (ih _ _ _) (fun _ h => h)
    · exact .refl _ _

theorem storeTryForEach_al (s : Streams) (f : Streams → Nat → Streams × Option PErr) (hf : ∀ s k, AL [] s (f s k).1) :
    AL [] s (s.storeTryForEach f).1 := tryForEach_al f hf _ _ _ s

theorem storeForEach_al (s : Streams) (f : Streams → Nat → Streams) (hf : ∀ s k, AL [] s (f s k)) : AL [] s (s.storeForEach f) :=
  storeTryForEach_al s _ (fun s k => hf s k)

theorem tryForEachAcc_al (f : Nat → Streams → Nat → Streams × Nat × Option PErr) (hf : ∀ a s k, AL [] s (f a s k).1) :
    ∀ (fuel i len acc : Nat) (s : Streams), AL [] s (Streams.tryForEachAcc f fuel i len acc s).1 := by
  intro fuel
  induction fuel with
  | zero => intro i len acc s; exact .refl _ _
  | succ n ih =>
    intro i len acc s
    unfold Streams.tryForEachAcc
    split
    · split
      · exact panic_al _ _
      · next id _ =>
        have := hf acc s id
        split
        · next s' a' e heq => rw [heq] at this; exact this
        · next s' a' heq =>
          rw [heq] at this
          dsimp only
          split
          · exact .trans this (ih _ _ _ _) (fun _ h => h)
          · exact .trans this (ih _ _ _ _) (fun _ h => h)
    · exact .refl _ _

theorem tryForEach_j (f : Streams → Nat → Streams × Option PErr) (hf : ∀ s k, J s → J (f s k).1) :
    ∀ (fuel i len : Nat) (s : Streams), J s → J (Streams.tryForEach f fuel i len s).1 := by
  intro fuel
  induction fuel with
  | zero => intro i len s h; exact h
  | succ n ih =>
    intro i len s h
    unfold Streams.tryForEach
    split
    · split
      · exact h.al0 (panic_al _ _)
      · next id _ =>
        have := hf s id h
        split
        · next s' e heq => rw [heq] at this; exact this
        · next s' heq =>
          rw [heq] at this
          dsimp only
          split
          · exact ih _ _ _ this
          · exact ih _ _ _ this
    · exact h

theorem storeForEach_j {s : Streams} (hj : J s) (f : Streams → Nat → Streams) (hf : ∀ s k, J s → J (f s k)) : J (s.storeForEach f) :=
  tryForEach_j _ (fun s k h => hf s k h) _ _ _ s hj

-- ===================================================================== SETTINGS

theorem cok_applyRemoteSettings (c : Counts) (o : Option Nat) (b : Bool) : COK c (c.applyRemoteSettings o b) := by
  unfold Counts.applyRemoteSettings
  split
  · exact ⟨Nat.le_refl _, rfl⟩
  · split <;> exact ⟨Nat.le_refl _, rfl⟩

theorem sendApplyRemoteSettings_al (s : Streams) (a b c : Option Nat) : AL [] s (s.sendApplyRemoteSettings a b c).1 := by
  unfold Streams.sendApplyRemoteSettings; al_auto

theorem applyRemoteSettings_al (s : Streams) (vals : List (Nat × Nat)) (b : Bool) : AL [] s (s.applyRemoteSettings vals b).1 := by
  unfold Streams.applyRemoteSettings
  exact (modCounts_al (ks := []) s _ (cok_applyRemoteSettings _ _ _)).trans (sendApplyRemoteSettings_al _ _ _ _) (fun _ h => h)

theorem applyLocalSettings_al (s : Streams) (a b : Option Nat) : AL [] s (s.applyLocalSettings a b).1 := by
  unfold Streams.applyLocalSettings; al_auto

theorem applyLocalSettingsFrame_al (s : Streams) (vals : List (Nat × Nat)) : AL [] s (s.applyLocalSettingsFrame vals).1 := by
  unfold Streams.applyLocalSettingsFrame; exact applyLocalSettings_al _ _ _

-- ===================================================================== the queue-draining loops

theorem clearPendingCapacity_j (n : Nat) {s : Streams} (hj : J s) : J (Streams.clearPendingCapacity n s) := by
  induction n generalizing s with
  | zero => exact hj
  | succ n ih =>
    unfold Streams.clearPendingCapacity
    have h0 := hj.al0 (qPop_al (ks := []) s .pendingCapacity (by decide))
    split
    · next s' heq => rw [heq] at h0; exact h0
    · next s' id heq => rw [heq] at h0; exact ih (h0.transitionAfter _ _)

theorem clearPendingOpen_j (n : Nat) {s : Streams} (hj : J s) : J (Streams.clearPendingOpen n s) := by
  induction n generalizing s with
  | zero => exact hj
  | succ n ih =>
    unfold Streams.clearPendingOpen
    have h0 := hj.al0 (qPop_al (ks := []) s .pendingOpen (by decide))
    split
    · next s' heq => rw [heq] at h0; exact h0
    · next s' id heq => rw [heq] at h0; exact ih (h0.transitionAfter _ _)

theorem clearStreamWindowUpdateQueue_j (n : Nat) {s : Streams} (hj : J s) : J (Streams.clearStreamWindowUpdateQueue n s) := by
  induction n generalizing s with
  | zero => exact hj
  | succ n ih =>
    unfold Streams.clearStreamWindowUpdateQueue
    have h0 := hj.al0 (qPop_al (ks := []) s .pendingWindowUpdates (by decide))
    split
    · next s' heq => rw [heq] at h0; exact h0
    · next s' id heq => rw [heq] at h0; exact ih (h0.transitionAfter _ _)

theorem clearAllResetStreams_j (n : Nat) {s : Streams} (hj : J s) : J (Streams.clearAllResetStreams n s) := by
  induction n generalizing s with
  | zero => exact hj
  | succ n ih =>
    unfold Streams.clearAllResetStreams
    have h0 := hj.al0 (qPop_al (ks := []) s .pendingResetExpired (by decide))
    split
    · next s' heq => rw [heq] at h0; exact h0
    · next s' id heq => rw [heq] at h0; exact ih (h0.transitionAfter _ _)

theorem clearExpiredResetStreams_j (n : Nat) {s : Streams} (hj : J s) : J (Streams.clearExpiredResetStreams n s) := by
  induction n generalizing s with
  | zero => exact hj
  | succ n ih =>
    unfold Streams.clearExpiredResetStreams
    split
    · exact hj
    · have h0 := hj.al0 (qPop_al (ks := []) s .pendingResetExpired (by decide))
      split
      · next s' heq => rw [heq] at h0; exact h0
      · next s' id heq => rw [heq] at h0; exact ih (h0.transitionAfter _ _)

theorem clearPendingSend_j (n : Nat) {s : Streams} (hj : J s) : J (Streams.clearPendingSend n s) := by
  induction n generalizing s with
  | zero => exact hj
  | succ n ih =>
    unfold Streams.clearPendingSend
    have h0 := hj.al0 (qPop_al (ks := []) s .pendingSend (by decide))
    split
    · next s' heq => rw [heq] at h0; exact h0
    · next s' id heq =>
      rw [heq] at h0
      dsimp only
      refine ih (J.transitionAfter ?_ _ _)
      split
      · exact h0.al0 (by al_auto)
      · exact h0

theorem clearAllPendingAccept_j (n : Nat) {s : Streams} (hj : J s) : J (Streams.clearAllPendingAccept n s) := by
  induction n generalizing s with
  | zero => exact hj
  | succ n ih =>
    unfold Streams.clearAllPendingAccept
    cases hq : s.qPop .pendingAccept with
    | mk s' o =>
      cases o with
      | none =>
        dsimp only
        unfold Streams.qPop at hq
        split at hq
        · cases hq; exact hj
        · cases hq
      | some id => exact ih ((hj.qPopAcc hq).1.transitionAfter _ _)

theorem recvClearQueues_j {s : Streams} (hj : J s) (b : Bool) : J (s.recvClearQueues b) := by
  unfold Streams.recvClearQueues
  dsimp only
  have h2 := clearAllResetStreams_j ((Streams.clearStreamWindowUpdateQueue (s.recv.pendingWindowUpdates.length + 1) s).recv.pendingResetExpired.length + 1)
    (clearStreamWindowUpdateQueue_j (s.recv.pendingWindowUpdates.length + 1) hj)
  split
  · exact clearAllPendingAccept_j _ h2
  · exact h2

theorem sendClearQueues_j {s : Streams} (hj : J s) : J s.sendClearQueues := by
  unfold Streams.sendClearQueues
  exact clearPendingOpen_j _ (clearPendingSend_j _ (clearPendingCapacity_j _ hj))

theorem clearQueues_j {s : Streams} (hj : J s) (b : Bool) : J (s.clearQueues b) := by
  unfold Streams.clearQueues
  exact sendClearQueues_j (recvClearQueues_j hj b)

-- ===================================================================== `handle_error`, `recv_go_away`, `recv_eof`

theorem setConnError_al (s : Streams) (o : Option PErr) : AL [] s { s with actions := { s.actions with connError := o } } :=
  .of_eqs rfl rfl (Nat.le_refl _) rfl

theorem errClosure_j {s : Streams} (hj : J s) (k : Nat) (e : PErr) (he : NotRR e) :
    J (s.transition k fun s => ((s.recvHandleError k e).sendHandleError k, ())).1 :=
  J.transition k _ (hj.al0 ((recvHandleError_al s k e he).trans (sendHandleError_al _ k) (fun _ h => h)))

theorem eofClosure_j {s : Streams} (hj : J s) (k : Nat) :
    J (s.transition k fun s => ((s.recvRecvEof k).sendHandleError k, ())).1 :=
  J.transition k _ (hj.al0 ((recvRecvEof_al s k).trans (sendHandleError_al _ k) (fun _ h => h)))

/-- `Inner::handle_error`; the error is never a `Reset(_, _, Remote)` (connection.rs hands over GOAWAY and I/O errors only) -/
theorem handleError_j {s : Streams} (hj : J s) (e : PErr) (he : NotRR e) : J (s.handleError e).1 := by
  unfold Streams.handleError
  exact (storeForEach_j hj _ (fun s k h => errClosure_j h k e he)).al0 (setConnError_al _ _)

theorem recvGoAwayFrame_j {s : Streams} (hj : J s) (last : Nat) (r : Reason) (d : Bytes) : J (s.recvGoAwayFrame last r d).1 := by
  unfold Streams.recvGoAwayFrame
  have h0 := hj.al0 (sendRecvGoAway_al s last)
  split
  · next s1 e heq => rw [heq] at h0; exact h0
  · next s1 _ heq =>
    rw [heq] at h0
    refine (storeForEach_j h0 _ (fun s k h => ?_)).al0 (setConnError_al _ _)
    dsimp only
    split
    · exact errClosure_j h k _ (notRR_goAway _ _ _)
    · exact h

theorem recvEof_j {s : Streams} (hj : J s) (b : Bool) : J (s.recvEof b) := by
  unfold Streams.recvEof
  dsimp only
  generalize hs1 : (if s.actions.connError.isNone = true then _ else s) = s1
  have h1 : J s1 := by
    rw [← hs1]; split
    · exact hj.al0 (setConnError_al _ _)
    · exact hj
  exact clearQueues_j (storeForEach_j h1 _ (fun s k h => eofClosure_j h k)) b

end H2V.Lemmas.ConnNoPanicP
