import H2V.Lemmas.ConnNoPanicPPushBase
/-
  C08 (no panic) — PUSH_PROMISE bookkeeping, part 2: `f_pp` for the light functions (generated from the `f_lt` list).
-/
namespace H2V.Lemmas.ConnNoPanicP
open H2V H2V.Model H2V.Model.Conn H2V.Lemmas.ConnCountsP
attribute [local irreducible] wrapSubU32 wrapSubUsize

theorem queueOpen_pp (s : Streams) (k : Nat) : PP s (s.queueOpen k) := by
  unfold Streams.queueOpen; pp_auto
theorem assignConnectionCapacityLoop_pp (n : Nat) (s : Streams) : PP s (Streams.assignConnectionCapacityLoop n s) := by
  induction n generalizing s with
  | zero => unfold Streams.assignConnectionCapacityLoop; exact .refl _
  | succ n ih =>
    unfold Streams.assignConnectionCapacityLoop
    repeat (first | pp_step | with_reducible refine PP.trans ?_ (ih ..) | pp_side | intro _ | split | dsimp only)
theorem assignConnectionCapacity_pp (s : Streams) (inc : Nat) : PP s (s.assignConnectionCapacity inc) := by
  unfold Streams.assignConnectionCapacity; pp_auto
theorem reserveCapacity_pp (s : Streams) (k cap : Nat) : PP s (s.reserveCapacity k cap) := by
  unfold Streams.reserveCapacity; pp_auto
theorem recvConnectionWindowUpdate_pp (s : Streams) (inc : Nat) : PP s (s.recvConnectionWindowUpdate inc).1 := by
  unfold Streams.recvConnectionWindowUpdate; pp_auto
theorem reclaimAllCapacity_pp (s : Streams) (k : Nat) : PP s (s.reclaimAllCapacity k) := by
  unfold Streams.reclaimAllCapacity; pp_auto
theorem clearQueue_pp (s : Streams) (k : Nat) : PP s (s.clearQueue k) := by
  unfold Streams.clearQueue; pp_auto
theorem sendOpenId_pp (s : Streams) : PP s s.sendOpenId.1 := by
  unfold Streams.sendOpenId; pp_auto
theorem sendHeaders_pp (s : Streams) (k : Nat) (eos : Bool) (f : List Hpack.Field) : PP s (s.sendHeaders k eos f).1 := by
  unfold Streams.sendHeaders; pp_auto
theorem sendReserveLocal_pp (s : Streams) : PP s s.sendReserveLocal.1 := by
  unfold Streams.sendReserveLocal; pp_auto
theorem sendPushPromise_pp (s : Streams) (p pk pid : Nat) (f : List Hpack.Field) : PP s (s.sendPushPromise p pk pid f).1 := by
  unfold Streams.sendPushPromise; pp_auto
theorem sendInterimInformationalHeaders_pp (s : Streams) (k : Nat) (f : List Hpack.Field) : PP s (s.sendInterimInformationalHeaders k f).1 := by
  unfold Streams.sendInterimInformationalHeaders; pp_auto
theorem sendSendReset_pp (s : Streams) (k : Nat) (r : Reason) (i : Initiator) : PP s (s.sendSendReset k r i) := by
  unfold Streams.sendSendReset; pp_auto
theorem pollCapacity_pp (s : Streams) (k : Nat) (tag : String) : PP s (s.pollCapacity k tag).1 := by
  unfold Streams.pollCapacity; pp_auto
theorem pollReset_pp (s : Streams) (k : Nat) (m : PollReset) (tag : String) : PP s (s.pollReset k m tag).1 := by
  unfold Streams.pollReset; pp_auto
theorem sendRecvGoAway_pp (s : Streams) (l : Nat) : PP s (s.sendRecvGoAway l).1 := by
  unfold Streams.sendRecvGoAway; pp_auto
theorem sendHandleError_pp (s : Streams) (k : Nat) : PP s (s.sendHandleError k) := by
  unfold Streams.sendHandleError; pp_auto
theorem sendMaybeResetNextStreamId_pp (s : Streams) (id : Nat) : PP s (s.sendMaybeResetNextStreamId id) := by
  unfold Streams.sendMaybeResetNextStreamId; pp_auto
theorem sendTrailers_pp (s : Streams) (k : Nat) (f : List Hpack.Field) : PP s (s.sendTrailers k f).1 := by
  unfold Streams.sendTrailers; pp_auto
theorem prioSendData_pp (s : Streams) (k len : Nat) (eos : Bool) : PP s (s.prioSendData k len eos).1 := by
  unfold Streams.prioSendData; pp_auto
theorem reclaimReservedCapacity_pp (s : Streams) (k : Nat) : PP s (s.reclaimReservedCapacity k) := by
  unfold Streams.reclaimReservedCapacity; pp_auto
theorem scheduleImplicitReset_pp (s : Streams) (k : Nat) (r : Reason) : PP s (s.scheduleImplicitReset k r) := by
  unfold Streams.scheduleImplicitReset; pp_auto
theorem prioRecvStreamWindowUpdate_pp (s : Streams) (k inc : Nat) : PP s (s.prioRecvStreamWindowUpdate k inc).1 := by
  unfold Streams.prioRecvStreamWindowUpdate; pp_auto
theorem sendRecvStreamWindowUpdate_pp (s : Streams) (k sz : Nat) : PP s (s.sendRecvStreamWindowUpdate k sz).1 := by
  unfold Streams.sendRecvStreamWindowUpdate; pp_auto
theorem decStreamWindow_pp (dec acc : Nat) (s : Streams) (k : Nat) : PP s (Streams.decStreamWindow dec acc s k).1 := by
  unfold Streams.decStreamWindow; pp_auto
theorem releaseConnectionCapacity_pp (s : Streams) (c : Nat) (b : Bool) : PP s (s.releaseConnectionCapacity c b) := by
  unfold Streams.releaseConnectionCapacity; pp_auto
theorem releaseCapacity_pp (s : Streams) (k c : Nat) (b : Bool) : PP s (s.releaseCapacity k c b).1 := by
  unfold Streams.releaseCapacity; pp_auto
theorem clearRecvBuffer_pp (s : Streams) (k : Nat) (b : Bool) : PP s (s.clearRecvBuffer k b) := by
  unfold Streams.clearRecvBuffer
  dsimp only
  have h0 : PP s { s with counts := (Streams.clearRecvBufferLoop (s.stream k).inFlightRecvData (s.stream k).pendingRecv 0 s.counts).2 } :=
    .of_store rfl
  split
  · pp_auto
  · pp_auto
theorem releaseClosedCapacity_pp (s : Streams) (k : Nat) : PP s (s.releaseClosedCapacity k) := by
  unfold Streams.releaseClosedCapacity; pp_auto
theorem consumeConnectionWindow_pp (s : Streams) (sz : Nat) : PP s (s.consumeConnectionWindow sz).1 := by
  unfold Streams.consumeConnectionWindow; pp_auto
theorem ignoreData_pp (s : Streams) (sz : Nat) : PP s (s.ignoreData sz).1 := by
  unfold Streams.ignoreData; pp_auto
theorem recvOpen_pp (s : Streams) (id : Nat) (b : Bool) : PP s (s.recvOpen id b).1 := by
  unfold Streams.recvOpen; pp_auto
theorem incNumRecvStreams_pp (s : Streams) (k : Nat) : PP s (s.incNumRecvStreams k) := by
  unfold Streams.incNumRecvStreams; pp_auto
theorem incNumSendStreams_pp (s : Streams) (k : Nat) : PP s (s.incNumSendStreams k) := by
  unfold Streams.incNumSendStreams; pp_auto
theorem notifyPushIfRecvEnded_pp (s : Streams) (k : Nat) : PP s (s.notifyPushIfRecvEnded k) := by
  unfold Streams.notifyPushIfRecvEnded; pp_auto
theorem recvRecvTrailers_pp (s : Streams) (k : Nat) (h : HeadersIn) : PP s (s.recvRecvTrailers k h).1 := by
  unfold Streams.recvRecvTrailers; pp_auto
theorem recvRecvPushPromise_pp (s : Streams) (k : Nat) (h : HeadersIn) : PP s (s.recvRecvPushPromise k h).1 := by
  unfold Streams.recvRecvPushPromise; pp_auto
theorem recvHandleError_pp (s : Streams) (k : Nat) (e : PErr) : PP s (s.recvHandleError k e) := by
  unfold Streams.recvHandleError; pp_auto
theorem recvGoAway_pp (s : Streams) (l : Nat) : PP s (s.recvGoAway l) := by
  unfold Streams.recvGoAway; pp_auto
theorem recvRecvEof_pp (s : Streams) (k : Nat) : PP s (s.recvRecvEof k) := by
  unfold Streams.recvRecvEof; pp_auto
theorem recvMaybeResetNextStreamId_pp (s : Streams) (id : Nat) : PP s (s.recvMaybeResetNextStreamId id) := by
  unfold Streams.recvMaybeResetNextStreamId; pp_auto
theorem sendPendingRefusal_pp (s : Streams) (w : Writer) : PP s (s.sendPendingRefusal w).1 := by
  unfold Streams.sendPendingRefusal; pp_auto
theorem scheduleRecv_pp (s : Streams) (k : Nat) (t : String) : PP s (s.scheduleRecv k t).1 := by
  unfold Streams.scheduleRecv; pp_auto
theorem recvPollData_pp (s : Streams) (k : Nat) (t : String) : PP s (s.recvPollData k t).1 := by
  unfold Streams.recvPollData; pp_auto
theorem recvPollTrailers_pp (s : Streams) (k : Nat) (t : String) : PP s (s.recvPollTrailers k t).1 := by
  unfold Streams.recvPollTrailers; pp_auto
theorem recvPollInformational_pp (s : Streams) (k : Nat) (t : String) : PP s (s.recvPollInformational k t).1 := by
  unfold Streams.recvPollInformational; pp_auto
theorem enqueueResetExpiration_pp (s : Streams) (k : Nat) : PP s (s.enqueueResetExpiration k) := by
  unfold Streams.enqueueResetExpiration; pp_auto
theorem recvRecvReset_pp (s : Streams) (k : Nat) (r : Reason) : PP s (s.recvRecvReset k r).1 := by
  unfold Streams.recvRecvReset; pp_auto
theorem recvRecvHeaders_pp (s : Streams) (k : Nat) (h : HeadersIn) : PP s (s.recvRecvHeaders k h).1 := by
  unfold Streams.recvRecvHeaders
  split
  · exact .refl _
  · next st' isInitial heq =>
    dsimp only
    generalize hs1 : Streams.modStream s k _ = s1
    have h1 : PP s s1 := by rw [← hs1]; exact modStream_pp _ _ _ (fun _ => rfl) (fun _ => rfl)
    split
    · exact h1
    · generalize hs2 : (if (isInitial && !(s1.stream k).isCounted) = true then _ else s1) = s2
      have h2 : PP s s2 := by
        rw [← hs2]
        split
        · refine h1.trans (PP.trans ?_ (incNumRecvStreams_pp _ _))
          split
          · exact modRecv_pp _ _
          · exact .refl _
        · exact h1
      pp_auto
theorem decContentLength_ppp {x y : Stream} {n : Nat} (h : x.decContentLength n = some y) :
    y.pendingPushPromises = x.pendingPushPromises ∧ y.key = x.key := by
  unfold Stream.decContentLength at h
  split at h
  · split at h
    · cases h; exact ⟨rfl, rfl⟩
    · cases h
  · split at h
    · cases h
    · cases h; exact ⟨rfl, rfl⟩
  · cases h; exact ⟨rfl, rfl⟩

theorem recvRecvData_pp (s : Streams) (k : Nat) (payload : Bytes) (eos : Bool) (pad : Option Nat) : PP s (s.recvRecvData k payload eos pad).1 := by
  unfold Streams.recvRecvData
  cases pad <;> dsimp only
  all_goals (
    generalize hs0 : (if _ > Generated.Consts.MAX_WINDOW_SIZE then s.panic _ else s) = s0
    have h0 : PP s s0 := by rw [← hs0]; split; exact panic_pp _ _; exact .refl _
    split
    · exact h0
    split
    · pp_auto
    split
    · pp_auto
    · next s1 _ heq1 =>
      have h1 : PP s s1 := h0.trans (PP.of_fst_eq heq1 (consumeConnectionWindow_pp _ _))
      split
      · exact h1
      · split
        · exact h1
        · next st1 hdc =>
          have hsp := decContentLength_ppp hdc
          generalize hs2 : s1.setStream st1 = s2
          have h2 : PP s s2 := by
            rw [← hs2]; exact h1.trans (setStream_pp s1 k st1 (hsp.2.trans (stream_key _ _)) hsp.1)
          generalize hs3 : (if eos = true then _ else (s2, (none : Option PErr))) = p3
          have h3 : PP s p3.1 := by
            rw [← hs3]
            split
            · split
              · exact h2
              · split
                · exact h2
                · exact h2.trans (modStream_pp _ _ _ (fun _ => rfl) (fun _ => rfl))
            · exact h2
          split
          · exact h3
          · next s4 =>
            have h4 : PP s s4 := h3
            pp_auto)

theorem maybeCancel_pp (s : Streams) (k : Nat) : PP s (s.maybeCancel k) := by
  unfold Streams.maybeCancel; pp_auto
theorem refReserveCapacity_pp (s : Streams) (k c : Nat) : PP s (s.refReserveCapacity k c) := by
  unfold Streams.refReserveCapacity; pp_auto
theorem refReleaseCapacity_pp (s : Streams) (k c : Nat) : PP s (s.refReleaseCapacity k c).1 := by
  unfold Streams.refReleaseCapacity; pp_auto
theorem refClearRecvBuffer_pp (s : Streams) (k : Nat) : PP s (s.refClearRecvBuffer k) := by
  unfold Streams.refClearRecvBuffer; pp_auto
theorem pollPendingOpen_pp (s : Streams) (p : Option Nat) (t : String) : PP s (s.pollPendingOpen p t).1 := by
  unfold Streams.pollPendingOpen; pp_auto
theorem cloneHandle_pp (s : Streams) : PP s s.cloneHandle := by
  unfold Streams.cloneHandle; pp_auto
theorem dropHandle_pp (s : Streams) : PP s s.dropHandle := by
  unfold Streams.dropHandle; pp_auto
theorem refPollData_pp (s : Streams) (k : Nat) (t : String) : PP s (s.refPollData k t).1 := by
  unfold Streams.refPollData
  split
  · next s1 payload budgeted heq =>
    have h1 : PP s s1 := PP.of_fst_eq heq (recvPollData_pp s k t)
    dsimp only
    split
    · exact h1.trans (modCounts_pp _ _)
    · exact h1
  · exact recvPollData_pp s k t

end H2V.Lemmas.ConnNoPanicP
