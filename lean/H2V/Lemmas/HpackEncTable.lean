import H2V.Model.HpackEnc
import H2V.Spec.Hpack
/-
  C10, part 2 — the encoder's dynamic table (`Table::converge`, `Table::resize`, `insert`) against
  RFC 7541 §4 (`Spec.Hpack.evict`, `Spec.Hpack.insert`).  h2 evicts from the back while the size is
  over the limit; the reference keeps the longest newest-first prefix that fits.
-/
namespace H2V.Lemmas.HpackEnc
open H2V H2V.Model.Hpack H2V.Spec.Hpack

theorem fieldSize_eq (h : Header) : fieldSize h = h.size := by
  simp [fieldSize, Header.size]; omega

theorem fieldSize_pos (h : Header) : 32 ≤ fieldSize h := by
  simp [fieldSize]

@[simp] theorem tableSize_nil : tableSize ([] : List Header) = 0 := rfl
@[simp] theorem tableSize_cons (h : Header) (l : List Header) :
    tableSize (h :: l) = fieldSize h + tableSize l := rfl

theorem tableSize_concat (l : List Header) (x : Header) :
    tableSize (l ++ [x]) = tableSize l + fieldSize x := by
  induction l with
  | nil => simp
  | cons h t ih => simp only [List.cons_append, tableSize_cons, ih]; omega

theorem length_le_tableSize (l : List Header) : 32 * l.length ≤ tableSize l := by
  induction l with
  | nil => simp
  | cons h t ih => have := fieldSize_pos h; simp only [List.length_cons, tableSize_cons]; omega

theorem evict_of_le (l : List Header) (m : Nat) (h : tableSize l ≤ m) : evict l m = l := by
  induction l generalizing m with
  | nil => rfl
  | cons f t ih =>
    simp only [tableSize_cons] at h
    simp only [evict]
    rw [if_pos (by omega), ih _ (by omega)]

theorem evict_zero (l : List Header) : evict l 0 = [] := by
  cases l with
  | nil => rfl
  | cons f t => have := fieldSize_pos f; simp only [evict]; rw [if_neg (by omega)]

/-- dropping the oldest entry when the whole list does not fit: what h2's back-eviction does -/
theorem evict_concat (l : List Header) (x : Header) (m : Nat) :
    evict (l ++ [x]) m = if tableSize (l ++ [x]) ≤ m then l ++ [x] else evict l m := by
  induction l generalizing m with
  | nil =>
    simp only [List.nil_append, evict, tableSize_cons, tableSize_nil, Nat.add_zero]
    by_cases h : fieldSize x ≤ m <;> simp [h]
  | cons f t ih =>
    simp only [List.cons_append, evict, tableSize_cons, ih]
    by_cases h1 : fieldSize f ≤ m
    · simp only [if_pos h1]
      by_cases h2 : tableSize (t ++ [x]) ≤ m - fieldSize f
      · rw [if_pos h2, if_pos (by omega)]
      · rw [if_neg h2, if_neg (by omega)]
    · simp only [if_neg h1]
      rw [if_neg (by omega)]

theorem tableSize_evict_le (l : List Header) (m : Nat) : tableSize (evict l m) ≤ m := by
  induction l generalizing m with
  | nil => simp [evict]
  | cons f t ih =>
    simp only [evict]
    split
    · have := ih (m - fieldSize f)
      simp only [tableSize_cons]; omega
    · simp

/-! ### `Table::converge` -/

/-- `converge` with `k` octets of the size not (yet) backed by an entry: `k = 0` for `resize`,
    `k = header size` inside `insert` (h2 adds the new header's size *before* evicting) -/
theorem converge_spec (k : Nat) : ∀ (fuel : Nat) (e : Encoder),
    e.size = tableSize e.entries + k → e.entries.length ≤ fuel →
    (Encoder.converge fuel e).entries =
        (if k ≤ e.maxSize then evict e.entries (e.maxSize - k) else []) ∧
    (Encoder.converge fuel e).size = tableSize (Encoder.converge fuel e).entries + k ∧
    (Encoder.converge fuel e).maxSize = e.maxSize ∧
    (Encoder.converge fuel e).maxAllowed = e.maxAllowed ∧
    (Encoder.converge fuel e).sizeUpdate = e.sizeUpdate := by
  intro fuel
  induction fuel with
  | zero =>
    intro e hs hl
    have he : e.entries = [] := List.eq_nil_of_length_eq_zero (by omega)
    simp [Encoder.converge, hs, he, evict]
  | succ fuel ih =>
    intro e hs hl
    simp only [Encoder.converge]
    split
    · rename_i hgt
      split
      · rename_i last hlast
        obtain ⟨ini, hini⟩ := List.getLast?_eq_some_iff.1 hlast
        have hfs := fieldSize_eq last
        have hs' : ({ e with entries := e.entries.dropLast, size := e.size - last.size } : Encoder).size
            = tableSize ({ e with entries := e.entries.dropLast, size := e.size - last.size } : Encoder).entries + k := by
          simp only [hini, List.dropLast_concat, tableSize_concat] at hs ⊢
          omega
        obtain ⟨i1, i2, i3, i4, i5⟩ := ih _ hs' (by simp [hini] at hl ⊢; omega)
        refine ⟨?_, i2, i3, i4, i5⟩
        rw [i1]
        simp only [hini, List.dropLast_concat]
        split
        · rename_i hle
          rw [evict_concat, if_neg]
          rw [hini] at hs
          omega
        · rfl
      · rename_i hnone
        have he : e.entries = [] := List.getLast?_eq_none_iff.1 hnone
        refine ⟨?_, hs, rfl, rfl, rfl⟩
        simp [he, evict]
    · rename_i hle
      refine ⟨?_, hs, rfl, rfl, rfl⟩
      rw [if_pos (by omega), evict_of_le]
      omega

/-- **`converge_eq_evict`**: while `size` is the sum of the entry sizes, `Table::converge` leaves
    exactly what RFC 7541 §4.3 keeps -/
theorem converge_eq_evict (e : Encoder) (hs : e.size = tableSize e.entries) :
    (Encoder.converge (e.entries.length + 1) e).entries = evict e.entries e.maxSize := by
  have := (converge_spec 0 (e.entries.length + 1) e (by omega) (by omega)).1
  simpa using this

/-! ### `Table::resize` -/

theorem resize_spec (e : Encoder) (n : Nat) (hs : e.size = tableSize e.entries) :
    (e.resize n).entries = evict e.entries n ∧
    (e.resize n).size = tableSize (e.resize n).entries ∧
    (e.resize n).size ≤ n ∧
    (e.resize n).maxSize = n ∧
    (e.resize n).maxAllowed = e.maxAllowed ∧
    (e.resize n).sizeUpdate = e.sizeUpdate := by
  unfold Encoder.resize
  by_cases hn : n = 0
  · subst hn
    simp [evict_zero]
  · rw [if_neg hn]
    obtain ⟨i1, i2, i3, i4, i5⟩ :=
      converge_spec 0 (e.entries.length + 1) { e with maxSize := n } (by simpa using hs) (by simp)
    simp only [Nat.zero_le, if_true, Nat.sub_zero, Nat.add_zero] at i1 i2
    refine ⟨i1, i2, ?_, i3, i4, i5⟩
    rw [i2, i1]
    exact tableSize_evict_le _ _

/-! ### `Table::insert` (after `update_size`) -/

theorem insert_spec (e : Encoder) (h : Header) (hs : e.size = tableSize e.entries)
    (hfit : h.size ≤ e.maxSize) :
    (e.insert h).entries = h :: evict e.entries (e.maxSize - h.size) ∧
    (e.insert h).size = tableSize (e.insert h).entries ∧
    (e.insert h).size ≤ e.maxSize ∧
    (e.insert h).maxSize = e.maxSize ∧
    (e.insert h).maxAllowed = e.maxAllowed ∧
    (e.insert h).sizeUpdate = e.sizeUpdate := by
  unfold Encoder.insert
  obtain ⟨i1, i2, i3, i4, i5⟩ :=
    converge_spec h.size (e.entries.length + 1) { e with size := e.size + h.size }
      (by simp [hs]) (by simp)
  simp only at i1 i2 i3 i4 i5
  rw [if_pos hfit] at i1
  have hf := fieldSize_eq h
  have hle := tableSize_evict_le e.entries (e.maxSize - h.size)
  refine ⟨by simp only [i1], ?_, ?_, i3, i4, i5⟩
  · simp only [i2, tableSize_cons, hf]; omega
  · simp only [i2, i1]; omega

/-- the abstract relation between h2's encoder table and the reference decoder's table -/
structure TableSim (e : Encoder) (st : St) : Prop where
  entries : e.entries = st.entries
  maxSize : e.maxSize = st.maxSize
  size : e.size = tableSize e.entries
  le : e.size ≤ e.maxSize

/-- **`insert_eq_spec_insert`**: inserting a header that fits (`Table::index` only inserts when
    `4·size ≤ 3·max_size`) is RFC 7541 §4.4 -/
theorem insert_eq_spec_insert (e : Encoder) (st : St) (h : Header) (hsim : TableSim e st)
    (hfit : h.size ≤ e.maxSize) :
    Spec.Hpack.insert st h = { st with entries := (e.insert h).entries } ∧
    TableSim (e.insert h) (Spec.Hpack.insert st h) := by
  obtain ⟨i1, i2, i3, i4, _, _⟩ := insert_spec e h hsim.size hfit
  have hf := fieldSize_eq h
  have h1 : Spec.Hpack.insert st h = { st with entries := (e.insert h).entries } := by
    unfold Spec.Hpack.insert
    rw [if_pos (by rw [hf, ← hsim.maxSize]; exact hfit), i1, hf, ← hsim.maxSize, ← hsim.entries]
  refine ⟨h1, ?_⟩
  rw [h1]
  exact ⟨rfl, by rw [i4]; exact hsim.maxSize, i2, by rw [i4]; exact i3⟩

theorem resize_sim (e : Encoder) (st : St) (n : Nat) (hsim : TableSim e st) :
    TableSim (e.resize n) { st with maxSize := n, entries := evict st.entries n } := by
  obtain ⟨i1, i2, i3, i4, _, _⟩ := resize_spec e n hsim.size
  exact ⟨by rw [i1, hsim.entries], i4, i2, by rw [i4]; exact i3⟩

end H2V.Lemmas.HpackEnc
