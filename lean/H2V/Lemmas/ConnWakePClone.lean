import Lean
import H2V.Model.ConnDriver
/-
  ConnWakeP, part 0 — kernel-friendly handles on `Stream.sendData` and `Streams.popFrame`.

  The kernel cannot unfold these two model functions: `Stream::send_data` matches on
  `if prev < s1.capacity max then … else …` where `s1.bufferedSendData = wrapSubUsize …`, i.e. a
  comparison with `x % 2^64 + 2^64 - y % 2^64` inside; as soon as a definitional-equality check has
  to reduce that `match` (generating `Stream.sendData.eq_1`, `Streams.popFrame.eq_def`, `unfold`,
  `delta`, `rfl` through a projection …) the kernel tries to *decide* the comparison by unary
  recursion over the literal `2^64` and never comes back.  (All other model functions unfold fine.)

  Way out, without touching the model: `abstract_const f c g` builds, from the *kernel value* of
  `f`, the definition `g := fun x => value(f)[c := x]` — the same term with the constant `c` turned
  into a parameter — and the theorem `g.eq : f = g c`, whose proof is `Eq.refl f`: after unfolding
  both sides are the very same term, so the kernel accepts it at once without reducing anything.
  With `c` abstract nothing can be decided any more, and the unfolding equations of the clone are
  checked by the kernel in the normal way (`kernel_rfl`, proof `Eq.refl`, kernel only: the
  elaborator has no smart-unfolding lemmas for the clones).

    sendDataC capf        = `Stream.sendData` with `Stream.capacity` abstracted   (`sendDataC.eq`, `sendDataC_def`)
    popFrameC sd          = `Streams.popFrame` with `Stream.sendData` abstracted  (`popFrameC.eq`, `popFrameC_zero/succ`)

  No new axioms: both commands only call `addDecl`, so every declaration goes through the kernel.
-/
namespace H2V.Lemmas.ConnWakeP
open H2V H2V.Model H2V.Model.Conn

open Lean Elab Command Meta in
/-- `abstract_const f c g [aux]`: defines `g := fun x => (value of f)[c := x]` and proves `g.eq : @f = g c` by
    `Eq.refl` (checked by the kernel only: both sides unfold to the very same term).  When the body
    of `f` lives in auxiliary constants (`f._f` of a structural recursion) they are cloned first and
    `f`'s references to them redirected. -/
elab "abstract_const " src:ident c:ident dst:ident aux:ident* : command => do
  let srcName ← liftCoreM <| realizeGlobalConstNoOverloadWithInfo src
  let cName ← liftCoreM <| realizeGlobalConstNoOverloadWithInfo c
  let ci ← getConstInfo cName
  let dstName := (← getCurrNamespace) ++ dst.getId
  let auxNames ← aux.mapM fun a => liftCoreM <| realizeGlobalConstNoOverloadWithInfo a
  liftTermElabM do
    let cConst := mkConst cName (ci.levelParams.map mkLevelParam)
    -- (original constant, clone) pairs
    let mut clones : Array (Name × Name) := #[]
    for n in auxNames.push srcName do
      let .defnInfo di ← getConstInfo n | throwError "not a definition"
      let cloneName := if n == srcName then dstName else dstName ++ n.componentsRev.head!
      let cl := clones
      let (t, v) ← withLocalDeclD `f ci.type fun x => do
        let v := di.value.replace fun e =>
          if e.isConstOf cName then some x
          else match e with
            | .const m ls => (cl.find? (·.1 == m)).map fun (_, m') => mkApp (mkConst m' ls) x
            | _ => none
        pure (← mkForallFVars #[x] di.type, ← mkLambdaFVars #[x] v)
      addDecl (.defnDecl { name := cloneName, levelParams := di.levelParams, type := t, value := v,
                           hints := .regular (di.hints.getHeightEx + 1), safety := .safe })
      clones := clones.push (n, cloneName)
    let .defnInfo di ← getConstInfo srcName | throwError "not a definition"
    let lhs := mkConst srcName (di.levelParams.map mkLevelParam)
    let rhs := mkApp (mkConst dstName (di.levelParams.map mkLevelParam)) cConst
    let eqT ← mkEq lhs rhs
    addDecl (.thmDecl { name := dstName ++ `eq, levelParams := di.levelParams, type := eqT, value := ← mkEqRefl lhs })

open Lean Elab Command Meta Term in
/-- `kernel_rfl name : ∀ xs, a = b` adds the theorem with proof `fun xs => Eq.refl a`, checked by the kernel
    only (the elaborator's own `whnf` is not used: it has no smart unfolding for the cloned definitions) -/
elab "kernel_rfl " n:ident " : " t:term : command => do
  let name := (← getCurrNamespace) ++ n.getId
  liftTermElabM do
    let ty ← instantiateMVars (← elabType t)
    Term.synthesizeSyntheticMVarsNoPostponing
    let ty ← instantiateMVars ty
    let pf ← forallTelescope ty fun xs body => do
      let some (_, lhs, _) := body.eq? | throwError "not an equation"
      mkLambdaFVars xs (← mkEqRefl lhs)
    addDecl (.thmDecl { name := name, levelParams := [], type := ty, value := pf })

abstract_const Stream.sendData Stream.capacity sendDataC

kernel_rfl sendDataC_def : ∀ (capf : Stream → Nat → Nat) (s : Stream) (len maxBufferSize : Nat),
    sendDataC capf s len maxBufferSize =
      (let prev := capf s maxBufferSize
       let (fl, r) := s.sendFlow.sendData len
       let s1 := { s with sendFlow := fl, bufferedSendData := wrapSubUsize s.bufferedSendData len,
                          requestedSendCapacity := wrapSubU32 s.requestedSendCapacity len }
       let (s2, w) := if prev < capf s1 maxBufferSize then s1.notifyCapacity else (s1, [])
       (s2, w, match r with | .error .assertFailed => true | _ => false))

abstract_const Streams.popFrame Stream.sendData popFrameC Streams.popFrame._f

kernel_rfl popFrameC_zero : ∀ (sd : Stream → Nat → Nat → Stream × List String × Bool) (s : Streams) (maxLen : Nat),
    popFrameC sd 0 s maxLen = (s, none)

/-- what follows the `match stream.pending_send.pop_front(buffer)` in `pop_frame`: requeue, transition, return -/
def pfFinish (id : Nat) (isPendingReset : Bool) (s : Streams) (f : Streams.OutFrame) : Streams × Option Streams.OutFrame :=
  let st := s.stream id
  let s := if !st.pendingSend.isEmpty || st.state.isScheduledReset then (s.qPush .pendingSend id).1 else s
  (s.transitionAfter id isPendingReset, some f)

/-- the DATA arm of `pop_frame` once the chunk length `len` is known: the stream and connection windows
    are charged (`sd` stands for `Stream::send_data`) -/
def pfData (sd : Stream → Nat → Nat → Stream × List String × Bool) (s : Streams) (id len : Nat) (rest : List SFrame) : Streams :=
  let s := s.modStream id fun st => { st with pendingSend := rest }
  let (st', w, bad) := sd (s.stream id) len s.prio.maxBufferSize
  let s := (s.setStream st').wake w
  let s := if bad then s.panic "assertion failed: self.window_size.0 >= sz as i32 (stream)" else s
  let s := s.modPrio fun p => { p with flow := (p.flow.assignCapacity len).1 }
  let (fl, r) := s.prio.flow.sendData len
  let s := s.modPrio fun p => { p with flow := fl }
  match r with
  | .error .assertFailed => s.panic "assertion failed: self.window_size.0 >= sz as i32 (connection)"
  | _ => s

kernel_rfl popFrameC_succ : ∀ (sd : Stream → Nat → Nat → Stream × List String × Bool) (fuel : Nat) (s : Streams) (maxLen : Nat),
    popFrameC sd (fuel + 1) s maxLen =
    ((match s.qPop .pendingSend with
    | (s, none) => (s, none)
    | (s, some id) =>
      let st := s.stream id
      let isPendingReset := st.isPendingResetExpiration
      match st.pendingSend with
      | .data sz eos :: rest =>
        let discard : Bool := match st.state.getScheduledReset with
          | some reason => reason != NO_ERROR
          | none => false
        if discard then
          let s := (s.clearQueue id).reclaimAllCapacity id
          popFrameC sd fuel (s.qPush .pendingSend id).1 maxLen
        else
          let streamCapacity := st.sendFlow.available
          if sz > 0 && streamCapacity.eqUsize 0 then
            popFrameC sd fuel s maxLen
          else
            let len := usizeAsU32 (min (min sz maxLen) streamCapacity.asSize)
            if len > 0 && len > st.sendFlow.windowSz then
              popFrameC sd fuel s maxLen
            else
              let flagEos := if sz > len then false else eos
              pfFinish id isPendingReset (pfData sd s id len rest)
                (.data len flagEos { key := id, sid := st.id, rest := sz - len, eos := eos })
      | .headers heos fields :: rest =>
        pfFinish id isPendingReset (s.modStream id fun st => { st with pendingSend := rest }) (.headers st.id heos fields)
      | .reset reason :: rest =>
        pfFinish id isPendingReset (s.modStream id fun st => { st with pendingSend := rest }) (.reset st.id reason)
      | .pushPromise pk pid fields :: rest =>
        let s := s.modStream id fun st => { st with pendingSend := rest }
        match s.store.findKey? pid with
        | none =>
          let st := s.stream id
          let s := if !st.pendingSend.isEmpty || st.state.isScheduledReset then (s.qPush .pendingSend id).1 else s
          popFrameC sd fuel (s.transitionAfter id isPendingReset) maxLen
        | some pushed =>
          let _ := pk
          let s := s.modStream pushed fun st => { st with isPendingPush := false }
          let s :=
            if !(s.stream pushed).pendingSend.isEmpty then
              if s.counts.canIncNumSendStreams then (((s.incNumSendStreams pushed).qPush .pendingSend pushed).1)
              else s.queueOpen pushed
            else s
          pfFinish id isPendingReset s (.pushPromise st.id pid fields)
      | [] =>
        match st.state.getScheduledReset with
        | some reason =>
          let s := s.modStreamW id fun st => st.setReset reason .library
          pfFinish id isPendingReset s (.reset st.id reason)
        | none =>
          popFrameC sd fuel (s.transitionAfter id isPendingReset) maxLen) : Streams × Option Streams.OutFrame)

end H2V.Lemmas.ConnWakeP
