import H2V.Lemmas.ConnFlowPAssign
/-
  ConnFlowP, part 5 — the functions of `prioritize.rs` / `send.rs` that do not move capacity are
  frame steps (`Fr`).
-/
namespace H2V.Lemmas.ConnFlowP
open H2V H2V.Model H2V.Model.Conn

/-- unfold a model function and peel it -/
macro "fr_by" f:ident : tactic => `(tactic| (unfold $f; (try dsimp only); fr_auto))

section
variable {s t : Streams}

theorem Fr.scheduleSend (h : Fr s t) (id : Nat) : Fr s (t.scheduleSend id) := by
  fr_by Streams.scheduleSend
macro_rules | `(tactic| fr_peel) => `(tactic| with_reducible apply Fr.scheduleSend)

theorem Fr.queueFrame (h : Fr s t) (id : Nat) (f : SFrame) : Fr s (t.queueFrame id f) := by
  fr_by Streams.queueFrame
macro_rules | `(tactic| fr_peel) => `(tactic| with_reducible apply Fr.queueFrame)

theorem Fr.queueOpen (h : Fr s t) (id : Nat) : Fr s (t.queueOpen id) := by
  fr_by Streams.queueOpen
macro_rules | `(tactic| fr_peel) => `(tactic| with_reducible apply Fr.queueOpen)

theorem Fr.clearQueue (h : Fr s t) (id : Nat) : Fr s (t.clearQueue id) := by
  fr_by Streams.clearQueue
macro_rules | `(tactic| fr_peel) => `(tactic| with_reducible apply Fr.clearQueue)

theorem Fr.clearPendingCapacity (fuel : Nat) : ∀ {t : Streams}, Fr s t → Fr s (Streams.clearPendingCapacity fuel t) := by
  induction fuel with
  | zero => intro t h; exact h
  | succ n ih => intro t h; fr_by Streams.clearPendingCapacity
macro_rules | `(tactic| fr_peel) => `(tactic| with_reducible apply Fr.clearPendingCapacity)

theorem Fr.clearPendingSend (fuel : Nat) : ∀ {t : Streams}, Fr s t → Fr s (Streams.clearPendingSend fuel t) := by
  induction fuel with
  | zero => intro t h; exact h
  | succ n ih => intro t h; fr_by Streams.clearPendingSend
macro_rules | `(tactic| fr_peel) => `(tactic| with_reducible apply Fr.clearPendingSend)

theorem Fr.clearPendingOpen (fuel : Nat) : ∀ {t : Streams}, Fr s t → Fr s (Streams.clearPendingOpen fuel t) := by
  induction fuel with
  | zero => intro t h; exact h
  | succ n ih => intro t h; fr_by Streams.clearPendingOpen
macro_rules | `(tactic| fr_peel) => `(tactic| with_reducible apply Fr.clearPendingOpen)

theorem Fr.popPendingOpen (h : Fr s t) : Fr s t.popPendingOpen.1 := by
  fr_by Streams.popPendingOpen
macro_rules | `(tactic| fr_peel) => `(tactic| with_reducible apply Fr.popPendingOpen)

theorem Fr.reclaimFrameInner (h : Fr s t) (f : DataFrame) : Fr s (t.reclaimFrameInner f).1 := by
  fr_by Streams.reclaimFrameInner
macro_rules | `(tactic| fr_peel) => `(tactic| with_reducible apply Fr.reclaimFrameInner)

theorem Fr.reclaimFrame (h : Fr s t) (w : Writer) : Fr s (t.reclaimFrame w).1 := by
  fr_by Streams.reclaimFrame
macro_rules | `(tactic| fr_peel) => `(tactic| with_reducible apply Fr.reclaimFrame)

theorem Fr.bufferOut (h : Fr s t) (w : Writer) (f : Streams.OutFrame) : Fr s (t.bufferOut w f).1 := by
  fr_by Streams.bufferOut
macro_rules | `(tactic| fr_peel) => `(tactic| with_reducible apply Fr.bufferOut)

theorem Fr.sendOpenId (h : Fr s t) : Fr s t.sendOpenId.1 := by
  fr_by Streams.sendOpenId
macro_rules | `(tactic| fr_peel) => `(tactic| with_reducible apply Fr.sendOpenId)

theorem Fr.sendHeaders (h : Fr s t) (id : Nat) (eos : Bool) (f : List Hpack.Field) : Fr s (t.sendHeaders id eos f).1 := by
  fr_by Streams.sendHeaders
macro_rules | `(tactic| fr_peel) => `(tactic| with_reducible apply Fr.sendHeaders)

theorem Fr.sendReserveLocal (h : Fr s t) : Fr s t.sendReserveLocal.1 := by
  fr_by Streams.sendReserveLocal
macro_rules | `(tactic| fr_peel) => `(tactic| with_reducible apply Fr.sendReserveLocal)

theorem Fr.sendPushPromise (h : Fr s t) (p k i : Nat) (f : List Hpack.Field) : Fr s (t.sendPushPromise p k i f).1 := by
  fr_by Streams.sendPushPromise
macro_rules | `(tactic| fr_peel) => `(tactic| with_reducible apply Fr.sendPushPromise)

theorem Fr.sendInterimInformationalHeaders (h : Fr s t) (id : Nat) (f : List Hpack.Field) :
    Fr s (t.sendInterimInformationalHeaders id f).1 := by
  fr_by Streams.sendInterimInformationalHeaders
macro_rules | `(tactic| fr_peel) => `(tactic| with_reducible apply Fr.sendInterimInformationalHeaders)

theorem Fr.pollCapacity (h : Fr s t) (id : Nat) (tag : String) : Fr s (t.pollCapacity id tag).1 := by
  fr_by Streams.pollCapacity
macro_rules | `(tactic| fr_peel) => `(tactic| with_reducible apply Fr.pollCapacity)

theorem Fr.pollReset (h : Fr s t) (id : Nat) (m : PollReset) (tag : String) : Fr s (t.pollReset id m tag).1 := by
  fr_by Streams.pollReset
macro_rules | `(tactic| fr_peel) => `(tactic| with_reducible apply Fr.pollReset)

theorem Fr.sendRecvGoAway (h : Fr s t) (l : Nat) : Fr s (t.sendRecvGoAway l).1 := by
  fr_by Streams.sendRecvGoAway
macro_rules | `(tactic| fr_peel) => `(tactic| with_reducible apply Fr.sendRecvGoAway)

theorem Fr.sendClearQueues (h : Fr s t) : Fr s t.sendClearQueues := by
  fr_by Streams.sendClearQueues
macro_rules | `(tactic| fr_peel) => `(tactic| with_reducible apply Fr.sendClearQueues)

theorem Fr.sendMaybeResetNextStreamId (h : Fr s t) (id : Nat) : Fr s (t.sendMaybeResetNextStreamId id) := by
  fr_by Streams.sendMaybeResetNextStreamId
macro_rules | `(tactic| fr_peel) => `(tactic| with_reducible apply Fr.sendMaybeResetNextStreamId)

end

end H2V.Lemmas.ConnFlowP
