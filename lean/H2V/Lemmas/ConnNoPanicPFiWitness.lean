import H2V.Lemmas.ConnNoPanicPFiStep
import H2V.Lemmas.ConnCountsPWitness
/-
  C08 (no panic) — `FI` is a reachable invariant, part 10: why the typing preconditions `fiPre` are needed.
  In the untyped operation universe (`ConnResetP.Op`: any handle method on any held key) the
  `assert!(!stream.is_counted)` of `Counts::inc_num_send_streams` (reached from `Prioritize::pop_pending_open`) FIRES.
-/
namespace H2V.Lemmas.ConnNoPanicP
open H2V H2V.Model H2V.Model.Conn H2V.Lemmas.ConnCountsP
open H2V.Lemmas.ConnResetP (Op run)

/-- a new server connection -/
def fiConn : Conn := Conn.initServer {} false []
def fiS0 : Streams := fiConn.streams

/-- peer SETTINGS; `GET /` on stream 1 (accepted: key 0); `push_request` on it (promised stream 2, key 1: `ReservedLocal`,
    `is_pending_push`); **`send_informational(103)` on the PROMISED stream's handle** (accepted by
    `send_interim_informational_headers`: `ReservedLocal` is neither send-streaming nor send-closed; the HEADERS frame is
    queued on the promised stream); `poll_complete` writes the PUSH_PROMISE and finds the promised stream's queue
    non-empty: `inc_num_send_streams` — the stream is COUNTED while still `ReservedLocal`; `send_response(200)` on it:
    `send_open` succeeds from `ReservedLocal`, `is_local_init && !is_pending_push` ⇒ `queue_open`: the stream is
    `is_counted` ∧ `is_pending_open`; the next `poll_complete` pops it from `pending_open` and counts it again. -/
def fiOps : List Op :=
  [.applyRemoteSettings [] true,
   .recvHeaders { sid := 1, eos := true, status := none, method := some (Http.str "GET"), scheme := some (Http.str "http"),
                  authority := some (Http.str "a"), path := some (Http.str "/") },
   .nextIncoming,
   .refSendPushPromise 0 true wGet,
   .refSendInformationalHeaders 1 [wFld ":status" "103"],
   .pollComplete 20 fiConn.codec.w fiConn.codec.io "c",
   .refSendResponse 1 [wFld ":status" "200"] false,
   .pollComplete 20 fiConn.codec.w fiConn.codec.io "c"]

set_option maxRecDepth 100000 in
/-- **Counterexample in the untyped operation universe**: after the first seven operations the promised stream is both
    counted and in `pending_open` (no panic so far: `FI`, not `NPI`, is what fails), and the eighth makes
    `assert!(!stream.is_counted)` fire.  NOT reachable through the public API: `send_informational` (and `push_request`,
    which has the same effect) exist on `SendResponse` only; the handle of a promised stream is a `SendPushedResponse`
    (`send_response`, `send_reset`, `poll_reset`, `stream_id`; src/server.rs).  Hence the precondition `fiPre`. -/
theorem fi_untyped_counterexample :
    (run fiS0 (fiOps.take 7)).panicked = none ∧
    ((run fiS0 (fiOps.take 7)).stream 1).isCounted = true ∧ ((run fiS0 (fiOps.take 7)).stream 1).isPendingOpen = true ∧
    (run fiS0 fiOps).panicked = some "assertion failed: !stream.is_counted" := by
  decide +kernel

/-- the operation that breaks the typing discipline: the handle `1` is the promised (locally initiated) stream -/
theorem fi_untyped_counterexample_pre : ¬ fiPre (run fiS0 (fiOps.take 4)) (.refSendInformationalHeaders 1 [wFld ":status" "103"]) := by
  unfold fiPre
  decide +kernel

end H2V.Lemmas.ConnNoPanicP
