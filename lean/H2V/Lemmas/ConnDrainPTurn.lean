import H2V.Lemmas.ConnDrainPPoll2
/-
  ConnDrainP, part 10 — one turn of `Connection::poll` in state `Open`: `poll2` `Pending` followed by
  `poll_complete` leaves the connection task parked (`open_turn`); what `poll_complete` keeps of the
  transport's wakers and of `recv.refused`.
-/
namespace H2V.Lemmas.ConnDrainP
open H2V H2V.Model H2V.Model.Conn

-- ===================================================================== what `poll_complete` keeps

theorem pollComplete_io (n : Nat) : ∀ (s : Streams) (w : Writer) (io : Tio) (tag : String),
    (Streams.pollComplete n s w io tag).2.2.1.readWaker = io.readWaker ∧
    ((Streams.pollComplete n s w io tag).2.2.1.writeWaker = io.writeWaker ∨
      (Streams.pollComplete n s w io tag).2.2.1.writeWaker = some tag) := by
  induction n with
  | zero => intro s w io tag; exact ⟨rfl, Or.inl rfl⟩
  | succ n ih =>
    intro s w io tag
    rw [ConnFlowP.pollComplete_eq]
    have comb : ∀ {io1 io2 : Tio}, (io1.readWaker = io.readWaker ∧ (io1.writeWaker = io.writeWaker ∨ io1.writeWaker = some tag)) →
        (io2.readWaker = io1.readWaker ∧ (io2.writeWaker = io1.writeWaker ∨ io2.writeWaker = some tag)) →
        io2.readWaker = io.readWaker ∧ (io2.writeWaker = io.writeWaker ∨ io2.writeWaker = some tag) := by
      intro io1 io2 h1 h2
      refine ⟨h2.1.trans h1.1, ?_⟩
      rcases h2.2 with e | e
      · rcases h1.2 with e1 | e1
        · exact Or.inl (e.trans e1)
        · exact Or.inr (e.trans e1)
      · exact Or.inr e
    split
    · next w1 io1 hpr =>
      have h1 := pollReadyW_io hpr
      have h1' : io1.readWaker = io.readWaker ∧ (io1.writeWaker = io.writeWaker ∨ io1.writeWaker = some tag) := ⟨h1.1, h1.2.1⟩
      split
      · exact comb h1' (ih _ _ _ _)
      · dsimp only
        split
        · exact comb h1' (ih _ _ _ _)
        · split
          · next w4 io4 hfl =>
            have h4 := flush_io hfl
            have h4' := comb h1' ⟨h4.1, h4.2.1⟩
            split
            · exact h4'
            · exact comb h4' (ih _ _ _ _)
          · next w4 io4 r4 hne hfl =>
            have h4 := flush_io hfl
            exact comb h1' ⟨h4.1, h4.2.1⟩
    · next w1 io1 r1 hne hpr =>
      have h1 := pollReadyW_io hpr
      exact ⟨h1.1, h1.2.1⟩

theorem sendStreamWU_refused (n : Nat) : ∀ (s : Streams) (w : Writer),
    (Streams.sendStreamWindowUpdates n s w).1.recv.refused = s.recv.refused := by
  induction n with
  | zero => intro s w; rfl
  | succ n ih =>
    intro s w
    unfold Streams.sendStreamWindowUpdates
    split
    · rfl
    · split
      · next s0 heq => rw [(qPop_none_eq heq).1]
      · next s0 id heq =>
        obtain ⟨rest, hq, rfl⟩ := qPop_some_eq heq
        dsimp only
        have base : (((s.setQ .pendingWindowUpdates rest).modStream id fun st => st.setQueued .pendingWindowUpdates false)).recv.refused = s.recv.refused := by
          unfold Streams.recv; rw [recv_modStream]; rfl
        split
        · rw [ih]; unfold Streams.recv; rw [recv_transitionAfter]; exact base
        · split
          · split
            · rw [ih]; unfold Streams.recv; rw [recv_transitionAfter, recv_modStream]; exact base
            · rw [ih]; unfold Streams.recv; rw [recv_transitionAfter, recv_panic]; exact base
          · rw [ih]; unfold Streams.recv; rw [recv_transitionAfter]; exact base

theorem recvBufferPending_refused (s : Streams) (w : Writer) : (s.recvBufferPending w).1.recv.refused = s.recv.refused := by
  unfold Streams.recvBufferPending
  have h0 : (s.sendConnectionWindowUpdate w).1.recv.refused = s.recv.refused := by
    unfold Streams.sendConnectionWindowUpdate
    split
    · split
      · rfl
      · dsimp only
        split
        · rfl
        · unfold Streams.recv; rw [recv_panic]
    · rfl
  split
  · next heq => rw [heq] at h0; exact h0
  · next heq => rw [heq] at h0; rw [sendStreamWU_refused]; exact h0

theorem pollComplete_refused (n : Nat) : ∀ (s : Streams) (w : Writer) (io : Tio) (tag : String),
    (Streams.pollComplete n s w io tag).1.recv.refused = s.recv.refused := by
  induction n with
  | zero => intro s w io tag; unfold Streams.pollComplete; unfold Streams.recv; rw [recv_panic]
  | succ n ih =>
    intro s w io tag
    rw [ConnFlowP.pollComplete_eq]
    split
    · next w1 io1 hpr =>
      split
      · next s1 w2 hrb =>
        rw [ih]; have := recvBufferPending_refused s w1; rw [hrb] at this; exact this
      · next s1 w2 hrb =>
        have h1 : s1.recv.refused = s.recv.refused := by
          have := recvBufferPending_refused s w1; rw [hrb] at this; exact this
        dsimp only
        have h3 : (Streams.prioBufferPendingLoop (n + 1) (s1.reclaimFrame w2).1 (s1.reclaimFrame w2).2.1).1.recv.refused = s.recv.refused := by
          unfold Streams.recv; rw [recv_prioLoop, recv_reclaimFrame]; exact h1
        split
        · rw [ih]; exact h3
        · split
          · split
            · unfold Streams.recv; rw [recv_reclaimFrame]; exact h3
            · rw [ih]; unfold Streams.recv; rw [recv_reclaimFrame]; exact h3
          · exact h3
    · rfl


-- ===================================================================== one turn of `Connection::poll` in state `Open`

/-- everything is written and every slot is empty; the task waits for input (read waker) and for work from the
    handles (`Actions.task`) -/
structure Settled (c : Conn) : Prop where
  read : c.codec.io.readWaker = some c.cx
  goAway : c.goAway.pending = none
  ready : ReadyDone c
  drained : Drained c.cx c.streams c.codec.w

/-- where `Connection::poll` leaves the connection task when it answers `Pending` -/
def PollParked (c : Conn) : Prop := WriteParked c ∨ Settled c

/-- **`poll2` `Pending`, then `poll_complete`**: the connection task ends up parked on the write waker, or on the
    read waker and `Actions.task` with nothing left to write.  `hi`, `hr`: the stream-layer invariants at the
    moment `poll_complete` starts. -/
theorem open_turn (n m : Nat) (c c1 : Conn) (s' : Streams) (w' : Writer) (io' : Tio) (r : WRes)
    (hc : CapOK c.codec.w) (h2 : Conn.poll2Loop n c = (c1, .pending))
    (hi : PInv c1.streams) (hr : RangeOK c1.streams)
    (hpc : Streams.pollComplete m c1.streams c1.codec.w c1.codec.io c1.cx = (s', w', io', r))
    (hne : ∀ k, r ≠ .err k) (hp : s'.panicked = none) :
    PollParked { c1 with streams := s', codec := { c1.codec with w := w', io := io' } } ∧ CapOK w' := by
  have hp1 : c1.streams.panicked = none := by
    have e := ConnCountsP.pollComplete_ev (ρ := true) m c1.streams c1.codec.w c1.codec.io c1.cx
    rw [hpc] at e
    exact Ev.panic_none e hp
  obtain ⟨hpk, hc1, hcx⟩ := poll2Loop_pending n c c1 hc h2 hp1
  have hcap' : CapOK w' := by
    have := CapOK.pollComplete m c1.streams c1.codec.w c1.codec.io c1.cx hc1
    rw [hpc] at this; exact this
  have hio := pollComplete_io m c1.streams c1.codec.w c1.codec.io c1.cx
  rw [hpc] at hio
  have href := pollComplete_refused m c1.streams c1.codec.w c1.codec.io c1.cx
  rw [hpc] at href
  dsimp only at hio href
  refine ⟨?_, hcap'⟩
  cases r with
  | err k => exact absurd rfl (hne k)
  | pending =>
    exact Or.inl (ConnWakeP.pollComplete_pending_parks m _ _ _ _ _ _ _ hpc hp hcap')
  | ready =>
    rcases hpk with hw | ⟨hrd, hga, hrdy⟩
    · left
      unfold WriteParked at *
      rcases hio.2 with e | e
      · show io'.writeWaker = _; rw [e]; exact hw
      · exact e
    · right
      obtain ⟨hd, _, _⟩ := pollComplete_ready_drained m _ _ _ _ _ _ _ hi hr hpc hp
      exact ⟨by show io'.readWaker = _; rw [hio.1]; exact hrd, hga,
        ⟨hrdy.pong, hrdy.ping, hrdy.remote, hrdy.loc, by show s'.recv.refused = none; rw [href]; exact hrdy.refused⟩, hd⟩


theorem poll2_pending (n : Nat) (c c' : Conn) (hc : CapOK c.codec.w) (h : Conn.poll2 n c = (c', .pending))
    (hp : c'.streams.panicked = none) : ConnParked c' ∧ CapOK c'.codec.w ∧ c'.cx = c.cx := by
  unfold Conn.poll2 at h
  exact poll2Loop_pending n { c with streams := Streams.clearExpiredResetStreams (c.streams.recv.pendingResetExpired.length + 1) c.streams } c' hc h hp

end H2V.Lemmas.ConnDrainP
