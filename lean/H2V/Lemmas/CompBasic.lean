/-
  Shared helper of the `Comp*` lemma files.
-/
namespace H2V.Lemmas.Comp

/-- `Result::is_ok` -/
def isOk {ε α : Type} : Except ε α → Bool
  | .ok _ => true
  | .error _ => false

@[simp] theorem isOk_ok {ε α : Type} (a : α) : isOk (.ok a : Except ε α) = true := rfl
@[simp] theorem isOk_error {ε α : Type} (e : ε) : isOk (.error e : Except ε α) = false := rfl

/-- core has no `DecidableEq (Except ε α)`; needed to `decide` the concrete witnesses -/
instance instDecidableEqExcept {ε α : Type} [DecidableEq ε] [DecidableEq α] : DecidableEq (Except ε α)
  | .ok a, .ok b => if h : a = b then isTrue (by rw [h]) else isFalse (by intro h'; cases h'; exact h rfl)
  | .error a, .error b => if h : a = b then isTrue (by rw [h]) else isFalse (by intro h'; cases h'; exact h rfl)
  | .ok _, .error _ => isFalse (by intro h; cases h)
  | .error _, .ok _ => isFalse (by intro h; cases h)

theorem isOk_unit_iff {ε : Type} (r : Except ε Unit) : isOk r = true ↔ r = .ok () := by
  cases r <;> simp [isOk]

theorem isOk_false_iff {ε α : Type} (r : Except ε α) : isOk r = false ↔ ∃ e, r = .error e := by
  cases r <;> simp [isOk]

end H2V.Lemmas.Comp
