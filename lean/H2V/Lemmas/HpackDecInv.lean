import H2V.Lemmas.HpackDecStep
/-
  Part B (decoder level) — `Decoder::decode` preserves the table invariant on every input, never
  reaches the `panic!` of `consolidate`, never runs out of the model's fuel, and the table stays
  within the largest limit ever configured.
-/
namespace H2V.Lemmas.HpackDec
open H2V H2V.Model.Hpack H2V.Generated.Static

/-- the decoder `Decoder::decode` enters its loop with -/
def prep (d : Decoder) : Decoder :=
  let d := if d.continuing then d else { d with seenField := false }
  let d := { d with continuing := false }
  match d.maxSizeUpdate with
  | some size => { d with maxSizeUpdate := none, lastMaxUpdate := size }
  | none => d

theorem decode_eq (d : Decoder) (src : Bytes) :
    d.decode src = decodeLoop (src.length + 1) (prep d) (!(prep d).seenField) src [] := by
  obtain ⟨msu, lmu, t, cont, seen⟩ := d
  cases cont <;> cases msu <;> rfl

theorem prep_table (d : Decoder) : (prep d).table = d.table := by
  obtain ⟨msu, lmu, t, cont, seen⟩ := d
  cases cont <;> cases msu <;> rfl

theorem prep_maxSizeUpdate (d : Decoder) : (prep d).maxSizeUpdate = none := by
  obtain ⟨msu, lmu, t, cont, seen⟩ := d
  cases cont <;> cases msu <;> rfl

theorem prep_continuing (d : Decoder) : (prep d).continuing = false := by
  obtain ⟨msu, lmu, t, cont, seen⟩ := d
  cases cont <;> cases msu <;> rfl

theorem prep_lastMaxUpdate (d : Decoder) :
    (prep d).lastMaxUpdate = (match d.maxSizeUpdate with | some v => v | none => d.lastMaxUpdate) := by
  obtain ⟨msu, lmu, t, cont, seen⟩ := d
  cases cont <;> cases msu <;> rfl

/-! ### the loop -/

theorem decodeLoop_inv : ∀ (fuel : Nat) (d : Decoder) (c : Bool) (buf : Bytes) (acc : List Header),
    Table.Inv d.table →
    Table.Inv (decodeLoop fuel d c buf acc).dec.table ∧
    SameCfg d (decodeLoop fuel d c buf acc).dec ∧
    (decodeLoop fuel d c buf acc).dec.table.maxSize ≤ max d.table.maxSize d.lastMaxUpdate := by
  intro fuel
  induction fuel with
  | zero =>
    intro d c buf acc hi
    rw [decodeLoop_zero]
    exact ⟨hi, SameCfg.refl d, Nat.le_max_left _ _⟩
  | succ fuel ih =>
    intro d c buf acc hi
    rw [decodeLoop_succ]
    cases hs : step d c buf with
    | stop d' tl res =>
      simp only
      rcases (step_stop_props _ _ _ _ _ _ hs).1 with rfl | rfl
      · exact ⟨hi, SameCfg.refl _, Nat.le_max_left _ _⟩
      · exact ⟨hi, ⟨rfl, rfl, rfl⟩, Nat.le_max_left _ _⟩
    | next d' c' rest emit =>
      simp only
      obtain ⟨-, hcfg, -, hinv⟩ := step_next_props _ _ _ _ _ _ _ hs
      obtain ⟨hi', hm⟩ := hinv hi
      obtain ⟨i1, i2, i3⟩ := ih d' c' rest (acc ++ emit) hi'
      refine ⟨i1, hcfg.trans i2, ?_⟩
      have := hcfg.lmu
      rw [this] at i3
      rcases hm with hm | hm
      · rw [hm] at i3; exact i3
      · have : max d'.table.maxSize d.lastMaxUpdate ≤ max d.table.maxSize d.lastMaxUpdate := by
          omega
        omega

/-- the loop never fails with a model-only error when the fuel exceeds the buffer length -/
theorem decodeLoop_err (hHuff : HuffSpec) : ∀ (fuel : Nat) (d : Decoder) (c : Bool) (buf : Bytes)
    (acc : List Header) (e : DErr),
    buf.length < fuel → Bytes.Valid buf → Table.Inv d.table →
    (decodeLoop fuel d c buf acc).result = .error e → e.isModelOnly = false := by
  intro fuel
  induction fuel with
  | zero => intro d c buf acc e hf; omega
  | succ fuel ih =>
    intro d c buf acc e hf hv hi
    rw [decodeLoop_succ]
    cases hs : step d c buf with
    | stop d' tl res =>
      simp only
      intro hr
      subst hr
      exact step_stop_err hHuff _ _ _ _ _ _ hv hi.sizeOk hs
    | next d' c' rest emit =>
      simp only
      obtain ⟨⟨pre, hpre, hl⟩, -, -, hinv⟩ := step_next_props _ _ _ _ _ _ _ hs
      have hv' : Bytes.Valid rest := by rw [hpre] at hv; exact (Valid_append.1 hv).2
      have hf' : rest.length < fuel := by
        rw [hpre, List.length_append] at hf; omega
      exact ih d' c' rest (acc ++ emit) e hf' hv' (hinv hi).1

/-! ### `Decoder::decode` -/

/-- B — `decode` preserves the table invariant, on every input -/
theorem decode_preserves_inv (d : Decoder) (src : Bytes) (hi : Table.Inv d.table) :
    Table.Inv (d.decode src).dec.table := by
  rw [decode_eq]
  exact (decodeLoop_inv _ _ _ _ _ (by rw [prep_table]; exact hi)).1

/-- B — the result of `decode` is a Rust value: not the model's out-of-fuel, not a `panic!` -/
theorem decode_no_model_error (hHuff : HuffSpec) (d : Decoder) (src : Bytes) (e : DErr)
    (hv : Bytes.Valid src) (hi : Table.Inv d.table)
    (h : (d.decode src).result = .error e) : e.isModelOnly = false := by
  rw [decode_eq] at h
  exact decodeLoop_err hHuff _ _ _ _ _ e (Nat.lt_succ_self _) hv (by rw [prep_table]; exact hi) h

theorem decode_never_fuel (hHuff : HuffSpec) (d : Decoder) (src : Bytes)
    (hv : Bytes.Valid src) (hi : Table.Inv d.table) :
    (d.decode src).result ≠ .error .fuel := by
  intro h
  have := decode_no_model_error hHuff d src _ hv hi h
  cases this

theorem decode_never_panic (hHuff : HuffSpec) (d : Decoder) (src : Bytes)
    (hv : Bytes.Valid src) (hi : Table.Inv d.table) :
    (d.decode src).result ≠ .error .panic := by
  intro h
  have := decode_no_model_error hHuff d src _ hv hi h
  cases this

/-! ### any sequence of calls -/

/-- the three entry points of the decoder that the framing layer calls -/
inductive Op where
  | decode (src : Bytes)
  | queueSizeUpdate (size : Nat)
  | continueBlock

def Op.apply (d : Decoder) : Op → Decoder
  | .decode src => (d.decode src).dec
  | .queueSizeUpdate n => d.queueSizeUpdate n
  | .continueBlock => d.continueBlock

def run (d : Decoder) (ops : List Op) : Decoder := ops.foldl Op.apply d

/-- the largest of `m` and the sizes queued by `ops` -/
def maxQueued (m : Nat) : List Op → Nat
  | [] => m
  | .queueSizeUpdate n :: ops => maxQueued (max m n) ops
  | _ :: ops => maxQueued m ops

/-- everything size-like in the decoder is bounded by `M` -/
def Within (d : Decoder) (M : Nat) : Prop :=
  Table.Inv d.table ∧ d.table.maxSize ≤ M ∧ d.lastMaxUpdate ≤ M ∧ ∀ v, d.maxSizeUpdate = some v → v ≤ M

theorem Within.decode {d : Decoder} {M : Nat} (h : Within d M) (src : Bytes) :
    Within (d.decode src).dec M := by
  obtain ⟨hi, h1, h2, h3⟩ := h
  rw [decode_eq]
  have hp : Table.Inv (prep d).table := by rw [prep_table]; exact hi
  obtain ⟨i1, i2, i3⟩ := decodeLoop_inv (src.length + 1) (prep d) (!(prep d).seenField) src [] hp
  have hl : (prep d).lastMaxUpdate ≤ M := by
    rw [prep_lastMaxUpdate]
    cases hm : d.maxSizeUpdate with
    | none => exact h2
    | some v => exact h3 v hm
  refine ⟨i1, ?_, ?_, ?_⟩
  · rw [prep_table] at i3; omega
  · rw [i2.lmu]; exact hl
  · intro v hv
    rw [i2.msu, prep_maxSizeUpdate] at hv
    cases hv

theorem Within.queue {d : Decoder} {M : Nat} (h : Within d M) (n : Nat) :
    Within (d.queueSizeUpdate n) (max M n) := by
  obtain ⟨hi, h1, h2, h3⟩ := h
  refine ⟨hi, ?_, ?_, ?_⟩
  · show d.table.maxSize ≤ _; omega
  · show d.lastMaxUpdate ≤ _; omega
  · intro v hv
    simp only [Decoder.queueSizeUpdate, Option.some.injEq] at hv
    cases hm : d.maxSizeUpdate with
    | none => rw [hm] at hv; simp only at hv; omega
    | some w =>
      rw [hm] at hv
      have := h3 w hm
      simp only at hv; omega

theorem run_within : ∀ (ops : List Op) (d : Decoder) (M : Nat), Within d M →
    Within (run d ops) (maxQueued M ops) := by
  intro ops
  induction ops with
  | nil => intro d M h; exact h
  | cons op ops ih =>
    intro d M h
    cases op with
    | decode src => exact ih _ _ (h.decode src)
    | queueSizeUpdate n => exact ih _ _ (h.queue n)
    | continueBlock => exact ih _ _ h

/-- B — after any sequence of `decode` / `queue_size_update` / `continue_block` calls on a fresh
    decoder: the invariant holds (so `size ≤ max_size`) and `max_size` is at most the largest of
    the initial size and the queued sizes -/
theorem table_within_limit (n : Nat) (ops : List Op) :
    Table.Inv (run (Decoder.new n) ops).table ∧
    (run (Decoder.new n) ops).table.size ≤ (run (Decoder.new n) ops).table.maxSize ∧
    (run (Decoder.new n) ops).table.maxSize ≤ maxQueued n ops := by
  have h0 : Within (Decoder.new n) n :=
    ⟨new_inv n, Nat.le_refl _, Nat.le_refl _, fun v hv => by cases hv⟩
  obtain ⟨hi, h1, -, -⟩ := run_within ops _ _ h0
  exact ⟨hi, hi.2, h1⟩

end H2V.Lemmas.HpackDec
