import H2V.Lemmas.ConnCtlPDead
/-
  ConnCtlP, part 4 — C14 over a whole `proto::Connection::poll` (state loop, several `poll2` runs,
  `handle_poll2_result`, `poll_complete`, closing) and over `client::Connection::poll`.
-/
set_option autoImplicit false
set_option linter.unusedSimpArgs false
namespace H2V.Lemmas.ConnCtlP
open H2V H2V.Model H2V.Model.Conn

theorem takeError_fst (c : Conn) (r : Reason) (i : Initiator) : (c.takeError r i).1 = { c with error := none } := by
  unfold Conn.takeError
  dsimp only
  (repeat' split) <;> rfl

theorem goAwayNow_halting (c : Conn) (e : Reason) : Halting (c.goAwayNow e) := goAwayNowData_halting c e []

theorem goAwayNow_same (c : Conn) (e : Reason) :
    (c.goAwayNow e).settings = c.settings ∧ (c.goAwayNow e).pingPong = c.pingPong ∧
    (c.goAwayNow e).state = c.state ∧ (c.goAwayNow e).error = c.error := goAwayNowData_same c e []

/-- **a dead connection acknowledges and reads nothing**: whatever `Connection::poll` still does
    (flush the GOAWAY, shut the transport down, report the error), the only frames it hands to the
    codec are GOAWAYs, and it stays dead -/
theorem protoPollT_dead : ∀ (fuel : Nat) (c : Conn), Dead c →
    OnlyGoAway (protoPollT fuel c).2 ∧ Dead (protoPollT fuel c).1.1 ∧ SameAck c (protoPollT fuel c).1.1
  | 0, c, hd => ⟨OnlyGoAway.nil, hd.of_goAway_state rfl rfl, ⟨rfl, rfl⟩⟩
  | fuel + 1, c, hd => by
    unfold protoPollT
    cases hs : c.state with
    | «open» =>
      have hh : Halting c := by
        rcases hd with h | h
        · exact h
        · exact absurd hs h
      dsimp only
      have hh0 : Halting { c with streams := Streams.clearExpiredResetStreams (c.streams.recv.pendingResetExpired.length + 1) c.streams } := hh
      obtain ⟨q1, q2, q3, q4, q5, q6⟩ := poll2LoopT_halting (fuel + 1) _ hh0
      unfold poll2T
      dsimp only
      rcases h1 : poll2LoopT (fuel + 1) { c with streams := Streams.clearExpiredResetStreams (c.streams.recv.pendingResetExpired.length + 1) c.streams } with ⟨⟨c1, r1⟩, e0⟩
      rw [h1] at q1 q2 q3 q4 q5 q6
      dsimp only at q1 q2 q3 q4 q5 q6
      have sa1 : SameAck c c1 := ⟨by rw [q3], by rw [q4]⟩
      cases r1 with
      | ready result =>
        dsimp only
        obtain ⟨k1, k2⟩ := handlePoll2Result_same c1 result
        have kd := handlePoll2Result_dead c1 result (Or.inl q2)
        rcases h2 : c1.handlePoll2Result result with ⟨c2, r2⟩
        rw [h2] at k1 k2 kd
        dsimp only at k1 k2 kd
        have sa2 : SameAck c c2 := sa1.trans ⟨by rw [k1], by rw [k2]⟩
        cases r2 with
        | error e => exact ⟨q1, kd, sa2⟩
        | ok u =>
          dsimp only
          obtain ⟨i1, i2, i3⟩ := protoPollT_dead fuel c2 kd
          exact ⟨q1.append i1, i2, sa2.trans i3⟩
      | pending =>
        dsimp only
        rcases h2 : Streams.pollComplete (fuel + 1) c1.streams c1.codec.w c1.codec.io c1.cx with ⟨s, w, io, r⟩
        dsimp only
        cases r with
        | pending => exact ⟨q1, Dead.of_goAway_state (c := c1) (Or.inl q2) rfl rfl, sa1⟩
        | err k => exact ⟨q1, Dead.of_goAway_state (c := c1) (Or.inl q2) rfl rfl, sa1⟩
        | ready =>
          dsimp only
          split
          · obtain ⟨g1, g2, -, -⟩ := goAwayNow_same { c1 with streams := s, codec := { c1.codec with w := w, io := io } } NO_ERROR
            obtain ⟨i1, i2, i3⟩ := protoPollT_dead fuel _ (Or.inl (goAwayNow_halting { c1 with streams := s, codec := { c1.codec with w := w, io := io } } NO_ERROR))
            refine ⟨q1.append i1, i2, sa1.trans (SameAck.trans ⟨?_, ?_⟩ i3)⟩
            · rw [g1]
            · rw [g2]
          · exact ⟨q1, Dead.of_goAway_state (c := c1) (Or.inl q2) rfl rfl, sa1⟩
    | closing reason init =>
      dsimp only
      rcases h2 : shutdownW c.codec.w c.codec.io c.cx with ⟨w, io, r⟩
      dsimp only
      cases r with
      | pending => exact ⟨OnlyGoAway.nil, Or.inr (by simp [hs]), ⟨rfl, rfl⟩⟩
      | err k => exact ⟨OnlyGoAway.nil, Or.inr (by simp [hs]), ⟨rfl, rfl⟩⟩
      | ready =>
        dsimp only
        obtain ⟨i1, i2, i3⟩ := protoPollT_dead fuel { c with codec := { c.codec with w := w, io := io }, state := .closed reason init } (Or.inr (by simp))
        exact ⟨i1, i2, SameAck.trans ⟨rfl, rfl⟩ i3⟩
    | closed reason init =>
      dsimp only
      rw [takeError_fst]
      exact ⟨OnlyGoAway.nil, Or.inr (by simp [hs]), ⟨rfl, rfl⟩⟩

-- ===================================================================== the ledger of Connection::poll

theorem Led.right {c c1 c2 : Conn} {e : List Ev} (h : Led c e c1) (hs : SameAck c1 c2) : Led c e c2 :=
  ⟨by have := h.settings; simp only [owedS] at *; rw [hs.1]; exact this,
   by have := h.pings; simp only [owedP] at *; rw [hs.2]; exact this⟩

theorem Led.left {c c0 c1 : Conn} {e : List Ev} (h : Led c0 e c1) (hs : SameAck c c0) : Led c e c1 :=
  ⟨by have := h.settings; simp only [owedS] at *; rw [← hs.1]; exact this,
   by have := h.pings; simp only [owedP] at *; rw [← hs.2]; exact this⟩

theorem LedF.right {c c1 c2 : Conn} {e : List Ev} (h : LedF c e c1) (hs : SameAck c1 c2) : LedF c e c2 :=
  ⟨h.settings, by have := h.pings; simp only [owedP] at *; rw [hs.2]; exact this⟩

theorem LedF.left {c c0 c1 : Conn} {e : List Ev} (h : LedF c0 e c1) (hs : SameAck c c0) : LedF c e c1 :=
  ⟨by have := h.settings; simp only [owedS] at *; rw [← hs.1]; exact this,
   by have := h.pings; simp only [owedP] at *; rw [← hs.2]; exact this⟩

theorem LedF.append_quiet {c c1 c2 : Conn} {e e' : List Ev} (h : LedF c e c1) (hq : OnlyGoAway e')
    (hs : SameAck c1 c2) : LedF c (e ++ e') c2 := by
  obtain ⟨q1, q2, q3, q4, -⟩ := hq.quiet
  have h2 := h.right hs
  exact ⟨by simp [q1, q2, h2.settings], by simp [q3, q4, h2.pings]⟩

/-- what a whole `Connection::poll` satisfies: the ledgers balance, or `apply_remote_settings`
    failed after its ACK went out and the connection is dead -/
def RunP (c : Conn) (x : (Conn × PollRes) × List Ev) : Prop :=
  Led c x.2 x.1.1 ∨ (Dead x.1.1 ∧ LedF c x.2 x.1.1)

theorem RunP.pre {c c1 : Conn} {e1 : List Ev} {x : (Conn × PollRes) × List Ev}
    (h1 : Led c e1 c1) (h2 : RunP c1 x) : RunP c (x.1, e1 ++ x.2) := by
  rcases h2 with h | ⟨he, h⟩
  · exact Or.inl (h1.trans h)
  · exact Or.inr ⟨he, h1.transF h⟩

theorem protoPollT_spec : ∀ (fuel : Nat) (c : Conn), RunP c (protoPollT fuel c)
  | 0, c => Or.inl (Led.of_same rfl rfl rfl rfl rfl rfl)
  | fuel + 1, c => by
    unfold protoPollT
    cases hs : c.state with
    | «open» =>
      dsimp only
      have sa0 : SameAck c { c with streams := Streams.clearExpiredResetStreams (c.streams.recv.pendingResetExpired.length + 1) c.streams } := ⟨rfl, rfl⟩
      have q := poll2LoopT_spec (fuel + 1) { c with streams := Streams.clearExpiredResetStreams (c.streams.recv.pendingResetExpired.length + 1) c.streams }
      unfold poll2T
      dsimp only
      rcases h1 : poll2LoopT (fuel + 1) { c with streams := Streams.clearExpiredResetStreams (c.streams.recv.pendingResetExpired.length + 1) c.streams } with ⟨⟨c1, r1⟩, e0⟩
      rw [h1] at q
      rcases q with q | ⟨⟨e, he, hk⟩, q⟩
      · -- the ledgers of this poll2 balance
        have qq : Led c e0 c1 := q.left sa0
        clear q
        cases r1 with
        | ready result =>
          dsimp only
          obtain ⟨k1, k2⟩ := handlePoll2Result_same c1 result
          rcases h2 : c1.handlePoll2Result result with ⟨c2, r2⟩
          rw [h2] at k1 k2
          dsimp only at k1 k2
          have q2 : Led c e0 c2 := qq.right ⟨by rw [k1], by rw [k2]⟩
          cases r2 with
          | error e => exact Or.inl q2
          | ok u => exact RunP.pre q2 (protoPollT_spec fuel c2)
        | pending =>
          dsimp only
          rcases h2 : Streams.pollComplete (fuel + 1) c1.streams c1.codec.w c1.codec.io c1.cx with ⟨s, w, io, r⟩
          dsimp only
          have q2 : Led c e0 { c1 with streams := s, codec := { c1.codec with w := w, io := io } } := qq.right ⟨rfl, rfl⟩
          cases r with
          | pending => exact Or.inl q2
          | err k => exact Or.inl q2
          | ready =>
            dsimp only
            split
            · obtain ⟨g1, g2, -, -⟩ := goAwayNow_same { c1 with streams := s, codec := { c1.codec with w := w, io := io } } NO_ERROR
              exact RunP.pre (q2.right ⟨by rw [g1], by rw [g2]⟩) (protoPollT_spec fuel _)
            · exact Or.inl q2
      · -- `apply_remote_settings` failed: the connection error kills the connection
        have qq : LedF c e0 c1 := q.left sa0
        clear q
        dsimp only at he
        subst he
        dsimp only
        obtain ⟨k1, k2⟩ := handlePoll2Result_same c1 (.error e)
        obtain ⟨d, r, i, rfl⟩ := hk
        have kd := handlePoll2Result_kills c1 (.error (.goAway d r i)) (Or.inr ⟨d, r, i, rfl⟩)
        rcases h2 : c1.handlePoll2Result (.error (.goAway d r i)) with ⟨c2, r2⟩
        rw [h2] at k1 k2 kd
        dsimp only at k1 k2 kd
        have q2 : LedF c e0 c2 := qq.right ⟨by rw [k1], by rw [k2]⟩
        cases r2 with
        | error e => exact Or.inr ⟨kd, q2⟩
        | ok u =>
          dsimp only
          obtain ⟨i1, i2, i3⟩ := protoPollT_dead fuel c2 kd
          exact Or.inr ⟨i2, q2.append_quiet i1 i3⟩
    | closing reason init =>
      dsimp only
      rcases h2 : shutdownW c.codec.w c.codec.io c.cx with ⟨w, io, r⟩
      dsimp only
      cases r with
      | pending => exact Or.inl (Led.of_same rfl rfl rfl rfl rfl rfl)
      | err k => exact Or.inl (Led.of_same rfl rfl rfl rfl rfl rfl)
      | ready =>
        dsimp only
        have := protoPollT_spec fuel { c with codec := { c.codec with w := w, io := io }, state := .closed reason init }
        rcases this with h | ⟨hd, h⟩
        · exact Or.inl (h.left ⟨rfl, rfl⟩)
        · exact Or.inr ⟨hd, h.left ⟨rfl, rfl⟩⟩
    | closed reason init =>
      dsimp only
      rw [takeError_fst]
      exact Or.inl (Led.of_same rfl rfl rfl rfl rfl rfl)

end H2V.Lemmas.ConnCtlP
