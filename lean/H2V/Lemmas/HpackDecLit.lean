import H2V.Lemmas.HpackDecInt
import H2V.Lemmas.HpackDecTable
/-
  String literals (`try_decode_string`) and literal field representations (`decode_literal`):
  shape of what is consumed, behaviour under extension of the buffer, agreement with the reference
  (`Spec.Hpack.str`, `Spec.Hpack.literal`), and the errors that can come out.
-/
namespace H2V.Lemmas.HpackDec
open H2V H2V.Model.Hpack H2V.Generated.Static

/-- the statement proved in `H2V.Lemmas.Huffman` (`decode_eq_spec`), taken as a hypothesis here -/
def HuffSpec : Prop :=
  ∀ bs : Bytes, Bytes.Valid bs →
    Model.Huffman.decode bs =
      (match Spec.Huffman.decode bs with | some out => Res.ok out | none => Res.err ())

/-- errors that exist only in the model (`fuel`, `panic`), never in the Rust -/
def _root_.H2V.Model.Hpack.DErr.isModelOnly : DErr → Bool
  | .fuel => true
  | .panic => true
  | _ => false

/-! ### `Header::new` / `Name::into_entry` only ever reject -/

theorem mkHeader_ok (name value : Bytes) (h : Header) (hk : mkHeader name value = .ok h) :
    h = (name, value) := by
  unfold mkHeader at hk
  repeat' split at hk
  all_goals first | cases hk; rfl | cases hk

theorem mkHeader_err (name value : Bytes) (e : DErr) (hk : mkHeader name value = .error e) :
    e = .invalidUtf8 ∨ e = .invalidPseudoheader := by
  unfold mkHeader at hk
  repeat' split at hk
  all_goals first | (cases hk; simp) | cases hk

theorem intoEntry_ok (name value : Bytes) (h : Header) (hk : intoEntry name value = .ok h) :
    h = (name, value) := by
  unfold intoEntry at hk
  repeat' split at hk
  all_goals first | cases hk; rfl | cases hk

theorem intoEntry_err (name value : Bytes) (e : DErr) (hk : intoEntry name value = .error e) :
    e = .invalidUtf8 ∨ e = .invalidStatusCode := by
  unfold intoEntry at hk
  repeat' split at hk
  all_goals first | (cases hk; simp) | cases hk

/-! ### `try_decode_string` -/

theorem decodeString_shape (buf s rest : Bytes) (raw : Bool)
    (h : decodeString buf = .ok (s, rest, raw)) : ∃ pre, buf = pre ++ rest ∧ 1 ≤ pre.length := by
  unfold decodeString at h
  cases buf with
  | nil => cases h
  | cons hdr tl =>
    simp only at h
    split at h
    · cases h
    · rename_i len rest0 hd
      obtain ⟨pre, hpre, hl, -⟩ := decodeInt_shape _ _ _ _ hd
      have key : ∃ pre', hdr :: tl = pre' ++ rest0.drop len ∧ 1 ≤ pre'.length :=
        ⟨pre ++ rest0.take len, by rw [List.append_assoc, List.take_append_drop]; exact hpre,
          by simp only [List.length_append]; omega⟩
      split at h
      · cases h
      · split at h
        · split at h
          · simp only [Except.ok.injEq, Prod.mk.injEq] at h
            rw [← h.2.1]; exact key
          · cases h
          · cases h
        · simp only [Except.ok.injEq, Prod.mk.injEq] at h
          rw [← h.2.1]; exact key

theorem decodeString_length (buf s rest : Bytes) (raw : Bool)
    (h : decodeString buf = .ok (s, rest, raw)) : rest.length < buf.length := by
  obtain ⟨pre, hpre, hl⟩ := decodeString_shape _ _ _ _ h
  rw [hpre, List.length_append]; omega

theorem decodeString_valid_rest (buf s rest : Bytes) (raw : Bool) (hv : Bytes.Valid buf)
    (h : decodeString buf = .ok (s, rest, raw)) : Bytes.Valid rest := by
  obtain ⟨pre, hpre, hl⟩ := decodeString_shape _ _ _ _ h
  rw [hpre] at hv; exact (Valid_append.1 hv).2

theorem decodeString_append_ok (buf s rest ext : Bytes) (raw : Bool)
    (h : decodeString buf = .ok (s, rest, raw)) :
    decodeString (buf ++ ext) = .ok (s, rest ++ ext, raw) := by
  unfold decodeString at h ⊢
  cases buf with
  | nil => cases h
  | cons hdr tl =>
    simp only [List.cons_append] at h ⊢
    split at h
    · cases h
    · rename_i len rest0 hd
      have hd' := decodeInt_append_ok _ _ _ _ ext hd
      simp only [List.cons_append] at hd'
      rw [hd']
      simp only
      split at h
      · cases h
      · rename_i hlen
        rw [if_neg (by simp only [List.length_append]; omega)]
        rw [List.take_append_of_le_length (by omega), List.drop_append_of_le_length (by omega)]
        split at h
        · rename_i hh
          rw [if_pos hh]
          split at h
          · rename_i s' hs
            simp only [Except.ok.injEq, Prod.mk.injEq] at h ⊢
            exact ⟨h.1, by rw [h.2.1], h.2.2⟩
          · cases h
          · cases h
        · rename_i hh
          rw [if_neg hh]
          simp only [Except.ok.injEq, Prod.mk.injEq] at h ⊢
          exact ⟨h.1, by rw [h.2.1], h.2.2⟩

theorem decodeString_append_err (buf ext : Bytes) (e : DErr) (hn : e.isNeedMore = false)
    (h : decodeString buf = .error e) :
    decodeString (buf ++ ext) = .error e := by
  unfold decodeString at h ⊢
  cases buf with
  | nil => cases h; simp [DErr.isNeedMore] at hn
  | cons hdr tl =>
    simp only [List.cons_append] at h ⊢
    split at h
    · rename_i e' hd
      cases h
      have hd' := decodeInt_append_err _ _ _ ext hn hd
      simp only [List.cons_append] at hd'
      rw [hd']
    · rename_i len rest0 hd
      have hd' := decodeInt_append_ok _ _ _ _ ext hd
      simp only [List.cons_append] at hd'
      rw [hd']
      simp only
      split at h
      · cases h; simp [DErr.isNeedMore] at hn
      · rename_i hlen
        rw [if_neg (by simp only [List.length_append]; omega)]
        rw [List.take_append_of_le_length (by omega), List.drop_append_of_le_length (by omega)]
        split at h
        · rename_i hh
          rw [if_pos hh]
          split at h
          · cases h
          · exact h
          · exact h
        · cases h

/-- the decoded string is the RFC 7541 §5.2 string literal -/
theorem decodeString_sound (hHuff : HuffSpec) (buf s rest : Bytes) (raw : Bool)
    (hv : Bytes.Valid buf) (h : decodeString buf = .ok (s, rest, raw)) :
    Spec.Hpack.str buf = .ok (s, rest) := by
  unfold decodeString at h
  cases buf with
  | nil => cases h
  | cons hdr tl =>
    simp only at h
    simp only [Spec.Hpack.str]
    split at h
    · cases h
    · rename_i len rest0 hd
      rw [decodeInt_sound _ _ _ _ hv hd]
      simp only
      obtain ⟨pre, hpre, -⟩ := decodeInt_shape _ _ _ _ hd
      have hv0 : Bytes.Valid rest0 := by
        rw [hpre] at hv; exact (Valid_append.1 hv).2
      have hb := and128_eq_128_iff hdr (Valid_cons.1 hv).1
      split at h
      · cases h
      · rename_i hlen
        rw [if_neg hlen]
        split at h
        · rename_i hh
          rw [if_pos (hb.1 hh)]
          have hH := hHuff (rest0.take len) (Valid_take _ hv0)
          split at h
          · rename_i s' hs
            rw [hs] at hH
            cases hsp : Spec.Huffman.decode (rest0.take len) with
            | none => rw [hsp] at hH; cases hH
            | some out =>
              rw [hsp] at hH
              simp only [Res.ok.injEq] at hH
              simp only [Except.ok.injEq, Prod.mk.injEq] at h ⊢
              exact ⟨by rw [← hH, h.1], h.2.1⟩
          · cases h
          · cases h
        · rename_i hh
          rw [if_neg (fun hc => hh (hb.2 hc))]
          simp only [Except.ok.injEq, Prod.mk.injEq] at h ⊢
          exact ⟨h.1, h.2.1⟩

/-- the errors of `try_decode_string`; with the Huffman theorem the model-only `fuel` is excluded -/
theorem decodeString_err (hHuff : HuffSpec) (buf : Bytes) (e : DErr)
    (hv : Bytes.Valid buf) (h : decodeString buf = .error e) :
    e.isModelOnly = false := by
  unfold decodeString at h
  cases buf with
  | nil => cases h; rfl
  | cons hdr tl =>
    simp only at h
    split at h
    · rename_i e' hd
      cases h
      rcases decodeInt_err _ _ _ (by decide) hd with rfl | rfl <;> rfl
    · rename_i len rest0 hd
      obtain ⟨pre, hpre, -⟩ := decodeInt_shape _ _ _ _ hd
      have hv0 : Bytes.Valid rest0 := by
        rw [hpre] at hv; exact (Valid_append.1 hv).2
      split at h
      · cases h; rfl
      · split at h
        · have hH := hHuff (rest0.take len) (Valid_take _ hv0)
          split at h
          · cases h
          · cases h; rfl
          · rename_i hs
            rw [hs] at hH
            cases hsp : Spec.Huffman.decode (rest0.take len) <;> rw [hsp] at hH <;> cases hH
        · cases h

/-! ### `decode_literal` -/

theorem decodeLiteral_length (t : Table) (buf rest : Bytes) (index : Bool) (h : Header)
    (hk : decodeLiteral t buf index = .ok (h, rest)) : rest.length < buf.length := by
  unfold decodeLiteral at hk
  split at hk
  · cases hk
  · rename_i idx rest0 hd
    have h0 := decodeInt_length _ _ _ _ hd
    split at hk
    · split at hk
      · cases hk
      · rename_i name rest1 nameRaw hs1
        have h1 := decodeString_length _ _ _ _ hs1
        split at hk
        · cases hk
        · rename_i value rest2 valueRaw hs2
          have h2 := decodeString_length _ _ _ _ hs2
          split at hk
          · cases hk
          · simp only [Except.ok.injEq, Prod.mk.injEq] at hk
            rw [← hk.2]; omega
    · split at hk
      · cases hk
      · split at hk
        · cases hk
        · rename_i value rest1 valueRaw hs1
          have h1 := decodeString_length _ _ _ _ hs1
          split at hk
          · cases hk
          · simp only [Except.ok.injEq, Prod.mk.injEq] at hk
            rw [← hk.2]; omega

/-- D (the NOTE of the task) — a `NeedMore` error of `decode_literal` always leaves the whole
    representation in the buffer: the only errors raised after a raw string has been split off
    are those of `Header::new` / `into_entry`, which are never `NeedMore` -/
theorem decodeLiteral_needMore_tail (t : Table) (buf tl : Bytes) (index : Bool) (e : DErr)
    (hk : decodeLiteral t buf index = .error (e, tl)) (hn : e.isNeedMore = true) : tl = buf := by
  unfold decodeLiteral at hk
  split at hk
  · cases hk; rfl
  · split at hk
    · split at hk
      · cases hk; rfl
      · split at hk
        · cases hk; rfl
        · split at hk
          · rename_i e' hm
            cases hk
            rcases mkHeader_err _ _ _ hm with rfl | rfl <;> simp [DErr.isNeedMore] at hn
          · cases hk
    · split at hk
      · cases hk; rfl
      · split at hk
        · cases hk; rfl
        · split at hk
          · rename_i e' hm
            cases hk
            rcases intoEntry_err _ _ _ hm with rfl | rfl <;> simp [DErr.isNeedMore] at hn
          · cases hk

theorem decodeLiteral_append_ok (t : Table) (buf rest ext : Bytes) (index : Bool) (h : Header)
    (hk : decodeLiteral t buf index = .ok (h, rest)) :
    decodeLiteral t (buf ++ ext) index = .ok (h, rest ++ ext) := by
  unfold decodeLiteral at hk ⊢
  split at hk
  · cases hk
  · rename_i idx rest0 hd
    rw [decodeInt_append_ok _ _ _ _ ext hd]
    simp only
    split at hk
    · rename_i hz
      rw [if_pos hz]
      split at hk
      · cases hk
      · rename_i name rest1 nameRaw hs1
        rw [decodeString_append_ok _ _ _ ext _ hs1]
        simp only
        split at hk
        · cases hk
        · rename_i value rest2 valueRaw hs2
          rw [decodeString_append_ok _ _ _ ext _ hs2]
          simp only
          split at hk
          · cases hk
          · rename_i h' hm
            simp only [Except.ok.injEq, Prod.mk.injEq] at hk ⊢
            exact ⟨hk.1, by rw [hk.2]⟩
    · rename_i hz
      rw [if_neg hz]
      split at hk
      · cases hk
      · rename_i ent hg
        split at hk
        · cases hk
        · rename_i value rest1 valueRaw hs1
          rw [decodeString_append_ok _ _ _ ext _ hs1]
          simp only
          split at hk
          · cases hk
          · rename_i h' hm
            simp only [Except.ok.injEq, Prod.mk.injEq] at hk ⊢
            exact ⟨hk.1, by rw [hk.2]⟩

theorem decodeLiteral_append_err (t : Table) (buf tl ext : Bytes) (index : Bool) (e : DErr)
    (hn : e.isNeedMore = false)
    (hk : decodeLiteral t buf index = .error (e, tl)) :
    decodeLiteral t (buf ++ ext) index = .error (e, tl ++ ext) := by
  unfold decodeLiteral at hk ⊢
  split at hk
  · rename_i e' hd
    cases hk
    rw [decodeInt_append_err _ _ _ ext hn hd]
  · rename_i idx rest0 hd
    rw [decodeInt_append_ok _ _ _ _ ext hd]
    simp only
    split at hk
    · rename_i hz
      rw [if_pos hz]
      split at hk
      · rename_i e' hs1
        cases hk
        rw [decodeString_append_err _ ext _ hn hs1]
      · rename_i name rest1 nameRaw hs1
        rw [decodeString_append_ok _ _ _ ext _ hs1]
        simp only
        split at hk
        · rename_i e' hs2
          cases hk
          rw [decodeString_append_err _ ext _ hn hs2]
        · rename_i value rest2 valueRaw hs2
          rw [decodeString_append_ok _ _ _ ext _ hs2]
          simp only
          split at hk
          · rename_i e' hm
            cases hk
            simp only [Except.error.injEq, Prod.mk.injEq, true_and]
            cases valueRaw <;> cases nameRaw <;> rfl
          · cases hk
    · rename_i hz
      rw [if_neg hz]
      split at hk
      · rename_i e' hg
        cases hk
        rfl
      · rename_i ent hg
        split at hk
        · rename_i e' hs1
          cases hk
          rw [decodeString_append_err _ ext _ hn hs1]
        · rename_i value rest1 valueRaw hs1
          rw [decodeString_append_ok _ _ _ ext _ hs1]
          simp only
          split at hk
          · rename_i e' hm
            cases hk
            simp only [Except.error.injEq, Prod.mk.injEq, true_and]
            cases valueRaw <;> rfl
          · cases hk

theorem Table.get_err (t : Table) (i : Nat) (e : DErr) (h : t.get i = .error e) :
    e = .invalidTableIndex := by
  unfold Table.get at h
  repeat' split at h
  all_goals first | (cases h; rfl) | cases h

/-- the errors of `decode_literal` are Rust errors (never the model-only `fuel`/`panic`) -/
theorem decodeLiteral_err (hHuff : HuffSpec) (t : Table) (buf tl : Bytes) (index : Bool) (e : DErr)
    (hv : Bytes.Valid buf)
    (hk : decodeLiteral t buf index = .error (e, tl)) : e.isModelOnly = false := by
  unfold decodeLiteral at hk
  split at hk
  · rename_i e' hd
    cases hk
    rcases decodeInt_err _ _ _ (by cases index <;> decide) hd with rfl | rfl <;> rfl
  · rename_i idx rest0 hd
    obtain ⟨pre, hpre, -⟩ := decodeInt_shape _ _ _ _ hd
    have hv0 : Bytes.Valid rest0 := by
      rw [hpre] at hv; exact (Valid_append.1 hv).2
    split at hk
    · split at hk
      · rename_i e' hs1
        cases hk
        exact decodeString_err hHuff _ _ hv0 hs1
      · rename_i name rest1 nameRaw hs1
        have hv1 : Bytes.Valid rest1 := decodeString_valid_rest _ _ _ _ hv0 hs1
        split at hk
        · rename_i e' hs2
          cases hk
          exact decodeString_err hHuff _ _ hv1 hs2
        · split at hk
          · rename_i e' hm
            cases hk
            rcases mkHeader_err _ _ _ hm with rfl | rfl <;> rfl
          · cases hk
    · split at hk
      · rename_i e' hg
        cases hk
        rw [Table.get_err _ _ _ hg]; rfl
      · split at hk
        · rename_i e' hs1
          cases hk
          exact decodeString_err hHuff _ _ hv0 hs1
        · split at hk
          · rename_i e' hm
            cases hk
            rcases intoEntry_err _ _ _ hm with rfl | rfl <;> rfl
          · cases hk

theorem decodeLiteral_shape (t : Table) (buf rest : Bytes) (index : Bool) (h : Header)
    (hk : decodeLiteral t buf index = .ok (h, rest)) : ∃ pre, buf = pre ++ rest ∧ 1 ≤ pre.length := by
  unfold decodeLiteral at hk
  split at hk
  · cases hk
  · rename_i idx rest0 hd
    obtain ⟨p0, e0, l0, -⟩ := decodeInt_shape _ _ _ _ hd
    split at hk
    · split at hk
      · cases hk
      · rename_i name rest1 nameRaw hs1
        obtain ⟨p1, e1, l1⟩ := decodeString_shape _ _ _ _ hs1
        split at hk
        · cases hk
        · rename_i value rest2 valueRaw hs2
          obtain ⟨p2, e2, l2⟩ := decodeString_shape _ _ _ _ hs2
          split at hk
          · cases hk
          · simp only [Except.ok.injEq, Prod.mk.injEq] at hk
            rw [← hk.2]
            exact ⟨p0 ++ p1 ++ p2, by rw [e0, e1, e2]; simp, by simp only [List.length_append]; omega⟩
    · split at hk
      · cases hk
      · split at hk
        · cases hk
        · rename_i value rest1 valueRaw hs1
          obtain ⟨p1, e1, l1⟩ := decodeString_shape _ _ _ _ hs1
          split at hk
          · cases hk
          · simp only [Except.ok.injEq, Prod.mk.injEq] at hk
            rw [← hk.2]
            exact ⟨p0 ++ p1, by rw [e0, e1]; simp, by simp only [List.length_append]; omega⟩

theorem decodeLiteral_valid_rest (t : Table) (buf rest : Bytes) (index : Bool) (h : Header)
    (hv : Bytes.Valid buf)
    (hk : decodeLiteral t buf index = .ok (h, rest)) : Bytes.Valid rest := by
  obtain ⟨pre, hpre, hl⟩ := decodeLiteral_shape _ _ _ _ _ hk
  rw [hpre] at hv; exact (Valid_append.1 hv).2

theorem decodeInt_valid_rest (buf : Bytes) (p v : Nat) (rest : Bytes) (hv : Bytes.Valid buf)
    (h : decodeInt buf p = .ok (v, rest)) : Bytes.Valid rest := by
  obtain ⟨pre, hpre, -⟩ := decodeInt_shape _ _ _ _ h
  rw [hpre] at hv; exact (Valid_append.1 hv).2

/-- C — a literal representation accepted by `decode_literal` is the one the reference reads:
    `Header::new` / `into_entry` only reject -/
theorem decodeLiteral_sound (hHuff : HuffSpec) (t : Table) (st : Spec.Hpack.St)
    (he : st.entries = t.entries) (buf rest : Bytes) (index : Bool) (h : Header)
    (hv : Bytes.Valid buf)
    (hk : decodeLiteral t buf index = .ok (h, rest)) :
    Spec.Hpack.literal st (if index then 6 else 4) buf = .ok (h, rest) := by
  unfold decodeLiteral at hk
  unfold Spec.Hpack.literal
  split at hk
  · cases hk
  · rename_i idx rest0 hd
    rw [decodeInt_sound _ _ _ _ hv hd]
    have hv0 := decodeInt_valid_rest _ _ _ _ hv hd
    simp only
    split at hk
    · rename_i hz
      rw [if_pos hz]
      split at hk
      · cases hk
      · rename_i name rest1 nameRaw hs1
        rw [decodeString_sound hHuff _ _ _ _ hv0 hs1]
        have hv1 := decodeString_valid_rest _ _ _ _ hv0 hs1
        simp only
        split at hk
        · cases hk
        · rename_i value rest2 valueRaw hs2
          rw [decodeString_sound hHuff _ _ _ _ hv1 hs2]
          simp only
          split at hk
          · cases hk
          · rename_i h' hm
            simp only [Except.ok.injEq, Prod.mk.injEq] at hk ⊢
            rw [← hk.1, mkHeader_ok _ _ _ hm]
            exact ⟨rfl, hk.2⟩
    · rename_i hz
      rw [if_neg hz]
      split at hk
      · cases hk
      · rename_i ent hg
        have hl := get_eq_lookup t st idx he
        rw [hg] at hl
        split at hl
        · rename_i ent' hlk
          cases hl
          split at hk
          · cases hk
          · rename_i value rest1 valueRaw hs1
            rw [decodeString_sound hHuff _ _ _ _ hv0 hs1]
            simp only
            split at hk
            · cases hk
            · rename_i h' hm
              simp only [Except.ok.injEq, Prod.mk.injEq] at hk ⊢
              rw [← hk.1, intoEntry_ok _ _ _ hm, hlk, hk.2]
        · cases hl

end H2V.Lemmas.HpackDec
