import H2V.Lemmas.ConnWakePGood
/-
  ConnWakeP, part 15 — GENERATED from `ConnWakePStepSend/Recv/Streams.lean` (statements with `Good` in
  place of `Step cx s0`, proofs unchanged): every non-`poll_*` function of the stream layer keeps the
  store invariant `Good`.
-/
namespace H2V.Lemmas.ConnWakeP
open H2V H2V.Model H2V.Model.Conn

section
variable {s : Streams}


@[grind ←] theorem qPush_good (q : QName) (k : Nat) (h : Good s) : Good (s.qPush q k).1 := by
  unfold Streams.qPush; step_grind
@[grind ←] theorem qPushFront_good (q : QName) (k : Nat) (h : Good s) : Good (s.qPushFront q k).1 := by
  unfold Streams.qPushFront; step_grind
@[grind ←] theorem qPop_good (q : QName) (h : Good s) : Good (s.qPop q).1 := by
  unfold Streams.qPop; step_grind
@[grind ←] theorem incNumSendStreams_good (k : Nat) (h : Good s) : Good (s.incNumSendStreams k) := by
  unfold Streams.incNumSendStreams; step_grind
@[grind ←] theorem incNumRecvStreams_good (k : Nat) (h : Good s) : Good (s.incNumRecvStreams k) := by
  unfold Streams.incNumRecvStreams; step_grind
@[grind ←] theorem decNumStreams_good (k : Nat) (h : Good s) : Good (s.decNumStreams k) := by
  unfold Streams.decNumStreams; step_grind
@[grind ←] theorem transitionAfter_good (k : Nat) (b : Bool) (h : Good s) : Good (s.transitionAfter k b) := by
  unfold Streams.transitionAfter; step_grind

-- ===================================================================== prioritize.rs
@[grind ←] theorem scheduleSend_good (k : Nat) (h : Good s) : Good (s.scheduleSend k) := by
  unfold Streams.scheduleSend; step_grind
@[grind ←] theorem queueFrame_good (k : Nat) (f : SFrame) (h : Good s) : Good (s.queueFrame k f) := by
  unfold Streams.queueFrame; step_grind
@[grind ←] theorem queueOpen_good (k : Nat) (h : Good s) : Good (s.queueOpen k) := by
  unfold Streams.queueOpen; step_grind
@[grind ←] theorem tryAssignCapacity_good (k : Nat) (h : Good s) : Good (s.tryAssignCapacity k) := by
  unfold Streams.tryAssignCapacity; step_grind
@[grind ←] theorem assignConnectionCapacityLoop_good (n : Nat) (h : Good s) :
    Good (Streams.assignConnectionCapacityLoop n s) := by
  induction n generalizing s with
  | zero => unfold Streams.assignConnectionCapacityLoop; exact h
  | succ n ih => unfold Streams.assignConnectionCapacityLoop; step_grind
@[grind ←] theorem assignConnectionCapacity_good (inc : Nat) (h : Good s) : Good (s.assignConnectionCapacity inc) := by
  unfold Streams.assignConnectionCapacity; step_grind
@[grind ←] theorem reserveCapacity_good (k c : Nat) (h : Good s) : Good (s.reserveCapacity k c) := by
  unfold Streams.reserveCapacity; step_grind

@[grind ←] theorem prioSendData_good (k len : Nat) (eos : Bool) (h : Good s) : Good (s.prioSendData k len eos).1 := by
  unfold Streams.prioSendData; step_grind
@[grind ←] theorem prioRecvStreamWindowUpdate_good (k inc : Nat) (h : Good s) :
    Good (s.prioRecvStreamWindowUpdate k inc).1 := by
  unfold Streams.prioRecvStreamWindowUpdate; step_grind
@[grind ←] theorem recvConnectionWindowUpdate_good (inc : Nat) (h : Good s) :
    Good (s.recvConnectionWindowUpdate inc).1 := by
  unfold Streams.recvConnectionWindowUpdate; step_grind
@[grind ←] theorem reclaimAllCapacity_good (k : Nat) (h : Good s) : Good (s.reclaimAllCapacity k) := by
  unfold Streams.reclaimAllCapacity; step_grind
@[grind ←] theorem reclaimReservedCapacity_good (k : Nat) (h : Good s) : Good (s.reclaimReservedCapacity k) := by
  unfold Streams.reclaimReservedCapacity; step_grind
@[grind ←] theorem clearPendingCapacity_good (n : Nat) (h : Good s) : Good (Streams.clearPendingCapacity n s) := by
  induction n generalizing s with
  | zero => unfold Streams.clearPendingCapacity; exact h
  | succ n ih => unfold Streams.clearPendingCapacity; step_grind
@[grind ←] theorem clearQueue_good (k : Nat) (h : Good s) : Good (s.clearQueue k) := by
  unfold Streams.clearQueue; step_grind
@[grind ←] theorem clearPendingSend_good (n : Nat) (h : Good s) : Good (Streams.clearPendingSend n s) := by
  induction n generalizing s with
  | zero => unfold Streams.clearPendingSend; exact h
  | succ n ih => unfold Streams.clearPendingSend; step_grind
@[grind ←] theorem clearPendingOpen_good (n : Nat) (h : Good s) : Good (Streams.clearPendingOpen n s) := by
  induction n generalizing s with
  | zero => unfold Streams.clearPendingOpen; exact h
  | succ n ih => unfold Streams.clearPendingOpen; step_grind
@[grind ←] theorem popPendingOpen_good (h : Good s) : Good s.popPendingOpen.1 := by
  unfold Streams.popPendingOpen; step_grind
@[grind ←] theorem reclaimFrameInner_good (f : DataFrame) (h : Good s) : Good (s.reclaimFrameInner f).1 := by
  unfold Streams.reclaimFrameInner; step_grind
@[grind ←] theorem reclaimFrame_good (w : Writer) (h : Good s) : Good (s.reclaimFrame w).1 := by
  unfold Streams.reclaimFrame; step_grind
@[grind ←] theorem bufferOut_good (w : Writer) (f : Streams.OutFrame) (h : Good s) : Good (s.bufferOut w f).1 := by
  unfold Streams.bufferOut; step_grind

@[grind ←] theorem pfFinish_good (k : Nat) (b : Bool) (f : Streams.OutFrame) (h : Good s) :
    Good (pfFinish k b s f).1 := by
  unfold pfFinish; step_grind

theorem pfData_good (sd : Stream → Nat → Nat → Stream × List String × Bool)
    (hsd : ∀ a len m, ∃ b w f, sd a len m = (b, w, f) ∧ SStep w a b) (k len : Nat) (rest : List SFrame)
    (h : Good s) : Good (pfData sd s k len rest) := by
  unfold pfData
  obtain ⟨b, w, f, hb, hs⟩ := hsd ((s.modStream k fun st => { st with pendingSend := rest }).stream k) len
    (s.modStream k fun st => { st with pendingSend := rest }).prio.maxBufferSize
  simp only [hb]
  clear hsd hb
  step_grind

theorem popFrameC_good (sd : Stream → Nat → Nat → Stream × List String × Bool)
    (hsd : ∀ a len m, ∃ b w f, sd a len m = (b, w, f) ∧ SStep w a b) (n m : Nat) (h : Good s) :
    Good (popFrameC sd n s m).1 := by
  induction n generalizing s with
  | zero => rw [popFrameC_zero]; exact h
  | succ n ih =>
    rw [popFrameC_succ]
    have hd : ∀ {s : Streams} (k len : Nat) (rest : List SFrame), Good s → Good (pfData sd s k len rest) :=
      fun k len rest h => pfData_good sd hsd k len rest h
    clear hsd
    step_grind

@[grind ←] theorem popFrame_good (n m : Nat) (h : Good s) : Good (Streams.popFrame n s m).1 := by
  rw [popFrameC.eq]; exact popFrameC_good _ sendData_sstep n m h

@[grind ←] theorem prioBufferPendingLoop_good (n : Nat) (w : Writer) (h : Good s) :
    Good (Streams.prioBufferPendingLoop n s w).1 := by
  induction n generalizing s w with
  | zero => unfold Streams.prioBufferPendingLoop; step_grind
  | succ n ih => unfold Streams.prioBufferPendingLoop; step_grind
@[grind ←] theorem prioBufferPending_good (n : Nat) (w : Writer) (h : Good s) :
    Good (Streams.prioBufferPending n s w).1 := by
  unfold Streams.prioBufferPending; step_grind

-- ===================================================================== send.rs
@[grind ←] theorem sendOpenId_good (h : Good s) : Good s.sendOpenId.1 := by
  unfold Streams.sendOpenId; step_grind
@[grind ←] theorem sendHeaders_good (k : Nat) (eos : Bool) (f : List Hpack.Field) (h : Good s) :
    Good (s.sendHeaders k eos f).1 := by
  unfold Streams.sendHeaders; step_grind
@[grind ←] theorem sendReserveLocal_good (h : Good s) : Good s.sendReserveLocal.1 := by
  unfold Streams.sendReserveLocal; step_grind
@[grind ←] theorem sendPushPromise_good (p pk pid : Nat) (f : List Hpack.Field) (h : Good s) :
    Good (s.sendPushPromise p pk pid f).1 := by
  unfold Streams.sendPushPromise; step_grind
@[grind ←] theorem sendInterimInformationalHeaders_good (k : Nat) (f : List Hpack.Field) (h : Good s) :
    Good (s.sendInterimInformationalHeaders k f).1 := by
  unfold Streams.sendInterimInformationalHeaders; step_grind
@[grind ←] theorem sendSendReset_good (k : Nat) (r : Reason) (i : Initiator) (h : Good s) :
    Good (s.sendSendReset k r i) := by
  unfold Streams.sendSendReset; step_grind
@[grind ←] theorem scheduleImplicitReset_good (k : Nat) (r : Reason) (h : Good s) :
    Good (s.scheduleImplicitReset k r) := by
  unfold Streams.scheduleImplicitReset; step_grind
@[grind ←] theorem sendTrailers_good (k : Nat) (f : List Hpack.Field) (h : Good s) :
    Good (s.sendTrailers k f).1 := by
  unfold Streams.sendTrailers; step_grind
@[grind ←] theorem sendRecvStreamWindowUpdate_good (k sz : Nat) (h : Good s) :
    Good (s.sendRecvStreamWindowUpdate k sz).1 := by
  unfold Streams.sendRecvStreamWindowUpdate; step_grind
@[grind ←] theorem sendRecvGoAway_good (l : Nat) (h : Good s) : Good (s.sendRecvGoAway l).1 := by
  unfold Streams.sendRecvGoAway; step_grind
@[grind ←] theorem sendHandleError_good (k : Nat) (h : Good s) : Good (s.sendHandleError k) := by
  unfold Streams.sendHandleError; step_grind

theorem tryForEach_good (f : Streams → Nat → Streams × Option PErr)
    (hf : ∀ {s : Streams} (k : Nat), Good s → Good (f s k).1) (n i len : Nat) (h : Good s) :
    Good (Streams.tryForEach f n i len s).1 := by
  induction n generalizing s i len with
  | zero => unfold Streams.tryForEach; exact h
  | succ n ih => unfold Streams.tryForEach; step_grind
theorem storeTryForEach_good (f : Streams → Nat → Streams × Option PErr)
    (hf : ∀ {s : Streams} (k : Nat), Good s → Good (f s k).1) (h : Good s) :
    Good (s.storeTryForEach f).1 := by
  unfold Streams.storeTryForEach; exact tryForEach_good f hf _ _ _ h
theorem storeForEach_good (f : Streams → Nat → Streams)
    (hf : ∀ {s : Streams} (k : Nat), Good s → Good (f s k)) (h : Good s) :
    Good (s.storeForEach f) := by
  unfold Streams.storeForEach; exact storeTryForEach_good _ (fun k h => hf k h) h
@[grind ←] theorem decStreamWindow_good (dec acc k : Nat) (h : Good s) :
    Good (Streams.decStreamWindow dec acc s k).1 := by
  unfold Streams.decStreamWindow; step_grind
theorem tryForEachAcc_good (f : Nat → Streams → Nat → Streams × Nat × Option PErr)
    (hf : ∀ {s : Streams} (a k : Nat), Good s → Good (f a s k).1) (n i len acc : Nat) (h : Good s) :
    Good (Streams.tryForEachAcc f n i len acc s).1 := by
  induction n generalizing s i len acc with
  | zero => unfold Streams.tryForEachAcc; exact h
  | succ n ih => unfold Streams.tryForEachAcc; step_grind
@[grind ←] theorem sendApplyRemoteSettings_good (a b c : Option Nat) (h : Good s) :
    Good (s.sendApplyRemoteSettings a b c).1 := by
  unfold Streams.sendApplyRemoteSettings
  have h1 := @tryForEachAcc_good
  have h2 := @storeTryForEach_good
  step_grind
@[grind ←] theorem sendClearQueues_good (h : Good s) : Good s.sendClearQueues := by
  unfold Streams.sendClearQueues; step_grind
@[grind ←] theorem sendMaybeResetNextStreamId_good (k : Nat) (h : Good s) :
    Good (s.sendMaybeResetNextStreamId k) := by
  unfold Streams.sendMaybeResetNextStreamId; step_grind

-- ===================================================================== recv.rs
@[grind ←] theorem releaseConnectionCapacity_good (c : Nat) (u : Bool) (h : Good s) :
    Good (s.releaseConnectionCapacity c u) := by
  unfold Streams.releaseConnectionCapacity; step_grind
@[grind ←] theorem releaseCapacity_good (k c : Nat) (u : Bool) (h : Good s) :
    Good (s.releaseCapacity k c u).1 := by
  unfold Streams.releaseCapacity; step_grind
@[grind ←] theorem clearRecvBuffer_good (k : Nat) (u : Bool) (h : Good s) : Good (s.clearRecvBuffer k u) := by
  unfold Streams.clearRecvBuffer; step_grind
@[grind ←] theorem releaseClosedCapacity_good (k : Nat) (h : Good s) : Good (s.releaseClosedCapacity k) := by
  unfold Streams.releaseClosedCapacity; step_grind
@[grind ←] theorem setTargetConnectionWindow_good (t : Nat) (h : Good s) :
    Good (s.setTargetConnectionWindow t).1 := by
  unfold Streams.setTargetConnectionWindow; step_grind
@[grind ←] theorem applyLocalSettings_good (a b : Option Nat) (h : Good s) : Good (s.applyLocalSettings a b).1 := by
  unfold Streams.applyLocalSettings
  have h2 := @storeTryForEach_good
  step_grind
@[grind ←] theorem consumeConnectionWindow_good (sz : Nat) (h : Good s) : Good (s.consumeConnectionWindow sz).1 := by
  unfold Streams.consumeConnectionWindow; step_grind
@[grind ←] theorem ignoreData_good (sz : Nat) (h : Good s) : Good (s.ignoreData sz).1 := by
  unfold Streams.ignoreData; step_grind
@[grind ←] theorem recvOpen_good (k : Nat) (b : Bool) (h : Good s) : Good (s.recvOpen k b).1 := by
  unfold Streams.recvOpen; step_grind
@[grind ←] theorem notifyPushIfRecvEnded_good (k : Nat) (h : Good s) : Good (s.notifyPushIfRecvEnded k) := by
  unfold Streams.notifyPushIfRecvEnded; step_grind
@[grind ←] theorem recvRecvHeaders_good (k : Nat) (hd : HeadersIn) (h : Good s) : Good (s.recvRecvHeaders k hd).1 := by
  unfold Streams.recvRecvHeaders; step_grind
@[grind ←] theorem recvRecvTrailers_good (k : Nat) (hd : HeadersIn) (h : Good s) : Good (s.recvRecvTrailers k hd).1 := by
  unfold Streams.recvRecvTrailers; step_grind
theorem setStream_good_inert (k : Nat) (b : Stream) (hb : Inert (s.stream k) b) (h : Good s) : Good (s.setStream b) :=
  setStream_good2 k b (hb.sstep []) h
grind_pattern setStream_good_inert => Inert (s.stream k) b, Good (s.setStream b)

@[grind ←] theorem recvRecvData_good (k : Nat) (p : Bytes) (eos : Bool) (pad : Option Nat) (h : Good s) :
    Good (s.recvRecvData k p eos pad).1 := by
  unfold Streams.recvRecvData; step_grind
@[grind ←] theorem recvRecvPushPromise_good (k : Nat) (hd : HeadersIn) (h : Good s) :
    Good (s.recvRecvPushPromise k hd).1 := by
  unfold Streams.recvRecvPushPromise; step_grind
@[grind ←] theorem recvNextIncoming_good (h : Good s) : Good s.recvNextIncoming.1 := by
  unfold Streams.recvNextIncoming; step_grind
@[grind ←] theorem recvTakeRequest_good (k : Nat) (h : Good s) : Good (s.recvTakeRequest k).1 := by
  unfold Streams.recvTakeRequest; step_grind
@[grind ←] theorem recvRecvReset_good (k : Nat) (r : Reason) (h : Good s) : Good (s.recvRecvReset k r).1 := by
  unfold Streams.recvRecvReset; step_grind
@[grind ←] theorem recvHandleError_good (k : Nat) (e : PErr) (h : Good s) : Good (s.recvHandleError k e) := by
  unfold Streams.recvHandleError; step_grind
@[grind ←] theorem recvGoAway_good (l : Nat) (h : Good s) : Good (s.recvGoAway l) := by
  unfold Streams.recvGoAway; step_grind
@[grind ←] theorem recvRecvEof_good (k : Nat) (h : Good s) : Good (s.recvRecvEof k) := by
  unfold Streams.recvRecvEof; step_grind
@[grind ←] theorem recvMaybeResetNextStreamId_good (k : Nat) (h : Good s) :
    Good (s.recvMaybeResetNextStreamId k) := by
  unfold Streams.recvMaybeResetNextStreamId; step_grind
@[grind ←] theorem enqueueResetExpiration_good (k : Nat) (h : Good s) : Good (s.enqueueResetExpiration k) := by
  unfold Streams.enqueueResetExpiration; step_grind
@[grind ←] theorem sendPendingRefusal_good (w : Writer) (h : Good s) : Good (s.sendPendingRefusal w).1 := by
  unfold Streams.sendPendingRefusal; step_grind
@[grind ←] theorem clearExpiredResetStreams_good (n : Nat) (h : Good s) :
    Good (Streams.clearExpiredResetStreams n s) := by
  induction n generalizing s with
  | zero => unfold Streams.clearExpiredResetStreams; exact h
  | succ n ih => unfold Streams.clearExpiredResetStreams; step_grind
@[grind ←] theorem clearStreamWindowUpdateQueue_good (n : Nat) (h : Good s) :
    Good (Streams.clearStreamWindowUpdateQueue n s) := by
  induction n generalizing s with
  | zero => unfold Streams.clearStreamWindowUpdateQueue; exact h
  | succ n ih => unfold Streams.clearStreamWindowUpdateQueue; step_grind
@[grind ←] theorem clearAllResetStreams_good (n : Nat) (h : Good s) : Good (Streams.clearAllResetStreams n s) := by
  induction n generalizing s with
  | zero => unfold Streams.clearAllResetStreams; exact h
  | succ n ih => unfold Streams.clearAllResetStreams; step_grind
@[grind ←] theorem clearAllPendingAccept_good (n : Nat) (h : Good s) : Good (Streams.clearAllPendingAccept n s) := by
  induction n generalizing s with
  | zero => unfold Streams.clearAllPendingAccept; exact h
  | succ n ih => unfold Streams.clearAllPendingAccept; step_grind
@[grind ←] theorem recvClearQueues_good (b : Bool) (h : Good s) : Good (s.recvClearQueues b) := by
  unfold Streams.recvClearQueues; step_grind
@[grind ←] theorem sendConnectionWindowUpdate_good (w : Writer) (h : Good s) :
    Good (s.sendConnectionWindowUpdate w).1 := by
  unfold Streams.sendConnectionWindowUpdate; step_grind
@[grind ←] theorem sendStreamWindowUpdates_good (n : Nat) (w : Writer) (h : Good s) :
    Good (Streams.sendStreamWindowUpdates n s w).1 := by
  induction n generalizing s w with
  | zero => unfold Streams.sendStreamWindowUpdates; exact h
  | succ n ih => unfold Streams.sendStreamWindowUpdates; step_grind
@[grind ←] theorem recvBufferPending_good (w : Writer) (h : Good s) : Good (s.recvBufferPending w).1 := by
  unfold Streams.recvBufferPending; step_grind

theorem transition_good {α : Type} (k : Nat) (f : Streams → Streams × α)
    (hf : ∀ {s' : Streams}, Good s' → Good (f s').1) (h : Good s) :
    Good (s.transition k f).1 := by
  unfold Streams.transition
  exact transitionAfter_good _ _ (hf h)
grind_pattern transition_good => Good (Prod.fst (Streams.transition s k f))

@[grind ←] theorem resetOnRecvStreamErr_good (k : Nat) (r : Except PErr Unit) (h : Good s) :
    Good (s.resetOnRecvStreamErr k r).1 := by
  unfold Streams.resetOnRecvStreamErr; step_grind
@[grind ←] theorem actionsSendReset_good (k : Nat) (r : Reason) (i : Initiator) (h : Good s) :
    Good (s.actionsSendReset k r i).1 := by
  unfold Streams.actionsSendReset; step_grind
@[grind ←] theorem clearQueues_good (b : Bool) (h : Good s) : Good (s.clearQueues b) := by
  unfold Streams.clearQueues; step_grind
@[grind ←] theorem recvHeaders_good (hd : HeadersIn) (h : Good s) : Good (s.recvHeaders hd).1 := by
  unfold Streams.recvHeaders; step_grind
@[grind ←] theorem recvData_good (k : Nat) (p : Bytes) (eos : Bool) (pad : Option Nat) (h : Good s) :
    Good (s.recvData k p eos pad).1 := by
  unfold Streams.recvData; step_grind
@[grind ←] theorem recvReset_good (k : Nat) (r : Reason) (h : Good s) : Good (s.recvReset k r).1 := by
  unfold Streams.recvReset; step_grind
@[grind ←] theorem recvWindowUpdate_good (k inc : Nat) (h : Good s) : Good (s.recvWindowUpdate k inc).1 := by
  unfold Streams.recvWindowUpdate; step_grind
@[grind ←] theorem recvPushPromise_good (k : Nat) (hd : HeadersIn) (h : Good s) :
    Good (s.recvPushPromise k hd).1 := by
  unfold Streams.recvPushPromise; step_grind

theorem errClosure_good (e : PErr) (k : Nat) (h : Good s) :
    Good (s.transition k fun s => ((s.recvHandleError k e).sendHandleError k, ())).1 := by
  step_grind
theorem eofClosure_good (k : Nat) (h : Good s) :
    Good (s.transition k fun s => ((s.recvRecvEof k).sendHandleError k, ())).1 := by
  step_grind

@[grind ←] theorem handleError_good (e : PErr) (h : Good s) : Good (s.handleError e).1 := by
  unfold Streams.handleError
  exact setConnError_good e (storeForEach_good _ (fun k h => errClosure_good e k h) h)
@[grind ←] theorem recvGoAwayFrame_good (l : Nat) (r : Reason) (d : Bytes) (h : Good s) :
    Good (s.recvGoAwayFrame l r d).1 := by
  unfold Streams.recvGoAwayFrame
  split
  · exact (sendRecvGoAway_good l h).of_fst ‹_›
  · next s1 _ heq =>
    have h1 : Good s1 := (sendRecvGoAway_good l h).of_fst heq
    refine setConnError_good _ (storeForEach_good _ (fun k h => ?_) h1)
    dsimp only
    split
    · exact errClosure_good _ k h
    · exact h
@[grind ←] theorem recvEof_good (b : Bool) (h : Good s) : Good (s.recvEof b) := by
  unfold Streams.recvEof
  refine clearQueues_good b (storeForEach_good _ (fun k h => eofClosure_good k h) ?_)
  split
  · exact setConnError_good _ h
  · exact h
@[grind ←] theorem innerSendReset_good (k : Nat) (r : Reason) (h : Good s) : Good (s.innerSendReset k r).1 := by
  unfold Streams.innerSendReset; step_grind
@[grind ←] theorem bufferPending_good (n : Nat) (w : Writer) (h : Good s) :
    Good (Streams.bufferPending n s w).1 := by
  unfold Streams.bufferPending; step_grind
@[grind ←] theorem pollSendPendingRefusal_good (n : Nat) (w : Writer) (io : Tio) (t : String) (h : Good s) :
    Good (Streams.pollSendPendingRefusal n s w io t).1 := by
  induction n generalizing s w io with
  | zero => unfold Streams.pollSendPendingRefusal; exact h
  | succ n ih => unfold Streams.pollSendPendingRefusal; step_grind
@[grind ←] theorem applyRemoteSettings_good (v : List (Nat × Nat)) (b : Bool) (h : Good s) :
    Good (s.applyRemoteSettings v b).1 := by
  unfold Streams.applyRemoteSettings; step_grind
@[grind ←] theorem applyLocalSettingsFrame_good (v : List (Nat × Nat)) (h : Good s) :
    Good (s.applyLocalSettingsFrame v).1 := by
  unfold Streams.applyLocalSettingsFrame; step_grind
@[grind ←] theorem refInc_good (k : Nat) (h : Good s) : Good (s.refInc k) := by
  unfold Streams.refInc; step_grind
@[grind ←] theorem cloneStreamRef_good (k : Nat) (h : Good s) : Good (s.cloneStreamRef k) := by
  unfold Streams.cloneStreamRef; step_grind
@[grind ←] theorem maybeCancel_good (k : Nat) (h : Good s) : Good (s.maybeCancel k) := by
  unfold Streams.maybeCancel; step_grind
theorem cancelPromises_good (l : List Nat) (h : Good s) :
    Good (l.foldl (fun s promise =>
        let s := s.modStream promise fun st => { st with isPendingAccept := false }
        (s.transition promise fun s =>
          let s := s.maybeCancel promise
          (if (s.stream promise).refCount == 0 then s.releaseClosedCapacity promise else s, ())).1) s) := by
  induction l generalizing s with
  | nil => exact h
  | cons p l ih =>
    rw [List.foldl_cons]
    apply ih
    step_grind
@[grind ←] theorem dropStreamRef_good (k : Nat) (h : Good s) : Good (s.dropStreamRef k) := by
  unfold Streams.dropStreamRef
  have hc := @cancelPromises_good
  step_grind
@[grind ←] theorem sendRequest_good (b : Bool) (f : List Hpack.Field) (eos : Bool) (p : Option Nat) (h : Good s) :
    Good (s.sendRequest b f eos p).1 := by
  unfold Streams.sendRequest; step_grind
@[grind ←] theorem nextIncoming_good (h : Good s) : Good s.nextIncoming.1 := by
  unfold Streams.nextIncoming; step_grind
@[grind ←] theorem refSendResponse_good (k : Nat) (f : List Hpack.Field) (eos : Bool) (h : Good s) :
    Good (s.refSendResponse k f eos).1 := by
  unfold Streams.refSendResponse; step_grind
@[grind ←] theorem refSendInformationalHeaders_good (k : Nat) (f : List Hpack.Field) (h : Good s) :
    Good (s.refSendInformationalHeaders k f).1 := by
  unfold Streams.refSendInformationalHeaders; step_grind
@[grind ←] theorem refSendPushPromise_good (k : Nat) (v : Bool) (f : List Hpack.Field) (h : Good s) :
    Good (s.refSendPushPromise k v f).1 := by
  unfold Streams.refSendPushPromise; step_grind
@[grind ←] theorem cloneHandle_good (h : Good s) : Good s.cloneHandle := by
  unfold Streams.cloneHandle; step_grind
@[grind ←] theorem dropHandle_good (h : Good s) : Good s.dropHandle := by
  unfold Streams.dropHandle; step_grind
@[grind ←] theorem refSendData_good (k len : Nat) (eos : Bool) (h : Good s) : Good (s.refSendData k len eos).1 := by
  unfold Streams.refSendData; step_grind
@[grind ←] theorem refSendTrailers_good (k : Nat) (f : List Hpack.Field) (h : Good s) :
    Good (s.refSendTrailers k f).1 := by
  unfold Streams.refSendTrailers; step_grind
@[grind ←] theorem refSendReset_good (k : Nat) (r : Reason) (h : Good s) : Good (s.refSendReset k r) := by
  unfold Streams.refSendReset; step_grind
@[grind ←] theorem refReserveCapacity_good (k c : Nat) (h : Good s) : Good (s.refReserveCapacity k c) := by
  unfold Streams.refReserveCapacity; step_grind
@[grind ←] theorem refReleaseCapacity_good (k c : Nat) (h : Good s) : Good (s.refReleaseCapacity k c).1 := by
  unfold Streams.refReleaseCapacity; step_grind
@[grind ←] theorem refClearRecvBuffer_good (k : Nat) (h : Good s) : Good (s.refClearRecvBuffer k) := by
  unfold Streams.refClearRecvBuffer; step_grind

end
end H2V.Lemmas.ConnWakeP
