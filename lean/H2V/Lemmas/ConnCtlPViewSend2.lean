import Lean
import H2V.Lemmas.ConnCtlPViewSend
/-
  ConnCtlP, view lemmas part 2 — `popFrame`, `prioBufferPendingLoop`, `prioBufferPending`.

  Why `popFrame` needs care.  The kernel's `whnf` does not terminate in practice on a term
  `x + 18446744073709551616` with `x` symbolic (`Nat.add` is unfolded on the literal, then `reduce_nat`
  on `Nat.succ _` recurses once per unit: "deep recursion" after minutes and 20 GB).  Such terms sit in
  `wrapSubU32` / `wrapSubUsize`, i.e. behind `Stream.sendData`, `tryAssignCapacity`,
  `reclaimAllCapacity`, ….  The kernel evaluates them whenever a defeq check between two
  *non-identical* terms meets a `match` on such a call (matchers are unfolded eagerly and the
  discriminant is put in whnf).  This kills `unfold Streams.popFrame` / `rw [Streams.popFrame]` (their
  equation lemmas), an `rfl` against a copy of the body, and `dsimp only` on the body.  What works:
   * `popFrame n = Nat.brecOn n popFrame._f` by `delta` (both sides identical after unfolding);
   * the outer `match fuel + 1, s, maxLen with` of `popFrame._f` rewritten with the matcher's own
     equation lemma, every argument explicit (`popframe_match_succ`): no unification, no reduction;
   * the dangerous constants (`Stream.sendData`, `Streams.reclaimAllCapacity`) replaced by VARIABLES
     before anything else is done.  A plain `generalize` is not enough — `instantiateMVars`
     beta-reduces `(fun sd => proof) Stream.sendData` and the constant is back in the final term — so
     the generalised statement is wrapped in `id` (`revert; refine @id _ ?_; intro`): the kernel then
     checks `proof` under a λ-bound, opaque `sd`.
-/
set_option autoImplicit false
set_option linter.unusedSimpArgs false
namespace H2V.Lemmas.ConnCtlP
open H2V H2V.Model H2V.Model.Conn

open Lean Elab Tactic Meta in
/-- rewrite `(match n.succ, s, m with | 0, .. => h₁ | fuel+1, .. => h₂) b` (the outer match of
    `popFrame._f`) to `h₂ n s m b` with the matcher's equation lemma, every argument given explicitly -/
elab "popframe_match_succ" : tactic => withMainContext do
  let g ← getMainGoal
  let t ← instantiateMVars (← g.getType)
  let some e := t.find? (fun e => e.isAppOf ``Streams.popFrame.match_11 && e.getAppNumArgs == 7)
    | throwError "popframe_match_succ: matcher application not found"
  let args := e.getAppArgs
  let n := args[1]!.appArg!
  let lvls := e.getAppFn.constLevels!
  let eq2 := mkAppN (mkConst ``Streams.popFrame.match_11.eq_2 lvls) #[args[0]!, n, args[2]!, args[3]!, args[4]!, args[5]!]
  let prf ← mkCongrFun eq2 args[6]!
  let r ← g.rewrite t prf
  let eNew ← Core.betaReduce r.eNew
  let g' ← g.replaceTargetEq eNew r.eqProof
  replaceMainGoal (g' :: r.mvarIds)

theorem popFrame_zero (s : Streams) (maxLen : Nat) : Streams.popFrame 0 s maxLen = (s, none) := by
  have h1 : Streams.popFrame 0 s maxLen = Streams.popFrame._f 0 PUnit.unit s maxLen := by
    delta Streams.popFrame Nat.brecOn Nat.brecOn.go; rfl
  have h2 : Streams.popFrame._f 0 PUnit.unit s maxLen = (s, none) := rfl
  exact h1.trans h2

theorem popFrame_succ_f (n : Nat) (s : Streams) (maxLen : Nat) :
    Streams.popFrame (Nat.succ n) s maxLen =
      Streams.popFrame._f (Nat.succ n) (Nat.brecOn.go n Streams.popFrame._f) s maxLen := by
  delta Streams.popFrame Nat.brecOn Nat.brecOn.go; rfl

theorem popFrame_below (n : Nat) (s : Streams) (maxLen : Nat) :
    (Nat.brecOn.go n Streams.popFrame._f).1 s maxLen = Streams.popFrame n s maxLen := by
  delta Streams.popFrame Nat.brecOn; rfl

theorem view_popFrame_f (n : Nat)
    (b : Nat.below (motive := fun _ => Streams → Nat → Streams × Option Streams.OutFrame) (Nat.succ n))
    (hrec : ∀ s m, view (b.1 s m).1 = view s) (s : Streams) (maxLen : Nat) :
    view (Streams.popFrame._f (Nat.succ n) b s maxLen).1 = view s := by
  unfold Streams.popFrame._f
  popframe_match_succ
  -- make the two calls behind which `wrapSub*` sits opaque for the kernel (see the header)
  have hrac := view_reclaimAllCapacity
  (generalize @Streams.reclaimAllCapacity = rac at hrac ⊢)
  (generalize @Stream.sendData = sd)
  revert rac sd
  refine @_root_.id _ ?_
  intro rac hrac sd
  dsimp only
  view_auto

@[simp] theorem view_popFrame (fuel : Nat) (s : Streams) (maxLen : Nat) :
    view (Streams.popFrame fuel s maxLen).1 = view s := by
  induction fuel generalizing s maxLen with
  | zero => rw [popFrame_zero]
  | succ n ih =>
    rw [popFrame_succ_f]
    apply view_popFrame_f
    intro s m
    rw [popFrame_below]
    exact ih s m

@[simp] theorem view_prioBufferPendingLoop (fuel : Nat) (s : Streams) (w : Writer) :
    view (Streams.prioBufferPendingLoop fuel s w).1 = view s := by
  induction fuel generalizing s w with
  | zero => simp [Streams.prioBufferPendingLoop]
  | succ n ih => unfold Streams.prioBufferPendingLoop; view_auto

@[simp] theorem view_prioBufferPending (fuel : Nat) (s : Streams) (w : Writer) :
    view (Streams.prioBufferPending fuel s w).1 = view s := by
  unfold Streams.prioBufferPending; view_auto


end H2V.Lemmas.ConnCtlP
