import Lean
import H2V.Lemmas.ConnCtlPViewSend
/-
  ConnCtlP, view lemmas part 2 — `popFrame` and the rest of ConnSend.lean.

  `popFrame`: its body is so large that the kernel cannot check the equation lemmas that `unfold` /
  `rw [Streams.popFrame]` ask for ("deep recursion" after minutes), nor an `rfl` against a copy of the
  body, nor a `dsimp`-reduction of the outer `match fuel + 1, s, maxLen with`.  So the structural
  recursion is opened by hand: `popFrame n = Nat.brecOn n popFrame._f` (`delta`, cheap for the kernel),
  the outer match of the functional `popFrame._f` is rewritten with the matcher's own equation lemma
  (every argument explicit, so that no unification and no kernel reduction is involved), and the frame
  lemma is proved on what is left — the loop body with `b.1` in place of the recursive call.
-/
set_option autoImplicit false
set_option linter.unusedSimpArgs false
namespace H2V.Lemmas.ConnCtlP
open H2V H2V.Model H2V.Model.Conn

open Lean Elab Tactic Meta in
/-- rewrite `(match n.succ, s, m with | 0, .. => h₁ | fuel+1, .. => h₂) b` (the outer match of
    `popFrame._f`) to `h₂ n s m b` with the matcher's equation lemma, every argument given explicitly -/
elab "popframe_match_succ" : tactic => withMainContext do
  let g ← getMainGoal
  let t ← instantiateMVars (← g.getType)
  let some e := t.find? (fun e => e.isAppOf ``Streams.popFrame.match_11 && e.getAppNumArgs == 7)
    | throwError "popframe_match_succ: matcher application not found"
  let args := e.getAppArgs
  let n := args[1]!.appArg!
  let lvls := e.getAppFn.constLevels!
  let eq2 := mkAppN (mkConst ``Streams.popFrame.match_11.eq_2 lvls) #[args[0]!, n, args[2]!, args[3]!, args[4]!, args[5]!]
  let prf ← mkCongrFun eq2 args[6]!
  let r ← g.rewrite t prf
  let eNew ← Core.betaReduce r.eNew
  let g' ← g.replaceTargetEq eNew r.eqProof
  replaceMainGoal (g' :: r.mvarIds)

theorem popFrame_zero (s : Streams) (maxLen : Nat) : Streams.popFrame 0 s maxLen = (s, none) := by
  have h1 : Streams.popFrame 0 s maxLen = Streams.popFrame._f 0 PUnit.unit s maxLen := by
    delta Streams.popFrame Nat.brecOn Nat.brecOn.go; rfl
  have h2 : Streams.popFrame._f 0 PUnit.unit s maxLen = (s, none) := rfl
  exact h1.trans h2

theorem popFrame_succ_f (n : Nat) (s : Streams) (maxLen : Nat) :
    Streams.popFrame (Nat.succ n) s maxLen =
      Streams.popFrame._f (Nat.succ n) (Nat.brecOn.go n Streams.popFrame._f) s maxLen := by
  delta Streams.popFrame Nat.brecOn Nat.brecOn.go; rfl

theorem popFrame_below (n : Nat) (s : Streams) (maxLen : Nat) :
    (Nat.brecOn.go n Streams.popFrame._f).1 s maxLen = Streams.popFrame n s maxLen := by
  delta Streams.popFrame Nat.brecOn; rfl

theorem view_popFrame_f (n : Nat)
    (b : Nat.below (motive := fun _ => Streams → Nat → Streams × Option Streams.OutFrame) (Nat.succ n))
    (hrec : ∀ s m, view (b.1 s m).1 = view s) (s : Streams) (maxLen : Nat) :
    view (Streams.popFrame._f (Nat.succ n) b s maxLen).1 = view s := by
  unfold Streams.popFrame._f
  popframe_match_succ
  dsimp only
  view_auto

@[simp] theorem view_popFrame (fuel : Nat) (s : Streams) (maxLen : Nat) :
    view (Streams.popFrame fuel s maxLen).1 = view s := by
  induction fuel generalizing s maxLen with
  | zero => rw [popFrame_zero]
  | succ n ih =>
    rw [popFrame_succ_f]
    apply view_popFrame_f
    intro s m
    rw [popFrame_below]
    exact ih s m

end H2V.Lemmas.ConnCtlP
