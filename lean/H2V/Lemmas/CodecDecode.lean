import H2V.Lemmas.CodecLoad
import H2V.Lemmas.CodecReader
/-
  Codec lemmas, part 7 (goal B at the level of `decode_frame`): every non-header frame that
  `decode_frame` delivers is a frame of RFC 9113 §6 with the same content — except for the two
  one stream-identifier check h2 does not make at this layer (RST_STREAM on stream 0, made later in
  `Streams::recv_reset`).  GOAWAY on a non-zero stream used to be a second exception (finding F11);
  `decode_frame` now rejects it and the theorem needs no hypothesis for it.
-/
namespace H2V.Lemmas.Codec
open H2V H2V.Model.Frame H2V.Model.CodecRead

/-- model frame `f` is the RFC frame `f'` (SETTINGS: the model keeps `lastWins` of the parameter list) -/
def Corr (f : Model.Frame.Frame) (f' : Spec.Frame.Frame) : Prop :=
  match f, f' with
  | .settings ack vals, .settings ack' ps => ack = ack' ∧ vals = lastWins ps
  | .settings .., _ => False
  | f, f' => toSpec f = some f'

theorem Corr_of_toSpec {f : Model.Frame.Frame} {f' : Spec.Frame.Frame} (h : toSpec f = some f')
    (hs : ∀ a v, f ≠ .settings a v) : Corr f f' := by
  cases f <;> first | exact h | exact absurd rfl (hs _ _)

theorem ofParts_ne_settings (k fl sid : Nat) (p : Bytes) (a : Bool) (v : List (Nat × Nat)) (hk : k ≠ 4) :
    Spec.Frame.ofParts k fl sid p ≠ .ok (.settings a v) := by
  unfold Spec.Frame.ofParts
  split <;> (try (exact absurd rfl hk)) <;> (repeat' split) <;> simp

theorem simple_frame {r r' : Reader} {x : Except FErr Model.Frame.Frame} {f : Model.Frame.Frame}
    (h : (match x with | .ok f => (r, DF.frame f) | .error _ => (r, connErr)) = (r', DF.frame f)) :
    x = .ok f ∧ r' = r := by
  cases x with
  | error e => simp [connErr] at h
  | ok g => simp only [Prod.mk.injEq, DF.frame.injEq] at h; exact ⟨by rw [h.2], h.1.symm⟩

/-- `decode_frame` soundness for DATA, PRIORITY, RST_STREAM, SETTINGS, PING, GOAWAY, WINDOW_UPDATE.
    The excluded case is exactly the frame h2 lets through here although §6.4 makes it a connection
    error (`loadReset_stream_zero`). -/
theorem decodeFrame_sound (r r' : Reader) (bytes : Bytes) (f : Model.Frame.Frame)
    (hk : (Head.parse bytes).kind ∈ [0, 2, 3, 4, 6, 7, 8])
    (h : decodeFrame r bytes = (r', .frame f))
    (hx : ¬ ((Head.parse bytes).kind = 3 ∧ (Head.parse bytes).sid = 0)) :
    r' = r ∧ ∃ f', Corr f f' ∧
      Spec.Frame.ofParts (bytes.getD 3 0) (bytes.getD 4 0) (Spec.Frame.u31 (bytes.drop 5)) (bytes.drop 9) = .ok f' := by
  have hhd := Head.parse_eq_spec bytes
  unfold decodeFrame at h
  simp only at h
  generalize Head.parse bytes = hd at *
  obtain ⟨k, fl, sid⟩ := hd
  simp only [Head.mk.injEq] at hhd
  obtain ⟨hk', hfl, hsid⟩ := hhd
  rw [← hk', ← hfl, ← hsid]
  split at h
  · simp [connErr] at h
  · simp only [List.mem_cons, List.not_mem_nil, or_false] at hk
    simp only at hx
    rcases hk with rfl | rfl | rfl | rfl | rfl | rfl | rfl
    · -- DATA
      simp only at h
      obtain ⟨hl, hr⟩ := simple_frame h
      obtain ⟨f', h1, h2⟩ := loadData_sound _ _ _ hl
      refine ⟨hr, f', Corr_of_toSpec h1 ?_, h2⟩
      intro a v hf; subst hf; cases h1; exact ofParts_ne_settings _ _ _ _ _ _ (by decide) h2
    · -- PRIORITY
      simp only at h
      split at h
      · simp [connErr] at h
      · rename_i hs0
        split at h
        · rename_i g hl
          simp only [Prod.mk.injEq, DF.frame.injEq] at h
          obtain ⟨hr, rfl⟩ := h
          obtain ⟨f', h1, h2⟩ := loadPriority_sound _ _ _ hs0 hl
          refine ⟨hr.symm, f', Corr_of_toSpec h1 ?_, h2⟩
          intro a v hf; subst hf; cases h1; exact ofParts_ne_settings _ _ _ _ _ _ (by decide) h2
        · simp at h
        · simp [connErr] at h
    · -- RST_STREAM
      simp only at h
      obtain ⟨hl, hr⟩ := simple_frame h
      obtain ⟨f', h1, h2⟩ := loadReset_sound _ _ _ (by simpa using hx) hl
      refine ⟨hr, f', Corr_of_toSpec h1 ?_, h2⟩
      intro a v hf; subst hf; cases h1; exact ofParts_ne_settings _ _ _ _ _ _ (by decide) h2
    · -- SETTINGS
      simp only at h
      obtain ⟨hl, hr⟩ := simple_frame h
      obtain ⟨ack, ps, h1, h2⟩ := loadSettings_sound _ _ _ hl
      refine ⟨hr, _, ?_, h1⟩
      subst h2
      exact ⟨rfl, rfl⟩
    · -- PING
      simp only at h
      obtain ⟨hl, hr⟩ := simple_frame h
      obtain ⟨f', h1, h2⟩ := loadPing_sound _ _ _ hl
      refine ⟨hr, f', Corr_of_toSpec h1 ?_, h2⟩
      intro a v hf; subst hf; cases h1; exact ofParts_ne_settings _ _ _ _ _ _ (by decide) h2
    · -- GOAWAY
      simp only at h
      by_cases hy : sid ≠ 0
      · rw [if_pos hy] at h; simp [connErr] at h
      rw [if_neg hy] at h
      obtain ⟨hl, hr⟩ := simple_frame h
      obtain ⟨f', h1, h2⟩ := loadGoAway_sound ⟨7, fl, sid⟩ _ _ (by simpa using hy) hl
      refine ⟨hr, f', Corr_of_toSpec h1 ?_, h2⟩
      intro a v hf; subst hf; cases h1; exact ofParts_ne_settings _ _ _ _ _ _ (by decide) h2
    · -- WINDOW_UPDATE
      simp only at h
      obtain ⟨hl, hr⟩ := simple_frame h
      obtain ⟨f', h1, h2⟩ := loadWindowUpdate_sound _ _ _ hl
      refine ⟨hr, f', Corr_of_toSpec h1 ?_, h2⟩
      intro a v hf; subst hf; cases h1; exact ofParts_ne_settings _ _ _ _ _ _ (by decide) h2

/-- the same against `Spec.Frame.parse`, for a complete frame as the reassembler cuts it -/
theorem decodeFrame_sound_parse (r r' : Reader) (bytes : Bytes) (f : Model.Frame.Frame)
    (hlen : 9 ≤ bytes.length) (hcut : bytes.length = 9 + rd24 bytes)
    (hk : (Head.parse bytes).kind ∈ [0, 2, 3, 4, 6, 7, 8])
    (h : decodeFrame r bytes = (r', .frame f))
    (hx : ¬ ((Head.parse bytes).kind = 3 ∧ (Head.parse bytes).sid = 0)) :
    ∃ f', Corr f f' ∧ Spec.Frame.parse bytes = some (.ok f') := by
  obtain ⟨_, f', h1, h2⟩ := decodeFrame_sound r r' bytes f hk h hx
  refine ⟨f', h1, ?_⟩
  unfold Spec.Frame.parse
  rw [u24_eq_rd24, if_neg (by omega), if_neg (by omega), h2]

/-- the exception does reach the caller of `decode_frame`: RST_STREAM on stream 0 -/
example : (decodeFrame (Reader.new 16384) [0, 0, 4, 3, 0, 0, 0, 0, 0, 0, 0, 0, 8]).2 matches DF.frame (.reset 0 8) := rfl
/-- GOAWAY on stream 1 is caught here (since the fix for F11) -/
example : (decodeFrame (Reader.new 16384) [0, 0, 8, 7, 0, 0, 0, 0, 1, 0, 0, 0, 0, 0, 0, 0, 0]).2 matches DF.err (.goAway 1 "") := rfl
/-- whereas PRIORITY on stream 0 is caught here -/
example : (decodeFrame (Reader.new 16384) [0, 0, 5, 2, 0, 0, 0, 0, 0, 0, 0, 0, 1, 16]).2 matches DF.err (.goAway 1 "") := rfl
/-- PUSH_PROMISE carrying only the promised id (block to follow in CONTINUATION), valid per §6.6: used to
    be a connection error (`src.len() < 5` in `PushPromise::load`); now stored as a partial block -/
example : (decodeFrame (Reader.new 16384) [0, 0, 4, 5, 0, 0, 0, 0, 1, 0, 0, 0, 2]).2 matches DF.none := rfl

end H2V.Lemmas.Codec
