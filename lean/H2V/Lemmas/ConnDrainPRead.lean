import H2V.Model.ConnProto
/-
  ConnDrainP, part 1 — the read side of `Connection::poll2`: `Codec::poll_next` answers `Pending` only
  after the transport holds the caller's read waker.
-/
namespace H2V.Lemmas.ConnDrainP
open H2V H2V.Model H2V.Model.Conn

/-- `Codec::poll_next` answers `Pending` only after handing the caller's waker to the transport's read
    half — provided the fuel covers the octets still to be scanned (`poll2` passes
    `buffered + unread + 2`; every recursive call has consumed at least one buffered octet). -/
theorem pollNext_pending_parks (fuel : Nat) (c c' : Codec) (tag : String)
    (hf : c.r.buf.length + c.io.rd.length < fuel)
    (h : pollNext fuel c tag = (c', .pending)) : c'.io.readWaker = some tag := by
  induction fuel generalizing c with
  | zero => omega
  | succ n ih =>
    unfold pollNext at h
    split at h
    · cases h
    · simp only at h
      split at h
      · cases h
      · cases h
      · split at h
        · next hlt =>
          refine ih _ ?_ h
          simp only [List.length_nil, Nat.add_zero]
          simp only [List.length_append] at hlt
          omega
        · repeat' split at h
          all_goals first
            | (cases h; done)
            | (cases h; rfl)

end H2V.Lemmas.ConnDrainP
