import H2V.Lemmas.ConnDrainPInv
/-
  ConnDrainP, part 12b — from any state satisfying `CInv`, `Connection::poll` answers `Pending` only with the
  connection task parked and everything writable written (`protoPoll_pending_parked`, `clientPoll_pending_parked`);
  fresh connections satisfy `CInv` (`cinv_init`, `cinv_initServer`).
-/
namespace H2V.Lemmas.ConnDrainP
open H2V H2V.Model H2V.Model.Conn
open H2V.Lemmas.ConnFlowP (FrameOk SettingsOk)

-- ===================================================================== `Connection::poll` `Pending` ⇒ parked and drained

/-- **`proto::Connection::poll` answers `Pending` only with the connection task parked and nothing left to write** -/
theorem protoPoll_pending_parked (n : Nat) : ∀ (c c' : Conn), CInv c → Conn.protoPoll n c = (c', .pending) →
    c'.streams.panicked = none → PollParked c' := by
  induction n with
  | zero =>
    intro c c' _ h hp
    unfold Conn.protoPoll at h
    cases h
    exact absurd hp (conn_panic_panicked _ _)
  | succ n ih =>
    intro c c' hi h hp
    unfold Conn.protoPoll at h
    split at h
    · -- Open
      have h1 := hi.poll2 (n + 1)
      rcases hp2 : Conn.poll2 (n + 1) c with ⟨c1, r1⟩
      rw [hp2] at h1 h
      dsimp only at h1 h
      cases r1 with
      | ready res =>
        dsimp only at h
        have h2 := h1.handlePoll2Result res
        rcases hh : c1.handlePoll2Result res with ⟨c2, r2⟩
        rw [hh] at h2 h
        cases r2 with
        | ok u => exact ih _ _ h2 h hp
        | error e => cases h
      | pending =>
        dsimp only at h
        have hs := h1.sr.pollComplete (n + 1) c1.codec.w c1.codec.io c1.cx
        have hc := CapOK.pollComplete (n + 1) c1.streams c1.codec.w c1.codec.io c1.cx h1.cap
        rcases hpc : Streams.pollComplete (n + 1) c1.streams c1.codec.w c1.codec.io c1.cx with ⟨s2, w2, io2, r2⟩
        rw [hpc] at hs hc h
        dsimp only at hs hc h
        have h2 : CInv { c1 with streams := s2, codec := { c1.codec with w := w2, io := io2 } } :=
          ⟨hc, hs, h1.remote, h1.loc⟩
        have hp2' : ∃ c0 : Conn, CapOK c0.codec.w ∧ Conn.poll2Loop (n + 1) c0 = (c1, .pending) := by
          unfold Conn.poll2 at hp2
          dsimp only at hp2
          refine ⟨_, ?_, hp2⟩
          exact hi.cap
        obtain ⟨c0, hc0, hp2'⟩ := hp2'
        -- the turn ends here: `open_turn`
        have turn : s2.panicked = none → (∀ k, r2 ≠ .err k) →
            PollParked { c1 with streams := s2, codec := { c1.codec with w := w2, io := io2 } } := by
          intro hps hne
          have hp1 : c1.streams.panicked = none := by
            have e := ConnCountsP.pollComplete_ev (ρ := true) (n + 1) c1.streams c1.codec.w c1.codec.io c1.cx
            rw [hpc] at e
            exact Ev.panic_none e hps
          obtain ⟨pi, ri⟩ := h1.sr.pinv hp1
          exact (open_turn (n + 1) (n + 1) c0 c1 s2 w2 io2 r2 hc0 hp2' pi ri hpc hne hps).1
        cases r2 with
        | pending =>
          dsimp only at h; cases h
          exact turn hp (fun k => (fun e => nomatch e))
        | err k => dsimp only at h; cases h
        | ready =>
          dsimp only at h
          split at h
          · exact ih _ _ (h2.goAwayNowData _ _) h hp
          · cases h
            exact turn hp (fun k => (fun e => nomatch e))
    · -- Closing
      next r i hst =>
      rcases hs : shutdownW c.codec.w c.codec.io c.cx with ⟨w, io, r'⟩
      rw [hs] at h
      dsimp only at h
      have h2 : CInv { c with codec := { c.codec with w := w, io := io } } :=
        ⟨shutdownW_cap hi.cap hs, hi.sr, hi.remote, hi.loc⟩
      cases r' with
      | pending =>
        dsimp only at h; cases h
        exact Or.inl (ConnWakeP.shutdownW_pending_parks hs)
      | err k => dsimp only at h; cases h
      | ready =>
        dsimp only at h
        have h3 : CInv { c with codec := { c.codec with w := w, io := io }, state := .closed r i } := h2.of_streams h2.sr rfl rfl
        exact ih _ _ h3 h hp
    · cases h

theorem Settled.wake {c : Conn} (h : Settled c) (t : List String) : Settled { c with streams := c.streams.wake t } :=
  ⟨h.read, h.goAway, ⟨h.ready.pong, h.ready.ping, h.ready.remote, h.ready.loc, h.ready.refused⟩,
   ⟨h.drained.pendingSend, h.drained.windowUpdates, h.drained.connWindow, h.drained.parked, h.drained.flushed⟩⟩

/-- the client's `Connection::poll` likewise (its self-wake only writes to the wake log) -/
theorem clientPoll_pending_parked (n : Nat) (c c' : Conn) (hi : CInv c) (h : Conn.clientPoll n c = (c', .pending))
    (hp : c'.streams.panicked = none) : PollParked c' := by
  unfold Conn.clientPoll at h
  dsimp only at h
  have h0 : CInv (if (!c.hasStreamsOrOtherReferences) = true then c.goAwayNow NO_ERROR else c) :=
    CInv.ite _ (hi.goAwayNowData _ _) hi
  rcases hpp : Conn.protoPoll n (if (!c.hasStreamsOrOtherReferences) = true then c.goAwayNow NO_ERROR else c) with ⟨c1, r1⟩
  rw [hpp] at h
  dsimp only at h
  injection h with hc hr
  subst hr
  have hcase : c' = c1 ∨ c' = { c1 with streams := c1.streams.wake [c1.cx] } := by
    rw [← hc]
    by_cases hh : ((match (PollRes.pending : PollRes) with | .pending => true | _ => false) &&
        (if (!c.hasStreamsOrOtherReferences) = true then c.goAwayNow NO_ERROR else c).hasStreamsOrOtherReferences &&
        !c1.hasStreamsOrOtherReferences) = true
    · rw [if_pos hh]; exact Or.inr rfl
    · rw [if_neg hh]; exact Or.inl rfl
  rcases hcase with e | e
  · subst e
    exact protoPoll_pending_parked n _ _ h0 hpp hp
  · subst e
    have hp1 : c1.streams.panicked = none := hp
    rcases protoPoll_pending_parked n _ c1 h0 hpp hp1 with hw | hs
    · exact Or.inl hw
    · exact Or.inr (hs.wake _)


-- ===================================================================== fresh connections

theorem settingsIws_cfg (g : Conn.Cfg) : ConnRecvP.settingsIws g.settings = g.iws := by
  unfold ConnRecvP.settingsIws Conn.Cfg.settings
  cases g.hts <;> cases g.push <;> cases g.mcs <;> cases g.iws <;> cases g.mfs <;> cases g.mhl <;> rfl

theorem settingsIws_append_ecp (l : List (Nat × Nat)) (b : Bool) :
    ConnRecvP.settingsIws (l ++ (if b then [(8, 1)] else [])) = ConnRecvP.settingsIws l := by
  unfold ConnRecvP.settingsIws
  cases b
  · simp
  · simp only [if_true, List.find?_append]
    cases h : l.find? (fun x => decide (x.1 = 4)) with
    | some x => rfl
    | none => rfl

theorem capOK_default : CapOK ({} : Writer) := by unfold CapOK; decide

/-- the stream layer of a fresh client connection satisfies `KInv` (nothing in `pending_capacity`) -/
theorem kinv_init (g : Conn.Cfg) : KInv (Conn.init g).streams := by
  have h0 : ∀ s : Streams, ConnFlowP.Init s → s.prio.pendingCapacity = [] → KInv s :=
    fun s hi hp => ⟨hi.safe, hi.reqOk, Or.inl hp⟩
  unfold Conn.init
  dsimp only
  split
  · unfold Conn.setTargetWindowSize
    dsimp only
    refine KInv.setTargetConnectionWindow (KInv.cloneHandle ?_) _
    rw [ConnFlowP.bufferSettings_streams]
    exact h0 _ ⟨rfl, rfl⟩ rfl
  · dsimp only
    refine KInv.cloneHandle ?_
    rw [ConnFlowP.bufferSettings_streams]
    exact h0 _ ⟨rfl, rfl⟩ rfl

theorem kinv_initServer (g : Conn.Cfg) (ecp : Bool) (pf : Bytes) : KInv (Conn.initServer g ecp pf).streams := by
  have h0 : ∀ s : Streams, ConnFlowP.Init s → s.prio.pendingCapacity = [] → KInv s :=
    fun s hi hp => ⟨hi.safe, hi.reqOk, Or.inl hp⟩
  unfold Conn.initServer
  dsimp only
  split
  · unfold Conn.setTargetWindowSize
    dsimp only
    refine KInv.setTargetConnectionWindow ?_ _
    rw [ConnFlowP.bufferSettings_streams]
    exact h0 _ ⟨rfl, rfl⟩ rfl
  · dsimp only
    rw [ConnFlowP.bufferSettings_streams]
    exact h0 _ ⟨rfl, rfl⟩ rfl

theorem sreach_init (g : Conn.Cfg) (hodd : g.firstId % 2 = 1) (hcws : ∀ sz, g.cws = some sz → sz ≤ 2147483647) :
    SReach (Conn.init g).streams := by
  cases hc : g.cws with
  | none => exact .of_reach (kinv_init g) (.init (.client g hodd)) (.init (ConnRecvP.init_client g hc))
  | some sz => exact .of_reach (kinv_init g) (.init (.client g hodd)) (ConnRecvP.init_client_cws g sz hc (hcws sz hc))

theorem sreach_initServer (g : Conn.Cfg) (ecp : Bool) (pf : Bytes) (hcws : ∀ sz, g.cws = some sz → sz ≤ 2147483647) :
    SReach (Conn.initServer g ecp pf).streams := by
  cases hc : g.cws with
  | none => exact .of_reach (kinv_initServer g ecp pf) (.init (.server g ecp pf)) (.init (ConnRecvP.init_server g ecp pf hc))
  | some sz =>
    exact .of_reach (kinv_initServer g ecp pf) (.init (.server g ecp pf)) (ConnRecvP.init_server_cws g ecp pf sz hc (hcws sz hc))

/-- **a fresh client connection satisfies the invariant** (for the builder options h2 accepts: odd first stream id,
    window sizes at most 2^31-1) -/
theorem cinv_init (g : Conn.Cfg) (hodd : g.firstId % 2 = 1) (hcws : ∀ sz, g.cws = some sz → sz ≤ 2147483647)
    (hiws : ∀ t, g.iws = some t → t ≤ 2147483647) : CInv (Conn.init g) := by
  have hs := sreach_init g hodd hcws
  have key : CapOK (Conn.init g).codec.w ∧ (Conn.init g).settings.remote = none ∧
      (Conn.init g).settings.loc = .waitingAck g.settings := by
    unfold Conn.init
    dsimp only
    split
    · unfold Conn.setTargetWindowSize
      exact ⟨(bufferSettings_step _ false g.settings).cap capOK_default, rfl, rfl⟩
    · exact ⟨(bufferSettings_step _ false g.settings).cap capOK_default, rfl, rfl⟩
  refine ⟨key.1, hs, ?_, ?_⟩
  · intro v hv; rw [key.2.1] at hv; cases hv
  · intro v hv
    rw [key.2.2] at hv
    rcases hv with hv | hv
    · injection hv with e; subst e
      intro t ht; rw [settingsIws_cfg] at ht; exact hiws t ht
    · cases hv


/-- … and so does a fresh server connection -/
theorem cinv_initServer (g : Conn.Cfg) (ecp : Bool) (pf : Bytes) (hcws : ∀ sz, g.cws = some sz → sz ≤ 2147483647)
    (hiws : ∀ t, g.iws = some t → t ≤ 2147483647) : CInv (Conn.initServer g ecp pf) := by
  have hs := sreach_initServer g ecp pf hcws
  have key : CapOK (Conn.initServer g ecp pf).codec.w ∧ (Conn.initServer g ecp pf).settings.remote = none ∧
      (Conn.initServer g ecp pf).settings.loc =
        .waitingAck ((({ g with push := none } : Conn.Cfg).settings) ++ (if ecp then [(8, 1)] else [])) := by
    unfold Conn.initServer
    dsimp only
    have hcap : ∀ (c : Conn), CapOK c.codec.w → CapOK (flush c.codec.w c.codec.io WAKER_CONN).1 := by
      intro c hc
      rcases hfl : flush c.codec.w c.codec.io WAKER_CONN with ⟨w1, io1, r1⟩
      exact hc.ofFlush hfl
    split
    · unfold Conn.setTargetWindowSize
      exact ⟨hcap _ ((bufferSettings_step _ false _).cap capOK_default), rfl, rfl⟩
    · exact ⟨hcap _ ((bufferSettings_step _ false _).cap capOK_default), rfl, rfl⟩
  refine ⟨key.1, hs, ?_, ?_⟩
  · intro v hv; rw [key.2.1] at hv; cases hv
  · intro v hv
    rw [key.2.2] at hv
    rcases hv with hv | hv
    · injection hv with e; subst e
      intro t ht
      rw [settingsIws_append_ecp, settingsIws_cfg] at ht
      exact hiws t ht
    · cases hv

end H2V.Lemmas.ConnDrainP
