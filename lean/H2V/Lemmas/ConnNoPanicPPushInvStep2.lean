import H2V.Lemmas.ConnNoPanicPPushInvRecv
import H2V.Lemmas.ConnNoPanicPPushInvHeldWrite
import H2V.Lemmas.ConnNoPanicPPushInvStep
/-
  C08 (no panic) — PUSH_PROMISE bookkeeping, stage 2, part 8: `PPPOK` along every operation of ConnResetP's `Op`.
-/
namespace H2V.Lemmas.ConnNoPanicP
open H2V H2V.Model H2V.Model.Conn H2V.Lemmas.ConnCountsP
open H2V.Lemmas.ConnResetP (Op run)
attribute [local irreducible] wrapSubU32 wrapSubUsize

/-- every operation but `recv_push_promise` (links a promised stream) and `drop_stream_ref` (lets promised streams go)
    keeps the held entries held and `recv.next_stream_id` moving forward -/
theorem op_hr {s : Streams} (hk : KeysOK s) (op : Op) (hne : ∀ id h, op ≠ .recvPushPromise id h)
    (hnd : ∀ k, op ≠ .dropStreamRef k) : HR s (op.apply s) := by
  cases op <;> simp only [Op.apply]
  case recvPushPromise id h => exact absurd rfl (hne id h)
  case dropStreamRef k => exact absurd rfl (hnd k)
  case recvHeaders h => exact recvHeaders_hr s h
  case recvData id p eos pad => exact recvData_hr s id p eos pad
  case recvReset id r => exact recvReset_hr s id r
  case recvWindowUpdate id inc => exact recvWindowUpdate_hr s id inc
  case handleError e => exact handleError_hr s e
  case recvGoAwayFrame l r d => exact recvGoAwayFrame_hr s l r d
  case recvGoAway l => exact recvGoAway_hr s l
  case recvEof b => exact recvEof_hr s b
  case innerSendReset id r => exact innerSendReset_hr s id r
  case setTargetConnectionWindow t => exact setTargetConnectionWindow_hr s t
  case applyRemoteSettings v b => exact applyRemoteSettings_hr s v b
  case applyLocalSettingsFrame v => exact applyLocalSettingsFrame_hr s v
  case pollComplete fuel w io tag => exact pollComplete_hr fuel s w io tag
  case pollSendPendingRefusal fuel w io tag => exact pollSendPendingRefusal_hr fuel s w io tag
  case clearExpiredResetStreams fuel => exact clearExpiredResetStreams_hr fuel s
  case wake t => exact wake_hr s t
  case clearWakes => exact HR.of_store (s' := { s with wakes := [] }) rfl rfl rfl
  case panic m => exact panic_hr s m
  case cloneHandle => exact cloneHandle_hr s
  case dropHandle => exact dropHandle_hr s
  case sendRequest a b c d => exact sendRequest_hr hk a b c d
  case pollPendingOpen p t => exact pollPendingOpen_hr s p t
  case nextIncoming => exact nextIncoming_hr s
  case recvTakeRequest k => exact recvTakeRequest_hr s k
  case cloneStreamRef k => exact cloneStreamRef_hr s k
  case refSendResponse k f eos => exact refSendResponse_hr s k f eos
  case refSendInformationalHeaders k f => exact refSendInformationalHeaders_hr s k f
  case refSendPushPromise p v f => exact refSendPushPromise_hr hk p v f
  case refSendData k len eos => exact refSendData_hr s k len eos
  case refSendTrailers k f => exact refSendTrailers_hr s k f
  case refReserveCapacity k c => exact refReserveCapacity_hr s k c
  case pollCapacity k t => exact pollCapacity_hr s k t
  case refSendReset k r => exact refSendReset_hr s k r
  case pollReset k m t => exact pollReset_hr s k m t
  case recvPollResponse fuel k t => exact recvPollResponse_hr fuel s k t
  case recvPollInformational k t => exact recvPollInformational_hr s k t
  case refPollData k t => exact refPollData_hr s k t
  case recvPollTrailers k t => exact recvPollTrailers_hr s k t
  case refReleaseCapacity k c => exact refReleaseCapacity_hr s k c
  case refClearRecvBuffer k => exact refClearRecvBuffer_hr s k

/-- **`PPPOK` is kept by every operation** (any role, push enabled or not).  Side conditions: the handle of a
    `drop_stream_ref` exists; `recv_push_promise` starts without a pending refusal, with `IBR` and resolvable
    `pending_accept` keys, and the local-error-reset quota is not exhausted by it -/
theorem PPPOK_step {s : Streams} (hn : NPI (fun _ => False) s) (hj : PPPOK s) (op : Op)
    (hdrop : ∀ k, op = .dropStreamRef k → Live s k ∧ (s.stream k).refCount > 0 ∧ ErrOK s)
    (hpp : ∀ id h, op = .recvPushPromise id h →
      IBR s ∧ (∀ k ∈ s.recv.pendingAccept, Live s k) ∧ s.recv.refused = none ∧ ErrOK (s.recvPushPromise id h).1) :
    PPPOK (op.apply s) := by
  by_cases h1 : ∃ id h, op = .recvPushPromise id h
  · obtain ⟨id, h, e⟩ := h1
    subst e
    obtain ⟨hi, hacc, href, he'⟩ := hpp id h rfl
    exact (recvPushPromise_npi hn hj hi hacc id h href he').2
  · by_cases h2 : ∃ k, op = .dropStreamRef k
    · obtain ⟨k, e⟩ := h2
      subst e
      obtain ⟨hl, hr, he⟩ := hdrop k rfl
      exact (dropStreamRef_npi_gen hn hj hl hr he).2
    · have hne : ∀ id h, op ≠ .recvPushPromise id h := fun id h e => h1 ⟨id, h, e⟩
      have hnd : ∀ k, op ≠ .dropStreamRef k := fun k e => h2 ⟨k, e⟩
      exact hj.step (op_pw s op hne) (op_hr hn.keys op hne hnd)

end H2V.Lemmas.ConnNoPanicP
