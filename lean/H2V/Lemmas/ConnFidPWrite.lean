import H2V.Lemmas.ConnFidPPop
/-
  ConnFidP, part 14 — the write path with the codec: `held w` = the DATA frame the codec holds; `Inv` across
  `pop_frame` (a run of pops), across `buffer_out` (the chunk goes out, the remainder is in flight) and across
  `reclaim_frame` (the remainder comes back to the FRONT of its queue — or is dropped when the marker says `Drop`).
-/
set_option linter.unusedSectionVars false
namespace H2V.Lemmas.ConnFidP
open H2V H2V.Model H2V.Model.Conn H2V.Lemmas.ConnWakeP

/-- the DATA frame the codec holds: `Next::Data` while the payload is being written, `last_data_frame` afterwards -/
def held (w : Writer) : Option DataFrame :=
  match w.next with
  | some n => some n.frame
  | none => w.lastDataFrame

/-- the codec never holds two DATA frames -/
def WOk (w : Writer) : Prop := w.next.isSome = true → w.lastDataFrame = none

theorem held_none_iff (w : Writer) : held w = none ↔ w.next = none ∧ w.lastDataFrame = none := by
  unfold held
  cases w.next <;> simp

/-- the two facts about a writer that `held` / `WOk` look at -/
def SameW (w w' : Writer) : Prop := w'.next.map (·.frame) = w.next.map (·.frame) ∧ w'.lastDataFrame = w.lastDataFrame

theorem SameW.held {w w' : Writer} (h : SameW w w') : held w' = held w ∧ (WOk w → WOk w') := by
  obtain ⟨h1, h2⟩ := h
  unfold ConnFidP.held WOk
  cases hn : w.next <;> cases hx : w'.next <;> simp_all

theorem held_put (w : Writer) (seg : Seg) : held (w.put seg) = held w ∧ (WOk w → WOk (w.put seg)) :=
  SameW.held (w' := w.put seg) ⟨rfl, rfl⟩
theorem held_bufferSimple (w : Writer) (n : Nat) (r : String) :
    held (w.bufferSimple n r) = held w ∧ (WOk w → WOk (w.bufferSimple n r)) :=
  SameW.held (w' := w.bufferSimple n r) ⟨rfl, rfl⟩
theorem held_bufferHeaders (w : Writer) (sid : Nat) (eos : Bool) (f : List Hpack.Field) :
    held (w.bufferHeaders sid eos f) = held w ∧ (WOk w → WOk (w.bufferHeaders sid eos f)) := by
  refine SameW.held ?_
  unfold Writer.bufferHeaders
  cases w.hpack.encode f with
  | none => exact ⟨rfl, rfl⟩
  | some p =>
    obtain ⟨e', block⟩ := p
    simp only []
    by_cases h : block.length > w.maxFrameSize <;> simp [h, Writer.put, SameW]
theorem held_bufferPushPromise (w : Writer) (sid p : Nat) (f : List Hpack.Field) :
    held (w.bufferPushPromise sid p f) = held w ∧ (WOk w → WOk (w.bufferPushPromise sid p f)) := by
  refine SameW.held ?_
  unfold Writer.bufferPushPromise
  cases w.hpack.encode f with
  | none => exact ⟨rfl, rfl⟩
  | some q =>
    obtain ⟨e', block⟩ := q
    simp only []
    by_cases h : 4 + block.length > w.maxFrameSize <;> simp [h, Writer.put, SameW]

theorem held_flush (w : Writer) (io : Tio) (t : String) (hw : WOk w) :
    held (flush w io t).1 = held w ∧ WOk (flush w io t).1 := by
  unfold flush
  cases hn : w.next with
  | none =>
    have h0 : held w = w.lastDataFrame := by unfold held; rw [hn]
    simp only [] <;> (repeat' split) <;>
      simp_all [held, WOk, Writer.unsetFrame]
  | some nd =>
    have h0 : held w = some nd.frame := by unfold held; rw [hn]
    have h1 : w.lastDataFrame = none := hw (by rw [hn]; rfl)
    simp only [] <;> (repeat' split) <;>
      simp_all [held, WOk, Writer.unsetFrame]

theorem held_pollReadyW (w : Writer) (io : Tio) (t : String) (hw : WOk w) :
    held (pollReadyW w io t).1 = held w ∧ WOk (pollReadyW w io t).1 := by
  unfold pollReadyW
  have hf := held_flush w io t hw
  split
  · split
    · next w' io' heq => rw [heq] at hf; exact hf
    · exact hf
  · exact ⟨rfl, hw⟩

/-- `Encoder::buffer(Data)` into a codec that holds no DATA frame -/
theorem held_bufferData (w : Writer) (len : Nat) (fe : Bool) (fr : DataFrame) (hn : held w = none)
    (hl : len ≤ w.maxFrameSize) : ∃ w', w.bufferData len fe fr = some w' ∧ held w' = some fr ∧ WOk w' := by
  obtain ⟨h1, h2⟩ := (held_none_iff w).mp hn
  unfold Writer.bufferData
  rw [if_neg (by omega)]
  simp only
  split
  · split
    · exact ⟨_, rfl, rfl, fun _ => h2⟩
    · exact ⟨_, rfl, rfl, fun _ => h2⟩
  · refine ⟨_, rfl, ?_, ?_⟩
    · unfold held; show (match w.next with | some n => some n.frame | none => some fr) = some fr; rw [h1]
    · intro h; exfalso
      have : w.next.isSome = true := h
      rw [h1] at this; cases this

/-- `take_last_data_frame` -/
theorem held_takeLast (w : Writer) (hw : WOk w) :
    (w.takeLastDataFrame.2 = none ∧ held w.takeLastDataFrame.1 = held w ∧ WOk w.takeLastDataFrame.1) ∨
    (∃ fr, w.takeLastDataFrame.2 = some fr ∧ held w = some fr ∧ held w.takeLastDataFrame.1 = none ∧ WOk w.takeLastDataFrame.1) := by
  unfold Writer.takeLastDataFrame
  cases hl : w.lastDataFrame with
  | none =>
    refine Or.inl ⟨rfl, ?_, ?_⟩
    · unfold held; simp [hl]
    · intro _; rfl
  | some fr =>
    have hn : w.next = none := by
      cases hx : w.next with
      | none => rfl
      | some n => have := hw (by rw [hx]; rfl); rw [hl] at this; cases this
    refine Or.inr ⟨fr, rfl, ?_, ?_, ?_⟩
    · unfold held; simp [hn, hl]
    · unfold held; simp [hn]
    · intro _; rfl

-- ===================================================================== `pop_frame`

section
variable {s : Streams} {g : Ghost}

/-- `Inv` across `pop_frame` (the codec holds nothing while it runs) -/
theorem popFrame_inv (n m : Nat) (hI : Inv s none g) :
    ∃ g', Run permPop s g (Streams.popFrame n s m).1 g' ∧ DataLast g' m (Streams.popFrame n s m).2 ∧
      (g'.weird = false → Inv (Streams.popFrame n s m).1 none g') := by
  obtain ⟨g', r, d⟩ := popFrame_last n m s g
  refine ⟨g', r, d, fun hw => ?_⟩
  exact (r.inv (h := none) (fun h => h) (fun _ => rfl) (Or.inr (fun _ _ _ h => h)) hI hw).1

/-- ghost of `buffer_out`: of a DATA frame only the chunk `(len, flag_eos)` has left, not the whole frame -/
def gbuf (g : Ghost) (f : Streams.OutFrame) : Ghost :=
  match f with
  | .data len fe fr => { g with emi := upd g.emi fr.key ((g.emi fr.key).dropLast ++ [.data len fe]) }
  | _ => g

theorem marker_markF (s : Streams) (m : InFlightData) : marker (s.modPrio (markF m)) = m := rfl

/-- `Inv` across `buffer_out` of the frame `pop_frame` just handed out -/
theorem bufferOut_inv (w : Writer) (f : Streams.OutFrame) (m : Nat) (hI : Inv s none g) (hd : DataLast g m (some f))
    (hh : held w = none) (hm : m ≤ w.maxFrameSize) :
    Inv (s.bufferOut w f).1 (held (s.bufferOut w f).2) (gbuf g f) ∧ WOk (s.bufferOut w f).2 := by
  have hwok : WOk w := by
    intro h; exact ((held_none_iff w).mp hh).2
  cases f with
  | headers sid eos fl =>
    have := held_bufferHeaders w sid eos fl
    simp only [Streams.bufferOut, gbuf]
    rw [this.1, hh]; exact ⟨hI, this.2 hwok⟩
  | reset sid r =>
    have := held_bufferSimple w 4 s!"R:{sid}:{r}"
    simp only [Streams.bufferOut, gbuf]
    rw [this.1, hh]; exact ⟨hI, this.2 hwok⟩
  | pushPromise sid p fl =>
    have := held_bufferPushPromise w sid p fl
    simp only [Streams.bufferOut, gbuf]
    rw [this.1, hh]; exact ⟨hI, this.2 hwok⟩
  | data len fe fr =>
    obtain ⟨E0, hE, hfe, hlen⟩ := hd len fe fr rfl
    obtain ⟨w', hw', hheld, hwok'⟩ := held_bufferData w len fe fr hh (Nat.le_trans hlen hm)
    simp only [Streams.bufferOut, markF_fold, hw', gbuf]
    rw [hheld]
    refine ⟨?_, hwok'⟩
    have hmk : marker (s.modPrio (markF (.dataFrame fr.key))) = .dataFrame fr.key := rfl
    have hst : (s.modPrio (markF (.dataFrame fr.key))).store = s.store := rfl
    have hsq : ∀ k, sq (s.modPrio (markF (.dataFrame fr.key))) k = sq s k := fun _ => rfl
    have hlt : fr.key < s.store.nextKey := by
      apply Nat.lt_of_not_le; intro hle
      have := (hI.ghostKey fr.key hle).2.1
      rw [hE] at this
      exact absurd this (by simp)
    have hinf : ∀ k, inflight (s.modPrio (markF (.dataFrame fr.key))) (some fr) k =
        if fr.key = k ∧ fr.rest > 0 then [.data fr.rest fr.eos] else [] := by
      intro k; unfold inflight; rw [hmk]
    have hcp : Coupled (s.modPrio (markF (.dataFrame fr.key))) (some fr) := by
      refine ⟨⟨fun h => ?_, fun h => ?_⟩, fun j hj => ?_⟩
      · rw [hmk] at h; cases h
      · cases h
      · rw [hmk] at hj; cases hj; exact ⟨fr, rfl, rfl⟩
    refine ⟨hI.kb, hcp, ?_, ?_, ?_, ?_, ?_, ?_⟩
    · intro k hk
      rw [hinf] at hk
      split at hk
      · next hc => rw [← hc.1]; exact hlt
      · exact absurd rfl hk
    · intro k hk
      have hne : k ≠ fr.key := by intro e; subst e; exact absurd hlt (Nat.not_lt.mpr hk)
      obtain ⟨h1, h2, h3⟩ := hI.ghostKey k hk
      exact ⟨h1, by show upd g.emi fr.key _ k = []; rw [upd_other _ _ hne]; exact h2, h3⟩
    · intro k
      obtain ⟨D, hR, hD⟩ := hI.ref k
      have ho : out s none k = sq s k := by unfold out; rw [inflight_none]; rfl
      rw [ho] at hR
      by_cases hk : fr.key = k
      · subst hk
        refine ⟨D, ?_, hD⟩
        show Refine (upd g.emi fr.key _ fr.key ++ msg (out (s.modPrio (markF (.dataFrame fr.key))) (some fr) fr.key) ++ D) _
        rw [upd_same, hE, List.dropLast_concat]
        unfold out
        rw [hinf, hsq]
        rw [hE] at hR
        by_cases hr : fr.rest > 0
        · simp only [hr, and_self, if_true] at hfe ⊢
          subst hfe
          have := hR.cut E0 (msg (sq s fr.key) ++ D) len fr.rest fr.eos (by simp)
          simpa only [msg_append, msg_data, msg_nil, List.append_assoc, List.singleton_append, List.cons_append,
            List.nil_append] using this
        · have h0 : fr.rest = 0 := by omega
          simp only [hr, and_false, if_false] at hfe ⊢
          subst hfe
          rw [h0] at hR
          simpa only [Nat.add_zero, List.nil_append] using hR
      · have hne : k ≠ fr.key := fun e => hk e.symm
        refine ⟨D, ?_, hD⟩
        show Refine (upd g.emi fr.key _ k ++ msg (out (s.modPrio (markF (.dataFrame fr.key))) (some fr) k) ++ D) _
        rw [upd_other _ _ hne]
        unfold out
        rw [hinf, hsq, if_neg (fun h => hk h.1)]
        exact hR
    · intro k hc; exact hI.closed k hc
    · intro k hk
      rw [hinf] at hk
      split at hk
      · next hc =>
        rw [← hc.1]
        exact hI.live fr.key (by rw [hE]; simp)
      · exact absurd rfl hk
    · intro k hk
      by_cases hkk : k = fr.key
      · subst hkk; exact hI.live _ (by rw [hE]; simp)
      · have : upd g.emi fr.key ((g.emi fr.key).dropLast ++ [.data len fe]) k = g.emi k := upd_other _ _ hkk
        exact hI.live k (by rw [← this]; exact hk)

end
end H2V.Lemmas.ConnFidP
