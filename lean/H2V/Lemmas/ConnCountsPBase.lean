import H2V.Model.ConnProto
/-
  C05 / C18 / C19 — part 1: the evolution relation `Ev`.

  Every function of the stream layer (`H2V/Model/Conn*.lean`) is a composition of a few kinds of
  elementary steps on a `Streams` value.  `Ev s s'` ("`s` evolves into `s'`") is the reflexive and
  transitive closure of those steps; the files `ConnCountsPSend/Recv/Streams/Proto` show
  `Ev s (f s …)` for every model function, the files `ConnCountsPInv*` show by induction on `Ev`
  that the counting / bounding invariants survive every elementary step.  `Ev` over-approximates
  what the model can do (any order, any arguments), so an invariant of `Ev` is an invariant of every
  reachable state.

  The steps deliberately leave out ONE thing: popping `pending_reset_expired`
  (`clear_expired_reset_streams`, `clear_all_reset_streams`), which only happens at the top of
  `Connection::poll2` / `recv_eof` and never inside a `counts.transition` closure; `EvT` adds it.
-/
namespace H2V.Lemmas.ConnCountsP
open H2V H2V.Model H2V.Model.Conn

-- ===================================================================== what a stream update keeps

/-- a stream that has not been opened in either direction (`Idle`, `ReservedRemote`): the states in
    which the first HEADERS frame of the peer counts the stream (`recv_open` answers `initial`) -/
def Early (st : Stream) : Prop := st.state.inner = .idle ∨ st.state.inner = .reservedRemote

instance (st : Stream) : Decidable (Early st) := by unfold Early; infer_instance

def SFrame.isPP : SFrame → Bool
  | .pushPromise .. => true
  | _ => false

/-- `b` is an update of the slab entry `a` that keeps everything the counting invariants look at:
    key, stream id, `is_counted`, the six queue links; it does not go back to an unopened state and
    does not invent PUSH_PROMISE frames -/
structure Same (a b : Stream) : Prop where
  key : b.key = a.key
  id : b.id = a.id
  counted : b.isCounted = a.isCounted
  fl : ∀ q, b.isQueued q = a.isQueued q
  early : Early b → Early a
  pp : ∀ f ∈ b.pendingSend, SFrame.isPP f = true → f ∈ a.pendingSend

theorem Same.refl (a : Stream) : Same a a := ⟨rfl, rfl, rfl, fun _ => rfl, fun h => h, fun _ h _ => h⟩

theorem Same.trans {a b c : Stream} (h1 : Same a b) (h2 : Same b c) : Same a c :=
  ⟨h2.key.trans h1.key, h2.id.trans h1.id, h2.counted.trans h1.counted,
   fun q => (h2.fl q).trans (h1.fl q), fun h => h1.early (h2.early h),
   fun f hf hp => h1.pp f (h2.pp f hf hp) hp⟩

-- ===================================================================== what a counts update keeps

/-- an update of `Counts` that leaves the stream counters alone and moves the two error-reset
    counters only the way `inc_num_local_error_resets` / `inc/dec_num_remote_reset_streams` do -/
structure CStep (c c' : Counts) : Prop where
  isServer : c'.isServer = c.isServer
  numSend : c'.numSendStreams = c.numSendStreams
  numRecv : c'.numRecvStreams = c.numRecvStreams
  numReset : c'.numLocalResetStreams = c.numLocalResetStreams
  maxRecv : c'.maxRecvStreams = c.maxRecvStreams
  maxReset : c'.maxLocalResetStreams = c.maxLocalResetStreams
  maxRemote : c'.maxRemoteResetStreams = c.maxRemoteResetStreams
  maxErr : c'.maxLocalErrorResetStreams = c.maxLocalErrorResetStreams
  err : c'.numLocalErrorResetStreams = c.numLocalErrorResetStreams ∨
        (c'.numLocalErrorResetStreams = c.numLocalErrorResetStreams + 1 ∧ c.canIncNumLocalErrorResets = true)
  remote : c'.numRemoteResetStreams ≤ c.numRemoteResetStreams ∨
        (c'.numRemoteResetStreams = c.numRemoteResetStreams + 1 ∧ c.canIncNumRemoteResetStreams = true)

theorem CStep.refl (c : Counts) : CStep c c :=
  ⟨rfl, rfl, rfl, rfl, rfl, rfl, rfl, rfl, .inl rfl, .inl (Nat.le_refl _)⟩

/-- `next_stream_id` of the send half only moves forward, keeping its parity or jumping behind a
    locally initiated id -/
def NextOK (isServer : Bool) (a b : Option Nat) : Prop :=
  ∀ y, b = some y → ∃ x, a = some x ∧ x ≤ y ∧ (y % 2 = x % 2 ∨ (isServer == (y % 2 == 0)) = true)

theorem NextOK.refl (sv : Bool) (a : Option Nat) : NextOK sv a a :=
  fun y h => ⟨y, h, Nat.le_refl _, .inl rfl⟩

/-- a step that touches neither the store nor a queue -/
structure Frame (s s' : Streams) : Prop where
  store : s'.store = s.store
  counts : CStep s.counts s'.counts
  q : ∀ q, s'.getQ q = s.getQ q
  panic : s.panicked.isSome = true → s'.panicked.isSome = true
  next : NextOK s.counts.isServer s.actions.send.nextStreamId s'.actions.send.nextStreamId

theorem Frame.refl (s : Streams) : Frame s s :=
  ⟨rfl, CStep.refl _, fun _ => rfl, id, NextOK.refl _ _⟩

-- ===================================================================== the steps

/-- `inc_num_local_error_resets` is still possible -/
def ErrOK (s : Streams) : Prop := s.counts.canIncNumLocalErrorResets = true

/-- a freshly created slab entry -/
structure Fresh (st : Stream) : Prop where
  counted : st.isCounted = false
  fl : ∀ q, st.isQueued q = false
  send : st.pendingSend = []
  idle : st.state.inner = .idle

/-- the `pending_send` / `pending_open` activation of a promised stream in `pop_frame`'s
    PUSH_PROMISE arm -/
def ppActivate (s : Streams) (pushed : Nat) : Streams :=
  let s := s.modStream pushed fun st => { st with isPendingPush := false }
  if !(s.stream pushed).pendingSend.isEmpty then
    if s.counts.canIncNumSendStreams then (((s.incNumSendStreams pushed).qPush .pendingSend pushed).1)
    else s.queueOpen pushed
  else s

/-- the part of `transition_after` that follows the reset-counter decrement -/
def transitionTail (s : Streams) (id : Nat) : Streams := s.transitionAfter id false

/-- `EvB ρ s s'`: `s` evolves into `s'` by elementary steps.  With `ρ = false` the three steps that
    create or count a peer-visible entry (`insert`, `bracket`, `incRecv`) are not available: that is
    the relation for what a function does to an entry *it has just created itself* (the body of
    `bracket`).  `Ev = EvB true` is the full relation. -/
inductive EvB : Bool → Streams → Streams → Prop
  | refl {ρ : Bool} (s : Streams) : EvB ρ s s
  | trans {ρ : Bool} {a b c : Streams} : EvB ρ a b → EvB ρ b c → EvB ρ a c
  | free {ρ : Bool} {s s' : Streams} : Frame s s' → EvB ρ s s'
  | setStream {ρ : Bool} {s : Streams} (st' : Stream) :
      (∀ st, s.store.get? st'.key = some st → Same st st') → EvB ρ s (s.setStream st')
  | qPush {ρ : Bool} {s : Streams} (q : QName) (k : Nat) : q ≠ .pendingResetExpired → q ≠ .pendingOpen → EvB ρ s (s.qPush q k).1
  | qPushFront {ρ : Bool} {s : Streams} (q : QName) (k : Nat) : q ≠ .pendingResetExpired → q ≠ .pendingOpen → EvB ρ s (s.qPushFront q k).1
  | qPushOpen {ρ : Bool} {s : Streams} (k : Nat) : s.counts.isLocalInit (s.stream k).id = true → EvB ρ s (s.qPush .pendingOpen k).1
  | qPop {ρ : Bool} {s : Streams} (q : QName) : q ≠ .pendingResetExpired → q ≠ .pendingOpen → EvB ρ s (s.qPop q).1
  /-- `clear_pending_open`'s pop -/
  | qPopOpen {ρ : Bool} {s : Streams} : EvB ρ s (s.qPop .pendingOpen).1
  /-- `enqueue_reset_expiration` -/
  | resetEnq {ρ : Bool} {s : Streams} (k : Nat) :
      s.counts.canIncNumResetStreams = true → (s.stream k).resetAt = false → (s.store.get? k).isSome = true →
      EvB ρ s ((s.modCountsA "can_inc_num_reset_streams" Counts.incNumResetStreams).qPush .pendingResetExpired k).1
  /-- a new slab entry whose first HEADERS the peer may still send (remote initiated) -/
  | insert {s : Streams} (st : Stream) : Fresh st → s.counts.isLocalInit st.id = false →
      EvB true s { s with store := (s.store.insert st).1 }
  /-- a new slab entry of any direction, together with what the caller does to it at once -/
  | bracket {s s' : Streams} (st : Stream) : Fresh st →
      EvB false { s with store := (s.store.insert st).1 } s' →
      (ErrOK s' → ∀ x, s'.store.get? s.store.nextKey = some x → ¬ Early x) → EvB true s s'
  | unlink {ρ : Bool} {s : Streams} (id : Nat) : EvB ρ s { s with store := s.store.unlink id }
  | remove {ρ : Bool} {s : Streams} (k n : Nat) :
      (∀ st, s.store.get? k = some st → st.isCounted = false ∧ (∀ q, st.isQueued q = false)) →
      EvB ρ s { s with store := s.store.remove k, recvBufferLeaked := n }
  /-- `pop_pending_open`'s pop + `inc_num_send_streams` -/
  | popOpen {ρ : Bool} {s : Streams} : s.counts.canIncNumSendStreams = true →
      EvB ρ s (match s.qPop .pendingOpen with
            | (s', some id) => s'.incNumSendStreams id
            | (s', none) => s')
  /-- the `NextAccept` link of a promised stream is also used by its parent's `pending_push_promises` -/
  | acceptFlag {ρ : Bool} {s : Streams} (k : Nat) (v : Bool) : EvB ρ s (s.modStream k fun st => { st with isPendingAccept := v })
  /-- `send_push_promise`: a PUSH_PROMISE frame for a locally initiated (promised) id is queued -/
  | queuePP {ρ : Bool} {s : Streams} (k pk pid : Nat) (fields : List Hpack.Field) : s.counts.isLocalInit pid = true →
      EvB ρ s (s.modStream k fun st => { st with pendingSend := st.pendingSend ++ [.pushPromise pk pid fields] })
  /-- `pop_frame`'s PUSH_PROMISE arm: the frame leaves the parent's queue, the promised stream is activated -/
  | ppAct {ρ : Bool} {s : Streams} (id pk pid : Nat) (fields : List Hpack.Field) (rest : List SFrame) (pushed : Nat) :
      (s.stream id).pendingSend = .pushPromise pk pid fields :: rest → s.store.findKey? pid = some pushed →
      EvB ρ s (ppActivate (s.modStream id fun st => { st with pendingSend := rest }) pushed)
  /-- `recv_headers`: the state moves out of `Idle`/`ReservedRemote` and the stream is counted -/
  | incRecv {s : Streams} (k : Nat) (st' : State) (s1 : Streams) : Early (s.stream k) →
      Frame (s.modStream k fun st => { st with state := st' }) s1 → EvB true s (s1.incNumRecvStreams k)
  | decNum {ρ : Bool} {s : Streams} (k : Nat) : EvB ρ s (s.decNumStreams k)

/-- the full evolution relation -/
abbrev Ev : Streams → Streams → Prop := EvB true

theorem EvB.lift {ρ : Bool} {s s' : Streams} (h : EvB ρ s s') : Ev s s' := by
  induction h with
  | refl s => exact .refl s
  | trans _ _ ih1 ih2 => exact .trans ih1 ih2
  | free h => exact .free h
  | setStream st' h => exact .setStream st' h
  | qPush q k h1 h2 => exact .qPush q k h1 h2
  | qPushFront q k h1 h2 => exact .qPushFront q k h1 h2
  | qPushOpen k h => exact .qPushOpen k h
  | qPop q h1 h2 => exact .qPop q h1 h2
  | qPopOpen => exact .qPopOpen
  | resetEnq k h1 h2 h3 => exact .resetEnq k h1 h2 h3
  | insert st h1 h2 => exact .insert st h1 h2
  | bracket st h1 h2 h3 _ => exact .bracket st h1 h2 h3
  | unlink id => exact .unlink id
  | remove k n h => exact .remove k n h
  | popOpen h => exact .popOpen h
  | acceptFlag k v => exact .acceptFlag k v
  | queuePP k pk pid f h => exact .queuePP k pk pid f h
  | ppAct id pk pid f rest pushed h1 h2 => exact .ppAct id pk pid f rest pushed h1 h2
  | incRecv k st' s1 h1 h2 => exact .incRecv k st' s1 h1 h2
  | decNum k => exact .decNum k

/-- `Ev` plus the pop of `pending_reset_expired` followed by its `transition_after(stream, true)` -/
inductive EvT : Streams → Streams → Prop
  | ev {s s' : Streams} : Ev s s' → EvT s s'
  | trans {a b c : Streams} : EvT a b → EvT b c → EvT a c
  | resetPop {s : Streams} :
      EvT s (match s.qPop .pendingResetExpired with
             | (s', some id) => s'.transitionAfter id true
             | (s', none) => s')

theorem EvT.refl (s : Streams) : EvT s s := .ev (.refl s)

theorem EvB.of_eq {ρ : Bool} {s a b : Streams} (h : a = b) (e : EvB ρ s a) : EvB ρ s b := h ▸ e
theorem EvB.of_fst_eq {ρ : Bool} {s : Streams} {α : Type} {p : Streams × α} {a : Streams} {x : α}
    (h : p = (a, x)) (e : EvB ρ s p.1) : EvB ρ s a := by subst h; exact e
theorem EvT.of_fst_eq {s : Streams} {α : Type} {p : Streams × α} {a : Streams} {x : α}
    (h : p = (a, x)) (e : EvT s p.1) : EvT s a := by subst h; exact e

end H2V.Lemmas.ConnCountsP
