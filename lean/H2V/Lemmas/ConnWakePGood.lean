import H2V.Lemmas.ConnWakePEndAll
/-
  ConnWakeP, part 14 — the store invariant `Good` (what the C07 lemmas need of a state) and the
  primitive updates that keep it.  `ConnWakePGoodFns.lean` (generated from the `Step` files: same
  statements with `Good` in place of `Step cx s0`, same `unfold f; grind` proofs) carries it through
  every model function, so that it holds in every reachable state.
    * `KeysBounded`: keys are handed out once;
    * `IdsOK`: the id map has one entry per stream id, and an entry whose slab entry exists points at a
      stream with that id (true even in the states of quirk Q1 — two slab entries with one id —
      because the id map itself stays a map);
    * every key in the id map was handed out.
-/
namespace H2V.Lemmas.ConnWakeP
open H2V H2V.Model H2V.Model.Conn

structure Good (s : Streams) : Prop where
  bounded : KeysBounded s.store
  ids : IdsOK s.store
  linked : ∀ e ∈ s.store.ids, e.2 < s.store.nextKey

theorem Good.of_store_eq {s t : Streams} (h : Good s) (e : t.store = s.store) : Good t :=
  ⟨e ▸ h.bounded, e ▸ h.ids, e ▸ h.linked⟩

theorem Good.of_fst {α : Type} {s' : Streams} {p : Streams × α} {r : α} (e : p = (s', r)) (h : Good p.1) : Good s' := by
  rw [e] at h; exact h

section
variable {s : Streams}

@[grind ←] theorem panic_good (m : String) (h : Good s) : Good (s.panic m) := h.of_store_eq (panic_store' s m)
@[grind ←] theorem unsup_good (m : String) (h : Good s) : Good (s.unsup m) :=
  h.of_store_eq (by unfold Streams.unsup; split <;> rfl)
@[grind ←] theorem wake_good (w : List String) (h : Good s) : Good (s.wake w) := h.of_store_eq rfl
@[grind ←] theorem notifyTask_good (h : Good s) : Good s.notifyTask :=
  h.of_store_eq (by unfold Streams.notifyTask; split <;> rfl)
@[grind ←] theorem modPrio_good (f : Prioritize → Prioritize) (h : Good s) : Good (s.modPrio f) := h.of_store_eq rfl
@[grind ←] theorem modSend_good (f : Send → Send) (h : Good s) : Good (s.modSend f) := h.of_store_eq rfl
@[grind ←] theorem modRecv_good (f : Recv → Recv) (h : Good s) : Good (s.modRecv f) := h.of_store_eq rfl
@[grind ←] theorem modCounts_good (f : Counts → Counts) (h : Good s) : Good (s.modCounts f) := h.of_store_eq rfl
@[grind ←] theorem modCountsA_good (m : String) (f : Counts → Option Counts) (h : Good s) : Good (s.modCountsA m f) :=
  h.of_store_eq (modCountsA_store s m f)
@[grind ←] theorem setQ_good (q : QName) (l : List Nat) (h : Good s) : Good (s.setQ q l) := by
  cases q <;> exact h.of_store_eq rfl
@[grind ←] theorem setCounts_good (c : Counts) (h : Good s) : Good { s with counts := c } := h.of_store_eq rfl
@[grind ←] theorem setRefs_good (n : Nat) (h : Good s) : Good { s with refs := n } := h.of_store_eq rfl
@[grind ←] theorem setConnError_good (e : PErr) (h : Good s) :
    Good { s with actions := { s.actions with connError := some e } } := h.of_store_eq rfl

/-- replacing an entry by one with the same key and stream id -/
theorem setStream_good' (b : Stream) (hid : b.id = (s.stream b.key).id) (h : Good s) : Good (s.setStream b) := by
  cases hg : s.store.get? b.key with
  | none =>
    have : s.setStream b = s := by unfold Streams.setStream; rw [Store.set_of_none hg]
    rw [this]; exact h
  | some a =>
    rw [stream_eq_of_get? hg] at hid
    refine ⟨h.bounded.set (h.bounded.get? hg), ⟨h.ids.1, fun e he x hx => ?_⟩, h.linked⟩
    have hx' : (s.store.set b).get? e.2 = some x := hx
    rw [Store.get?_set] at hx'
    by_cases hk : e.2 = b.key
    · rw [if_pos hk, hk, hg] at hx'
      simp at hx'; subst hx'
      rw [hid]; exact h.ids.2 e he a (hk ▸ hg)
    · rw [if_neg hk] at hx'
      exact h.ids.2 e he x hx'

theorem setStream_wake_good (k : Nat) (b : Stream) (w : List String) (hb : SStep w (s.stream k) b) (h : Good s) :
    Good ((s.setStream b).wake w) := by
  have hk : b.key = k := by rw [hb.key, stream_key]
  subst hk
  exact wake_good w (setStream_good' b hb.id h)
grind_pattern setStream_wake_good => SStep w (s.stream k) b, Good ((s.setStream b).wake w)

theorem setStream_good2 (k : Nat) (b : Stream) (hb : SStep [] (s.stream k) b) (h : Good s) : Good (s.setStream b) := by
  have hk : b.key = k := by rw [hb.key, stream_key]
  subst hk
  exact setStream_good' b hb.id h
grind_pattern setStream_good2 => SStep [] (s.stream k) b, Good (s.setStream b)

@[grind ←] theorem modStream_good (k : Nat) (f : Stream → Stream) (hf : SStep [] (s.stream k) (f (s.stream k)))
    (h : Good s) : Good (s.modStream k f) := by
  unfold Streams.modStream
  split
  · next a ha => rw [stream_eq_of_get? ha] at hf; exact setStream_good2 k _ (by rw [stream_eq_of_get? ha]; exact hf) h
  · exact panic_good _ h

@[grind ←] theorem modStreamW_good (k : Nat) (f : Stream → Stream × List String)
    (hf : SStep (f (s.stream k)).2 (s.stream k) (f (s.stream k)).1) (h : Good s) : Good (s.modStreamW k f) := by
  unfold Streams.modStreamW
  split
  · next a ha =>
    rw [stream_eq_of_get? ha] at hf
    exact setStream_wake_good k _ _ (by rw [stream_eq_of_get? ha]; exact hf) h
  · exact panic_good _ h

@[grind ←] theorem push_notifyRecv_good (k : Nat) (g : Stream → Stream) (hg : InertR (s.stream k) (g (s.stream k)))
    (h : Good s) : Good ((s.modStream k g).modStreamW k Stream.notifyRecv) := by
  have h1 : Good (s.modStream k g) := by
    unfold Streams.modStream
    split
    · next a ha =>
      rw [stream_eq_of_get? ha] at hg
      have hk : (g a).key = k := by rw [hg.key]; exact Store.get?_key ha
      refine setStream_good' (g a) ?_ h
      rw [hk, stream_eq_of_get? ha]; exact hg.id
    · exact panic_good _ h
  exact modStreamW_good k _ (notifyRecv_sstep _) h1

@[grind ←] theorem unlink_good (id : Nat) (h : Good s) : Good { s with store := s.store.unlink id } :=
  ⟨h.bounded.unlink id, ⟨swapRemove_nodup h.ids.1 id, fun e he a ha => h.ids.2 e (mem_of_mem_swapRemove he) a ha⟩,
    fun e he => h.linked e (mem_of_mem_swapRemove he)⟩

@[grind ←] theorem remove_good (k n : Nat) (h : Good s) :
    Good { s with store := s.store.remove k, recvBufferLeaked := n } := by
  refine ⟨h.bounded.remove k, ⟨h.ids.1, fun e he a ha => ?_⟩, h.linked⟩
  have ha' : (s.store.remove k).get? e.2 = some a := ha
  rw [Store.get?_remove] at ha'
  split at ha'
  · cases ha'
  · exact h.ids.2 e he a ha'

@[grind ←] theorem unlinkRemove_good (id k : Nat) (h : Good s) :
    Good { s with store := (s.store.unlink id).remove k } :=
  remove_good k s.recvBufferLeaked (unlink_good id h)

/-- `Store::insert`: the new stream gets a fresh key; its id is mapped to it (replacing an older
    mapping of the same id, as `IndexMap::insert` does) -/
@[grind ←] theorem insert_good (a : Stream) (h : Good s) : Good { s with store := (s.store.insert a).1 } := by
  have hfresh := h.bounded.fresh
  refine ⟨h.bounded.insert a, ⟨?_, fun e he x hx => ?_⟩, fun e he => ?_⟩
  · -- one entry per id
    show ((s.store.insert a).1.ids.map (·.1)).Nodup
    unfold Store.insert
    simp only
    split
    · have : (s.store.ids.map fun e => if e.1 == a.id then (a.id, s.store.nextKey) else e).map (·.1) =
          s.store.ids.map (·.1) := by
        rw [List.map_map]; apply List.map_congr_left
        intro e _; simp only [Function.comp]; split
        · next hh => simp only; exact (by simpa using hh : e.1 = a.id).symm
        · rfl
      rw [this]; exact h.ids.1
    · next hn =>
      rw [List.map_append, List.map_singleton]
      refine List.nodup_append.mpr ⟨h.ids.1, by simp, fun x hx y hy => ?_⟩
      simp only [List.mem_singleton] at hy; subst hy
      intro hxy; subst hxy
      apply hn
      obtain ⟨e, he, hee⟩ := List.mem_map.mp hx
      exact List.any_eq_true.mpr ⟨e, he, by simp [hee]⟩
  · -- entries point at streams with their id
    have hx' : (s.store.insert a).1.get? e.2 = some x := hx
    have he' : e ∈ (s.store.insert a).1.ids := he
    rw [Store.get?_insert] at hx'
    unfold Store.insert at he'
    simp only at he'
    have hcase : e = (a.id, s.store.nextKey) ∨ (e ∈ s.store.ids) := by
      split at he'
      · obtain ⟨e0, he0, hee⟩ := List.mem_map.mp he'
        split at hee
        · exact Or.inl hee.symm
        · exact Or.inr (hee ▸ he0)
      · rcases List.mem_append.mp he' with h1 | h1
        · exact Or.inr h1
        · exact Or.inl (List.mem_singleton.mp h1)
    rcases hcase with rfl | hold
    · simp only [hfresh] at hx'
      simp at hx'; subst hx'; rfl
    · have hlt := h.linked e hold
      cases hg : s.store.get? e.2 with
      | some y => rw [hg] at hx'; cases hx'; exact h.ids.2 e hold _ hg
      | none =>
        rw [hg] at hx'
        simp only at hx'
        rw [if_neg (Nat.ne_of_lt hlt)] at hx'; cases hx'
  · have he' : e ∈ (s.store.insert a).1.ids := he
    show e.2 < s.store.nextKey + 1
    unfold Store.insert at he'
    simp only at he'
    split at he'
    · obtain ⟨e0, he0, hee⟩ := List.mem_map.mp he'
      split at hee
      · rw [← hee]; exact Nat.lt_succ_self _
      · rw [← hee]; exact Nat.lt_succ_of_lt (h.linked e0 he0)
    · rcases List.mem_append.mp he' with h1 | h1
      · exact Nat.lt_succ_of_lt (h.linked e h1)
      · rw [List.mem_singleton.mp h1]; exact Nat.lt_succ_self _

end

/-- the initial states of both roles -/
theorem good_of_empty {s : Streams} (h1 : s.store.slab = []) (h2 : s.store.ids = []) : Good s := by
  refine ⟨fun a ha => ?_, ⟨?_, fun e he => ?_⟩, fun e he => ?_⟩
  · rw [h1] at ha; cases ha
  · rw [h2]; exact List.nodup_nil
  · rw [h2] at he; cases he
  · rw [h2] at he; cases he

end H2V.Lemmas.ConnWakeP
