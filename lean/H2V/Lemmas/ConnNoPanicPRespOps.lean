import H2V.Lemmas.ConnNoPanicPRespDec
/-
  C08 (no panic) — the client response path, part 5: the frame `RP` for streams.rs (the entry points of `Inner`,
  the handle calls).
-/
namespace H2V.Lemmas.ConnNoPanicP
open H2V H2V.Model H2V.Model.Conn H2V.Lemmas.ConnCountsP
attribute [local irreducible] wrapSubU32 wrapSubUsize

-- ===================================================================== `Store::for_each`

theorem tryForEach_rp {X : List Nat} (f : Streams → Nat → Streams × Option PErr) (hf : ∀ s k, RP X s (f s k).1) :
    ∀ (fuel i len : Nat) (s : Streams), RP X s (Streams.tryForEach f fuel i len s).1 := by
  intro fuel
  induction fuel with
  | zero => intro i len s; exact .refl _ _
  | succ n ih =>
    intro i len s
    unfold Streams.tryForEach
    split
    · split
      · exact panic_rp _ _
      · next id _ =>
        have := hf s id
        split
        · next s' e heq => rw [heq] at this; exact this
        · next s' heq =>
          rw [heq] at this
          dsimp only
          split
          · exact .trans this (ih _ _ _)
          · exact .trans this (ih _ _ _)
    · exact .refl _ _

theorem storeTryForEach_rp {X : List Nat} (s : Streams) (f : Streams → Nat → Streams × Option PErr) (hf : ∀ s k, RP X s (f s k).1) :
    RP X s (s.storeTryForEach f).1 := tryForEach_rp f hf _ _ _ s

theorem storeForEach_rp {X : List Nat} (s : Streams) (f : Streams → Nat → Streams) (hf : ∀ s k, RP X s (f s k)) :
    RP X s (s.storeForEach f) := storeTryForEach_rp s _ (fun s k => hf s k)

theorem tryForEachAcc_rp {X : List Nat} (f : Nat → Streams → Nat → Streams × Nat × Option PErr)
    (hf : ∀ a s k, RP X s (f a s k).1) :
    ∀ (fuel i len acc : Nat) (s : Streams), RP X s (Streams.tryForEachAcc f fuel i len acc s).1 := by
  intro fuel
  induction fuel with
  | zero => intro i len acc s; exact .refl _ _
  | succ n ih =>
    intro i len acc s
    unfold Streams.tryForEachAcc
    split
    · split
      · exact panic_rp _ _
      · next id _ =>
        have := hf acc s id
        split
        · next s' a e heq => rw [heq] at this; exact this
        · next s' a heq =>
          rw [heq] at this
          dsimp only
          split
          · exact .trans this (ih _ _ _ _)
          · exact .trans this (ih _ _ _ _)
    · exact .refl _ _

-- ===================================================================== `Actions`

theorem resetOnRecvStreamErr_rp {X : List Nat} (s : Streams) (k : Nat) (r : Except PErr Unit) :
    RP X s (s.resetOnRecvStreamErr k r).1 := by
  unfold Streams.resetOnRecvStreamErr; rp_auto

theorem actionsSendResetClosure_rp {X : List Nat} (k : Nat) (reason : Reason) (init : Initiator) (s : Streams) :
    RP X s (actionsSendResetClosure k reason init s).1 := by
  unfold actionsSendResetClosure
  generalize hp : (if init.isLibrary = true then _ else (s, true) : Streams × Bool) = pre
  obtain ⟨s0, b⟩ := pre
  have h0 : RP X s s0 := by
    split at hp
    · split at hp
      · cases hp; exact modCountsA_rp _ _ _
      · cases hp; exact .refl _ _
    · cases hp; exact .refl _ _
  cases b
  · exact h0
  · simp only []
    rp_auto

theorem actionsSendReset_rp {X : List Nat} (s : Streams) (k : Nat) (reason : Reason) (init : Initiator) :
    RP X s (s.actionsSendReset k reason init).1 := by
  rw [actionsSendReset_eq]; exact transition_rp _ _ _ (actionsSendResetClosure_rp _ _ _ _)

theorem refSendReset_rp {X : List Nat} (s : Streams) (k : Nat) (reason : Reason) : RP X s (s.refSendReset k reason) := by
  unfold Streams.refSendReset
  have := actionsSendReset_rp (X := X) s k reason .user
  split
  · next s1 _ heq => rw [heq] at this; exact this
  · next s1 _ heq => rw [heq] at this; exact this.trans (panic_rp _ _)

-- ===================================================================== entries with or without handle

theorem ref0_of_not_live {s : Streams} {k : Nat} (h : ¬ Live s k) : (s.stream k).refCount = 0 := by
  cases hg : s.store.get? k with
  | some x => exact absurd ⟨x, hg⟩ h
  | none => unfold Streams.stream; rw [hg]; rfl

theorem live_of_ref_pos {s : Streams} {k : Nat} (h : 0 < (s.stream k).refCount) : Live s k := by
  apply Classical.byContradiction
  intro hn
  rw [ref0_of_not_live hn] at h; omega

theorem not_live_nextKey {s : Streams} (hk : KeysOK s) : ¬ Live s s.store.nextKey := by
  rintro ⟨x, hx⟩
  have := hk.fresh x (get?_mem hx)
  rw [get?_key hx] at this; omega

theorem insert_rp {X : List Nat} (s : Streams) (st : Stream) : RP X s { s with store := (s.store.insert st).1 } :=
  ⟨fun j _ hr => by rw [stream_insert_old st (live_of_ref_pos hr)]; exact RS.refl _⟩

-- ===================================================================== `Inner::recv_*`

theorem recvHeadersClosure_rp {X : List Nat} (k : Nat) (h : HeadersIn) (s : Streams) (hX : k ∈ X) :
    RP X s (recvHeadersClosure k h s).1 := by
  unfold recvHeadersClosure
  dsimp only
  split
  · exact .refl _ _
  · split
    · have h1 := recvRecvHeaders_rp s k h hX
      generalize s.recvRecvHeaders k h = p at h1
      obtain ⟨s1, res⟩ := p
      cases res with
      | ok => exact h1.trans (resetOnRecvStreamErr_rp _ _ _)
      | oversize b =>
        cases b
        · exact h1.trans (resetOnRecvStreamErr_rp _ _ _)
        · dsimp only; rp_auto
      | state e => exact h1.trans (resetOnRecvStreamErr_rp _ _ _)
      | unsupported => dsimp only; rp_auto
    · have h1 := recvRecvTrailers_rp s k h hX
      generalize s.recvRecvTrailers k h = p at h1
      obtain ⟨s1, res⟩ := p
      exact h1.trans (resetOnRecvStreamErr_rp _ _ _)

theorem recvHeadersTail_rp {X : List Nat} (k : Nat) (h : HeadersIn) (s : Streams) (hX : k ∈ X) :
    RP X s (recvHeadersTail k h s).1 := by
  unfold recvHeadersTail
  dsimp only
  split
  · exact .refl _ _
  · split
    · exact .refl _ _
    · exact transition_rp _ _ _ (recvHeadersClosure_rp k h s hX)

theorem recvOpen_store' (s : Streams) (id : Nat) (b : Bool) : (s.recvOpen id b).1.store = s.store := by
  unfold Streams.recvOpen
  dsimp only
  generalize hs0 : (if s.recv.refused.isSome = true then s.panic _ else s) = s0
  have h0 : s0.store = s.store := by
    rw [← hs0]; split
    · exact panic_store _ _
    · rfl
  repeat (first | exact h0 | split | dsimp only)

/-- `Inner::recv_headers` is a frame step for every entry but the one the frame is routed to -/
theorem recvHeaders_rp {X : List Nat} (s : Streams) (h : HeadersIn) (hk : KeysOK s)
    (hX : ∀ k, s.store.findKey? h.sid = some k → k ∈ X) : RP X s (s.recvHeaders h).1 := by
  unfold Streams.recvHeaders
  dsimp only
  split
  · exact .refl _ _
  · cases hfk : s.store.findKey? h.sid with
    | some k =>
      simp only []
      exact recvHeadersTail_rp k h s (hX k hfk)
    | none =>
      simp only []
      by_cases hforg : (!s.counts.isServer && s.mayHaveForgottenStream h.sid) = true
      · simp only [hforg, if_true]; exact .refl _ _
      · simp only [hforg, Bool.false_eq_true, if_false]
        have h1 := recvOpen_rp (X := X) s h.sid false
        have hst : (s.recvOpen h.sid false).1.store = s.store := recvOpen_store' s h.sid false
        generalize s.recvOpen h.sid false = p at h1 hst
        obtain ⟨s1, res⟩ := p
        dsimp only at h1 hst
        cases res with
        | error e => exact h1
        | ok b =>
          cases b
          · exact h1
          · simp only []
            have hkk : (s1.store.insert (Stream.new h.sid s1.actions.send.initWindowSz s1.recv.initWindowSz)).2 = s.store.nextKey := by
              show s1.store.nextKey = _; rw [hst]
            rw [hkk]
            refine RP.drop0 (k := s.store.nextKey) ?_ (ref0_of_not_live (not_live_nextKey hk))
            exact ((h1.mono (fun _ h => List.mem_cons_of_mem _ h)).trans (insert_rp _ _)).trans
              (recvHeadersTail_rp _ h _ (List.mem_cons_self ..))

theorem recvDataClosure_rp {X : List Nat} (k : Nat) (payload : Bytes) (eos : Bool) (pad : Option Nat) (s : Streams) (hX : k ∈ X) :
    RP X s (recvDataClosure k payload eos pad s).1 := by
  unfold recvDataClosure
  have h1 := recvRecvData_rp s k payload eos pad hX
  generalize s.recvRecvData k payload eos pad = r at h1
  obtain ⟨s1, res⟩ := r
  dsimp only at h1 ⊢
  rp_auto

theorem recvData_rp {X : List Nat} (s : Streams) (id : Nat) (payload : Bytes) (eos : Bool) (pad : Option Nat)
    (hX : ∀ k, s.store.findKey? id = some k → k ∈ X) : RP X s (s.recvData id payload eos pad).1 := by
  cases hfk : s.store.findKey? id with
  | none =>
    unfold Streams.recvData
    simp only [hfk]
    rp_auto
  | some k =>
    rw [recvData_some payload eos pad hfk]
    exact transition_rp _ _ _ (recvDataClosure_rp k payload eos pad s (hX k hfk))

theorem recvResetClosure_rp {X : List Nat} (k : Nat) (r : Reason) (s : Streams) : RP X s (recvResetClosure k r s).1 := by
  unfold recvResetClosure; rp_auto

theorem recvReset_rp {X : List Nat} (s : Streams) (id : Nat) (r : Reason) : RP X s (s.recvReset id r).1 := by
  unfold Streams.recvReset
  split
  · exact .refl _ _
  split
  · exact .refl _ _
  split
  · split <;> exact .refl _ _
  · next k _ =>
    split
    · exact .refl _ _
    · exact transition_rp _ _ _ (recvResetClosure_rp k r s)

theorem recvWindowUpdate_rp {X : List Nat} (s : Streams) (id inc : Nat) : RP X s (s.recvWindowUpdate id inc).1 := by
  unfold Streams.recvWindowUpdate; rp_auto

theorem errClosure_rp {X : List Nat} (s : Streams) (k : Nat) (e : PErr) :
    RP X s (s.transition k fun s => ((s.recvHandleError k e).sendHandleError k, ())).1 :=
  transition_rp _ _ _ ((recvHandleError_rp s k e).trans (sendHandleError_rp _ k))

theorem eofClosure_rp {X : List Nat} (s : Streams) (k : Nat) :
    RP X s (s.transition k fun s => ((s.recvRecvEof k).sendHandleError k, ())).1 :=
  transition_rp _ _ _ ((recvRecvEof_rp s k).trans (sendHandleError_rp _ k))

theorem setConnError_rp {X : List Nat} (s : Streams) (o : Option PErr) :
    RP X s { s with actions := { s.actions with connError := o } } := .of_store rfl

theorem handleError_rp {X : List Nat} (s : Streams) (err : PErr) : RP X s (s.handleError err).1 := by
  unfold Streams.handleError
  exact (storeForEach_rp s _ (fun s k => errClosure_rp s k err)).trans (setConnError_rp _ _)

theorem recvGoAwayFrame_rp {X : List Nat} (s : Streams) (last : Nat) (r : Reason) (d : Bytes) :
    RP X s (s.recvGoAwayFrame last r d).1 := by
  unfold Streams.recvGoAwayFrame
  have h0 := sendRecvGoAway_rp (X := X) s last
  split
  · next s1 e heq => rw [heq] at h0; exact h0
  · next s1 _ heq =>
    rw [heq] at h0
    refine RP.trans (h0.trans ?_) (setConnError_rp _ _)
    refine storeForEach_rp _ _ (fun s k => ?_)
    dsimp only
    split
    · exact errClosure_rp _ _ _
    · exact .refl _ _

theorem recvEof_rp {X : List Nat} (s : Streams) (b : Bool) : RP X s (s.recvEof b) := by
  unfold Streams.recvEof
  dsimp only
  generalize hs1 : (if s.actions.connError.isNone = true then _ else s) = s1
  have h1 : RP X s s1 := by
    rw [← hs1]; split
    · exact setConnError_rp _ _
    · exact .refl _ _
  have a2 := storeForEach_rp (X := X) s1 (fun s id => (s.transition id fun s => ((s.recvRecvEof id).sendHandleError id, ())).1)
    (fun s k => eofClosure_rp s k)
  exact (h1.trans a2).trans (clearQueues_rp _ _)

theorem innerSendReset_rp {X : List Nat} (s : Streams) (id : Nat) (reason : Reason) : RP X s (s.innerSendReset id reason).1 := by
  unfold Streams.innerSendReset
  cases hfk : s.store.findKey? id with
  | some k => simp only []; exact actionsSendReset_rp _ _ _ _
  | none =>
    simp only []
    refine RP.trans ?_ (actionsSendReset_rp _ _ _ _)
    refine RP.trans ?_ (insert_rp _ _)
    split
    · exact sendMaybeResetNextStreamId_rp _ _
    · exact recvMaybeResetNextStreamId_rp _ _

-- ===================================================================== SETTINGS

theorem sarsWindow_rp {X : List Nat} (s : Streams) (a : Option Nat) : RP X s (sarsWindow s a).1 := by
  unfold sarsWindow
  split
  · exact .refl _ _
  · next val =>
    dsimp only
    have h2 : RP X s (s.modSend fun sd => { sd with initWindowSz := val }) := modSend_rp _ _
    generalize (s.modSend fun sd => { sd with initWindowSz := val }) = s2 at h2 ⊢
    split
    · have h3 := tryForEachAcc_rp (X := X) (Streams.decStreamWindow (s.actions.send.initWindowSz - val))
        (fun a t k => decStreamWindow_rp _ a t k) (2 * s2.store.ids.length + 1) 0 s2.store.ids.length 0 s2
      split
      · next s3 _ e heq => rw [heq] at h3; exact h2.trans h3
      · next s3 total heq => rw [heq] at h3; exact (h2.trans h3).trans (assignConnectionCapacity_rp _ _)
    · split
      · refine h2.trans (storeTryForEach_rp _ _ ?_)
        intro t k
        have := sendRecvStreamWindowUpdate_rp (X := X) t k (val - s.actions.send.initWindowSz)
        split
        · next s' r heq => rw [heq] at this; exact this
        · next s' _ heq => rw [heq] at this; exact this
      · exact h2

theorem sendApplyRemoteSettings_rp {X : List Nat} (s : Streams) (a b c : Option Nat) :
    RP X s (s.sendApplyRemoteSettings a b c).1 := by
  rw [sars_eq]
  have h1 : RP X s (match c with
      | some v => s.modSend fun sd => { sd with isExtendedConnectProtocolEnabled := v != 0 }
      | none => s) := by
    split
    · exact modSend_rp _ _
    · exact .refl _ _
  have h2 := h1.trans (sarsWindow_rp _ a)
  generalize sarsWindow _ a = p at h2 ⊢
  obtain ⟨s2, res⟩ := p
  dsimp only at h2 ⊢
  split
  · exact h2
  · dsimp only
    split
    · exact h2.trans (modSend_rp _ _)
    · exact h2

theorem applyRemoteSettings_rp {X : List Nat} (s : Streams) (vals : List (Nat × Nat)) (b : Bool) :
    RP X s (s.applyRemoteSettings vals b).1 := by
  unfold Streams.applyRemoteSettings
  dsimp only
  exact (modCounts_rp _ _).trans (sendApplyRemoteSettings_rp _ _ _ _)

theorem alsDec_rp {X : List Nat} (dec : Nat) (s : Streams) (k : Nat) : RP X s (alsDec dec s k).1 := by
  unfold alsDec; rp_auto
theorem alsInc_rp {X : List Nat} (inc : Nat) (s : Streams) (k : Nat) : RP X s (alsInc inc s k).1 := by
  unfold alsInc; rp_auto

/-- `apply_local_settings` behind the `enable_connect_protocol` update -/
def alsTail (s : Streams) (a : Option Nat) : Streams × Except PErr Unit :=
      match a with
      | none => (s, .ok ())
      | some target =>
        let oldSz := s.recv.initWindowSz
        let s := s.modRecv fun r => { r with initWindowSz := target }
        let (s, res) : Streams × Option PErr :=
          if target < oldSz then s.storeTryForEach (alsDec (oldSz - target))
          else if target > oldSz then s.storeTryForEach (alsInc (target - oldSz))
          else (s, none)
        match res with
        | some e => (s, .error e)
        | none => (s, .ok ())

theorem alsTail_rp {X : List Nat} (s1 : Streams) (a : Option Nat) : RP X s1 (alsTail s1 a).1 := by
  unfold alsTail
  split
  · exact .refl _ _
  · next target =>
    dsimp only
    have h2 : RP X s1 (s1.modRecv fun r => { r with initWindowSz := target }) := modRecv_rp _ _
    generalize (s1.modRecv fun r => { r with initWindowSz := target }) = s2 at h2 ⊢
    have h3 : RP X s1 (if target < s1.recv.initWindowSz then s2.storeTryForEach (alsDec (s1.recv.initWindowSz - target))
        else if target > s1.recv.initWindowSz then s2.storeTryForEach (alsInc (target - s1.recv.initWindowSz))
        else (s2, none)).1 := by
      split
      · exact h2.trans (storeTryForEach_rp _ _ (fun t k => alsDec_rp _ t k))
      · split
        · exact h2.trans (storeTryForEach_rp _ _ (fun t k => alsInc_rp _ t k))
        · exact h2
    generalize (if target < s1.recv.initWindowSz then s2.storeTryForEach (alsDec (s1.recv.initWindowSz - target))
        else if target > s1.recv.initWindowSz then s2.storeTryForEach (alsInc (target - s1.recv.initWindowSz))
        else (s2, none)) = p at h3 ⊢
    obtain ⟨s3, res⟩ := p
    dsimp only at h3 ⊢
    split <;> exact h3

theorem applyLocalSettings_rp {X : List Nat} (s : Streams) (a b : Option Nat) : RP X s (s.applyLocalSettings a b).1 := by
  cases b with
  | none => exact alsTail_rp s a
  | some v =>
    show RP X s (alsTail (s.modRecv fun r => { r with isExtendedConnectProtocolEnabled := v != 0 }) a).1
    exact (modRecv_rp _ _).trans (alsTail_rp _ a)

theorem applyLocalSettingsFrame_rp {X : List Nat} (s : Streams) (vals : List (Nat × Nat)) :
    RP X s (s.applyLocalSettingsFrame vals).1 := by
  unfold Streams.applyLocalSettingsFrame
  exact applyLocalSettings_rp _ _ _

end H2V.Lemmas.ConnNoPanicP
