import H2V.Lemmas.ConnNoPanicPPushInvHeldLoops
/-
  C08 (no panic) — PUSH_PROMISE bookkeeping, stage 2, part 5: the frame `HR` for the operations that insert an entry
  (`recv_headers`, `Inner::send_reset`, `send_request`, `send_push_promise`).
-/
namespace H2V.Lemmas.ConnNoPanicP
open H2V H2V.Model H2V.Model.Conn H2V.Lemmas.ConnCountsP
attribute [local irreducible] wrapSubU32 wrapSubUsize

theorem insert_hr (s : Streams) (st : Stream) : HR s { s with store := (s.store.insert st).1 } := by
  refine ⟨fun c hc => ⟨?_, hc.2⟩, .refl _⟩
  obtain ⟨x, hx, hq⟩ := hc.1
  exact ⟨x, insert_get?_old s.store st c x hx, hq⟩

/-- the error path `unlink(id); remove(key)` of another entry -/
theorem unlinkRemove_held {s : Streams} {id k c : Nat} (h : Held s c) (hck : c ≠ k) :
    Held ({ s with store := (s.store.unlink id).remove k } : Streams) c := by
  refine ⟨?_, h.2⟩
  obtain ⟨x, hx, hq⟩ := h.1
  refine ⟨x, ?_, hq⟩
  show ((s.store.unlink id).remove k).get? c = some x
  rw [get?_remove_ne _ _ _ hck]; exact hx

theorem held_ne_nextKey {s : Streams} (hk : KeysOK s) {c : Nat} (h : Held s c) : c ≠ s.store.nextKey := by
  intro e
  obtain ⟨x, hx, _⟩ := h.1
  rw [e, get?_nextKey_none hk.fresh] at hx; cases hx

-- ===================================================================== recv_headers

theorem recvHeadersClosure_hr (k : Nat) (h : HeadersIn) (s : Streams) : HR s (recvHeadersClosure k h s).1 := by
  unfold recvHeadersClosure; hr_auto

theorem recvHeadersTail_hr (k : Nat) (h : HeadersIn) (s : Streams) : HR s (recvHeadersTail k h s).1 := by
  unfold recvHeadersTail
  dsimp only
  split
  · exact .refl _
  · split
    · exact .refl _
    · exact transition_hr s k _ (fun s => recvHeadersClosure_hr k h s)

theorem recvHeaders_hr (s : Streams) (h : HeadersIn) : HR s (s.recvHeaders h).1 := by
  unfold Streams.recvHeaders
  dsimp only
  split
  · exact .refl _
  · cases hfk : s.store.findKey? h.sid with
    | some k =>
      exact recvHeadersTail_hr k h s
    | none =>
      dsimp only
      by_cases hforg : (!s.counts.isServer && s.mayHaveForgottenStream h.sid) = true
      · simp only [hforg, if_true]; exact .refl _
      · simp only [hforg, Bool.false_eq_true, if_false]
        generalize hro : s.recvOpen h.sid false = p
        obtain ⟨s1, res⟩ := p
        have h1 : HR s s1 := HR.of_fst_eq hro (recvOpen_hr s h.sid false)
        cases res with
        | error e => exact h1
        | ok b =>
          cases b
          · exact h1
          · simp only []
            exact (h1.trans (insert_hr s1 _)).trans (recvHeadersTail_hr _ h _)

-- ===================================================================== send_reset on an unknown id

theorem innerSendReset_hr (s : Streams) (id : Nat) (r : Reason) : HR s (s.innerSendReset id r).1 := by
  unfold Streams.innerSendReset
  dsimp only
  split
  · exact actionsSendReset_hr _ _ _ _
  · dsimp only
    generalize hs1 : (if s.counts.isLocalInit id = true then s.sendMaybeResetNextStreamId id else s.recvMaybeResetNextStreamId id) = s1
    have h1 : HR s s1 := by
      rw [← hs1]; split
      · exact sendMaybeResetNextStreamId_hr _ _
      · exact recvMaybeResetNextStreamId_hr _ _
    exact (h1.trans (insert_hr s1 _)).trans (actionsSendReset_hr _ _ _ _)

-- ===================================================================== send_request

theorem sendRequestCore_hr {s : Streams} (hk : KeysOK s) (isHead : Bool) (fields : List Hpack.Field) (eos : Bool) :
    HR s (sendRequestCore isHead fields eos s).1 := by
  unfold sendRequestCore
  generalize hso : s.sendOpenId = p
  obtain ⟨s1, r⟩ := p
  have h1 : HR s s1 := HR.of_fst_eq hso (sendOpenId_hr s)
  have hst1 : s1.store = s.store := by have := sendOpenId_store s; rw [hso] at this; exact this
  cases r with
  | error e => exact h1
  | ok id =>
    simp only []
    generalize hsP : (if s1.store.contains id = true then s1.panic _ else s1) = sP
    have hP : HR s sP := by
      rw [← hsP]; split
      · exact h1.trans (panic_hr _ _)
      · exact h1
    have hstP : sP.store = s.store := by rw [← hsP]; split; rw [panic_store, hst1]; exact hst1
    generalize hst : (if isHead = true then _ else Stream.new id s1.actions.send.initWindowSz s1.recv.initWindowSz) = st
    have h2 := hP.trans (insert_hr sP st)
    have hkk : (sP.store.insert st).2 = s.store.nextKey := by show sP.store.nextKey = _; rw [hstP]
    rw [hkk]
    generalize hsh : Streams.sendHeaders _ s.store.nextKey eos fields = q
    obtain ⟨s3, r3⟩ := q
    have h3 : HR s s3 := h2.trans (HR.of_fst_eq hsh (sendHeaders_hr _ _ _ _))
    cases r3 with
    | error e =>
      exact ⟨fun c hc => unlinkRemove_held (h3.held c hc) (held_ne_nextKey hk hc), h3.next⟩
    | ok u =>
      simp only []
      refine h3.trans (HR.trans ?_ (refInc_hr _ _))
      exact setMisc_hr s3 s3.actions (s3.refs + 1) s3.recvBufferLeaked s3.wakes s3.unsupported ⟨rfl, rfl⟩

theorem sendRequest_hr {s : Streams} (hk : KeysOK s) (isHead : Bool) (fields : List Hpack.Field) (eos : Bool) (pending : Option Nat) :
    HR s (s.sendRequest isHead fields eos pending).1 := by
  rcases sendRequest_cases s isHead fields eos pending with e | e
  · rw [e]; exact .refl _
  · rw [e]; exact sendRequestCore_hr hk isHead fields eos

-- ===================================================================== send_push_promise (server)

theorem sendReserveLocal_store (s : Streams) : s.sendReserveLocal.1.store = s.store := by
  unfold Streams.sendReserveLocal; exact sendOpenId_store s

theorem refSendPushPromise_hr {s : Streams} (hk : KeysOK s) (parent : Nat) (valid : Bool) (fields : List Hpack.Field) :
    HR s (s.refSendPushPromise parent valid fields).1 := by
  unfold Streams.refSendPushPromise
  generalize hso : s.sendReserveLocal = p
  obtain ⟨s1, r⟩ := p
  have h1 : HR s s1 := HR.of_fst_eq hso (sendReserveLocal_hr s)
  have hst1 : s1.store = s.store := by have := sendReserveLocal_store s; rw [hso] at this; exact this
  cases r with
  | error e => exact h1
  | ok pid =>
    simp only []
    generalize hsP : (if s1.store.contains pid = true then s1.panic _ else s1) = sP
    have hP : HR s sP := by
      rw [← hsP]; split
      · exact h1.trans (panic_hr _ _)
      · exact h1
    have hstP : sP.store = s.store := by rw [← hsP]; split; rw [panic_store, hst1]; exact hst1
    have h2 := hP.trans (insert_hr sP (Stream.new pid sP.actions.send.initWindowSz sP.recv.initWindowSz))
    have hkk : (sP.store.insert (Stream.new pid sP.actions.send.initWindowSz sP.recv.initWindowSz)).2 = s.store.nextKey := by
      show sP.store.nextKey = _; rw [hstP]
    rw [hkk]
    generalize hs2 : ({ sP with store := (sP.store.insert (Stream.new pid sP.actions.send.initWindowSz sP.recv.initWindowSz)).1 } : Streams) = s2 at h2 ⊢
    split
    · exact h2
    · next st' _ heq =>
      have h3 : HR s (s2.modStream s.store.nextKey fun st => { st with state := st', isPendingPush := true }) := by
        refine h2.trans ?_
        exact modStream_hr _ _ _ (fun _ => ⟨rfl, rfl⟩)
      generalize (s2.modStream s.store.nextKey fun st => { st with state := st', isPendingPush := true }) = s3 at h3 ⊢
      split
      · exact h3
      · generalize hsp : s3.sendPushPromise parent s.store.nextKey pid fields = q
        obtain ⟨s4, r4⟩ := q
        have h4 : HR s s4 := h3.trans (HR.of_fst_eq hsp (sendPushPromise_hr _ _ _ _ _))
        cases r4 with
        | error e =>
          exact ⟨fun c hc => unlinkRemove_held (h4.held c hc) (held_ne_nextKey hk hc), h4.next⟩
        | ok u =>
          simp only []
          refine h4.trans (HR.trans ?_ (refInc_hr _ _))
          exact setMisc_hr s4 s4.actions (s4.refs + 1) s4.recvBufferLeaked s4.wakes s4.unsupported ⟨rfl, rfl⟩

end H2V.Lemmas.ConnNoPanicP
