import H2V.Lemmas.ConnRecvPBase
/-
  C03 — part 4: the receive-window invariant.

  Ghost values (`Ghost`): what the application configured so far —
    `target`    the connection window configured last (`set_target_window_size`, initially 65535)
    `hiTarget`  the largest connection window configured so far
    `hiInit`    the largest SETTINGS_INITIAL_WINDOW_SIZE acknowledged so far (initially 65535)

  `Inv full g s`:
    connection   window, available are `i32`; **available + in_flight_data = target** (conservation);
                 0 ≤ window, window + in_flight_data ≤ hiTarget ≤ 2^31-1;  Σ streams' in_flight_recv_data ≤ in_flight_data
    streams      (when `full`) window, available are `i32`; window ≤ available; for a stream that is not
                 closed: (available − window) + in_flight ≤ hiInit and available + in_flight ≤ hiInit;
                 for a stream that is in the id map and not closed:
                 available + in_flight ≤ init_window_sz, and
                 **available + in_flight = init_window_sz** (conservation) while its `RecvStream` exists
  The connection part holds for every history; the stream part for histories in which
  `apply_local_settings` did not fail (a failure is a connection error FLOW_CONTROL_ERROR).
-/
namespace H2V.Lemmas.ConnRecvP
open H2V H2V.Model H2V.Model.Conn
open H2V.Lemmas.Comp

/-- what the application has configured so far (not part of the model's state) -/
structure Ghost where
  target : Nat
  hiTarget : Nat
  hiInit : Nat
  deriving Repr, DecidableEq

def linked (s : Streams) (k : Nat) : Prop := k ∈ s.store.ids.map (·.2)

/-- connection receive window / available / in flight -/
def cW (s : Streams) : Int := s.recv.flow.windowSize.val
def cA (s : Streams) : Int := s.recv.flow.available.val
def cI (s : Streams) : Nat := s.recv.inFlightData

/-- the stream-level books of a stream the protocol still knows (it is in the id map): closed, or
    `available + in_flight ≤ init_window_sz`, with equality as long as the `RecvStream` handle exists
    (`clear_recv_buffer` on a dropped `RecvStream` returns octets to the connection only) -/
def Bud (x : Stream) (init : Nat) : Prop :=
  x.state.isClosed = true ∨
    (x.recvFlow.available.val + (x.inFlightRecvData : Int) ≤ (init : Int) ∧
     (x.isRecv = true → x.recvFlow.available.val + (x.inFlightRecvData : Int) = (init : Int)))

/-- the stream-level part, for one slab entry -/
structure StreamOK (s : Streams) (g : Ghost) (x : Stream) : Prop where
  wI32 : inI32 x.recvFlow.windowSize.val = true
  aI32 : inI32 x.recvFlow.available.val = true
  wa : x.recvFlow.windowSize.val ≤ x.recvFlow.available.val
  live : x.state.isClosed = true ∨
    (x.recvFlow.available.val - x.recvFlow.windowSize.val + (x.inFlightRecvData : Int) ≤ (g.hiInit : Int) ∧
     x.recvFlow.available.val + (x.inFlightRecvData : Int) ≤ (g.hiInit : Int))
  bud : linked s x.key → Bud x s.recv.initWindowSz

/-- `d` is slack: octets already counted in the connection's `in_flight_data` that no stream
    accounts for yet (positive) or that a stream still accounts for although the connection has
    already given them back (negative); non-zero only in the middle of an operation -/
structure InvD (full : Bool) (g : Ghost) (d : Int) (s : Streams) : Prop where
  keys : KeysOK s.store
  wI32 : inI32 (cW s) = true
  aI32 : inI32 (cA s) = true
  cons : cA s + (cI s : Int) = (g.target : Int)
  w0 : 0 ≤ cW s
  wI : cW s + (cI s : Int) ≤ (g.hiTarget : Int)
  tHi : g.target ≤ g.hiTarget
  hiMax : g.hiTarget ≤ 2147483647
  sum : (sumInfl s.store.slab : Int) + d ≤ (cI s : Int)
  initHi : s.recv.initWindowSz ≤ g.hiInit
  initMax : g.hiInit ≤ 2147483647
  streams : full = true → ∀ x ∈ s.store.slab, StreamOK s g x

/-- the invariant between two operations -/
abbrev Inv (full : Bool) (g : Ghost) (s : Streams) : Prop := InvD full g 0 s

theorem inI32_of_range {x : Int} (h1 : -2147483648 ≤ x) (h2 : x ≤ 2147483647) : inI32 x = true :=
  (inI32_iff x).2 ⟨h1, h2⟩

/-- `FlowControl` of `Stream::new(_, _, init)` for a valid `init` -/
theorem newRecvFlow_eq {init : Nat} (h : init ≤ 2147483647) :
    newRecvFlow init = ⟨⟨(init : Int)⟩, ⟨(init : Int)⟩⟩ := by
  unfold newRecvFlow
  have hu : u32AsI32 init = (init : Int) := u32AsI32_of_lt (by omega)
  have h1 : FlowControl.new.incWindow init = (⟨⟨(init : Int)⟩, ⟨0⟩⟩, .ok ()) := by
    rw [Flow.incWindow_eq, hu]
    have : inI32 ((FlowControl.new).windowSize.val + (init : Int)) = true ∧
        (FlowControl.new).windowSize.val + (init : Int) ≤ (Generated.Consts.MAX_WINDOW_SIZE : Int) := by
      constructor
      · apply inI32_of_range <;> simp [FlowControl.new] <;> omega
      · simp [FlowControl.new, Generated.Consts.MAX_WINDOW_SIZE]; omega
    rw [if_pos this]
    simp [FlowControl.new]
  rw [h1]
  simp only []
  rw [Flow.assignCapacity_eq, hu]
  have : inI32 (init : Int) = true := by apply inI32_of_range <;> omega
  simp [this]

theorem newRecvFlow_zero : newRecvFlow 0 = ⟨⟨0⟩, ⟨0⟩⟩ := by
  have := newRecvFlow_eq (init := 0) (by omega)
  simpa using this

/-- the invariant only depends on what `Ext` preserves -/
theorem InvD.of_ext {full : Bool} {g : Ghost} {d : Int} {s s' : Streams} (h : InvD full g d s) (e : Ext s s') :
    InvD full g d s' where
  keys := e.keys h.keys
  wI32 := by unfold cW; rw [e.flow]; exact h.wI32
  aI32 := by unfold cA; rw [e.flow]; exact h.aI32
  cons := by unfold cA cI; rw [e.flow, e.infl]; exact h.cons
  w0 := by unfold cW; rw [e.flow]; exact h.w0
  wI := by unfold cW cI; rw [e.flow, e.infl]; exact h.wI
  tHi := h.tHi
  hiMax := h.hiMax
  sum := by
    have h1 := e.sum h.keys
    have h2 := h.sum
    unfold cI at *; rw [e.infl]; omega
  initHi := by rw [e.init]; exact h.initHi
  initMax := h.initMax
  streams := fun hf x' hx' => by
    have hinit : s.recv.initWindowSz ≤ 2147483647 := Nat.le_trans h.initHi h.initMax
    rcases e.slab h.keys x' hx' with ⟨x, hx, hs⟩ | hfr
    · have ok := h.streams hf x hx
      refine ⟨by rw [hs.flow]; exact ok.wI32, by rw [hs.flow]; exact ok.aI32, by rw [hs.flow]; exact ok.wa, ?_, ?_⟩
      · rcases ok.live with hc | hl
        · exact .inl (hs.closed hc)
        · exact .inr (by rw [hs.flow, hs.infl]; exact hl)
      · intro hl
        have hl' : linked s x.key := by
          rcases e.link x'.key hl with h1 | h1
          · rw [hs.key] at h1; exact h1
          · have := h.keys.lt x hx
            rw [hs.key] at h1; omega
        rcases ok.bud hl' with hc | hb
        · exact .inl (hs.closed hc)
        · refine .inr ?_
          rw [hs.flow, hs.infl, e.init]
          exact ⟨hb.1, fun hr => hb.2 (hs.recv hr)⟩
    · rcases hfr.flow with hfl | ⟨hfl, hc⟩
      · rw [newRecvFlow_eq hinit] at hfl
        have hI := h.initHi
        have hM := h.initMax
        refine ⟨?_, ?_, ?_, ?_, ?_⟩
        · rw [hfl]; apply inI32_of_range <;> simp <;> omega
        · rw [hfl]; apply inI32_of_range <;> simp <;> omega
        · rw [hfl]; exact Int.le_refl _
        · right; rw [hfl, hfr.infl]; simp; omega
        · intro _; right; rw [hfl, hfr.infl, e.init]; simp
      · rw [newRecvFlow_zero] at hfl
        refine ⟨?_, ?_, ?_, .inl hc, fun _ => .inl hc⟩
        · rw [hfl]; decide
        · rw [hfl]; decide
        · rw [hfl]; exact Int.le_refl _

theorem Inv.of_ext {full : Bool} {g : Ghost} {s s' : Streams} (h : Inv full g s) (e : Ext s s') : Inv full g s' :=
  InvD.of_ext h e

theorem InvD.wHi {full : Bool} {g : Ghost} {d : Int} {s : Streams} (h : InvD full g d s) : cW s ≤ (g.hiTarget : Int) := by
  have := h.wI; omega

theorem InvD.weaken {full : Bool} {g : Ghost} {d d' : Int} {s : Streams} (h : InvD full g d s) (hd : d' ≤ d) :
    InvD full g d' s :=
  { h with sum := by have := h.sum; omega }

theorem InvD.drop_full {full : Bool} {g : Ghost} {d : Int} {s : Streams} (h : InvD full g d s) : InvD false g d s :=
  { h with streams := fun hf => by cases hf }

/-- the initial state of the receive side: `Conn.init` / `Conn.initServer` before
    `set_target_window_size` -/
structure Init (s : Streams) : Prop where
  slab : s.store.slab = []
  ids : s.store.ids = []
  flow : s.recv.flow = ⟨⟨65535⟩, ⟨65535⟩⟩
  infl : s.recv.inFlightData = 0
  init : s.recv.initWindowSz = 65535

def Ghost.init : Ghost := { target := 65535, hiTarget := 65535, hiInit := 65535 }

theorem Inv.init {s : Streams} (h : Init s) (full : Bool) : Inv full Ghost.init s where
  keys := ⟨by rw [h.slab]; simp, by rw [h.slab]; simp, by rw [h.ids]; simp, by rw [h.ids]; simp, by rw [h.ids]; simp⟩
  wI32 := by unfold cW; rw [h.flow]; decide
  aI32 := by unfold cA; rw [h.flow]; decide
  cons := by unfold cA cI; rw [h.flow, h.infl]; decide
  w0 := by unfold cW; rw [h.flow]; decide
  wI := by unfold cW cI; rw [h.flow, h.infl]; decide
  tHi := by decide
  hiMax := by decide
  sum := by rw [h.slab]; simp
  initHi := by rw [h.init]; decide
  initMax := by decide
  streams := fun _ x hx => by rw [h.slab] at hx; cases hx

end H2V.Lemmas.ConnRecvP
