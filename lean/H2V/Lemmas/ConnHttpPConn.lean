import H2V.Lemmas.ConnHttpPPoll
/-
  C13 (ConnHttpP), part 25 — the connection loop never touches the frame reader except through
  `poll_next` and the acknowledged local settings: `RInv'` of `c.codec.r` is an invariant of
  `Connection::poll` (both roles), established by `handshake2` / the server handshake.
-/
namespace H2V.Lemmas.ConnHttpP
open H2V H2V.Model H2V.Model.Frame H2V.Model.Hpack H2V.Model.Conn H2V.Model.CodecRead

/-- the connection invariant C13 needs: the reader invariant of the codec's read half -/
def CInv (c : Conn) : Prop := RInv' c.codec.r

theorem cinv_of_reader {c c' : Conn} (h : CInv c) (e : c'.codec.r = c.codec.r) : CInv c' := by
  unfold CInv; rw [e]; exact h

theorem codecPollReady_r (c : Conn) : c.codecPollReady.1.codec.r = c.codec.r := rfl
theorem bufferSimple_r (c : Conn) (n : Nat) (s : String) : (c.bufferSimple n s).codec.r = c.codec.r := rfl
theorem bufferSettings_r (c : Conn) (a : Bool) (v : List (Nat × Nat)) : (c.bufferSettings a v).codec.r = c.codec.r := rfl
theorem panic_r (c : Conn) (m : String) : (c.panic m).codec.r = c.codec.r := rfl

theorem sendPendingGoAway_r (c : Conn) : c.sendPendingGoAway.1.codec.r = c.codec.r := by
  unfold Conn.sendPendingGoAway
  split
  · have h := codecPollReady_r c
    generalize c.codecPollReady = x at h ⊢
    obtain ⟨c1, st⟩ := x
    cases st <;> exact h
  · repeat' split
    all_goals rfl

theorem sendPendingPong_r (c : Conn) : c.sendPendingPong.1.codec.r = c.codec.r := by
  unfold Conn.sendPendingPong
  split
  · have h := codecPollReady_r c
    generalize c.codecPollReady = x at h ⊢
    obtain ⟨c1, st⟩ := x
    cases st <;> exact h
  · rfl

theorem sendPendingPing_r (c : Conn) : c.sendPendingPing.1.codec.r = c.codec.r := by
  unfold Conn.sendPendingPing
  split
  · split
    · have h := codecPollReady_r c
      generalize c.codecPollReady = x at h ⊢
      obtain ⟨c1, st⟩ := x
      cases st <;> exact h
    · rfl
  · split
    · simp only
      split
      · rename_i u _ _
        have h := codecPollReady_r { c with pingPong := { c.pingPong with userPings := some { u with pingTask := some c.cx } } }
        generalize Conn.codecPollReady { c with pingPong := { c.pingPong with userPings := some { u with pingTask := some c.cx } } } = x at h ⊢
        obtain ⟨c1, st⟩ := x
        cases st <;> exact h
      · rfl
    · rfl

/-- the first half of `Settings::poll_send`: acknowledge and apply the peer's SETTINGS -/
def spsFirst (c : Conn) : Conn × Step :=
  match c.settings.remote with
  | some settings =>
    match c.codecPollReady with
    | (c, .pending) => (c, .pending)
    | (c, .err e) => (c, .err e)
    | (c, .ok) =>
      let c := c.bufferSettings true []
      let isInitial := !c.settings.hasReceivedRemoteInitialSettings
      let c := { c with settings := { c.settings with hasReceivedRemoteInitialSettings := true } }
      match c.streams.applyRemoteSettings settings isInitial with
      | (s, .error e) => ({ c with streams := s }, .err e)
      | (s, .ok _) =>
        let c := { c with streams := s }
        let get := fun (id : Nat) => (settings.find? (·.1 = id)).map (·.2)
        let w := c.codec.w
        let w := match get 1 with | some v => { w with hpack := w.hpack.updateMaxSize v } | none => w
        let w := match get 5 with | some v => { w with maxFrameSize := v } | none => w
        ({ c with codec := { c.codec with w := w } }, .ok)
  | none => (c, .ok)

theorem settingsPollSend_eq (c : Conn) :
    c.settingsPollSend =
      match spsFirst c with
      | (c, .ok) =>
        let c := { c with settings := { c.settings with remote := none } }
        match c.settings.loc with
        | .toSend settings =>
          match c.codecPollReady with
          | (c, .ok) =>
            let c := c.bufferSettings false settings
            ({ c with settings := { c.settings with loc := .waitingAck settings } }, .ok)
          | r => r
        | _ => (c, .ok)
      | r => r := rfl

theorem spsFirst_r (c : Conn) : (spsFirst c).1.codec.r = c.codec.r := by
  generalize hx : spsFirst c = x
  unfold spsFirst at hx
  split at hx
  · have h := codecPollReady_r c
    generalize c.codecPollReady = y at h hx
    obtain ⟨c1, st⟩ := y
    cases st with
    | pending => subst hx; exact h
    | err e => subst hx; exact h
    | ok =>
      simp only at hx
      split at hx <;> (subst hx; exact h)
  · subst hx; rfl

theorem settingsPollSend_r (c : Conn) : c.settingsPollSend.1.codec.r = c.codec.r := by
  rw [settingsPollSend_eq]
  have h1 := spsFirst_r c
  generalize spsFirst c = x at h1 ⊢
  obtain ⟨c1, st⟩ := x
  cases st with
  | pending => exact h1
  | err e => exact h1
  | ok =>
    simp only at h1 ⊢
    split
    · have h := codecPollReady_r { c1 with settings := { c1.settings with remote := none } }
      generalize Conn.codecPollReady { c1 with settings := { c1.settings with remote := none } } = y at h ⊢
      obtain ⟨c2, st⟩ := y
      cases st <;> exact h.trans h1
    · exact h1

theorem pollReady_r (c : Conn) : c.pollReady.1.codec.r = c.codec.r := by
  unfold Conn.pollReady
  have h1 := sendPendingPong_r c
  generalize c.sendPendingPong = x at h1 ⊢
  obtain ⟨c1, st⟩ := x
  cases st with
  | pending => exact h1
  | err e => exact h1
  | ok =>
    simp only at h1 ⊢
    have h2 := sendPendingPing_r c1
    generalize c1.sendPendingPing = x at h2 ⊢
    obtain ⟨c2, st⟩ := x
    cases st with
    | pending => exact h2.trans h1
    | err e => exact h2.trans h1
    | ok =>
      simp only at h2 ⊢
      have h3 := settingsPollSend_r c2
      generalize c2.settingsPollSend = x at h3 ⊢
      obtain ⟨c3, st⟩ := x
      cases st with
      | pending => exact (h3.trans h2).trans h1
      | err e => exact (h3.trans h2).trans h1
      | ok => exact (h3.trans h2).trans h1


theorem dynGoAway_codec (c : Conn) (id : Nat) (e : Reason) : (c.dynGoAway id e).codec = c.codec := by
  unfold Conn.dynGoAway
  simp only
  split <;> rfl

theorem recvFrame_codec (c : Conn) (f : Option Frame.Frame) : (c.recvFrame f).1.codec = c.codec := by
  cases f with
  | none => rfl
  | some fr =>
    cases fr with
    | headers sid eos d blk =>
      unfold Conn.recvFrame; simp only
      generalize c.streams.recvHeaders _ = r; obtain ⟨s, res⟩ := r; cases res <;> rfl
    | data sid payload eos pad =>
      unfold Conn.recvFrame; simp only
      generalize c.streams.recvData _ _ _ _ = r; obtain ⟨s, res⟩ := r; cases res <;> rfl
    | pushPromise sid promised blk =>
      unfold Conn.recvFrame; simp only
      generalize c.streams.recvPushPromise _ _ = r; obtain ⟨s, res⟩ := r; cases res <;> rfl
    | reset sid code =>
      unfold Conn.recvFrame; simp only
      generalize c.streams.recvReset _ _ = r; obtain ⟨s, res⟩ := r; cases res <;> rfl
    | windowUpdate sid inc =>
      unfold Conn.recvFrame; simp only
      generalize c.streams.recvWindowUpdate _ _ = r; obtain ⟨s, res⟩ := r; cases res <;> rfl
    | settings ack vals => rfl
    | priority sid dep w e => rfl
    | goAway last code debug =>
      unfold Conn.recvFrame; simp only
      generalize c.streams.recvGoAwayFrame _ _ _ = r; obtain ⟨s, res⟩ := r; cases res <;> rfl
    | ping ack payload =>
      unfold Conn.recvFrame
      simp only
      generalize c.pingPong.recvPing ack payload = r
      obtain ⟨pp, status, woken, ok⟩ := r
      simp only
      have e1 : (if ok = true then ({ c with pingPong := pp, streams := c.streams.wake woken } : Conn)
          else ({ c with pingPong := pp, streams := c.streams.wake woken } : Conn).panic "ping_pong assertion").codec = c.codec := by
        split <;> rfl
      generalize (if ok = true then ({ c with pingPong := pp, streams := c.streams.wake woken } : Conn)
          else ({ c with pingPong := pp, streams := c.streams.wake woken } : Conn).panic "ping_pong assertion") = c1 at e1 ⊢
      split
      · simp only
        rw [dynGoAway_codec]
        split
        · exact e1
        · exact e1
      · exact e1

/-- what an acknowledged local SETTINGS frame does to the reader -/
def ackReader (r : Reader) (g5 g6 g1 : Option Nat) : Reader :=
  let r := match g5 with | some m => r.setMaxFrameSize m | none => r
  let r := match g6 with | some m => r.setMaxHeaderListSize m | none => r
  match g1 with | some v => { r with hpack := r.hpack.queueSizeUpdate v } | none => r

theorem ackReader_inv (r : Reader) (g5 g6 g1 : Option Nat) (h : RInv' r) : RInv' (ackReader r g5 g6 g1) := by
  obtain ⟨g, hg⟩ := h
  unfold ackReader
  cases g5 <;> cases g6 <;> cases g1 <;> exact ⟨g, ⟨hg.table, hg.part⟩⟩

theorem recvSettings_reader (c : Conn) (ack : Bool) (vals : List (Nat × Nat)) :
    (c.recvSettings ack vals).1.codec.r = c.codec.r ∨
    ∃ g5 g6 g1, (c.recvSettings ack vals).1.codec.r = ackReader c.codec.r g5 g6 g1 := by
  unfold Conn.recvSettings
  split
  · split
    · rename_i loc _
      right
      refine ⟨(loc.find? (fun p => p.1 = 5)).map (·.2), (loc.find? (fun p => p.1 = 6)).map (·.2),
        (loc.find? (fun p => p.1 = 1)).map (·.2), ?_⟩
      simp only
      split <;> rfl
    · exact Or.inl rfl
  · left
    simp only
    split <;> rfl

theorem recvSettings_cinv (c : Conn) (ack : Bool) (vals : List (Nat × Nat)) (h : CInv c) :
    CInv (c.recvSettings ack vals).1 := by
  unfold CInv at h ⊢
  rcases recvSettings_reader c ack vals with e | ⟨g5, g6, g1, e⟩
  · rw [e]; exact h
  · rw [e]; exact ackReader_inv _ _ _ _ h


theorem goAwayNowData_codec (c : Conn) (e : Reason) (d : Bytes) : (c.goAwayNowData e d).codec = c.codec := by
  unfold Conn.goAwayNowData
  simp only
  split <;> rfl

theorem ite_codec {p : Prop} [Decidable p] {a b : Conn} {x : Codec} (ha : a.codec = x) (hb : b.codec = x) :
    (if p then a else b).codec = x := by
  split <;> assumption

theorem handleGoAway_codec (c : Conn) (r : Reason) (d : Bytes) (i : Initiator) : (c.handleGoAway r d i).codec = c.codec := by
  unfold Conn.handleGoAway
  apply ite_codec rfl
  simp only
  rw [goAwayNowData_codec]

theorem handlePoll2Result_codec (c : Conn) (res : Except PErr Unit) : (c.handlePoll2Result res).1.codec = c.codec := by
  unfold Conn.handlePoll2Result
  split
  · rfl
  · exact handleGoAway_codec _ _ _ _
  · split
    · rfl
    · split
      · rfl
      · simp only; rw [handleGoAway_codec]
  · simp only
    split <;> (split <;> rfl)

theorem poll2Loop_cinv : ∀ (fuel : Nat) (c : Conn), CInv c → CInv (Conn.poll2Loop fuel c).1
  | 0, c, h => h
  | fuel + 1, c, h => by
    unfold Conn.poll2Loop
    simp only
    have goOn : ∀ (c1 : Conn), CInv c1 → CInv
        (match c1.pollReady with
          | (c, .pending) => (c, PollRes.pending)
          | (c, .err e) => (c, .ready (.error e))
          | (c, .ok) =>
            let (codec, polled) := pollNext (c.codec.r.buf.length + c.codec.io.rd.length + 2) c.codec c.cx
            let c := { c with codec := codec }
            match polled with
            | .pending => (c, .pending)
            | .err e => (c, .ready (.error (Conn.rerrToPErr e)))
            | .ioErr kind msg => (c, .ready (.error (.io kind msg)))
            | other =>
              let frame := match other with | .frame f => some f | _ => none
              match c.recvFrame frame with
              | (c, .error e) => (c, .ready (.error e))
              | (c, .ok .continue) => Conn.poll2Loop fuel c
              | (c, .ok .done) => (c, .ready (.ok ()))
              | (c, .ok (.settings ack vals)) =>
                match c.recvSettings ack vals with
                | (c, .error e) => (c, .ready (.error e))
                | (c, .ok _) => Conn.poll2Loop fuel c).1 := by
      intro c1 h1
      have hp := cinv_of_reader h1 (pollReady_r c1)
      generalize c1.pollReady = x at hp ⊢
      obtain ⟨c2, st⟩ := x
      cases st with
      | pending => exact hp
      | err e => exact hp
      | ok =>
        simp only at hp ⊢
        have hn := (pollNext_good (c2.codec.r.buf.length + c2.codec.io.rd.length + 2) c2.codec c2.cx hp).1
        generalize pollNext (c2.codec.r.buf.length + c2.codec.io.rd.length + 2) c2.codec c2.cx = y at hn ⊢
        obtain ⟨codec, polled⟩ := y
        simp only at hn ⊢
        have hc3 : CInv { c2 with codec := codec } := hn
        generalize ({ c2 with codec := codec } : Conn) = c3 at hc3 ⊢
        have rest : ∀ (frame : Option Frame.Frame), CInv
            (match c3.recvFrame frame with
              | (c, .error e) => (c, PollRes.ready (.error e))
              | (c, .ok .continue) => Conn.poll2Loop fuel c
              | (c, .ok .done) => (c, .ready (.ok ()))
              | (c, .ok (.settings ack vals)) =>
                match c.recvSettings ack vals with
                | (c, .error e) => (c, .ready (.error e))
                | (c, .ok _) => Conn.poll2Loop fuel c).1 := by
          intro frame
          have hf : CInv (c3.recvFrame frame).1 := cinv_of_reader hc3 (by rw [recvFrame_codec])
          generalize c3.recvFrame frame = z at hf ⊢
          obtain ⟨c4, res⟩ := z
          cases res with
          | error e => exact hf
          | ok rf =>
            cases rf with
            | «continue» => exact poll2Loop_cinv fuel c4 hf
            | done => exact hf
            | settings ack vals =>
              simp only
              have hs := recvSettings_cinv c4 ack vals hf
              generalize c4.recvSettings ack vals = w at hs ⊢
              obtain ⟨c5, res5⟩ := w
              cases res5 with
              | error e => exact hs
              | ok u => exact poll2Loop_cinv fuel c5 hs
        cases polled with
        | pending => exact hc3
        | err e => exact hc3
        | ioErr k m => exact hc3
        | frame f => exact rest _
        | eof => exact rest none
    have hg := cinv_of_reader h (sendPendingGoAway_r c)
    generalize c.sendPendingGoAway = x at hg ⊢
    obtain ⟨c1, gp⟩ := x
    cases gp with
    | pending => exact hg
    | err e => exact hg
    | none => exact goOn c1 hg
    | reason r =>
      simp only
      split
      · split <;> exact hg
      · exact goOn c1 hg


theorem poll2_cinv (fuel : Nat) (c : Conn) (h : CInv c) : CInv (Conn.poll2 fuel c).1 := by
  unfold Conn.poll2
  exact poll2Loop_cinv fuel _ h

theorem takeError_codec (c : Conn) (o : Reason) (i : Initiator) : (c.takeError o i).1.codec = c.codec := by
  unfold Conn.takeError
  simp only
  repeat' split
  all_goals rfl

/-- **`proto::Connection::poll` keeps the connection invariant** (the read half is only ever touched by
    `poll_next` and acknowledged settings) -/
theorem protoPoll_cinv : ∀ (fuel : Nat) (c : Conn), CInv c → CInv (Conn.protoPoll fuel c).1
  | 0, c, h => h
  | fuel + 1, c, h => by
    unfold Conn.protoPoll
    split
    · have h2 := poll2_cinv (fuel + 1) c h
      generalize Conn.poll2 (fuel + 1) c = x at h2 ⊢
      obtain ⟨c1, pr⟩ := x
      cases pr with
      | ready result =>
        simp only
        have h3 : CInv (c1.handlePoll2Result result).1 := cinv_of_reader h2 (by rw [handlePoll2Result_codec])
        generalize c1.handlePoll2Result result = y at h3 ⊢
        obtain ⟨c2, res⟩ := y
        cases res with
        | ok u => exact protoPoll_cinv fuel c2 h3
        | error e => exact h3
      | pending =>
        simp only
        generalize Streams.pollComplete (fuel + 1) c1.streams c1.codec.w c1.codec.io c1.cx = y
        obtain ⟨s, w, io, r⟩ := y
        simp only
        have h3 : CInv { c1 with streams := s, codec := { c1.codec with w := w, io := io } } := h2
        cases r with
        | pending => exact h3
        | err k => exact h3
        | ready =>
          simp only
          split
          · exact protoPoll_cinv fuel _ (cinv_of_reader h3 (by unfold Conn.goAwayNow; rw [goAwayNowData_codec]))
          · exact h3
    · rename_i reason init _
      simp only
      generalize shutdownW c.codec.w c.codec.io c.cx = y
      obtain ⟨w, io, r⟩ := y
      simp only
      have h3 : CInv { c with codec := { c.codec with w := w, io := io } } := h
      cases r with
      | pending => exact h3
      | err k => exact h3
      | ready => exact protoPoll_cinv fuel _ h3
    · simp only
      exact cinv_of_reader h (by rw [takeError_codec])

theorem clientPoll_cinv (fuel : Nat) (c : Conn) (h : CInv c) : CInv (Conn.clientPoll fuel c).1 := by
  unfold Conn.clientPoll
  simp only
  have h1 : CInv (if !c.hasStreamsOrOtherReferences then c.goAwayNow NO_ERROR else c) := by
    split
    · exact cinv_of_reader h (by unfold Conn.goAwayNow; rw [goAwayNowData_codec])
    · exact h
  generalize (if !c.hasStreamsOrOtherReferences then c.goAwayNow NO_ERROR else c) = c1 at h1 ⊢
  have h2 := protoPoll_cinv fuel c1 h1
  generalize Conn.protoPoll fuel c1 = x at h2 ⊢
  obtain ⟨c2, r⟩ := x
  simp only
  repeat' split
  all_goals first | exact h2 | exact cinv_of_reader h2 rfl

/-- both handshakes establish the invariant, whatever the builder options -/
theorem init_cinv (g : Conn.Cfg) : CInv (Conn.init g) := by
  unfold Conn.init CInv
  simp only
  have hr : RInv' (match g.mhl with
      | some m => (match g.mfs with
          | some m => (Reader.new Generated.Consts.DEFAULT_MAX_FRAME_SIZE).setMaxFrameSize m
          | none => Reader.new Generated.Consts.DEFAULT_MAX_FRAME_SIZE).setMaxHeaderListSize m
      | none => (match g.mfs with
          | some m => (Reader.new Generated.Consts.DEFAULT_MAX_FRAME_SIZE).setMaxFrameSize m
          | none => Reader.new Generated.Consts.DEFAULT_MAX_FRAME_SIZE)) := by
    have base := rinv_new Generated.Consts.DEFAULT_MAX_FRAME_SIZE
    cases g.mhl <;> cases g.mfs <;> exact ⟨[], ⟨base.table, base.part⟩⟩
  split <;> exact hr

theorem initServer_cinv (g : Conn.Cfg) (ecp : Bool) (pf : Bytes) : CInv (Conn.initServer g ecp pf) := by
  unfold Conn.initServer CInv
  simp only
  have hr : RInv' (match g.mhl with
      | some m => (match g.mfs with
          | some m => (Reader.new Generated.Consts.DEFAULT_MAX_FRAME_SIZE).setMaxFrameSize m
          | none => Reader.new Generated.Consts.DEFAULT_MAX_FRAME_SIZE).setMaxHeaderListSize m
      | none => (match g.mfs with
          | some m => (Reader.new Generated.Consts.DEFAULT_MAX_FRAME_SIZE).setMaxFrameSize m
          | none => Reader.new Generated.Consts.DEFAULT_MAX_FRAME_SIZE)) := by
    have base := rinv_new Generated.Consts.DEFAULT_MAX_FRAME_SIZE
    cases g.mhl <;> cases g.mfs <;> exact ⟨[], ⟨base.table, base.part⟩⟩
  split <;> exact hr


/-! ### one received frame, in the reference's terms -/

/-- what `recv_frame` may hand to the application for a frame `poll_next` yielded, in terms of
    `H2V.Spec.Http` on the block's field list -/
def ValidFrameEvent (cfg : Bool × Bool) (f : Option Frame.Frame) (ev : REvent) : Prop :=
  match f with
  | some (.headers _ _ _ blk) => ∃ g, BlockInv blk g ∧ (∀ x ∈ g, fieldOk x = true) ∧ ValidEvent cfg g ev
  | some (.data _ payload eos _) => ev = .data payload (!eos)
  | some (.pushPromise _ promised blk) => ∃ g, BlockInv blk g ∧ (∀ x ∈ g, fieldOk x = true) ∧
      ∃ m u, ev = .request m u (groupInto [] (regular g)) ∧ Spec.Http.request g false = [] ∧
        (Spec.Http.get g ":method" = [Http.str "GET"] ∨ Spec.Http.get g ":method" = [Http.str "HEAD"]) ∧
        promiseClOk (Conn.headersIn promised false blk) = true
  | _ => False

/-- **one turn of the read loop, every connection state**: for a frame as `poll_next` yields it
    (`GoodFrame`, see `pollNext_good`), everything `recv_frame` puts into any receive queue is one
    message that satisfies the reference's rules (responses / trailers: up to the known findings F5a–c) -/
theorem recvFrame_valid (c : Conn) (f : Option Frame.Frame) (hgood : ∀ fr, f = some fr → GoodFrame fr) :
    Delivers (fun _ ev => ValidFrameEvent (cfgOf c.streams) f ev) c.streams (c.recvFrame f).1.streams := by
  refine (recvFrame_delivers c f).mono fun _ ev he => ?_
  cases f with
  | none => exact he
  | some fr =>
    have hg := hgood fr rfl
    cases fr with
    | headers sid eos d blk =>
      obtain ⟨hm, g, hb, hok⟩ := hg blk rfl
      exact ⟨g, hb, hok, frameAccepted_valid blk g sid eos _ ev hm hb hok he⟩
    | data sid payload eos pad => exact he
    | pushPromise sid promised blk =>
      obtain ⟨hm, g, hb, hok⟩ := hg blk rfl
      exact ⟨g, hb, hok, accepted_promise_rules blk g promised ev hm hb hok he⟩
    | reset sid code => exact he
    | windowUpdate sid inc => exact he
    | settings ack vals => exact he
    | priority sid dep w e => exact he
    | goAway last code debug => exact he
    | ping ack payload => exact he

end H2V.Lemmas.ConnHttpP
