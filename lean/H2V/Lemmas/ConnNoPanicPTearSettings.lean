import H2V.Lemmas.ConnNoPanicPTearEof
/-
  C08 (no panic) — part 13: SETTINGS.  `Send::apply_remote_settings` / `Recv::apply_local_settings` walk
  the store with light closures.
-/
namespace H2V.Lemmas.ConnNoPanicP
open H2V H2V.Model H2V.Model.Conn H2V.Lemmas.ConnCountsP

/-- a light step keeps `NPI ∧ ErrOK` (and the id map) -/
theorem NPE.light {E : Nat → Prop} {ρ : Bool} {ks : List Nat} {s s' : Streams} (h : NPE E s) (hlt : LT ks s s')
    (hl : LiveAll s ks) (e : EvB ρ s s') (hE : ρ = true → ∀ k, ¬ E k) : NPE E s' :=
  ⟨h.1.lt hlt.w hl e hE, hlt.err.errOK h.2⟩

/-- a light closure as a loop body -/
theorem light_body {E : Nat → Prop} {ρ : Bool} {t t' : Streams} {k : Nat} (ht : NPI E t) (hte : ErrOK t) (hk : Live t k)
    (hlt : LT [k] t t') (e : EvB ρ t t') (hE : ρ = true → ∀ k, ¬ E k) :
    NPI E t' ∧ ErrOK t' ∧ t.store.ids.length ≤ t'.store.ids.length + 1 :=
  ⟨ht.lt hlt.w (liveAll1 hk) e hE, hlt.err.errOK hte, by rw [hlt.ids]; omega⟩

theorem tryForEachAcc_npe {E : Nat → Prop} {f : Nat → Streams → Nat → Streams × Nat × Option PErr}
    (hf : ∀ a t k, NPI E t → ErrOK t → Live t k →
      NPI E (f a t k).1 ∧ ErrOK (f a t k).1 ∧ t.store.ids.length ≤ (f a t k).1.store.ids.length + 1)
    {s : Streams} (h : NPE E s) (fuel acc : Nat) : NPE E (Streams.tryForEachAcc f fuel 0 s.store.ids.length acc s).1 :=
  tryForEachAcc_inv (I := NPE E) (fun a t e ht hm =>
    let r := hf a t e.2 ht.1 ht.2 (ht.1.ids.live e hm).1
    ⟨⟨r.1, r.2.1⟩, r.2.2⟩) _ _ _ _ s h (Nat.le_refl _)

theorem modSend_npe {E : Nat → Prop} {s : Streams} (h : NPE E s) (f : Send → Send)
    (hp : ∀ p, (f p).prioritize = p.prioritize) (hn : (f s.actions.send).nextStreamId = s.actions.send.nextStreamId) :
    NPE E (s.modSend f) :=
  h.light (modSend_lt (ks := []) s f hp) (liveAll0 s) (modSend_ev (ρ := false) s f hp (by rw [hn]; exact NextOK.refl _ _)) noE

-- ===================================================================== `Send::apply_remote_settings`

/-- the SETTINGS_INITIAL_WINDOW_SIZE part of `Send::apply_remote_settings` (copied from the model; `sars_eq` is `rfl`) -/
def sarsWindow (s : Streams) (initialWindowSize : Option Nat) : Streams × Option PErr :=
  match initialWindowSize with
  | none => (s, none)
  | some val =>
    let oldVal := s.actions.send.initWindowSz
    let s := s.modSend fun sd => { sd with initWindowSz := val }
    if val < oldVal then
      let dec := oldVal - val
      match Streams.tryForEachAcc (Streams.decStreamWindow dec) (2 * s.store.ids.length + 1) 0 s.store.ids.length 0 s with
      | (s, _, some e) => (s, some e)
      | (s, total, none) => (s.assignConnectionCapacity total, none)
    else if val > oldVal then
      let inc := val - oldVal
      s.storeTryForEach fun s id =>
        match s.sendRecvStreamWindowUpdate id inc with
        | (s, .error r) => (s, some (PErr.libraryGoAway r))
        | (s, .ok _) => (s, none)
    else (s, none)

theorem sars_eq (s : Streams) (a b c : Option Nat) :
    s.sendApplyRemoteSettings a b c =
      (let (s, res) : Streams × Option PErr := sarsWindow (match c with
        | some v => s.modSend fun sd => { sd with isExtendedConnectProtocolEnabled := v != 0 }
        | none => s) a
      match res with
      | some e => (s, .error e)
      | none =>
        ((match b with
          | some v => s.modSend fun sd => { sd with isPushEnabled := v != 0 }
          | none => s), .ok ())) := rfl

theorem sarsWindow_npe {E : Nat → Prop} {s : Streams} (h : NPE E s) (a : Option Nat) : NPE E (sarsWindow s a).1 := by
  unfold sarsWindow
  split
  · exact h
  · next val =>
    dsimp only
    have h2 : NPE E (s.modSend fun sd => { sd with initWindowSz := val }) := modSend_npe h _ (fun _ => rfl) rfl
    generalize (s.modSend fun sd => { sd with initWindowSz := val }) = s2 at h2 ⊢
    split
    · have h3 := tryForEachAcc_npe (E := E) (f := Streams.decStreamWindow (s.actions.send.initWindowSz - val))
        (fun a t k ht hte hk => light_body ht hte hk (decStreamWindow_lt _ a t k) (decStreamWindow_ev (ρ := false) _ a t k) noE)
        h2 (2 * s2.store.ids.length + 1) 0
      split
      · next s3 _ e heq => rw [heq] at h3; exact h3
      · next s3 total heq =>
        rw [heq] at h3
        exact h3.light (assignConnectionCapacity_lt s3 total) (liveAll0 _) (assignConnectionCapacity_ev (ρ := false) s3 total) noE
    · split
      · refine storeTryForEach_npe (E := E) ?_ h2.1 h2.2
        intro t k ht hte hk _
        have := light_body ht hte hk (sendRecvStreamWindowUpdate_lt t k (val - s.actions.send.initWindowSz))
          (sendRecvStreamWindowUpdate_ev (ρ := false) t k _) noE
        split
        · next s' r heq => rw [heq] at this; exact this
        · next s' _ heq => rw [heq] at this; exact this
      · exact h2

theorem sendApplyRemoteSettings_npe {E : Nat → Prop} {s : Streams} (h : NPI E s) (he : ErrOK s) (a b c : Option Nat) :
    NPE E (s.sendApplyRemoteSettings a b c).1 := by
  rw [sars_eq]
  have h1 : NPE E (match c with
      | some v => s.modSend fun sd => { sd with isExtendedConnectProtocolEnabled := v != 0 }
      | none => s) := by
    split
    · exact modSend_npe ⟨h, he⟩ _ (fun _ => rfl) rfl
    · exact ⟨h, he⟩
  have h2 := sarsWindow_npe h1 a
  generalize sarsWindow _ a = p at h2 ⊢
  obtain ⟨s2, res⟩ := p
  dsimp only at h2 ⊢
  split
  · exact h2
  · dsimp only
    split
    · exact modSend_npe h2 _ (fun _ => rfl) rfl
    · exact h2

theorem sendApplyRemoteSettings_npi {E : Nat → Prop} {s : Streams} (h : NPI E s) (he : ErrOK s) (a b c : Option Nat) :
    NPI E (s.sendApplyRemoteSettings a b c).1 := (sendApplyRemoteSettings_npe h he a b c).1

/-- `Streams::apply_remote_settings` -/
theorem applyRemoteSettings_npe {E : Nat → Prop} {s : Streams} (h : NPI E s) (he : ErrOK s) (vals : List (Nat × Nat)) (b : Bool) :
    NPE E (s.applyRemoteSettings vals b).1 := by
  unfold Streams.applyRemoteSettings
  dsimp only
  have hc : ∀ o, CStep s.counts (s.counts.applyRemoteSettings o b) := by
    intro o
    unfold Counts.applyRemoteSettings
    split
    · exact ⟨rfl, rfl, rfl, rfl, rfl, rfl, rfl, rfl, .inl rfl, .inl (Nat.le_refl _)⟩
    · split
      · exact ⟨rfl, rfl, rfl, rfl, rfl, rfl, rfl, rfl, .inl rfl, .inl (Nat.le_refl _)⟩
      · exact CStep.refl _
  have h1 : NPE E (s.modCounts fun c => c.applyRemoteSettings ((vals.find? (·.1 = 3)).map (·.2)) b) := by
    refine NPE.light (ks := []) ⟨h, he⟩ (modCounts_lt s _ ?_) (liveAll0 s) (modCounts_ev (ρ := false) s _ (hc _)) noE
    unfold Counts.applyRemoteSettings
    split
    · exact ⟨rfl, rfl⟩
    · split <;> exact ⟨rfl, rfl⟩
  exact sendApplyRemoteSettings_npe h1.1 h1.2 _ _ _

theorem applyRemoteSettings_npi {E : Nat → Prop} {s : Streams} (h : NPI E s) (he : ErrOK s) (vals : List (Nat × Nat)) (b : Bool) :
    NPI E (s.applyRemoteSettings vals b).1 := (applyRemoteSettings_npe h he vals b).1

-- ===================================================================== `Recv::apply_local_settings`

/-- the closure of the "window shrinks" branch (copied from the model; `als_eq` is `rfl`) -/
def alsDec (dec : Nat) (s : Streams) (id : Nat) : Streams × Option PErr :=
  match (s.stream id).recvFlow.decRecvWindow dec with
  | (fl, .error _) => (s.modStream id fun st => { st with recvFlow := fl }, some (PErr.libraryGoAway FLOW_CONTROL_ERROR))
  | (fl, .ok _) =>
    let s := s.modStream id fun st => { st with recvFlow := fl }
    if fl.unclaimedCapacity.isSome then ((s.qPush .pendingWindowUpdates id).1, none) else (s, none)

/-- the closure of the "window grows" branch -/
def alsInc (inc : Nat) (s : Streams) (id : Nat) : Streams × Option PErr :=
  match (s.stream id).recvFlow.incWindow inc with
  | (_, .error _) => (s, some (PErr.libraryGoAway FLOW_CONTROL_ERROR))
  | (fl, .ok _) =>
    match fl.assignCapacity inc with
    | (fl2, .error _) => (s.modStream id fun st => { st with recvFlow := fl2 }, some (PErr.libraryGoAway FLOW_CONTROL_ERROR))
    | (fl2, .ok _) => (s.modStream id fun st => { st with recvFlow := fl2 }, none)

theorem als_eq (s : Streams) (a b : Option Nat) :
    s.applyLocalSettings a b =
      (let s := match b with
        | some v => s.modRecv fun r => { r with isExtendedConnectProtocolEnabled := v != 0 }
        | none => s
      match a with
      | none => (s, .ok ())
      | some target =>
        let oldSz := s.recv.initWindowSz
        let s := s.modRecv fun r => { r with initWindowSz := target }
        let (s, res) : Streams × Option PErr :=
          if target < oldSz then s.storeTryForEach (alsDec (oldSz - target))
          else if target > oldSz then s.storeTryForEach (alsInc (target - oldSz))
          else (s, none)
        match res with
        | some e => (s, .error e)
        | none => (s, .ok ())) := rfl

theorem alsDec_lt (dec : Nat) (s : Streams) (k : Nat) : LT [k] s (alsDec dec s k).1 := by
  unfold alsDec; lt_auto
theorem alsInc_lt (inc : Nat) (s : Streams) (k : Nat) : LT [k] s (alsInc inc s k).1 := by
  unfold alsInc; lt_auto
theorem alsDec_ev {ρ : Bool} (dec : Nat) (s : Streams) (k : Nat) : EvB ρ s (alsDec dec s k).1 := by
  unfold alsDec; ev_auto
theorem alsInc_ev {ρ : Bool} (inc : Nat) (s : Streams) (k : Nat) : EvB ρ s (alsInc inc s k).1 := by
  unfold alsInc; ev_auto

theorem modRecv_npe {E : Nat → Prop} {s : Streams} (h : NPE E s) (f : Recv → Recv)
    (hq : ∀ p, (f p).pendingWindowUpdates = p.pendingWindowUpdates ∧ (f p).pendingAccept = p.pendingAccept ∧
      (f p).pendingResetExpired = p.pendingResetExpired) : NPE E (s.modRecv f) :=
  h.light (modRecv_lt (ks := []) s f) (liveAll0 s) (modRecv_ev (ρ := false) s f hq) noE

theorem applyLocalSettings_npe {E : Nat → Prop} {s : Streams} (h : NPI E s) (he : ErrOK s) (a b : Option Nat) :
    NPE E (s.applyLocalSettings a b).1 := by
  rw [als_eq]
  dsimp only
  have h1 : NPE E (match b with
      | some v => s.modRecv fun r => { r with isExtendedConnectProtocolEnabled := v != 0 }
      | none => s) := by
    split
    · exact modRecv_npe ⟨h, he⟩ _ (fun _ => ⟨rfl, rfl, rfl⟩)
    · exact ⟨h, he⟩
  generalize (match b with
      | some v => s.modRecv fun r => { r with isExtendedConnectProtocolEnabled := v != 0 }
      | none => s) = s1 at h1 ⊢
  split
  · exact h1
  · next target =>
    have h2 : NPE E (s1.modRecv fun r => { r with initWindowSz := target }) := modRecv_npe h1 _ (fun _ => ⟨rfl, rfl, rfl⟩)
    generalize (s1.modRecv fun r => { r with initWindowSz := target }) = s2 at h2 ⊢
    have h3 : NPE E (if target < s1.recv.initWindowSz then s2.storeTryForEach (alsDec (s1.recv.initWindowSz - target))
        else if target > s1.recv.initWindowSz then s2.storeTryForEach (alsInc (target - s1.recv.initWindowSz))
        else (s2, none)).1 := by
      split
      · exact storeTryForEach_npe (fun t k ht hte hk _ => light_body ht hte hk (alsDec_lt _ t k) (alsDec_ev (ρ := false) _ t k) noE) h2.1 h2.2
      · split
        · exact storeTryForEach_npe (fun t k ht hte hk _ => light_body ht hte hk (alsInc_lt _ t k) (alsInc_ev (ρ := false) _ t k) noE) h2.1 h2.2
        · exact h2
    generalize (if target < s1.recv.initWindowSz then s2.storeTryForEach (alsDec (s1.recv.initWindowSz - target))
        else if target > s1.recv.initWindowSz then s2.storeTryForEach (alsInc (target - s1.recv.initWindowSz))
        else (s2, none)) = p at h3 ⊢
    obtain ⟨s3, res⟩ := p
    dsimp only at h3 ⊢
    split <;> exact h3

theorem applyLocalSettings_npi {E : Nat → Prop} {s : Streams} (h : NPI E s) (he : ErrOK s) (a b : Option Nat) :
    NPI E (s.applyLocalSettings a b).1 := (applyLocalSettings_npe h he a b).1

theorem applyLocalSettingsFrame_npe {E : Nat → Prop} {s : Streams} (h : NPI E s) (he : ErrOK s) (vals : List (Nat × Nat)) :
    NPE E (s.applyLocalSettingsFrame vals).1 := by
  unfold Streams.applyLocalSettingsFrame
  exact applyLocalSettings_npe h he _ _

theorem applyLocalSettingsFrame_npi {E : Nat → Prop} {s : Streams} (h : NPI E s) (he : ErrOK s) (vals : List (Nat × Nat)) :
    NPI E (s.applyLocalSettingsFrame vals).1 := (applyLocalSettingsFrame_npe h he vals).1

end H2V.Lemmas.ConnNoPanicP
