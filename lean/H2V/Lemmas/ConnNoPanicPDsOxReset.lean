import H2V.Lemmas.ConnNoPanicPDsOxFns
/-
  C08 (no panic) — the residual hypothesis `OH` as an invariant, part 3: `clear_queue`, `Send::handle_error`, `send_reset`,
  `schedule_implicit_reset`, `send_trailers`, the typed `send_push_promise` / `send_interim_informational_headers`.
-/
namespace H2V.Lemmas.ConnNoPanicP
open H2V H2V.Model H2V.Model.Conn H2V.Lemmas.ConnCountsP
attribute [local irreducible] wrapSubU32 wrapSubUsize

variable {sv : Bool}

/-- entry `k`, if it exists, is closed -/
def ClosedAt (s : Streams) (k : Nat) : Prop := Live s k → (s.stream k).state.isClosed = true

theorem ClosedAt.of_store {s t : Streams} {k : Nat} (h : t.store = s.store) (hc : ClosedAt s k) : ClosedAt t k := by
  intro hl
  rw [stream_of_store_eqP h]
  exact hc (by unfold Live at *; rw [← h]; exact hl)

theorem ClosedAt.modStream {s : Streams} {k : Nat} (g : Stream → Stream) (hk : ∀ x, (g x).key = x.key)
    (hg : ∀ x, (g x).state = x.state) (hc : ClosedAt s k) : ClosedAt (s.modStream k g) k := by
  intro hl
  have hl0 : Live s k := (SameKeys.modStream s k g).live.mp hl
  rw [stream_modStream_live hl0 g hk, hg]; exact hc hl0

theorem closedAt_setReset (s : Streams) (k : Nat) (r : Reason) (i : Initiator) :
    ClosedAt (s.modStreamW k fun st => st.setReset r i) k := by
  intro hl
  have hl0 : Live s k := by
    unfold Live at *
    by_cases h : ∃ x, s.store.get? k = some x
    · exact h
    · have hn := get?_none_of_not_live (s := s) (k := k) h
      unfold Streams.modStreamW at hl; rw [hn, panic_store] at hl; exact hl
  rw [stream_modStreamW_live hl0 _ (fun x => (ConnFlowP.setReset_state x r i).2), (ConnFlowP.setReset_state _ r i).1]
  rfl

-- ===================================================================== clear_queue

theorem xp_clear (x : Stream) (h : x.state.isSendStreaming = false) : (fClr x).key = x.key ∧ Xp sv x (fClr x) := by
  refine ⟨rfl, ⟨fun r hx => ⟨fun hl hs => ⟨rfl, (hx.n hl hs).2.1, rfl⟩, fun hf => ?_, fun _ => Nat.zero_le _⟩⟩⟩
  rcases hx.f hf with hw | hd
  · exact .inl ⟨hw.1, rfl, fun _ => ⟨h, rfl⟩⟩
  · exact .inr ⟨hd.1, rfl, rfl⟩

theorem clearQueue_xk (s : Streams) (k : Nat) (h : Live s k → (s.stream k).state.isSendStreaming = false) :
    XK sv s (s.clearQueue k) := by
  have h1 : XK sv s (s.modStream k fClr) := modStream_xk_live _ _ _ (fun hl => xp_clear _ (h hl))
  rw [clearQueue_eq]
  split
  · split
    · exact h1.trans (modPrio_xk _ _)
    · exact h1
  · exact h1

theorem clearQueue_closedAt {s : Streams} {k : Nat} (hc : ClosedAt s k) : ClosedAt (s.clearQueue k) k := by
  have h1 : ClosedAt (s.modStream k fClr) k := hc.modStream fClr (fun _ => rfl) (fun _ => rfl)
  rw [clearQueue_eq]
  split
  · split
    · exact h1.of_store rfl
    · exact h1
  · exact h1

theorem sendHandleError_xk (s : Streams) (k : Nat) (hc : ClosedAt s k) : XK sv s (s.sendHandleError k) := by
  unfold Streams.sendHandleError
  have h1 : XK sv s ((s.clearQueue k).reclaimAllCapacity k) :=
    (clearQueue_xk s k (fun hl => closed_not_streaming (hc hl))).trans (reclaimAllCapacity_xk _ _)
  generalize ((s.clearQueue k).reclaimAllCapacity k) = t at h1 ⊢
  xk_auto

-- ===================================================================== send_reset

theorem xp_keep (x : Stream) (f : SFrame) (hc : x.state.isClosed = true) (hf : x.pendingSend.head? = some f) :
    (fApp f (fClr (fDrop x))).key = x.key ∧ Xp sv x (fApp f (fClr (fDrop x))) := by
  have hle : dsum [f] ≤ dsum x.pendingSend := by
    have := dsum_head_le x.pendingSend; rw [hf] at this; exact this
  refine ⟨rfl, ⟨fun r hx => ⟨fun _ hs => (by have hs' : suB x.state = true := hs; rw [suB_closed hc] at hs'; cases hs'),
    fun hfl => ?_, fun _ => Nat.zero_le _⟩⟩⟩
  have hfl' : flagB x = true := hfl
  rcases hx.f hfl' with hw | hd
  · refine .inl ⟨hw.1, ?_, fun hp => absurd hp (by show ([] ++ [f] : List SFrame) ≠ []; simp)⟩
    show dsum ([] ++ [f] : List SFrame).head?.toList = 0
    have := hw.2.1; unfold hnd at this; rw [hf] at this; exact this
  · refine .inr ⟨hd.1, ?_, rfl⟩
    show dsum ([] ++ [f] : List SFrame) = 0
    have := hd.2.1
    simp only [List.nil_append]; omega

theorem xp_dropClear (x : Stream) (hc : x.state.isClosed = true) :
    (fClr (fDrop x)).key = x.key ∧ Xp sv x (fClr (fDrop x)) := by
  refine ⟨rfl, ⟨fun r hx => ⟨fun _ hs => (by have hs' : suB x.state = true := hs; rw [suB_closed hc] at hs'; cases hs'),
    fun hfl => ?_, fun _ => Nat.zero_le _⟩⟩⟩
  have hfl' : flagB x = true := hfl
  rcases hx.f hfl' with hw | hd
  · exact .inl ⟨hw.1, rfl, fun _ => ⟨closed_not_streaming hc, rfl⟩⟩
  · exact .inr ⟨hd.1, rfl, rfl⟩

theorem ClosedAt.nsu {s : Streams} {k : Nat} (hc : ClosedAt s k) :
    Live s k → ∀ r, XEr sv r (s.stream k) → locId sv (s.stream k).id = true → suB (s.stream k).state = true → False :=
  fun hl _ _ _ hsu => by rw [suB_closed (hc hl)] at hsu; cases hsu

theorem sendSendReset_xk (s : Streams) (k : Nat) (r : Reason) (i : Initiator) : XK sv s (s.sendSendReset k r i) := by
  unfold Streams.sendSendReset
  dsimp only
  split
  · exact .refl _
  · have e1 : XK sv s (s.modStreamW k fun st => st.setReset r i) := modStreamW_xk _ _ _ (setReset_xp _ r i)
    have hc1 := closedAt_setReset s k r i
    generalize (s.modStreamW k fun st => st.setReset r i) = s1 at e1 hc1 ⊢
    split
    · exact e1
    · have tail : ∀ t : Streams, XK sv s1 t → ClosedAt t k → XK sv s ((t.queueFrame k (.reset r)).reclaimAllCapacity k) :=
        fun t ht hct => e1.trans (ht.trans ((queueFrame_xk' t k _ rfl hct.nsu).trans (reclaimAllCapacity_xk _ _)))
      split
      · split
        · next f hf =>
          have hcomp : ((s1.modStream k fDrop).modStream k fClr).modStream k (fApp f) =
              s1.modStream k (fun x => fApp f (fClr (fDrop x))) := by
            rw [modStream_modStream s1 k fDrop fClr (fun _ => rfl) (fun _ => rfl),
                modStream_modStream s1 k (fun x => fClr (fDrop x)) (fApp f) (fun _ => rfl) (fun _ => rfl)]
          have hx : XK sv s1 (s1.modStream k (fun x => fApp f (fClr (fDrop x)))) :=
            modStream_xk_live _ _ _ (fun hl => xp_keep _ f (hc1 hl) hf)
          have hcc : ClosedAt (s1.modStream k (fun x => fApp f (fClr (fDrop x)))) k :=
            hc1.modStream _ (fun _ => rfl) (fun _ => rfl)
          show XK sv s ((Streams.queueFrame (((s1.modStream k fDrop).clearQueue k).modStream k (fApp f)) k (.reset r)).reclaimAllCapacity k)
          rw [clearQueue_eq, modStream_prio]
          split
          · split
            · rw [modPrio_modStream, hcomp]
              exact tail _ (hx.trans (modPrio_xk _ _)) (hcc.of_store rfl)
            · rw [hcomp]; exact tail _ hx hcc
          · rw [hcomp]; exact tail _ hx hcc
        · have hcomp : (s1.modStream k fDrop).modStream k fClr = s1.modStream k (fun x => fClr (fDrop x)) :=
            modStream_modStream s1 k fDrop fClr (fun _ => rfl) (fun _ => rfl)
          have hx : XK sv s1 (s1.modStream k (fun x => fClr (fDrop x))) :=
            modStream_xk_live _ _ _ (fun hl => xp_dropClear _ (hc1 hl))
          have hcc : ClosedAt (s1.modStream k (fun x => fClr (fDrop x))) k := hc1.modStream _ (fun _ => rfl) (fun _ => rfl)
          show XK sv s ((Streams.queueFrame ((s1.modStream k fDrop).clearQueue k) k (.reset r)).reclaimAllCapacity k)
          rw [clearQueue_eq, modStream_prio]
          split
          · split
            · rw [hcomp]; exact tail _ (hx.trans (modPrio_xk _ _)) (hcc.of_store rfl)
            · rw [hcomp]; exact tail _ hx hcc
          · rw [hcomp]; exact tail _ hx hcc
      · exact tail _ (clearQueue_xk s1 k (fun hl => closed_not_streaming (hc1 hl))) (clearQueue_closedAt hc1)

theorem sendRecvStreamWindowUpdate_xk (s : Streams) (k sz : Nat) : XK sv s (s.sendRecvStreamWindowUpdate k sz).1 := by
  unfold Streams.sendRecvStreamWindowUpdate; xk_auto
theorem resetOnRecvStreamErr_xk (s : Streams) (k : Nat) (res : Except PErr Unit) : XK sv s (s.resetOnRecvStreamErr k res).1 := by
  unfold Streams.resetOnRecvStreamErr; xk_auto
theorem actionsSendReset_xk (s : Streams) (k : Nat) (r : Reason) (i : Initiator) : XK sv s (s.actionsSendReset k r i).1 := by
  unfold Streams.actionsSendReset; xk_auto
theorem sendApplyRemoteSettings_xk (s : Streams) (a b c : Option Nat) : XK sv s (s.sendApplyRemoteSettings a b c).1 := by
  unfold Streams.sendApplyRemoteSettings; xk_auto

-- ===================================================================== typed: PUSH_PROMISE / 1xx only on peer-initiated entries

theorem sendPushPromise_xk (s : Streams) (p pk pid : Nat) (f : List Hpack.Field) (hty : locId sv (s.stream p).id = false) :
    XK sv s (s.sendPushPromise p pk pid f).1 := by
  unfold Streams.sendPushPromise
  split
  · exact .refl _
  · split
    · exact .refl _
    · split
      · exact .refl _
      · exact queueFrame_xk' s p _ rfl (fun _ _ _ hl _ => by rw [hty] at hl; cases hl)

theorem sendInterimInformationalHeaders_xk (s : Streams) (k : Nat) (f : List Hpack.Field)
    (hty : locId sv (s.stream k).id = false) : XK sv s (s.sendInterimInformationalHeaders k f).1 := by
  unfold Streams.sendInterimInformationalHeaders
  split
  · exact .refl _
  · dsimp only
    split
    · exact .refl _
    · exact queueFrame_xk' s k _ rfl (fun _ _ _ hl _ => by rw [hty] at hl; cases hl)

-- ===================================================================== schedule_implicit_reset, send_trailers

theorem scheduleImplicitReset_xk (s : Streams) (k : Nat) (r : Reason) : XK sv s (s.scheduleImplicitReset k r) := by
  unfold Streams.scheduleImplicitReset
  split
  · exact .refl _
  · dsimp only
    have h1 : XK sv s (s.modStream k fun st => { st with state := st.state.setScheduledReset r }) :=
      modStream_xk _ _ _ (by xp_tac)
    have hc1 : ClosedAt (s.modStream k fun st => { st with state := st.state.setScheduledReset r }) k := by
      intro hl
      have hl0 : Live s k := (SameKeys.modStream s k _).live.mp hl
      have := stream_modStream_live hl0 (fun st => ({ st with state := st.state.setScheduledReset r } : Stream)) (fun _ => rfl)
      rw [this]; rfl
    generalize (s.modStream k fun st => { st with state := st.state.setScheduledReset r }) = s1 at h1 hc1 ⊢
    have hsk := reclaimReservedCapacity_sk (sv := sv) s1 k
    refine h1.trans ((reclaimReservedCapacity_xk s1 k).trans (scheduleSend_xk' _ _ ?_))
    intro hl _ _ _ hsu
    have hl1 := hsk.live k hl
    have := (hsk.st k hl).su hsu
    rw [suB_closed (hc1 hl1)] at this; cases this

theorem sendTrailers_xk (s : Streams) (k : Nat) (f : List Hpack.Field) : XK sv s (s.sendTrailers k f).1 := by
  unfold Streams.sendTrailers
  split
  · exact .refl _
  · split
    · exact .refl _
    · next hss =>
      have hss' : (s.stream k).state.isSendStreaming = true := by
        cases h : (s.stream k).state.isSendStreaming with
        | true => rfl
        | false => rw [h] at hss; simp at hss
      dsimp only
      refine XK.trans ?_ (reserveCapacity_xk _ _ _)
      cases hsc : (s.stream k).state.sendClose with
      | none =>
        dsimp only
        refine (panic_xk s _).trans (queueFrame_xk' _ k _ rfl ?_)
        intro _ _ _ _ hsu
        rw [panic_stream, su_of_streaming hss'] at hsu; cases hsu
      | some st' =>
        dsimp only
        refine (modStream_xk s k _ (by xp_tac)).trans (queueFrame_xk' _ k _ rfl ?_)
        intro hl _ _ _ hsu
        have hl0 : Live s k := (SameKeys.modStream s k _).live.mp hl
        have := stream_modStream_live hl0 (fun st => ({ st with state := st' } : Stream)) (fun _ => rfl)
        rw [this] at hsu
        have hn : suB st' = false := sendClose_nsu hsc
        rw [show ({ s.stream k with state := st' } : Stream).state = st' from rfl, hn] at hsu; cases hsu

end H2V.Lemmas.ConnNoPanicP
