import H2V.Lemmas.ConnCountsPInvA
/-
  C05 / C18 / C19 — invariants, part B: counting slab entries through look-ups (under `KeysOK`), and
  what "no panic afterwards" tells about the counter primitives.
-/
namespace H2V.Lemmas.ConnCountsP
open H2V H2V.Model H2V.Model.Conn

-- ===================================================================== unique look-ups

theorem find?_unique (l : List Stream) (hn : (l.map (·.key)).Nodup) (x : Stream) (hx : x ∈ l) :
    l.find? (·.key == x.key) = some x := by
  induction l with
  | nil => cases hx
  | cons a l ih =>
    simp only [List.map_cons, List.nodup_cons] at hn
    simp only [List.find?_cons]
    by_cases hak : a.key == x.key
    · simp only [hak]
      rcases List.mem_cons.mp hx with h | h
      · rw [h]
      · exfalso
        apply hn.1
        simp at hak
        rw [hak]
        exact List.mem_map_of_mem h
    · simp only [hak]
      rcases List.mem_cons.mp hx with h | h
      · rw [h] at hak; simp at hak
      · exact ih hn.2 h

theorem KeysOK.get?_of_mem {s : Streams} (h : KeysOK s) {x : Stream} (hx : x ∈ s.store.slab) : s.store.get? x.key = some x :=
  find?_unique _ h.nodup x hx

theorem get?_mem {s : Streams} {k : Nat} {x : Stream} (h : s.store.get? k = some x) : x ∈ s.store.slab :=
  List.mem_of_find?_eq_some h

theorem KeysOK.eq_of_key {s : Streams} (h : KeysOK s) {k : Nat} {x y : Stream} (hx : s.store.get? k = some x)
    (hy : y ∈ s.store.slab) (hk : y.key = k) : y = x := by
  have := h.get?_of_mem hy
  rw [hk, hx] at this; cases this; rfl

-- ===================================================================== counting

/-- number of slab entries with `is_counted` -/
def cntAll (s : Streams) : Nat := s.store.slab.countP (·.isCounted)

def b2n (b : Bool) : Nat := if b then 1 else 0

theorem countP_upd (P : Stream → Bool) (st' : Stream) (l : List Stream) (hn : (l.map (·.key)).Nodup)
    (x : Stream) (hx : x ∈ l) (hk : st'.key = x.key) :
    (l.map fun y => if y.key == st'.key then st' else y).countP P + b2n (P x) = l.countP P + b2n (P st') := by
  induction l with
  | nil => cases hx
  | cons a l ih =>
    simp only [List.map_cons, List.nodup_cons] at hn
    simp only [List.map_cons, List.countP_cons]
    by_cases hak : a.key == st'.key
    · have hax : a = x := by
        rcases List.mem_cons.mp hx with h | h
        · exact h.symm
        · exfalso; apply hn.1
          simp at hak; rw [hak, hk]; exact List.mem_map_of_mem h
      subst hax
      have htail : (l.map fun y => if y.key == st'.key then st' else y) = l := by
        conv => rhs; rw [← List.map_id l]
        apply List.map_congr_left
        intro y hy
        have : (y.key == st'.key) = false := by
          simp only [beq_eq_false_iff_ne, ne_eq]
          intro he
          apply hn.1
          rw [← hk, ← he]; exact List.mem_map_of_mem hy
        simp [this]
      simp only [hak, if_true, htail]
      unfold b2n
      omega
    · have hxl : x ∈ l := by
        rcases List.mem_cons.mp hx with h | h
        · exfalso; apply hak; rw [← h, hk]; simp
        · exact h
      have := ih hn.2 hxl
      simp only [hak, Bool.false_eq_true, if_false]
      omega

theorem cntAll_setStream {s : Streams} (h : KeysOK s) (st' x : Stream) (hx : s.store.get? st'.key = some x) :
    cntAll (s.setStream st') + b2n x.isCounted = cntAll s + b2n st'.isCounted := by
  unfold cntAll Streams.setStream Store.set
  exact countP_upd (·.isCounted) st' s.store.slab h.nodup x (get?_mem hx) (get?_key hx).symm

theorem setStream_dangling (s : Streams) (st' : Stream) (h : s.store.get? st'.key = none) : (s.setStream st').store = s.store := by
  unfold Streams.setStream Store.set
  have : (s.store.slab.map fun x => if x.key == st'.key then st' else x) = s.store.slab := by
    conv => rhs; rw [← List.map_id s.store.slab]
    apply List.map_congr_left
    intro y hy
    unfold Store.get? at h
    rw [List.find?_eq_none] at h
    have := h y hy
    simp only [Bool.not_eq_true] at this
    simp [this]
  rw [this]

theorem cntAll_modStream {s : Streams} (h : KeysOK s) (k : Nat) (f : Stream → Stream) (hf : ∀ x, (f x).key = x.key) :
    (∃ x, s.store.get? k = some x ∧ cntAll (s.modStream k f) + b2n x.isCounted = cntAll s + b2n (f x).isCounted) ∨
    (s.store.get? k = none ∧ cntAll (s.modStream k f) = cntAll s) := by
  unfold Streams.modStream
  cases hx : s.store.get? k with
  | none => right; exact ⟨rfl, by unfold cntAll; rw [panic_store]⟩
  | some x =>
    left
    refine ⟨x, rfl, ?_⟩
    have hk : (f x).key = k := (hf x).trans (get?_key hx)
    exact cntAll_setStream h (f x) x (by rw [hk]; exact hx)

/-- an update that keeps `is_counted` keeps the count -/
theorem cntAll_modStream_same {s : Streams} (h : KeysOK s) (k : Nat) (f : Stream → Stream) (hf : ∀ x, (f x).key = x.key)
    (hc : ∀ x, (f x).isCounted = x.isCounted) : cntAll (s.modStream k f) = cntAll s := by
  rcases cntAll_modStream h k f hf with ⟨x, _, e⟩ | ⟨_, e⟩
  · rw [hc] at e; omega
  · exact e

theorem cntAll_of_store_eq {s s' : Streams} (h : s'.store = s.store) : cntAll s' = cntAll s := by unfold cntAll; rw [h]

theorem cntAll_insert (s : Streams) (st : Stream) (hc : st.isCounted = false) :
    cntAll { s with store := (s.store.insert st).1 } = cntAll s := by
  show (s.store.slab ++ [({ st with key := s.store.nextKey } : Stream)]).countP (·.isCounted) = _
  rw [List.countP_append]
  simp [List.countP_cons, hc, cntAll]

theorem cntAll_remove {s : Streams} (h : KeysOK s) (k n : Nat)
    (hg : ∀ st, s.store.get? k = some st → st.isCounted = false) :
    cntAll { s with store := s.store.remove k, recvBufferLeaked := n } = cntAll s := by
  show (s.store.slab.filter (·.key != k)).countP (·.isCounted) = s.store.slab.countP (·.isCounted)
  rw [List.countP_filter]
  apply List.countP_congr
  intro y hy
  by_cases hk : y.key = k
  · have := hg y (by rw [← hk]; exact h.get?_of_mem hy)
    simp [this]
  · simp [hk]

-- ===================================================================== "no panic afterwards"

theorem panic_ne_none (s : Streams) (m : String) : (s.panic m).panicked ≠ none := by
  have := panic_isSome s m
  intro h; rw [h] at this; cases this

theorem modStream_noPanic {s : Streams} {k : Nat} {f : Stream → Stream} (h : (s.modStream k f).panicked = none) :
    s.panicked = none ∧ ∃ x, s.store.get? k = some x := by
  unfold Streams.modStream at h
  cases hx : s.store.get? k with
  | none => rw [hx] at h; exact absurd h (panic_ne_none _ _)
  | some x => rw [hx] at h; exact ⟨h, x, rfl⟩

theorem ite_panic_noPanic {s : Streams} {c : Prop} [Decidable c] {m : String}
    (h : (if c then s else s.panic m).panicked = none) : c ∧ s.panicked = none := by
  split at h
  · next hc => exact ⟨hc, h⟩
  · exact absurd h (panic_ne_none _ _)

theorem ite_panic_noPanic' {s : Streams} {c : Prop} [Decidable c] {m : String}
    (h : (if c then s.panic m else s).panicked = none) : ¬ c ∧ s.panicked = none := by
  split at h
  · exact absurd h (panic_ne_none _ _)
  · next hc => exact ⟨hc, h⟩

/-- `inc_num_send_streams` without a panic: there was room, the stream exists and was not counted -/
theorem incNumSendStreams_spec {s : Streams} {k : Nat} (hA : KeysOK s) (h : (s.incNumSendStreams k).panicked = none) :
    s.panicked = none ∧ s.counts.canIncNumSendStreams = true ∧
    (∃ x, s.store.get? k = some x ∧ x.isCounted = false) ∧
    (s.incNumSendStreams k).counts = { s.counts with numSendStreams := s.counts.numSendStreams + 1 } ∧
    cntAll (s.incNumSendStreams k) = cntAll s + 1 := by
  unfold Streams.incNumSendStreams at h ⊢
  dsimp only at h ⊢
  obtain ⟨hp3, x, hx⟩ := modStream_noPanic h
  have hp2 : (if ((if s.counts.canIncNumSendStreams = true then s else s.panic "assertion failed: self.can_inc_num_send_streams()").stream k).isCounted = true then
      (if s.counts.canIncNumSendStreams = true then s else s.panic "assertion failed: self.can_inc_num_send_streams()").panic "assertion failed: !stream.is_counted"
      else (if s.counts.canIncNumSendStreams = true then s else s.panic "assertion failed: self.can_inc_num_send_streams()")).panicked = none := hp3
  obtain ⟨hnc, hp1⟩ := ite_panic_noPanic' hp2
  obtain ⟨hcan, hp0⟩ := ite_panic_noPanic hp1
  simp only [hcan, if_true] at hnc hx ⊢
  simp only [hnc, Bool.false_eq_true, if_false] at hx ⊢
  have hx' : s.store.get? k = some x := hx
  have hxc : x.isCounted = false := by
    rw [stream_of_get? hx'] at hnc; simpa using hnc
  refine ⟨hp0, trivial, ⟨x, hx', hxc⟩, ?_, ?_⟩
  · unfold Streams.modStream; rw [hx]; rfl
  · have hA' : KeysOK (s.modCounts fun c => { c with numSendStreams := c.numSendStreams + 1 }) := ⟨hA.nodup, hA.fresh⟩
    rcases cntAll_modStream hA' k (fun st => { st with isCounted := true }) (fun _ => rfl) with ⟨y, hy, e⟩ | ⟨hn, _⟩
    · have : y = x := by rw [show (s.modCounts _).store.get? k = s.store.get? k from rfl, hx'] at hy; cases hy; rfl
      subst this
      rw [hxc] at e
      have h0 : b2n false = 0 := rfl
      have h1 : b2n true = 1 := rfl
      have : cntAll (s.modCounts fun c => { c with numSendStreams := c.numSendStreams + 1 }) = cntAll s := rfl
      rw [h0, this] at e
      dsimp only at e
      rw [h1] at e
      omega
    · rw [show (s.modCounts _).store.get? k = s.store.get? k from rfl, hx'] at hn; cases hn

/-- `inc_num_recv_streams` without a panic -/
theorem incNumRecvStreams_spec {s : Streams} {k : Nat} (hA : KeysOK s) (h : (s.incNumRecvStreams k).panicked = none) :
    s.panicked = none ∧ s.counts.canIncNumRecvStreams = true ∧
    (∃ x, s.store.get? k = some x ∧ x.isCounted = false) ∧
    (s.incNumRecvStreams k).counts = { s.counts with numRecvStreams := s.counts.numRecvStreams + 1 } ∧
    cntAll (s.incNumRecvStreams k) = cntAll s + 1 := by
  unfold Streams.incNumRecvStreams at h ⊢
  dsimp only at h ⊢
  obtain ⟨hp3, x, hx⟩ := modStream_noPanic h
  have hp2 : (if ((if s.counts.canIncNumRecvStreams = true then s else s.panic "assertion failed: self.can_inc_num_recv_streams()").stream k).isCounted = true then
      (if s.counts.canIncNumRecvStreams = true then s else s.panic "assertion failed: self.can_inc_num_recv_streams()").panic "assertion failed: !stream.is_counted"
      else (if s.counts.canIncNumRecvStreams = true then s else s.panic "assertion failed: self.can_inc_num_recv_streams()")).panicked = none := hp3
  obtain ⟨hnc, hp1⟩ := ite_panic_noPanic' hp2
  obtain ⟨hcan, hp0⟩ := ite_panic_noPanic hp1
  simp only [hcan, if_true] at hnc hx ⊢
  simp only [hnc, Bool.false_eq_true, if_false] at hx ⊢
  have hx' : s.store.get? k = some x := hx
  have hxc : x.isCounted = false := by
    rw [stream_of_get? hx'] at hnc; simpa using hnc
  refine ⟨hp0, trivial, ⟨x, hx', hxc⟩, ?_, ?_⟩
  · unfold Streams.modStream; rw [hx]; rfl
  · have hA' : KeysOK (s.modCounts fun c => { c with numRecvStreams := c.numRecvStreams + 1 }) := ⟨hA.nodup, hA.fresh⟩
    rcases cntAll_modStream hA' k (fun st => { st with isCounted := true }) (fun _ => rfl) with ⟨y, hy, e⟩ | ⟨hn, _⟩
    · have : y = x := by rw [show (s.modCounts _).store.get? k = s.store.get? k from rfl, hx'] at hy; cases hy; rfl
      subst this
      rw [hxc] at e
      have h0 : b2n false = 0 := rfl
      have h1 : b2n true = 1 := rfl
      have : cntAll (s.modCounts fun c => { c with numRecvStreams := c.numRecvStreams + 1 }) = cntAll s := rfl
      rw [h0, this] at e
      dsimp only at e
      rw [h1] at e
      omega
    · rw [show (s.modCounts _).store.get? k = s.store.get? k from rfl, hx'] at hn; cases hn

/-- `dec_num_streams` without a panic: the stream was counted, its direction's counter was positive -/
theorem decNumStreams_spec {s : Streams} {k : Nat} (hA : KeysOK s) (h : (s.decNumStreams k).panicked = none) :
    s.panicked = none ∧
    (∃ x, s.store.get? k = some x ∧ x.isCounted = true ∧
      ((s.counts.isLocalInit x.id = true ∧ 0 < s.counts.numSendStreams ∧
        (s.decNumStreams k).counts = { s.counts with numSendStreams := s.counts.numSendStreams - 1 }) ∨
       (s.counts.isLocalInit x.id = false ∧ 0 < s.counts.numRecvStreams ∧
        (s.decNumStreams k).counts = { s.counts with numRecvStreams := s.counts.numRecvStreams - 1 }))) ∧
    cntAll (s.decNumStreams k) + 1 = cntAll s := by
  unfold Streams.decNumStreams at h ⊢
  dsimp only at h ⊢
  have key : ∀ (t : Streams) (g : Counts → Counts), KeysOK t → ((t.modCounts g).modStream k fun st => { st with isCounted := false }).panicked = none →
      t.panicked = none ∧ ∃ x, t.store.get? k = some x ∧
        ((t.modCounts g).modStream k fun st => { st with isCounted := false }).counts = g t.counts ∧
        cntAll ((t.modCounts g).modStream k fun st => { st with isCounted := false }) + b2n x.isCounted = cntAll t := by
    intro t g hAt ht
    obtain ⟨hp, x, hx⟩ := modStream_noPanic ht
    have hx' : t.store.get? k = some x := hx
    refine ⟨hp, x, hx', ?_, ?_⟩
    · unfold Streams.modStream; rw [hx]; rfl
    · have hA' : KeysOK (t.modCounts g) := ⟨hAt.nodup, hAt.fresh⟩
      rcases cntAll_modStream hA' k (fun st => { st with isCounted := false }) (fun _ => rfl) with ⟨y, hy, e⟩ | ⟨hn, _⟩
      · have : y = x := by rw [show (t.modCounts g).store.get? k = t.store.get? k from rfl, hx'] at hy; cases hy; rfl
        subst this
        have h0 : b2n false = 0 := rfl
        have : cntAll (t.modCounts g) = cntAll t := rfl
        dsimp only at e
        rw [h0, this] at e
        omega
      · rw [show (t.modCounts g).store.get? k = t.store.get? k from rfl, hx'] at hn; cases hn
  generalize hs1 : (if (s.stream k).isCounted = true then s else s.panic "assertion failed: stream.is_counted") = s1 at h ⊢
  have hst1 : s1.store = s.store := by rw [← hs1]; split; rfl; rw [panic_store]
  have hA1 : KeysOK s1 := ⟨by rw [hst1]; exact hA.nodup, by unfold KeysFresh; rw [hst1]; exact hA.fresh⟩
  have hc1 : s1.counts = s.counts := by rw [← hs1]; split; rfl; rw [panic_counts]
  have hstream1 : s1.stream k = s.stream k := by unfold Streams.stream; rw [hst1]
  have hcnt1 : cntAll s1 = cntAll s := cntAll_of_store_eq hst1
  split at h
  · next hloc =>
    simp only [hloc, if_true]
    generalize hs2 : (if s1.counts.numSendStreams > 0 then s1 else s1.panic "assertion failed: self.num_send_streams > 0") = s2 at h ⊢
    have hst2 : s2.store = s1.store := by rw [← hs2]; split; rfl; rw [panic_store]
    have hc2 : s2.counts = s1.counts := by rw [← hs2]; split; rfl; rw [panic_counts]
    have hA2 : KeysOK s2 := ⟨by rw [hst2]; exact hA1.nodup, by unfold KeysFresh; rw [hst2]; exact hA1.fresh⟩
    obtain ⟨hp2, x, hx, hcnts, hcnt⟩ := key s2 _ hA2 h
    have hp1 : (if s1.counts.numSendStreams > 0 then s1 else s1.panic "assertion failed: self.num_send_streams > 0").panicked = none := by rw [hs2]; exact hp2
    obtain ⟨hpos, hp1'⟩ := ite_panic_noPanic hp1
    have hp0 : (if (s.stream k).isCounted = true then s else s.panic "assertion failed: stream.is_counted").panicked = none := by rw [hs1]; exact hp1'
    obtain ⟨hcounted, hp00⟩ := ite_panic_noPanic hp0
    rw [hst2, hst1] at hx
    have hxs : s.stream k = x := stream_of_get? hx
    rw [hstream1, hc1, hxs] at hloc
    rw [hxs] at hcounted
    rw [hc1] at hpos
    rw [hc2, hc1] at hcnts
    refine ⟨hp00, ⟨x, hx, hcounted, .inl ⟨hloc, hpos, hcnts⟩⟩, ?_⟩
    rw [hcounted, cntAll_of_store_eq hst2, hcnt1] at hcnt
    have h1 : b2n true = 1 := rfl
    rw [h1] at hcnt; exact hcnt
  · next hloc =>
    simp only [hloc]
    generalize hs2 : (if s1.counts.numRecvStreams > 0 then s1 else s1.panic "assertion failed: self.num_recv_streams > 0") = s2 at h ⊢
    have hst2 : s2.store = s1.store := by rw [← hs2]; split; rfl; rw [panic_store]
    have hc2 : s2.counts = s1.counts := by rw [← hs2]; split; rfl; rw [panic_counts]
    have hA2 : KeysOK s2 := ⟨by rw [hst2]; exact hA1.nodup, by unfold KeysFresh; rw [hst2]; exact hA1.fresh⟩
    obtain ⟨hp2, x, hx, hcnts, hcnt⟩ := key s2 _ hA2 h
    have hp1 : (if s1.counts.numRecvStreams > 0 then s1 else s1.panic "assertion failed: self.num_recv_streams > 0").panicked = none := by rw [hs2]; exact hp2
    obtain ⟨hpos, hp1'⟩ := ite_panic_noPanic hp1
    have hp0 : (if (s.stream k).isCounted = true then s else s.panic "assertion failed: stream.is_counted").panicked = none := by rw [hs1]; exact hp1'
    obtain ⟨hcounted, hp00⟩ := ite_panic_noPanic hp0
    rw [hst2, hst1] at hx
    have hxs : s.stream k = x := stream_of_get? hx
    rw [hstream1, hc1, hxs] at hloc
    rw [hxs] at hcounted
    rw [hc1] at hpos
    rw [hc2, hc1] at hcnts
    refine ⟨hp00, ⟨x, hx, hcounted, .inr ⟨by simpa using hloc, hpos, hcnts⟩⟩, ?_⟩
    rw [hcounted, cntAll_of_store_eq hst2, hcnt1] at hcnt
    have h1 : b2n true = 1 := rfl
    rw [h1] at hcnt; exact hcnt

end H2V.Lemmas.ConnCountsP
