import H2V.Lemmas.ConnNoPanicPConnRecv
import H2V.Lemmas.ConnNoPanicPConnWire
/-
  C08 (no panic) — connection layer, part 5: the loops.  `Connection::poll2`, `proto::Connection::poll`,
  `client::Connection::poll` are histories of stream-layer operations satisfying `ConnP`, with the writer
  tracked, and keep `ConnOK`; the only panics the connection layer records are the two fuel markers of the
  model (`FuelMsg`).
-/
namespace H2V.Lemmas.ConnNoPanicP
open H2V H2V.Model H2V.Model.Conn
open H2V.Lemmas.ConnResetP (Op run)
open H2V.Lemmas.ConnCtlP (GoAwayInv Keep15 Step15 GaLe gaLast view)

/-- `Conn.panic m` as a step -/
theorem panic_cs {X : String → Prop} {c : Conn} (hi : GoAwayInv c) (m : String) (hm : X m) : CS X c (c.panic m) :=
  ⟨.of_step15 ((Keep15.of_view (c := c) (c' := c.panic m) rfl (by simp [Conn.panic])).step hi) rfl rfl (.of_eq rfl rfl),
    .op (.panic m) .refl hm rfl⟩

/-- a step that keeps `goAway` and the view of the streams -/
theorem CS.viewKeep {X : String → Prop} {c c' : Conn} (hi : GoAwayInv c) (hg : c'.goAway = c.goAway)
    (hv : view c'.streams = view c.streams) (hp : c'.pingPong.pendingPing = c.pingPong.pendingPing)
    (hr : c'.codec.r = c.codec.r) (hl : c'.settings = c.settings)
    (hh : HistW ConnP c.streams c.codec.w c'.streams c'.codec.w) : CS X c c' :=
  .mk' ((Keep15.of_view hg hv).step hi) hp hr hl hh

/-- the state in which `poll2` reads a frame: `poll_ready` has answered `Ready(Ok)`, `close_now` is unset -/
structure ReadOK (c : Conn) : Prop where
  ok : ConnOK c
  cn : c.goAway.closeNow = false
  ref : c.streams.recv.refused = none
  rem : c.settings.remote = none
  pong : c.pingPong.pendingPong = none

theorem poll2Dispatch_cs {X : String → Prop} (k : Conn → Conn × PollRes) (hk : ∀ c, ConnOK c → CS X c (k c).1) {c : Conn}
    (h : ReadOK c) (frame : Option Frame.Frame) (hf : ∀ g, frame = some g → WireOK g) :
    CS X c (ConnCtlP.poll2Dispatch k c frame).1 := by
  unfold ConnCtlP.poll2Dispatch
  have s1 := recvFrame_cs (X := X) h.ok h.cn h.ref h.pong frame hf
  have hset := recvFrame_settings c frame
  rcases hF : c.recvFrame frame with ⟨c1, r1⟩
  rw [hF] at s1 hset
  dsimp only at s1 hset
  cases r1 with
  | error e => exact s1
  | ok rf =>
    cases rf with
    | «continue» => exact s1.trans (hk c1 (s1.ok h.ok))
    | done => exact s1
    | settings a v =>
      dsimp only
      have s2 := recvSettings_cs (X := X) s1.ga a v (fun _ => by rw [hset]; exact h.rem)
        (fun _ => hf _ (recvFrame_settings_inv hF))
      rcases hS : c1.recvSettings a v with ⟨c2, r2⟩
      rw [hS] at s2
      dsimp only at s2
      cases r2 with
      | error e => exact s1.trans s2
      | ok u => exact (s1.trans s2).trans (hk c2 ((s1.trans s2).ok h.ok))

theorem poll2Read_cs {X : String → Prop} (k : Conn → Conn × PollRes) (hk : ∀ c, ConnOK c → CS X c (k c).1) {c : Conn}
    (h : ReadOK c) : CS X c (ConnCtlP.poll2Read k c).1 := by
  unfold ConnCtlP.poll2Read
  obtain ⟨w1, w2, w3⟩ := pollNext_wire (c.codec.r.buf.length + c.codec.io.rd.length + 2) c.codec c.cx
    ⟨h.ok.rd.max, h.ok.rd.need⟩
  rcases h1 : pollNext (c.codec.r.buf.length + c.codec.io.rd.length + 2) c.codec c.cx with ⟨codec, polled⟩
  rw [h1] at w1 w2 w3
  dsimp only at w1 w2 w3 ⊢
  have k0 := (Keep15.of_view (c := c) (c' := { c with codec := codec }) rfl rfl).step h.ok.ga
  have s0 : CS X c { c with codec := codec } :=
    ⟨⟨k0.1, k0.2, fun p hp => ⟨p, hp, rfl⟩, fun hn => ⟨w1.max, w1.need, hn.loc, hn.rem⟩⟩, .same rfl w2⟩
  have h0 : ReadOK { c with codec := codec } := ⟨s0.ok h.ok, h.cn, h.ref, h.rem, h.pong⟩
  split
  · exact s0
  · exact s0
  · exact s0
  · refine s0.trans (poll2Dispatch_cs k hk h0 _ (fun g hg => ?_))
    cases polled with
    | frame f => injection hg with hg; subst hg; exact w3 f rfl
    | pending => cases hg
    | err e => cases hg
    | ioErr a b => cases hg
    | eof => cases hg

theorem poll2GoOn_cs {X : String → Prop} (k : Conn → Conn × PollRes) (hk : ∀ c, ConnOK c → CS X c (k c).1) {c : Conn}
    (hc : ConnOK c) (hcn : c.goAway.closeNow = false) : CS X c (ConnCtlP.poll2GoOn k c).1 := by
  unfold ConnCtlP.poll2GoOn
  obtain ⟨s1, g1, hok⟩ := pollReady_cs (X := X) hc.ga hc.rd.rem
  rcases hP : c.pollReady with ⟨c1, st⟩
  rw [hP] at s1 g1 hok
  dsimp only at s1 g1 hok
  cases st with
  | pending => exact s1
  | err e => exact s1
  | ok =>
    obtain ⟨a, b, d⟩ := hok rfl
    exact s1.trans (poll2Read_cs k hk ⟨s1.ok hc, by rw [g1]; exact hcn, a, b, d⟩)

/-- **the loop of `Connection::poll2`** -/
theorem poll2Loop_cs (fuel : Nat) {c : Conn} (hc : ConnOK c) : CS FuelMsg c (Conn.poll2Loop fuel c).1 := by
  induction fuel generalizing c with
  | zero => exact panic_cs hc.ga _ (Or.inl rfl)
  | succ fuel ih =>
    rw [ConnCtlP.poll2Loop_succ]
    have s1 := sendPendingGoAway_cs (X := FuelMsg) hc.ga
    obtain ⟨-, g2, g3, -, -, -, -, -, -, g10⟩ := ConnCtlP.sendPendingGoAwayT_spec c
    have hr := ConnCtlP.sendPendingGoAwayT_reason c
    rw [ConnCtlP.sendPendingGoAwayT_fst] at g2 g3 g10 hr
    rcases hG : c.sendPendingGoAway with ⟨c1, st1⟩
    rw [hG] at s1 g2 g3 g10 hr
    dsimp only at s1 g2 g3 g10 hr
    cases st1 with
    | pending => exact s1
    | err e => exact s1
    | none =>
      have hcn : c1.goAway.closeNow = false := by
        cases hc' : c1.goAway.closeNow with
        | false => rfl
        | true =>
          exfalso
          have hh : ConnCtlP.Halting c := ⟨by rw [← g2]; exact hc', hc.ga.close_ga (by rw [← g2]; exact hc')⟩
          exact g10 hh
      exact s1.trans (poll2GoOn_cs _ (fun c hc => ih hc) (s1.ok hc) hcn)
    | reason r =>
      dsimp only
      split
      · split <;> exact s1
      · rename_i hns
        have hcn : c1.goAway.closeNow = false := by
          have hp := hr r rfl
          cases hc' : c1.goAway.closeNow with
          | false => rfl
          | true => exact absurd (by simp [GoAway.shouldCloseNow, hp, hc']) hns
        exact s1.trans (poll2GoOn_cs _ (fun c hc => ih hc) (s1.ok hc) hcn)

/-- **`Connection::poll2`**: `clear_expired_reset_streams`, then the loop -/
theorem poll2_cs (fuel : Nat) {c : Conn} (hc : ConnOK c) : CS FuelMsg c (Conn.poll2 fuel c).1 := by
  unfold Conn.poll2
  have s0 : CS FuelMsg c { c with streams := Streams.clearExpiredResetStreams (c.streams.recv.pendingResetExpired.length + 1) c.streams } :=
    .viewKeep hc.ga rfl (by simp) rfl rfl rfl (.op1 (.clearExpiredResetStreams _) trivial rfl rfl rfl)
  exact s0.trans (poll2Loop_cs fuel (s0.ok hc))

theorem takeError_cs {X : String → Prop} {c : Conn} (hi : GoAwayInv c) (o : Reason) (i : Initiator) : CS X c (c.takeError o i).1 := by
  have : (c.takeError o i).1 = { c with error := none } := by
    unfold Conn.takeError
    dsimp only
    repeat' split
    all_goals rfl
  rw [this]
  exact .same hi rfl rfl rfl rfl rfl

/-- **`proto::Connection::poll`** -/
theorem protoPoll_cs (fuel : Nat) {c : Conn} (hc : ConnOK c) : CS FuelMsg c (Conn.protoPoll fuel c).1 := by
  induction fuel generalizing c with
  | zero => exact panic_cs hc.ga _ (Or.inr rfl)
  | succ fuel ih =>
    unfold Conn.protoPoll
    split
    · -- open
      have s1 := poll2_cs (fuel + 1) hc
      split
      · rename_i c1 result heq
        have s1 : CS FuelMsg c c1 := s1.of_fst heq
        have s2 := handlePoll2Result_cs (X := FuelMsg) s1.ga result
        split
        · rename_i heq2; exact (s1.trans (s2.of_fst heq2)).trans (ih ((s1.trans (s2.of_fst heq2)).ok hc))
        · rename_i heq2; exact s1.trans (s2.of_fst heq2)
      · rename_i c1 heq
        have s1 : CS FuelMsg c c1 := s1.of_fst heq
        have s2 : CS FuelMsg c1 { c1 with
            streams := (Streams.pollComplete (fuel + 1) c1.streams c1.codec.w c1.codec.io c1.cx).1,
            codec := { c1.codec with w := (Streams.pollComplete (fuel + 1) c1.streams c1.codec.w c1.codec.io c1.cx).2.1,
                                     io := (Streams.pollComplete (fuel + 1) c1.streams c1.codec.w c1.codec.io c1.cx).2.2.1 } } :=
          .viewKeep s1.ga rfl (by simp) rfl rfl rfl (.pollComplete (fuel + 1) c1.codec.io c1.cx .refl trivial)
        rcases h2 : Streams.pollComplete (fuel + 1) c1.streams c1.codec.w c1.codec.io c1.cx with ⟨s, w, io, r⟩
        rw [h2] at s2
        dsimp only at s2 ⊢
        have s12 := s1.trans s2
        cases r with
        | pending => exact s12
        | err k => exact s12
        | ready =>
          dsimp only
          split
          · have s3 := s12.trans (goAwayNow_cs s12.ga NO_ERROR)
            exact s3.trans (ih (s3.ok hc))
          · exact s12
    · -- closing
      dsimp only
      have s1 : CS FuelMsg c { c with codec := { c.codec with w := (shutdownW c.codec.w c.codec.io c.cx).fst,
                                                              io := (shutdownW c.codec.w c.codec.io c.cx).2.1 } } :=
        .viewKeep hc.ga rfl rfl rfl rfl rfl (.w1 (.shutdownW _ _ _) rfl)
      rcases h2 : shutdownW c.codec.w c.codec.io c.cx with ⟨w, io, r⟩
      rw [h2] at s1
      dsimp only at s1 ⊢
      cases r with
      | pending => exact s1
      | err k => exact s1
      | ready =>
        dsimp only
        rename_i reason init _
        have s2 : CS FuelMsg c { c with codec := { c.codec with w := w, io := io }, state := .closed reason init } :=
          s1.trans (.same s1.ga rfl rfl rfl rfl rfl)
        exact s2.trans (ih (s2.ok hc))
    · -- closed
      dsimp only
      exact takeError_cs hc.ga _ _

/-- **`client::Connection::poll`**: `go_away_now` when the last handle is gone, `proto::Connection::poll`, `wake` -/
theorem clientPoll_cs (fuel : Nat) {c : Conn} (hc : ConnOK c) : CS FuelMsg c (Conn.clientPoll fuel c).1 := by
  unfold Conn.clientPoll
  dsimp only
  have s1 : CS FuelMsg c (if (!c.hasStreamsOrOtherReferences) = true then c.goAwayNow NO_ERROR else c) := by
    split
    · exact goAwayNow_cs hc.ga _
    · exact .refl hc.ga
  generalize (if (!c.hasStreamsOrOtherReferences) = true then c.goAwayNow NO_ERROR else c) = c1 at s1 ⊢
  have s2 := s1.trans (protoPoll_cs fuel (s1.ok hc))
  have s3 : CS FuelMsg (Conn.protoPoll fuel c1).1
      { (Conn.protoPoll fuel c1).1 with streams := (Conn.protoPoll fuel c1).1.streams.wake [(Conn.protoPoll fuel c1).1.cx] } :=
    .viewKeep s2.ga rfl (by simp) rfl rfl rfl (.op1 (.wake _) trivial rfl rfl rfl)
  repeat' split
  all_goals first | exact s2 | exact s2.trans s3

end H2V.Lemmas.ConnNoPanicP
