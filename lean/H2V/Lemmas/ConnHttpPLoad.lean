import H2V.Lemmas.ConnHttpPBasic
/-
  C13 (ConnHttpP), part 2 — `HeaderBlock::load`'s callback (`loadField` / `loadFields`): what a run that
  ends with none of the three flags (malformed, way-too-large, over-size) has checked and stored.
-/
namespace H2V.Lemmas.ConnHttpP
open H2V H2V.Model H2V.Model.Frame H2V.Model.Hpack

/-- none of the three flags that keep a block from being delivered is raised -/
structure Clean (s : LoadSt) : Prop where
  m : s.malformed = false
  w : s.wayTooLarge = false
  o : s.blk.isOverSize = false

/-- the part of the callback's state that decides what is stored: (`reg`, pseudo, fields) -/
abbrev TSt := Bool × Pseudo × List (Bytes × List Bytes)

def tOf (s : LoadSt) : TSt := (s.reg, s.blk.pseudo, s.blk.fields)

/-- one field through the callback, sizes forgotten: `none` = the field raises `malformed` -/
def trackStep (st : TSt) (h : Header) : Option TSt :=
  if h.1.head? = some 58 then
    if st.1 = false ∧ getPseudo st.2.1 h.1 = none then some (false, setPseudo st.2.1 h.1 h.2, st.2.2) else none
  else if connHeaders.contains h.1 = true ∨ (h.1 = Http.str "te" ∧ h.2 ≠ Http.str "trailers") then none
  else some (true, st.2.1, appendField st.2.2 h.1 h.2)

def track : List Header → TSt → Option TSt
  | [], st => some st
  | h :: rest, st =>
    match trackStep st h with
    | none => none
    | some st' => track rest st'

/-- the `check_size!`-like closure of the callback -/
def checkSize (ml am : Nat) (s : LoadSt) : LoadSt × Bool :=
  if s.headersSize > am then ({ s with wayTooLarge := true }, true)
  else if s.headersSize ≥ ml ∧ ¬ s.blk.isOverSize then ({ s with blk := { s.blk with isOverSize := true } }, false)
  else (s, false)

theorem loadField_eq (ml am : Nat) (s : LoadSt) (h : Header) :
    loadField ml am s h =
      if h.1.head? = some 58 then
        if s.reg then ({ s with malformed := true }, false)
        else if (getPseudo s.blk.pseudo h.1).isSome then ({ s with malformed := true }, false)
        else
          let c := checkSize ml am { s with headersSize := s.headersSize + decodedHeaderSize h.1.length h.2.length }
          if c.2 then (c.1, true)
          else if ¬ c.1.blk.isOverSize then ({ c.1 with blk := { c.1.blk with pseudo := setPseudo c.1.blk.pseudo h.1 h.2 } }, false)
          else (c.1, false)
      else if connHeaders.contains h.1 then ({ s with malformed := true }, false)
      else if h.1 = Http.str "te" ∧ h.2 ≠ Http.str "trailers" then ({ s with malformed := true }, false)
      else
        let hs := decodedHeaderSize h.1.length h.2.length
        let c := checkSize ml am { s with reg := true, headersSize := s.headersSize + hs }
        if c.2 then (c.1, true)
        else if ¬ c.1.blk.isOverSize then
          ({ c.1 with blk := { c.1.blk with fieldSize := c.1.blk.fieldSize + hs, fields := appendField c.1.blk.fields h.1 h.2 } }, false)
        else (c.1, false) := rfl


/-- the common tail of both arms of the callback: size check, then (unless over-size) store -/
theorem tail_step (ml am : Nat) (s1 : LoadSt) (upd : LoadSt → LoadSt)
    (hupd : ∀ x, (upd x).malformed = x.malformed ∧ (upd x).wayTooLarge = x.wayTooLarge ∧
      (upd x).blk.isOverSize = x.blk.isOverSize) (r : LoadSt × Bool)
    (hr : r = (if (checkSize ml am s1).2 then ((checkSize ml am s1).1, true)
               else if ¬ (checkSize ml am s1).1.blk.isOverSize then (upd (checkSize ml am s1).1, false)
               else ((checkSize ml am s1).1, false))) :
    (r.2 = true → r.1.wayTooLarge = true) ∧ (Clean r.1 → r = (upd s1, false) ∧ Clean s1) := by
  subst hr
  unfold checkSize
  by_cases h1 : s1.headersSize > am
  · rw [if_pos h1]
    refine ⟨fun _ => rfl, fun c => ?_⟩
    exact absurd c.w (by simp)
  · rw [if_neg h1]
    by_cases h2 : s1.headersSize ≥ ml ∧ ¬ s1.blk.isOverSize
    · rw [if_pos h2]
      refine ⟨fun x => ?_, fun c => ?_⟩
      · simp at x
      · exact absurd c.o (by simp)
    · rw [if_neg h2]
      simp only [Bool.false_eq_true, if_false]
      by_cases h3 : s1.blk.isOverSize = true
      · rw [if_neg (by simp [h3])]
        refine ⟨fun x => ?_, fun c => ?_⟩
        · simp at x
        · exact absurd c.o (by simp [h3])
      · rw [if_pos h3]
        refine ⟨fun x => ?_, fun c => ?_⟩
        · simp at x
        · obtain ⟨u1, u2, u3⟩ := hupd s1
          exact ⟨rfl, u1 ▸ c.m, u2 ▸ c.w, u3 ▸ c.o⟩

theorem loadField_step (ml am : Nat) (s : LoadSt) (h : Header) :
    ((loadField ml am s h).2 = true → (loadField ml am s h).1.wayTooLarge = true) ∧
    (Clean (loadField ml am s h).1 → Clean s ∧ (loadField ml am s h).2 = false ∧
      trackStep (tOf s) h = some (tOf (loadField ml am s h).1)) := by
  rw [loadField_eq]
  unfold trackStep tOf
  have bad : ∀ (P : Prop), (({ s with malformed := true }, false) : LoadSt × Bool).2 = true → P := fun P x => by simp at x
  have bad2 : ∀ (P : Prop), Clean (({ s with malformed := true }, false) : LoadSt × Bool).1 → P :=
    fun P c => absurd c.m (by simp)
  by_cases hp : h.1.head? = some 58
  · simp only [if_pos hp]
    by_cases hr : s.reg = true
    · simp only [if_pos hr]
      exact ⟨bad _, bad2 _⟩
    · simp only [if_neg hr]
      by_cases hg : (getPseudo s.blk.pseudo h.1).isSome = true
      · simp only [if_pos hg]
        exact ⟨bad _, bad2 _⟩
      · simp only [if_neg hg]
        obtain ⟨t1, t2⟩ := tail_step ml am { s with headersSize := s.headersSize + decodedHeaderSize h.1.length h.2.length }
          (fun x => { x with blk := { x.blk with pseudo := setPseudo x.blk.pseudo h.1 h.2 } })
          (fun x => ⟨rfl, rfl, rfl⟩) _ rfl
        refine ⟨t1, fun c => ?_⟩
        obtain ⟨e, c1⟩ := t2 c
        rw [e]
        have hr' : s.reg = false := by simpa using hr
        have hg' : getPseudo s.blk.pseudo h.1 = none := by simpa using hg
        exact ⟨⟨c1.m, c1.w, c1.o⟩, rfl, by simp [hr', hg']⟩
  · simp only [if_neg hp]
    by_cases hcn : connHeaders.contains h.1 = true
    · simp only [if_pos hcn]
      exact ⟨bad _, bad2 _⟩
    · simp only [if_neg hcn]
      by_cases hte : h.1 = Http.str "te" ∧ h.2 ≠ Http.str "trailers"
      · simp only [if_pos hte]
        exact ⟨bad _, bad2 _⟩
      · simp only [if_neg hte]
        obtain ⟨t1, t2⟩ := tail_step ml am
          { s with reg := true, headersSize := s.headersSize + decodedHeaderSize h.1.length h.2.length }
          (fun x => { x with blk := { x.blk with
            fieldSize := x.blk.fieldSize + decodedHeaderSize h.1.length h.2.length,
            fields := appendField x.blk.fields h.1 h.2 } })
          (fun x => ⟨rfl, rfl, rfl⟩) _ rfl
        refine ⟨t1, fun c => ?_⟩
        obtain ⟨e, c1⟩ := t2 c
        rw [e]
        exact ⟨⟨c1.m, c1.w, c1.o⟩, rfl, by rw [if_neg (not_or.mpr ⟨hcn, hte⟩)]⟩

/-- a run of the callback that ends clean started clean and stored exactly what `track` says -/
theorem loadFields_clean (ml am : Nat) : ∀ (fs : List Header) (s : LoadSt),
    Clean (loadFields ml am fs s) → Clean s ∧ track fs (tOf s) = some (tOf (loadFields ml am fs s))
  | [], s, c => ⟨c, rfl⟩
  | h :: rest, s, c => by
    unfold loadFields at c ⊢
    obtain ⟨b1, b2⟩ := loadField_step ml am s h
    generalize hl : loadField ml am s h = r at *
    obtain ⟨s', brk⟩ := r
    simp only at c b1 b2 ⊢
    cases brk with
    | true =>
      simp only [if_true] at c
      exact absurd c.w (by rw [b1 rfl]; simp)
    | false =>
      simp only [Bool.false_eq_true, if_false] at c ⊢
      obtain ⟨c', e⟩ := loadFields_clean ml am rest s' c
      obtain ⟨c0, -, e0⟩ := b2 c'
      exact ⟨c0, by simp only [track, e0, e]⟩

end H2V.Lemmas.ConnHttpP
