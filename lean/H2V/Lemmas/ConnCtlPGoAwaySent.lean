import H2V.Lemmas.ConnCtlPGoAway
import H2V.Lemmas.ConnCtlPPoll
/-
  ConnCtlP, part 14 — C15: the GOAWAY frames handed to the codec.  `SentOK c evs c'`: over a run from
  `c` to `c'` the last-stream-ids of the frames sent do not increase, lie below what was announced
  before the run and above what is announced after it; the announced id itself never increases.
  Algebra (composition of runs) and the step that sends (`send_pending_go_away`).
-/
set_option autoImplicit false
set_option linter.unusedSimpArgs false
namespace H2V.Lemmas.ConnCtlP
open H2V H2V.Model H2V.Model.Conn

/-- the announced last-stream-id never increases and never disappears; a recorded connection error
    (`conn_error`) is never forgotten -/
def GaLe (c c' : Conn) : Prop :=
  (∀ m, gaLast c = some m → ∃ m', gaLast c' = some m' ∧ m' ≤ m) ∧
  ((view c.streams).connErr.isSome = true → (view c'.streams).connErr.isSome = true)

theorem GaLe.refl (c : Conn) : GaLe c c := ⟨fun m h => ⟨m, h, Nat.le_refl _⟩, id⟩
theorem GaLe.trans {a b c : Conn} (h1 : GaLe a b) (h2 : GaLe b c) : GaLe a c := by
  refine ⟨?_, fun h => h2.2 (h1.2 h)⟩
  intro m hm
  obtain ⟨m1, e1, l1⟩ := h1.1 m hm
  obtain ⟨m2, e2, l2⟩ := h2.1 m1 e1
  exact ⟨m2, e2, Nat.le_trans l2 l1⟩
theorem GaLe.of_eq {c c' : Conn} (h : c'.goAway.goingAway = c.goAway.goingAway)
    (he : (view c'.streams).connErr = (view c.streams).connErr) : GaLe c c' := by
  refine ⟨?_, fun hs => by rw [he]; exact hs⟩
  intro m hm
  exact ⟨m, by unfold gaLast at *; rw [h]; exact hm, Nat.le_refl _⟩

/-- the GOAWAY frames sent during a run -/
structure SentOK (c : Conn) (evs : List Ev) (c' : Conn) : Prop where
  mono : GaLe c c'
  /-- every frame sent is at or above what is announced at the end … -/
  lower : ∀ f ∈ sentG evs, ∃ m', gaLast c' = some m' ∧ m' ≤ f.lastStreamId
  /-- … and at or below what was announced at the start -/
  upper : ∀ f ∈ sentG evs, ∀ m, gaLast c = some m → f.lastStreamId ≤ m
  /-- in the order sent, the ids do not increase -/
  sorted : (sentG evs).Pairwise (fun a b => b.lastStreamId ≤ a.lastStreamId)

theorem SentOK.quiet {c c' : Conn} {evs : List Ev} (hq : sentG evs = []) (hm : GaLe c c') : SentOK c evs c' :=
  ⟨hm, by simp [hq], by simp [hq], by simp [hq]⟩

theorem SentOK.trans {a b c : Conn} {e1 e2 : List Ev} (h1 : SentOK a e1 b) (h2 : SentOK b e2 c) :
    SentOK a (e1 ++ e2) c := by
  refine ⟨h1.mono.trans h2.mono, ?_, ?_, ?_⟩
  · intro f hf
    rw [sentG_append] at hf
    rcases List.mem_append.mp hf with hf | hf
    · obtain ⟨m1, e1', l1⟩ := h1.lower f hf
      obtain ⟨m2, e2', l2⟩ := h2.mono.1 m1 e1'
      exact ⟨m2, e2', Nat.le_trans l2 l1⟩
    · exact h2.lower f hf
  · intro f hf m hm
    rw [sentG_append] at hf
    rcases List.mem_append.mp hf with hf | hf
    · exact h1.upper f hf m hm
    · obtain ⟨m1, e1', l1⟩ := h1.mono.1 m hm
      exact Nat.le_trans (h2.upper f hf m1 e1') l1
  · rw [sentG_append, List.pairwise_append]
    refine ⟨h1.sorted, h2.sorted, ?_⟩
    intro x hx y hy
    obtain ⟨m1, e1', l1⟩ := h1.lower x hx
    exact Nat.le_trans (h2.upper y hy m1 e1') l1

/-- events that are not `goAwaySent` -/
theorem sentG_of_onlyRx {evs : List Ev} (h : ∀ e ∈ evs, ∀ f, e ≠ .goAwaySent f) : sentG evs = [] := by
  induction evs with
  | nil => rfl
  | cons e t ih =>
    have ht := ih (fun x hx => h x (List.mem_cons_of_mem _ hx))
    have he := h e (List.mem_cons_self ..)
    cases e <;> simp_all [sentG]

/-- the invariant only looks at `goAway`, `last_processed_id` and `max_stream_id` -/
theorem GoAwayInv.congr' {c c' : Conn} (h : GoAwayInv c) (hg : c'.goAway = c.goAway)
    (hl : (view c'.streams).lpi = (view c.streams).lpi) (hr : (view c'.streams).rmax = (view c.streams).rmax) :
    GoAwayInv c' := by
  constructor
  · rw [hl, hr]; exact h.lpi_le_max
  · rw [hl, hg]; exact h.lpi_le_ga
  · rw [hr, hg]; exact h.ga_eq_max
  · rw [hr, hg]; exact h.none_max
  · rw [hg]; exact h.pend
  · rw [hg]; exact h.close_ga

/-- `send_pending_go_away`: the frame handed to the codec is the one announced; invariant kept -/
theorem sendPendingGoAwayT_sent (c : Conn) (h : GoAwayInv c) :
    GoAwayInv (sendPendingGoAwayT c).1.1 ∧ SentOK c (sendPendingGoAwayT c).2 (sendPendingGoAwayT c).1.1 ∧
    (∀ f, (sendPendingGoAwayT c).1.1.goAway.pending = some f → c.goAway.pending = some f) := by
  have key : ∀ (c1 : Conn) (p : Option GoAwayFrame), c1.goAway.closeNow = c.goAway.closeNow →
      c1.goAway.goingAway = c.goAway.goingAway → c1.streams = c.streams → (p = none ∨ p = c.goAway.pending) →
      c1.goAway.pending = p → GoAwayInv c1 := by
    intro c1 p h1 h2 h3 h4 h5
    constructor
    · rw [h3]; exact h.lpi_le_max
    · rw [h3, h2]; exact h.lpi_le_ga
    · rw [h3, h2, h1]; exact h.ga_eq_max
    · rw [h3, h2]; exact h.none_max
    · intro f hf
      rw [h5] at hf
      rcases h4 with h4 | h4
      · rw [h4] at hf; cases hf
      · rw [h4] at hf; rw [h2]; exact h.pend f hf
    · rw [h1, h2]; exact h.close_ga
  unfold sendPendingGoAwayT
  cases hp : c.goAway.pending with
  | none =>
    dsimp only
    have hc : GoAwayInv c := h
    (repeat' split) <;> exact ⟨hc, SentOK.quiet rfl (GaLe.refl c), fun f hf => by rw [hp] at hf; exact hf⟩
  | some f =>
    dsimp only
    rcases hcp : c.codecPollReady with ⟨c1, st⟩
    obtain ⟨e1, e2, e3, e4, e5, e6⟩ := codecPollReady_eq c c1 st hcp
    cases st with
    | pending =>
      refine ⟨key c1 (some f) (by rw [e3]) (by rw [e3]) e4 (Or.inr hp.symm) (by rw [e3]; exact hp),
        SentOK.quiet rfl (GaLe.of_eq (by rw [e3]) (by rw [e4])), fun f' hf => ?_⟩
      dsimp only at hf; rw [e3, hp] at hf; exact hf
    | err e =>
      refine ⟨key _ none (by simp [e3]) (by simp [e3]) (by simp [e4]) (Or.inl rfl) rfl,
        SentOK.quiet rfl (GaLe.of_eq (by simp [e3]) (by simp [e4])), fun f' hf => ?_⟩
      simp at hf
    | ok =>
      have hga := h.pend f hp
      have hgl : gaLast c = some f.lastStreamId := by simp [gaLast, hga]
      refine ⟨key _ none (by simp [e3]) (by simp [e3]) (by simp [e4]) (Or.inl rfl) (by simp), ?_, fun f' hf => ?_⟩
      · refine ⟨GaLe.of_eq (by simp [e3]) (by simp [e4]), ?_, ?_, ?_⟩
        · intro x hx
          simp [sentG] at hx
          subst hx
          exact ⟨_, by simp [gaLast, e3, hga], Nat.le_refl _⟩
        · intro x hx m hm
          simp [sentG] at hx
          subst hx
          rw [hgl] at hm
          cases hm
          exact Nat.le_refl _
        · simp [sentG]
      · simp at hf

end H2V.Lemmas.ConnCtlP
