import H2V.Lemmas.ConnNoPanicPRespOps
/-
  C08 (no panic) — the client response path, part 6: the frame `RP` for the handle calls of streams.rs.
-/
namespace H2V.Lemmas.ConnNoPanicP
open H2V H2V.Model H2V.Model.Conn H2V.Lemmas.ConnCountsP
attribute [local irreducible] wrapSubU32 wrapSubUsize

theorem refInc_rp {X : List Nat} (s : Streams) (k : Nat) : RP X s (s.refInc k) := by
  unfold Streams.refInc
  exact modStream_rp _ _ _ (fun x => ⟨rfl, rfl, Nat.le_succ _, fun h => h⟩)
theorem cloneStreamRef_rp {X : List Nat} (s : Streams) (k : Nat) : RP X s (s.cloneStreamRef k) := by
  unfold Streams.cloneStreamRef; rp_auto
theorem cloneHandle_rp {X : List Nat} (s : Streams) : RP X s s.cloneHandle := .of_store rfl
theorem dropHandle_rp {X : List Nat} (s : Streams) : RP X s s.dropHandle := by
  unfold Streams.dropHandle; rp_auto
theorem clearWakes_rp {X : List Nat} (s : Streams) : RP X s { s with wakes := [] } := .of_store rfl
theorem pollPendingOpen_rp {X : List Nat} (s : Streams) (p : Option Nat) (t : String) : RP X s (s.pollPendingOpen p t).1 := by
  unfold Streams.pollPendingOpen; rp_auto
theorem maybeCancel_rp {X : List Nat} (s : Streams) (k : Nat) : RP X s (s.maybeCancel k) := by
  unfold Streams.maybeCancel; rp_auto
theorem refSendResponse_rp {X : List Nat} (s : Streams) (k : Nat) (f : List Hpack.Field) (eos : Bool) :
    RP X s (s.refSendResponse k f eos).1 := by
  unfold Streams.refSendResponse; exact transition_rp _ _ _ (sendHeaders_rp _ _ _ _)
theorem refSendInformationalHeaders_rp {X : List Nat} (s : Streams) (k : Nat) (f : List Hpack.Field) :
    RP X s (s.refSendInformationalHeaders k f).1 := by
  unfold Streams.refSendInformationalHeaders; exact transition_rp _ _ _ (sendInterimInformationalHeaders_rp _ _ _)
theorem refSendData_rp {X : List Nat} (s : Streams) (k len : Nat) (eos : Bool) : RP X s (s.refSendData k len eos).1 := by
  unfold Streams.refSendData; exact transition_rp _ _ _ (prioSendData_rp _ _ _ _)
theorem refSendTrailers_rp {X : List Nat} (s : Streams) (k : Nat) (f : List Hpack.Field) : RP X s (s.refSendTrailers k f).1 := by
  unfold Streams.refSendTrailers; exact transition_rp _ _ _ (sendTrailers_rp _ _ _)
theorem refReserveCapacity_rp {X : List Nat} (s : Streams) (k c : Nat) : RP X s (s.refReserveCapacity k c) := by
  unfold Streams.refReserveCapacity; rp_auto
theorem refPollData_rp {X : List Nat} (s : Streams) (k : Nat) (t : String) (hX : k ∈ X) : RP X s (s.refPollData k t).1 := by
  unfold Streams.refPollData
  have := recvPollData_rp s k t hX
  split
  · next s1 _ _ heq => rw [heq] at this; dsimp only; rp_auto
  · exact this
theorem refReleaseCapacity_rp {X : List Nat} (s : Streams) (k c : Nat) : RP X s (s.refReleaseCapacity k c).1 := by
  unfold Streams.refReleaseCapacity; exact releaseCapacity_rp _ _ _ _
theorem refClearRecvBuffer_rp {X : List Nat} (s : Streams) (k : Nat) (hX : k ∈ X) : RP X s (s.refClearRecvBuffer k) := by
  unfold Streams.refClearRecvBuffer
  refine RP.trans ?_ (clearRecvBuffer_rp _ _ _ hX)
  exact modStream_rp _ _ _ (fun _ => ⟨rfl, rfl, Nat.le_refl _, fun h => h⟩)
theorem nextIncoming_rp {X : List Nat} (s : Streams) : RP X s s.nextIncoming.1 := by
  unfold Streams.nextIncoming
  have := recvNextIncoming_rp (X := X) s
  split
  · next s1 k heq => rw [heq] at this; dsimp only; rp_auto
  · next s1 heq => rw [heq] at this; exact this

-- ===================================================================== `drop_stream_ref`

theorem dropPre_rp {X : List Nat} (s : Streams) (k : Nat) (hX : k ∈ X) : RP X s (dropPre s k) := by
  unfold dropPre
  dsimp only
  generalize hs1 : (if (({ s with refs := s.refs - 1 } : Streams).stream k).refCount > 0 then _ else _) = s1
  have h1 : RP X s s1 := by rw [← hs1]; rp_auto
  have h2 : RP X s (s1.modStream k fun st => { st with refCount := st.refCount - 1 }) := by
    refine h1.trans ?_
    exact modStream_rpx _ _ _ (fun _ => rfl) hX
  rp_auto

/-- the closure of `drop_stream_ref` clears the receive queue only when no handle is left -/
theorem dropClosure_rp {X : List Nat} (t : Streams) (k : Nat)
    (hppp : (((t.maybeCancel k).releaseClosedCapacity k).stream k).pendingPushPromises = []) : RP X t (dropClosure k t).1 := by
  rw [dropClosure_nil t k hppp]
  have hm := maybeCancel_rp (X := X) t k
  split
  · next h0 =>
    have h0' : ((t.maybeCancel k).stream k).refCount = 0 := by simpa using h0
    by_cases hr : 0 < (t.stream k).refCount
    · by_cases hx : k ∈ X
      · have h2 : RP X t (((t.maybeCancel k).releaseClosedCapacity k).modStream k
            fun st => { st with pendingPushPromises := [] }) :=
          (hm.trans (releaseClosedCapacity_rp _ _ hx)).trans (modStream_rp _ _ _ (fun _ => ⟨rfl, rfl, Nat.le_refl _, fun h => h⟩))
        exact h2
      · have := (hm.fr k hx hr).ref
        omega
    · refine RP.drop0 (k := k) ?_ (by omega)
      exact ((maybeCancel_rp t k).trans (releaseClosedCapacity_rp _ _ (List.mem_cons_self ..))).trans
        (modStream_rp _ _ _ (fun _ => ⟨rfl, rfl, Nat.le_refl _, fun h => h⟩))
  · exact hm

theorem dropStreamRef_rp {X : List Nat} (s : Streams) (k : Nat) (hX : k ∈ X) (hppp : dropPPP s k = []) :
    RP X s (s.dropStreamRef k) := by
  rw [dropStreamRef_eq]
  exact (dropPre_rp s k hX).trans (transition_rp _ _ _ (dropClosure_rp _ _ hppp))

/-- the entry whose handle is dropped, when another handle is left -/
theorem dropStreamRef_self {s : Streams} {k : Nat} (hk : Live s k) (hr : (s.stream k).refCount ≥ 2) (hppp : dropPPP s k = []) :
    ((s.dropStreamRef k).stream k).pendingRecv = (s.stream k).pendingRecv ∧
    (((s.dropStreamRef k).stream k).state.isRecvStreaming = true → (s.stream k).state.isRecvStreaming = true) := by
  rw [dropStreamRef_eq]
  have h1 : (dropPre s k).stream k = { s.stream k with refCount := (s.stream k).refCount - 1 } := by
    unfold dropPre
    dsimp only
    have hs0 : ({ s with refs := s.refs - 1 } : Streams).stream k = s.stream k := rfl
    rw [hs0]
    have hr' : (s.stream k).refCount > 0 := by omega
    simp only [hr', if_true]
    have hk0 : Live ({ s with refs := s.refs - 1 } : Streams) k := hk
    have hs1 := stream_modStream_live hk0 (fun st => { st with refCount := st.refCount - 1 }) (fun _ => rfl)
    rw [hs0] at hs1
    split
    · unfold Streams.stream at hs1 ⊢; rw [notifyTask_store]; exact hs1
    · exact hs1
  have h2 := (transition_rp (X := []) (dropPre s k) k (dropClosure k) (dropClosure_rp _ _ hppp)).fr k List.not_mem_nil
    (by rw [h1]; show 0 < (s.stream k).refCount - 1; omega)
  rw [h1] at h2
  exact ⟨h2.q, h2.str⟩

-- ===================================================================== `send_request`

theorem RP.of_get {X : List Nat} {s s1 s2 : Streams} (h : RP X s s1) (k : Nat) (h0 : (s.stream k).refCount = 0)
    (hg : ∀ j, j ≠ k → s2.store.get? j = s1.store.get? j) : RP X s s2 := ⟨fun j hj hr => by
  have hjk : j ≠ k := fun e => by subst e; omega
  have : s2.stream j = s1.stream j := by unfold Streams.stream; rw [hg j hjk]
  rw [this]; exact h.fr j hj hr⟩

theorem sendRequest_rp {X : List Nat} (s : Streams) (hk : KeysOK s) (isHead : Bool) (fields : List Hpack.Field) (eos : Bool)
    (pending : Option Nat) : RP X s (s.sendRequest isHead fields eos pending).1 := by
  rcases sendRequest_cases' s isHead fields eos pending with ⟨e, he⟩ | he
  · rw [he]; exact .refl _ _
  · rw [he]
    unfold sendRequestCore
    have h1 := sendOpenId_rp (X := X) s
    have hst1 := sendOpenId_store s
    generalize s.sendOpenId = p at h1 hst1
    obtain ⟨s1, r⟩ := p
    dsimp only at h1 hst1
    cases r with
    | error e => exact h1
    | ok id =>
      simp only []
      generalize hsP : (if s1.store.contains id = true then s1.panic _ else s1) = sP
      have hP : RP X s sP := by rw [← hsP]; rp_auto
      have hstP : sP.store = s.store := by rw [← hsP]; split; rw [panic_store, hst1]; exact hst1
      generalize (if isHead = true then _ else Stream.new id s1.actions.send.initWindowSz s1.recv.initWindowSz) = st
      have hkk : (sP.store.insert st).2 = s.store.nextKey := by show sP.store.nextKey = _; rw [hstP]
      rw [hkk]
      have h3 := (hP.trans (insert_rp sP st)).trans (sendHeaders_rp _ s.store.nextKey eos fields)
      generalize Streams.sendHeaders _ s.store.nextKey eos fields = q at h3
      obtain ⟨s3, r3⟩ := q
      cases r3 with
      | error e =>
        simp only []
        refine h3.of_get s.store.nextKey (ref0_of_not_live (not_live_nextKey hk)) (fun j hj => ?_)
        show ((s3.store.unlink id).remove s.store.nextKey).get? j = _
        rw [get?_remove_ne _ _ _ hj]; rfl
      | ok u =>
        simp only []
        exact (h3.trans (setMisc_rp s3 s3.actions (s3.refs + 1) s3.recvBufferLeaked s3.wakes s3.unsupported)).trans (refInc_rp _ _)

/-- receive queue and state of every entry -/
def rqs (x : Stream) : List REvent × State := (x.pendingRecv, x.state)

theorem setQueued_rqs (q : QName) (x : Stream) (v : Bool) : rqs (x.setQueued q v) = rqs x := by cases q <;> rfl

theorem scheduleSend_rqs (s : Streams) (k : Nat) : SPr rqs s (s.scheduleSend k) := by
  unfold Streams.scheduleSend
  split
  · exact (qPush_spr s _ k (setQueued_rqs _)).trans (.of_store (notifyTask_store _))
  · exact .refl _ _

theorem queueFrame_rqs (s : Streams) (k : Nat) (f : SFrame) : SPr rqs s (s.queueFrame k f) := by
  unfold Streams.queueFrame
  refine SPr.trans ?_ (scheduleSend_rqs _ k)
  exact SPr.modStream s k _ (fun _ => rfl) (fun _ => rfl)

/-- `send_headers` on a fresh (idle) entry: nothing is queued for the application and the receive half still
    awaits the response head -/
theorem sendHeaders_idle {s : Streams} {k : Nat} (hk : Live s k) (hidle : (s.stream k).state.inner = .idle) (eos : Bool)
    (f : List Hpack.Field) :
    ((s.sendHeaders k eos f).1.stream k).pendingRecv = (s.stream k).pendingRecv ∧
    ((s.sendHeaders k eos f).1.stream k).state.isRecvStreaming = false := by
  have hns : (s.stream k).state.isRecvStreaming = false := by unfold State.isRecvStreaming; rw [hidle]
  unfold Streams.sendHeaders
  split
  · exact ⟨rfl, hns⟩
  · split
    · exact ⟨rfl, hns⟩
    · next st' _ heq =>
      dsimp only
      have hst' : st'.isRecvStreaming = false := by
        cases h : st'.isRecvStreaming with
        | false => rfl
        | true => rw [sendOpen_str heq h] at hns; cases hns
      generalize hs1 : (s.modStream k fun st => { st with state := st' }) = s1
      have h1 : s1.stream k = { s.stream k with state := st' } := by
        rw [← hs1]; exact stream_modStream_live hk _ (fun _ => rfl)
      generalize (s1.counts.isLocalInit (s1.stream k).id && !(s1.stream k).isPendingPush) = c
      generalize hs2 : (if c = true then s1.queueOpen k else s1) = s2
      have h2 : SPr rqs s1 s2 := by
        rw [← hs2]; split
        · unfold Streams.queueOpen; exact qPush_spr s1 _ k (setQueued_rqs _)
        · exact .refl _ _
      have h3 : SPr rqs s1 (s2.queueFrame k (.headers eos f)) := h2.trans (queueFrame_rqs _ _ _)
      have h4 : rqs ((if c = true then
          (s2.queueFrame k (.headers eos f)).notifyTask else s2.queueFrame k (.headers eos f)).stream k) = rqs (s1.stream k) := by
        split
        · exact (h3.trans (.of_store (notifyTask_store _))) k
        · exact h3 k
      rw [h1] at h4
      unfold rqs at h4
      simp only [Prod.mk.injEq] at h4
      exact ⟨h4.1, by rw [h4.2]; exact hst'⟩

/-- the entry a successful `send_request` creates -/
theorem sendRequest_new {s : Streams} (hk : KeysOK s) {isHead : Bool} {fields : List Hpack.Field} {eos : Bool} {pending : Option Nat}
    {k : Nat} {f : Bool} (h : (s.sendRequest isHead fields eos pending).2 = .ok (k, f)) :
    ((s.sendRequest isHead fields eos pending).1.stream k).pendingRecv = [] ∧
    ((s.sendRequest isHead fields eos pending).1.stream k).state.isRecvStreaming = false ∧
    s.counts.isServer = false := by
  have hsv : s.counts.isServer = false := by
    unfold Streams.sendRequest at h
    cases hh : s.counts.isServer with
    | false => rfl
    | true =>
      exfalso
      rw [hh] at h
      repeat (first | (dsimp only at h; cases h) | cases h | split at h)
  refine ⟨?_, ?_, hsv⟩ <;>
  (rcases sendRequest_cases' s isHead fields eos pending with ⟨e, he⟩ | he
   · rw [he] at h; cases h
   · rw [he] at h ⊢
     unfold sendRequestCore at h ⊢
     have hst1 := sendOpenId_store s
     generalize s.sendOpenId = p at h hst1 ⊢
     obtain ⟨s1, r⟩ := p
     dsimp only at hst1
     cases r with
     | error e => cases h
     | ok id =>
       simp only [] at h ⊢
       generalize hsP : (if s1.store.contains id = true then s1.panic _ else s1) = sP at h ⊢
       have hstP : sP.store = s.store := by rw [← hsP]; split; rw [panic_store, hst1]; exact hst1
       generalize hst : (if isHead = true then _ else Stream.new id s1.actions.send.initWindowSz s1.recv.initWindowSz) = st at h ⊢
       have hkk : (sP.store.insert st).2 = sP.store.nextKey := rfl
       rw [hkk] at h ⊢
       have hkP : KeysOK sP := ⟨by rw [hstP]; exact hk.nodup, by unfold KeysFresh; rw [hstP]; exact hk.fresh⟩
       have hg2 : ({ sP with store := (sP.store.insert st).1 } : Streams).store.get? sP.store.nextKey = some { st with key := sP.store.nextKey } :=
         insert_get?_new hkP.fresh st
       have hl2 : Live ({ sP with store := (sP.store.insert st).1 } : Streams) sP.store.nextKey := ⟨_, hg2⟩
       have hs2 : ({ sP with store := (sP.store.insert st).1 } : Streams).stream sP.store.nextKey = { st with key := sP.store.nextKey } :=
         stream_of_get? hg2
       have hst0 : st.pendingRecv = [] ∧ st.state.inner = .idle := by rw [← hst]; split <;> exact ⟨rfl, rfl⟩
       have h5 := sendHeaders_idle hl2 (by rw [hs2]; exact hst0.2) eos fields
       rw [hs2] at h5
       have hl3 : Live (Streams.sendHeaders ({ sP with store := (sP.store.insert st).1 } : Streams) sP.store.nextKey eos fields).1 sP.store.nextKey :=
         (sendHeaders_lt _ _ _ _).keys.live.mpr hl2
       generalize Streams.sendHeaders _ sP.store.nextKey eos fields = q at h h5 hl3 ⊢
       obtain ⟨s3, r3⟩ := q
       cases r3 with
       | error e => cases h
       | ok u =>
         simp only [Except.ok.injEq, Prod.mk.injEq] at h
         rw [← h.1]
         simp only []
         have hl4 : Live ({ s3 with refs := s3.refs + 1 } : Streams) sP.store.nextKey := hl3
         unfold Streams.refInc
         have h6 := stream_modStream_live hl4 (fun st => { st with refCount := st.refCount + 1 }) (fun _ => rfl)
         rw [h6]
         first | exact h5.1.trans hst0.1 | exact h5.2)

-- ===================================================================== push

theorem reserveLocal_str {st st' : State} {r : Except UserError Unit} (h : st.reserveLocal = (st', r))
    (hs : st'.isRecvStreaming = true) : st.isRecvStreaming = true := by
  obtain ⟨i⟩ := st
  unfold State.reserveLocal at h
  cases i <;> simp only [Prod.mk.injEq] at h <;> rw [← h.1] at hs <;> first | exact hs | cases hs

theorem refSendPushPromise_rp {X : List Nat} (s : Streams) (hk : KeysOK s) (parent : Nat) (valid : Bool) (fields : List Hpack.Field) :
    RP X s (s.refSendPushPromise parent valid fields).1 := by
  unfold Streams.refSendPushPromise
  have h1 := sendReserveLocal_rp (X := X) s
  have hst1 : s.sendReserveLocal.1.store = s.store := by unfold Streams.sendReserveLocal; exact sendOpenId_store s
  generalize s.sendReserveLocal = p at h1 hst1
  obtain ⟨s1, r⟩ := p
  dsimp only at h1 hst1
  cases r with
  | error e => exact h1
  | ok id =>
    simp only []
    generalize hsP : (if s1.store.contains id = true then s1.panic _ else s1) = sP
    have hP : RP X s sP := by rw [← hsP]; rp_auto
    have hstP : sP.store = s.store := by rw [← hsP]; split; rw [panic_store, hst1]; exact hst1
    generalize Stream.new id sP.actions.send.initWindowSz sP.recv.initWindowSz = st
    have hkk : (sP.store.insert st).2 = s.store.nextKey := by show sP.store.nextKey = _; rw [hstP]
    rw [hkk]
    have h2 := hP.trans (insert_rp sP st)
    generalize ({ sP with store := (sP.store.insert st).1 } : Streams) = s2 at h2 ⊢
    split
    · exact h2
    · next st' _ heq =>
      have h3 : RP X s (s2.modStream s.store.nextKey fun x => { x with state := st', isPendingPush := true }) :=
        h2.trans (modStream_rp' _ _ _ ⟨rfl, rfl, Nat.le_refl _, reserveLocal_str heq⟩)
      split
      · exact h3
      · have h4 := h3.trans (sendPushPromise_rp _ parent s.store.nextKey id fields)
        generalize Streams.sendPushPromise _ parent s.store.nextKey id fields = q at h4
        obtain ⟨s4, r4⟩ := q
        cases r4 with
        | error e =>
          simp only []
          refine h4.of_get s.store.nextKey (ref0_of_not_live (not_live_nextKey hk)) (fun j hj => ?_)
          show ((s4.store.unlink id).remove s.store.nextKey).get? j = _
          rw [get?_remove_ne _ _ _ hj]; rfl
        | ok u =>
          simp only []
          exact (h4.trans (setMisc_rp s4 s4.actions (s4.refs + 1) s4.recvBufferLeaked s4.wakes s4.unsupported)).trans (refInc_rp _ _)

/-- no PUSH_PROMISE is accepted: this is a server, or push is disabled -/
def RNoPush (s : Streams) : Prop := s.counts.isServer = true ∨ s.recv.isPushEnabled = false

theorem recvPushPromise_noPush {s : Streams} (hp : RNoPush s) (id : Nat) (h : HeadersIn) : (s.recvPushPromise id h).1 = s := by
  unfold Streams.recvPushPromise
  dsimp only
  split
  · rfl
  · next hsv =>
    have hpe : s.recv.isPushEnabled = false := by
      rcases hp with h1 | h1
      · exact absurd h1 hsv
      · exact h1
    have hcr : s.ensureCanReserve = .error (PErr.libraryGoAway PROTOCOL_ERROR) := by
      unfold Streams.ensureCanReserve; simp [hpe]
    simp only [hcr]
    split
    all_goals (
      rename_i heq
      have h1 := congrArg Prod.fst heq
      dsimp only at h1
      have hs := h1.symm.trans (by repeat (first | rfl | split) : _ = s)
      subst hs
      try simp only [hcr])

end H2V.Lemmas.ConnNoPanicP
