import H2V.Lemmas.ConnFlowPSettings
/-
  ConnFlowP, part 8 — every function of `recv.rs` (`ConnRecv.lean`) is a send-flow frame step.
-/
namespace H2V.Lemmas.ConnFlowP
open H2V H2V.Model H2V.Model.Conn

section
variable {s t : Streams}

/-- `setStream` with an entry that agrees with the one stored under `id` -/
theorem Fr.setStream_like (h : Fr s t) (id : Nat) (st1 : Stream) (hk : st1.key = (t.stream id).key)
    (hf : st1.sendFlow = (t.stream id).sendFlow) : Fr s (t.setStream st1) := by
  refine h.trans ⟨rfl, rfl, ?_⟩
  intro hko
  refine StoreFr.set _ _ ?_ hko
  intro x hx hxk
  cases hget : t.store.get? id with
  | none =>
    have hb : t.stream id = { key := id, id := 0 } := by unfold Streams.stream; rw [hget]; rfl
    rw [hb] at hk
    unfold Store.get? at hget
    have := List.find?_eq_none.1 hget x hx
    simp only [beq_iff_eq] at this
    exact absurd (hxk.trans hk) this
  | some st =>
    have hm := get?_mem hget
    rw [stream_of_get hget] at hk hf
    have : x = st := key_inj hko.1 hx hm.1 (hxk.trans hk)
    rw [this, hf]

theorem decContentLength_kf {x st1 : Stream} {len : Nat} (h : x.decContentLength len = some st1) :
    st1.key = x.key ∧ st1.sendFlow = x.sendFlow := by
  unfold Stream.decContentLength at h
  split at h
  · split at h
    · cases h; exact ⟨rfl, rfl⟩
    · cases h
  · split at h
    · cases h
    · cases h; exact ⟨rfl, rfl⟩
  · cases h; exact ⟨rfl, rfl⟩

theorem Fr.setStream_dec (h : Fr s t) {id len : Nat} {st1 : Stream}
    (he : (t.stream id).decContentLength len = some st1) : Fr s (t.setStream st1) :=
  h.setStream_like id st1 (decContentLength_kf he).1 (decContentLength_kf he).2

end

macro_rules | `(tactic| fr_peel) => `(tactic| (with_reducible apply Fr.setStream_dec (he := by assumption)))

section
variable {s t : Streams}

theorem Fr.releaseConnectionCapacity (h : Fr s t) (c : Nat) (b : Bool) : Fr s (t.releaseConnectionCapacity c b) := by
  fr_by Streams.releaseConnectionCapacity
macro_rules | `(tactic| fr_peel) => `(tactic| with_reducible apply Fr.releaseConnectionCapacity)

theorem Fr.releaseCapacity (h : Fr s t) (id c : Nat) (b : Bool) : Fr s (t.releaseCapacity id c b).1 := by
  fr_by Streams.releaseCapacity
macro_rules | `(tactic| fr_peel) => `(tactic| with_reducible apply Fr.releaseCapacity)

theorem Fr.clearRecvBuffer (h : Fr s t) (id : Nat) (b : Bool) : Fr s (t.clearRecvBuffer id b) := by
  fr_by Streams.clearRecvBuffer
macro_rules | `(tactic| fr_peel) => `(tactic| with_reducible apply Fr.clearRecvBuffer)

theorem Fr.releaseClosedCapacity (h : Fr s t) (id : Nat) : Fr s (t.releaseClosedCapacity id) := by
  fr_by Streams.releaseClosedCapacity
macro_rules | `(tactic| fr_peel) => `(tactic| with_reducible apply Fr.releaseClosedCapacity)

theorem Fr.setTargetConnectionWindow (h : Fr s t) (n : Nat) : Fr s (t.setTargetConnectionWindow n).1 := by
  fr_by Streams.setTargetConnectionWindow
macro_rules | `(tactic| fr_peel) => `(tactic| with_reducible apply Fr.setTargetConnectionWindow)

theorem Fr.consumeConnectionWindow (h : Fr s t) (n : Nat) : Fr s (t.consumeConnectionWindow n).1 := by
  fr_by Streams.consumeConnectionWindow
macro_rules | `(tactic| fr_peel) => `(tactic| with_reducible apply Fr.consumeConnectionWindow)

theorem Fr.ignoreData (h : Fr s t) (n : Nat) : Fr s (t.ignoreData n).1 := by
  fr_by Streams.ignoreData
macro_rules | `(tactic| fr_peel) => `(tactic| with_reducible apply Fr.ignoreData)

theorem Fr.recvOpen (h : Fr s t) (id : Nat) (b : Bool) : Fr s (t.recvOpen id b).1 := by
  fr_by Streams.recvOpen
macro_rules | `(tactic| fr_peel) => `(tactic| with_reducible apply Fr.recvOpen)

theorem Fr.notifyPushIfRecvEnded (h : Fr s t) (id : Nat) : Fr s (t.notifyPushIfRecvEnded id) := by
  fr_by Streams.notifyPushIfRecvEnded
macro_rules | `(tactic| fr_peel) => `(tactic| with_reducible apply Fr.notifyPushIfRecvEnded)

set_option maxHeartbeats 800000 in
theorem Fr.recvRecvHeaders (h : Fr s t) (id : Nat) (hd : HeadersIn) : Fr s (t.recvRecvHeaders id hd).1 := by
  fr_by Streams.recvRecvHeaders
macro_rules | `(tactic| fr_peel) => `(tactic| with_reducible apply Fr.recvRecvHeaders)

theorem Fr.recvRecvTrailers (h : Fr s t) (id : Nat) (hd : HeadersIn) : Fr s (t.recvRecvTrailers id hd).1 := by
  fr_by Streams.recvRecvTrailers
macro_rules | `(tactic| fr_peel) => `(tactic| with_reducible apply Fr.recvRecvTrailers)

set_option maxHeartbeats 800000 in
theorem Fr.recvRecvData (h : Fr s t) (id : Nat) (p : Bytes) (eos : Bool) (pad : Option Nat) :
    Fr s (t.recvRecvData id p eos pad).1 := by
  fr_by Streams.recvRecvData
macro_rules | `(tactic| fr_peel) => `(tactic| with_reducible apply Fr.recvRecvData)

theorem Fr.recvRecvPushPromise (h : Fr s t) (id : Nat) (hd : HeadersIn) : Fr s (t.recvRecvPushPromise id hd).1 := by
  fr_by Streams.recvRecvPushPromise
macro_rules | `(tactic| fr_peel) => `(tactic| with_reducible apply Fr.recvRecvPushPromise)

theorem Fr.recvNextIncoming (h : Fr s t) : Fr s t.recvNextIncoming.1 := by
  fr_by Streams.recvNextIncoming
macro_rules | `(tactic| fr_peel) => `(tactic| with_reducible apply Fr.recvNextIncoming)

theorem Fr.recvTakeRequest (h : Fr s t) (id : Nat) : Fr s (t.recvTakeRequest id).1 := by
  fr_by Streams.recvTakeRequest
macro_rules | `(tactic| fr_peel) => `(tactic| with_reducible apply Fr.recvTakeRequest)

theorem Fr.recvRecvReset (h : Fr s t) (id : Nat) (r : Reason) : Fr s (t.recvRecvReset id r).1 := by
  fr_by Streams.recvRecvReset
macro_rules | `(tactic| fr_peel) => `(tactic| with_reducible apply Fr.recvRecvReset)

theorem Fr.recvHandleError (h : Fr s t) (id : Nat) (e : PErr) : Fr s (t.recvHandleError id e) := by
  fr_by Streams.recvHandleError
macro_rules | `(tactic| fr_peel) => `(tactic| with_reducible apply Fr.recvHandleError)

theorem Fr.recvGoAway (h : Fr s t) (id : Nat) : Fr s (t.recvGoAway id) := by
  fr_by Streams.recvGoAway
macro_rules | `(tactic| fr_peel) => `(tactic| with_reducible apply Fr.recvGoAway)

theorem Fr.recvRecvEof (h : Fr s t) (id : Nat) : Fr s (t.recvRecvEof id) := by
  fr_by Streams.recvRecvEof
macro_rules | `(tactic| fr_peel) => `(tactic| with_reducible apply Fr.recvRecvEof)

theorem Fr.recvMaybeResetNextStreamId (h : Fr s t) (id : Nat) : Fr s (t.recvMaybeResetNextStreamId id) := by
  fr_by Streams.recvMaybeResetNextStreamId
macro_rules | `(tactic| fr_peel) => `(tactic| with_reducible apply Fr.recvMaybeResetNextStreamId)

theorem Fr.enqueueResetExpiration (h : Fr s t) (id : Nat) : Fr s (t.enqueueResetExpiration id) := by
  fr_by Streams.enqueueResetExpiration
macro_rules | `(tactic| fr_peel) => `(tactic| with_reducible apply Fr.enqueueResetExpiration)

theorem Fr.sendPendingRefusal (h : Fr s t) (w : Writer) : Fr s (t.sendPendingRefusal w).1 := by
  fr_by Streams.sendPendingRefusal
macro_rules | `(tactic| fr_peel) => `(tactic| with_reducible apply Fr.sendPendingRefusal)

theorem Fr.clearExpiredResetStreams (fuel : Nat) : ∀ {t : Streams}, Fr s t → Fr s (Streams.clearExpiredResetStreams fuel t) := by
  induction fuel with
  | zero => intro t h; exact h
  | succ n ih => intro t h; fr_by Streams.clearExpiredResetStreams
macro_rules | `(tactic| fr_peel) => `(tactic| with_reducible apply Fr.clearExpiredResetStreams)

theorem Fr.clearStreamWindowUpdateQueue (fuel : Nat) :
    ∀ {t : Streams}, Fr s t → Fr s (Streams.clearStreamWindowUpdateQueue fuel t) := by
  induction fuel with
  | zero => intro t h; exact h
  | succ n ih => intro t h; fr_by Streams.clearStreamWindowUpdateQueue
macro_rules | `(tactic| fr_peel) => `(tactic| with_reducible apply Fr.clearStreamWindowUpdateQueue)

theorem Fr.clearAllResetStreams (fuel : Nat) : ∀ {t : Streams}, Fr s t → Fr s (Streams.clearAllResetStreams fuel t) := by
  induction fuel with
  | zero => intro t h; exact h
  | succ n ih => intro t h; fr_by Streams.clearAllResetStreams
macro_rules | `(tactic| fr_peel) => `(tactic| with_reducible apply Fr.clearAllResetStreams)

theorem Fr.clearAllPendingAccept (fuel : Nat) : ∀ {t : Streams}, Fr s t → Fr s (Streams.clearAllPendingAccept fuel t) := by
  induction fuel with
  | zero => intro t h; exact h
  | succ n ih => intro t h; fr_by Streams.clearAllPendingAccept
macro_rules | `(tactic| fr_peel) => `(tactic| with_reducible apply Fr.clearAllPendingAccept)

theorem Fr.recvClearQueues (h : Fr s t) (b : Bool) : Fr s (t.recvClearQueues b) := by
  fr_by Streams.recvClearQueues
macro_rules | `(tactic| fr_peel) => `(tactic| with_reducible apply Fr.recvClearQueues)

theorem Fr.sendConnectionWindowUpdate (h : Fr s t) (w : Writer) : Fr s (t.sendConnectionWindowUpdate w).1 := by
  fr_by Streams.sendConnectionWindowUpdate
macro_rules | `(tactic| fr_peel) => `(tactic| with_reducible apply Fr.sendConnectionWindowUpdate)

theorem Fr.sendStreamWindowUpdates (fuel : Nat) :
    ∀ {t : Streams}, Fr s t → ∀ w, Fr s (Streams.sendStreamWindowUpdates fuel t w).1 := by
  induction fuel with
  | zero => intro t h w; exact h
  | succ n ih => intro t h w; fr_by Streams.sendStreamWindowUpdates
macro_rules | `(tactic| fr_peel) => `(tactic| with_reducible apply Fr.sendStreamWindowUpdates)

theorem Fr.recvBufferPending (h : Fr s t) (w : Writer) : Fr s (t.recvBufferPending w).1 := by
  fr_by Streams.recvBufferPending
macro_rules | `(tactic| fr_peel) => `(tactic| with_reducible apply Fr.recvBufferPending)

theorem Fr.scheduleRecv (h : Fr s t) (id : Nat) (tag : String) : Fr s (t.scheduleRecv id tag).1 := by
  fr_by Streams.scheduleRecv
macro_rules | `(tactic| fr_peel) => `(tactic| with_reducible apply Fr.scheduleRecv)

theorem Fr.recvPollData (h : Fr s t) (id : Nat) (tag : String) : Fr s (t.recvPollData id tag).1 := by
  fr_by Streams.recvPollData
macro_rules | `(tactic| fr_peel) => `(tactic| with_reducible apply Fr.recvPollData)

theorem Fr.recvPollTrailers (h : Fr s t) (id : Nat) (tag : String) : Fr s (t.recvPollTrailers id tag).1 := by
  fr_by Streams.recvPollTrailers
macro_rules | `(tactic| fr_peel) => `(tactic| with_reducible apply Fr.recvPollTrailers)

theorem Fr.recvPollResponse (fuel : Nat) :
    ∀ {t : Streams}, Fr s t → ∀ id tag, Fr s (Streams.recvPollResponse fuel t id tag).1 := by
  induction fuel with
  | zero => intro t h id tag; exact h
  | succ n ih => intro t h id tag; fr_by Streams.recvPollResponse
macro_rules | `(tactic| fr_peel) => `(tactic| with_reducible apply Fr.recvPollResponse)

theorem Fr.recvPollInformational (h : Fr s t) (id : Nat) (tag : String) : Fr s (t.recvPollInformational id tag).1 := by
  unfold Streams.recvPollInformational; dsimp only
  split
  · rename_i r heq
    split at heq
    · cases heq; exact h
    · cases heq; fr_auto
    · cases heq
  · fr_auto
macro_rules | `(tactic| fr_peel) => `(tactic| with_reducible apply Fr.recvPollInformational)

end

end H2V.Lemmas.ConnFlowP
