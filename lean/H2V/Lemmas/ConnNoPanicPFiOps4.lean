import H2V.Lemmas.ConnNoPanicPFiOps3
/-
  C08 (no panic) — `FI` is a reachable invariant, part 8: the server's `StreamRef::send_push_promise`.
  Typing precondition: the parent is a peer-initiated stream (`push_request` exists on `SendResponse` only, not on
  `SendPushedResponse`) — see `ConnNoPanicPFiWitness.lean` for what happens without it.
-/
namespace H2V.Lemmas.ConnNoPanicP
open H2V H2V.Model H2V.Model.Conn H2V.Lemmas.ConnCountsP
attribute [local irreducible] wrapSubU32 wrapSubUsize

variable {sv : Bool}

/-- **`send_push_promise` keeps the bundle** -/
theorem refSendPushPromise_fb {s : Streams} (hn : NPI (fun _ => False) s) (hi : IBS s) (hb : FB sv (fun _ => False) s)
    (hr : s.counts.isServer = sv) {parent : Nat} (hk : Live s parent) (hty : locId sv (s.stream parent).id = false)
    (valid : Bool) (fields : List Hpack.Field) :
    FB sv (fun _ => False) (s.refSendPushPromise parent valid fields).1 := by
  unfold Streams.refSendPushPromise Streams.sendReserveLocal
  generalize hso : s.sendOpenId = p
  obtain ⟨s1, r⟩ := p
  have hst1 : s1.store = s.store := by have := sendOpenId_store s; rw [hso] at this; exact this
  have hfk1 : FK s s1 := FK.of_fst_eq hso (sendOpenId_fk s)
  have hb1 : FB sv (fun _ => False) s1 := hb.st hfk1 (SK.of_fst_eq hso (sendOpenId_sk s))
  have hk1 : KeysOK s1 := ⟨by rw [hst1]; exact hn.keys.nodup, by unfold KeysFresh; rw [hst1]; exact hn.keys.fresh⟩
  cases r with
  | error e => exact hb1
  | ok pid =>
    simp only []
    have hnext : s.actions.send.nextStreamId = some pid := sendOpenId_ok hso
    have hnc : s1.store.contains pid = false := by rw [hst1]; exact hi.hfree hn pid hnext
    simp only [hnc, Bool.false_eq_true, if_false]
    have hloc : locId sv pid = true := by
      have := hn.nl pid hnext; rw [isLocalInit_eq, hr] at this; exact this
    -- queued promised ids are below the old `next_stream_id`
    have hold : ∀ k' pid', pid' ∈ ppq s1 k' → pid' < pid := fun k' pid' hp =>
      hb.fx.lt k' pid' ((hfk1.ppq_sub k').subset hp) pid hnext
    have hlt1 : ∀ n, s1.actions.send.nextStreamId = some n → pid < n := fun n hn' => by
      have := (sendOpenId_next hso).2 n hn'; omega
    generalize hst : Stream.new pid s1.actions.send.initWindowSz s1.recv.initWindowSz = st
    have hid : st.id = pid := by rw [← hst]; rfl
    have hidle : st.state.inner = .idle := by rw [← hst]; rfl
    have hfr : Fresh st := by rw [← hst]; exact fresh_new _ _ _
    have hpp0 : st.isPendingPush = false := by rw [← hst]; rfl
    have hbd0 : st.bufferedSendData = 0 := by rw [← hst]; rfl
    have hio : ∀ id' k, s1.store.findKey? id' = some k → Live s1 k := by
      intro id' k hf; rw [hst1] at hf
      obtain ⟨x, hx⟩ := (hn.ids.findKey hf).1
      exact ⟨x, by rw [hst1]; exact hx⟩
    have hb2 := hb1.insert hk1 st hfr hpp0 hbd0 (by rw [hid]; exact hnc) hio
    have hkk : (s1.store.insert st).2 = s1.store.nextKey := rfl
    rw [hkk]
    have hns : ({ s1 with store := (s1.store.insert st).1 } : Streams).stream s1.store.nextKey = { st with key := s1.store.nextKey } :=
      stream_of_get? (insert_get?_new hk1.fresh st)
    have hl2 : Live ({ s1 with store := (s1.store.insert st).1 } : Streams) s1.store.nextKey := ⟨_, insert_get?_new hk1.fresh st⟩
    have hstr2 : ∀ j, j ≠ s1.store.nextKey → ({ s1 with store := (s1.store.insert st).1 } : Streams).stream j = s1.stream j := by
      intro j hj
      unfold Streams.stream
      rcases insert_get?_cases s1.store st j with e | ⟨_, e, _⟩
      · show ((s1.store.insert st).1.get? j).getD _ = _; rw [e]
      · exact absurd e hj
    have hq2 : ∀ k', ppq ({ s1 with store := (s1.store.insert st).1 } : Streams) k' = ppq s1 k' := by
      intro k'
      unfold ppq
      by_cases hj : k' = s1.store.nextKey
      · subst hj; rw [hns, stream_blank_of_not_live (not_live_of_none (get?_nextKey_none hk1.fresh))]
        show ppIdsOf st.pendingSend = _; rw [hfr.send]
      · rw [hstr2 k' hj]
    have hfind2 : ({ s1 with store := (s1.store.insert st).1 } : Streams).store.findKey? pid = some s1.store.nextKey := by
      show (s1.store.insert st).1.findKey? pid = _
      rw [findKey?_insert st (by rw [hid]; exact hnc), if_pos hid.symm]
    have hpar2 : Live ({ s1 with store := (s1.store.insert st).1 } : Streams) parent :=
      live_insert_old st (by obtain ⟨x, hx⟩ := hk; exact ⟨x, by rw [hst1]; exact hx⟩)
    have hparne : parent ≠ s1.store.nextKey := by
      intro e
      have : Live s1 parent := by obtain ⟨x, hx⟩ := hk; exact ⟨x, by rw [hst1]; exact hx⟩
      rw [e] at this
      exact not_live_of_none (get?_nextKey_none hk1.fresh) this
    have hpid2 : (({ s1 with store := (s1.store.insert st).1 } : Streams).stream parent).id = (s.stream parent).id := by
      rw [hstr2 parent hparne, stream_of_store_eqP hst1]
    have hb2' : FB sv (fun _ => False) ({ s1 with store := (s1.store.insert st).1 } : Streams) := by
      refine hb2.dropE (fun j hj hlj => ?_)
      rcases hj with hj | hj
      · exact hj.elim
      · subst hj
        right; right
        intro k' pid' hp hf
        have hid2 := hb2.idm pid' _ hf hlj
        rw [hns] at hid2
        have hid3 : pid = pid' := hid.symm.trans hid2
        rw [hq2] at hp
        have := hold k' pid' hp
        omega
    have hnx2 : ({ s1 with store := (s1.store.insert st).1 } : Streams).actions.send.nextStreamId = s1.actions.send.nextStreamId := rfl
    generalize hs2g : ({ s1 with store := (s1.store.insert st).1 } : Streams) = s2 at hns hl2 hq2 hfind2 hpar2 hpid2 hb2' hnx2 ⊢
    generalize hkg : s1.store.nextKey = k at hns hl2 hfind2 hparne ⊢
    rw [hns]
    have hrl : st.state.reserveLocal = ({ inner := .reservedLocal }, .ok ()) := by
      unfold State.reserveLocal; rw [hidle]
    simp only [hrl]
    -- the promised entry: `ReservedLocal`, `is_pending_push`
    have hst4 := stream_modStream_live hl2 (fun x => { x with state := ({ inner := .reservedLocal } : State), isPendingPush := true }) (fun _ => rfl)
    have hb4 : FB sv (fun _ => False) (s2.modStream k fun x => { x with state := ({ inner := .reservedLocal } : State), isPendingPush := true }) := by
      refine FB.modStream hb2' _ (fun _ => rfl) rfl rfl ?_ (.inl (fun _ _ => rfl)) ?_ ?_ ?_ ?_ (.inr ?_)
      all_goals rw [hns]
      · intro _; show suB st.state = true; unfold suB; rw [hidle]
      · intro _; show locId sv st.id = true; rw [hid]; exact hloc
      · intro ho
        have ho' : st.isPendingOpen = true := ho
        have h2 : st.isPendingOpen = false := hfr.fl .pendingOpen
        rw [ho'] at h2; cases h2
      · exact ⟨fun _ => ⟨hfr.counted, hfr.fl .pendingOpen⟩, fun _ => hfr.counted⟩
      · intro _ _; exact ⟨hfr.counted, hfr.fl .pendingOpen, hfr.send, hbd0⟩
      · exact ⟨hfr.counted, hfr.fl .pendingOpen⟩
    have hq4 : ∀ k', ppq (s2.modStream k fun x => { x with state := ({ inner := .reservedLocal } : State), isPendingPush := true }) k' = ppq s2 k' := by
      intro k'
      unfold ppq
      rcases modStream_streams s2 k (fun x => { x with state := ({ inner := .reservedLocal } : State), isPendingPush := true }) (fun _ => rfl) k' with e | ⟨e, _, e2⟩
      · rw [e]
      · subst e; rw [e2]
    have hoth4 : ∀ j, j ≠ k → (s2.modStream k fun x => { x with state := ({ inner := .reservedLocal } : State), isPendingPush := true }).stream j = s2.stream j := by
      intro j hj
      rcases modStream_streams s2 k (fun x => { x with state := ({ inner := .reservedLocal } : State), isPendingPush := true }) (fun _ => rfl) j with e | ⟨e, _⟩
      · exact e
      · exact absurd e hj
    have hfind4 : (s2.modStream k fun x => { x with state := ({ inner := .reservedLocal } : State), isPendingPush := true }).store.findKey? pid = some k := by
      unfold Store.findKey?; rw [modStream_ids]; exact hfind2
    have hnx4 := modStream_next s2 k (fun x => { x with state := ({ inner := .reservedLocal } : State), isPendingPush := true })
    have hpar4 : Live (s2.modStream k fun x => { x with state := ({ inner := .reservedLocal } : State), isPendingPush := true }) parent :=
      (SameKeys.modStream _ _ _).live.mpr hpar2
    generalize (s2.modStream k fun x => { x with state := ({ inner := .reservedLocal } : State), isPendingPush := true }) = s4 at hst4 hb4 hq4 hoth4 hfind4 hnx4 hpar4 ⊢
    cases valid with
    | false => simp only [Bool.not_false, if_true]; exact hb4
    | true =>
      simp only [Bool.not_true, Bool.false_eq_true, if_false]
      have hb5 : FB sv (fun _ => False) (s4.sendPushPromise parent k pid fields).1 := by
        unfold Streams.sendPushPromise
        split
        · exact hb4
        · split
          · exact hb4
          · split
            · exact hb4
            · unfold Streams.queueFrame
              refine FB.st (FB.queuePP hb4 fields hpar4 ?_ ?_ hloc hfind4 ?_ ?_ ?_ ?_) (scheduleSend_fk _ _) (scheduleSend_sk _ _)
              · rw [hoth4 parent hparne, hpid2]; exact hty
              · intro k' pid' hp e
                rw [hq4, hq2] at hp
                have := hold k' pid' hp
                omega
              · rw [hst4, hns]
              · rw [hst4, hns]; exact hfr.counted
              · rw [hst4, hns]; exact hfr.fl .pendingOpen
              · intro n hn'; rw [hnx4, hnx2] at hn'; exact hlt1 n hn'
      generalize hsp : s4.sendPushPromise parent k pid fields = q at hb5 ⊢
      obtain ⟨s5, r5⟩ := q
      cases r5 with
      | error e => exact FB.st hb5 (unlinkRemove_fk _ _ _) (unlinkRemove_sk _ _ _)
      | ok u =>
        simp only []
        exact FB.st hb5 ((setMisc_fk s5 s5.actions (s5.refs + 1) s5.recvBufferLeaked s5.wakes s5.unsupported rfl).trans (refInc_fk _ _))
          ((setMisc_sk s5 s5.actions (s5.refs + 1) s5.recvBufferLeaked s5.wakes s5.unsupported rfl).trans (refInc_sk _ _))

end H2V.Lemmas.ConnNoPanicP
