import H2V.Lemmas.ConnCountsPBase
/-
  C05 / C18 / C19 — part 2: `Ev` for the building blocks of the model (`modStream`, `modPrio`, …,
  `transitionAfter`, `transition`, `storeTryForEach`).
-/
namespace H2V.Lemmas.ConnCountsP
open H2V H2V.Model H2V.Model.Conn
variable {ρ : Bool}

-- ===================================================================== store look-ups

theorem get?_key {st : Store} {k : Nat} {x : Stream} (h : st.get? k = some x) : x.key = k := by
  unfold Store.get? at h
  have := List.find?_some h
  simpa using this

theorem stream_key (s : Streams) (k : Nat) : (s.stream k).key = k := by
  unfold Streams.stream
  cases h : s.store.get? k with
  | none => rfl
  | some x => exact get?_key h

theorem stream_of_get? {s : Streams} {k : Nat} {x : Stream} (h : s.store.get? k = some x) : s.stream k = x := by
  simp [Streams.stream, h]

-- ===================================================================== steps that leave store and queues alone

theorem panic_ev (s : Streams) (m : String) : EvB ρ s (s.panic m) := by
  unfold Streams.panic
  split
  · exact .refl _
  · exact .free ⟨rfl, CStep.refl _, fun _ => rfl, fun _ => rfl, NextOK.refl _ _⟩

theorem unsup_ev (s : Streams) (m : String) : EvB ρ s (s.unsup m) := by
  unfold Streams.unsup
  split
  · exact .refl _
  · exact .free ⟨rfl, CStep.refl _, fun _ => rfl, id, NextOK.refl _ _⟩

theorem wake_ev (s : Streams) (t : List String) : EvB ρ s (s.wake t) :=
  .free ⟨rfl, CStep.refl _, fun _ => rfl, id, NextOK.refl _ _⟩

theorem notifyTask_ev (s : Streams) : EvB ρ s s.notifyTask := by
  unfold Streams.notifyTask
  split
  · exact .free ⟨rfl, CStep.refl _, fun q => by cases q <;> rfl, id, NextOK.refl _ _⟩
  · exact .refl _

theorem modPrio_ev (s : Streams) (f : Prioritize → Prioritize)
    (h : ∀ p, (f p).pendingSend = p.pendingSend ∧ (f p).pendingCapacity = p.pendingCapacity ∧ (f p).pendingOpen = p.pendingOpen) :
    EvB ρ s (s.modPrio f) := by
  refine .free ⟨rfl, CStep.refl _, ?_, id, NextOK.refl _ _⟩
  intro q
  cases q <;> simp [Streams.getQ, Streams.prio, Streams.recv, Streams.modPrio, h]

theorem modRecv_ev (s : Streams) (f : Recv → Recv)
    (h : ∀ p, (f p).pendingWindowUpdates = p.pendingWindowUpdates ∧ (f p).pendingAccept = p.pendingAccept ∧
      (f p).pendingResetExpired = p.pendingResetExpired) :
    EvB ρ s (s.modRecv f) := by
  refine .free ⟨rfl, CStep.refl _, ?_, id, NextOK.refl _ _⟩
  intro q
  cases q <;> simp [Streams.getQ, Streams.prio, Streams.recv, Streams.modRecv, h]

theorem modSend_ev (s : Streams) (f : Send → Send)
    (h : ∀ p, (f p).prioritize = p.prioritize) (hn : NextOK s.counts.isServer s.actions.send.nextStreamId (f s.actions.send).nextStreamId) :
    EvB ρ s (s.modSend f) := by
  refine .free ⟨rfl, CStep.refl _, ?_, id, hn⟩
  intro q
  cases q <;> simp [Streams.getQ, Streams.prio, Streams.recv, Streams.modSend, h]

theorem setCounts_ev (s : Streams) (c : Counts) (h : CStep s.counts c) : EvB ρ s { s with counts := c } :=
  .free ⟨rfl, h, fun q => by cases q <;> rfl, id, by rw [show s.counts.isServer = s.counts.isServer from rfl]; exact NextOK.refl _ _⟩

theorem modCounts_ev (s : Streams) (f : Counts → Counts) (h : CStep s.counts (f s.counts)) : EvB ρ s (s.modCounts f) :=
  setCounts_ev s _ h

theorem modCountsA_ev (s : Streams) (w : String) (f : Counts → Option Counts)
    (h : ∀ c', f s.counts = some c' → CStep s.counts c') : EvB ρ s (s.modCountsA w f) := by
  unfold Streams.modCountsA
  split
  · next c hc => exact setCounts_ev s c (h c hc)
  · exact panic_ev _ _

/-- any record update of the fields no invariant looks at -/
theorem setMisc_ev (s : Streams) (a : Actions) (refs leaked : Nat) (wk : List String) (un : Option String)
    (ha : a.recv.pendingWindowUpdates = s.actions.recv.pendingWindowUpdates ∧ a.recv.pendingAccept = s.actions.recv.pendingAccept ∧
          a.recv.pendingResetExpired = s.actions.recv.pendingResetExpired ∧ a.send.prioritize = s.actions.send.prioritize ∧
          a.send.nextStreamId = s.actions.send.nextStreamId) :
    EvB ρ s { s with actions := a, refs := refs, recvBufferLeaked := leaked, wakes := wk, unsupported := un } := by
  refine .free ⟨rfl, CStep.refl _, ?_, id, ?_⟩
  · intro q
    cases q <;> simp [Streams.getQ, Streams.prio, Streams.recv, ha]
  · simp only [ha.2.2.2.2]; exact NextOK.refl _ _

-- ===================================================================== stream updates

theorem setStream_ev (s : Streams) (k : Nat) (st' : Stream) (h : Same (s.stream k) st') : EvB ρ s (s.setStream st') := by
  refine .setStream st' ?_
  intro x hx
  have hk : st'.key = k := h.key.trans (stream_key s k)
  rw [hk] at hx
  rw [← stream_of_get? hx]; exact h

theorem modStream_ev (s : Streams) (k : Nat) (f : Stream → Stream)
    (h : ∀ st, s.store.get? k = some st → Same st (f st)) : EvB ρ s (s.modStream k f) := by
  unfold Streams.modStream
  split
  · next st hst =>
    refine setStream_ev s k _ ?_
    rw [stream_of_get? hst]; exact h st hst
  · exact panic_ev _ _

theorem modStreamW_ev (s : Streams) (k : Nat) (f : Stream → Stream × List String)
    (h : ∀ st, s.store.get? k = some st → Same st (f st).1) : EvB ρ s (s.modStreamW k f) := by
  unfold Streams.modStreamW
  split
  · next st hst =>
    refine .trans (setStream_ev s k _ ?_) (wake_ev _ _)
    rw [stream_of_get? hst]; exact h st hst
  · exact panic_ev _ _

/-- the same with the side condition stated on `s.stream k` -/
theorem modStream_ev' (s : Streams) (k : Nat) (f : Stream → Stream)
    (h : Same (s.stream k) (f (s.stream k))) : EvB ρ s (s.modStream k f) :=
  modStream_ev s k f (fun st hst => by rw [stream_of_get? hst] at h; exact h)

theorem modStreamW_ev' (s : Streams) (k : Nat) (f : Stream → Stream × List String)
    (h : Same (s.stream k) (f (s.stream k)).1) : EvB ρ s (s.modStreamW k f) :=
  modStreamW_ev s k f (fun st hst => by rw [stream_of_get? hst] at h; exact h)

-- ===================================================================== frame facts about single steps

theorem find?_map_key (l : List Stream) (g : Stream → Stream) (k : Nat) (hg : ∀ x, (g x).key = x.key) :
    (l.map g).find? (·.key == k) = (l.find? (·.key == k)).map g := by
  induction l with
  | nil => rfl
  | cons a l ih =>
    simp only [List.map_cons, List.find?_cons, hg]
    cases a.key == k
    · simpa using ih
    · rfl

theorem setStream_get? (s : Streams) (st' : Stream) (k : Nat) :
    (s.setStream st').store.get? k = (s.store.get? k).map fun x => if x.key == st'.key then st' else x := by
  unfold Streams.setStream Store.set Store.get?
  refine find?_map_key _ _ k ?_
  intro x
  by_cases h : x.key == st'.key
  · simp only [h, if_true]; simp at h; exact h.symm
  · simp only [h]; rfl

end H2V.Lemmas.ConnCountsP
