import H2V.Lemmas.ConnCountsPTac
/-
  C05 / C18 / C19 — part 4: what never goes back along `Ev`: a panic stays, a stream that sits in
  `pending_reset_expired` keeps its `reset_at` (only `EvT`'s `resetPop` clears it) and is therefore
  not released, the configured limits and the role do not change, the local-error-reset counter does
  not decrease.
-/
namespace H2V.Lemmas.ConnCountsP
open H2V H2V.Model H2V.Model.Conn
variable {ρ : Bool}

-- ===================================================================== look-ups after the elementary updates

theorem setQ_store (s : Streams) (q : QName) (l : List Nat) : (s.setQ q l).store = s.store := by cases q <;> rfl
theorem setQ_counts (s : Streams) (q : QName) (l : List Nat) : (s.setQ q l).counts = s.counts := by cases q <;> rfl
theorem setQ_panicked (s : Streams) (q : QName) (l : List Nat) : (s.setQ q l).panicked = s.panicked := by cases q <;> rfl
theorem setQ_stream (s : Streams) (q : QName) (l : List Nat) (j : Nat) : (s.setQ q l).stream j = s.stream j := by
  unfold Streams.stream; rw [setQ_store]

theorem getQ_setQ (s : Streams) (q : QName) (l : List Nat) : (s.setQ q l).getQ q = l := by cases q <;> rfl
theorem getQ_setQ_ne (s : Streams) (q q' : QName) (l : List Nat) (h : q' ≠ q) : (s.setQ q l).getQ q' = s.getQ q' := by
  cases q <;> cases q' <;> first | rfl | exact absurd rfl h

theorem panic_store (s : Streams) (m : String) : (s.panic m).store = s.store := by
  unfold Streams.panic; split <;> rfl
theorem panic_counts (s : Streams) (m : String) : (s.panic m).counts = s.counts := by
  unfold Streams.panic; split <;> rfl
theorem panic_actions (s : Streams) (m : String) : (s.panic m).actions = s.actions := by
  unfold Streams.panic; split <;> rfl
theorem panic_isSome (s : Streams) (m : String) : (s.panic m).panicked.isSome = true := by
  unfold Streams.panic; split
  · next h => simp [h]
  · rfl
theorem panic_stream (s : Streams) (m : String) (j : Nat) : (s.panic m).stream j = s.stream j := by
  unfold Streams.stream; rw [panic_store]
theorem panic_getQ (s : Streams) (m : String) (q : QName) : (s.panic m).getQ q = s.getQ q := by
  unfold Streams.getQ Streams.prio Streams.recv; rw [panic_actions]

/-- the entry behind `j` after `setStream st'`: untouched, or `st'` when `j` is its key and exists -/
theorem setStream_stream (s : Streams) (st' : Stream) (j : Nat) :
    (s.setStream st').stream j = s.stream j ∨
    ((s.setStream st').stream j = st' ∧ j = st'.key ∧ (s.store.get? j).isSome = true) := by
  unfold Streams.stream
  rw [setStream_get?]
  cases h : s.store.get? j with
  | none => left; rfl
  | some x =>
    have hx := get?_key h
    by_cases hk : x.key == st'.key
    · right; simp only [Option.map_some, hk, if_true, Option.getD_some, Option.isSome_some, and_true, true_and]
      simp at hk; omega
    · left
      simp only [Option.map_some, Option.getD_some]
      rw [if_neg hk]

theorem setStream_get?_isSome (s : Streams) (st' : Stream) (j : Nat) :
    ((s.setStream st').store.get? j).isSome = (s.store.get? j).isSome := by
  rw [setStream_get?]; cases s.store.get? j <;> rfl

-- ===================================================================== `Mono`

/-- the parts of `Counts` that only the configuration sets, and the monotone counter -/
structure CM (c c' : Counts) : Prop where
  isServer : c'.isServer = c.isServer
  maxRecv : c'.maxRecvStreams = c.maxRecvStreams
  maxReset : c'.maxLocalResetStreams = c.maxLocalResetStreams
  maxRemote : c'.maxRemoteResetStreams = c.maxRemoteResetStreams
  maxErr : c'.maxLocalErrorResetStreams = c.maxLocalErrorResetStreams
  err : c.numLocalErrorResetStreams ≤ c'.numLocalErrorResetStreams

theorem CM.refl (c : Counts) : CM c c := ⟨rfl, rfl, rfl, rfl, rfl, Nat.le_refl _⟩
theorem CM.trans {a b c : Counts} (h1 : CM a b) (h2 : CM b c) : CM a c :=
  ⟨h2.isServer.trans h1.isServer, h2.maxRecv.trans h1.maxRecv, h2.maxReset.trans h1.maxReset,
   h2.maxRemote.trans h1.maxRemote, h2.maxErr.trans h1.maxErr, Nat.le_trans h1.err h2.err⟩
theorem CM.of_cstep {c c' : Counts} (h : CStep c c') : CM c c' :=
  ⟨h.isServer, h.maxRecv, h.maxReset, h.maxRemote, h.maxErr, by rcases h.err with e | e <;> omega⟩

structure Mono (s s' : Streams) : Prop where
  panic : s.panicked.isSome = true → s'.panicked.isSome = true
  resetAt : ∀ j, (s.stream j).resetAt = true → (s'.stream j).resetAt = true
  counts : CM s.counts s'.counts

theorem Mono.refl (s : Streams) : Mono s s := ⟨id, fun _ h => h, CM.refl _⟩
theorem Mono.trans {a b c : Streams} (h1 : Mono a b) (h2 : Mono b c) : Mono a c :=
  ⟨fun h => h2.panic (h1.panic h), fun j h => h2.resetAt j (h1.resetAt j h), h1.counts.trans h2.counts⟩

theorem Mono.of_frame {s s' : Streams} (h : Frame s s') : Mono s s' :=
  ⟨h.panic, fun j hj => by unfold Streams.stream at *; rw [h.store]; exact hj, CM.of_cstep h.counts⟩

theorem Mono.panic' (s : Streams) (m : String) : Mono s (s.panic m) :=
  ⟨fun _ => panic_isSome _ _, fun j h => by rw [panic_stream]; exact h, by rw [panic_counts]; exact CM.refl _⟩

theorem Mono.setQ (s : Streams) (q : QName) (l : List Nat) : Mono s (s.setQ q l) :=
  ⟨fun h => by rw [setQ_panicked]; exact h, fun j h => by rw [setQ_stream]; exact h, by rw [setQ_counts]; exact CM.refl _⟩

theorem Mono.setStream (s : Streams) (st' : Stream)
    (h : ∀ x, s.store.get? st'.key = some x → x.resetAt = true → st'.resetAt = true) : Mono s (s.setStream st') := by
  refine ⟨id, ?_, CM.refl _⟩
  intro j hj
  rcases setStream_stream s st' j with e | ⟨e, hk, hs⟩
  · rw [e]; exact hj
  · rw [e]
    obtain ⟨x, hx⟩ := Option.isSome_iff_exists.mp hs
    rw [stream_of_get? hx] at hj
    exact h x (hk ▸ hx) hj

theorem Mono.modStream (s : Streams) (k : Nat) (f : Stream → Stream)
    (h : ∀ x, x.resetAt = true → (f x).resetAt = true) (hk : ∀ x, (f x).key = x.key) : Mono s (s.modStream k f) := by
  unfold Streams.modStream
  split
  · next st hst =>
    refine Mono.setStream s _ ?_
    intro x hx
    rw [hk, get?_key hst, hst] at hx
    cases hx; exact h st
  · exact Mono.panic' _ _

theorem Mono.modCounts (s : Streams) (f : Counts → Counts) (h : CM s.counts (f s.counts)) : Mono s (s.modCounts f) :=
  ⟨id, fun _ hj => hj, h⟩

theorem Mono.setStore (s : Streams) (st : Store) (n : Nat)
    (h : ∀ j, (s.stream j).resetAt = true → ((st.get? j).getD { key := j, id := 0 }).resetAt = true) :
    Mono s { s with store := st, recvBufferLeaked := n } :=
  ⟨id, h, CM.refl _⟩

-- ===================================================================== the queue / counter primitives

theorem setQueued_resetAt (x : Stream) (q : QName) (v : Bool) (hq : q ≠ .pendingResetExpired ∨ v = true) :
    x.resetAt = true → (x.setQueued q v).resetAt = true := by
  intro h
  cases q <;> first | exact h | (rcases hq with hq | hq; exact absurd rfl hq; subst hq; rfl)

theorem setQueued_key (x : Stream) (q : QName) (v : Bool) : (x.setQueued q v).key = x.key := by cases q <;> rfl

theorem Mono.qPush (s : Streams) (q : QName) (k : Nat) : Mono s (s.qPush q k).1 := by
  unfold Streams.qPush
  split
  · exact Mono.refl _
  · exact (Mono.modStream s k _ (fun x => setQueued_resetAt x q true (.inr rfl)) (fun x => setQueued_key x q true)).trans (Mono.setQ _ _ _)

theorem Mono.qPushFront (s : Streams) (q : QName) (k : Nat) : Mono s (s.qPushFront q k).1 := by
  unfold Streams.qPushFront
  split
  · exact Mono.refl _
  · exact (Mono.modStream s k _ (fun x => setQueued_resetAt x q true (.inr rfl)) (fun x => setQueued_key x q true)).trans (Mono.setQ _ _ _)

theorem Mono.qPop (s : Streams) (q : QName) (hq : q ≠ .pendingResetExpired) : Mono s (s.qPop q).1 := by
  unfold Streams.qPop
  split
  · exact Mono.refl _
  · exact (Mono.setQ _ _ _).trans (Mono.modStream _ _ _ (fun x => setQueued_resetAt x q false (.inl hq)) (fun x => setQueued_key x q false))

theorem cm_numSend (c : Counts) (n : Nat) : CM c { c with numSendStreams := n } := ⟨rfl, rfl, rfl, rfl, rfl, Nat.le_refl _⟩
theorem cm_numRecv (c : Counts) (n : Nat) : CM c { c with numRecvStreams := n } := ⟨rfl, rfl, rfl, rfl, rfl, Nat.le_refl _⟩

theorem Mono.ite {s a b : Streams} {c : Prop} [Decidable c] (h1 : Mono s a) (h2 : Mono s b) : Mono s (if c then a else b) := by
  split <;> assumption

/-- goals `Mono s E` where `E` is built from `s` by `panic`, counter updates, flag-preserving `modStream`s and `if`s -/
macro "mono_auto" : tactic =>
  `(tactic| repeat (first
      | with_reducible exact Mono.refl _
      | with_reducible refine Mono.trans ?_ (Mono.panic' _ _)
      | with_reducible refine Mono.trans ?_ (Mono.modStream _ _ _ (fun _ h => h) (fun _ => rfl))
      | with_reducible refine Mono.trans ?_ (Mono.modCounts _ _ (cm_numSend _ _))
      | with_reducible refine Mono.trans ?_ (Mono.modCounts _ _ (cm_numRecv _ _))
      | split))

theorem Mono.incNumSendStreams (s : Streams) (k : Nat) : Mono s (s.incNumSendStreams k) := by
  unfold Streams.incNumSendStreams
  dsimp only
  mono_auto

theorem Mono.incNumRecvStreams (s : Streams) (k : Nat) : Mono s (s.incNumRecvStreams k) := by
  unfold Streams.incNumRecvStreams
  dsimp only
  mono_auto

theorem Mono.decNumStreams (s : Streams) (k : Nat) : Mono s (s.decNumStreams k) := by
  unfold Streams.decNumStreams
  dsimp only
  mono_auto

theorem Mono.modCountsA (s : Streams) (w : String) (f : Counts → Option Counts)
    (h : ∀ c', f s.counts = some c' → CM s.counts c') : Mono s (s.modCountsA w f) := by
  unfold Streams.modCountsA
  split
  · next c hc => exact ⟨id, fun _ hj => hj, h c hc⟩
  · exact Mono.panic' _ _

-- ===================================================================== slab changes

theorem insert_get?_old (st : Store) (new : Stream) (j : Nat) (x : Stream) (h : st.get? j = some x) :
    (st.insert new).1.get? j = some x := by
  unfold Store.insert Store.get? at *
  simp only [List.find?_append, h, Option.some_or]

theorem insert_get?_cases (st : Store) (new : Stream) (j : Nat) :
    (st.insert new).1.get? j = st.get? j ∨
    (st.get? j = none ∧ j = st.nextKey ∧ (st.insert new).1.get? j = some { new with key := st.nextKey }) := by
  cases h : st.get? j with
  | some x => left; exact insert_get?_old st new j x h
  | none =>
    unfold Store.insert Store.get? at *
    simp only [List.find?_append, h, Option.none_or, List.find?_cons, List.find?_nil]
    by_cases hk : st.nextKey == j
    · right; simp only [hk]; simp at hk; simp [hk]
    · left; simp only [hk]

theorem remove_get?_ne (st : Store) (k j : Nat) (h : j ≠ k) : (st.remove k).get? j = st.get? j := by
  unfold Store.remove Store.get?
  simp only [List.find?_filter]
  congr 1
  funext x
  by_cases hx : x.key = j
  · subst hx; simp [h]
  · simp [hx]

theorem remove_get?_self (st : Store) (k : Nat) : (st.remove k).get? k = none := by
  unfold Store.remove Store.get?
  simp only [List.find?_filter, List.find?_eq_none]
  intro x _
  by_cases hx : x.key = k <;> simp [hx]

theorem stream_resetAt_live {s : Streams} {j : Nat} (h : (s.stream j).resetAt = true) :
    ∃ x, s.store.get? j = some x ∧ x.resetAt = true := by
  unfold Streams.stream at h
  cases hx : s.store.get? j with
  | none => rw [hx] at h; cases h
  | some x => rw [hx] at h; exact ⟨x, rfl, h⟩

theorem Mono.insert (s : Streams) (st : Stream) : Mono s { s with store := (s.store.insert st).1 } := by
  refine ⟨id, ?_, CM.refl _⟩
  intro j hj
  obtain ⟨x, hx, hr⟩ := stream_resetAt_live hj
  unfold Streams.stream
  simp only [insert_get?_old _ _ _ _ hx, Option.getD_some, hr]

theorem Mono.remove (s : Streams) (k n : Nat)
    (h : ∀ st, s.store.get? k = some st → st.isCounted = false ∧ (∀ q, st.isQueued q = false)) :
    Mono s { s with store := s.store.remove k, recvBufferLeaked := n } := by
  refine ⟨id, ?_, CM.refl _⟩
  intro j hj
  obtain ⟨x, hx, hr⟩ := stream_resetAt_live hj
  by_cases hjk : j = k
  · subst hjk
    have := (h x hx).2 .pendingResetExpired
    simp only [Stream.isQueued] at this
    rw [this] at hr; cases hr
  · unfold Streams.stream
    simp only [remove_get?_ne _ _ _ hjk, hx, Option.getD_some, hr]

theorem cm_incReset {c c' : Counts} (h : c.incNumResetStreams = some c') : CM c c' := by
  unfold Counts.incNumResetStreams at h
  split at h
  · cases h; exact ⟨rfl, rfl, rfl, rfl, rfl, Nat.le_refl _⟩
  · cases h

theorem EvB.mono {s s' : Streams} (h : EvB ρ s s') : Mono s s' := by
  induction h with
  | refl s => exact Mono.refl s
  | trans _ _ ih1 ih2 => exact ih1.trans ih2
  | free h => exact Mono.of_frame h
  | setStream st' h =>
    refine Mono.setStream _ _ ?_
    intro x hx hr
    have := (h x hx).fl .pendingResetExpired
    simp only [Stream.isQueued] at this
    rw [this]; exact hr
  | qPush q k _ _ => exact Mono.qPush _ _ _
  | qPushFront q k _ _ => exact Mono.qPushFront _ _ _
  | qPushOpen k _ => exact Mono.qPush _ _ _
  | qPop q hq _ => exact Mono.qPop _ _ hq
  | qPopOpen => exact Mono.qPop _ _ (by decide)
  | resetEnq k _ _ _ =>
    exact (Mono.modCountsA _ _ _ (fun c' hc => cm_incReset hc)).trans (Mono.qPush _ _ _)
  | insert st _ _ => exact Mono.insert _ _
  | bracket st _ _ _ ih => exact (Mono.insert _ _).trans ih
  | unlink _ => exact ⟨fun h => h, fun _ hj => hj, CM.refl _⟩
  | remove k n h => exact Mono.remove _ k n h
  | popOpen _ =>
    rename_i s0 _
    have := Mono.qPop s0 QName.pendingOpen (by decide)
    split
    · next s1 id heq => rw [heq] at this; exact this.trans (Mono.incNumSendStreams _ _)
    · next s1 heq => rw [heq] at this; exact this
  | acceptFlag k v => exact Mono.modStream _ k _ (fun _ h => h) (fun _ => rfl)
  | queuePP k pk pid fields _ => exact Mono.modStream _ k _ (fun _ h => h) (fun _ => rfl)
  | ppAct id pk pid fields rest pushed _ _ =>
    rename_i s0 _ _
    refine Mono.trans (Mono.modStream s0 id (fun st => { st with pendingSend := rest }) (fun _ h => h) (fun _ => rfl)) ?_
    generalize s0.modStream id (fun st => { st with pendingSend := rest }) = s1
    unfold ppActivate Streams.queueOpen
    dsimp only
    repeat (first
      | with_reducible exact Mono.refl _
      | with_reducible refine Mono.trans ?_ (Mono.qPush _ _ _)
      | with_reducible refine Mono.trans ?_ (Mono.incNumSendStreams _ _)
      | with_reducible refine Mono.trans ?_ (Mono.modStream _ _ _ (fun _ h => h) (fun _ => rfl))
      | split)
  | incRecv k st' s1 _ hf =>
    refine Mono.trans (Mono.trans ?_ (Mono.of_frame hf)) (Mono.incNumRecvStreams _ _)
    exact Mono.modStream _ k _ (fun _ h => h) (fun _ => rfl)
  | decNum k => exact Mono.decNumStreams _ _

theorem EvB.panic_mono {s s' : Streams} (h : EvB ρ s s') (hp : s'.panicked = none) : s.panicked = none := by
  cases hs : s.panicked with
  | none => rfl
  | some m =>
    have := h.mono.panic (by simp [hs])
    rw [hp] at this; cases this

end H2V.Lemmas.ConnCountsP
