import H2V.Model.CodecRead
import H2V.Lemmas.CodecBytes
/-
  Codec lemmas, part 5 (goal C): `Reader.feed` does not depend on how the transport cuts the octet
  stream into chunks; an oversized length field is rejected as soon as its three octets are there.
-/
namespace H2V.Lemmas.Codec
open H2V H2V.Model.Frame H2V.Model.CodecRead

-- ===================================================================== `decode_frame` never looks at `buf` / `need`

theorem afterHpack_mk (b b' : Bytes) (n n' : Option Nat) (mfl : Nat) (hp) (mhl mcf : Nat) (pb) c tail count eh sid res :
    afterHpack ⟨b, n, mfl, hp, mhl, mcf, pb⟩ c tail count eh sid res =
      ({ (afterHpack ⟨b', n', mfl, hp, mhl, mcf, pb⟩ c tail count eh sid res).1 with buf := b, need := n },
        (afterHpack ⟨b', n', mfl, hp, mhl, mcf, pb⟩ c tail count eh sid res).2) := by
  unfold afterHpack
  cases res with
  | ok _ => cases eh <;> simp
  | error e =>
    cases e <;> simp <;> (try split) <;> (try cases eh) <;> simp

/-- `decode_frame` is parametric in the reassembly state (`buf`, `need`): it neither reads nor changes it -/
theorem decodeFrame_with (r : Reader) (b : Bytes) (n : Option Nat) (bytes : Bytes) :
    decodeFrame { r with buf := b, need := n } bytes =
      ({ (decodeFrame r bytes).1 with buf := b, need := n }, (decodeFrame r bytes).2) := by
  unfold decodeFrame
  simp only
  repeat' split
  all_goals first | rfl | exact afterHpack_mk ..

theorem decodeFrame_buf (r : Reader) (bytes : Bytes) : (decodeFrame r bytes).1.buf = r.buf := by
  have := decodeFrame_with r r.buf r.need bytes
  exact (congrArg (fun x => x.1.buf) this)

theorem decodeFrame_need (r : Reader) (bytes : Bytes) : (decodeFrame r bytes).1.need = r.need := by
  have := decodeFrame_with r r.buf r.need bytes
  exact (congrArg (fun x => x.1.need) this)

theorem afterHpack_maxFrameLen (r : Reader) c tail count eh sid res :
    (afterHpack r c tail count eh sid res).1.maxFrameLen = r.maxFrameLen := by
  unfold afterHpack
  cases res with
  | ok _ => cases eh <;> simp
  | error e =>
    cases e <;> simp <;> (try split) <;> (try cases eh) <;> simp

theorem decodeFrame_maxFrameLen (r : Reader) (bytes : Bytes) :
    (decodeFrame r bytes).1.maxFrameLen = r.maxFrameLen := by
  unfold decodeFrame
  simp only
  repeat' split
  all_goals first | rfl | exact afterHpack_maxFrameLen ..

-- ===================================================================== one iteration of `drain`

/-- the transport appended `b` to the read buffer -/
def _root_.H2V.Model.CodecRead.Reader.app (r : Reader) (b : Bytes) : Reader := { r with buf := r.buf ++ b }

@[simp] theorem app_buf (r : Reader) (b : Bytes) : (r.app b).buf = r.buf ++ b := rfl
@[simp] theorem app_need (r : Reader) (b : Bytes) : (r.app b).need = r.need := rfl
@[simp] theorem app_maxFrameLen (r : Reader) (b : Bytes) : (r.app b).maxFrameLen = r.maxFrameLen := rfl
theorem app_app (r : Reader) (a b : Bytes) : (r.app a).app b = r.app (a ++ b) := by
  simp [Reader.app, List.append_assoc]
theorem app_nil (r : Reader) : r.app [] = r := by simp [Reader.app]

/-- `decode_head`: nothing yet / frame too large / total length of the frame awaited -/
def needOf (r : Reader) : Option (Except Unit Nat) :=
  match r.need with
  | some n => some (.ok n)
  | none =>
    if r.buf.length < 3 then none
    else if rd24 r.buf > r.maxFrameLen then some (.error ()) else some (.ok (rd24 r.buf + 9))

def itemsOf : DF → List Item
  | .frame f => [.frame f]
  | .none => []
  | .err e => [.err e]

def isErr : DF → Bool
  | .err _ => true
  | _ => false

/-- the frame-taking step of `drain` -/
def takeFrame (r : Reader) (n : Nat) : Reader × DF :=
  decodeFrame { r with buf := r.buf.drop n, need := none } (r.buf.take n)

theorem drain_succ (f : Nat) (r : Reader) (acc : List Item) :
    Reader.drain (f + 1) r acc =
      match needOf r with
      | none => (r, acc, false)
      | some (.error _) => (r, acc ++ [.err (.goAway FRAME_SIZE_ERROR "")], true)
      | some (.ok n) =>
        if r.buf.length < n then ({ r with need := some n }, acc, false)
        else if isErr (takeFrame r n).2 then ((takeFrame r n).1, acc ++ itemsOf (takeFrame r n).2, true)
        else Reader.drain f (takeFrame r n).1 (acc ++ itemsOf (takeFrame r n).2) := by
  rw [Reader.drain]
  unfold needOf takeFrame
  cases hn : r.need with
  | some n =>
    simp only
    split
    · rfl
    · generalize decodeFrame _ _ = x
      obtain ⟨r2, df⟩ := x
      cases df <;> simp [isErr, itemsOf]
  | none =>
    simp only
    by_cases h3 : r.buf.length < 3
    · simp only [if_pos h3]
    · simp only [if_neg h3]
      by_cases hb : rd24 r.buf > r.maxFrameLen
      · simp only [if_pos hb]
      · simp only [if_neg hb]
        split
        · rfl
        · generalize decodeFrame _ _ = x
          obtain ⟨r2, df⟩ := x
          cases df <;> simp [isErr, itemsOf]

theorem takeFrame_buf (r : Reader) (n : Nat) : (takeFrame r n).1.buf = r.buf.drop n := by
  unfold takeFrame; rw [decodeFrame_buf]
theorem takeFrame_need (r : Reader) (n : Nat) : (takeFrame r n).1.need = none := by
  unfold takeFrame; rw [decodeFrame_need]

/-- once the length field is known, more octets do not change it -/
theorem rd24_append (a b : Bytes) (h : 3 ≤ a.length) : rd24 (a ++ b) = rd24 a := by
  match a, h with
  | x :: y :: z :: t, _ => rfl

theorem needOf_app (r : Reader) (b : Bytes) (x : Except Unit Nat) (h : needOf r = some x) :
    needOf (r.app b) = some x := by
  unfold needOf at h ⊢
  cases hn : r.need with
  | some n =>
    have hn' : (r.app b).need = some n := hn
    rw [hn] at h; rw [hn']; exact h
  | none =>
    have hn' : (r.app b).need = none := hn
    rw [hn] at h; rw [hn']
    simp only at h ⊢
    by_cases h3 : r.buf.length < 3
    · simp [h3] at h
    · rw [if_neg h3] at h
      have hlen : (r.app b).buf.length = r.buf.length + b.length := by simp
      have hrd : rd24 (r.app b).buf = rd24 r.buf := rd24_append _ _ (by omega)
      have hm : (r.app b).maxFrameLen = r.maxFrameLen := rfl
      rw [if_neg (by omega), hrd, hm]
      exact h

theorem takeFrame_app (r : Reader) (b : Bytes) (n : Nat) (h : n ≤ r.buf.length) :
    takeFrame (r.app b) n = ((takeFrame r n).1.app b, (takeFrame r n).2) := by
  unfold takeFrame
  have h1 : (r.app b).buf.take n = r.buf.take n := by
    simp only [app_buf]; exact List.take_append_of_le_length h
  have h2 : (r.app b).buf.drop n = r.buf.drop n ++ b := by
    simp only [app_buf]; exact List.drop_append_of_le_length h
  rw [h1, h2]
  have := decodeFrame_with { r with buf := r.buf.drop n, need := none } (r.buf.drop n ++ b) none (r.buf.take n)
  simp only at this
  show decodeFrame { r with buf := r.buf.drop n ++ b, need := none } _ = _
  rw [this]
  have hb := decodeFrame_buf { r with buf := r.buf.drop n, need := none } (r.buf.take n)
  have hn := decodeFrame_need { r with buf := r.buf.drop n, need := none } (r.buf.take n)
  simp only at hb hn
  simp only [Reader.app, hb, hn]

-- ===================================================================== fuel

/-- enough fuel for `drain`: one unit per 9 buffered octets, one to stop, and one for a frame
    whose awaited length was fixed earlier -/
def fuelOK (f : Nat) (r : Reader) : Prop := r.buf.length / 9 + (if r.need.isSome then 2 else 1) ≤ f

theorem feed_fuelOK (r : Reader) (c : Bytes) : fuelOK ((r.app c).buf.length / 9 + 2) (r.app c) := by
  unfold fuelOK; split <;> omega

theorem fuelOK_pos {f : Nat} {r : Reader} (h : fuelOK f r) : ∃ k, f = k + 1 := by
  unfold fuelOK at h
  exact ⟨f - 1, by split at h <;> omega⟩

theorem needOf_ok_ge (r : Reader) (n : Nat) (h : needOf r = some (.ok n)) (hn : r.need = none) : 9 ≤ n := by
  unfold needOf at h
  rw [hn] at h
  simp only at h
  split at h
  · cases h
  · split at h
    · cases h
    · simp only [Option.some.injEq, Except.ok.injEq] at h; omega

/-- after taking a frame there is still enough fuel -/
theorem fuelOK_step {k : Nat} {r : Reader} {n : Nat} (hf : fuelOK (k + 1) r)
    (hn : needOf r = some (.ok n)) (hl : ¬ r.buf.length < n) : fuelOK k (takeFrame r n).1 := by
  unfold fuelOK at hf ⊢
  rw [takeFrame_buf, takeFrame_need]
  simp only [List.length_drop, Option.isSome_none, Bool.false_eq_true, if_false]
  cases hnd : r.need with
  | none =>
    have := needOf_ok_ge r n hn hnd
    rw [hnd] at hf
    simp only [Option.isSome_none, Bool.false_eq_true, if_false] at hf
    omega
  | some m =>
    rw [hnd] at hf
    simp only [Option.isSome_some, if_true] at hf
    omega

/-- with enough fuel the result of `drain` does not depend on the fuel: it never stops because of it -/
theorem drain_fuel (f : Nat) : ∀ (f' : Nat) (r : Reader) (acc : List Item), fuelOK f r → fuelOK f' r →
    Reader.drain f r acc = Reader.drain f' r acc := by
  induction f with
  | zero => intro f' r acc h; obtain ⟨k, hk⟩ := fuelOK_pos h; omega
  | succ k ih =>
    intro f' r acc h h'
    obtain ⟨k', rfl⟩ := fuelOK_pos h'
    rw [drain_succ, drain_succ]
    cases hn : needOf r with
    | none => rfl
    | some x =>
      cases x with
      | error _ => rfl
      | ok n =>
        simp only
        split
        · rfl
        · rename_i hl
          split
          · rfl
          · exact ih k' _ _ (fuelOK_step h hn hl) (fuelOK_step h' hn hl)

/-- `drain` only appends to the items it was given -/
theorem drain_acc (f : Nat) : ∀ (r : Reader) (acc : List Item),
    Reader.drain f r acc =
      ((Reader.drain f r []).1, acc ++ (Reader.drain f r []).2.1, (Reader.drain f r []).2.2) := by
  induction f with
  | zero => intro r acc; simp [Reader.drain]
  | succ k ih =>
    intro r acc
    rw [drain_succ, drain_succ]
    cases hn : needOf r with
    | none => simp
    | some x =>
      cases x with
      | error _ => simp
      | ok n =>
        simp only
        split
        · simp
        · split
          · simp
          · rw [ih _ (acc ++ _), ih _ ([] ++ _)]
            simp

/-- the awaited length, once computed, may as well be recomputed: same `drain` -/
theorem drain_need_irrel (r : Reader) (x : Option Nat) (acc : List Item) (F F' : Nat)
    (hneed : needOf { r with need := x } = needOf r)
    (hF : fuelOK F r) (hF' : fuelOK F' { r with need := x }) :
    Reader.drain F r acc = Reader.drain F' { r with need := x } acc := by
  obtain ⟨k, rfl⟩ := fuelOK_pos hF
  obtain ⟨k', rfl⟩ := fuelOK_pos hF'
  rw [drain_succ, drain_succ, hneed]
  cases hn : needOf r with
  | none =>
    -- nothing to do: then `x` must be what `r` had
    have : x = r.need := by
      unfold needOf at hneed hn
      cases hx : x with
      | some m => rw [hx] at hneed; simp only at hneed; rw [hn] at hneed; cases hneed
      | none =>
        cases hr : r.need with
        | none => rfl
        | some m => rw [hr] at hn; cases hn
    subst this
    rfl
  | some y =>
    cases y with
    | error _ =>
      have : x = r.need := by
        unfold needOf at hneed hn
        cases hx : x with
        | some m => rw [hx] at hneed; simp only at hneed; rw [hn] at hneed; cases hneed
        | none =>
          cases hr : r.need with
          | none => rfl
          | some m => rw [hr] at hn; cases hn
      subst this
      rfl
    | ok n =>
      simp only
      have htf : takeFrame { r with need := x } n = takeFrame r n := rfl
      split
      · rfl
      · rename_i hl
        rw [htf]
        split
        · rfl
        · have h1 := fuelOK_step hF hn hl
          have h2 := fuelOK_step hF' (hneed.trans hn) hl
          rw [htf] at h2
          exact drain_fuel _ _ _ _ h1 h2

-- ===================================================================== the chunking lemma

/-- Draining `r`, then (if still alive) draining again after `b` arrived, is draining `r` with `b`
    already there.  If `r` dies, `b` is never looked at. -/
theorem drain_app (f : Nat) : ∀ (r : Reader) (acc : List Item) (b : Bytes), fuelOK f r →
    ∀ F F', fuelOK F (r.app b) → fuelOK F' ((Reader.drain f r acc).1.app b) →
    Reader.drain F (r.app b) acc =
      if (Reader.drain f r acc).2.2 then
        ((Reader.drain f r acc).1.app b, (Reader.drain f r acc).2.1, true)
      else Reader.drain F' ((Reader.drain f r acc).1.app b) (Reader.drain f r acc).2.1 := by
  induction f with
  | zero => intro r acc b h; obtain ⟨k, hk⟩ := fuelOK_pos h; omega
  | succ k ih =>
    intro r acc b hf F F' hF hF'
    rw [drain_succ] at hF' ⊢
    cases hn : needOf r with
    | none =>
      rw [hn] at hF'
      simp only at hF' ⊢
      exact drain_fuel _ _ _ _ hF hF'
    | some x =>
      have hnb := needOf_app r b x hn
      obtain ⟨K, rfl⟩ := fuelOK_pos hF
      cases x with
      | error _ =>
        simp only [if_true]
        rw [drain_succ, hnb]
      | ok n =>
        rw [hn] at hF'
        simp only at hF' ⊢
        by_cases hl : r.buf.length < n
        · rw [if_pos hl] at hF' ⊢
          simp only [Bool.false_eq_true, if_false] at hF' ⊢
          -- `r` now remembers `n`; `r.app b` recomputes it
          have : ({ r with need := some n } : Reader).app b = { r.app b with need := some n } := rfl
          rw [this] at hF' ⊢
          apply drain_need_irrel _ _ _ _ _ _ hF hF'
          rw [hnb]; rfl
        · rw [if_neg hl] at hF' ⊢
          have hlb : ¬ (r.app b).buf.length < n := by
            simp only [app_buf, List.length_append]; omega
          rw [drain_succ, hnb]
          simp only
          rw [if_neg hlb, takeFrame_app r b n (by omega)]
          simp only
          by_cases he : isErr (takeFrame r n).2 = true
          · rw [if_pos he, if_pos he]
            simp
          · rw [if_neg he] at hF' ⊢
            rw [if_neg he]
            have hK := fuelOK_step hF hnb hlb
            rw [takeFrame_app r b n (by omega)] at hK
            exact ih _ _ b (fuelOK_step hf hn hl) K F' hK hF'

-- ===================================================================== `feed`

theorem feed_eq (r : Reader) (c : Bytes) :
    r.feed c = Reader.drain ((r.app c).buf.length / 9 + 2) (r.app c) [] := rfl

/-- CHUNK INVARIANCE (two chunks).  For every reader state `r` and octets `a`, `b`: feeding `a ++ b`
    at once gives
      * if feeding `a` kills the stream: the same items, dead, and `b` merely sits in the buffer;
      * otherwise exactly the reader state reached by feeding `a` then `b` (all fields, including
        `buf`, `need`, the HPACK decoder and the partial header block), the concatenated items,
        and the same dead-ness. -/
theorem feed_append (r : Reader) (a b : Bytes) :
    r.feed (a ++ b) =
      if (r.feed a).2.2 then ((r.feed a).1.app b, (r.feed a).2.1, true)
      else (((r.feed a).1.feed b).1, (r.feed a).2.1 ++ ((r.feed a).1.feed b).2.1, ((r.feed a).1.feed b).2.2) := by
  rw [feed_eq r (a ++ b), ← app_app]
  have := drain_app _ (r.app a) [] b (feed_fuelOK r a) _ _ (feed_fuelOK (r.app a) b) (feed_fuelOK (r.feed a).1 b)
  rw [← feed_eq r a] at this
  rw [this]
  split
  · rfl
  · rw [drain_acc, ← feed_eq]

/-- feeding a list of chunks, stopping at the death of the stream -/
def feedAll (r : Reader) : List Bytes → Reader × List Item × Bool
  | [] => (r, [], false)
  | c :: cs =>
    if (r.feed c).2.2 then r.feed c
    else ((feedAll (r.feed c).1 cs).1, (r.feed c).2.1 ++ (feedAll (r.feed c).1 cs).2.1, (feedAll (r.feed c).1 cs).2.2)

/-- CHUNK INVARIANCE (any number of chunks, at least one): the items delivered and the death of the
    stream depend only on the concatenation of the chunks; when the stream survives, so does the
    whole reader state. -/
theorem feed_chunks_cons (c : Bytes) (cs : List Bytes) : ∀ (r : Reader),
    (feedAll r (c :: cs)).2 = (r.feed (c :: cs).flatten).2 ∧
    ((feedAll r (c :: cs)).2.2 = false → (feedAll r (c :: cs)).1 = (r.feed (c :: cs).flatten).1) := by
  induction cs generalizing c with
  | nil =>
    intro r
    simp only [feedAll, List.flatten_cons, List.flatten_nil, List.append_nil]
    by_cases hd : (r.feed c).2.2 = true
    · rw [if_pos hd]; exact ⟨rfl, fun _ => rfl⟩
    · rw [if_neg hd]
      refine ⟨Prod.ext rfl ?_, fun _ => rfl⟩
      simp only [Bool.not_eq_true] at hd
      exact hd.symm
  | cons d ds ih =>
    intro r
    have hflat : (c :: d :: ds).flatten = c ++ (d :: ds).flatten := rfl
    rw [hflat, feed_append]
    rw [feedAll]
    by_cases hd : (r.feed c).2.2 = true
    · rw [if_pos hd, if_pos hd]
      refine ⟨?_, fun h => ?_⟩
      · exact Prod.ext rfl hd
      · rw [hd] at h; cases h
    · rw [if_neg hd, if_neg hd]
      obtain ⟨h1, h2⟩ := ih d (r.feed c).1
      refine ⟨?_, fun h => ?_⟩
      · simp only
        rw [show (feedAll (r.feed c).1 (d :: ds)).2.1 = ((r.feed c).1.feed (d :: ds).flatten).2.1 from congrArg Prod.fst h1,
          show (feedAll (r.feed c).1 (d :: ds)).2.2 = ((r.feed c).1.feed (d :: ds).flatten).2.2 from congrArg Prod.snd h1]
      · exact h2 h

/-- a reader that has nothing to do with what it holds: what `feed` leaves behind when it survives -/
def Quiescent (r : Reader) : Prop := r.feed [] = (r, [], false)

theorem feed_quiescent (r : Reader) (c : Bytes) (h : (r.feed c).2.2 = false) : Quiescent (r.feed c).1 := by
  have := feed_append r c []
  rw [List.append_nil, if_neg (by simp [h])] at this
  unfold Quiescent
  have h1 := congrArg (fun x => x.2.1) this
  have h2 := congrArg (fun x => x.2.2) this
  have h3 := congrArg (fun x => x.1) this
  simp only at h1 h2 h3
  refine Prod.ext h3.symm (Prod.ext ?_ ?_)
  · simpa using h1
  · simp only; rw [← h2, h]

theorem new_quiescent (maxFrame : Nat) : Quiescent (Reader.new maxFrame) := by
  unfold Quiescent
  rw [feed_eq, drain_succ]
  rfl

/-- `feed_chunks`: any chunking (including none at all, for a quiescent reader) -/
theorem feed_chunks (r : Reader) (chunks : List Bytes) (hq : chunks = [] → Quiescent r) :
    (feedAll r chunks).2 = (feedAll r [chunks.flatten]).2 := by
  cases chunks with
  | nil =>
    have := hq rfl
    unfold Quiescent at this
    simp [feedAll, this]
  | cons c cs =>
    rw [(feed_chunks_cons c cs r).1]
    simp only [feedAll]
    split
    · rfl
    · rename_i h
      exact Prod.ext (by simp) (by simpa using h)

/-- and the surviving reader is the same, whatever the chunking -/
theorem feed_chunks_state (r : Reader) (c : Bytes) (cs : List Bytes) (h : (feedAll r (c :: cs)).2.2 = false) :
    (feedAll r (c :: cs)).1 = (r.feed (c :: cs).flatten).1 :=
  (feed_chunks_cons c cs r).2 h

-- ===================================================================== the reassembly invariant

/-- `need = some n` means: the three length octets are buffered, `n` is the total frame length they
    announce, and it passed the size check -/
def NeedInv (r : Reader) : Prop :=
  ∀ n, r.need = some n → 3 ≤ r.buf.length ∧ n = rd24 r.buf + 9 ∧ rd24 r.buf ≤ r.maxFrameLen

theorem needInv_app (r : Reader) (b : Bytes) (h : NeedInv r) : NeedInv (r.app b) := by
  intro n hn
  obtain ⟨h1, h2, h3⟩ := h n hn
  simp only [app_buf, app_maxFrameLen, List.length_append, rd24_append _ _ h1]
  exact ⟨by omega, h2, h3⟩

theorem needOf_ok_inv (r : Reader) (n : Nat) (hi : NeedInv r) (h : needOf r = some (.ok n)) :
    3 ≤ r.buf.length ∧ n = rd24 r.buf + 9 ∧ rd24 r.buf ≤ r.maxFrameLen := by
  unfold needOf at h
  cases hn : r.need with
  | some m =>
    rw [hn] at h
    simp only [Option.some.injEq, Except.ok.injEq] at h
    subst h
    exact hi m hn
  | none =>
    rw [hn] at h
    simp only at h
    split at h
    · cases h
    · split at h
      · cases h
      · simp only [Option.some.injEq, Except.ok.injEq] at h
        exact ⟨by omega, h.symm, by omega⟩

/-- `drain` keeps the invariant; a surviving reader is waiting for octets: either fewer than three
    are buffered and no length is known, or the known length exceeds what is buffered -/
theorem drain_inv (f : Nat) : ∀ (r : Reader) (acc : List Item), fuelOK f r → NeedInv r →
    NeedInv (Reader.drain f r acc).1 ∧
    ((Reader.drain f r acc).2.2 = false →
      (∀ n, (Reader.drain f r acc).1.need = some n → (Reader.drain f r acc).1.buf.length < n) ∧
      ((Reader.drain f r acc).1.need = none → (Reader.drain f r acc).1.buf.length < 3)) := by
  induction f with
  | zero => intro r acc h; obtain ⟨k, hk⟩ := fuelOK_pos h; omega
  | succ k ih =>
    intro r acc hf hi
    rw [drain_succ]
    cases hn : needOf r with
    | none =>
      simp only
      refine ⟨hi, fun _ => ⟨?_, ?_⟩⟩
      · intro n hnd; unfold needOf at hn; rw [hnd] at hn; cases hn
      · intro hnd
        unfold needOf at hn
        rw [hnd] at hn
        simp only at hn
        split at hn
        · assumption
        · split at hn <;> cases hn
    | some x =>
      cases x with
      | error _ => exact ⟨hi, fun h => by cases h⟩
      | ok n =>
        simp only
        have hinv := needOf_ok_inv r n hi hn
        by_cases hl : r.buf.length < n
        · rw [if_pos hl]
          refine ⟨?_, fun _ => ⟨?_, ?_⟩⟩
          · intro m hm
            simp only [Option.some.injEq] at hm
            subst hm
            exact hinv
          · intro m hm
            simp only [Option.some.injEq] at hm
            subst hm
            exact hl
          · intro h; cases h
        · rw [if_neg hl]
          have hnone : NeedInv (takeFrame r n).1 := by
            intro m hm; rw [takeFrame_need] at hm; cases hm
          by_cases he : isErr (takeFrame r n).2 = true
          · rw [if_pos he]
            exact ⟨hnone, fun h => by cases h⟩
          · rw [if_neg he]
            exact ih _ _ (fuelOK_step hf hn hl) hnone

theorem feed_inv (r : Reader) (c : Bytes) (hi : NeedInv r) :
    NeedInv (r.feed c).1 ∧
    ((r.feed c).2.2 = false →
      (∀ n, (r.feed c).1.need = some n → (r.feed c).1.buf.length < n) ∧
      ((r.feed c).1.need = none → (r.feed c).1.buf.length < 3)) :=
  drain_inv _ _ _ (feed_fuelOK r c) (needInv_app r c hi)

-- ===================================================================== oversized frames

/-- the reassembler is at a frame boundary -/
def AtBoundary (r : Reader) : Prop := r.buf = [] ∧ r.need = none

/-- `rx_oversize_rejected`, one chunk: as soon as the three length octets are there and announce more
    than `maxFrameLen`, the only item is the connection error FRAME_SIZE_ERROR; nothing is delivered,
    whatever else (or nothing else) the chunk contains -/
theorem rx_oversize_rejected_feed (r : Reader) (hb : AtBoundary r) (c : Bytes)
    (h3 : 3 ≤ c.length) (hbig : rd24 c > r.maxFrameLen) :
    r.feed c = (r.app c, [.err (.goAway FRAME_SIZE_ERROR "")], true) := by
  rw [feed_eq, drain_succ]
  have : needOf (r.app c) = some (.error ()) := by
    unfold needOf
    simp only [app_need, app_buf, app_maxFrameLen, hb.1, hb.2, List.nil_append]
    rw [if_neg (by omega), if_pos hbig]
  rw [this]
  rfl

/-- `rx_oversize_rejected`: ANY chunk sequence whose concatenation starts with three octets announcing
    more than `maxFrameLen` yields exactly `[FRAME_SIZE_ERROR]` and a dead stream -/
theorem rx_oversize_rejected (r : Reader) (hb : AtBoundary r) (chunks : List Bytes)
    (h3 : 3 ≤ chunks.flatten.length) (hbig : rd24 chunks.flatten > r.maxFrameLen) :
    (feedAll r chunks).2 = ([.err (.goAway FRAME_SIZE_ERROR "")], true) := by
  cases chunks with
  | nil => simp at h3
  | cons c cs =>
    rw [(feed_chunks_cons c cs r).1, rx_oversize_rejected_feed r hb _ h3 hbig]

/-- … and it happens no later than the chunk that completes the three octets: chunks after the death
    of the stream are not even looked at (so in particular the payload need not have arrived) -/
theorem feedAll_dead_append (r : Reader) (cs more : List Bytes) (h : (feedAll r cs).2.2 = true) :
    feedAll r (cs ++ more) = feedAll r cs := by
  induction cs generalizing r with
  | nil => simp [feedAll] at h
  | cons c cs ih =>
    rw [List.cons_append]
    simp only [feedAll] at h ⊢
    by_cases hd : (r.feed c).2.2 = true
    · simp only [if_pos hd]
    · simp only [if_neg hd] at h ⊢
      rw [ih _ h]

theorem rx_oversize_rejected_early (r : Reader) (hb : AtBoundary r) (cs more : List Bytes)
    (h3 : 3 ≤ cs.flatten.length) (hbig : rd24 cs.flatten > r.maxFrameLen) :
    (feedAll r (cs ++ more)).2 = ([.err (.goAway FRAME_SIZE_ERROR "")], true) := by
  have h := rx_oversize_rejected r hb cs h3 hbig
  rw [feedAll_dead_append r cs more (by rw [h]), h]

/-- fewer than three octets: nothing happens yet -/
theorem feed_short (r : Reader) (hb : AtBoundary r) (c : Bytes) (h3 : c.length < 3) :
    r.feed c = (r.app c, [], false) := by
  rw [feed_eq, drain_succ]
  have : needOf (r.app c) = none := by
    unfold needOf
    simp only [app_need, app_buf, hb.1, hb.2, List.nil_append]
    rw [if_pos h3]
  rw [this]

end H2V.Lemmas.Codec
