import H2V.Lemmas.ConnNoPanicPAll3
import H2V.Lemmas.ConnNoPanicPConnIwsAll
import H2V.Lemmas.ConnNoPanicPStickyStep
import H2V.Lemmas.ConnNoPanicPDsPoll
import H2V.Lemmas.ConnNoPanicPFiBase
