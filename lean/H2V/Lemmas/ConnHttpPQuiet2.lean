import H2V.Lemmas.ConnHttpPBody
/-
  C13 (ConnHttpP), part 22 — the remaining frame entry points of `Inner` are `Quiet`: RST_STREAM,
  WINDOW_UPDATE, GOAWAY, end of input, connection errors never put anything into a receive queue.
-/
namespace H2V.Lemmas.ConnHttpP
open H2V H2V.Model H2V.Model.Conn

theorem Quiet.sendHandleError {s0 s : Streams} (h : Quiet s0 s) (id : Nat) : Quiet s0 (s.sendHandleError id) := by
  unfold Streams.sendHandleError
  simp only
  have h1 := (h.clearQueue id).reclaimAllCapacity id
  generalize (s.clearQueue id).reclaimAllCapacity id = s1 at h1 ⊢
  quiet
macro_rules | `(tactic| quiet_step) => `(tactic| with_reducible apply Quiet.sendHandleError)

theorem Quiet.recvHandleError {s0 s : Streams} (h : Quiet s0 s) (id : Nat) (e : PErr) : Quiet s0 (s.recvHandleError id e) := by
  unfold Streams.recvHandleError
  simp only
  quiet
macro_rules | `(tactic| quiet_step) => `(tactic| with_reducible apply Quiet.recvHandleError)

theorem Quiet.recvRecvEof {s0 s : Streams} (h : Quiet s0 s) (id : Nat) : Quiet s0 (s.recvRecvEof id) := by
  unfold Streams.recvRecvEof
  simp only
  quiet
macro_rules | `(tactic| quiet_step) => `(tactic| with_reducible apply Quiet.recvRecvEof)

theorem Quiet.recvRecvReset {s0 s : Streams} (h : Quiet s0 s) (id : Nat) (r : Reason) : Quiet s0 (s.recvRecvReset id r).1 := by
  generalize hr : s.recvRecvReset id r = x
  unfold Streams.recvRecvReset at hr
  simp only at hr
  have hp : ∀ (p : Streams × Option PErr),
      p = (if (s.stream id).isPendingAccept then
        if s.counts.canIncNumRemoteResetStreams then
          (s.modCountsA "can_inc_num_remote_reset_streams" Counts.incNumRemoteResetStreams, none)
        else (s, some (PErr.libraryGoAwayData ENHANCE_YOUR_CALM "too_many_resets"))
      else (s, none)) → Quiet s0 p.1 := by
    intro p hp
    repeat' split at hp
    all_goals (subst hp; simp only; quiet)
  have := hp _ rfl
  generalize (if (s.stream id).isPendingAccept then
        if s.counts.canIncNumRemoteResetStreams then
          (s.modCountsA "can_inc_num_remote_reset_streams" Counts.incNumRemoteResetStreams, none)
        else (s, some (PErr.libraryGoAwayData ENHANCE_YOUR_CALM "too_many_resets"))
      else (s, none)) = p at this hr
  obtain ⟨s1, o⟩ := p
  cases o with
  | some e => subst hr; exact this
  | none =>
    simp only at hr this
    subst hr
    simp only
    quiet

/-- a loop over the store with a quiet body is quiet -/
theorem Quiet.tryForEach {s0 : Streams} (f : Streams → Nat → Streams × Option PErr)
    (hf : ∀ s id, Quiet s0 s → Quiet s0 (f s id).1) : ∀ (fuel i len : Nat) (s : Streams), Quiet s0 s →
    Quiet s0 (Streams.tryForEach f fuel i len s).1
  | 0, _, _, s, h => h
  | fuel + 1, i, len, s, h => by
    unfold Streams.tryForEach
    split
    · split
      · exact h.panic _
      · rename_i id _
        have := hf s id h
        generalize f s id = r at this ⊢
        obtain ⟨s1, o⟩ := r
        cases o with
        | some e => exact this
        | none =>
          simp only
          split
          · exact Quiet.tryForEach f hf fuel i (len - 1) s1 this
          · exact Quiet.tryForEach f hf fuel (i + 1) len s1 this
    · exact h

theorem Quiet.storeForEach {s0 s : Streams} (h : Quiet s0 s) (f : Streams → Nat → Streams)
    (hf : ∀ s id, Quiet s0 s → Quiet s0 (f s id)) : Quiet s0 (s.storeForEach f) := by
  unfold Streams.storeForEach Streams.storeTryForEach
  exact Quiet.tryForEach _ (fun s id hs => hf s id hs) _ _ _ s h

theorem Quiet.transition {s0 s : Streams} {α : Type} (id : Nat) (f : Streams → Streams × α)
    (hf : Quiet s0 (f s).1) : Quiet s0 (s.transition id f).1 := by
  unfold Streams.transition
  simp only
  exact hf.transitionAfter _ _


/-! ### RST_STREAM -/

theorem Quiet.recvReset {s0 s : Streams} (h : Quiet s0 s) (id : Nat) (r : Reason) : Quiet s0 (s.recvReset id r).1 := by
  unfold Streams.recvReset
  split
  · exact h
  · split
    · exact h
    · split
      · split <;> exact h
      · rename_i k _
        split
        · exact h
        · apply Quiet.transition
          have q := h.recvRecvReset k r
          generalize s.recvRecvReset k r = x at q ⊢
          obtain ⟨s1, res⟩ := x
          cases res with
          | error e => exact q
          | ok u => simp only; quiet

/-! ### WINDOW_UPDATE -/

theorem Quiet.recvConnectionWindowUpdate {s0 s : Streams} (h : Quiet s0 s) (inc : Nat) :
    Quiet s0 (s.recvConnectionWindowUpdate inc).1 := by
  generalize hr : s.recvConnectionWindowUpdate inc = x
  unfold Streams.recvConnectionWindowUpdate at hr
  repeat' split at hr
  all_goals (subst hr; simp only; quiet)

theorem Quiet.prioRecvStreamWindowUpdate {s0 s : Streams} (h : Quiet s0 s) (id inc : Nat) :
    Quiet s0 (s.prioRecvStreamWindowUpdate id inc).1 := by
  generalize hr : s.prioRecvStreamWindowUpdate id inc = x
  unfold Streams.prioRecvStreamWindowUpdate at hr
  simp only at hr
  repeat' split at hr
  all_goals (subst hr; simp only; quiet)

theorem Quiet.sendRecvStreamWindowUpdate {s0 s : Streams} (h : Quiet s0 s) (id sz : Nat) :
    Quiet s0 (s.sendRecvStreamWindowUpdate id sz).1 := by
  unfold Streams.sendRecvStreamWindowUpdate
  have q := h.prioRecvStreamWindowUpdate id sz
  generalize s.prioRecvStreamWindowUpdate id sz = x at q ⊢
  obtain ⟨s1, res⟩ := x
  cases res with
  | error e => simp only; quiet
  | ok u => exact q

theorem Quiet.recvWindowUpdate {s0 s : Streams} (h : Quiet s0 s) (id inc : Nat) : Quiet s0 (s.recvWindowUpdate id inc).1 := by
  unfold Streams.recvWindowUpdate
  split
  · have q := h.recvConnectionWindowUpdate inc
    generalize s.recvConnectionWindowUpdate inc = x at q ⊢
    obtain ⟨s1, res⟩ := x
    cases res <;> exact q
  · split
    · rename_i k _
      split
      · exact h
      · have q := h.sendRecvStreamWindowUpdate k inc
        generalize s.sendRecvStreamWindowUpdate k inc = x at q ⊢
        obtain ⟨s1, res⟩ := x
        simp only
        exact q.resetOnRecvStreamErr _ _
    · split <;> exact h

/-! ### GOAWAY, connection errors, end of input -/

theorem Quiet.handleErrorBody {s0 s : Streams} (h : Quiet s0 s) (id : Nat) (e : PErr) :
    Quiet s0 (s.transition id fun s => ((s.recvHandleError id e).sendHandleError id, ())).1 := by
  apply Quiet.transition
  quiet

theorem Quiet.handleError {s0 s : Streams} (h : Quiet s0 s) (e : PErr) : Quiet s0 (s.handleError e).1 := by
  unfold Streams.handleError
  simp only
  refine Quiet.trans ?_ (quiet_of_slab rfl)
  exact h.storeForEach _ (fun s id hs => hs.handleErrorBody id e)

theorem Quiet.recvGoAwayFrame {s0 s : Streams} (h : Quiet s0 s) (last : Nat) (r : Reason) (d : Bytes) :
    Quiet s0 (s.recvGoAwayFrame last r d).1 := by
  unfold Streams.recvGoAwayFrame
  have q : Quiet s0 (s.sendRecvGoAway last).1 := by
    unfold Streams.sendRecvGoAway
    split
    · exact h
    · simp only; quiet
  generalize s.sendRecvGoAway last = x at q ⊢
  obtain ⟨s1, res⟩ := x
  cases res with
  | error e => exact q
  | ok u =>
    simp only
    refine Quiet.trans ?_ (quiet_of_slab rfl)
    refine Quiet.storeForEach q _ (fun s id hs => ?_)
    split
    · exact hs.handleErrorBody id _
    · exact hs

/-! ### the queue-clearing loops of `clear_queues` -/

theorem Quiet.clearStreamWindowUpdateQueue {s0 : Streams} : ∀ (fuel : Nat) {s : Streams}, Quiet s0 s → Quiet s0 (Streams.clearStreamWindowUpdateQueue fuel s)
  | 0, _, h => h
  | fuel + 1, s, h => by
    unfold Streams.clearStreamWindowUpdateQueue
    have q := h.qPop .pendingWindowUpdates
    generalize s.qPop .pendingWindowUpdates = x at q ⊢
    obtain ⟨s1, o⟩ := x
    cases o with
    | none => exact q
    | some id => exact Quiet.clearStreamWindowUpdateQueue fuel (q.transitionAfter _ _)

theorem Quiet.clearAllResetStreams {s0 : Streams} : ∀ (fuel : Nat) {s : Streams}, Quiet s0 s → Quiet s0 (Streams.clearAllResetStreams fuel s)
  | 0, _, h => h
  | fuel + 1, s, h => by
    unfold Streams.clearAllResetStreams
    have q := h.qPop .pendingResetExpired
    generalize s.qPop .pendingResetExpired = x at q ⊢
    obtain ⟨s1, o⟩ := x
    cases o with
    | none => exact q
    | some id => exact Quiet.clearAllResetStreams fuel (q.transitionAfter _ _)

theorem Quiet.clearAllPendingAccept {s0 : Streams} : ∀ (fuel : Nat) {s : Streams}, Quiet s0 s → Quiet s0 (Streams.clearAllPendingAccept fuel s)
  | 0, _, h => h
  | fuel + 1, s, h => by
    unfold Streams.clearAllPendingAccept
    have q := h.qPop .pendingAccept
    generalize s.qPop .pendingAccept = x at q ⊢
    obtain ⟨s1, o⟩ := x
    cases o with
    | none => exact q
    | some id => exact Quiet.clearAllPendingAccept fuel (q.transitionAfter _ _)

theorem Quiet.clearPendingCapacity {s0 : Streams} : ∀ (fuel : Nat) {s : Streams}, Quiet s0 s → Quiet s0 (Streams.clearPendingCapacity fuel s)
  | 0, _, h => h
  | fuel + 1, s, h => by
    unfold Streams.clearPendingCapacity
    have q := h.qPop .pendingCapacity
    generalize s.qPop .pendingCapacity = x at q ⊢
    obtain ⟨s1, o⟩ := x
    cases o with
    | none => exact q
    | some id => exact Quiet.clearPendingCapacity fuel (q.transitionAfter _ _)

theorem Quiet.clearPendingOpen {s0 : Streams} : ∀ (fuel : Nat) {s : Streams}, Quiet s0 s → Quiet s0 (Streams.clearPendingOpen fuel s)
  | 0, _, h => h
  | fuel + 1, s, h => by
    unfold Streams.clearPendingOpen
    have q := h.qPop .pendingOpen
    generalize s.qPop .pendingOpen = x at q ⊢
    obtain ⟨s1, o⟩ := x
    cases o with
    | none => exact q
    | some id => exact Quiet.clearPendingOpen fuel (q.transitionAfter _ _)

theorem Quiet.clearPendingSend {s0 : Streams} : ∀ (fuel : Nat) {s : Streams}, Quiet s0 s → Quiet s0 (Streams.clearPendingSend fuel s)
  | 0, _, h => h
  | fuel + 1, s, h => by
    unfold Streams.clearPendingSend
    have q := h.qPop .pendingSend
    generalize s.qPop .pendingSend = x at q ⊢
    obtain ⟨s1, o⟩ := x
    cases o with
    | none => exact q
    | some id =>
      simp only
      apply Quiet.clearPendingSend fuel
      apply Quiet.transitionAfter
      split
      · exact q.mw_setReset _ _ _
      · exact q

theorem Quiet.clearQueues {s0 s : Streams} (h : Quiet s0 s) (b : Bool) : Quiet s0 (s.clearQueues b) := by
  unfold Streams.clearQueues Streams.sendClearQueues Streams.recvClearQueues
  simp only
  apply Quiet.clearPendingOpen
  apply Quiet.clearPendingSend
  apply Quiet.clearPendingCapacity
  have h1 := Quiet.clearStreamWindowUpdateQueue (s.recv.pendingWindowUpdates.length + 1) h
  generalize Streams.clearStreamWindowUpdateQueue (s.recv.pendingWindowUpdates.length + 1) s = s1 at h1 ⊢
  have h2 := Quiet.clearAllResetStreams (s1.recv.pendingResetExpired.length + 1) h1
  generalize Streams.clearAllResetStreams (s1.recv.pendingResetExpired.length + 1) s1 = s2 at h2 ⊢
  split
  · exact Quiet.clearAllPendingAccept _ h2
  · exact h2

theorem Quiet.recvEof {s0 s : Streams} (h : Quiet s0 s) (b : Bool) : Quiet s0 (s.recvEof b) := by
  unfold Streams.recvEof
  simp only
  apply Quiet.clearQueues
  apply Quiet.storeForEach
  · split
    · exact h.trans (quiet_of_slab rfl)
    · exact h
  · intro s id hs
    apply Quiet.transition
    quiet

end H2V.Lemmas.ConnHttpP
