import H2V.Lemmas.ConnRecvPReset
import H2V.Lemmas.ConnRecvPSettings
/-
  C03 — part 12: the entry points of `ConnStreams.lean` that do receive flow control:
  `Inner::recv_data`, `buffer_pending` / `poll_complete`, `apply_local_settings`,
  `drop_stream_ref`, `release_capacity`, `clear_recv_buffer`.
-/
namespace H2V.Lemmas.ConnRecvP
open H2V H2V.Model H2V.Model.Conn
open H2V.Model.Conn.Streams
open H2V.Lemmas.Comp
attribute [local irreducible] wrapSubU32 wrapSubUsize

theorem transition_inv {α : Type} {full : Bool} {g : Ghost} {d : Int} (s : Streams) (id : Nat) (f : Streams → Streams × α)
    (h : InvD full g d (f s).1) : InvD full g d (s.transition id f).1 := by
  unfold Streams.transition
  exact h.of_ext (transitionAfter_ext _ _ _)

/-- **`Inner::recv_data`**: a DATA frame, whatever the stream is (live, reset, refused, forgotten,
    beyond a GOAWAY) and whatever the outcome -/
theorem recvData_inv {full : Bool} {g : Ghost} {s : Streams} (h : Inv full g s) (id : Nat) (payload : Bytes)
    (eos : Bool) (padLen : Option Nat) : Inv full g (s.recvData id payload eos padLen).1 := by
  unfold Streams.recvData
  zeta_let
  generalize hfl : payload.length + _ = flowLen
  have hp : ∀ k, DataPost full g (usizeAsU32 flowLen) (s.recvRecvData k payload eos padLen) := by
    intro k; rw [← hfl]; exact recvRecvData_post h k payload eos padLen
  cases hfk : s.store.findKey? id with
  | none =>
    try dsimp only
    split
    · have := ignoreData_inv h (usizeAsU32 flowLen)
      split <;> (rename_i heq; rw [heq] at this; exact this)
    · split
      · have := ignoreData_inv h (usizeAsU32 flowLen)
        split <;> (rename_i heq; rw [heq] at this; exact this)
      · exact h
  | some k =>
    try dsimp only
    apply transition_inv
    try dsimp only
    have hp := hp k
    cases hr : s.recvRecvData k payload eos padLen with
    | mk s1 res1 =>
      rw [hr] at hp
      cases res1 with
      | ok u =>
        have h1 : Inv full g s1 := hp.1 notReset_ok
        -- not END_STREAM: the frame counts against the DATA frame budget
        dsimp only
        inv_auto
        all_goals (exfalso; simp_all [PErr.libraryGoAwayData])
      | error e =>
        dsimp only
        cases e with
        | reset sid reason init =>
          -- a stream error: the octets go back to the connection window
          have h1 : InvD full g (usizeAsU32 flowLen) s1 := hp.2 (fun hn => hn sid reason init rfl)
          dsimp only
          have hcI : usizeAsU32 flowLen ≤ cI s1 := by
            have := h1.sum; have := sumInfl s1.store.slab; omega
          have h2 := (releaseConnectionCapacity_inv h1 (usizeAsU32 flowLen) false hcI).1
          have : ((usizeAsU32 flowLen : Nat) : Int) - (usizeAsU32 flowLen : Nat) = 0 := by omega
          rw [this] at h2
          exact h2.of_ext (resetOnRecvStreamErr_ext _ _ _)
        | goAway d r i =>
          have h1 : Inv full g s1 := hp.1 (fun _ _ _ hc => nomatch hc)
          inv_auto
          all_goals (exfalso; simp_all)
        | io k m =>
          have h1 : Inv full g s1 := hp.1 (fun _ _ _ hc => nomatch hc)
          inv_auto
          all_goals (exfalso; simp_all)

/-- `Inner::buffer_pending` -/
theorem bufferPending_inv {full : Bool} {g : Ghost} (n : Nat) {s : Streams} (h : Inv full g s) (w : Writer) :
    Inv full g (bufferPending n s w).1 := by
  unfold Streams.bufferPending
  have h1 := recvBufferPending_inv h w
  cases hc : s.recvBufferPending w with
  | mk s1 r =>
    rw [hc] at h1
    obtain ⟨w1, st⟩ := r
    cases st with
    | codecFull => exact h1
    | complete => exact h1.of_ext (prioBufferPending_ext _ _ _)

/-- **`Streams::poll_complete`** (every WINDOW_UPDATE and DATA frame goes out through here) -/
theorem pollComplete_inv {full : Bool} {g : Ghost} (n : Nat) {s : Streams} (h : Inv full g s) (w : Writer) (io : Tio)
    (t : String) : Inv full g (pollComplete n s w io t).1 := by
  induction n generalizing s w io with
  | zero => unfold pollComplete; exact h.of_ext (panic_ext _ _)
  | succ n ih =>
    unfold pollComplete
    split
    · next w1 io1 _ =>
      have h1 := bufferPending_inv (n + 1) h w1
      cases hb : bufferPending (n + 1) s w1 with
      | mk s1 r =>
        rw [hb] at h1
        obtain ⟨w2, st⟩ := r
        dsimp only
        cases st with
        | codecFull => exact ih h1 _ _
        | complete =>
          dsimp only
          split
          · next w3 io3 _ =>
            have h2 : Inv full g ({ s1 with actions := { s1.actions with task := some t } } : Streams) :=
              h1.of_ext (setTask_ext _ _)
            have h3 := h2.of_ext (reclaimFrame_ext _ w3)
            cases hrf : ({ s1 with actions := { s1.actions with task := some t } } : Streams).reclaimFrame w3 with
            | mk s4 r4 =>
              rw [hrf] at h3
              obtain ⟨w4, b⟩ := r4
              dsimp only
              split
              · exact h3
              · exact ih h3 _ _
          · exact h1.of_ext (setTask_ext _ _)
    · exact h

/-- `Streams::apply_local_settings(frame)` (the peer acknowledged our SETTINGS) -/
theorem applyLocalSettingsFrame_inv {full : Bool} {g : Ghost} {s : Streams} (h : Inv full g s) (vals : List (Nat × Nat))
    (hv : ∀ t, (vals.find? (·.1 = 4)).map (·.2) = some t → t ≤ 2147483647) :
    Inv false (g.afterSettings ((vals.find? (·.1 = 4)).map (·.2))) (s.applyLocalSettingsFrame vals).1 ∧
    ((s.applyLocalSettingsFrame vals).2 = .ok () →
      Inv full (g.afterSettings ((vals.find? (·.1 = 4)).map (·.2))) (s.applyLocalSettingsFrame vals).1) := by
  unfold Streams.applyLocalSettingsFrame
  exact applyLocalSettings_inv h _ _ hv

/-- `OpaqueStreamRef::release_capacity` -/
theorem refReleaseCapacity_inv {full : Bool} {g : Ghost} {s : Streams} (h : Inv full g s) (id cap : Nat) :
    Inv full g (s.refReleaseCapacity id cap).1 := by
  unfold Streams.refReleaseCapacity; exact releaseCapacity_inv h id cap true

/-- `OpaqueStreamRef::clear_recv_buffer` (`Drop for RecvStream`): the handle is gone, what is buffered
    goes back to the connection window -/
theorem refClearRecvBuffer_inv {full : Bool} {g : Ghost} {s : Streams} (h : Inv full g s) (id : Nat) :
    Inv full g (s.refClearRecvBuffer id) := by
  unfold Streams.refClearRecvBuffer
  have h1 : Inv full g (s.modStream id fun st => { st with isRecv := false }) :=
    h.of_ext (modStream_ext _ _ _ fun x _ => ⟨rfl, rfl, rfl, fun h => h, fun hc => by cases hc⟩)
  have hg := get?_modStream s id (fun st => { st with isRecv := false }) (fun _ => rfl)
  generalize (s.modStream id fun st => { st with isRecv := false }) = s1 at h1 hg ⊢
  refine clearRecvBuffer_inv h1 id true fun _ x hx => ?_
  rw [hg] at hx
  cases hs : s.store.get? id with
  | none => simp [hs] at hx
  | some y =>
    simp only [hs, Option.map_some, Option.some.injEq] at hx
    subst hx
    exact .inr (.inl rfl)

theorem foldl_ext (f : Streams → Nat → Streams) (hf : ∀ s p, Ext s (f s p)) (l : List Nat) (s : Streams) :
    Ext s (l.foldl f s) := by
  induction l generalizing s with
  | nil => exact Ext.refl _
  | cons p l ih => exact (hf s p).trans (ih _)

/-- after `Send::schedule_implicit_reset` the stream is closed (or it is an entry with nothing in flight) -/
theorem scheduleImplicitReset_closed (s : Streams) (id : Nat) (r : Reason) (hk : KeysOK s.store)
    {x' : Stream} (hx' : x' ∈ (s.scheduleImplicitReset id r).store.slab)
    (hkx : x'.key = id) : x'.state.isClosed = true ∨ x'.inFlightRecvData = 0 := by
  unfold Streams.scheduleImplicitReset at hx'
  split at hx'
  · next hc =>
    have hg := get?_of_mem hk hx'
    rw [hkx] at hg
    rw [stream_eq_of_get? hg] at hc
    exact .inl hc
  · have e1 : Ext s (s.modStream id fun st => { st with state := st.state.setScheduledReset r }) :=
      modStream_ext _ _ _ fun x _ => setState_same x _ fun _ => rfl
    have hg1 := get?_modStream s id (fun st => { st with state := st.state.setScheduledReset r }) (fun _ => rfl)
    have hk1 := e1.keys hk
    generalize (s.modStream id fun st => { st with state := st.state.setScheduledReset r }) = s1 at hx' hg1 hk1
    have e2 : Ext s1 ((s1.reclaimReservedCapacity id).scheduleSend id) :=
      (reclaimReservedCapacity_ext _ _).trans (scheduleSend_ext _ _)
    refine Ext.closed_or_empty_of_mem hk1 e2 (k := id) ?_ hx' hkx
    intro y hy
    rw [hg1] at hy
    cases hs : s.store.get? id with
    | none => simp [hs] at hy
    | some x =>
      simp only [hs, Option.map_some, Option.some.injEq] at hy
      subst hy; rfl

/-- after `maybe_cancel`, a stream without handles is closed (or an entry with nothing in flight) -/
theorem maybeCancel_closed (s : Streams) (id : Nat) (hk : KeysOK s.store)
    {x' : Stream} (hx' : x' ∈ (s.maybeCancel id).store.slab) (hkx : x'.key = id)
    (hrc : (((s.maybeCancel id).stream id).refCount == 0) = true) :
    x'.state.isClosed = true ∨ x'.inFlightRecvData = 0 := by
  unfold Streams.maybeCancel at hx' hrc
  dsimp only at hx' hrc
  split at hx'
  · -- cancelled now
    have e1 := scheduleImplicitReset_ext s id
      (if (s.counts.isServer && (s.stream id).state.isSendClosed && (s.stream id).state.isRecvStreaming) = true then NO_ERROR
        else CANCEL)
    have hk1 := e1.keys hk
    rcases (enqueueResetExpiration_ext _ id).slab hk1 x' hx' with ⟨y, hy, hs⟩ | hfr
    · rcases scheduleImplicitReset_closed s id _ hk hy (by rw [← hs.key, hkx]) with hc | h0
      · exact .inl (hs.closed hc)
      · exact .inr (by rw [hs.infl]; exact h0)
    · exact .inr hfr.infl
  · next hnc =>
    rw [if_neg hnc] at hrc
    have hg := get?_of_mem hk hx'
    rw [hkx] at hg
    rw [stream_eq_of_get? hg] at hnc hrc
    unfold Stream.isCanceledInterest at hnc
    cases hcl : x'.state.isClosed with
    | true => exact .inl rfl
    | false => simp [hrc, hcl] at hnc

theorem foldl_inv {full : Bool} {g : Ghost} (f : Streams → Nat → Streams)
    (hf : ∀ s p, Inv full g s → Inv full g (f s p)) (l : List Nat) (s : Streams) (h : Inv full g s) :
    Inv full g (l.foldl f s) := by
  induction l generalizing s with
  | nil => exact h
  | cons p l ih => exact ih _ (hf s p h)

/-- `maybe_cancel` followed by `release_closed_capacity` when no handle is left (the stream itself
    and, since the repair of the pushed-stream leak, each of its promised streams) -/
theorem cancelRelease_inv {full : Bool} {g : Ghost} {s : Streams} (h : Inv full g s) (id : Nat) :
    Inv full g (if ((s.maybeCancel id).stream id).refCount == 0 then (s.maybeCancel id).releaseClosedCapacity id
      else s.maybeCancel id) := by
  have h5 : Inv full g (s.maybeCancel id) := h.of_ext (maybeCancel_ext _ _)
  have hcl := fun x' hx' hkx hrc => maybeCancel_closed s id h.keys (x' := x') hx' hkx hrc
  generalize s.maybeCancel id = s5 at h5 hcl ⊢
  split
  · next hrc =>
    refine releaseClosedCapacity_inv h5 id fun _ x hx => ?_
    rcases hcl x (get?_mem hx).1 (get?_mem hx).2 hrc with hc | h0
    · exact .inl hc
    · exact .inr (.inr h0)
  · exact h5

/-- **`drop_stream_ref`** (a `StreamRef`/`OpaqueStreamRef` is dropped): when it was the last one,
    everything the stream — and every stream promised on it that nobody polled — still holds goes
    back to the connection window -/
theorem dropStreamRef_inv {full : Bool} {g : Ghost} {s : Streams} (h : Inv full g s) (id : Nat) :
    Inv full g (s.dropStreamRef id) := by
  unfold Streams.dropStreamRef
  abs_let s1 h1 : Inv full g s1
  · exact h.of_ext (setRefs_ext _ _)
  abs_let s2 h2 : Inv full g s2
  · split
    · exact h1
    · exact h1.of_ext (panic_ext _ _)
  abs_let s3 h3 : Inv full g s3
  · exact h2.of_ext (modStream_ext s2 id (fun st => { st with refCount := st.refCount - 1 })
      (fun x _ => ⟨rfl, rfl, rfl, fun h => h, fun h => h⟩))
  zeta_let
  abs_let s4 h4 : Inv full g s4
  · split
    · exact h3.of_ext (notifyTask_ext _)
    · exact h3
  apply transition_inv
  dsimp only
  have h5 := cancelRelease_inv h4 id
  split
  · next hrc =>
    rw [if_pos hrc] at h5
    generalize (s4.maybeCancel id).releaseClosedCapacity id = s6 at h5 ⊢
    dsimp only
    have h7 : Inv full g (s6.modStream id fun st => { st with pendingPushPromises := [] }) :=
      h5.of_ext (modStream_ext s6 id (fun st => { st with pendingPushPromises := [] })
        (fun x _ => ⟨rfl, rfl, rfl, fun h => h, fun h => h⟩))
    refine foldl_inv _ (fun s p hs => ?_) _ _ h7
    show Inv full g (Prod.fst _)
    apply transition_inv
    exact cancelRelease_inv (hs.of_ext (modStream_ext s p (fun st => { st with isPendingAccept := false })
      (fun x _ => ⟨rfl, rfl, rfl, fun h => h, fun h => h⟩))) p
  · next hrc =>
    rw [if_neg hrc] at h5
    exact h5

end H2V.Lemmas.ConnRecvP
