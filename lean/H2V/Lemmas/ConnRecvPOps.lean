import H2V.Lemmas.ConnRecvPReset
import H2V.Lemmas.ConnRecvPSettings
/-
  C03 — part 12: the entry points of `ConnStreams.lean` that do receive flow control:
  `Inner::recv_data`, `buffer_pending` / `poll_complete`, `apply_local_settings`,
  `drop_stream_ref`, `release_capacity`, `clear_recv_buffer`.
-/
namespace H2V.Lemmas.ConnRecvP
open H2V H2V.Model H2V.Model.Conn
open H2V.Model.Conn.Streams
open H2V.Lemmas.Comp
attribute [local irreducible] wrapSubU32 wrapSubUsize

theorem transition_inv {α : Type} {full : Bool} {g : Ghost} {d : Int} (s : Streams) (id : Nat) (f : Streams → Streams × α)
    (h : InvD full g d (f s).1) : InvD full g d (s.transition id f).1 := by
  unfold Streams.transition
  exact h.of_ext (transitionAfter_ext _ _ _)

/-- **`Inner::recv_data`**: a DATA frame, whatever the stream is (live, reset, refused, forgotten,
    beyond a GOAWAY) and whatever the outcome -/
theorem recvData_inv {full : Bool} {g : Ghost} {s : Streams} (h : Inv full g s) (id : Nat) (payload : Bytes)
    (eos : Bool) (padLen : Option Nat) : Inv full g (s.recvData id payload eos padLen).1 := by
  have hp := fun k => recvRecvData_post h k payload eos padLen
  unfold Streams.recvData
  zeta_let
  generalize (payload.length + (match padLen with | some p => p + 1 | none => 0)) = flowLen at hp ⊢
  cases hfk : s.store.findKey? id with
  | none =>
    dsimp only
    split
    · have := ignoreData_inv h (usizeAsU32 flowLen)
      split <;> (rename_i heq; rw [heq] at this; exact this)
    · split
      · have := ignoreData_inv h (usizeAsU32 flowLen)
        split <;> (rename_i heq; rw [heq] at this; exact this)
      · exact h
  | some k =>
    dsimp only
    apply transition_inv
    dsimp only
    have hp := hp k
    cases hr : s.recvRecvData k payload eos padLen with
    | mk s1 res1 =>
      rw [hr] at hp
      cases res1 with
      | ok u =>
        have h1 : Inv full g s1 := hp.1 notReset_ok
        dsimp only
        split
        · -- not END_STREAM: the frame counts against the DATA frame budget
          split
          · exact h1.of_ext ((setCounts_ext _ _).trans (resetOnRecvStreamErr_ext _ _ _))
          · exact h1.of_ext ((setCounts_ext _ _).trans (resetOnRecvStreamErr_ext _ _ _))
        · exact h1.of_ext (resetOnRecvStreamErr_ext _ _ _)
      | error e =>
        dsimp only
        cases e with
        | reset sid reason init =>
          -- a stream error: the octets go back to the connection window
          have h1 : InvD full g (usizeAsU32 flowLen) s1 := hp.2 (fun hn => hn sid reason init rfl)
          dsimp only
          have hcI : usizeAsU32 flowLen ≤ cI s1 := by
            have := h1.sum; have := sumInfl s1.store.slab; omega
          have h2 := (releaseConnectionCapacity_inv h1 (usizeAsU32 flowLen) false hcI).1
          have : ((usizeAsU32 flowLen : Nat) : Int) - (usizeAsU32 flowLen : Nat) = 0 := by omega
          rw [this] at h2
          exact h2.of_ext (resetOnRecvStreamErr_ext _ _ _)
        | goAway d r i =>
          have h1 : Inv full g s1 := hp.1 (fun _ _ _ hc => nomatch hc)
          exact h1.of_ext (resetOnRecvStreamErr_ext _ _ _)
        | io k m =>
          have h1 : Inv full g s1 := hp.1 (fun _ _ _ hc => nomatch hc)
          exact h1.of_ext (resetOnRecvStreamErr_ext _ _ _)

end H2V.Lemmas.ConnRecvP
