import H2V.Lemmas.ConnNoPanicPConnInit
import H2V.Lemmas.ConnNoPanicPHist
import H2V.Lemmas.ConnRecvPPoll
/-
  C08 (no panic) — connection layer, part 8: summary.  Every operation of the application on a connection
  (`ConnRecvP.COp`, handle calls excepted) is a history of `(streams, codec.w)` satisfying `ConnP` and keeps `ConnOK`;
  `ConnP` implies the preconditions `opPre` of ConnNoPanicPHist for every operation `opPre` covers.
-/
namespace H2V.Lemmas.ConnNoPanicP
open H2V H2V.Model H2V.Model.Conn
open H2V.Lemmas.ConnResetP (Op run)
open H2V.Lemmas.ConnCtlP (GoAwayInv Keep15 Step15 GaLe gaLast view)
open H2V.Lemmas.ConnRecvP (COp)

/-- **every call of the application on a connection** (polls, window configuration, shutdown, the ping handle):
    `ConnOK` again, and `(streams, codec.w)` moved by a history whose calls satisfy `ConnP`; the only panics the
    connection layer records are the model's fuel markers -/
theorem cop_step {c : Conn} (hc : ConnOK c) (op : COp) (hop : ∀ o, op ≠ .handle o)
    (hv : ∀ size, op = .setTargetWindowSize size → size ≤ 2147483647) : CStep FuelMsg c (op.apply c) := by
  cases op with
  | protoPoll fuel => exact (protoPoll_cs fuel hc).cstep hc
  | clientPoll fuel => exact (clientPoll_cs fuel hc).cstep hc
  | setTargetWindowSize size => exact (setTargetWindowSize_cs hc.ga size (hv size rfl)).cstep hc
  | setInitialWindowSize size => exact (setInitialWindowSize_cs hc.ga size).cstep hc
  | goAwayGracefully => exact goAwayGracefully_step hc
  | goAwayFromUser e => exact (goAwayFromUser_cs hc.ga e).cstep hc
  | goAwayNow e => exact (goAwayNow_cs hc.ga e).cstep hc
  | userSendPing => exact (userSendPing_cs hc.ga).cstep hc
  | userPollPong t => exact (userPollPong_cs hc.ga t).cstep hc
  | dropUserPingsRx => exact (dropUserPingsRx_cs hc.ga).cstep hc
  | takeUserPings => exact (takeUserPings_cs hc.ga).cstep hc
  | handle o => exact absurd rfl (hop o)

/-- a handle call (or a transport event) seen from the connection invariant: it must keep `last_processed_id` and
    `max_stream_id` (ConnCtlP's frame lemmas `view_…` prove it for every handle call of the driver) -/
theorem ConnOK.handle {c : Conn} (hc : ConnOK c) (s : Streams) (codec : Codec) (cx : String)
    (hl : (view s).lpi = (view c.streams).lpi) (hr : (view s).rmax = (view c.streams).rmax)
    (he : (view c.streams).connErr.isSome = true → (view s).connErr.isSome = true) (hrd : codec.r = c.codec.r) :
    ConnOK { c with streams := s, codec := codec, cx := cx } :=
  hc.keep ⟨rfl, hl, hr, he⟩ rfl hrd (.of_eq rfl rfl)

/-- `ConnP` gives the preconditions of ConnNoPanicPHist (`opPre`) wherever `opPre` covers the operation; the four
    operations it does not cover yet are `recv_push_promise`, `set_target_connection_window`, `poll_complete`,
    `send_pending_refusal` -/
theorem connP_opPre {s : Streams} {op : Op} (h : ConnP s op) :
    opPre s op ∨ (∃ id hd, op = .recvPushPromise id hd) ∨ (∃ t, op = .setTargetConnectionWindow t) ∨ usesWriter op = true := by
  cases op
  case recvPushPromise id hd => exact Or.inr (Or.inl ⟨id, hd, rfl⟩)
  case setTargetConnectionWindow t => exact Or.inr (Or.inr (Or.inl ⟨t, rfl⟩))
  case pollComplete => exact Or.inr (Or.inr (Or.inr rfl))
  case pollSendPendingRefusal => exact Or.inr (Or.inr (Or.inr rfl))
  case recvEof b =>
    left
    have hb : b = false := h
    subst hb
    intro hh; cases hh
  all_goals first | exact Or.inl h | exact Or.inl trivial | exact h.elim

-- ===================================================================== the streams-only statements

/-- `recv_frame`, after `poll_ready` answered `Ready(Ok)`: a plain history, no panic of the connection layer -/
theorem recvFrame_hist {c : Conn} (hc : ConnOK c) (href : c.streams.recv.refused = none)
    (hpp : c.pingPong.pendingPong = none) (f : Option Frame.Frame) (hf : ∀ g, f = some g → WireOK g) :
    Hist ConnP c.streams (c.recvFrame f).1.streams := (recvFrame_qs hc href hpp f hf).hist.hist

theorem handlePoll2Result_hist {c : Conn} (hi : GoAwayInv c) (res : Except PErr Unit) :
    Hist ConnP c.streams (c.handlePoll2Result res).1.streams :=
  (handlePoll2Result_cs (X := fun _ => False) hi res).histS.toHist

theorem handleGoAway_hist {c : Conn} (hi : GoAwayInv c) (r : Reason) (d : Bytes) (i : Initiator) :
    Hist ConnP c.streams (c.handleGoAway r d i).streams := (handleGoAway_cs (X := fun _ => False) hi r d i).histS.toHist

theorem recvSettings_hist {c : Conn} (hi : GoAwayInv c) (ack : Bool) (vals : List (Nat × Nat))
    (hrem : ack = false → c.settings.remote = none) (hv : ack = false → ConnFlowP.SettingsOk vals) :
    Hist ConnP c.streams (c.recvSettings ack vals).1.streams :=
  (recvSettings_cs (X := fun _ => False) hi ack vals hrem hv).histS.toHist

/-- `poll_ready` needs only that the remembered SETTINGS of the peer came through the decoder -/
theorem pollReady_hist (c : Conn) (hrem : ∀ v, c.settings.remote = some v → ConnFlowP.SettingsOk v) :
    Hist ConnP c.streams c.pollReady.1.streams := (pollReady_qs c hrem).1.hist.hist
theorem settingsPollSend_hist (c : Conn) (hrem : ∀ v, c.settings.remote = some v → ConnFlowP.SettingsOk v) :
    Hist ConnP c.streams c.settingsPollSend.1.streams := (settingsPollSend_qs c hrem).hist.hist

theorem poll2Loop_hist (fuel : Nat) {c : Conn} (hc : ConnOK c) : HistX ConnP FuelMsg c.streams (Conn.poll2Loop fuel c).1.streams :=
  (poll2Loop_cs fuel hc).histS
theorem poll2_hist (fuel : Nat) {c : Conn} (hc : ConnOK c) : HistX ConnP FuelMsg c.streams (Conn.poll2 fuel c).1.streams :=
  (poll2_cs fuel hc).histS
theorem protoPoll_hist (fuel : Nat) {c : Conn} (hc : ConnOK c) : HistX ConnP FuelMsg c.streams (Conn.protoPoll fuel c).1.streams :=
  (protoPoll_cs fuel hc).histS
theorem clientPoll_hist (fuel : Nat) {c : Conn} (hc : ConnOK c) : HistX ConnP FuelMsg c.streams (Conn.clientPoll fuel c).1.streams :=
  (clientPoll_cs fuel hc).histS

theorem init_histS (g : Conn.Cfg) (hg : CwsOK g) : Hist ConnP (clientStreams0 g) (Conn.init g).streams := (init_hist g hg).hist
theorem initServer_histS (g : Conn.Cfg) (ecp : Bool) (pf : Bytes) (hg : CwsOK g) :
    Hist ConnP (serverStreams0 g ecp) (Conn.initServer g ecp pf).streams := (initServer_hist g ecp pf hg).hist

end H2V.Lemmas.ConnNoPanicP
