import H2V.Lemmas.ConnNoPanicPAccStreams
/-
  C08 (no panic) — the server accept path, part 5: the invariant `J`.

    `acc` : every key queued in `recv.pending_accept` is a live entry with `is_pending_accept` set, queued once;
    `qd`  : a queued stream has no handle (`ref_count = 0`) and its `pending_recv` starts with the request head
            (what `Recv::take_request` expects);
    `rr`  : the queued streams that the peer has reset are counted by `num_remote_reset_streams`
            (what `Streams::next_incoming` asserts before it decrements);
    `si`  : (server) an entry whose first HEADERS is still expected has no handle and an empty `pending_recv`
            (so that `recv_headers` queues a stream whose `pending_recv` is exactly the request);
    `cl`  : (client) `pending_accept` is empty.
  `J.al`: a step related by `AL` keeps `J`.  `J.upd`: an update of one entry.
-/
namespace H2V.Lemmas.ConnNoPanicP
open H2V H2V.Model H2V.Model.Conn H2V.Lemmas.ConnCountsP
attribute [local irreducible] wrapSubU32 wrapSubUsize

/-- an entry whose first HEADERS is still expected has no handle and nothing received -/
def SI (x : Stream) : Prop := x.state.isRecvHeaders = true → x.refCount = 0 ∧ x.pendingRecv = []
/-- `pending_recv` starts with the request head -/
def ReqHead (x : Stream) : Prop := ∃ m u f rest, x.pendingRecv = .request m u f :: rest
/-- the queued streams that are "reset by the peer" -/
def rrCount (s : Streams) : Nat := s.recv.pendingAccept.countP fun k => (s.stream k).state.isRemoteReset

structure J (s : Streams) : Prop where
  acc : AccOK s
  qd : ∀ k ∈ s.recv.pendingAccept, (s.stream k).refCount = 0 ∧ ReqHead (s.stream k)
  rr : rrCount s ≤ s.counts.numRemoteResetStreams
  si : s.counts.isServer = true → ∀ j, Live s j → SI (s.stream j)
  cl : s.counts.isServer = false → s.recv.pendingAccept = []

theorem flagged_iff {q : QName} {s : Streams} {k : Nat} : Flagged q s k ↔ Live s k ∧ (s.stream k).isQueued q = true := by
  constructor
  · rintro ⟨x, hx, hf⟩; exact ⟨⟨x, hx⟩, by rw [stream_of_get? hx]; exact hf⟩
  · rintro ⟨⟨x, hx⟩, hf⟩; exact ⟨x, hx, by rw [stream_of_get? hx] at hf; exact hf⟩

theorem SI.of_ar {a b : Stream} (h : AR a b) (ha : SI a) : SI b := by
  intro hb
  have ha' : a.state.isRecvHeaders = true := by
    cases hh : a.state.isRecvHeaders with
    | true => rfl
    | false => rw [h.rh hh] at hb; cases hb
  obtain ⟨h1, h2⟩ := ha ha'
  refine ⟨h.ref.trans h1, ?_⟩
  cases hp : b.pendingRecv with
  | nil => rfl
  | cons e l =>
    rcases h.pr (by rw [hp]; exact List.cons_ne_nil _ _) with h' | h'
    · exact absurd h2 h'
    · rw [hb] at h'; cases h'

theorem ReqHead.of_app {a b : Stream} (h : App a b) (ha : ReqHead a) : ReqHead b := by
  obtain ⟨l, hl⟩ := h
  obtain ⟨m, u, f, rest, hr⟩ := ha
  exact ⟨m, u, f, rest ++ l, by rw [hl, hr]; rfl⟩

theorem ReqHead.ne_nil {a : Stream} (h : ReqHead a) : a.pendingRecv ≠ [] := by
  obtain ⟨m, u, f, rest, hr⟩ := h; rw [hr]; exact List.cons_ne_nil _ _

theorem countP_mono' {L : List Nat} {f f' : Nat → Bool} (h : ∀ j ∈ L, f' j = true → f j = true) : L.countP f' ≤ L.countP f := by
  induction L with
  | nil => exact Nat.le_refl _
  | cons a l ih =>
    have ih' := ih (fun j hj => h j (List.mem_cons_of_mem _ hj))
    have ha := h a (List.mem_cons_self ..)
    rw [List.countP_cons, List.countP_cons]
    cases hf' : f' a
    · simp only [Bool.false_eq_true, if_false]; omega
    · rw [ha hf']; simp only [if_true]; omega

/-- one entry changes: at most one more -/
theorem countP_upd {L : List Nat} (hnd : L.Nodup) {f f' : Nat → Bool} (k : Nat) (h : ∀ j, j ≠ k → f' j = f j) :
    L.countP f' ≤ L.countP f + 1 := by
  induction L with
  | nil => exact Nat.zero_le _
  | cons a l ih =>
    have hnd' := List.nodup_cons.mp hnd
    rw [List.countP_cons, List.countP_cons]
    by_cases hak : a = k
    · subst hak
      have : l.countP f' ≤ l.countP f := countP_mono' (fun j hj hf => by
        rw [h j (fun e => hnd'.1 (e ▸ hj))] at hf; exact hf)
      split <;> split <;> omega
    · have := ih hnd'.2
      rw [h a hak]
      split <;> omega

theorem J.not_mem_of_ref {s : Streams} (h : J s) {k : Nat} (hr : (s.stream k).refCount > 0) : k ∉ s.recv.pendingAccept :=
  fun hk => by have := (h.qd k hk).1; omega

theorem J.of_client {s : Streams} (h1 : s.counts.isServer = false) (h2 : s.recv.pendingAccept = []) : J s := by
  refine ⟨⟨fun k hk => ?_, by rw [h2]; exact List.nodup_nil⟩, fun k hk => ?_, ?_, fun h => ?_, fun _ => h2⟩
  · rw [h2] at hk; cases hk
  · rw [h2] at hk; cases hk
  · unfold rrCount; rw [h2]; exact Nat.zero_le _
  · rw [h1] at h; cases h

theorem J_blank {s : Streams} (h : Blank s) (hq : ∀ q, s.getQ q = []) : J s := by
  have h2 : s.recv.pendingAccept = [] := hq .pendingAccept
  refine ⟨⟨fun k hk => ?_, by rw [h2]; exact List.nodup_nil⟩, fun k hk => ?_, ?_, fun _ j hj => ?_, fun _ => h2⟩
  · rw [h2] at hk; cases hk
  · rw [h2] at hk; cases hk
  · unfold rrCount; rw [h2]; exact Nat.zero_le _
  · obtain ⟨x, hx⟩ := hj
    have := get?_mem hx
    rw [h.slab] at this; cases this

/-- **a step related by `AL` keeps `J`**, as long as the entries whose `pending_recv` may shrink are not queued -/
theorem J.al {ks : List Nat} {s s' : Streams} (h : AL ks s s') (hks : ∀ k ∈ ks, k ∉ s.recv.pendingAccept) (hj : J s) : J s' := by
  have hq := h.queue
  refine ⟨⟨fun k hk => ?_, by rw [hq]; exact hj.acc.nodup⟩, fun k hk => ?_, ?_, fun hs j hl => ?_, fun hs => ?_⟩
  · rw [hq] at hk
    have := flagged_iff.mp (hj.acc.fl k hk)
    exact flagged_iff.mpr ⟨h.live.mpr this.1, by
      show (s'.stream k).isPendingAccept = true
      rw [(h.str k).acc]; exact this.2⟩
  · rw [hq] at hk
    obtain ⟨h1, h2⟩ := hj.qd k hk
    exact ⟨(h.str k).ref.trans h1, h2.of_app (h.app k (fun hkk => hks k hkk hk))⟩
  · refine Nat.le_trans ?_ (Nat.le_trans hj.rr h.cnt)
    unfold rrCount; rw [hq]
    exact countP_mono' (fun j _ hf => (h.str j).rr hf)
  · rw [h.srv] at hs
    exact (hj.si hs j (h.live.mp hl)).of_ar (h.str j)
  · rw [h.srv] at hs; rw [hq]; exact hj.cl hs

theorem J.al0 {s s' : Streams} (h : AL [] s s') (hj : J s) : J s' := hj.al h (fun _ hk => absurd hk List.not_mem_nil)
theorem J.al1 {k : Nat} {s s' : Streams} (h : AL [k] s s') (hk : k ∉ s.recv.pendingAccept) (hj : J s) : J s' :=
  hj.al h (fun j hj' => by rw [List.mem_singleton] at hj'; subst hj'; exact hk)

-- ===================================================================== an update of one entry

theorem stream_modStream_ne (s : Streams) (k : Nat) (f : Stream → Stream) (hk : ∀ x, (f x).key = x.key) {j : Nat} (hj : j ≠ k) :
    (s.modStream k f).stream j = s.stream j := by
  unfold Streams.modStream
  split
  · next st hst =>
    rcases setStream_stream s (f st) j with e | ⟨_, hj', _⟩
    · exact e
    · rw [hk, get?_key hst] at hj'; exact absurd hj' hj
  · exact panic_stream _ _ _

/-- only entry `k` changes: its flag stays, the conditions that concern it are supplied -/
theorem J.upd {s s' : Streams} {k : Nat} (hj : J s) (hkeys : SameKeys s s')
    (hq : s'.recv.pendingAccept = s.recv.pendingAccept) (hsrv : s'.counts.isServer = s.counts.isServer)
    (hoth : ∀ j, j ≠ k → s'.stream j = s.stream j)
    (hacc : (s'.stream k).isPendingAccept = (s.stream k).isPendingAccept)
    (hsi : s.counts.isServer = true → Live s k → SI (s'.stream k))
    (hqd : k ∈ s.recv.pendingAccept → (s'.stream k).refCount = 0 ∧ ReqHead (s'.stream k))
    (hrr : rrCount s' ≤ s'.counts.numRemoteResetStreams) : J s' := by
  refine ⟨⟨fun j hjq => ?_, by rw [hq]; exact hj.acc.nodup⟩, fun j hjq => ?_, hrr, fun hs j hl => ?_, fun hs => ?_⟩
  · rw [hq] at hjq
    have := flagged_iff.mp (hj.acc.fl j hjq)
    refine flagged_iff.mpr ⟨hkeys.live.mpr this.1, ?_⟩
    show (s'.stream j).isPendingAccept = true
    by_cases hjk : j = k
    · subst hjk; rw [hacc]; exact this.2
    · rw [hoth j hjk]; exact this.2
  · rw [hq] at hjq
    by_cases hjk : j = k
    · subst hjk; exact hqd hjq
    · rw [hoth j hjk]; exact hj.qd j hjq
  · rw [hsrv] at hs
    by_cases hjk : j = k
    · subst hjk; exact hsi hs (hkeys.live.mp hl)
    · rw [hoth j hjk]; exact hj.si hs j (hkeys.live.mp hl)
  · rw [hsrv] at hs; rw [hq]; exact hj.cl hs

/-- the count of reset queued streams when entry `k` does not become "reset by the peer" -/
theorem rrCount_upd_le {s s' : Streams} {k : Nat} (hq : s'.recv.pendingAccept = s.recv.pendingAccept)
    (hoth : ∀ j, j ≠ k → s'.stream j = s.stream j)
    (hk : k ∈ s.recv.pendingAccept → (s'.stream k).state.isRemoteReset = true → (s.stream k).state.isRemoteReset = true) :
    rrCount s' ≤ rrCount s := by
  unfold rrCount; rw [hq]
  refine countP_mono' (fun j hjq hf => ?_)
  by_cases hjk : j = k
  · subst hjk; exact hk hjq hf
  · rw [hoth j hjk] at hf; exact hf

/-- `modStream` on a live key as an update of one entry -/
theorem J.modStream {s : Streams} {k : Nat} (hj : J s) (hl : Live s k) (f : Stream → Stream) (hk : ∀ x, (f x).key = x.key)
    (hacc : (f (s.stream k)).isPendingAccept = (s.stream k).isPendingAccept)
    (hsi : s.counts.isServer = true → SI (f (s.stream k)))
    (hqd : k ∈ s.recv.pendingAccept → (f (s.stream k)).refCount = 0 ∧ ReqHead (f (s.stream k)))
    (hrr : k ∈ s.recv.pendingAccept → (f (s.stream k)).state.isRemoteReset = true → (s.stream k).state.isRemoteReset = true) :
    J (s.modStream k f) := by
  have hst := stream_modStream_live hl f hk
  have hoth : ∀ j, j ≠ k → (s.modStream k f).stream j = s.stream j := fun j hjk => stream_modStream_ne s k f hk hjk
  have hq : (s.modStream k f).recv.pendingAccept = s.recv.pendingAccept := by
    show Streams.getQ _ .pendingAccept = Streams.getQ _ .pendingAccept
    rw [getQ_modStream]
  refine hj.upd (SameKeys.modStream _ _ _) hq (by rw [modStream_counts]) hoth (by rw [hst]; exact hacc)
    (fun hs _ => by rw [hst]; exact hsi hs) (fun hkq => by rw [hst]; exact hqd hkq) ?_
  rw [modStream_counts]
  exact Nat.le_trans (rrCount_upd_le hq hoth (fun hkq => by rw [hst]; exact hrr hkq)) hj.rr

end H2V.Lemmas.ConnNoPanicP
