import H2V.Lemmas.ConnFidPRun
/-
  ConnFidP, part 13 — `pop_frame` with the ghost threaded through: it is a run of pops (each recorded as
  "emitted" in full), cuts of streams whose reset is scheduled, and removals; and when it hands out a DATA
  frame `(len, flag_eos, { key, rest, eos })` the LAST frame recorded for `key` is the whole queued frame
  `DATA(len + rest, eos)` it was cut from, `flag_eos` being `eos` exactly when nothing is left.
-/
set_option linter.unusedSectionVars false
namespace H2V.Lemmas.ConnFidP
open H2V H2V.Model H2V.Model.Conn H2V.Lemmas.ConnWakeP

/-- what `pop_frame` may do -/
def permPop : Perm := { pop := True, cut := fun _ => True, gone := True }
/-- what follows the `pop_front` inside `pop_frame`: requeue, `transition_after` -/
def permPost : Perm := { gone := True }

theorem permPost_le : ∀ l, permPost.ok l → permPop.ok l := by
  intro l h
  cases l <;> simp only [Perm.ok, permPost, permPop] at h ⊢ <;> first | trivial | exact h | (rcases h with h | ⟨_, h⟩ <;> exact absurd h id)

/-- the step `pop k f` with its ghost -/
theorem pop_run {P : Perm} (s : Streams) (g : Ghost) (k : Nat) (f : SFrame) (rest : List SFrame)
    (hq : (s.stream k).pendingSend = f :: rest) (hA : P.pop) :
    Run P s g (s.modStream k (setSendF rest)) (gstep s (.pop k f) g) := by
  cases hs : s.store.get? k with
  | none =>
    have : (s.stream k).pendingSend = [] := by unfold Streams.stream; rw [hs]; rfl
    rw [this] at hq; cases hq
  | some a =>
    refine .lbl (.pop k f) (.refl s g) (El.modStream s k _ (fun a' ha' => ?_) (fun x hx => ES.other _ x ?_) rfl ?_ ?_ (by rw [hs]; rfl)) hA
    · rw [stream_eq_of_get? ha'] at hq
      have hk := (Store.get?_key ha').symm
      exact ⟨rfl, rfl, fun h => h, by simp [setSendF, sendEff, hq, hk], rfl, by simp [sideOk, hq]⟩
    · simp only [Lbl.key?]; intro e; exact hx (Option.some.inj e).symm
    · intro l' j e hj; cases e; exact (Option.some.inj hj).symm
    · intro j e; cases e

/-- the part of the DATA arm of `pop_frame` after the frame was taken off the queue: windows charged -/
def pfDataTail (sd : Stream → Nat → Nat → Stream × List String × Bool) (s : Streams) (id len : Nat) : Streams :=
  let (st', w, bad) := sd (s.stream id) len s.prio.maxBufferSize
  let s := (s.setStream st').wake w
  let s := if bad then s.panic "assertion failed: self.window_size.0 >= sz as i32 (stream)" else s
  let s := s.modPrio fun p => { p with flow := (p.flow.assignCapacity len).1 }
  let (fl, r) := s.prio.flow.sendData len
  let s := s.modPrio fun p => { p with flow := fl }
  match r with
  | .error .assertFailed => s.panic "assertion failed: self.window_size.0 >= sz as i32 (connection)"
  | _ => s

theorem pfData_eq (sd : Stream → Nat → Nat → Stream × List String × Bool) (s : Streams) (id len : Nat) (rest : List SFrame) :
    pfData sd s id len rest = pfDataTail sd (s.modStream id (setSendF rest)) id len := rfl

section
variable {P : Perm} {s0 s : Streams}

theorem pfDataTail_acc (sd : Stream → Nat → Nat → Stream × List String × Bool)
    (hsd : ∀ a len m, ∃ b w f, sd a len m = (b, w, f) ∧ Quiet a b) (k len : Nat)
    (h : Tr P s0 s) : Tr P s0 (pfDataTail sd s k len) := by
  unfold pfDataTail
  obtain ⟨b, w, f, hb, hs⟩ := hsd (s.stream k) len s.prio.maxBufferSize
  simp only [hb]
  clear hsd hb
  fid_grind
end

/-- the DATA frame handed out and the last frame recorded as emitted for its stream -/
def DataLast (g : Ghost) (m : Nat) (r : Option Streams.OutFrame) : Prop :=
  ∀ len fe fr, r = some (.data len fe fr) →
    ∃ E0, g.emi fr.key = E0 ++ [.data (len + fr.rest) fr.eos] ∧ fe = (if fr.rest > 0 then false else fr.eos) ∧ len ≤ m

/-- a HEADERS / PUSH_PROMISE frame handed out is the last frame recorded as emitted for (some entry =) its stream -/
def HeadLast (g : Ghost) (r : Option Streams.OutFrame) : Prop :=
  (∀ sid e fl, r = some (.headers sid e fl) → ∃ k E0, g.emi k = E0 ++ [.headers e fl]) ∧
  (∀ sid pid fl, r = some (.pushPromise sid pid fl) → ∃ k pk E0, g.emi k = E0 ++ [.pushPromise pk pid fl])

def OutLast (g : Ghost) (m : Nat) (r : Option Streams.OutFrame) : Prop := DataLast g m r ∧ HeadLast g r

theorem outLast_none (g : Ghost) (m : Nat) : OutLast g m none :=
  ⟨(by intro _ _ _ h; cases h), (by intro _ _ _ h; cases h), (by intro _ _ _ h; cases h)⟩
theorem outLast_reset (g : Ghost) (m sid : Nat) (r : Reason) : OutLast g m (some (.reset sid r)) :=
  ⟨(by intro _ _ _ h; cases h), (by intro _ _ _ h; cases h), (by intro _ _ _ h; cases h)⟩
theorem headLast_data (g : Ghost) (len : Nat) (fe : Bool) (fr : DataFrame) : HeadLast g (some (.data len fe fr)) :=
  ⟨(by intro _ _ _ h; cases h), (by intro _ _ _ h; cases h)⟩

/-- the queued frame `F` and the `OutFrame` it becomes -/
def FrameOK (F : SFrame) (f : Streams.OutFrame) : Prop :=
  match f with
  | .headers _ e fl => F = .headers e fl
  | .pushPromise _ pid fl => ∃ pk, F = .pushPromise pk pid fl
  | .reset _ r => F = .reset r
  | .data _ _ _ => False

theorem usizeAsU32_le (x : Nat) : usizeAsU32 x ≤ x := Nat.mod_le _ _

theorem popFrameC_last2 (sd : Stream → Nat → Nat → Stream × List String × Bool)
    (hsd : ∀ a len m, ∃ b w f, sd a len m = (b, w, f) ∧ Quiet a b) (n m : Nat) (s : Streams) (g : Ghost) :
    ∃ g', Run permPop s g (popFrameC sd n s m).1 g' ∧ OutLast g' m (popFrameC sd n s m).2 := by
  have hgone : permPop.gone := trivial
  have hgp : permPost.gone := trivial
  have hcut : CutAll permPop := fun _ => trivial
  induction n generalizing s g with
  | zero => rw [popFrameC_zero]; exact ⟨g, .refl _ _, outLast_none _ _⟩
  | succ n ih =>
    rw [popFrameC_succ]
    fid_fold
    have hq0 := qPop_acc (P := permPop) hgone .pendingSend (Tr.refl permPop s)
    split
    · next s1 heq =>
      rw [heq] at hq0
      obtain ⟨g1, r1⟩ := hq0.run g
      exact ⟨g1, r1, outLast_none _ _⟩
    · next s1 id heq =>
      rw [heq] at hq0
      obtain ⟨g1, r1⟩ := hq0.run g
      try simp only
      clear heq hq0
      -- continue with the loop from a state reached by permitted steps
      have cont : ∀ s2, Tr permPop s1 s2 →
          ∃ g', Run permPop s g (popFrameC sd n s2 m).1 g' ∧ OutLast g' m (popFrameC sd n s2 m).2 := by
        intro s2 t
        obtain ⟨g2, r2⟩ := t.run g1
        obtain ⟨g', r', d'⟩ := ih s2 g2
        exact ⟨g', (r1.trans r2).trans r', d'⟩
      -- a frame that is not DATA taken off the queue and handed out
      have emit : ∀ (F : SFrame) (rest : List SFrame) (f : Streams.OutFrame) (b : Bool) (s3 : Streams),
          (s1.stream id).pendingSend = F :: rest → Tr permPost (s1.modStream id (setSendF rest)) s3 →
          FrameOK F f →
          ∃ g', Run permPop s g (pfFinish id b s3 f).1 g' ∧ OutLast g' m (pfFinish id b s3 f).2 := by
        intro F rest f b s3 hps t hF
        have rp := pop_run (P := permPop) s1 g1 id F rest hps trivial
        obtain ⟨g3, r3⟩ := (pfFinish_acc (P := permPost) hgp id b f t).run (gstep s1 (.pop id F) g1)
        have hemi := r3.emi_eq (fun h => h)
        have hres : (pfFinish id b s3 f).2 = some f := rfl
        refine ⟨g3, (r1.trans rp).trans (r3.mono permPost_le), ?_, ?_, ?_⟩
        · intro len fe fr h
          rw [hres] at h; cases Option.some.inj h
          exact absurd hF (fun h' => h')
        · intro sid e fl h
          rw [hres] at h; cases Option.some.inj h
          have hF' : F = .headers e fl := hF
          subst hF'
          exact ⟨id, g1.emi id, by rw [hemi]; simp [gstep, isMsg]⟩
        · intro sid pid fl h
          rw [hres] at h; cases Option.some.inj h
          obtain ⟨pk, hF'⟩ : ∃ pk, F = .pushPromise pk pid fl := hF
          subst hF'
          exact ⟨id, pk, g1.emi id, by rw [hemi]; simp [gstep, isMsg]⟩
      split
      · next sz eos rest hps =>
        -- the arm without discard
        have nodiscard : ∃ g', Run permPop s g
            (if (decide (sz > 0) && (s1.stream id).sendFlow.available.eqUsize 0) = true then popFrameC sd n s1 m
             else if (decide (usizeAsU32 (min (min sz m) (s1.stream id).sendFlow.available.asSize) > 0) &&
                      decide (usizeAsU32 (min (min sz m) (s1.stream id).sendFlow.available.asSize) >
                        (s1.stream id).sendFlow.windowSz)) = true then popFrameC sd n s1 m
             else pfFinish id (s1.stream id).isPendingResetExpiration
                  (pfData sd s1 id (usizeAsU32 (min (min sz m) (s1.stream id).sendFlow.available.asSize)) rest)
                  (.data (usizeAsU32 (min (min sz m) (s1.stream id).sendFlow.available.asSize))
                    (if sz > usizeAsU32 (min (min sz m) (s1.stream id).sendFlow.available.asSize) then false else eos)
                    { key := id, sid := (s1.stream id).id,
                      rest := sz - usizeAsU32 (min (min sz m) (s1.stream id).sendFlow.available.asSize), eos := eos })).1 g' ∧
            OutLast g' m
            (if (decide (sz > 0) && (s1.stream id).sendFlow.available.eqUsize 0) = true then popFrameC sd n s1 m
             else if (decide (usizeAsU32 (min (min sz m) (s1.stream id).sendFlow.available.asSize) > 0) &&
                      decide (usizeAsU32 (min (min sz m) (s1.stream id).sendFlow.available.asSize) >
                        (s1.stream id).sendFlow.windowSz)) = true then popFrameC sd n s1 m
             else pfFinish id (s1.stream id).isPendingResetExpiration
                  (pfData sd s1 id (usizeAsU32 (min (min sz m) (s1.stream id).sendFlow.available.asSize)) rest)
                  (.data (usizeAsU32 (min (min sz m) (s1.stream id).sendFlow.available.asSize))
                    (if sz > usizeAsU32 (min (min sz m) (s1.stream id).sendFlow.available.asSize) then false else eos)
                    { key := id, sid := (s1.stream id).id,
                      rest := sz - usizeAsU32 (min (min sz m) (s1.stream id).sendFlow.available.asSize), eos := eos })).2 := by
          split
          · exact cont _ (Tr.refl _ _)
          · split
            · exact cont _ (Tr.refl _ _)
            · -- the chunk is cut
              rw [pfData_eq]
              have rp := pop_run (P := permPop) s1 g1 id (.data sz eos) rest hps trivial
              have t3 : Tr permPost (s1.modStream id (setSendF rest))
                  (pfFinish id (s1.stream id).isPendingResetExpiration
                    (pfDataTail sd (s1.modStream id (setSendF rest)) id
                      (usizeAsU32 (min (min sz m) (s1.stream id).sendFlow.available.asSize)))
                    (.data (usizeAsU32 (min (min sz m) (s1.stream id).sendFlow.available.asSize))
                      (if sz > usizeAsU32 (min (min sz m) (s1.stream id).sendFlow.available.asSize) then false else eos)
                      { key := id, sid := (s1.stream id).id,
                        rest := sz - usizeAsU32 (min (min sz m) (s1.stream id).sendFlow.available.asSize), eos := eos })).1 :=
                pfFinish_acc (P := permPost) trivial _ _ _ (pfDataTail_acc sd hsd id _ (Tr.refl _ _))
              obtain ⟨g3, r3⟩ := t3.run (gstep s1 (.pop id (.data sz eos)) g1)
              have hemi := r3.emi_eq (fun h => h)
              have hres : ∀ (b : Bool) (s3 : Streams) (f : Streams.OutFrame), (pfFinish id b s3 f).2 = some f := fun _ _ _ => rfl
              refine ⟨g3, (r1.trans rp).trans (r3.mono permPost_le), ?_, by rw [hres]; exact headLast_data _ _ _ _⟩
              intro len fe fr h
              rw [hres] at h
              cases Option.some.inj h
              have hle : usizeAsU32 (min (min sz m) (s1.stream id).sendFlow.available.asSize) ≤ sz :=
                Nat.le_trans (usizeAsU32_le _) (Nat.le_trans (Nat.min_le_left _ _) (Nat.min_le_left _ _))
              have hlm : usizeAsU32 (min (min sz m) (s1.stream id).sendFlow.available.asSize) ≤ m :=
                Nat.le_trans (usizeAsU32_le _) (Nat.le_trans (Nat.min_le_left _ _) (Nat.min_le_right _ _))
              refine ⟨g1.emi id, ?_, ?_, hlm⟩
              · rw [hemi]
                simp only [gstep, isMsg, if_true, upd_same]
                congr 3
                omega
              · show (if sz > usizeAsU32 (min (min sz m) (s1.stream id).sendFlow.available.asSize) then false else eos) =
                  (if sz - usizeAsU32 (min (min sz m) (s1.stream id).sendFlow.available.asSize) > 0 then false else eos)
                by_cases hgt : sz > usizeAsU32 (min (min sz m) (s1.stream id).sendFlow.available.asSize)
                · rw [if_pos hgt, if_pos (by omega)]
                · rw [if_neg hgt, if_neg (by omega)]
        cases hgs : (s1.stream id).state.getScheduledReset with
        | none => simp only [Bool.false_eq_true, if_false]; exact nodiscard
        | some r =>
          simp only
          by_cases hd : (r != NO_ERROR) = true
          · simp only [hd, if_true]
            have hcl : ClosedAt s1 id := closedAt_of_scheduled hgs
            exact cont _ (qPush_acc hgone _ _ (reclaimAllCapacity_acc hgone _
              (clearQueue_acc id (hcut id) hcl (Tr.refl _ _))))
          · simp only [hd, if_false]; exact nodiscard
      · next heos fields rest hps =>
        exact emit _ rest (.headers (s1.stream id).id heos fields) _ _ hps (Tr.refl _ _) rfl
      · next reason rest hps =>
        exact emit _ rest (.reset (s1.stream id).id reason) _ _ hps (Tr.refl _ _) rfl
      · next pk pid fields rest hps =>
        have rp := pop_run (P := permPop) s1 g1 id (.pushPromise pk pid fields) rest hps trivial
        split
        · -- the promised stream is gone: the frame is dropped, the loop goes on
          have t2 : Tr permPop (s1.modStream id (setSendF rest))
              ((if (!((s1.modStream id (setSendF rest)).stream id).pendingSend.isEmpty ||
                    ((s1.modStream id (setSendF rest)).stream id).state.isScheduledReset) = true
                then ((s1.modStream id (setSendF rest)).qPush QName.pendingSend id).1
                else s1.modStream id (setSendF rest)).transitionAfter id (s1.stream id).isPendingResetExpiration) := by
            refine transitionAfter_acc hgone _ _ ?_
            split
            · exact qPush_acc hgone _ _ (Tr.refl _ _)
            · exact Tr.refl _ _
          obtain ⟨g2, r2⟩ := t2.run (gstep s1 (.pop id (.pushPromise pk pid fields)) g1)
          obtain ⟨g', r', d'⟩ := ih _ g2
          exact ⟨g', ((r1.trans rp).trans r2).trans r', d'⟩
        · next pushed hfk =>
          refine emit _ rest (.pushPromise (s1.stream id).id pid fields) _ _ hps ?_ ⟨pk, rfl⟩
          clear ih cont emit rp r1 hps
          have hg := hgp
          fid_grind
      · next hps =>
        split
        · next reason hgs =>
          -- the implicit reset of a scheduled stream: nothing is taken off any queue
          have t2 := pfFinish_acc (P := permPop) hgone id (s1.stream id).isPendingResetExpiration
            (.reset (s1.stream id).id reason)
            (modStreamW_acc id (fun st => st.setReset reason .library) (setReset_quiet _ _ _) (Tr.refl permPop s1))
          obtain ⟨g2, r2⟩ := t2.run g1
          exact ⟨g2, r1.trans r2, outLast_reset _ _ _ _⟩
        · exact cont _ (transitionAfter_acc hgone _ _ (Tr.refl _ _))

theorem popFrameC_last (sd : Stream → Nat → Nat → Stream × List String × Bool)
    (hsd : ∀ a len m, ∃ b w f, sd a len m = (b, w, f) ∧ Quiet a b) (n m : Nat) (s : Streams) (g : Ghost) :
    ∃ g', Run permPop s g (popFrameC sd n s m).1 g' ∧ DataLast g' m (popFrameC sd n s m).2 := by
  obtain ⟨g', r, d, _⟩ := popFrameC_last2 sd hsd n m s g
  exact ⟨g', r, d⟩

theorem popFrame_last (n m : Nat) (s : Streams) (g : Ghost) :
    ∃ g', Run permPop s g (Streams.popFrame n s m).1 g' ∧ DataLast g' m (Streams.popFrame n s m).2 := by
  rw [popFrameC.eq]; exact popFrameC_last _ sendData_quiet' n m s g

/-- **what `pop_frame` hands to the codec is what it took off the head of a queue**: the DATA chunk is cut from the last
    frame recorded as emitted for `frame.key`; a HEADERS / PUSH_PROMISE frame IS the last frame recorded for its stream -/
theorem popFrame_last2 (n m : Nat) (s : Streams) (g : Ghost) :
    ∃ g', Run permPop s g (Streams.popFrame n s m).1 g' ∧ OutLast g' m (Streams.popFrame n s m).2 := by
  rw [popFrameC.eq]; exact popFrameC_last2 _ sendData_quiet' n m s g

end H2V.Lemmas.ConnFidP
