import H2V.Lemmas.ConnFlowPCap
/-
  ConnFlowP, part 21 — the DATA that `buffer_pending` / `poll_complete` hand to the codec, as a log of
  the `pop_frame` calls they make, and what that does to the connection window:

      window after = window before − Σ (lengths of the DATA frames popped)

  `loopLog` / `pollLog` mirror the control flow of `prioBufferPendingLoop` / `pollComplete` and
  record every `pop_frame` call (state before, `max_len`, fuel); the theorems below tie the log to
  the model functions themselves: every logged call starts in a state satisfying the invariant (so
  `popFrame_spec` applies to it) and the logged DATA accounts for the whole change of the window.
-/
namespace H2V.Lemmas.ConnFlowP
open H2V H2V.Model H2V.Model.Conn H2V.Lemmas.Comp

/-- one call of `pop_frame` -/
structure PopCall where
  pre : Streams
  maxLen : Nat
  fuel : Nat

/-- what the call returned -/
def PopCall.out (c : PopCall) : Streams × Option Streams.OutFrame := Streams.popFrame c.fuel c.pre c.maxLen

/-- flow-controlled octets of a popped frame -/
def dataLen : Option Streams.OutFrame → Nat
  | some (.data len _ _) => len
  | _ => 0

/-- DATA octets popped by a list of calls -/
def sentIn : List PopCall → Nat
  | [] => 0
  | c :: l => dataLen c.out.2 + sentIn l

theorem sentIn_append (a b : List PopCall) : sentIn (a ++ b) = sentIn a + sentIn b := by
  induction a with
  | nil => simp [sentIn]
  | cons c l ih => simp only [List.cons_append, sentIn, ih]; omega

/-- the `pop_frame` calls of `Prioritize::buffer_pending`'s loop -/
def loopLog : Nat → Streams → Writer → List PopCall
  | 0, _, _ => []
  | fuel + 1, s, w =>
    if !w.hasCapacity then []
    else
      let s := match s.popPendingOpen with
        | (s, some id) => ((s.qPushFront .pendingSend id).1).tryAssignCapacity id
        | (s, none) => s
      match Streams.popFrame (Streams.popFrameFuel s) s w.maxFrameSize with
      | (s', some f) =>
        let (s', w') := s'.bufferOut w f
        let (s', w', _) := s'.reclaimFrame w'
        { pre := s, maxLen := w.maxFrameSize, fuel := Streams.popFrameFuel s } :: loopLog fuel s' w'
      | (_, none) => [{ pre := s, maxLen := w.maxFrameSize, fuel := Streams.popFrameFuel s }]

/-- `pop_frame` charges the connection window exactly the DATA it returns -/
theorem popFrame_window {s : Streams} (h : SafeInv s) (fuel maxLen : Nat) :
    (Streams.popFrame fuel s maxLen).1.prio.flow.windowSize.val =
      s.prio.flow.windowSize.val - dataLen (Streams.popFrame fuel s maxLen).2 := by
  have hspec := popFrame_spec h fuel maxLen
  unfold PopRel at hspec
  split at hspec
  · rename_i len e fr heq
    obtain ⟨s1, hw, _, _, hch⟩ := hspec
    rw [heq, hch.conn_window, hw.1]; rfl
  · rename_i hne
    rw [hspec.1]
    have : dataLen (Streams.popFrame fuel s maxLen).2 = 0 := by
      unfold dataLen
      split
      · rename_i heq; exact absurd heq (hne _ _ _)
      · rfl
    rw [this]; simp

/-- what `buffer_pending`'s loop does before it calls `pop_frame` -/
def loopPre (s : Streams) : Streams :=
  match s.popPendingOpen with
  | (s, some id) => ((s.qPushFront .pendingSend id).1).tryAssignCapacity id
  | (s, none) => s

theorem loopPre_wfr (s : Streams) : WFr s (loopPre s) := by
  unfold loopPre; wfr_auto

theorem loopPre_safe {s : Streams} (h : SafeInv s) : SafeInv (loopPre s) := by
  unfold loopPre; safe_auto

/-- what it does with a popped frame -/
def loopPost (s : Streams) (w : Writer) (f : Streams.OutFrame) : Streams × Writer :=
  let (s', w') := s.bufferOut w f
  let (s', w', _) := s'.reclaimFrame w'
  (s', w')

theorem loopPost_fr (s : Streams) (w : Writer) (f : Streams.OutFrame) : Fr s (loopPost s w f).1 := by
  unfold loopPost; dsimp only; fr_auto

theorem loop_eq (fuel : Nat) (s : Streams) (w : Writer) :
    Streams.prioBufferPendingLoop (fuel + 1) s w =
      if !w.hasCapacity then (s, w, .codecFull)
      else match Streams.popFrame (Streams.popFrameFuel (loopPre s)) (loopPre s) w.maxFrameSize with
        | (s', some f) => Streams.prioBufferPendingLoop fuel (loopPost s' w f).1 (loopPost s' w f).2
        | (s', none) => (s', w, .complete) := by
  rw [Streams.prioBufferPendingLoop]
  rfl

theorem loopLog_eq (fuel : Nat) (s : Streams) (w : Writer) :
    loopLog (fuel + 1) s w =
      if !w.hasCapacity then []
      else match Streams.popFrame (Streams.popFrameFuel (loopPre s)) (loopPre s) w.maxFrameSize with
        | (s', some f) =>
          { pre := loopPre s, maxLen := w.maxFrameSize, fuel := Streams.popFrameFuel (loopPre s) } ::
            loopLog fuel (loopPost s' w f).1 (loopPost s' w f).2
        | (_, none) => [{ pre := loopPre s, maxLen := w.maxFrameSize, fuel := Streams.popFrameFuel (loopPre s) }] := by
  rw [loopLog]
  rfl

/-- **the loop of `buffer_pending`**: every `pop_frame` call it makes starts from a state satisfying
    the invariant, and the connection window goes down by exactly the DATA popped -/
theorem loop_log (fuel : Nat) : ∀ {s : Streams} (w : Writer), SafeInv s →
    (∀ c ∈ loopLog fuel s w, SafeInv c.pre) ∧
    (Streams.prioBufferPendingLoop fuel s w).1.prio.flow.windowSize.val =
      s.prio.flow.windowSize.val - sentIn (loopLog fuel s w) := by
  induction fuel with
  | zero =>
    intro s w h
    refine ⟨fun c hc => (by cases hc), ?_⟩
    show (s.panic _).prio.flow.windowSize.val = _
    rw [panic_prio]; simp [loopLog, sentIn]
  | succ n ih =>
    intro s w h
    rw [loop_eq, loopLog_eq]
    have hpre := loopPre_safe h
    have hw := (loopPre_wfr s).1
    have hpop := popFrame_window hpre (Streams.popFrameFuel (loopPre s)) w.maxFrameSize
    have hsafe := hpre.popFrame (Streams.popFrameFuel (loopPre s)) w.maxFrameSize
    split
    · exact ⟨fun c hc => (by cases hc), (by simp [sentIn])⟩
    · split
      · rename_i s' f heq
        rw [heq] at hpop hsafe
        have hfr := loopPost_fr s' w f
        have hs2 : SafeInv (loopPost s' w f).1 := hsafe.fr hfr
        obtain ⟨ih1, ih2⟩ := ih (loopPost s' w f).2 hs2
        refine ⟨fun c hc => ?_, ?_⟩
        · rcases List.mem_cons.1 hc with rfl | hc
          · exact hpre
          · exact ih1 c hc
        · rw [ih2, hfr.1]
          simp only [sentIn, PopCall.out, heq]
          rw [hpop, hw]
          simp only [dataLen] at *
          omega
      · rename_i s' heq
        rw [heq] at hpop
        refine ⟨fun c hc => ?_, ?_⟩
        · simp only [List.mem_singleton] at hc; subst hc; exact hpre
        · show s'.prio.flow.windowSize.val = _
          simp only [sentIn, PopCall.out, heq]
          rw [hpop, hw]
          simp [dataLen]

/-- the `pop_frame` calls of `Streams::poll_complete` -/
def pollLog : Nat → Streams → Writer → Tio → String → List PopCall
  | 0, _, _, _, _ => []
  | fuel + 1, s, w, io, tag =>
    match pollReadyW w io tag with
    | (w, io, .ready) =>
      match s.recvBufferPending w with
      | (s, w, .codecFull) => pollLog fuel s w io tag
      | (s, w, .complete) =>
        let log := loopLog (fuel + 1) (s.reclaimFrame w).1 (s.reclaimFrame w).2.1
        let r := Streams.prioBufferPendingLoop (fuel + 1) (s.reclaimFrame w).1 (s.reclaimFrame w).2.1
        match r.2.2 with
        | .codecFull => log ++ pollLog fuel r.1 r.2.1 io tag
        | .complete =>
          let s := { r.1 with actions := { r.1.actions with task := some tag } }
          match flush r.2.1 io tag with
          | (w, io, .ready) =>
            if !(s.reclaimFrame w).2.2 then log
            else log ++ pollLog fuel (s.reclaimFrame w).1 (s.reclaimFrame w).2.1 io tag
          | _ => log
    | _ => []

theorem pollComplete_eq (fuel : Nat) (s : Streams) (w : Writer) (io : Tio) (tag : String) :
    Streams.pollComplete (fuel + 1) s w io tag =
      match pollReadyW w io tag with
      | (w, io, .ready) =>
        match s.recvBufferPending w with
        | (s, w, .codecFull) => Streams.pollComplete fuel s w io tag
        | (s, w, .complete) =>
          let r := Streams.prioBufferPendingLoop (fuel + 1) (s.reclaimFrame w).1 (s.reclaimFrame w).2.1
          match r.2.2 with
          | .codecFull => Streams.pollComplete fuel r.1 r.2.1 io tag
          | .complete =>
            let s := { r.1 with actions := { r.1.actions with task := some tag } }
            match flush r.2.1 io tag with
            | (w, io, .ready) =>
              if !(s.reclaimFrame w).2.2 then ((s.reclaimFrame w).1, (s.reclaimFrame w).2.1, io, .ready)
              else Streams.pollComplete fuel (s.reclaimFrame w).1 (s.reclaimFrame w).2.1 io tag
            | (w, io, r') => (s, w, io, r')
      | (w, io, r) => (s, w, io, r) := by
  rw [Streams.pollComplete]
  unfold Streams.bufferPending Streams.prioBufferPending
  generalize pollReadyW w io tag = p
  obtain ⟨w', io', r'⟩ := p
  cases r' <;> dsimp only
  generalize s.recvBufferPending w' = q
  obtain ⟨s1, w1, st⟩ := q
  cases st <;> dsimp only
  all_goals first
    | rfl
    | (cases hr : (Streams.prioBufferPendingLoop (fuel + 1) (s1.reclaimFrame w1).1 (s1.reclaimFrame w1).2.1).2.2 <;>
        simp only [hr] <;> rfl)

/-- **`poll_complete`**: every `pop_frame` call it makes starts from a state satisfying the invariant,
    and the connection window goes down by exactly the DATA popped -/
theorem poll_log (fuel : Nat) : ∀ {s : Streams} (w : Writer) (io : Tio) (tag : String), SafeInv s →
    (∀ c ∈ pollLog fuel s w io tag, SafeInv c.pre) ∧
    (Streams.pollComplete fuel s w io tag).1.prio.flow.windowSize.val =
      s.prio.flow.windowSize.val - sentIn (pollLog fuel s w io tag) := by
  induction fuel with
  | zero =>
    intro s w io tag h
    refine ⟨fun c hc => (by cases hc), ?_⟩
    show (s.panic _).prio.flow.windowSize.val = _
    rw [panic_prio]; simp [pollLog, sentIn]
  | succ n ih =>
    intro s w io tag h
    rw [pollComplete_eq]
    rw [pollLog]
    generalize pollReadyW w io tag = p
    obtain ⟨w', io', r'⟩ := p
    cases r' <;> dsimp only
    case pending => exact ⟨fun c hc => (by cases hc), (by simp [sentIn])⟩
    case err => exact ⟨fun c hc => (by cases hc), (by simp [sentIn])⟩
    generalize hq : s.recvBufferPending w' = q
    obtain ⟨s1, w1, st⟩ := q
    have hfr : Fr s s1 := Fr.of_fst_eq hq ((Fr.refl s).recvBufferPending _)
    cases st <;> dsimp only
    case codecFull =>
      obtain ⟨i1, i2⟩ := ih w1 io' tag (h.fr hfr)
      exact ⟨i1, by rw [i2, hfr.1]⟩
    have hfr2 : Fr s (s1.reclaimFrame w1).1 := hfr.reclaimFrame _
    have hs2 := h.fr hfr2
    obtain ⟨l1, l2⟩ := loop_log (n + 1) (s1.reclaimFrame w1).2.1 hs2
    have hsr := SafeInv.prioBufferPendingLoop (n + 1) hs2 (s1.reclaimFrame w1).2.1
    rw [hfr2.1] at l2
    generalize Streams.prioBufferPendingLoop (n + 1) (s1.reclaimFrame w1).1 (s1.reclaimFrame w1).2.1 = r at l2 hsr ⊢
    obtain ⟨s2, w2, st2⟩ := r
    cases st2 <;> dsimp only at l2 hsr ⊢
    case codecFull =>
      obtain ⟨i1, i2⟩ := ih w2 io' tag hsr
      refine ⟨fun c hc => ?_, ?_⟩
      · rcases List.mem_append.1 hc with hc | hc
        · exact l1 c hc
        · exact i1 c hc
      · rw [i2, l2, sentIn_append]; omega
    have hst : SafeInv { s2 with actions := { s2.actions with task := some tag } } := hsr.fr ((Fr.refl _).withTask _)
    generalize flush w2 io' tag = fl
    obtain ⟨w3, io3, r3⟩ := fl
    cases r3 <;> dsimp only
    case pending => exact ⟨l1, l2⟩
    case err => exact ⟨l1, l2⟩
    have hfr3 := (Fr.refl { s2 with actions := { s2.actions with task := some tag } }).reclaimFrame w3
    split
    · refine ⟨l1, ?_⟩
      rw [hfr3.1]; exact l2
    · obtain ⟨i1, i2⟩ := ih (Streams.reclaimFrame { s2 with actions := { s2.actions with task := some tag } } w3).2.1
        io3 tag (hst.fr hfr3)
      refine ⟨fun c hc => ?_, ?_⟩
      · rcases List.mem_append.1 hc with hc | hc
        · exact l1 c hc
        · exact i1 c hc
      · rw [i2, hfr3.1, sentIn_append]
        show s2.prio.flow.windowSize.val - _ = _
        rw [l2]; dsimp only; omega

end H2V.Lemmas.ConnFlowP
