import H2V.Lemmas.ConnNoPanicPDsBase
/-
  C08 (no panic) — `DSum` / `Coupled` as invariants of the stream layer, part 2: the relation `GK`
  (`clear_queue` and everything that calls it), `GKo` (the same under the hypothesis `OH`), their peeling tactics.
-/
namespace H2V.Lemmas.ConnNoPanicP
open H2V H2V.Model H2V.Model.Conn H2V.Lemmas.ConnCountsP
attribute [local irreducible] wrapSubU32 wrapSubUsize

-- ===================================================================== `GK`

structure GK (s s' : Streams) : Prop where
  nf : InflLE s.prio.inFlightDataFrame s'.prio.inFlightDataFrame
  ds : ∀ j, DS (s.stream j) → DS (s'.stream j)
  cov : ∀ j r, 0 < r → s'.prio.inFlightDataFrame = .dataFrame j → DSr r (s.stream j) →
    DSr r (s'.stream j) ∧ (Live s j → Live s' j)

theorem inflLE_back {a b : InFlightData} (h : InflLE a b) {j : Nat} (hb : b = .dataFrame j) : a = .dataFrame j := by
  rcases h with e | ⟨e, _⟩
  · rw [← e]; exact hb
  · rw [e] at hb; cases hb

theorem GK.refl (s : Streams) : GK s s := ⟨.inl rfl, fun _ h => h, fun _ _ _ _ h => ⟨h, id⟩⟩
theorem GK.trans {a b c : Streams} (h1 : GK a b) (h2 : GK b c) : GK a c :=
  ⟨h1.nf.trans h2.nf, fun j h => h2.ds j (h1.ds j h), fun j r hr hm hd =>
    have r1 := h1.cov j r hr (inflLE_back h2.nf hm) hd
    have r2 := h2.cov j r hr hm r1.1
    ⟨r2.1, fun hl => r2.2 (r1.2 hl)⟩⟩
theorem GK.of_fst_eq {s : Streams} {α : Type} {p : Streams × α} {a : Streams} {x : α}
    (h : p = (a, x)) (e : GK s p.1) : GK s a := by subst h; exact e
theorem UK.toGK {s s' : Streams} (h : UK s s') : GK s s' :=
  ⟨.inl h.nf, fun j hd => (ds_iff _).mpr ((h.kp j).ds 0 ((ds_iff _).mp hd)),
   fun j r hr _ hd => ⟨(h.kp j).ds r hd, h.lv j r hr hd⟩⟩
theorem GK.dsum {s s' : Streams} (h : GK s s') (hd : DSum s) : DSum s' := fun k => h.ds k (hd k)
theorem panic_gk (s : Streams) (m : String) : GK s (s.panic m) := (panic_uk s m).toGK
theorem gk_relOK : RelOK GK := ⟨GK.refl, GK.trans, panic_gk⟩

/-- a stream update that need not keep `OHead`, judged on the entry it is applied to -/
theorem modStream_gk' (s : Streams) (k : Nat) (f : Stream → Stream) (hk : ∀ x, (f x).key = x.key)
    (hds : DS (s.stream k) → DS (f (s.stream k)))
    (hcov : ∀ r, 0 < r → DSr r (s.stream k) → DSr r (f (s.stream k))) : GK s (s.modStream k f) := by
  refine ⟨.inl (by rw [modStream_prio]), (modStream_dk' s k f hk hds).ds, fun j r hr _ hd => ?_⟩
  refine ⟨?_, fun hl => (SameKeys.modStream s k f).live.mpr hl⟩
  by_cases hj : j = k
  · subst hj
    by_cases hl : Live s j
    · rw [stream_modStream_live hl f hk]; exact hcov r hr hd
    · have : s.store.get? j = none := by
        cases h : s.store.get? j with
        | none => rfl
        | some x => exact absurd ⟨x, h⟩ hl
      unfold Streams.modStream; rw [this, panic_stream]; exact hd
  · rw [ConnFlowP.stream_modStream_other f hk hj]; exact hd

/-- `clear_queue`: the entry is emptied, and if the marker named it the marker becomes `Drop` -/
theorem clearQueue_gk (s : Streams) (k : Nat) : GK s (s.clearQueue k) := by
  refine ⟨(clearQueue_fk s k).nf, (clearQueue_dk s k).ds, fun j r hr hm hd => ?_⟩
  unfold Streams.clearQueue at hm ⊢
  dsimp only at hm ⊢
  generalize hs1 : Streams.modStream s k _ = s1 at hm ⊢
  have hp1 : s1.prio = s.prio := by rw [← hs1, modStream_prio]
  have hjk : j ≠ k ∧ s1.prio.inFlightDataFrame = .dataFrame j := by
    cases hin : s1.prio.inFlightDataFrame with
    | nothing => rw [hin] at hm; dsimp only at hm; rw [hin] at hm; cases hm
    | drop => rw [hin] at hm; dsimp only at hm; rw [hin] at hm; cases hm
    | dataFrame k' =>
      rw [hin] at hm
      dsimp only at hm
      split at hm
      · cases hm
      · next hne => rw [hin] at hm; cases hm; exact ⟨hne, rfl⟩
  have hst : ∀ t : Streams, t.store = s1.store → t.stream j = s.stream j ∧ (Live s j → Live t j) := by
    intro t ht
    refine ⟨?_, fun hl => ?_⟩
    · rw [stream_of_store_eqP ht, ← hs1]; exact ConnFlowP.stream_modStream_other _ (fun _ => rfl) hjk.1
    · unfold Live; rw [ht, ← hs1]; exact (SameKeys.modStream s k _).live.mpr hl
  have : ∀ t : Streams, t.store = s1.store → DSr r (t.stream j) ∧ (Live s j → Live t j) := fun t ht =>
    ⟨by rw [(hst t ht).1]; exact hd, (hst t ht).2⟩
  split
  · split
    · exact this _ rfl
    · exact this _ rfl
  · exact this _ rfl

theorem clearQueue_self (s : Streams) (k : Nat) :
    ((s.clearQueue k).stream k).pendingSend = [] ∧ ((s.clearQueue k).stream k).bufferedSendData = 0 := by
  have h1 : ∀ t : Streams, t.store = (s.modStream k fun st =>
      { st with pendingSend := [], bufferedSendData := 0, requestedSendCapacity := 0 }).store →
      (t.stream k).pendingSend = [] ∧ (t.stream k).bufferedSendData = 0 := by
    intro t ht
    rw [stream_of_store_eqP ht]
    by_cases hl : Live s k
    · have := stream_modStream_live hl (fun st =>
        ({ st with pendingSend := [], bufferedSendData := 0, requestedSendCapacity := 0 } : Stream)) (fun _ => rfl)
      rw [this]; exact ⟨rfl, rfl⟩
    · have : s.store.get? k = none := by
        cases h : s.store.get? k with
        | none => rfl
        | some x => exact absurd ⟨x, h⟩ hl
      unfold Streams.modStream; rw [this, panic_stream]
      unfold Streams.stream; rw [this]; exact ⟨rfl, rfl⟩
  unfold Streams.clearQueue
  dsimp only
  split
  · split
    · exact h1 _ rfl
    · exact h1 _ rfl
  · exact h1 _ rfl

-- ------------------------------------------------------------------ the peeling tactic for `GK`

elab "gk_head" : tactic => do
  relHead2 ``GK "_gk" (some ("_uk", ``UK.toGK)) (← `(tactic| first
    | with_reducible refine GK.trans ?_ (UK.toGK (setMisc_uk _ _ _ _ _ _ rfl))
    | with_reducible refine GK.trans ?_ (UK.toGK (setCounts_uk _ _))
    | with_reducible refine GK.trans ?_ (UK.toGK (insertNew_uk _ _ _ _))))

syntax "gk_step" : tactic
macro_rules | `(tactic| gk_step) => `(tactic| gk_head)
macro_rules | `(tactic| gk_step) => `(tactic| with_reducible refine GK.of_fst_eq (by with_reducible assumption) ?_)
macro_rules | `(tactic| gk_step) => `(tactic| with_reducible assumption)
macro_rules | `(tactic| gk_step) => `(tactic| with_reducible exact GK.refl _)

macro "gk_auto" : tactic => `(tactic| repeat (first | gk_step | uk_side | intro _ | split | dsimp only))
macro "gk_auto_ih" ih:ident : tactic =>
  `(tactic| repeat (first | gk_step | with_reducible refine GK.trans ?_ ($ih ..) | uk_side | intro _ | split | dsimp only))

theorem transitionAfter_gk (s : Streams) (k : Nat) (b : Bool) : GK s (s.transitionAfter k b) := (transitionAfter_uk s k b).toGK
theorem transition_gk {α : Type} (s : Streams) (k : Nat) (f : Streams → Streams × α) (hf : ∀ s, GK s (f s).1) :
    GK s (s.transition k f).1 := by
  have : (s.transition k f).1 = (f s).1.transitionAfter k (s.stream k).isPendingResetExpiration := by
    unfold Streams.transition; rfl
  rw [this]
  exact (hf s).trans (transitionAfter_gk _ _ _)
theorem tryForEach_gk (f : Streams → Nat → Streams × Option PErr) (hf : ∀ s k, GK s (f s k).1) (fuel i len : Nat) (s : Streams) :
    GK s (Streams.tryForEach f fuel i len s).1 := tryForEach_rel gk_relOK f hf fuel i len s
theorem storeTryForEach_gk (s : Streams) (f : Streams → Nat → Streams × Option PErr) (hf : ∀ s k, GK s (f s k).1) :
    GK s (s.storeTryForEach f).1 := tryForEach_gk f hf _ _ _ s
theorem storeForEach_gk (s : Streams) (f : Streams → Nat → Streams) (hf : ∀ s k, GK s (f s k)) :
    GK s (s.storeForEach f) := storeTryForEach_gk s _ (fun s k => hf s k)
theorem tryForEachAcc_gk (f : Nat → Streams → Nat → Streams × Nat × Option PErr) (hf : ∀ a s k, GK s (f a s k).1)
    (fuel i len acc : Nat) (s : Streams) : GK s (Streams.tryForEachAcc f fuel i len acc s).1 :=
  tryForEachAcc_rel gk_relOK f hf fuel i len acc s
theorem foldl_gk {α : Type} (f : Streams → α → Streams) (hf : ∀ s x, GK s (f s x)) (l : List α) (s : Streams) :
    GK s (l.foldl f s) := foldl_rel gk_relOK f hf l s


-- ===================================================================== under `OH`

/-- no stream that waits in `pending_open` has DATA at the front of its queue -/
def OH (s : Streams) : Prop := ∀ k, OHead (s.stream k)

theorem UK.oh {s s' : Streams} (h : UK s s') (ho : OH s) : OH s' := fun k => (h.kp k).oh (ho k)

/-- from a state with `OH`: `GK`, and `OH` again (`send_reset` and its callers) -/
structure GKo (s s' : Streams) : Prop where
  imp : OH s → GK s s' ∧ OH s'

theorem GKo.refl (s : Streams) : GKo s s := ⟨fun h => ⟨.refl _, h⟩⟩
theorem GKo.trans {a b c : Streams} (h1 : GKo a b) (h2 : GKo b c) : GKo a c :=
  ⟨fun h => ⟨(h1.imp h).1.trans (h2.imp (h1.imp h).2).1, (h2.imp (h1.imp h).2).2⟩⟩
theorem GKo.of_fst_eq {s : Streams} {α : Type} {p : Streams × α} {a : Streams} {x : α}
    (h : p = (a, x)) (e : GKo s p.1) : GKo s a := by subst h; exact e
theorem UK.toGKo {s s' : Streams} (h : UK s s') : GKo s s' := ⟨fun ho => ⟨h.toGK, h.oh ho⟩⟩
theorem panic_go (s : Streams) (m : String) : GKo s (s.panic m) := (panic_uk s m).toGKo
theorem go_relOK : RelOK GKo := ⟨GKo.refl, GKo.trans, panic_go⟩

elab "go_head" : tactic => do
  relHead2 ``GKo "_go" (some ("_uk", ``UK.toGKo)) (← `(tactic| first
    | with_reducible refine GKo.trans ?_ (UK.toGKo (setMisc_uk _ _ _ _ _ _ rfl))
    | with_reducible refine GKo.trans ?_ (UK.toGKo (setCounts_uk _ _))
    | with_reducible refine GKo.trans ?_ (UK.toGKo (insertNew_uk _ _ _ _))))

syntax "go_step" : tactic
macro_rules | `(tactic| go_step) => `(tactic| go_head)
macro_rules | `(tactic| go_step) => `(tactic| with_reducible refine GKo.of_fst_eq (by with_reducible assumption) ?_)
macro_rules | `(tactic| go_step) => `(tactic| with_reducible assumption)
macro_rules | `(tactic| go_step) => `(tactic| with_reducible exact GKo.refl _)

macro "go_auto" : tactic => `(tactic| repeat (first | go_step | uk_side | intro _ | split | dsimp only))
macro "go_auto_ih" ih:ident : tactic =>
  `(tactic| repeat (first | go_step | with_reducible refine GKo.trans ?_ ($ih ..) | uk_side | intro _ | split | dsimp only))

theorem transitionAfter_go (s : Streams) (k : Nat) (b : Bool) : GKo s (s.transitionAfter k b) := (transitionAfter_uk s k b).toGKo
theorem transition_go {α : Type} (s : Streams) (k : Nat) (f : Streams → Streams × α) (hf : ∀ s, GKo s (f s).1) :
    GKo s (s.transition k f).1 := by
  have : (s.transition k f).1 = (f s).1.transitionAfter k (s.stream k).isPendingResetExpiration := by
    unfold Streams.transition; rfl
  rw [this]
  exact (hf s).trans (transitionAfter_go _ _ _)
theorem tryForEach_go (f : Streams → Nat → Streams × Option PErr) (hf : ∀ s k, GKo s (f s k).1) (fuel i len : Nat) (s : Streams) :
    GKo s (Streams.tryForEach f fuel i len s).1 := tryForEach_rel go_relOK f hf fuel i len s
theorem storeTryForEach_go (s : Streams) (f : Streams → Nat → Streams × Option PErr) (hf : ∀ s k, GKo s (f s k).1) :
    GKo s (s.storeTryForEach f).1 := tryForEach_go f hf _ _ _ s
theorem storeForEach_go (s : Streams) (f : Streams → Nat → Streams) (hf : ∀ s k, GKo s (f s k)) :
    GKo s (s.storeForEach f) := storeTryForEach_go s _ (fun s k => hf s k)
theorem tryForEachAcc_go (f : Nat → Streams → Nat → Streams × Nat × Option PErr) (hf : ∀ a s k, GKo s (f a s k).1)
    (fuel i len acc : Nat) (s : Streams) : GKo s (Streams.tryForEachAcc f fuel i len acc s).1 :=
  tryForEachAcc_rel go_relOK f hf fuel i len acc s

end H2V.Lemmas.ConnNoPanicP
