import H2V.Lemmas.ConnDrainPSReach
/-
  ConnDrainP, part 11b — `poll_pushed` (added to the model after the `Reach` definitions of ConnFlowP, ConnCountsP and
  ConnRecvP were written, so none of them has a constructor for it): it keeps `SReach`.
-/
namespace H2V.Lemmas.ConnDrainP
open H2V H2V.Model H2V.Model.Conn
open H2V.Lemmas.ConnFlowP

theorem KInv.recvPollPushed {s : Streams} (h : KInv s) (id : Nat) (tag : String) : KInv (s.recvPollPushed id tag).1 := by
  k_by Streams.recvPollPushed
macro_rules | `(tactic| k_peel) => `(tactic| with_reducible apply KInv.recvPollPushed)

theorem KInv.refPollPushed {s : Streams} (h : KInv s) (id : Nat) (tag : String) : KInv (s.refPollPushed id tag).1 := by
  unfold Streams.refPollPushed
  have h1 := h.recvPollPushed id tag
  split
  · rename_i heq; rw [heq] at h1; exact KInv.cloneStreamRef h1 _
  · exact h1

end H2V.Lemmas.ConnDrainP

namespace H2V.Lemmas.ConnCountsP
open H2V H2V.Model H2V.Model.Conn
variable {ρ : Bool}

theorem drainP_recvPollPushed_ev (s : Streams) (id : Nat) (tag : String) : EvB ρ s (s.recvPollPushed id tag).1 := by
  unfold Streams.recvPollPushed
  split
  · rename_i child rest _
    dsimp only
    have e1 : EvB ρ s (s.modStream id fun st => { st with pendingPushPromises := rest }) :=
      modStream_ev' _ _ _ (by same_fields)
    have e2 := e1.trans (acceptFlag_ev (ρ := ρ) _ child false)
    split
    · exact e2.trans (modStream_ev' _ _ _ (by same_fields))
    · exact e2.trans (panic_ev _ _)
  · ev_auto

theorem drainP_refPollPushed_ev (s : Streams) (id : Nat) (tag : String) : EvB ρ s (s.refPollPushed id tag).1 := by
  unfold Streams.refPollPushed
  have h1 := @drainP_recvPollPushed_ev ρ s id tag
  split
  · rename_i heq; rw [heq] at h1; exact h1.trans (cloneStreamRef_ev _ _)
  · exact h1

end H2V.Lemmas.ConnCountsP

namespace H2V.Lemmas.ConnRecvP
open H2V H2V.Model H2V.Model.Conn

theorem drainP_recvPollPushed_ext (s : Streams) (id : Nat) (tag : String) : Ext s (s.recvPollPushed id tag).1 := by
  unfold Streams.recvPollPushed; ext_auto

theorem drainP_refPollPushed_ext (s : Streams) (id : Nat) (tag : String) : Ext s (s.refPollPushed id tag).1 := by
  unfold Streams.refPollPushed
  have h1 := drainP_recvPollPushed_ext s id tag
  split
  · rename_i heq; rw [heq] at h1; exact h1.trans (cloneStreamRef_ext _ _)
  · exact h1

end H2V.Lemmas.ConnRecvP

namespace H2V.Lemmas.ConnDrainP
open H2V H2V.Model H2V.Model.Conn

/-- `OpaqueStreamRef::poll_pushed` keeps the stream-layer invariants -/
theorem SReach.refPollPushed {s : Streams} (h : SReach s) (k : Nat) (t : String) : SReach (s.refPollPushed k t).1 :=
  h.of_ev (h.k.refPollPushed k t) (.ev (ConnCountsP.drainP_refPollPushed_ev s k t)) (ConnRecvP.drainP_refPollPushed_ext s k t)

end H2V.Lemmas.ConnDrainP
