import H2V.Lemmas.ConnCtlPTrace
import H2V.Lemmas.ConnCtlPErrKind
/-
  ConnCtlP, part 2 — C14: the acknowledgement ledger of one `Connection::poll2`.

  `owedS c` / `owedP c` = the SETTINGS frame / PING payload the connection still has to acknowledge
  (`settings.remote`, `ping_pong.pending_pong`: at most one each).  Over the events of any run of
  `poll2Loop`:   acks ++ owed(after) = owed(before) ++ received     (lists: order and values),
  both for SETTINGS and for PING.  The read of the next frame is gated by `poll_ready`, which
  returns `Ready` only with both slots empty — so the `assert!(self.remote.is_none())` /
  `assert!(self.pending_pong.is_none())` of the real code cannot fire and nothing is overwritten.
-/
set_option autoImplicit false
set_option linter.unusedSimpArgs false
namespace H2V.Lemmas.ConnCtlP
open H2V H2V.Model H2V.Model.Conn

-- ===================================================================== projections of the events

/-- the SETTINGS frames received, in order -/
def rxS (evs : List Ev) : List (List (Nat × Nat)) :=
  evs.filterMap fun | .rxSettings v => some v | _ => none
/-- the SETTINGS frames acknowledged (an ACK handed to the codec), in order -/
def ackS (evs : List Ev) : List (List (Nat × Nat)) :=
  evs.filterMap fun | .ackSettings v _ => some v | _ => none
/-- the PING payloads received, in order -/
def rxP (evs : List Ev) : List Bytes :=
  evs.filterMap fun | .rxPing p => some p | _ => none
/-- the PING payloads echoed (a PING ACK handed to the codec), in order -/
def pongP (evs : List Ev) : List Bytes :=
  evs.filterMap fun | .pong p => some p | _ => none
/-- the PING payloads taken out of `pending_pong`: echoed, or dropped on a transport error -/
def ansP (evs : List Ev) : List Bytes :=
  evs.filterMap fun | .pong p => some p | .pongLost p => some p | _ => none
/-- the GOAWAY frames handed to the codec, in order -/
def sentG (evs : List Ev) : List GoAwayFrame :=
  evs.filterMap fun | .goAwaySent f => some f | _ => none

@[simp] theorem rxS_append (a b : List Ev) : rxS (a ++ b) = rxS a ++ rxS b := by simp [rxS]
@[simp] theorem ackS_append (a b : List Ev) : ackS (a ++ b) = ackS a ++ ackS b := by simp [ackS]
@[simp] theorem rxP_append (a b : List Ev) : rxP (a ++ b) = rxP a ++ rxP b := by simp [rxP]
@[simp] theorem pongP_append (a b : List Ev) : pongP (a ++ b) = pongP a ++ pongP b := by simp [pongP]
@[simp] theorem ansP_append (a b : List Ev) : ansP (a ++ b) = ansP a ++ ansP b := by simp [ansP]
@[simp] theorem sentG_append (a b : List Ev) : sentG (a ++ b) = sentG a ++ sentG b := by simp [sentG]
@[simp] theorem rxS_nil : rxS [] = [] := rfl
@[simp] theorem ackS_nil : ackS [] = [] := rfl
@[simp] theorem rxP_nil : rxP [] = [] := rfl
@[simp] theorem pongP_nil : pongP [] = [] := rfl
@[simp] theorem ansP_nil : ansP [] = [] := rfl
@[simp] theorem sentG_nil : sentG [] = [] := rfl

/-- what is still to be acknowledged -/
def owedS (c : Conn) : List (List (Nat × Nat)) := c.settings.remote.toList
def owedP (c : Conn) : List Bytes := c.pingPong.pendingPong.toList

theorem owedS_length_le (c : Conn) : (owedS c).length ≤ 1 := by
  unfold owedS; cases c.settings.remote <;> simp
theorem owedP_length_le (c : Conn) : (owedP c).length ≤ 1 := by
  unfold owedP; cases c.pingPong.pendingPong <;> simp

-- ===================================================================== leaf functions: what they leave alone

@[simp] theorem panic_settings (c : Conn) (m : String) : (c.panic m).settings = c.settings := rfl
@[simp] theorem panic_pingPong (c : Conn) (m : String) : (c.panic m).pingPong = c.pingPong := rfl
@[simp] theorem panic_goAway (c : Conn) (m : String) : (c.panic m).goAway = c.goAway := rfl
@[simp] theorem panic_state (c : Conn) (m : String) : (c.panic m).state = c.state := rfl
@[simp] theorem panic_error (c : Conn) (m : String) : (c.panic m).error = c.error := rfl
@[simp] theorem panic_codec (c : Conn) (m : String) : (c.panic m).codec = c.codec := rfl

@[simp] theorem codecPollReady_settings (c : Conn) : c.codecPollReady.1.settings = c.settings := rfl
@[simp] theorem codecPollReady_pingPong (c : Conn) : c.codecPollReady.1.pingPong = c.pingPong := rfl
@[simp] theorem codecPollReady_goAway (c : Conn) : c.codecPollReady.1.goAway = c.goAway := rfl
@[simp] theorem codecPollReady_streams (c : Conn) : c.codecPollReady.1.streams = c.streams := rfl
@[simp] theorem codecPollReady_state (c : Conn) : c.codecPollReady.1.state = c.state := rfl
@[simp] theorem codecPollReady_error (c : Conn) : c.codecPollReady.1.error = c.error := rfl

@[simp] theorem bufferSimple_settings (c : Conn) (n : Nat) (r : String) : (c.bufferSimple n r).settings = c.settings := rfl
@[simp] theorem bufferSimple_pingPong (c : Conn) (n : Nat) (r : String) : (c.bufferSimple n r).pingPong = c.pingPong := rfl
@[simp] theorem bufferSimple_goAway (c : Conn) (n : Nat) (r : String) : (c.bufferSimple n r).goAway = c.goAway := rfl
@[simp] theorem bufferSimple_streams (c : Conn) (n : Nat) (r : String) : (c.bufferSimple n r).streams = c.streams := rfl
@[simp] theorem bufferSimple_state (c : Conn) (n : Nat) (r : String) : (c.bufferSimple n r).state = c.state := rfl
@[simp] theorem bufferSimple_error (c : Conn) (n : Nat) (r : String) : (c.bufferSimple n r).error = c.error := rfl
@[simp] theorem bufferSettings_settings (c : Conn) (a : Bool) (v : List (Nat × Nat)) : (c.bufferSettings a v).settings = c.settings := rfl
@[simp] theorem bufferSettings_pingPong (c : Conn) (a : Bool) (v : List (Nat × Nat)) : (c.bufferSettings a v).pingPong = c.pingPong := rfl
@[simp] theorem bufferSettings_goAway (c : Conn) (a : Bool) (v : List (Nat × Nat)) : (c.bufferSettings a v).goAway = c.goAway := rfl
@[simp] theorem bufferSettings_streams (c : Conn) (a : Bool) (v : List (Nat × Nat)) : (c.bufferSettings a v).streams = c.streams := rfl
@[simp] theorem bufferSettings_state (c : Conn) (a : Bool) (v : List (Nat × Nat)) : (c.bufferSettings a v).state = c.state := rfl
@[simp] theorem bufferSettings_error (c : Conn) (a : Bool) (v : List (Nat × Nat)) : (c.bufferSettings a v).error = c.error := rfl

theorem codecPollReady_eq (c c1 : Conn) (st : Step) (h : c.codecPollReady = (c1, st)) :
    c1.settings = c.settings ∧ c1.pingPong = c.pingPong ∧ c1.goAway = c.goAway ∧ c1.streams = c.streams ∧
    c1.state = c.state ∧ c1.error = c.error := by
  have := congrArg Prod.fst h
  subst this
  simp

-- ===================================================================== sendPendingGoAway

theorem sendPendingGoAwayT_quiet (c : Conn) :
    (sendPendingGoAwayT c).1.1.settings = c.settings ∧ (sendPendingGoAwayT c).1.1.pingPong = c.pingPong ∧
    rxS (sendPendingGoAwayT c).2 = [] ∧ ackS (sendPendingGoAwayT c).2 = [] ∧
    rxP (sendPendingGoAwayT c).2 = [] ∧ ansP (sendPendingGoAwayT c).2 = [] := by
  unfold sendPendingGoAwayT
  cases hp : c.goAway.pending with
  | none => dsimp only; (repeat' split) <;> simp [rxS, ackS, rxP, ansP]
  | some f =>
    dsimp only
    rcases h : c.codecPollReady with ⟨c1, st⟩
    obtain ⟨h1, h2, -⟩ := codecPollReady_eq c c1 st h
    cases st <;> simp [rxS, ackS, rxP, ansP, h1, h2]


-- ===================================================================== the ledger

/-- the two ledgers of a run from `c` to `c'` that emitted `evs`:
    acknowledged ++ still owed = owed before ++ received -/
structure Led (c : Conn) (evs : List Ev) (c' : Conn) : Prop where
  settings : ackS evs ++ owedS c' = owedS c ++ rxS evs
  pings : ansP evs ++ owedP c' = owedP c ++ rxP evs

/-- the ledger of a run that ended because `apply_remote_settings` failed: the ACK is out but
    `remote` was not cleared -/
structure LedF (c : Conn) (evs : List Ev) (c' : Conn) : Prop where
  settings : ackS evs = owedS c ++ rxS evs
  pings : ansP evs ++ owedP c' = owedP c ++ rxP evs

theorem Led.of_same {c c' : Conn} {evs : List Ev} (hs : c'.settings.remote = c.settings.remote)
    (hp : c'.pingPong.pendingPong = c.pingPong.pendingPong)
    (h1 : rxS evs = []) (h2 : ackS evs = []) (h3 : rxP evs = []) (h4 : ansP evs = []) : Led c evs c' := by
  constructor <;> simp [owedS, owedP, *]

theorem Led.trans {c c1 c2 : Conn} {e1 e2 : List Ev} (h1 : Led c e1 c1) (h2 : Led c1 e2 c2) : Led c (e1 ++ e2) c2 := by
  constructor
  · rw [ackS_append, rxS_append, List.append_assoc, h2.settings, ← List.append_assoc, h1.settings, List.append_assoc]
  · rw [ansP_append, rxP_append, List.append_assoc, h2.pings, ← List.append_assoc, h1.pings, List.append_assoc]

theorem Led.transF {c c1 c2 : Conn} {e1 e2 : List Ev} (h1 : Led c e1 c1) (h2 : LedF c1 e2 c2) : LedF c (e1 ++ e2) c2 := by
  constructor
  · rw [ackS_append, rxS_append, h2.settings, ← List.append_assoc, h1.settings, List.append_assoc]
  · rw [ansP_append, rxP_append, List.append_assoc, h2.pings, ← List.append_assoc, h1.pings, List.append_assoc]

-- ===================================================================== send_pending_pong / send_pending_ping

theorem sendPendingPongT_spec (c : Conn) :
    (sendPendingPongT c).1.1.settings = c.settings ∧ Led c (sendPendingPongT c).2 (sendPendingPongT c).1.1 ∧
    (stepOk (sendPendingPongT c).1.2 = true → (sendPendingPongT c).1.1.pingPong.pendingPong = none) := by
  unfold sendPendingPongT
  cases hp : c.pingPong.pendingPong with
  | none => exact ⟨rfl, Led.of_same rfl rfl rfl rfl rfl rfl, fun _ => hp⟩
  | some p =>
    dsimp only
    rcases h : c.codecPollReady with ⟨c1, st⟩
    obtain ⟨h1, h2, -⟩ := codecPollReady_eq c c1 st h
    cases st with
    | pending => exact ⟨h1, Led.of_same (by rw [h1]) (by rw [h2]) rfl rfl rfl rfl, fun h => by simp [stepOk] at h⟩
    | ok =>
      refine ⟨h1, ⟨?_, ?_⟩, fun _ => rfl⟩
      · simp [owedS, ackS, rxS, h1]
      · simp [owedP, ansP, rxP, hp, h2]
    | err e =>
      refine ⟨h1, ⟨?_, ?_⟩, fun h => by simp [stepOk] at h⟩
      · simp [owedS, ackS, rxS, h1]
      · simp [owedP, ansP, rxP, hp, h2]

theorem sendPendingPing_same (c : Conn) :
    c.sendPendingPing.1.settings = c.settings ∧ c.sendPendingPing.1.pingPong.pendingPong = c.pingPong.pendingPong := by
  unfold Conn.sendPendingPing
  cases hp : c.pingPong.pendingPing with
  | some ping =>
    dsimp only
    split
    · rcases h : c.codecPollReady with ⟨c1, st⟩
      obtain ⟨h1, h2, -⟩ := codecPollReady_eq c c1 st h
      cases st <;> simp [h1, h2]
    · exact ⟨rfl, rfl⟩
  | none =>
    dsimp only
    cases hu : c.pingPong.userPings with
    | none => exact ⟨rfl, rfl⟩
    | some u =>
      dsimp only
      split
      · split
        · rename_i c1 h
          obtain ⟨h1, h2, -⟩ := codecPollReady_eq _ c1 _ h
          simp [h1, h2]
        · rename_i r hne
          rcases h : Conn.codecPollReady _ with ⟨c1, st⟩
          obtain ⟨h1, h2, -⟩ := codecPollReady_eq _ c1 _ h
          simp [h1, h2]
      · exact ⟨rfl, rfl⟩

-- ===================================================================== Settings::poll_send

theorem ackAndApply_same (c : Conn) (v : List (Nat × Nat)) :
    (ackAndApply c v).1.settings.remote = c.settings.remote ∧ (ackAndApply c v).1.pingPong = c.pingPong := by
  unfold ackAndApply
  dsimp only
  split <;> exact ⟨rfl, rfl⟩

theorem settingsLocalSendT_spec (c : Conn) :
    (settingsLocalSendT c).1.1.settings.remote = c.settings.remote ∧
    (settingsLocalSendT c).1.1.pingPong = c.pingPong ∧
    rxS (settingsLocalSendT c).2 = [] ∧ ackS (settingsLocalSendT c).2 = [] ∧
    rxP (settingsLocalSendT c).2 = [] ∧ ansP (settingsLocalSendT c).2 = [] := by
  unfold settingsLocalSendT
  cases hl : c.settings.loc with
  | toSend vals =>
    dsimp only
    rcases h : c.codecPollReady with ⟨c1, st⟩
    obtain ⟨h1, h2, -⟩ := codecPollReady_eq c c1 st h
    cases st <;> simp [rxS, ackS, rxP, ansP, h1, h2]
  | waitingAck _ => simp [rxS, ackS, rxP, ansP]
  | synced => simp [rxS, ackS, rxP, ansP]

theorem settingsRemotePartT_spec (c : Conn) :
    (settingsRemotePartT c).1.1.pingPong = c.pingPong ∧
    (settingsRemotePartT c).1.1.settings.remote = c.settings.remote ∧
    rxS (settingsRemotePartT c).2 = [] ∧ rxP (settingsRemotePartT c).2 = [] ∧ ansP (settingsRemotePartT c).2 = [] ∧
    ((stepOk (settingsRemotePartT c).1.2 = true ∧ ackS (settingsRemotePartT c).2 = owedS c) ∨
     (stepOk (settingsRemotePartT c).1.2 = false ∧ ackS (settingsRemotePartT c).2 = []) ∨
     (stepOk (settingsRemotePartT c).1.2 = false ∧ (∃ e, (settingsRemotePartT c).1.2 = .err e ∧ IsGoAwayErr e) ∧
        ackS (settingsRemotePartT c).2 = owedS c)) := by
  unfold settingsRemotePartT
  cases hr : c.settings.remote with
  | none => simp [rxS, rxP, ansP, ackS, owedS, hr, stepOk]
  | some v =>
    dsimp only
    rcases h : c.codecPollReady with ⟨c1, st⟩
    obtain ⟨h1, h2, -⟩ := codecPollReady_eq c c1 st h
    cases st with
    | pending => simp [rxS, rxP, ansP, ackS, owedS, hr, stepOk, h1, h2]
    | err e => simp [rxS, rxP, ansP, ackS, owedS, hr, stepOk, h1, h2]
    | ok =>
      obtain ⟨a1, a2⟩ := ackAndApply_same c1 v
      refine ⟨by simp [a2, h2], by simp [a1, h1, hr], rfl, rfl, rfl, ?_⟩
      dsimp only
      rcases ha : ackAndApply c1 v with ⟨c2, st2⟩
      cases st2 with
      | ok => left; simp [stepOk, ackS, owedS, hr]
      | pending =>
        exfalso
        unfold ackAndApply at ha
        dsimp only at ha
        split at ha <;> simp at ha
      | err e =>
        right; right
        exact ⟨rfl, ⟨e, rfl, ackAndApply_err c1 v e (by rw [ha])⟩, by simp [ackS, owedS, hr]⟩

/-- `Settings::poll_send`: pings untouched; either the SETTINGS ledger balances, or the ACK went out
    and `apply_remote_settings` failed (the step is an error); `Ready(Ok)` leaves `remote` empty -/
theorem settingsPollSendT_spec (c : Conn) :
    (settingsPollSendT c).1.1.pingPong = c.pingPong ∧
    rxS (settingsPollSendT c).2 = [] ∧ rxP (settingsPollSendT c).2 = [] ∧ ansP (settingsPollSendT c).2 = [] ∧
    (ackS (settingsPollSendT c).2 ++ owedS (settingsPollSendT c).1.1 = owedS c ∨
      ((∃ e, (settingsPollSendT c).1.2 = .err e ∧ IsGoAwayErr e) ∧ ackS (settingsPollSendT c).2 = owedS c)) ∧
    (stepOk (settingsPollSendT c).1.2 = true → (settingsPollSendT c).1.1.settings.remote = none) := by
  obtain ⟨r1, r2, r3, r4, r5, r6⟩ := settingsRemotePartT_spec c
  unfold settingsPollSendT
  rcases hR : settingsRemotePartT c with ⟨⟨c1, st⟩, e1⟩
  rw [hR] at r1 r2 r3 r4 r5 r6
  dsimp only at r1 r2 r3 r4 r5 r6
  cases st with
  | ok =>
    dsimp only
    obtain ⟨l1, l2, l3, l4, l5, l6⟩ := settingsLocalSendT_spec { c1 with settings := { c1.settings with remote := none } }
    have hack : ackS e1 = owedS c := by
      rcases r6 with ⟨-, h⟩ | ⟨h, -⟩ | ⟨h, -⟩
      · exact h
      · simp [stepOk] at h
      · simp [stepOk] at h
    unfold settingsLocalPartT
    refine ⟨by rw [l2, ← r1], by simp [r3, l3], by simp [r4, l5], by simp [r5, l6], Or.inl ?_, fun _ => l1⟩
    simp [hack, l4, owedS, l1]
  | pending =>
    dsimp only
    refine ⟨r1, r3, r4, r5, Or.inl ?_, fun h => by simp [stepOk] at h⟩
    rcases r6 with ⟨h, -⟩ | ⟨-, h⟩ | ⟨-, ⟨e, h, -⟩, -⟩
    · simp [stepOk] at h
    · simp [h, owedS, r2]
    · cases h
  | err e =>
    dsimp only
    refine ⟨r1, r3, r4, r5, ?_, fun h => by simp [stepOk] at h⟩
    rcases r6 with ⟨h, -⟩ | ⟨-, h⟩ | ⟨-, ⟨e', he', hk⟩, h⟩
    · simp [stepOk] at h
    · left; simp [h, owedS, r2]
    · right; cases he'; exact ⟨⟨e, rfl, hk⟩, h⟩

-- ===================================================================== Connection::poll_ready

/-- `poll_ready`: the ledgers balance (or the run stops with the error of a failed
    `apply_remote_settings`, the ACK being out), and `Ready(Ok)` means: nothing is owed any more -/
theorem pollReadyT_spec (c : Conn) :
    (Led c (pollReadyT c).2 (pollReadyT c).1.1 ∨
      ((∃ e, (pollReadyT c).1.2 = .err e ∧ IsGoAwayErr e) ∧ LedF c (pollReadyT c).2 (pollReadyT c).1.1)) ∧
    (stepOk (pollReadyT c).1.2 = true →
      (pollReadyT c).1.1.settings.remote = none ∧ (pollReadyT c).1.1.pingPong.pendingPong = none) := by
  obtain ⟨p1, p2, p3⟩ := sendPendingPongT_spec c
  unfold pollReadyT
  rcases hP : sendPendingPongT c with ⟨⟨c1, st1⟩, e1⟩
  rw [hP] at p1 p2 p3
  dsimp only at p1 p2 p3
  cases st1 with
  | pending => exact ⟨Or.inl p2, fun h => by simp [stepOk] at h⟩
  | err e => exact ⟨Or.inl p2, fun h => by simp [stepOk] at h⟩
  | ok =>
    dsimp only
    obtain ⟨q1, q2⟩ := sendPendingPing_same c1
    rcases hQ : c1.sendPendingPing with ⟨c2, st2⟩
    rw [hQ] at q1 q2
    dsimp only at q1 q2
    have led2 : Led c e1 c2 := ⟨by simpa [owedS, q1] using p2.settings, by simpa [owedP, q2] using p2.pings⟩
    have pp2 : c2.pingPong.pendingPong = none := by rw [q2]; exact p3 rfl
    cases st2 with
    | pending => exact ⟨Or.inl led2, fun h => by simp [stepOk] at h⟩
    | err e => exact ⟨Or.inl led2, fun h => by simp [stepOk] at h⟩
    | ok =>
      dsimp only
      obtain ⟨s1, s2, s3, s4, s5, s6⟩ := settingsPollSendT_spec c2
      rcases hS : settingsPollSendT c2 with ⟨⟨c3, st3⟩, e2⟩
      rw [hS] at s1 s2 s3 s4 s5 s6
      dsimp only at s1 s2 s3 s4 s5 s6
      have hstep : (Led c2 e2 c3 ∨ ((∃ e, st3 = .err e ∧ IsGoAwayErr e) ∧ LedF c2 e2 c3)) := by
        rcases s5 with h | ⟨he, h⟩
        · left; exact ⟨by simpa [s2] using h, by simp [s4, s3, owedP, s1]⟩
        · right; exact ⟨he, ⟨by simpa [s2] using h, by simp [s4, s3, owedP, s1]⟩⟩
      cases st3 with
      | pending =>
        dsimp only
        refine ⟨?_, fun h => by simp [stepOk] at h⟩
        rcases hstep with h | ⟨⟨e, he, -⟩, h⟩
        · exact Or.inl (led2.trans h)
        · cases he
      | err e =>
        dsimp only
        refine ⟨?_, fun h => by simp [stepOk] at h⟩
        rcases hstep with h | ⟨he, h⟩
        · exact Or.inl (led2.trans h)
        · exact Or.inr ⟨he, led2.transF h⟩
      | ok =>
        dsimp only
        have led3 : Led c2 e2 c3 := by
          rcases hstep with h | ⟨⟨e, he, -⟩, h⟩
          · exact h
          · cases he
        have hr3 := s6 rfl
        have hp3 : c3.pingPong.pendingPong = none := by rw [s1]; exact pp2
        refine ⟨Or.inl ?_, fun _ => ⟨hr3, hp3⟩⟩
        have := led2.trans led3
        exact ⟨by simpa [owedS] using this.settings, by simpa [owedP] using this.pings⟩

-- ===================================================================== taking a frame from the peer

theorem recvPing_nonack (p : PingPong) (payload : Bytes) :
    (p.recvPing false payload).1.pendingPong = some payload := rfl

theorem recvPing_ack (p : PingPong) (payload : Bytes) :
    (p.recvPing true payload).1.pendingPong = p.pendingPong := by
  unfold PingPong.recvPing
  simp only [if_true]
  (repeat' split) <;> rfl

@[simp] theorem dynGoAway_settings (c : Conn) (id : Nat) (e : Reason) : (c.dynGoAway id e).settings = c.settings := by
  unfold Conn.dynGoAway; dsimp only; split <;> rfl
@[simp] theorem dynGoAway_pingPong (c : Conn) (id : Nat) (e : Reason) : (c.dynGoAway id e).pingPong = c.pingPong := by
  unfold Conn.dynGoAway; dsimp only; split <;> rfl

theorem recvSettings_same (c : Conn) (ack : Bool) (vals : List (Nat × Nat)) :
    (c.recvSettings ack vals).1.pingPong = c.pingPong ∧
    (c.recvSettings ack vals).1.settings.remote = if ack then c.settings.remote else some vals := by
  unfold Conn.recvSettings
  cases ack with
  | true =>
    simp only [if_true]
    cases hl : c.settings.loc with
    | waitingAck loc => dsimp only; split <;> exact ⟨rfl, rfl⟩
    | toSend _ => exact ⟨rfl, rfl⟩
    | synced => exact ⟨rfl, rfl⟩
  | false =>
    simp only [Bool.false_eq_true, if_false]
    split <;> simp

/-- a frame that is not SETTINGS: `recv_frame` leaves `settings` alone, records a PING payload in
    the (empty) `pending_pong`, and never answers `ReceivedFrame::Settings` -/
theorem recvFrame_nonsettings (c : Conn) (frame : Option Frame.Frame)
    (hns : ∀ ack vals, frame ≠ some (.settings ack vals)) (hp : c.pingPong.pendingPong = none) :
    (c.recvFrame frame).1.settings = c.settings ∧
    owedP (c.recvFrame frame).1 = rxP (frameEv frame) ∧
    rxS (frameEv frame) = [] ∧ ackS (frameEv frame) = [] ∧ ansP (frameEv frame) = [] ∧
    (∀ ack vals, (c.recvFrame frame).2 ≠ .ok (.settings ack vals)) := by
  unfold Conn.recvFrame
  cases frame with
  | none => simp [owedP, hp, frameEv, rxP, rxS, ackS, ansP]
  | some f =>
    cases f with
    | settings ack vals => exact absurd rfl (hns ack vals)
    | ping ack payload =>
      cases ack with
      | false =>
        dsimp only
        refine ⟨?_, ?_, rfl, rfl, rfl, ?_⟩
        · (repeat' split) <;> simp
        · have := recvPing_nonack c.pingPong payload
          (repeat' split) <;> simp [owedP, frameEv, rxP, this]
        · intro a v; (repeat' split) <;> simp
      | true =>
        dsimp only
        refine ⟨?_, ?_, rfl, rfl, rfl, ?_⟩
        · (repeat' split) <;> simp
        · have := recvPing_ack c.pingPong payload
          (repeat' split) <;> simp [owedP, frameEv, rxP, this, hp]
        · intro a v; (repeat' split) <;> simp
    | headers sid eos dep blk =>
      dsimp only
      (repeat' split) <;> simp [owedP, hp, frameEv, rxP, rxS, ackS, ansP]
    | data sid payload eos padLen =>
      dsimp only
      (repeat' split) <;> simp [owedP, hp, frameEv, rxP, rxS, ackS, ansP]
    | reset sid code =>
      dsimp only
      (repeat' split) <;> simp [owedP, hp, frameEv, rxP, rxS, ackS, ansP]
    | pushPromise sid promised blk =>
      dsimp only
      (repeat' split) <;> simp [owedP, hp, frameEv, rxP, rxS, ackS, ansP]
    | goAway last code debug =>
      dsimp only
      (repeat' split) <;> simp [owedP, hp, frameEv, rxP, rxS, ackS, ansP]
    | windowUpdate sid inc =>
      dsimp only
      (repeat' split) <;> simp [owedP, hp, frameEv, rxP, rxS, ackS, ansP]
    | priority sid dep w e => simp [owedP, hp, frameEv, rxP, rxS, ackS, ansP]

-- ===================================================================== the loop of poll2

/-- the poll ended with a connection error (`Error::GoAway`) -/
def resGoAwayErr (r : PollRes) : Prop := ∃ e, r = .ready (.error e) ∧ IsGoAwayErr e

/-- what a run from `c` satisfies: the ledgers balance, or the run ended with the error of a failed
    `apply_remote_settings` (the ACK being out) -/
def RunOK (c : Conn) (x : (Conn × PollRes) × List Ev) : Prop :=
  Led c x.2 x.1.1 ∨ (resGoAwayErr x.1.2 ∧ LedF c x.2 x.1.1)

theorem RunOK.pre {c c1 : Conn} {e1 : List Ev} {x : (Conn × PollRes) × List Ev}
    (h1 : Led c e1 c1) (h2 : RunOK c1 x) : RunOK c (x.1, e1 ++ x.2) := by
  rcases h2 with h | ⟨he, h⟩
  · exact Or.inl (h1.trans h)
  · exact Or.inr ⟨he, h1.transF h⟩

theorem RunOK.congr {c c0 : Conn} {x : (Conn × PollRes) × List Ev} (h1 : owedS c = owedS c0)
    (h2 : owedP c = owedP c0) (h : RunOK c0 x) : RunOK c x := by
  rcases h with h | ⟨he, h⟩
  · exact Or.inl ⟨by rw [h1]; exact h.settings, by rw [h2]; exact h.pings⟩
  · exact Or.inr ⟨he, ⟨by rw [h1]; exact h.settings, by rw [h2]; exact h.pings⟩⟩

theorem poll2DispatchT_spec (kT : Conn → (Conn × PollRes) × List Ev) (hk : ∀ c, RunOK c (kT c))
    (c : Conn) (frame : Option Frame.Frame)
    (hr : c.settings.remote = none) (hp : c.pingPong.pendingPong = none) :
    RunOK c (poll2DispatchT kT c frame) := by
  by_cases hs : ∃ ack vals, frame = some (.settings ack vals)
  · obtain ⟨ack, vals, rfl⟩ := hs
    have hrf : c.recvFrame (some (.settings ack vals)) = (c, .ok (.settings ack vals)) := rfl
    unfold poll2DispatchT
    rw [hrf]
    dsimp only
    obtain ⟨s1, s2⟩ := recvSettings_same c ack vals
    rcases hS : c.recvSettings ack vals with ⟨c2, r2⟩
    rw [hS] at s1 s2
    dsimp only at s1 s2
    have led : Led c (frameEv (some (.settings ack vals))) c2 := by
      cases ack with
      | true => exact ⟨by simp [owedS, s2, frameEv, ackS, rxS], by simp [owedP, s1, frameEv, ansP, rxP]⟩
      | false => exact ⟨by simp [owedS, s2, hr, frameEv, ackS, rxS], by simp [owedP, s1, frameEv, ansP, rxP]⟩
    cases r2 with
    | error e => exact Or.inl led
    | ok u => exact RunOK.pre led (hk c2)
  · have hns : ∀ ack vals, frame ≠ some (.settings ack vals) := fun a v h => hs ⟨a, v, h⟩
    obtain ⟨f1, f2, f3, f4, f5, f6⟩ := recvFrame_nonsettings c frame hns hp
    unfold poll2DispatchT
    rcases hF : c.recvFrame frame with ⟨c1, r1⟩
    rw [hF] at f1 f2 f6
    dsimp only at f1 f2 f6
    have led : Led c (frameEv frame) c1 :=
      ⟨by simp [owedS, f1, f3, f4], by rw [f5, f2]; simp [owedP, hp]⟩
    cases r1 with
    | error e => exact Or.inl led
    | ok rf =>
      cases rf with
      | «continue» => exact RunOK.pre led (hk c1)
      | done => exact Or.inl led
      | settings a v => exact absurd rfl (f6 a v)

theorem poll2ReadT_spec (kT : Conn → (Conn × PollRes) × List Ev) (hk : ∀ c, RunOK c (kT c)) (c : Conn)
    (hr : c.settings.remote = none) (hp : c.pingPong.pendingPong = none) :
    RunOK c (poll2ReadT kT c) := by
  unfold poll2ReadT
  rcases h1 : pollNext (c.codec.r.buf.length + c.codec.io.rd.length + 2) c.codec c.cx with ⟨codec, polled⟩
  dsimp only
  have same : Led c [] { c with codec := codec } := Led.of_same rfl rfl rfl rfl rfl rfl
  split
  · exact Or.inl same
  · exact Or.inl same
  · exact Or.inl same
  · exact RunOK.congr (c0 := { c with codec := codec }) rfl rfl (poll2DispatchT_spec kT hk _ _ hr hp)

theorem poll2GoOnT_spec (kT : Conn → (Conn × PollRes) × List Ev) (hk : ∀ c, RunOK c (kT c)) (c : Conn) :
    RunOK c (poll2GoOnT kT c) := by
  obtain ⟨p1, p2⟩ := pollReadyT_spec c
  unfold poll2GoOnT
  rcases hP : pollReadyT c with ⟨⟨c1, st1⟩, e1⟩
  rw [hP] at p1 p2
  dsimp only at p1 p2
  cases st1 with
  | pending =>
    rcases p1 with h | ⟨⟨e, he, -⟩, -⟩
    · exact Or.inl h
    · cases he
  | err e =>
    rcases p1 with h | ⟨⟨e', he, hk⟩, h⟩
    · exact Or.inl h
    · cases he; exact Or.inr ⟨⟨e, rfl, hk⟩, h⟩
  | ok =>
    have led : Led c e1 c1 := by
      rcases p1 with h | ⟨⟨e, he, -⟩, -⟩
      · exact h
      · cases he
    obtain ⟨hr, hp⟩ := p2 rfl
    exact RunOK.pre led (poll2ReadT_spec kT hk c1 hr hp)

/-- **the ledger of the loop of `Connection::poll2`**, for every state and every amount of input -/
theorem poll2LoopT_spec : ∀ (fuel : Nat) (c : Conn), RunOK c (poll2LoopT fuel c)
  | 0, c => Or.inl (Led.of_same rfl rfl rfl rfl rfl rfl)
  | fuel + 1, c => by
    obtain ⟨g1, g2, g3, g4, g5, g6⟩ := sendPendingGoAwayT_quiet c
    unfold poll2LoopT
    rcases hG : sendPendingGoAwayT c with ⟨⟨c1, st1⟩, e0⟩
    rw [hG] at g1 g2 g3 g4 g5 g6
    dsimp only at g1 g2 g3 g4 g5 g6
    have led : Led c e0 c1 := Led.of_same (by rw [g1]) (by rw [g2]) g3 g4 g5 g6
    cases st1 with
    | pending => exact Or.inl led
    | err e => exact Or.inl led
    | none => exact RunOK.pre led (poll2GoOnT_spec _ (poll2LoopT_spec fuel) c1)
    | reason r =>
      dsimp only
      split
      · split <;> exact Or.inl led
      · exact RunOK.pre led (poll2GoOnT_spec _ (poll2LoopT_spec fuel) c1)

end H2V.Lemmas.ConnCtlP
