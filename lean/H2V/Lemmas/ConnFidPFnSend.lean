import H2V.Lemmas.ConnFidPLbl
/-
  ConnFidP, part 5 — every function of ConnSend.lean (prioritize.rs, send.rs) as a sequence of
  elementary steps.  Hypotheses name the labelled steps a function can make: `P.ok (.push k f)` where a
  frame is queued, `P.cut k` + `ClosedAt` where a queue is cleared, `P.write` on the write path.
  (Text after ConnWakePStepSend.lean: same proof engineering, other relation.)
-/
set_option linter.unusedSectionVars false
namespace H2V.Lemmas.ConnFidP
open H2V H2V.Model H2V.Model.Conn H2V.Lemmas.ConnWakeP

section
variable {P : Perm} {s0 s : Streams} (hg : P.gone)
include hg

@[grind ←] theorem qPush_acc (q : QName) (k : Nat) (h : Tr P s0 s) : Tr P s0 (s.qPush q k).1 := by
  unfold Streams.qPush; fid_grind
@[grind ←] theorem qPushFront_acc (q : QName) (k : Nat) (h : Tr P s0 s) : Tr P s0 (s.qPushFront q k).1 := by
  unfold Streams.qPushFront; fid_grind
@[grind ←] theorem qPop_acc (q : QName) (h : Tr P s0 s) : Tr P s0 (s.qPop q).1 := by
  unfold Streams.qPop; fid_grind
@[grind ←] theorem incNumSendStreams_acc (k : Nat) (h : Tr P s0 s) : Tr P s0 (s.incNumSendStreams k) := by
  unfold Streams.incNumSendStreams; fid_grind
@[grind ←] theorem incNumRecvStreams_acc (k : Nat) (h : Tr P s0 s) : Tr P s0 (s.incNumRecvStreams k) := by
  unfold Streams.incNumRecvStreams; fid_grind
@[grind ←] theorem decNumStreams_acc (k : Nat) (h : Tr P s0 s) : Tr P s0 (s.decNumStreams k) := by
  unfold Streams.decNumStreams; fid_grind
@[grind ←] theorem transitionAfter_acc (k : Nat) (b : Bool) (h : Tr P s0 s) : Tr P s0 (s.transitionAfter k b) := by
  unfold Streams.transitionAfter; fid_grind

-- ===================================================================== prioritize.rs
@[grind ←] theorem scheduleSend_acc (k : Nat) (h : Tr P s0 s) : Tr P s0 (s.scheduleSend k) := by
  unfold Streams.scheduleSend; fid_grind
@[grind ←] theorem queueFrame_acc (k : Nat) (f : SFrame) (hA : P.ok (.push k f)) (h : Tr P s0 s) :
    Tr P s0 (s.queueFrame k f) := by
  unfold Streams.queueFrame; fid_fold; fid_grind
@[grind ←] theorem queueOpen_acc (k : Nat) (h : Tr P s0 s) : Tr P s0 (s.queueOpen k) := by
  unfold Streams.queueOpen; fid_grind
@[grind ←] theorem tryAssignCapacity_acc (k : Nat) (h : Tr P s0 s) : Tr P s0 (s.tryAssignCapacity k) := by
  unfold Streams.tryAssignCapacity; fid_grind
@[grind ←] theorem assignConnectionCapacityLoop_acc (n : Nat) (h : Tr P s0 s) :
    Tr P s0 (Streams.assignConnectionCapacityLoop n s) := by
  induction n generalizing s with
  | zero => unfold Streams.assignConnectionCapacityLoop; exact h
  | succ n ih => unfold Streams.assignConnectionCapacityLoop; fid_grind
@[grind ←] theorem assignConnectionCapacity_acc (inc : Nat) (h : Tr P s0 s) : Tr P s0 (s.assignConnectionCapacity inc) := by
  unfold Streams.assignConnectionCapacity; fid_grind
@[grind ←] theorem reserveCapacity_acc (k c : Nat) (h : Tr P s0 s) : Tr P s0 (s.reserveCapacity k c) := by
  unfold Streams.reserveCapacity; fid_grind

@[grind ←] theorem prioSendData_acc (k len : Nat) (eos : Bool) (hA : P.ok (.push k (.data len eos))) (h : Tr P s0 s) :
    Tr P s0 (s.prioSendData k len eos).1 := by
  unfold Streams.prioSendData; fid_fold; fid_grind
@[grind ←] theorem prioRecvStreamWindowUpdate_acc (k inc : Nat) (h : Tr P s0 s) :
    Tr P s0 (s.prioRecvStreamWindowUpdate k inc).1 := by
  unfold Streams.prioRecvStreamWindowUpdate; fid_grind
@[grind ←] theorem recvConnectionWindowUpdate_acc (inc : Nat) (h : Tr P s0 s) :
    Tr P s0 (s.recvConnectionWindowUpdate inc).1 := by
  unfold Streams.recvConnectionWindowUpdate; fid_grind
@[grind ←] theorem reclaimAllCapacity_acc (k : Nat) (h : Tr P s0 s) : Tr P s0 (s.reclaimAllCapacity k) := by
  unfold Streams.reclaimAllCapacity; fid_grind
@[grind ←] theorem reclaimReservedCapacity_acc (k : Nat) (h : Tr P s0 s) : Tr P s0 (s.reclaimReservedCapacity k) := by
  unfold Streams.reclaimReservedCapacity; fid_grind
@[grind ←] theorem clearPendingCapacity_acc (n : Nat) (h : Tr P s0 s) : Tr P s0 (Streams.clearPendingCapacity n s) := by
  induction n generalizing s with
  | zero => unfold Streams.clearPendingCapacity; exact h
  | succ n ih => unfold Streams.clearPendingCapacity; fid_grind
@[grind ←] theorem clearPendingSend_acc (n : Nat) (h : Tr P s0 s) : Tr P s0 (Streams.clearPendingSend n s) := by
  induction n generalizing s with
  | zero => unfold Streams.clearPendingSend; exact h
  | succ n ih => unfold Streams.clearPendingSend; fid_grind
@[grind ←] theorem clearPendingOpen_acc (n : Nat) (h : Tr P s0 s) : Tr P s0 (Streams.clearPendingOpen n s) := by
  induction n generalizing s with
  | zero => unfold Streams.clearPendingOpen; exact h
  | succ n ih => unfold Streams.clearPendingOpen; fid_grind
@[grind ←] theorem popPendingOpen_acc (h : Tr P s0 s) : Tr P s0 s.popPendingOpen.1 := by
  unfold Streams.popPendingOpen; fid_grind
/-- `self.in_flight_data_frame = m` -/
theorem mark_acc (m : InFlightData) (hw : P.write) (h : Tr P s0 s) : Tr P s0 (s.modPrio (markF m)) := by
  refine h.lbl (.mark m) ⟨Nat.le_refl _, fun _ a ha => Or.inl ⟨a, ha, ES.mark_any m a⟩, ?_, rfl, (by intro _ _ e hk; cases e; simp [Lbl.key?] at hk), (by intro _ e; cases e)⟩ hw
  intro k b hn hs
  have : s.store.get? k = some b := hs
  rw [hn] at this; cases this
grind_pattern mark_acc => Tr P s0 (s.modPrio (markF m))

@[grind ←] theorem reclaimFrameInner_acc (f : DataFrame) (hw : P.write) (h : Tr P s0 s) : Tr P s0 (s.reclaimFrameInner f).1 := by
  unfold Streams.reclaimFrameInner; fid_fold; simp only [markF_fold]; fid_grind
@[grind ←] theorem reclaimFrame_acc (w : Writer) (hw : P.write) (h : Tr P s0 s) : Tr P s0 (s.reclaimFrame w).1 := by
  unfold Streams.reclaimFrame; fid_grind
@[grind ←] theorem bufferOut_acc (w : Writer) (f : Streams.OutFrame) (hw : P.write) (h : Tr P s0 s) : Tr P s0 (s.bufferOut w f).1 := by
  unfold Streams.bufferOut; simp only [markF_fold]; fid_grind

omit hg in
@[grind =] theorem stream_key (s : Streams) (k : Nat) : (s.stream k).key = k := stream_key' s k

@[grind ←] theorem pfFinish_acc (k : Nat) (b : Bool) (f : Streams.OutFrame) (h : Tr P s0 s) :
    Tr P s0 (pfFinish k b s f).1 := by
  unfold pfFinish; fid_grind

theorem pfData_acc (sd : Stream → Nat → Nat → Stream × List String × Bool)
    (hsd : ∀ a len m, ∃ b w f, sd a len m = (b, w, f) ∧ Quiet a b) (k len : Nat) (F : SFrame) (rest : List SFrame)
    (hq : (s.stream k).pendingSend = F :: rest) (hw : P.pop)
    (h : Tr P s0 s) : Tr P s0 (pfData sd s k len rest) := by
  unfold pfData
  fid_fold
  obtain ⟨b, w, f, hb, hs⟩ := hsd ((s.modStream k (setSendF rest)).stream k) len
    (s.modStream k (setSendF rest)).prio.maxBufferSize
  simp only [hb]
  clear hsd hb
  fid_grind

omit hg in
@[grind →] theorem closedAt_of_scheduled {s : Streams} {k : Nat} {r : Reason}
    (h : (s.stream k).state.getScheduledReset = some r) : ClosedAt s k := by
  intro a ha
  rw [stream_eq_of_get? ha] at h
  unfold State.getScheduledReset at h
  unfold State.isClosed
  split at h <;> simp_all

theorem popFrameC_acc (sd : Stream → Nat → Nat → Stream × List String × Bool)
    (hsd : ∀ a len m, ∃ b w f, sd a len m = (b, w, f) ∧ Quiet a b) (n m : Nat) (hw : P.pop) (hc : CutAll P) (h : Tr P s0 s) :
    Tr P s0 (popFrameC sd n s m).1 := by
  induction n generalizing s with
  | zero => rw [popFrameC_zero]; exact h
  | succ n ih =>
    rw [popFrameC_succ]
    fid_fold
    have hd : ∀ {s : Streams} (k len : Nat) (F : SFrame) (rest : List SFrame), (s.stream k).pendingSend = F :: rest →
        Tr P s0 s → Tr P s0 (pfData sd s k len rest) :=
      fun k len F rest hq h => pfData_acc hg sd hsd k len F rest hq hw h
    clear hsd
    have hq0 := qPop_acc hg .pendingSend h
    split
    · next s1 heq => rw [heq] at hq0; exact hq0
    · next s1 id heq =>
      rw [heq] at hq0
      simp only at hq0 ⊢
      clear heq h
      split
      · next sz eos rest hps =>
        have hd' := fun len => @hd s1 id len _ _ hps hq0
        clear hd
        cases hgs : (s1.stream id).state.getScheduledReset with
        | none => simp only []; fid_grind
        | some r =>
          have hcl : ClosedAt s1 id := closedAt_of_scheduled hgs
          have hcq := clearQueue_acc id (hc id) hcl hq0
          simp only []
          fid_grind
      · next heos fields rest hps => exact pfFinish_acc hg _ _ _ (pop_acc id _ rest hps hw hq0)
      · next reason rest hps => exact pfFinish_acc hg _ _ _ (pop_acc id _ rest hps hw hq0)
      · next pk pid fields rest hps =>
        have h2 := pop_acc id _ rest hps hw hq0
        clear hd hq0 hps
        fid_grind
      · next hps =>
        clear hd
        fid_grind

@[grind ←] theorem popFrame_acc (n m : Nat) (hw : P.pop) (hc : CutAll P) (h : Tr P s0 s) :
    Tr P s0 (Streams.popFrame n s m).1 := by
  rw [popFrameC.eq]; exact popFrameC_acc hg _ sendData_quiet' n m hw hc h

@[grind ←] theorem prioBufferPendingLoop_acc (n : Nat) (w : Writer) (hw : P.write) (hp : P.pop) (hc : CutAll P) (h : Tr P s0 s) :
    Tr P s0 (Streams.prioBufferPendingLoop n s w).1 := by
  induction n generalizing s w with
  | zero => unfold Streams.prioBufferPendingLoop; fid_grind
  | succ n ih => unfold Streams.prioBufferPendingLoop; fid_grind
@[grind ←] theorem prioBufferPending_acc (n : Nat) (w : Writer) (hw : P.write) (hp : P.pop) (hc : CutAll P) (h : Tr P s0 s) :
    Tr P s0 (Streams.prioBufferPending n s w).1 := by
  unfold Streams.prioBufferPending; fid_grind

-- ===================================================================== send.rs
@[grind ←] theorem sendOpenId_acc (h : Tr P s0 s) : Tr P s0 s.sendOpenId.1 := by
  unfold Streams.sendOpenId; fid_grind
@[grind ←] theorem sendHeaders_acc (k : Nat) (eos : Bool) (f : List Hpack.Field) (hA : P.ok (.push k (.headers eos f)))
    (h : Tr P s0 s) : Tr P s0 (s.sendHeaders k eos f).1 := by
  unfold Streams.sendHeaders; fid_grind
@[grind ←] theorem sendReserveLocal_acc (h : Tr P s0 s) : Tr P s0 s.sendReserveLocal.1 := by
  unfold Streams.sendReserveLocal; fid_grind
@[grind ←] theorem sendPushPromise_acc (p pk pid : Nat) (f : List Hpack.Field)
    (hA : P.ok (.push p (.pushPromise pk pid f))) (h : Tr P s0 s) :
    Tr P s0 (s.sendPushPromise p pk pid f).1 := by
  unfold Streams.sendPushPromise; fid_grind
@[grind ←] theorem sendInterimInformationalHeaders_acc (k : Nat) (f : List Hpack.Field)
    (hA : P.ok (.push k (.headers false f))) (h : Tr P s0 s) :
    Tr P s0 (s.sendInterimInformationalHeaders k f).1 := by
  unfold Streams.sendInterimInformationalHeaders; fid_grind
omit hg in
theorem setReset_closed' (a : Stream) (r : Reason) (i : Initiator) : (a.setReset r i).1.state.isClosed = true := by
  unfold Stream.setReset Stream.notifySend Stream.notifyPush Stream.notifyRecv
  cases a.sendTask <;> cases a.openTask <;> cases a.recvTask <;> cases a.pushTask <;> rfl

omit hg in
theorem get?_modStreamW (s : Streams) (k : Nat) (f : Stream → Stream × List String) (hf : ∀ a, (f a).1.key = a.key) (j : Nat) :
    (s.modStreamW k f).store.get? j = if j = k then (s.store.get? k).map (fun a => (f a).1) else s.store.get? j := by
  unfold Streams.modStreamW
  cases ha : s.store.get? k with
  | none =>
    simp only [Option.map_none]
    have : (s.panic s!"dangling store key {k}").store = s.store := by unfold Streams.panic; split <;> rfl
    rw [this]; split
    · next e => rw [e, ha]
    · rfl
  | some a =>
    show (s.store.set (f a).1).get? j = _
    have hk : (f a).1.key = k := by rw [hf]; exact Store.get?_key ha
    rw [Store.get?_set, hk]
    split
    · next e => subst e; simp [ha]
    · rfl

omit hg in
theorem closedAt_setReset (s : Streams) (k : Nat) (r : Reason) (i : Initiator) :
    ClosedAt (s.modStreamW k fun st => st.setReset r i) k := by
  intro a ha
  rw [get?_modStreamW s k _ (fun a => (setReset_quiet a r i).key)] at ha
  simp only [if_true] at ha
  cases hs : s.store.get? k with
  | none => rw [hs] at ha; cases ha
  | some x => rw [hs] at ha; cases ha; exact setReset_closed' x r i

/-- the `is_pending_open` arm of `Send::send_reset`: everything but the initial HEADERS is dropped — the step `cut k 1` -/
theorem keepHead_acc (k : Nat) (hc : P.cut k) (hcl : ClosedAt s k) (h : Tr P s0 s) :
    Tr P s0 (match (s.stream k).pendingSend.head? with
      | some f => ((s.modStream k drop1F).clearQueue k).modStream k (pushF f)
      | none => (s.modStream k drop1F).clearQueue k) := by
  generalize hfin : (match (s.stream k).pendingSend.head? with
      | some f => ((s.modStream k drop1F).clearQueue k).modStream k (pushF f)
      | none => (s.modStream k drop1F).clearQueue k) = fin
  have e1 := fun (t : Streams) (j : Nat) => get?_modStream t k drop1F (fun _ => rfl) j
  have e2 := fun (t : Streams) (j : Nat) => get?_modStream t k clearF (fun _ => rfl) j
  have e3 := fun (f : SFrame) (t : Streams) (j : Nat) => get?_modStream t k (pushF f) (fun _ => rfl) j
  have hg : ∀ j, fin.store.get? j = if j = k then (s.store.get? k).map
      (fun a => { a with pendingSend := a.pendingSend.take 1, bufferedSendData := 0, requestedSendCapacity := 0 })
      else s.store.get? j := by
    intro j
    subst hfin
    cases hs : s.store.get? k with
    | none =>
      have hb : (s.stream k).pendingSend = [] := by unfold Streams.stream; rw [hs]; rfl
      simp only [hb, List.head?_nil, Option.map_none, clearQueue_store, e1, e2, hs]
      split <;> simp
    | some a =>
      rw [stream_eq_of_get? hs]
      cases hq : a.pendingSend with
      | nil =>
        simp only [List.head?_nil, clearQueue_store, e1, e2, hs]
        split <;> simp [drop1F, clearF, hq]
      | cons f rest =>
        simp only [List.head?_cons, clearQueue_store, e1, e2, e3, hs]
        split <;> simp [drop1F, clearF, pushF, hq]
  have hmk : marker fin = if marker s = .dataFrame k then .drop else marker s := by
    subst hfin
    split
    · rw [marker_modStream, clearQueue_marker, marker_modStream]
    · rw [clearQueue_marker, marker_modStream]
  have hn : fin.store.nextKey = s.store.nextKey := by
    have nk_mod : ∀ (t : Streams) (g : Stream → Stream), (t.modStream k g).store.nextKey = t.store.nextKey := by
      intro t g; unfold Streams.modStream; split
      · rfl
      · unfold Streams.panic; split <;> rfl
    subst hfin
    split
    · rw [nk_mod, clearQueue_store, nk_mod, nk_mod]
    · rw [clearQueue_store, nk_mod, nk_mod]
  refine h.lbl (.cut k 1) ⟨Nat.le_of_eq hn.symm, ?_, ?_, ?_, (by intro _ _ e _ hcut; cases e; simp [Lbl.isCut] at hcut), (by intro _ e; cases e)⟩ hc
  · intro j a ha
    refine Or.inl ?_
    rw [hg]
    by_cases hj : j = k
    · subst hj
      simp only [if_true, ha, Option.map_some]
      have hk := (Store.get?_key ha).symm
      exact ⟨_, rfl, rfl, rfl, fun h => h, by simp [sendEff, hk], by simp [recvEff], fun _ => hcl a ha⟩
    · simp only [hj, if_false]
      exact ⟨a, ha, ES.other _ a (by simp only [Lbl.key?]; rw [Store.get?_key ha]; intro e; exact hj (Option.some.inj e).symm)⟩
  · intro j b hnone hs
    rw [hg] at hs
    split at hs
    · next e => subst e; rw [hnone] at hs; cases hs
    · rw [hnone] at hs; cases hs
  · rw [hmk]; rfl

theorem sendSendReset_acc (k : Nat) (r : Reason) (i : Initiator) (hc : P.cut k) (h : Tr P s0 s) :
    Tr P s0 (s.sendSendReset k r i) := by
  unfold Streams.sendSendReset
  fid_fold
  split
  · exact h
  · have h1 : Tr P s0 (s.modStreamW k fun st => st.setReset r i) := modStreamW_acc k _ (setReset_quiet _ _ _) h
    have hcl := closedAt_setReset s k r i
    split
    · exact h1
    · refine reclaimAllCapacity_acc hg k (queueFrame_acc hg k _ (ok_push_reset r hc) ?_)
      split
      · exact keepHead_acc hg k hc hcl h1
      · exact clearQueue_acc k hc hcl h1
grind_pattern sendSendReset_acc => Tr P s0 (s.sendSendReset k r i)
@[grind ←] theorem scheduleImplicitReset_acc (k : Nat) (r : Reason) (h : Tr P s0 s) :
    Tr P s0 (s.scheduleImplicitReset k r) := by
  unfold Streams.scheduleImplicitReset; fid_grind
@[grind ←] theorem sendTrailers_acc (k : Nat) (f : List Hpack.Field) (hA : P.ok (.push k (.headers true f))) (h : Tr P s0 s) :
    Tr P s0 (s.sendTrailers k f).1 := by
  unfold Streams.sendTrailers; fid_grind
@[grind ←] theorem sendRecvStreamWindowUpdate_acc (k sz : Nat) (hc : P.cut k) (h : Tr P s0 s) :
    Tr P s0 (s.sendRecvStreamWindowUpdate k sz).1 := by
  unfold Streams.sendRecvStreamWindowUpdate; fid_grind
@[grind ←] theorem sendRecvGoAway_acc (l : Nat) (h : Tr P s0 s) : Tr P s0 (s.sendRecvGoAway l).1 := by
  unfold Streams.sendRecvGoAway; fid_grind
@[grind ←] theorem sendHandleError_acc (k : Nat) (hc : P.cut k) (hcl : ClosedAt s k) (h : Tr P s0 s) :
    Tr P s0 (s.sendHandleError k) := by
  unfold Streams.sendHandleError; fid_grind

theorem tryForEach_acc (f : Streams → Nat → Streams × Option PErr)
    (hf : ∀ {s : Streams} (k : Nat), Tr P s0 s → Tr P s0 (f s k).1) (n i len : Nat) (h : Tr P s0 s) :
    Tr P s0 (Streams.tryForEach f n i len s).1 := by
  induction n generalizing s i len with
  | zero => unfold Streams.tryForEach; exact h
  | succ n ih => unfold Streams.tryForEach; fid_grind
theorem storeTryForEach_acc (f : Streams → Nat → Streams × Option PErr)
    (hf : ∀ {s : Streams} (k : Nat), Tr P s0 s → Tr P s0 (f s k).1) (h : Tr P s0 s) :
    Tr P s0 (s.storeTryForEach f).1 := by
  unfold Streams.storeTryForEach; exact tryForEach_acc hg f hf _ _ _ h
theorem storeForEach_acc (f : Streams → Nat → Streams)
    (hf : ∀ {s : Streams} (k : Nat), Tr P s0 s → Tr P s0 (f s k)) (h : Tr P s0 s) :
    Tr P s0 (s.storeForEach f) := by
  unfold Streams.storeForEach; exact storeTryForEach_acc hg _ (fun k h => hf k h) h
@[grind ←] theorem decStreamWindow_acc (dec acc k : Nat) (h : Tr P s0 s) :
    Tr P s0 (Streams.decStreamWindow dec acc s k).1 := by
  unfold Streams.decStreamWindow; fid_grind
theorem tryForEachAcc_acc (f : Nat → Streams → Nat → Streams × Nat × Option PErr)
    (hf : ∀ {s : Streams} (a k : Nat), Tr P s0 s → Tr P s0 (f a s k).1) (n i len acc : Nat) (h : Tr P s0 s) :
    Tr P s0 (Streams.tryForEachAcc f n i len acc s).1 := by
  induction n generalizing s i len acc with
  | zero => unfold Streams.tryForEachAcc; exact h
  | succ n ih => unfold Streams.tryForEachAcc; fid_grind
@[grind ←] theorem sendApplyRemoteSettings_acc (a b c : Option Nat) (hc : CutAll P) (h : Tr P s0 s) :
    Tr P s0 (s.sendApplyRemoteSettings a b c).1 := by
  unfold Streams.sendApplyRemoteSettings
  have h1 := fun s => @tryForEachAcc_acc P s0 s hg
  have h2 := fun s => @storeTryForEach_acc P s0 s hg
  fid_grind
@[grind ←] theorem sendClearQueues_acc (h : Tr P s0 s) : Tr P s0 s.sendClearQueues := by
  unfold Streams.sendClearQueues; fid_grind
@[grind ←] theorem sendMaybeResetNextStreamId_acc (k : Nat) (h : Tr P s0 s) :
    Tr P s0 (s.sendMaybeResetNextStreamId k) := by
  unfold Streams.sendMaybeResetNextStreamId; fid_grind
end
end H2V.Lemmas.ConnFidP
