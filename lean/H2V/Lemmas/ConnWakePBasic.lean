import H2V.Model.ConnDriver
/-
  ConnWakeP (C06 / C07), part 1 — basic facts about the store and the primitive state updates of the
  connection model (`H2V/Model/ConnStore.lean`), the per-stream relation `SStep` and the relation
  `Step` between two `Streams` values that every model function (other than the `poll_*` functions,
  which register wakers) is shown to satisfy in `ConnWakePStep*.lean`.

  `Step cx s s'` says, for EVERY stream entry `k` that exists in `s`:
    * the entry is still there in `s'` (same key, same stream id) or was removed from the slab;
    * `Closed` is absorbing;
    * none of the four waker slots (`send_task`, `open_task`, `recv_task`, `push_task`) was dropped
      silently: a slot is either unchanged, or empty with the old tag recorded in the wake log
      (`wakes`) *during this step*; no slot is ever filled (only the `poll_*` functions do that);
    * `send_capacity_inc` is never cleared, and when it is raised the send/open wakers are woken;
    * when `pending_recv` got a new entry the receive waker was woken;
  and for the connection: the wake log only grows, `conn_error` is never cleared, the connection
  task (`Actions.task`) is unchanged, or taken and woken, (or re-registered as `cx`, the task that
  polls the connection — only `poll_complete` does that).
-/
namespace H2V.Lemmas.ConnWakeP
open H2V H2V.Model H2V.Model.Conn

-- ===================================================================== Store

theorem find_key {l : List Stream} {k : Nat} {a : Stream} (h : l.find? (·.key == k) = some a) : a.key = k := by
  have := List.find?_some h
  simpa using this

theorem Store.get?_key {st : Store} {k : Nat} {a : Stream} (h : st.get? k = some a) : a.key = k :=
  find_key h

theorem Store.get?_mem {st : Store} {k : Nat} {a : Stream} (h : st.get? k = some a) : a ∈ st.slab :=
  List.mem_of_find?_eq_some h

theorem find_set (l : List Stream) (b : Stream) (k : Nat) :
    (l.map fun x => if x.key == b.key then b else x).find? (·.key == k) =
      if k = b.key then (l.find? (·.key == k)).map (fun _ => b) else l.find? (·.key == k) := by
  induction l with
  | nil => simp
  | cons x xs ih =>
    simp only [List.map_cons, List.find?_cons, ih]
    grind

theorem Store.get?_set (st : Store) (b : Stream) (k : Nat) :
    (st.set b).get? k = if k = b.key then (st.get? k).map (fun _ => b) else st.get? k := by
  unfold Store.set Store.get?
  exact find_set _ _ _

theorem Store.get?_remove (st : Store) (k k' : Nat) :
    (st.remove k).get? k' = if k' = k then none else st.get? k' := by
  unfold Store.remove Store.get?
  simp only
  induction st.slab with
  | nil => simp
  | cons x xs ih =>
    simp only [List.filter_cons, List.find?_cons]
    grind

theorem Store.get?_unlink (st : Store) (id k : Nat) : (st.unlink id).get? k = st.get? k := rfl

theorem Store.get?_insert (st : Store) (a : Stream) (k : Nat) :
    (st.insert a).1.get? k =
      match st.get? k with
      | some x => some x
      | none => if k = st.nextKey then some { a with key := st.nextKey } else none := by
  unfold Store.insert Store.get?
  simp only [List.find?_append]
  cases h : List.find? (fun x => x.key == k) st.slab with
  | some x => simp
  | none =>
    simp only [Option.none_or, List.find?_cons, List.find?_nil]
    by_cases hk : k = st.nextKey
    · subst hk; simp
    · have : (st.nextKey == k) = false := by simp; exact fun h => hk h.symm
      simp [this, hk]

@[simp] theorem Store.set_nextKey (st : Store) (b : Stream) : (st.set b).nextKey = st.nextKey := rfl
@[simp] theorem Store.set_ids (st : Store) (b : Stream) : (st.set b).ids = st.ids := rfl
@[simp] theorem Store.remove_nextKey (st : Store) (k : Nat) : (st.remove k).nextKey = st.nextKey := rfl
@[simp] theorem Store.remove_ids (st : Store) (k : Nat) : (st.remove k).ids = st.ids := rfl
@[simp] theorem Store.unlink_nextKey (st : Store) (k : Nat) : (st.unlink k).nextKey = st.nextKey := rfl
@[simp] theorem Store.unlink_slab (st : Store) (k : Nat) : (st.unlink k).slab = st.slab := rfl
@[simp] theorem Store.insert_nextKey (st : Store) (a : Stream) : (st.insert a).1.nextKey = st.nextKey + 1 := rfl
@[simp] theorem Store.insert_key (st : Store) (a : Stream) : (st.insert a).2 = st.nextKey := rfl

/-- every slab entry carries a key that was handed out already -/
def KeysBounded (st : Store) : Prop := ∀ a ∈ st.slab, a.key < st.nextKey

theorem KeysBounded.get? {st : Store} (h : KeysBounded st) {k : Nat} {a : Stream} (hk : st.get? k = some a) :
    k < st.nextKey := by
  have := h a (Store.get?_mem hk)
  rwa [Store.get?_key hk] at this

theorem KeysBounded.set {st : Store} (h : KeysBounded st) {b : Stream} (hb : b.key < st.nextKey) :
    KeysBounded (st.set b) := by
  intro a ha
  simp only [Store.set, List.mem_map] at ha
  obtain ⟨x, hx, rfl⟩ := ha
  split
  · exact hb
  · exact h x hx

theorem KeysBounded.remove {st : Store} (h : KeysBounded st) (k : Nat) : KeysBounded (st.remove k) := by
  intro a ha
  simp only [Store.remove, List.mem_filter] at ha
  exact h a ha.1

theorem KeysBounded.unlink {st : Store} (h : KeysBounded st) (k : Nat) : KeysBounded (st.unlink k) := h

theorem KeysBounded.insert {st : Store} (h : KeysBounded st) (a : Stream) : KeysBounded (st.insert a).1 := by
  intro x hx
  simp only [Store.insert, List.mem_append, List.mem_singleton] at hx
  rcases hx with hx | rfl
  · exact Nat.lt_succ_of_lt (h x hx)
  · exact Nat.lt_succ_self _

-- ===================================================================== per-stream relation

/-- `State` is `Closed(Error(Reset..))` or `Closed(ScheduledLibraryReset)`: the two causes that
    forget a received END_STREAM (`set_reset`, `set_scheduled_reset`) -/
def lostEos (s : State) : Bool :=
  match s.inner with
  | .closed (.error (.reset ..)) | .closed (.scheduledLibraryReset _) => true
  | _ => false

/-- one waker slot across a step that wrote the tags `w` into the wake log: unchanged, or taken
    and woken.  (Never filled: only `poll_*` functions park a waker.) -/
def SlotStep (w : List String) (x y : Option String) : Prop :=
  y = x ∨ (y = none ∧ ∀ t, x = some t → t ∈ w)

theorem SlotStep.refl (w : List String) (x : Option String) : SlotStep w x x := Or.inl rfl

theorem SlotStep.mono {w w' : List String} {x y : Option String} (hw : ∀ t, t ∈ w → t ∈ w')
    (h : SlotStep w x y) : SlotStep w' x y := by
  rcases h with h | ⟨h1, h2⟩
  · exact Or.inl h
  · exact Or.inr ⟨h1, fun t ht => hw t (h2 t ht)⟩

theorem SlotStep.trans {w1 w2 : List String} {x y z : Option String}
    (h1 : SlotStep w1 x y) (h2 : SlotStep w2 y z) : SlotStep (w1 ++ w2) x z := by
  rcases h1 with rfl | ⟨rfl, h1⟩
  · exact h2.mono (fun t ht => List.mem_append_right _ ht)
  · rcases h2 with rfl | ⟨rfl, _⟩
    · exact Or.inr ⟨rfl, fun t ht => List.mem_append_left _ (h1 t ht)⟩
    · exact Or.inr ⟨rfl, fun t ht => List.mem_append_left _ (h1 t ht)⟩

theorem SlotStep.none_of_none {w : List String} {y : Option String} (h : SlotStep w none y) : y = none := by
  rcases h with h | ⟨h, _⟩ <;> exact h

/-- a slot that is empty afterwards had its tag woken — unless it was empty before -/
theorem SlotStep.woken_of_none {w : List String} {x : Option String} {t : String}
    (h : SlotStep w x none) (hx : x = some t) : t ∈ w := by
  rcases h with h | ⟨_, h⟩
  · rw [hx] at h; cases h
  · exact h t hx

/-- what a model function may do to one stream entry while it writes the tags `w` to the wake log -/
structure SStep (w : List String) (a b : Stream) : Prop where
  key : b.key = a.key
  id : b.id = a.id
  closed : a.state.isClosed = true → b.state.isClosed = true
  lost : lostEos a.state = true → lostEos b.state = true
  eos : a.state.isRecvEndStream = true → b.state.isRecvEndStream = true ∨ lostEos b.state = true
  sendTask : SlotStep w a.sendTask b.sendTask
  openTask : SlotStep w a.openTask b.openTask
  recvTask : SlotStep w a.recvTask b.recvTask
  pushTask : SlotStep w a.pushTask b.pushTask
  capKeep : a.sendCapacityInc = true → b.sendCapacityInc = true
  capRise : b.sendCapacityInc = a.sendCapacityInc ∨
    (b.sendTask = none ∧ b.openTask = none ∧ ∀ t, (a.sendTask = some t ∨ a.openTask = some t) → t ∈ w)
  recvPush : (∃ n, b.pendingRecv = a.pendingRecv.drop n) ∨ (b.recvTask = none ∧ ∀ t, a.recvTask = some t → t ∈ w)

theorem SStep.refl (w : List String) (a : Stream) : SStep w a a :=
  ⟨rfl, rfl, fun h => h, fun h => h, Or.inl, .refl _ _, .refl _ _, .refl _ _, .refl _ _, fun h => h, Or.inl rfl, Or.inl ⟨0, rfl⟩⟩

theorem SStep.mono {w w' : List String} {a b : Stream} (hw : ∀ t, t ∈ w → t ∈ w') (h : SStep w a b) :
    SStep w' a b where
  key := h.key
  id := h.id
  closed := h.closed
  lost := h.lost
  eos := h.eos
  sendTask := h.sendTask.mono hw
  openTask := h.openTask.mono hw
  recvTask := h.recvTask.mono hw
  pushTask := h.pushTask.mono hw
  capKeep := h.capKeep
  capRise := h.capRise.imp (fun h => h) fun ⟨h1, h2, h3⟩ => ⟨h1, h2, fun t ht => hw t (h3 t ht)⟩
  recvPush := h.recvPush.imp (fun h => h) fun ⟨h1, h2⟩ => ⟨h1, fun t ht => hw t (h2 t ht)⟩

theorem SStep.trans {w1 w2 : List String} {a b c : Stream} (h1 : SStep w1 a b) (h2 : SStep w2 b c) :
    SStep (w1 ++ w2) a c where
  key := h2.key.trans h1.key
  id := h2.id.trans h1.id
  closed := fun h => h2.closed (h1.closed h)
  lost := fun h => h2.lost (h1.lost h)
  eos := fun h => by
    rcases h1.eos h with h | h
    · exact h2.eos h
    · exact Or.inr (h2.lost h)
  sendTask := h1.sendTask.trans h2.sendTask
  openTask := h1.openTask.trans h2.openTask
  recvTask := h1.recvTask.trans h2.recvTask
  pushTask := h1.pushTask.trans h2.pushTask
  capKeep := fun h => h2.capKeep (h1.capKeep h)
  capRise := by
    have hl : ∀ t, t ∈ w1 → t ∈ w1 ++ w2 := fun t ht => List.mem_append_left _ ht
    have hr : ∀ t, t ∈ w2 → t ∈ w1 ++ w2 := fun t ht => List.mem_append_right _ ht
    rcases h2.capRise with e2 | ⟨s2, o2, t2⟩
    · rcases h1.capRise with e1 | ⟨s1, o1, t1⟩
      · exact Or.inl (e2.trans e1)
      · refine Or.inr ⟨?_, ?_, fun t ht => hl t (t1 t ht)⟩
        · have := h2.sendTask; rw [s1] at this; exact this.none_of_none
        · have := h2.openTask; rw [o1] at this; exact this.none_of_none
    · refine Or.inr ⟨s2, o2, fun t ht => ?_⟩
      rcases ht with ht | ht
      · rcases h1.sendTask with e | ⟨_, e⟩
        · exact hr t (t2 t (Or.inl (e ▸ ht)))
        · exact hl t (e t ht)
      · rcases h1.openTask with e | ⟨_, e⟩
        · exact hr t (t2 t (Or.inr (e ▸ ht)))
        · exact hl t (e t ht)
  recvPush := by
    have hl : ∀ t, t ∈ w1 → t ∈ w1 ++ w2 := fun t ht => List.mem_append_left _ ht
    have hr : ∀ t, t ∈ w2 → t ∈ w1 ++ w2 := fun t ht => List.mem_append_right _ ht
    rcases h2.recvPush with ⟨n2, e2⟩ | ⟨r2, t2⟩
    · rcases h1.recvPush with ⟨n1, e1⟩ | ⟨r1, t1⟩
      · exact Or.inl ⟨n1 + n2, by rw [e2, e1, List.drop_drop]⟩
      · refine Or.inr ⟨?_, fun t ht => hl t (t1 t ht)⟩
        have := h2.recvTask; rw [r1] at this; exact this.none_of_none
    · refine Or.inr ⟨r2, fun t ht => ?_⟩
      rcases h1.recvTask with e | ⟨_, e⟩
      · exact hr t (t2 t (e ▸ ht))
      · exact hl t (e t ht)

/-- a stream update that touches none of the fields `SStep` talks about -/
structure Inert (a b : Stream) : Prop where
  key : b.key = a.key
  id : b.id = a.id
  state : b.state = a.state
  sendTask : b.sendTask = a.sendTask
  openTask : b.openTask = a.openTask
  recvTask : b.recvTask = a.recvTask
  pushTask : b.pushTask = a.pushTask
  cap : b.sendCapacityInc = a.sendCapacityInc
  recv : b.pendingRecv = a.pendingRecv

theorem Inert.sstep {a b : Stream} (h : Inert a b) (w : List String) : SStep w a b where
  key := h.key
  id := h.id
  closed := by rw [h.state]; exact fun h => h
  lost := by rw [h.state]; exact fun h => h
  eos := by rw [h.state]; exact Or.inl
  sendTask := Or.inl h.sendTask
  openTask := Or.inl h.openTask
  recvTask := Or.inl h.recvTask
  pushTask := Or.inl h.pushTask
  capKeep := by rw [h.cap]; exact fun h => h
  capRise := Or.inl h.cap
  recvPush := Or.inl ⟨0, by rw [h.recv]; rfl⟩

/-- closes `Inert a { a with … }` goals -/
macro "inert" : tactic => `(tactic| exact ⟨rfl, rfl, rfl, rfl, rfl, rfl, rfl, rfl, rfl⟩)

/-- a stream update that only changes `state` (in a way that respects the three state clauses) -/
theorem SStep.of_state {a b : Stream} (w : List String)
    (hk : b.key = a.key) (hi : b.id = a.id)
    (hs : b.sendTask = a.sendTask) (ho : b.openTask = a.openTask) (hr : b.recvTask = a.recvTask)
    (hp : b.pushTask = a.pushTask) (hc : b.sendCapacityInc = a.sendCapacityInc) (hq : b.pendingRecv = a.pendingRecv)
    (c1 : a.state.isClosed = true → b.state.isClosed = true)
    (c2 : lostEos a.state = true → lostEos b.state = true)
    (c3 : a.state.isRecvEndStream = true → b.state.isRecvEndStream = true ∨ lostEos b.state = true) :
    SStep w a b where
  key := hk
  id := hi
  closed := c1
  lost := c2
  eos := c3
  sendTask := Or.inl hs
  openTask := Or.inl ho
  recvTask := Or.inl hr
  pushTask := Or.inl hp
  capKeep := by rw [hc]; exact fun h => h
  capRise := Or.inl hc
  recvPush := Or.inl ⟨0, by rw [hq]; rfl⟩

-- ===================================================================== the relation on `Streams`

/-- the tags written to the wake log between `s` and `s'` -/
def newWakes (s s' : Streams) : List String := s'.wakes.drop s.wakes.length

/-- the connection task's slot: unchanged; or the old tag was woken (or is the polling task `cx`
    itself) and the slot is empty or holds `cx` -/
def TaskStep (cx : Option String) (w : List String) (x y : Option String) : Prop :=
  y = x ∨ ((y = none ∨ y = cx) ∧ ∀ t, x = some t → t ∈ w ∨ cx = some t)

theorem TaskStep.mono {cx : Option String} {w w' : List String} {x y : Option String}
    (hw : ∀ t, t ∈ w → t ∈ w') (h : TaskStep cx w x y) : TaskStep cx w' x y := by
  rcases h with h | ⟨h1, h2⟩
  · exact Or.inl h
  · exact Or.inr ⟨h1, fun t ht => (h2 t ht).imp (hw t) id⟩

theorem TaskStep.trans {cx : Option String} {w1 w2 : List String} {x y z : Option String}
    (h1 : TaskStep cx w1 x y) (h2 : TaskStep cx w2 y z) : TaskStep cx (w1 ++ w2) x z := by
  rcases h1 with rfl | ⟨hy, h1⟩
  · exact h2.mono (fun t ht => List.mem_append_right _ ht)
  · refine Or.inr ⟨?_, fun t ht => (h1 t ht).imp (fun h => List.mem_append_left _ h) id⟩
    rcases h2 with rfl | ⟨hz, _⟩
    · exact hy
    · exact hz

structure Step (cx : Option String) (s s' : Streams) : Prop where
  wakes : s.wakes <+: s'.wakes
  nextKey : s.store.nextKey ≤ s'.store.nextKey
  bounded : KeysBounded s.store → KeysBounded s'.store
  fresh : ∀ k, k < s.store.nextKey → s.store.get? k = none → s'.store.get? k = none
  keep : ∀ k a, k < s.store.nextKey → s.store.get? k = some a →
    s'.store.get? k = none ∨ ∃ b, s'.store.get? k = some b ∧ SStep (newWakes s s') a b
  task : TaskStep cx (newWakes s s') s.actions.task s'.actions.task
  connError : s.actions.connError.isSome = true → s'.actions.connError.isSome = true
  maxBuf : s'.actions.send.prioritize.maxBufferSize = s.actions.send.prioritize.maxBufferSize

theorem newWakes_self (s : Streams) : newWakes s s = [] := by simp [newWakes]

theorem newWakes_of_eq {s s' : Streams} {w : List String} (h : s'.wakes = s.wakes ++ w) : newWakes s s' = w := by
  simp [newWakes, h]

theorem newWakes_trans {s s' s'' : Streams} (h1 : s.wakes <+: s'.wakes) (h2 : s'.wakes <+: s''.wakes) :
    newWakes s s'' = newWakes s s' ++ newWakes s' s'' := by
  obtain ⟨w1, h1⟩ := h1
  obtain ⟨w2, h2⟩ := h2
  simp [newWakes, ← h2, ← h1]

theorem Step.refl (cx : Option String) (s : Streams) : Step cx s s where
  wakes := List.prefix_refl _
  nextKey := Nat.le_refl _
  bounded := id
  fresh := fun _ _ h => h
  keep := fun _ a _ h => Or.inr ⟨a, h, SStep.refl _ _⟩
  task := Or.inl rfl
  connError := id
  maxBuf := rfl

theorem Step.trans {cx : Option String} {s s' s'' : Streams} (h1 : Step cx s s') (h2 : Step cx s' s'') :
    Step cx s s'' where
  wakes := h1.wakes.trans h2.wakes
  nextKey := Nat.le_trans h1.nextKey h2.nextKey
  bounded := fun h => h2.bounded (h1.bounded h)
  fresh := fun k hk h => h2.fresh k (Nat.lt_of_lt_of_le hk h1.nextKey) (h1.fresh k hk h)
  keep := fun k a hk h => by
    rw [newWakes_trans h1.wakes h2.wakes]
    have hk' := Nat.lt_of_lt_of_le hk h1.nextKey
    rcases h1.keep k a hk h with h' | ⟨b, hb, hab⟩
    · exact Or.inl (h2.fresh k hk' h')
    · rcases h2.keep k b hk' hb with h'' | ⟨c, hc, hbc⟩
      · exact Or.inl h''
      · exact Or.inr ⟨c, hc, hab.trans hbc⟩
  task := by
    rw [newWakes_trans h1.wakes h2.wakes]
    exact h1.task.trans h2.task
  connError := fun h => h2.connError (h1.connError h)
  maxBuf := h2.maxBuf.trans h1.maxBuf

/-- a step for one specific polling task is in particular … (strict steps are the `cx = none` ones) -/
theorem Step.weaken {s s' : Streams} (h : Step none s s') (cx : Option String) : Step cx s s' where
  wakes := h.wakes
  nextKey := h.nextKey
  bounded := h.bounded
  fresh := h.fresh
  keep := h.keep
  task := by
    rcases h.task with e | ⟨e1, e2⟩
    · exact Or.inl e
    · refine Or.inr ⟨Or.inl (by simpa using e1), fun t ht => Or.inl ?_⟩
      simpa using e2 t ht
  connError := h.connError
  maxBuf := h.maxBuf

theorem Step.of_eq {cx : Option String} {s s' t : Streams} (h : Step cx s s') (e : s' = t) : Step cx s t := e ▸ h

/-- the left component of an equation between pairs -/
theorem Step.of_fst {cx : Option String} {α : Type} {s s' : Streams} {p : Streams × α} {r : α}
    (e : p = (s', r)) (h : Step cx s p.1) : Step cx s s' := by
  rw [e] at h; exact h

-- ===================================================================== primitive updates

/-- a step that leaves the store, the wake log and the connection task alone -/
theorem Step.of_frame {cx : Option String} {s s' : Streams} (h1 : s'.store = s.store) (h2 : s'.wakes = s.wakes)
    (h3 : s'.actions.task = s.actions.task)
    (h4 : s.actions.connError.isSome = true → s'.actions.connError.isSome = true)
    (h5 : s'.actions.send.prioritize.maxBufferSize = s.actions.send.prioritize.maxBufferSize) : Step cx s s' where
  wakes := by rw [h2]; exact List.prefix_refl _
  nextKey := by rw [h1]; exact Nat.le_refl _
  bounded := by rw [h1]; exact id
  fresh := by rw [h1]; exact fun _ _ h => h
  keep := by rw [h1]; exact fun _ a _ h => Or.inr ⟨a, h, SStep.refl _ _⟩
  task := Or.inl h3
  connError := h4
  maxBuf := h5

theorem panic_step (cx : Option String) (s : Streams) (m : String) : Step cx s (s.panic m) := by
  unfold Streams.panic; split
  · exact .refl _ _
  · exact .of_frame rfl rfl rfl id rfl

theorem unsup_step (cx : Option String) (s : Streams) (m : String) : Step cx s (s.unsup m) := by
  unfold Streams.unsup; split
  · exact .refl _ _
  · exact .of_frame rfl rfl rfl id rfl

theorem modPrio_step (cx : Option String) (s : Streams) (f : Prioritize → Prioritize)
    (hf : (f s.actions.send.prioritize).maxBufferSize = s.actions.send.prioritize.maxBufferSize) :
    Step cx s (s.modPrio f) :=
  .of_frame rfl rfl rfl id hf

theorem modSend_step (cx : Option String) (s : Streams) (f : Send → Send)
    (hf : (f s.actions.send).prioritize.maxBufferSize = s.actions.send.prioritize.maxBufferSize) :
    Step cx s (s.modSend f) :=
  .of_frame rfl rfl rfl id hf

theorem modRecv_step (cx : Option String) (s : Streams) (f : Recv → Recv) : Step cx s (s.modRecv f) :=
  .of_frame rfl rfl rfl id rfl

theorem modCounts_step (cx : Option String) (s : Streams) (f : Counts → Counts) : Step cx s (s.modCounts f) :=
  .of_frame rfl rfl rfl id rfl

theorem setCounts_step (cx : Option String) (s : Streams) (c : Counts) : Step cx s { s with counts := c } :=
  .of_frame rfl rfl rfl id rfl

theorem setRefs_step (cx : Option String) (s : Streams) (n : Nat) : Step cx s { s with refs := n } :=
  .of_frame rfl rfl rfl id rfl

theorem modCountsA_step (cx : Option String) (s : Streams) (m : String) (f : Counts → Option Counts) :
    Step cx s (s.modCountsA m f) := by
  unfold Streams.modCountsA; split
  · exact .of_frame rfl rfl rfl id rfl
  · exact panic_step _ _ _

theorem setQ_step (cx : Option String) (s : Streams) (q : QName) (l : List Nat) : Step cx s (s.setQ q l) := by
  cases q <;> exact .of_frame rfl rfl rfl id rfl

theorem setConnError_step (cx : Option String) (s : Streams) (e : PErr) :
    Step cx s { s with actions := { s.actions with connError := some e } } :=
  .of_frame rfl rfl rfl (fun _ => rfl) rfl

/-- writing tags to the wake log -/
theorem wake_step (cx : Option String) (s : Streams) (w : List String) : Step cx s (s.wake w) where
  wakes := ⟨w, rfl⟩
  nextKey := Nat.le_refl _
  bounded := id
  fresh := fun _ _ h => h
  keep := fun _ a _ h => Or.inr ⟨a, h, SStep.refl _ _⟩
  task := Or.inl rfl
  connError := id
  maxBuf := rfl

theorem notifyTask_step (cx : Option String) (s : Streams) : Step cx s s.notifyTask := by
  unfold Streams.notifyTask
  split
  · next t ht =>
    refine ⟨⟨[t], rfl⟩, Nat.le_refl _, id, fun _ _ h => h, fun _ a _ h => Or.inr ⟨a, h, SStep.refl _ _⟩, ?_, id, rfl⟩
    refine Or.inr ⟨Or.inl rfl, fun t' ht' => Or.inl ?_⟩
    rw [ht] at ht'; cases ht'
    simp [newWakes]
  · exact .refl _ _

/-- replacing the entry `a` at key `k` by `b` while the tags `w` are written to the wake log -/
theorem setStream_wake_step (cx : Option String) (s : Streams) {a b : Stream} {w : List String}
    (ha : s.store.get? b.key = some a) (hab : SStep w a b) : Step cx s ((s.setStream b).wake w) where
  wakes := ⟨w, rfl⟩
  nextKey := Nat.le_refl _
  bounded := fun h => h.set (by
    have := h.get? ha
    exact this)
  fresh := fun k _ h => by
    show (s.store.set b).get? k = none
    rw [Store.get?_set]; split <;> simp [h]
  keep := fun k x _ h => by
    refine Or.inr ?_
    have hw : newWakes s ((s.setStream b).wake w) = w := newWakes_of_eq rfl
    show ∃ y, (s.store.set b).get? k = some y ∧ _
    rw [Store.get?_set, hw]
    by_cases hk : k = b.key
    · subst hk
      rw [ha] at h; cases h
      exact ⟨b, by simp [ha], hab⟩
    · exact ⟨x, by simp [hk, h], SStep.refl _ _⟩
  task := Or.inl rfl
  connError := id
  maxBuf := rfl

theorem setStream_step (cx : Option String) (s : Streams) {a b : Stream}
    (ha : s.store.get? b.key = some a) (hab : SStep [] a b) : Step cx s (s.setStream b) := by
  have := setStream_wake_step cx s ha hab
  have e : (s.setStream b).wake [] = s.setStream b := by simp [Streams.wake]
  rwa [e] at this

theorem modStream_step (cx : Option String) (s : Streams) (k : Nat) (f : Stream → Stream)
    (hf : ∀ a, s.store.get? k = some a → SStep [] a (f a)) : Step cx s (s.modStream k f) := by
  unfold Streams.modStream
  split
  · next a ha =>
    have h := hf a ha
    have hk : (f a).key = k := by rw [h.key]; exact Store.get?_key ha
    exact setStream_step cx s (by rw [hk]; exact ha) h
  · exact panic_step _ _ _

theorem modStream_inert (cx : Option String) (s : Streams) (k : Nat) (f : Stream → Stream)
    (hf : ∀ a, Inert a (f a)) : Step cx s (s.modStream k f) :=
  modStream_step cx s k f fun a _ => (hf a).sstep _

theorem modStreamW_step (cx : Option String) (s : Streams) (k : Nat) (f : Stream → Stream × List String)
    (hf : ∀ a, s.store.get? k = some a → SStep (f a).2 a (f a).1) : Step cx s (s.modStreamW k f) := by
  unfold Streams.modStreamW
  split
  · next a ha =>
    have h := hf a ha
    have hk : (f a).1.key = k := by rw [h.key]; exact Store.get?_key ha
    exact setStream_wake_step cx s (by rw [hk]; exact ha) h
  · exact panic_step _ _ _

-- reading a stream back

theorem stream_eq_of_get? {s : Streams} {k : Nat} {a : Stream} (h : s.store.get? k = some a) : s.stream k = a := by
  simp [Streams.stream, h]

end H2V.Lemmas.ConnWakeP
