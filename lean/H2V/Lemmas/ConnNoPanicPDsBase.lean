import H2V.Lemmas.ConnNoPanicPPollComplete
/-
  C08 (no panic) — `DSum` / `Coupled` as invariants of the stream layer, part 1: two frame relations.

    `DSr r x`  : `buffered_send_data` of entry `x` covers its queued DATA plus `r` more octets (`DS x = DSr 0 x`;
                 `HeldOK s fr` = the entry `fr.key` is live and `DSr fr.rest` holds for it).
    `OHead x`  : a stream that waits in `pending_open` has no DATA frame at the front of its queue
                 (`send_reset` keeps that front frame and zeroes `buffered_send_data`).
    `UK s s'`  : `in_flight_data_frame` unchanged; every entry keeps `DSr r` for every `r` and `OHead`;
                 an entry with `DSr r`, `r > 0`, stays in the slab.  (Everything except `clear_queue`,
                 `queue_open`, queueing DATA, and their callers.)
    `GK s s'`  : `in_flight_data_frame` stays or goes `DataFrame → Drop`; every entry keeps `DS`; the entry the
                 marker still names afterwards keeps `DSr r` and stays live.  (Every function outside the write path.)
  Peeling tactics `uk_auto` (`f_uk`) and `gk_auto` (`f_gk`, falling back to `f_uk`).
-/
namespace H2V.Lemmas.ConnNoPanicP
open H2V H2V.Model H2V.Model.Conn H2V.Lemmas.ConnCountsP
attribute [local irreducible] wrapSubU32 wrapSubUsize

-- ===================================================================== one entry

def DSr (r : Nat) (x : Stream) : Prop := r + dsum x.pendingSend ≤ x.bufferedSendData ∧ x.bufferedSendData < USIZE_MOD

theorem ds_iff (x : Stream) : DS x ↔ DSr 0 x := by unfold DS DSr; rw [Nat.zero_add]

/-- a stream in `pending_open` has no DATA at the front of `pending_send` -/
def OHead (x : Stream) : Prop := x.isPendingOpen = true → dsum x.pendingSend.head?.toList = 0

theorem dsum_append (l m : List SFrame) : dsum (l ++ m) = dsum l + dsum m := by
  induction l with
  | nil => simp [dsum]
  | cons f l ih => cases f <;> simp only [List.cons_append, dsum, ih] <;> omega

theorem dsum_drop_le (n : Nat) (l : List SFrame) : dsum (l.drop n) ≤ dsum l := by
  induction n generalizing l with
  | zero => exact Nat.le_refl _
  | succ n ih =>
    cases l with
    | nil => exact Nat.le_refl _
    | cons f l => exact Nat.le_trans (ih l) (dsum_tail_le f l)

theorem dsum_single_of_notData {f : SFrame} (h : f.isData = false) : dsum [f] = 0 := by
  cases f <;> first | rfl | cases h

/-- what an update of an entry keeps -/
structure Kp (a b : Stream) : Prop where
  ds : ∀ r, DSr r a → DSr r b
  oh : OHead a → OHead b

theorem Kp.refl (a : Stream) : Kp a a := ⟨fun _ h => h, id⟩
theorem Kp.trans {a b c : Stream} (h1 : Kp a b) (h2 : Kp b c) : Kp a c :=
  ⟨fun r h => h2.ds r (h1.ds r h), fun h => h2.oh (h1.oh h)⟩

theorem dsr_of_fields {a b : Stream} (h1 : b.pendingSend = a.pendingSend) (h2 : b.bufferedSendData = a.bufferedSendData)
    (r : Nat) : DSr r a → DSr r b := by unfold DSr; rw [h1, h2]; exact id

theorem Kp.of_fields {a b : Stream} (h1 : b.pendingSend = a.pendingSend) (h2 : b.bufferedSendData = a.bufferedSendData)
    (h3 : b.isPendingOpen = a.isPendingOpen) : Kp a b :=
  ⟨dsr_of_fields h1 h2, by unfold OHead; rw [h1, h3]; exact id⟩

theorem dsr_blank {k r : Nat} (h : DSr r { key := k, id := 0 }) : r = 0 := by
  have := h.1
  simp only [dsum] at this
  omega

theorem OHead.blank (k : Nat) : OHead { key := k, id := 0 } := fun h => Bool.noConfusion h

theorem notifySend_proj4 (x : Stream) : x.notifySend.1.key = x.key ∧ x.notifySend.1.pendingSend = x.pendingSend ∧
    x.notifySend.1.bufferedSendData = x.bufferedSendData ∧ x.notifySend.1.isPendingOpen = x.isPendingOpen := by
  unfold Stream.notifySend
  cases h1 : x.sendTask <;> cases h2 : x.openTask <;> simp [h2]
theorem notifySend_kp (x : Stream) : x.notifySend.1.key = x.key ∧ Kp x x.notifySend.1 :=
  ⟨(notifySend_proj4 x).1, .of_fields (notifySend_proj4 x).2.1 (notifySend_proj4 x).2.2.1 (notifySend_proj4 x).2.2.2⟩
theorem notifyRecv_kp (x : Stream) : x.notifyRecv.1.key = x.key ∧ Kp x x.notifyRecv.1 := by
  unfold Stream.notifyRecv; split <;> exact ⟨rfl, .of_fields rfl rfl rfl⟩
theorem notifyPush_kp (x : Stream) : x.notifyPush.1.key = x.key ∧ Kp x x.notifyPush.1 := by
  unfold Stream.notifyPush; split <;> exact ⟨rfl, .of_fields rfl rfl rfl⟩
theorem notifyCapacity_kp (x : Stream) : x.notifyCapacity.1.key = x.key ∧ Kp x x.notifyCapacity.1 := by
  unfold Stream.notifyCapacity
  exact ⟨(notifySend_kp _).1, Kp.trans (b := { x with sendCapacityInc := true }) (.of_fields rfl rfl rfl) (notifySend_kp _).2⟩
theorem assignCapacity_kp (x : Stream) (a b : Nat) : (x.assignCapacity a b).1.key = x.key ∧ Kp x (x.assignCapacity a b).1 := by
  unfold Stream.assignCapacity; simp only []; split
  · exact ⟨(notifyCapacity_kp _).1,
      Kp.trans (b := { x with sendFlow := (x.sendFlow.assignCapacity a).1 }) (.of_fields rfl rfl rfl) (notifyCapacity_kp _).2⟩
  · exact ⟨rfl, .of_fields rfl rfl rfl⟩
theorem setReset_kp (x : Stream) (r : Reason) (i : Initiator) : (x.setReset r i).1.key = x.key ∧ Kp x (x.setReset r i).1 := by
  unfold Stream.setReset
  simp only []
  refine ⟨((notifyRecv_kp _).1.trans ((notifyPush_kp _).1.trans (notifySend_kp _).1)), ?_⟩
  exact Kp.trans (b := { x with state := x.state.setReset x.id r i }) (.of_fields rfl rfl rfl)
    ((notifySend_kp _).2.trans ((notifyPush_kp _).2.trans (notifyRecv_kp _).2))
theorem waitSend_kp (x : Stream) (t : String) : (x.waitSend t).key = x.key ∧ Kp x (x.waitSend t) := ⟨rfl, .of_fields rfl rfl rfl⟩
theorem waitOpen_kp (x : Stream) (t : String) : (x.waitOpen t).key = x.key ∧ Kp x (x.waitOpen t) := ⟨rfl, .of_fields rfl rfl rfl⟩
theorem setQueued_kp (x : Stream) (q : QName) (v : Bool) (h : q ≠ .pendingOpen ∨ v = false) :
    (x.setQueued q v).key = x.key ∧ Kp x (x.setQueued q v) := by
  cases q <;> first | exact ⟨rfl, .of_fields rfl rfl rfl⟩ | skip
  rcases h with h | h
  · exact absurd rfl h
  · subst h; exact ⟨rfl, dsr_of_fields rfl rfl, fun _ h => Bool.noConfusion h⟩
/-- a frame other than DATA is queued -/
theorem pushBack_kp (x : Stream) (f : SFrame) (hf : f.isData = false) :
    Kp x { x with pendingSend := x.pendingSend ++ [f] } := by
  refine ⟨fun r h => ?_, fun h hp => ?_⟩
  · unfold DSr at *
    show r + dsum (x.pendingSend ++ [f]) ≤ _ ∧ _
    rw [dsum_append, dsum_single_of_notData hf]; exact h
  · show dsum (x.pendingSend ++ [f]).head?.toList = 0
    cases hps : x.pendingSend with
    | nil => exact dsum_single_of_notData hf
    | cons g l =>
      have := h hp
      rw [hps] at this; exact this

/-- proves `(f x).key = x.key ∧ Kp x (f x)` -/
macro "kp_tac" : tactic => `(tactic| with_reducible first
  | exact ⟨rfl, Kp.of_fields rfl rfl rfl⟩
  | exact notifySend_kp _ | exact notifyRecv_kp _ | exact notifyPush_kp _ | exact notifyCapacity_kp _
  | exact assignCapacity_kp _ _ _ | exact setReset_kp _ _ _ | exact waitSend_kp _ _ | exact waitOpen_kp _ _
  | exact ⟨rfl, pushBack_kp _ _ rfl⟩)

-- ===================================================================== `UK`

structure UK (s s' : Streams) : Prop where
  nf : s'.prio.inFlightDataFrame = s.prio.inFlightDataFrame
  kp : ∀ j, Kp (s.stream j) (s'.stream j)
  lv : ∀ j r, 0 < r → DSr r (s.stream j) → Live s j → Live s' j

theorem UK.refl (s : Streams) : UK s s := ⟨rfl, fun _ => .refl _, fun _ _ _ _ h => h⟩
theorem UK.trans {a b c : Streams} (h1 : UK a b) (h2 : UK b c) : UK a c :=
  ⟨h2.nf.trans h1.nf, fun j => (h1.kp j).trans (h2.kp j),
   fun j r hr hd hl => h2.lv j r hr ((h1.kp j).ds r hd) (h1.lv j r hr hd hl)⟩
theorem UK.of_fst_eq {s : Streams} {α : Type} {p : Streams × α} {a : Streams} {x : α}
    (h : p = (a, x)) (e : UK s p.1) : UK s a := by subst h; exact e
theorem UK.of_eqs {s s' : Streams} (h1 : s'.store = s.store)
    (h2 : s'.prio.inFlightDataFrame = s.prio.inFlightDataFrame) : UK s s' :=
  ⟨h2, fun j => by rw [stream_of_store_eqP h1]; exact .refl _, fun j _ _ _ hl => by unfold Live at *; rw [h1]; exact hl⟩

theorem panic_uk (s : Streams) (m : String) : UK s (s.panic m) := .of_eqs (panic_store _ _) (by rw [panic_prioP])
theorem wake_uk (s : Streams) (t : List String) : UK s (s.wake t) := .of_eqs rfl rfl
theorem unsup_uk (s : Streams) (m : String) : UK s (s.unsup m) := by
  unfold Streams.unsup; split
  · exact .refl _
  · exact .of_eqs rfl rfl
theorem notifyTask_uk (s : Streams) : UK s s.notifyTask := by
  unfold Streams.notifyTask; split
  · exact .of_eqs rfl rfl
  · exact .refl _
theorem modPrio_uk (s : Streams) (f : Prioritize → Prioritize) (h : ∀ p, (f p).inFlightDataFrame = p.inFlightDataFrame) :
    UK s (s.modPrio f) := .of_eqs rfl (h _)
theorem modRecv_uk (s : Streams) (f : Recv → Recv) : UK s (s.modRecv f) := .of_eqs rfl rfl
theorem modSend_uk (s : Streams) (f : Send → Send) (h : ∀ p, (f p).prioritize = p.prioritize) : UK s (s.modSend f) :=
  .of_eqs rfl (by unfold Streams.prio Streams.modSend; rw [h])
theorem modCounts_uk (s : Streams) (f : Counts → Counts) : UK s (s.modCounts f) := .of_eqs rfl rfl
theorem modCountsA_uk (s : Streams) (w : String) (f : Counts → Option Counts) : UK s (s.modCountsA w f) := by
  unfold Streams.modCountsA; split
  · exact .of_eqs rfl rfl
  · exact panic_uk _ _
theorem setQ_uk (s : Streams) (q : QName) (l : List Nat) : UK s (s.setQ q l) :=
  .of_eqs (setQ_store _ _ _) (by cases q <;> rfl)
theorem setMisc_uk (s : Streams) (a : Actions) (refs leaked : Nat) (wk : List String) (un : Option String)
    (ha : a.send.prioritize = s.actions.send.prioritize) :
    UK s { s with actions := a, refs := refs, recvBufferLeaked := leaked, wakes := wk, unsupported := un } :=
  .of_eqs rfl (by unfold Streams.prio; rw [ha])
theorem setCounts_uk (s : Streams) (c : Counts) : UK s { s with counts := c } := .of_eqs rfl rfl

theorem setStream_uk (s : Streams) (st' : Stream) (h : Kp (s.stream st'.key) st') : UK s (s.setStream st') := by
  refine ⟨rfl, fun j => ?_, fun j _ _ _ hl => (SameKeys.setStream s st').live.mpr hl⟩
  rcases setStream_stream s st' j with e | ⟨e, hj, _⟩
  · rw [e]; exact .refl _
  · rw [e, hj]; exact h

/-- a stream update, judged on the entry it is applied to -/
theorem modStream_uk' (s : Streams) (k : Nat) (f : Stream → Stream) (hk : (f (s.stream k)).key = k)
    (h : Kp (s.stream k) (f (s.stream k))) : UK s (s.modStream k f) := by
  unfold Streams.modStream
  split
  · next st hst =>
    rw [stream_of_get? hst] at hk h
    refine setStream_uk s _ ?_
    rw [hk, stream_of_get? hst]; exact h
  · exact panic_uk _ _

theorem modStream_uk (s : Streams) (k : Nat) (f : Stream → Stream) (h : ∀ x, (f x).key = x.key ∧ Kp x (f x)) :
    UK s (s.modStream k f) := modStream_uk' s k f ((h _).1.trans (stream_key s k)) (h _).2

theorem modStreamW_uk (s : Streams) (k : Nat) (f : Stream → Stream × List String)
    (h : ∀ x, (f x).1.key = x.key ∧ Kp x (f x).1) : UK s (s.modStreamW k f) := by
  have h1 := modStream_uk s k (fun x => (f x).1) h
  unfold Streams.modStream at h1
  unfold Streams.modStreamW
  split
  · next st hst => rw [hst] at h1; exact h1.trans (wake_uk _ _)
  · exact panic_uk _ _

theorem qPush_uk (s : Streams) (q : QName) (k : Nat) (hq : q ≠ .pendingOpen) : UK s (s.qPush q k).1 := by
  unfold Streams.qPush; split
  · exact .refl _
  · exact (modStream_uk _ _ _ (fun x => setQueued_kp x q true (.inl hq))).trans (setQ_uk _ _ _)
theorem qPushFront_uk (s : Streams) (q : QName) (k : Nat) (hq : q ≠ .pendingOpen) : UK s (s.qPushFront q k).1 := by
  unfold Streams.qPushFront; split
  · exact .refl _
  · exact (modStream_uk _ _ _ (fun x => setQueued_kp x q true (.inl hq))).trans (setQ_uk _ _ _)
theorem qPop_uk (s : Streams) (q : QName) : UK s (s.qPop q).1 := by
  unfold Streams.qPop; split
  · exact .refl _
  · exact (setQ_uk _ _ _).trans (modStream_uk _ _ _ (fun x => setQueued_kp x q false (.inr rfl)))

/-- forgetting a slab entry nothing is buffered on -/
theorem remove_uk (s : Streams) (k n : Nat) (hb : (s.stream k).bufferedSendData = 0) :
    UK s { s with store := s.store.remove k, recvBufferLeaked := n } := by
  have hne : ∀ j, j ≠ k → ({ s with store := s.store.remove k, recvBufferLeaked := n } : Streams).stream j = s.stream j := by
    intro j hj
    unfold Streams.stream
    show ((s.store.remove k).get? j).getD _ = _
    rw [get?_remove_ne _ _ _ hj]
  have hr0 : ∀ r, DSr r (s.stream k) → r = 0 := by
    intro r h; have := h.1; rw [hb] at this; omega
  refine ⟨rfl, fun j => ?_, fun j r hr hd hl => ?_⟩
  · by_cases hj : j = k
    · subst hj
      have hbl : ({ s with store := s.store.remove j, recvBufferLeaked := n } : Streams).stream j = { key := j, id := 0 } := by
        unfold Streams.stream
        have : (s.store.remove j).get? j = none := by
          unfold Store.remove Store.get?
          refine List.find?_eq_none.mpr ?_
          intro x hx
          have := (List.mem_filter.mp hx).2
          simpa using this
        show ((s.store.remove j).get? j).getD _ = _
        rw [this]; rfl
      rw [hbl]
      refine ⟨fun r h => ?_, fun _ => OHead.blank _⟩
      rw [hr0 r h]
      exact (ds_iff _).mp (DS.blank _)
    · rw [hne j hj]; exact .refl _
  · by_cases hj : j = k
    · subst hj; have := hr0 r hd; omega
    · unfold Live at *
      show ∃ x, (s.store.remove k).get? j = some x
      rw [get?_remove_ne _ _ _ hj]; exact hl

theorem unlink_uk (s : Streams) (id : Nat) : UK s { s with store := s.store.unlink id } :=
  ⟨rfl, fun _ => .refl _, fun _ _ _ _ hl => hl⟩

/-- a new slab entry with nothing queued -/
theorem insert_uk (s : Streams) (st : Stream) (h1 : st.pendingSend = []) (h2 : st.bufferedSendData = 0)
    (h3 : st.isPendingOpen = false) : UK s { s with store := (s.store.insert st).1 } := by
  refine ⟨rfl, fun j => ?_, fun j _ _ _ hl => ?_⟩
  · unfold Streams.stream
    show Kp _ (((s.store.insert st).1.get? j).getD _)
    rcases insert_get?_cases s.store st j with e | ⟨e0, _, e⟩
    · rw [e]; exact .refl _
    · rw [e, e0]
      simp only [Option.getD_some, Option.getD_none]
      refine ⟨fun r h => ?_, fun _ hp => ?_⟩
      · rw [dsr_blank h]
        unfold DSr
        show 0 + dsum st.pendingSend ≤ st.bufferedSendData ∧ st.bufferedSendData < USIZE_MOD
        rw [h1, h2]; exact ⟨Nat.le_refl _, by decide⟩
      · have : st.isPendingOpen = true := hp
        rw [h3] at this; cases this
  · obtain ⟨x, hx⟩ := hl
    exact ⟨x, insert_get?_old _ _ _ _ hx⟩


theorem insertNew_uk (s : Streams) (id a b : Nat) : UK s { s with store := (s.store.insert (Stream.new id a b)).1 } :=
  insert_uk s _ rfl rfl rfl

-- ===================================================================== the peeling tactic (design of `lt_auto` / `relHead`)

open Lean Elab Tactic Meta in
/-- goal `R s0 (f … s …)` (possibly under `.1`): peel `f` with the lemma `f<sfx>` found by name in this namespace; when there
    is none and `fb = some (sfx', conv)`, with `f<sfx'>` through `conv : R' a b → R a b` -/
def relHead2 (rel : Name) (sfx : String) (fb : Option (String × Name)) (recordCase : Syntax) : TacticM Unit := withMainContext do
  let g ← getMainGoal
  let t ← instantiateMVars (← g.getType)
  let t := t.cleanupAnnotations
  unless t.isAppOfArity rel 2 do throwError "rel_head: not a goal of the relation"
  let e := t.appArg!
  let rec headOf (e : Expr) (fuel : Nat) : Option Name :=
    match fuel with
    | 0 => none
    | fuel + 1 =>
      match e with
      | .proj _ _ b => headOf b fuel
      | .mdata _ b => headOf b fuel
      | _ =>
        match e.getAppFn with
        | .const n _ =>
          if n == ``Prod.fst || n == ``Prod.snd then
            match e.getAppArgs.back? with
            | some a =>
              if a.isAppOfArity ``Prod.mk 4 then
                headOf (if n == ``Prod.fst then a.getAppArgs[2]! else a.getAppArgs[3]!) fuel
              else headOf a fuel
            | none => none
          else some n
        | _ => none
  match headOf e 8 with
  | none => throwError "rel_head: no head constant"
  | some n =>
    if n == ``Streams.mk then evalTactic recordCase else
    let last := match n with
      | .str _ s => s
      | _ => "?"
    let lemmaName := (`H2V.Lemmas.ConnNoPanicP).str (last ++ sfx)
    let env ← getEnv
    let via : Option (Name × Name) := match fb with
      | some (sfx', conv) =>
        let n' := (`H2V.Lemmas.ConnNoPanicP).str (last ++ sfx')
        if !env.contains lemmaName && env.contains n' then some (n', conv) else none
      | none => none
    unless env.contains lemmaName || via.isSome do throwError "rel_head: no lemma {lemmaName}"
    let gs ← g.apply (← mkConstWithFreshMVarLevels (rel ++ `trans))
    let gs ← gs.filterM fun m => do
      let ty ← instantiateMVars (← m.getType)
      pure (ty.cleanupAnnotations.isAppOfArity rel 2)
    match gs with
    | [g1, g2] =>
      match via with
      | some (n', conv) =>
        let gs2 ← g2.apply (← mkConstWithFreshMVarLevels conv)
        match gs2 with
        | [g3] =>
          let side ← withReducible (g3.apply (← mkConstWithFreshMVarLevels n'))
          replaceMainGoal (g1 :: side)
        | _ => throwError "rel_head: unexpected goals after the conversion"
      | none =>
        let side ← withReducible (g2.apply (← mkConstWithFreshMVarLevels lemmaName))
        replaceMainGoal (g1 :: side)
    | _ => throwError "rel_head: unexpected goals after trans"

syntax "uk_side" : tactic
macro_rules | `(tactic| uk_side) => `(tactic| (intro _; exact Eq.refl _))
macro_rules | `(tactic| uk_side) => `(tactic| (intro _; kp_tac))
macro_rules | `(tactic| uk_side) => `(tactic| decide)
macro_rules | `(tactic| uk_side) => `(tactic| exact Eq.refl _)
macro_rules | `(tactic| uk_side) => `(tactic| assumption)

elab "uk_head" : tactic => do
  relHead2 ``UK "_uk" none (← `(tactic| first
    | with_reducible refine UK.trans ?_ (setMisc_uk _ _ _ _ _ _ rfl)
    | with_reducible refine UK.trans ?_ (setCounts_uk _ _)
    | with_reducible refine UK.trans ?_ (insertNew_uk _ _ _ _)))

syntax "uk_step" : tactic
macro_rules | `(tactic| uk_step) => `(tactic| uk_head)
macro_rules | `(tactic| uk_step) => `(tactic| with_reducible refine UK.of_fst_eq (by with_reducible assumption) ?_)
macro_rules | `(tactic| uk_step) => `(tactic| with_reducible assumption)
macro_rules | `(tactic| uk_step) => `(tactic| with_reducible exact UK.refl _)

macro "uk_auto" : tactic => `(tactic| repeat (first | uk_step | uk_side | intro _ | split | dsimp only))
macro "uk_auto_ih" ih:ident : tactic =>
  `(tactic| repeat (first | uk_step | with_reducible refine UK.trans ?_ ($ih ..) | uk_side | intro _ | split | dsimp only))

theorem decNumStreams_uk (s : Streams) (k : Nat) : UK s (s.decNumStreams k) := by
  unfold Streams.decNumStreams; uk_auto
theorem incNumSendStreams_uk (s : Streams) (k : Nat) : UK s (s.incNumSendStreams k) := by
  unfold Streams.incNumSendStreams; uk_auto
theorem incNumRecvStreams_uk (s : Streams) (k : Nat) : UK s (s.incNumRecvStreams k) := by
  unfold Streams.incNumRecvStreams; uk_auto

theorem buffered_zero_of_released {x : Stream} (h : x.isReleased = true) : x.bufferedSendData = 0 := by
  unfold Stream.isReleased Stream.isClosed at h
  simp only [Bool.and_eq_true, beq_iff_eq] at h
  exact h.1.1.1.1.1.1.1.2

theorem transitionAfter_uk (s : Streams) (k : Nat) (b : Bool) : UK s (s.transitionAfter k b) := by
  unfold Streams.transitionAfter
  dsimp only
  generalize hs1 : (if (b && !(s.stream k).isPendingResetExpiration) = true then _ else s) = s1
  have h1 : UK s s1 := by rw [← hs1]; split; exact modCountsA_uk _ _ _; exact .refl _
  generalize hs2 : (if (s.stream k).isClosed = true then _ else s1) = s2
  have h2 : UK s s2 := by
    rw [← hs2]; split
    · generalize hs3 : (if (!(s.stream k).isPendingResetExpiration) = true then
          ({ s1 with store := s1.store.unlink (s.stream k).id } : Streams) else s1) = s3
      have h3 : UK s s3 := by rw [← hs3]; split; exact h1.trans (unlink_uk _ _); exact h1
      split
      · exact h3.trans (decNumStreams_uk _ _)
      · exact h3
    · exact h1
  split
  · next hrel =>
    have hb := buffered_zero_of_released hrel
    generalize hs4 : (if (s2.stream k).isCounted = true then s2.decNumStreams k else s2) = s4
    have h4 : UK s s4 := by rw [← hs4]; split; exact h2.trans (decNumStreams_uk _ _); exact h2
    have hb4 : (s4.stream k).bufferedSendData = 0 := by
      rw [← hs4]; split
      · exact (decNumStreams_spr (P := fun x => x.bufferedSendData) s2 k (fun _ _ => rfl) k).trans hb
      · exact hb
    exact h4.trans (remove_uk _ _ _ hb4)
  · exact h2

theorem transition_uk {α : Type} (s : Streams) (k : Nat) (f : Streams → Streams × α) (hf : ∀ s, UK s (f s).1) :
    UK s (s.transition k f).1 := by
  have : (s.transition k f).1 = (f s).1.transitionAfter k (s.stream k).isPendingResetExpiration := by
    unfold Streams.transition; rfl
  rw [this]
  exact (hf s).trans (transitionAfter_uk _ _ _)

-- ===================================================================== `Store::try_for_each`, generic in the relation

structure RelOK (R : Streams → Streams → Prop) : Prop where
  refl : ∀ s, R s s
  trans : ∀ {a b c}, R a b → R b c → R a c
  panic : ∀ s m, R s (Streams.panic s m)

theorem tryForEach_rel {R : Streams → Streams → Prop} (hR : RelOK R) (f : Streams → Nat → Streams × Option PErr)
    (hf : ∀ s k, R s (f s k).1) : ∀ (fuel i len : Nat) (s : Streams), R s (Streams.tryForEach f fuel i len s).1 := by
  intro fuel
  induction fuel with
  | zero => intro i len s; exact hR.refl _
  | succ n ih =>
    intro i len s
    unfold Streams.tryForEach
    split
    · split
      · exact hR.panic _ _
      · next id _ =>
        have := hf s id
        split
        · next s' e heq => rw [heq] at this; exact this
        · next s' heq =>
          rw [heq] at this
          dsimp only
          split
          · exact hR.trans this (ih _ _ _)
          · exact hR.trans this (ih _ _ _)
    · exact hR.refl _

theorem tryForEachAcc_rel {R : Streams → Streams → Prop} (hR : RelOK R) (f : Nat → Streams → Nat → Streams × Nat × Option PErr)
    (hf : ∀ a s k, R s (f a s k).1) :
    ∀ (fuel i len acc : Nat) (s : Streams), R s (Streams.tryForEachAcc f fuel i len acc s).1 := by
  intro fuel
  induction fuel with
  | zero => intro i len acc s; exact hR.refl _
  | succ n ih =>
    intro i len acc s
    unfold Streams.tryForEachAcc
    split
    · split
      · exact hR.panic _ _
      · next id _ =>
        have := hf acc s id
        split
        · next s' a' e heq => rw [heq] at this; exact this
        · next s' a' heq =>
          rw [heq] at this
          dsimp only
          split
          · exact hR.trans this (ih _ _ _ _)
          · exact hR.trans this (ih _ _ _ _)
    · exact hR.refl _

theorem foldl_rel {R : Streams → Streams → Prop} (hR : RelOK R) {α : Type} (f : Streams → α → Streams) (hf : ∀ s x, R s (f s x)) :
    ∀ (l : List α) (s : Streams), R s (l.foldl f s) := by
  intro l
  induction l with
  | nil => intro s; exact hR.refl _
  | cons a l ih => intro s; exact hR.trans (hf s a) (ih _)

theorem uk_relOK : RelOK UK := ⟨UK.refl, UK.trans, panic_uk⟩

theorem tryForEach_uk (f : Streams → Nat → Streams × Option PErr) (hf : ∀ s k, UK s (f s k).1) (fuel i len : Nat) (s : Streams) :
    UK s (Streams.tryForEach f fuel i len s).1 := tryForEach_rel uk_relOK f hf fuel i len s
theorem storeTryForEach_uk (s : Streams) (f : Streams → Nat → Streams × Option PErr) (hf : ∀ s k, UK s (f s k).1) :
    UK s (s.storeTryForEach f).1 := tryForEach_uk f hf _ _ _ s
theorem storeForEach_uk (s : Streams) (f : Streams → Nat → Streams) (hf : ∀ s k, UK s (f s k)) :
    UK s (s.storeForEach f) := storeTryForEach_uk s _ (fun s k => hf s k)
theorem tryForEachAcc_uk (f : Nat → Streams → Nat → Streams × Nat × Option PErr) (hf : ∀ a s k, UK s (f a s k).1)
    (fuel i len acc : Nat) (s : Streams) : UK s (Streams.tryForEachAcc f fuel i len acc s).1 :=
  tryForEachAcc_rel uk_relOK f hf fuel i len acc s
theorem foldl_uk {α : Type} (f : Streams → α → Streams) (hf : ∀ s x, UK s (f s x)) (l : List α) (s : Streams) :
    UK s (l.foldl f s) := foldl_rel uk_relOK f hf l s


end H2V.Lemmas.ConnNoPanicP
