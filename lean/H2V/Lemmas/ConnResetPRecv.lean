import H2V.Lemmas.ConnResetPPop
/-
  ConnResetP — `Evolves (SRel D) RInv` for the operations of recv.rs that move the state machine.
-/
set_option linter.unusedSectionVars false
namespace H2V.Lemmas.ConnResetP
open H2V H2V.Model H2V.Model.Conn
variable {D : Nat → Prop}

set_option allowUnsafeReducibility true in
attribute [local reducible] Streams.stream Store.getD'

section
variable {a : Store} {s : Streams}

theorem recvRecvHeaders_sr (h : Evolves (SRel D) RInv a s.store) (id : Nat) (hd : HeadersIn) :
    Evolves (SRel D) RInv a (s.recvRecvHeaders id hd).1.store := by
  unfold Streams.recvRecvHeaders; ev
macro_rules | `(tactic| ev_step) => `(tactic| with_reducible apply recvRecvHeaders_sr)

theorem recvRecvTrailers_sr (h : Evolves (SRel D) RInv a s.store) (id : Nat) (hd : HeadersIn) :
    Evolves (SRel D) RInv a (s.recvRecvTrailers id hd).1.store := by
  unfold Streams.recvRecvTrailers; ev
macro_rules | `(tactic| ev_step) => `(tactic| with_reducible apply recvRecvTrailers_sr)

theorem recvRecvData_sr (h : Evolves (SRel D) RInv a s.store) (id : Nat) (p : Bytes) (eos : Bool) (pl : Option Nat) :
    Evolves (SRel D) RInv a (s.recvRecvData id p eos pl).1.store := by
  unfold Streams.recvRecvData; ev
macro_rules | `(tactic| ev_step) => `(tactic| with_reducible apply recvRecvData_sr)

theorem recvRecvPushPromise_sr (h : Evolves (SRel D) RInv a s.store) (id : Nat) (hd : HeadersIn) :
    Evolves (SRel D) RInv a (s.recvRecvPushPromise id hd).1.store := by
  unfold Streams.recvRecvPushPromise; ev
macro_rules | `(tactic| ev_step) => `(tactic| with_reducible apply recvRecvPushPromise_sr)

theorem recvRecvReset_sr (h : Evolves (SRel D) RInv a s.store) (id : Nat) (r : Reason) :
    Evolves (SRel D) RInv a (s.recvRecvReset id r).1.store := by
  unfold Streams.recvRecvReset; ev
macro_rules | `(tactic| ev_step) => `(tactic| with_reducible apply recvRecvReset_sr)

theorem recvHandleError_sr (h : Evolves (SRel D) RInv a s.store) (id : Nat) (e : PErr) :
    Evolves (SRel D) RInv a (s.recvHandleError id e).store := by
  unfold Streams.recvHandleError; ev
macro_rules | `(tactic| ev_step) => `(tactic| with_reducible apply recvHandleError_sr)

theorem recvRecvEof_sr (h : Evolves (SRel D) RInv a s.store) (id : Nat) :
    Evolves (SRel D) RInv a (s.recvRecvEof id).store := by
  unfold Streams.recvRecvEof; ev
macro_rules | `(tactic| ev_step) => `(tactic| with_reducible apply recvRecvEof_sr)

end
end H2V.Lemmas.ConnResetP
