import H2V.Lemmas.ConnNoPanicPAccInv
/-
  C08 (no panic) — the server accept path, part 6: `J` along the steps that release or create slab
  entries (`transition_after`, `Store::insert`, the unlink/remove of a failed `send_request`) and along the
  pop of `pending_accept`.
-/
namespace H2V.Lemmas.ConnNoPanicP
open H2V H2V.Model H2V.Model.Conn H2V.Lemmas.ConnCountsP
attribute [local irreducible] wrapSubU32 wrapSubUsize

/-- the projections of an entry the accept path looks at -/
def accP (x : Stream) : Nat × State × List REvent × Bool := (x.refCount, x.state, x.pendingRecv, x.isPendingAccept)

theorem accP_eq {a b : Stream} (h : accP b = accP a) :
    b.refCount = a.refCount ∧ b.state = a.state ∧ b.pendingRecv = a.pendingRecv ∧ b.isPendingAccept = a.isPendingAccept := by
  unfold accP at h
  simp only [Prod.mk.injEq] at h
  exact h

theorem SI.of_accP {a b : Stream} (h : accP b = accP a) (ha : SI a) : SI b := by
  obtain ⟨h1, h2, h3, _⟩ := accP_eq h
  unfold SI; rw [h1, h2, h3]; exact ha
theorem ReqHead.of_accP {a b : Stream} (h : accP b = accP a) (ha : ReqHead a) : ReqHead b := by
  obtain ⟨_, _, h3, _⟩ := accP_eq h
  unfold ReqHead; rw [h3]; exact ha

/-- **entries may disappear, the remaining ones are untouched**: `J` survives when the flagged entries stay -/
theorem J.sub {s s' : Streams} (hj : J s) (hqf : QF .pendingAccept s s')
    (hsub : ∀ j, Live s' j → Live s j ∧ accP (s'.stream j) = accP (s.stream j)) (hc : COK s.counts s'.counts) : J s' := by
  have hq : s'.recv.pendingAccept = s.recv.pendingAccept := hqf.queue
  have hacc := AccOK.of_qf hqf hj.acc
  refine ⟨hacc, fun k hk => ?_, ?_, fun hs j hl => ?_, fun hs => ?_⟩
  · have hl := hacc.live hk
    rw [hq] at hk
    obtain ⟨h1, h2⟩ := hj.qd k hk
    obtain ⟨_, he⟩ := hsub k hl
    exact ⟨(accP_eq he).1.trans h1, ReqHead.of_accP he h2⟩
  · refine Nat.le_trans ?_ (Nat.le_trans hj.rr hc.cnt)
    unfold rrCount
    rw [hq]
    refine countP_mono' (fun j hjq hf => ?_)
    rw [(accP_eq (hsub j (hacc.live (hq ▸ hjq))).2).2.1] at hf; exact hf
  · rw [hc.srv] at hs
    obtain ⟨hl', he⟩ := hsub j hl
    exact SI.of_accP he (hj.si hs j hl')
  · rw [hc.srv] at hs; rw [hq]; exact hj.cl hs

-- ===================================================================== `transition_after`

theorem stream_of_slab {s m : Streams} (h : m.store.slab = s.store.slab) (j : Nat) : m.stream j = s.stream j := by
  unfold Streams.stream Store.get?; rw [h]

theorem get?_remove_self (st : Store) (k : Nat) : (st.remove k).get? k = none := by
  unfold Store.remove Store.get?
  dsimp only
  rw [List.find?_eq_none]
  intro x hx
  have := (List.mem_filter.mp hx).2
  simp only [bne_iff_ne, ne_eq] at this
  simp only [beq_iff_eq]; exact this

/-- `transition_after` up to a state `m` with the same slab keys and the same `P` of every entry: the final store is
    `m`'s, possibly without entry `k` -/
theorem transitionAfter_shapeA {α : Type} (P : Stream → α) (hP : ∀ x b, P ({ x with isCounted := b } : Stream) = P x)
    (s : Streams) (k : Nat) (b : Bool) :
    ∃ m : Streams, SameKeys s m ∧ SPr P s m ∧
      ((s.transitionAfter k b).store = m.store ∨ (s.transitionAfter k b).store = m.store.remove k) := by
  rw [transitionAfter_split]
  generalize hs1 : (if (b && !(s.stream k).isPendingResetExpiration) = true then
      s.modCountsA "self.num_local_reset_streams > 0" Counts.decNumResetStreams else s) = s1
  have h1 : s1.store = s.store := by rw [← hs1]; split; exact modCountsA_store' _ _ _; rfl
  have hst : s1.stream k = s.stream k := by unfold Streams.stream; rw [h1]
  unfold Streams.transitionAfter
  simp only [Bool.false_and, Bool.false_eq_true, if_false]
  rw [hst]
  generalize hs2 : (if (s.stream k).isClosed = true then _ else s1) = s2
  have h2 : SameKeys s s2 ∧ SPr P s s2 := by
    rw [← hs2]
    split
    · generalize hs3 : (if (!(s.stream k).isPendingResetExpiration) = true then
          ({ s1 with store := s1.store.unlink (s.stream k).id } : Streams) else s1) = s3
      have h3 : SameKeys s s3 ∧ SPr P s s3 := by
        rw [← hs3]
        split
        · have hsl : ({ s1 with store := s1.store.unlink (s.stream k).id } : Streams).store.slab = s.store.slab := by
            show s1.store.slab = _; rw [h1]
          have hnk : ({ s1 with store := s1.store.unlink (s.stream k).id } : Streams).store.nextKey = s.store.nextKey := by
            show s1.store.nextKey = _; rw [h1]
          exact ⟨⟨by rw [hsl], hnk⟩, fun j => by rw [stream_of_slab hsl]⟩
        · exact ⟨.of_store_eq h1, .of_store h1⟩
      split
      · exact ⟨h3.1.trans (SameKeys.decNumStreams _ _), h3.2.trans (decNumStreams_spr _ _ hP)⟩
      · exact h3
    · exact ⟨.of_store_eq h1, .of_store h1⟩
  by_cases hrel : (s2.stream k).isReleased = true
  · simp only [hrel, if_true]
    refine ⟨if (s2.stream k).isCounted = true then s2.decNumStreams k else s2, ?_, ?_, Or.inr rfl⟩
    · split
      · exact h2.1.trans (SameKeys.decNumStreams _ _)
      · exact h2.1
    · split
      · exact h2.2.trans (decNumStreams_spr _ _ hP)
      · exact h2.2
  · simp only [hrel, Bool.false_eq_true, if_false]
    exact ⟨s2, h2.1, h2.2, Or.inl rfl⟩

theorem transitionAfter_sub {α : Type} (P : Stream → α) (hP : ∀ x b, P ({ x with isCounted := b } : Stream) = P x)
    (s : Streams) (k : Nat) (b : Bool) (j : Nat) (hl : Live (s.transitionAfter k b) j) :
    Live s j ∧ P ((s.transitionAfter k b).stream j) = P (s.stream j) := by
  obtain ⟨m, hk, hp, hfin⟩ := transitionAfter_shapeA P hP s k b
  rcases hfin with e | e
  · have hl' : Live m j := by unfold Live at hl ⊢; rw [e] at hl; exact hl
    refine ⟨hk.live.mp hl', ?_⟩
    have : (s.transitionAfter k b).stream j = m.stream j := by unfold Streams.stream; rw [e]
    rw [this]; exact hp j
  · have hjk : j ≠ k := by
      intro hjk; subst hjk
      obtain ⟨x, hx⟩ := hl
      rw [e, get?_remove_self] at hx; cases hx
    have hg : (s.transitionAfter k b).store.get? j = m.store.get? j := by rw [e]; exact get?_remove_ne _ _ _ hjk
    have hl' : Live m j := by unfold Live at hl ⊢; rw [hg] at hl; exact hl
    refine ⟨hk.live.mp hl', ?_⟩
    have : (s.transitionAfter k b).stream j = m.stream j := by unfold Streams.stream; rw [hg]
    rw [this]; exact hp j

theorem decNumStreams_cok (s : Streams) (k : Nat) : COK s.counts (s.decNumStreams k).counts := by
  unfold Streams.decNumStreams
  dsimp only
  generalize hs1 : (if (s.stream k).isCounted = true then s else s.panic _) = s1
  have h1 : s1.counts = s.counts := by rw [← hs1]; split; rfl; exact panic_counts _ _
  split
  · generalize hs2 : (if s1.counts.numSendStreams > 0 then s1 else s1.panic _) = s2
    have h2 : s2.counts = s1.counts := by rw [← hs2]; split; rfl; exact panic_counts _ _
    rw [modStream_counts]
    show COK _ (Counts.mk ..)
    rw [← h1, ← h2]; exact ⟨Nat.le_refl _, rfl⟩
  · generalize hs2 : (if s1.counts.numRecvStreams > 0 then s1 else s1.panic _) = s2
    have h2 : s2.counts = s1.counts := by rw [← hs2]; split; rfl; exact panic_counts _ _
    rw [modStream_counts]
    show COK _ (Counts.mk ..)
    rw [← h1, ← h2]; exact ⟨Nat.le_refl _, rfl⟩

theorem COK.refl (c : Counts) : COK c c := ⟨Nat.le_refl _, rfl⟩

theorem transitionAfter_cok (s : Streams) (k : Nat) (b : Bool) : COK s.counts (s.transitionAfter k b).counts := by
  unfold Streams.transitionAfter
  dsimp only
  generalize hs1 : (if (b && !(s.stream k).isPendingResetExpiration) = true then _ else s) = s1
  have h1 : COK s.counts s1.counts := by
    rw [← hs1]; split
    · unfold Streams.modCountsA; split
      · next c hc => exact cok_decReset _ _ hc
      · rw [panic_counts]; exact .refl _
    · exact .refl _
  generalize hs2 : (if (s.stream k).isClosed = true then _ else s1) = s2
  have h2 : COK s.counts s2.counts := by
    rw [← hs2]; split
    · generalize hs3 : (if (!(s.stream k).isPendingResetExpiration) = true then
          ({ s1 with store := s1.store.unlink (s.stream k).id } : Streams) else s1) = s3
      have h3 : COK s.counts s3.counts := by rw [← hs3]; split; exact h1; exact h1
      split
      · exact h3.trans (decNumStreams_cok _ _)
      · exact h3
    · exact h1
  split
  · show COK s.counts (if (s2.stream k).isCounted = true then s2.decNumStreams k else s2).counts
    split
    · exact h2.trans (decNumStreams_cok _ _)
    · exact h2
  · exact h2

/-- **`transition_after` keeps `J`** -/
theorem J.transitionAfter {s : Streams} (hj : J s) (k : Nat) (b : Bool) : J (s.transitionAfter k b) :=
  hj.sub (QF.transitionAfter _ _ _ _) (transitionAfter_sub accP (fun _ _ => rfl) s k b) (transitionAfter_cok s k b)

theorem J.transition {α : Type} {s : Streams} (k : Nat) (f : Streams → Streams × α) (hj : J (f s).1) : J (s.transition k f).1 := by
  have : (s.transition k f).1 = (f s).1.transitionAfter k (s.stream k).isPendingResetExpiration := by
    unfold Streams.transition; rfl
  rw [this]; exact hj.transitionAfter _ _

-- ===================================================================== a new slab entry

theorem J.insert {s : Streams} (hj : J s) (st : Stream) (hf : st.isPendingAccept = false)
    (h1 : st.refCount = 0) (h2 : st.pendingRecv = []) : J { s with store := (s.store.insert st).1 } := by
  have hold : ∀ j, Live s j → ({ s with store := (s.store.insert st).1 } : Streams).stream j = s.stream j :=
    fun j hl => stream_insert_old st hl
  have hacc := AccOK.of_qf (QF.insert .pendingAccept s st hf) hj.acc
  refine ⟨hacc, fun k hkq => ?_, ?_, fun hs j hl => ?_, hj.cl⟩
  · rw [hold k (hj.acc.live hkq)]; exact hj.qd k hkq
  · refine Nat.le_trans ?_ hj.rr
    unfold rrCount
    exact countP_mono' (fun j hjq hfj => by rw [hold j (hj.acc.live hjq)] at hfj; exact hfj)
  · rcases insert_get?_cases s.store st j with e | ⟨_, hjn, e⟩
    · have hl' : Live s j := by unfold Live at hl ⊢; rw [← e]; exact hl
      rw [hold j hl']; exact hj.si hs j hl'
    · have : ({ s with store := (s.store.insert st).1 } : Streams).stream j = { st with key := s.store.nextKey } := stream_of_get? e
      rw [this]
      intro _; exact ⟨h1, h2⟩

theorem new_acc (id a b : Nat) : (Stream.new id a b).isPendingAccept = false ∧ (Stream.new id a b).refCount = 0 ∧
    (Stream.new id a b).pendingRecv = [] := ⟨rfl, rfl, rfl⟩

-- ===================================================================== the pop of `pending_accept`

/-- what `Recv::next_incoming` leaves: `J`, and the facts about the popped stream -/
theorem J.qPopAcc {s : Streams} (hj : J s) {s1 : Streams} {id : Nat} (h : s.qPop .pendingAccept = (s1, some id)) :
    J s1 ∧ Live s id ∧ Live s1 id ∧ s1.counts = s.counts ∧ id ∉ s1.recv.pendingAccept ∧
    (s.stream id).refCount = 0 ∧ ReqHead (s.stream id) ∧ s.counts.isServer = true ∧
    (s1.stream id).refCount = 0 ∧ (s1.stream id).pendingRecv = (s.stream id).pendingRecv ∧
    (s1.stream id).state = (s.stream id).state ∧
    ((s.stream id).state.isRemoteReset = true → rrCount s1 + 1 ≤ s.counts.numRemoteResetStreams) := by
  have hacc1 := hj.acc.qPop
  unfold Streams.qPop at h hacc1
  split at h
  · cases h
  · next id' rest heq =>
    simp only [Prod.mk.injEq, Option.some.injEq] at h
    obtain ⟨h, hid⟩ := h
    subst hid
    rw [heq] at hacc1
    dsimp only at hacc1
    rw [h] at hacc1
    have heq' : s.recv.pendingAccept = id' :: rest := heq
    have hmem : id' ∈ s.recv.pendingAccept := by rw [heq']; exact List.mem_cons_self ..
    have hl : Live s id' := hj.acc.live hmem
    have hl0 : Live (s.setQ .pendingAccept rest) id' := live_setQ.mpr hl
    have hnd := hj.acc.nodup
    rw [heq'] at hnd
    have hnd' := List.nodup_cons.mp hnd
    have hq1 : s1.recv.pendingAccept = rest := by
      rw [← h]
      show Streams.getQ _ .pendingAccept = rest
      rw [getQ_modStream, getQ_setQ]
    have hst1 : s1.stream id' = (s.stream id').setQueued .pendingAccept false := by
      rw [← h, stream_modStream_live hl0 _ (fun x => setQueued_key x _ _), setQ_stream]
    have hoth : ∀ j, j ≠ id' → s1.stream j = s.stream j := by
      intro j hj'
      rw [← h, stream_modStream_ne _ _ _ (fun x => setQueued_key x _ _) hj', setQ_stream]
    have hc1 : s1.counts = s.counts := by rw [← h, modStream_counts, setQ_counts]
    have hkeys : SameKeys s s1 := by
      rw [← h]; exact (SameKeys.setQ _ _ _).trans (SameKeys.modStream _ _ _)
    have hsrv : s.counts.isServer = true := by
      cases hh : s.counts.isServer with
      | true => rfl
      | false => have := hj.cl hh; rw [this] at hmem; cases hmem
    have hrrle : rrCount s1 + (if (s.stream id').state.isRemoteReset = true then 1 else 0) ≤ rrCount s := by
      unfold rrCount
      rw [hq1, heq', List.countP_cons]
      have : rest.countP (fun k => (s1.stream k).state.isRemoteReset) = rest.countP (fun k => (s.stream k).state.isRemoteReset) := by
        apply List.countP_congr
        intro j hjr
        rw [hoth j (fun e => hnd'.1 (e ▸ hjr))]
      rw [this]
      exact Nat.le_refl _
    refine ⟨⟨hacc1, fun k hkq => ?_, ?_, fun hs j hlj => ?_, fun hs => ?_⟩, hl, hkeys.live.mpr hl, hc1, by rw [hq1]; exact hnd'.1,
      (hj.qd id' hmem).1, (hj.qd id' hmem).2, hsrv, by rw [hst1]; exact (hj.qd id' hmem).1, by rw [hst1]; rfl, by rw [hst1]; rfl, ?_⟩
    · rw [hq1] at hkq
      rw [hoth k (fun e => hnd'.1 (e ▸ hkq))]
      exact hj.qd k (by rw [heq']; exact List.mem_cons_of_mem _ hkq)
    · rw [hc1]; exact Nat.le_trans (by omega) (Nat.le_trans hrrle hj.rr)
    · rw [hc1] at hs
      by_cases hjk : j = id'
      · subst hjk
        rw [hst1]
        exact hj.si hs j hl
      · rw [hoth j hjk]; exact hj.si hs j (hkeys.live.mp hlj)
    · rw [hc1, hsrv] at hs; cases hs
    · intro hr
      rw [if_pos hr] at hrrle
      exact Nat.le_trans hrrle hj.rr

end H2V.Lemmas.ConnNoPanicP
