import Lean
import H2V.Lemmas.ConnResetPSend
import H2V.Lemmas.ConnResetPClone
/-
  ConnResetP — `Evolves (SRel D) RInv` for `pop_frame`, `reclaim_frame`, `buffer_pending` (prioritize.rs).
-/
set_option linter.unusedSectionVars false
namespace H2V.Lemmas.ConnResetP
open H2V H2V.Model H2V.Model.Conn
variable {D : Nat → Prop}

set_option allowUnsafeReducibility true in
attribute [local reducible] Streams.stream Store.getD'

section
variable {a : Store} {s : Streams}

-- ===================================================================== pop_frame

attribute [local irreducible] wrapSubU32 wrapSubUsize

open Lean Elab Command Meta in
/-- `abstract_const f c as g`: defines `g := fun (x : type of c) => (value of f)[c := x]`, so that
    `f = g c` holds by unfolding both sides to syntactically identical terms
    (technique of proof-flowrecv: keeps the kernel from evaluating `Nat.decLt` on `.. + 2^64`) -/
elab "abstract_const " f:ident c:ident " as " g:ident : command => liftTermElabM do
  let fn ← realizeGlobalConstNoOverloadWithInfo f
  let cn ← realizeGlobalConstNoOverloadWithInfo c
  let finfo ← getConstInfo fn
  let cinfo ← getConstInfo cn
  let some val := finfo.value? | throwError "no value"
  unless finfo.levelParams.isEmpty && cinfo.levelParams.isEmpty do throwError "universe polymorphic"
  let cty := cinfo.type
  let (gval, gty) ← withLocalDeclD `inst cty fun x => do
    let v := val.replace fun e => if e.isConstOf cn then some x else none
    let gval ← mkLambdaFVars #[x] v
    let gty ← mkForallFVars #[x] finfo.type
    pure (gval, gty)
  let gname := (← getCurrNamespace) ++ g.getId
  let hints := ReducibilityHints.regular (getMaxHeight (← getEnv) gval + 1)
  addDecl (.defnDecl { name := gname, levelParams := [], type := gty, value := gval, hints := hints, safety := .safe })

abstract_const Stream.sendData Nat.decLt as sendDataG
theorem sendData_eq_G : Stream.sendData = sendDataG Nat.decLt := rfl

theorem sendDataG_core (inst : ∀ p q : Nat, Decidable (p < q)) (x : Stream) (a b : Nat) :
    CoreEq x (sendDataG inst x a b).1 := by
  unfold sendDataG
  generalize x.sendFlow.sendData a = p
  obtain ⟨fl, r⟩ := p
  dsimp only
  generalize inst _ _ = d
  cases d with
  | isTrue h =>
    simp only [if_pos h]
    have := coreEq_notifyCapacity { x with sendFlow := fl, bufferedSendData := wrapSubUsize x.bufferedSendData a, requestedSendCapacity := wrapSubU32 x.requestedSendCapacity a }
    exact ⟨this.key, this.id, this.state, this.pendingSend, this.refCount⟩
  | isFalse h =>
    simp only [if_neg h]
    exact ⟨rfl, rfl, rfl, rfl, rfl⟩

theorem coreEq_sendData (x : Stream) (a b : Nat) : CoreEq x (x.sendData a b).1 := by
  rw [sendData_eq_G]; exact sendDataG_core _ x a b

theorem Store.getD'_key (S : Store) (id : Nat) : (Store.getD' S id).key = id := by
  unfold Store.getD'
  cases h : S.get? id with
  | none => rfl
  | some st => exact Store.get?_key h

/-- replacing the entry of `id` by something with the same core fields -/
theorem Evolves.set_core {P : Stream → Stream → Prop} {N : Stream → Prop} [Good P N] {S : Store}
    (h : Evolves P N a S) (id : Nat) (x : Stream) (hx : CoreEq (Store.getD' S id) x) : Evolves P N a (S.set x) := by
  have hk : x.key = id := hx.key.trans (Store.getD'_key S id)
  refine h.set x (fun st hg => ?_)
  rw [hk] at hg
  rw [Store.getD'_of_get? hg] at hx
  exact Good.core hx

theorem decContentLength_core {st st1 : Stream} {n : Nat} (h : st.decContentLength n = some st1) : CoreEq st st1 := by
  unfold Stream.decContentLength at h
  split at h
  · split at h
    · cases h; exact ⟨rfl, rfl, rfl, rfl, rfl⟩
    · cases h
  · split at h
    · cases h
    · cases h; exact ⟨rfl, rfl, rfl, rfl, rfl⟩
  · cases h; exact ⟨rfl, rfl, rfl, rfl, rfl⟩

macro_rules
  | `(tactic| ev_step) =>
    `(tactic| (with_reducible refine Evolves.set_core ?_ ?id _ ?hx; case hx => first | exact coreEq_sendData _ _ _ | with_reducible exact decContentLength_core (by assumption)))

theorem resetCount_tail_le {l rest : List SFrame} {f : SFrame} (h : l = f :: rest) : resetCount rest ≤ resetCount l := by
  subst h; simp

/-- popping / replacing the queue by a tail of itself -/
macro_rules
  | `(tactic| ev_step) =>
    `(tactic| (with_reducible refine Evolves.mod_queue ?_ _ _ (fun _ => rfl) (fun _ => rfl) (fun _ => rfl) (fun _ => rfl) ?hq;
               case hq => with_reducible exact resetCount_tail_le (by assumption)))

/-- the implicit reset of a scheduled stream is materialised -/
macro_rules
  | `(tactic| ev_step) =>
    `(tactic| (with_reducible refine Evolves.mod_setReset_scheduled ?_ _ _ _ ?hs;
               case hs => with_reducible exact isScheduledReset_of_get (by assumption)))

theorem popFrameC_sr (sd : Stream → Nat → Nat → Stream × List String × Bool) (hsd : ∀ (x : Stream) (a b : Nat), CoreEq x (sd x a b).1)
    (fuel : Nat) (maxLen : Nat) (h : Evolves (SRel D) RInv a s.store) :
    Evolves (SRel D) RInv a (popFrameC sd fuel s maxLen).1.store := by
  induction fuel generalizing s with
  | zero => rw [popFrameC_zero]; exact h
  | succ n ih =>
    rw [popFrameC_succ]; ev
    all_goals
      with_reducible refine Evolves.set_core ?_ ?id _ ?hx
      case hx => exact hsd _ _ _
      ev

theorem popFrame_sr (fuel : Nat) (maxLen : Nat) (h : Evolves (SRel D) RInv a s.store) :
    Evolves (SRel D) RInv a (Streams.popFrame fuel s maxLen).1.store := by
  rw [popFrameC.eq]; exact popFrameC_sr _ coreEq_sendData fuel maxLen h
macro_rules | `(tactic| ev_step) => `(tactic| with_reducible apply popFrame_sr)


theorem reclaimFrameInner_sr (h : Evolves (SRel D) RInv a s.store) (f : DataFrame) :
    Evolves (SRel D) RInv a (s.reclaimFrameInner f).1.store := by
  unfold Streams.reclaimFrameInner; ev
macro_rules | `(tactic| ev_step) => `(tactic| with_reducible apply reclaimFrameInner_sr)

theorem reclaimFrame_sr (h : Evolves (SRel D) RInv a s.store) (w : Writer) :
    Evolves (SRel D) RInv a (s.reclaimFrame w).1.store := by
  unfold Streams.reclaimFrame; ev
macro_rules | `(tactic| ev_step) => `(tactic| with_reducible apply reclaimFrame_sr)

theorem bufferOut_sr (h : Evolves (SRel D) RInv a s.store) (w : Writer) (f : Streams.OutFrame) :
    Evolves (SRel D) RInv a (s.bufferOut w f).1.store := by
  unfold Streams.bufferOut; ev
macro_rules | `(tactic| ev_step) => `(tactic| with_reducible apply bufferOut_sr)

theorem prioBufferPendingLoop_sr (fuel : Nat) (w : Writer) (h : Evolves (SRel D) RInv a s.store) :
    Evolves (SRel D) RInv a (Streams.prioBufferPendingLoop fuel s w).1.store := by
  induction fuel generalizing s w with
  | zero => unfold Streams.prioBufferPendingLoop; ev
  | succ n ih => unfold Streams.prioBufferPendingLoop; ev
macro_rules | `(tactic| ev_step) => `(tactic| with_reducible apply prioBufferPendingLoop_sr)

theorem prioBufferPending_sr (fuel : Nat) (w : Writer) (h : Evolves (SRel D) RInv a s.store) :
    Evolves (SRel D) RInv a (Streams.prioBufferPending fuel s w).1.store := by
  unfold Streams.prioBufferPending; ev
macro_rules | `(tactic| ev_step) => `(tactic| with_reducible apply prioBufferPending_sr)

end
end H2V.Lemmas.ConnResetP
