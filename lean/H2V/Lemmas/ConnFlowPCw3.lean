import H2V.Lemmas.ConnFlowPCw2
/-
  ConnFlowP, part 24 — `CW` through `streams.rs` (everything but WINDOW_UPDATE on stream 0 and
  `poll_complete`).
-/
namespace H2V.Lemmas.ConnFlowP
open H2V H2V.Model H2V.Model.Conn H2V.Lemmas.Comp

theorem CW.applyLocalSettings {W : Window} {t : Streams} (h : CW W t) (a b : Option Nat) :
    CW W (t.applyLocalSettings a b).1 := by
  cw_by Streams.applyLocalSettings
macro_rules | `(tactic| cw_peel) => `(tactic| with_reducible apply CW.applyLocalSettings)

section
variable {W : Window} {s : Streams}

theorem CW.resetOnRecvStreamErr (h : CW W s) (id : Nat) (r : Except PErr Unit) :
    CW W (s.resetOnRecvStreamErr id r).1 := by
  cw_by Streams.resetOnRecvStreamErr
macro_rules | `(tactic| cw_peel) => `(tactic| with_reducible apply CW.resetOnRecvStreamErr)

theorem CW.actionsSendReset (h : CW W s) (id : Nat) (r : Reason) (i : Initiator) :
    CW W (s.actionsSendReset id r i).1 := by
  cw_by Streams.actionsSendReset
macro_rules | `(tactic| cw_peel) => `(tactic| with_reducible apply CW.actionsSendReset)

theorem CW.clearQueues (h : CW W s) (b : Bool) : CW W (s.clearQueues b) := by
  cw_by Streams.clearQueues
macro_rules | `(tactic| cw_peel) => `(tactic| with_reducible apply CW.clearQueues)

theorem CW.recvHeaders (h : CW W s) (hd : HeadersIn) : CW W (s.recvHeaders hd).1 := by
  cw_by Streams.recvHeaders

theorem CW.recvData (h : CW W s) (id : Nat) (p : Bytes) (eos : Bool) (pad : Option Nat) :
    CW W (s.recvData id p eos pad).1 := by
  cw_by Streams.recvData

theorem CW.recvReset (h : CW W s) (id : Nat) (r : Reason) : CW W (s.recvReset id r).1 := by
  cw_by Streams.recvReset

/-- WINDOW_UPDATE on a stream (not on the connection) -/
theorem CW.recvWindowUpdate_stream (h : CW W s) (id inc : Nat) (hid : id ≠ 0) : CW W (s.recvWindowUpdate id inc).1 := by
  unfold Streams.recvWindowUpdate; rw [if_neg hid]; cw_auto

set_option maxHeartbeats 800000 in
theorem CW.recvPushPromise (h : CW W s) (id : Nat) (hd : HeadersIn) : CW W (s.recvPushPromise id hd).1 := by
  cw_by Streams.recvPushPromise

theorem CW.handleError (h : CW W s) (e : PErr) : CW W (s.handleError e).1 := by
  cw_by Streams.handleError

theorem CW.recvGoAwayFrame (h : CW W s) (l : Nat) (r : Reason) (d : Bytes) :
    CW W (s.recvGoAwayFrame l r d).1 := by
  cw_by Streams.recvGoAwayFrame

theorem CW.recvEof (h : CW W s) (b : Bool) : CW W (s.recvEof b) := by
  cw_by Streams.recvEof

theorem CW.innerSendReset (h : CW W s) (id : Nat) (r : Reason) : CW W (s.innerSendReset id r).1 := by
  cw_by Streams.innerSendReset




theorem CW.pollSendPendingRefusal (fuel : Nat) :
    ∀ {s : Streams}, CW W s → ∀ w io tag, CW W (Streams.pollSendPendingRefusal fuel s w io tag).1 := by
  induction fuel with
  | zero => intro s h w io tag; unfold Streams.pollSendPendingRefusal; cw_auto
  | succ n ih => intro s h w io tag; unfold Streams.pollSendPendingRefusal; cw_auto

theorem CW.applyRemoteSettings (h : CW W s) (vals : List (Nat × Nat)) (b : Bool) :
    CW W (s.applyRemoteSettings vals b).1 := by
  cw_by Streams.applyRemoteSettings

theorem CW.applyLocalSettingsFrame (h : CW W s) (vals : List (Nat × Nat)) :
    CW W (s.applyLocalSettingsFrame vals).1 := by
  cw_by Streams.applyLocalSettingsFrame

theorem CW.refInc (h : CW W s) (id : Nat) : CW W (s.refInc id) := by
  cw_by Streams.refInc
macro_rules | `(tactic| cw_peel) => `(tactic| with_reducible apply CW.refInc)

theorem CW.cloneStreamRef (h : CW W s) (id : Nat) : CW W (s.cloneStreamRef id) := by
  cw_by Streams.cloneStreamRef

theorem CW.maybeCancel (h : CW W s) (id : Nat) : CW W (s.maybeCancel id) := by
  cw_by Streams.maybeCancel
macro_rules | `(tactic| cw_peel) => `(tactic| with_reducible apply CW.maybeCancel)

theorem CW.foldl' {α : Type} {f : Streams → α → Streams} {l : List α} {t : Streams}
    (hf : ∀ t a, CW W t → CW W (f t a)) (h : CW W t) : CW W (l.foldl f t) := by
  induction l generalizing t with
  | nil => exact h
  | cons a l ih => exact ih (hf _ a h)

macro_rules | `(tactic| cw_peel) => `(tactic|
  (with_reducible apply CW.foldl'; (· intro _ _ _; (try unfold Streams.transition); (try dsimp only); cw_auto)))

theorem CW.dropStreamRef (h : CW W s) (id : Nat) : CW W (s.dropStreamRef id) := by
  cw_by Streams.dropStreamRef

theorem CW.sendRequest (h : CW W s) (b : Bool) (f : List Hpack.Field) (eos : Bool) (p : Option Nat) :
    CW W (s.sendRequest b f eos p).1 := by
  cw_by Streams.sendRequest

theorem CW.pollPendingOpen (h : CW W s) (p : Option Nat) (tag : String) : CW W (s.pollPendingOpen p tag).1 := by
  cw_by Streams.pollPendingOpen

theorem CW.nextIncoming (h : CW W s) : CW W s.nextIncoming.1 := by
  cw_by Streams.nextIncoming

theorem CW.refSendResponse (h : CW W s) (k : Nat) (f : List Hpack.Field) (eos : Bool) :
    CW W (s.refSendResponse k f eos).1 := by
  cw_by Streams.refSendResponse

theorem CW.refSendInformationalHeaders (h : CW W s) (k : Nat) (f : List Hpack.Field) :
    CW W (s.refSendInformationalHeaders k f).1 := by
  cw_by Streams.refSendInformationalHeaders

theorem CW.refSendPushPromise (h : CW W s) (k : Nat) (b : Bool) (f : List Hpack.Field) :
    CW W (s.refSendPushPromise k b f).1 := by
  cw_by Streams.refSendPushPromise

theorem CW.cloneHandle (h : CW W s) : CW W s.cloneHandle := by
  cw_by Streams.cloneHandle

theorem CW.dropHandle (h : CW W s) : CW W s.dropHandle := by
  cw_by Streams.dropHandle

theorem CW.refSendData (h : CW W s) (id len : Nat) (eos : Bool) : CW W (s.refSendData id len eos).1 := by
  cw_by Streams.refSendData

theorem CW.refSendTrailers (h : CW W s) (id : Nat) (f : List Hpack.Field) : CW W (s.refSendTrailers id f).1 := by
  cw_by Streams.refSendTrailers

theorem CW.refSendReset (h : CW W s) (id : Nat) (r : Reason) : CW W (s.refSendReset id r) := by
  cw_by Streams.refSendReset

theorem CW.refReserveCapacity (h : CW W s) (id c : Nat) : CW W (s.refReserveCapacity id c) := by
  cw_by Streams.refReserveCapacity

theorem CW.refPollData (h : CW W s) (id : Nat) (tag : String) : CW W (s.refPollData id tag).1 := by
  cw_by Streams.refPollData

theorem CW.refReleaseCapacity (h : CW W s) (id c : Nat) : CW W (s.refReleaseCapacity id c).1 := by
  cw_by Streams.refReleaseCapacity

theorem CW.refClearRecvBuffer (h : CW W s) (id : Nat) : CW W (s.refClearRecvBuffer id) := by
  cw_by Streams.refClearRecvBuffer

end

end H2V.Lemmas.ConnFlowP
