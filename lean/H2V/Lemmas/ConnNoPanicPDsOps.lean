import H2V.Lemmas.ConnNoPanicPDsReset
/-
  C08 (no panic) — `DSum` / `Coupled` as invariants, part 5: streams.rs — every operation of the stream layer
  outside the write path is a `UK`, `GK` or `GKo` step.
-/
namespace H2V.Lemmas.ConnNoPanicP
open H2V H2V.Model H2V.Model.Conn H2V.Lemmas.ConnCountsP
attribute [local irreducible] wrapSubU32 wrapSubUsize

-- ===================================================================== `UK`

theorem clearQueues_uk (s : Streams) (b : Bool) : UK s (s.clearQueues b) := by
  unfold Streams.clearQueues; uk_auto
theorem applyLocalSettingsFrame_uk (s : Streams) (v : List (Nat × Nat)) : UK s (s.applyLocalSettingsFrame v).1 := by
  unfold Streams.applyLocalSettingsFrame; uk_auto
theorem refInc_uk (s : Streams) (k : Nat) : UK s (s.refInc k) := by
  unfold Streams.refInc; uk_auto
theorem cloneStreamRef_uk (s : Streams) (k : Nat) : UK s (s.cloneStreamRef k) := by
  unfold Streams.cloneStreamRef; uk_auto
theorem maybeCancel_uk (s : Streams) (k : Nat) : UK s (s.maybeCancel k) := by
  unfold Streams.maybeCancel; uk_auto
theorem dropStreamRef_uk (s : Streams) (k : Nat) : UK s (s.dropStreamRef k) := by
  unfold Streams.dropStreamRef; uk_auto
theorem pollPendingOpen_uk (s : Streams) (p : Option Nat) (t : String) : UK s (s.pollPendingOpen p t).1 := by
  unfold Streams.pollPendingOpen; uk_auto
theorem nextIncoming_uk (s : Streams) : UK s s.nextIncoming.1 := by
  unfold Streams.nextIncoming; uk_auto
theorem refSendInformationalHeaders_uk (s : Streams) (k : Nat) (f : List Hpack.Field) :
    UK s (s.refSendInformationalHeaders k f).1 := by
  unfold Streams.refSendInformationalHeaders; uk_auto
theorem cloneHandle_uk (s : Streams) : UK s s.cloneHandle := by
  unfold Streams.cloneHandle; uk_auto
theorem dropHandle_uk (s : Streams) : UK s s.dropHandle := by
  unfold Streams.dropHandle; uk_auto
theorem refSendTrailers_uk (s : Streams) (k : Nat) (f : List Hpack.Field) : UK s (s.refSendTrailers k f).1 := by
  unfold Streams.refSendTrailers; uk_auto
theorem refReserveCapacity_uk (s : Streams) (k c : Nat) : UK s (s.refReserveCapacity k c) := by
  unfold Streams.refReserveCapacity; uk_auto
theorem refPollData_uk (s : Streams) (k : Nat) (t : String) : UK s (s.refPollData k t).1 := by
  unfold Streams.refPollData; uk_auto
theorem refReleaseCapacity_uk (s : Streams) (k c : Nat) : UK s (s.refReleaseCapacity k c).1 := by
  unfold Streams.refReleaseCapacity; uk_auto
theorem refClearRecvBuffer_uk (s : Streams) (k : Nat) : UK s (s.refClearRecvBuffer k) := by
  unfold Streams.refClearRecvBuffer; uk_auto
theorem refPollPushed_uk (s : Streams) (k : Nat) (t : String) : UK s (s.refPollPushed k t).1 := by
  unfold Streams.refPollPushed; uk_auto
theorem pollSendPendingRefusal_uk (n : Nat) : ∀ (s : Streams) (w : Writer) (io : Tio) (t : String),
    UK s (Streams.pollSendPendingRefusal n s w io t).1 := by
  induction n with
  | zero => intro s w io t; unfold Streams.pollSendPendingRefusal; exact .refl _
  | succ n ih => intro s w io t; unfold Streams.pollSendPendingRefusal; uk_auto_ih ih

-- ===================================================================== `GK`

theorem recvReset_gk (s : Streams) (id : Nat) (r : Reason) : GK s (s.recvReset id r).1 := by
  unfold Streams.recvReset; gk_auto
theorem handleError_gk (s : Streams) (e : PErr) : GK s (s.handleError e).1 := by
  unfold Streams.handleError; gk_auto
theorem recvGoAwayFrame_gk (s : Streams) (l : Nat) (r : Reason) (d : Bytes) : GK s (s.recvGoAwayFrame l r d).1 := by
  unfold Streams.recvGoAwayFrame; gk_auto
theorem recvEof_gk (s : Streams) (b : Bool) : GK s (s.recvEof b) := by
  unfold Streams.recvEof; gk_auto
theorem refSendResponse_gk (s : Streams) (k : Nat) (f : List Hpack.Field) (eos : Bool) : GK s (s.refSendResponse k f eos).1 := by
  unfold Streams.refSendResponse; gk_auto

theorem transition_gk' {α : Type} (s : Streams) (k : Nat) (f : Streams → Streams × α) (hf : GK s (f s).1) :
    GK s (s.transition k f).1 := by
  have : (s.transition k f).1 = (f s).1.transitionAfter k (s.stream k).isPendingResetExpiration := by
    unfold Streams.transition; rfl
  rw [this]
  exact hf.trans (transitionAfter_gk _ _ _)

/-- **`StreamRef::send_data`** -/
theorem refSendData_gk (s : Streams) (k len : Nat) (eos : Bool) (hb : (s.stream k).bufferedSendData + len < USIZE_MOD) :
    GK s (s.refSendData k len eos).1 := by
  unfold Streams.refSendData
  exact transition_gk' _ _ _ (prioSendData_gk s k len eos hb)

-- ===================================================================== `GKo`

theorem recvData_go (s : Streams) (id : Nat) (p : Bytes) (eos : Bool) (pad : Option Nat) : GKo s (s.recvData id p eos pad).1 := by
  unfold Streams.recvData; go_auto
theorem recvWindowUpdate_go (s : Streams) (id inc : Nat) : GKo s (s.recvWindowUpdate id inc).1 := by
  unfold Streams.recvWindowUpdate; go_auto
theorem innerSendReset_go (s : Streams) (id : Nat) (r : Reason) : GKo s (s.innerSendReset id r).1 := by
  unfold Streams.innerSendReset; go_auto
theorem refSendReset_go (s : Streams) (k : Nat) (r : Reason) : GKo s (s.refSendReset k r) := by
  unfold Streams.refSendReset; go_auto
theorem applyRemoteSettings_go (s : Streams) (v : List (Nat × Nat)) (b : Bool) : GKo s (s.applyRemoteSettings v b).1 := by
  unfold Streams.applyRemoteSettings; go_auto
theorem recvPushPromise_go (s : Streams) (id : Nat) (h : HeadersIn) : GKo s (s.recvPushPromise id h).1 := by
  unfold Streams.recvPushPromise; go_auto

end H2V.Lemmas.ConnNoPanicP
