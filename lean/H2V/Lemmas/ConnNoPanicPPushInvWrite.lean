import H2V.Lemmas.ConnNoPanicPPushInvLoops
import H2V.Lemmas.ConnNoPanicPPollComplete
/-
  C08 (no panic) — PUSH_PROMISE bookkeeping, part 4: the frame `PP` for the write path
  (`Streams::poll_complete`, `send_pending_refusal`); `pop_frame` through the clone `ConnFlowP.popFrameC`.
-/
namespace H2V.Lemmas.ConnNoPanicP
open H2V H2V.Model H2V.Model.Conn H2V.Lemmas.ConnCountsP
attribute [local irreducible] wrapSubU32 wrapSubUsize

-- ===================================================================== Stream::send_data

/-- what the frame needs of `Stream::send_data` -/
def SdPP (sd : Stream → Nat → Nat → Stream × List String × Bool) : Prop :=
  ∀ x a b, (sd x a b).1.key = x.key ∧ (sd x a b).1.pendingPushPromises = x.pendingPushPromises

theorem sendDataG_ppp (inst : ∀ p q : Nat, Decidable (p < q)) (x : Stream) (a b : Nat) :
    (sendDataG inst x a b).1.key = x.key ∧ (sendDataG inst x a b).1.pendingPushPromises = x.pendingPushPromises := by
  unfold sendDataG
  generalize x.sendFlow.sendData a = p
  obtain ⟨fl, r⟩ := p
  dsimp only
  generalize inst _ _ = d
  cases d with
  | isTrue h =>
    rw [if_pos h]
    exact ⟨(notifyCapacity_inert _).key, notifyCapacity_ppp _⟩
  | isFalse h =>
    rw [if_neg h]
    exact ⟨rfl, rfl⟩

theorem sdPP_sendData : SdPP Stream.sendData := fun x a b => by rw [sendData_eq_G]; exact sendDataG_ppp _ x a b

-- ===================================================================== recv side of `buffer_pending`

theorem sendConnectionWindowUpdate_pp (s : Streams) (w : Writer) : PP s (s.sendConnectionWindowUpdate w).1 := by
  unfold Streams.sendConnectionWindowUpdate; pp_auto
theorem sendStreamWindowUpdates_pp (n : Nat) : ∀ (s : Streams) (w : Writer), PP s (Streams.sendStreamWindowUpdates n s w).1 := by
  induction n with
  | zero => intro s w; unfold Streams.sendStreamWindowUpdates; exact .refl _
  | succ n ih => intro s w; unfold Streams.sendStreamWindowUpdates; pp_auto_ih ih
theorem recvBufferPending_pp (s : Streams) (w : Writer) : PP s (s.recvBufferPending w).1 := by
  unfold Streams.recvBufferPending; pp_auto

-- ===================================================================== pop_frame

theorem popPendingOpen_pp (s : Streams) : PP s s.popPendingOpen.1 := by
  unfold Streams.popPendingOpen; pp_auto

theorem emitC_pp (sd : Stream → Nat → Nat → Stream × List String × Bool) (hsd : SdPP sd) (s : Streams) (id len : Nat)
    (rest : List SFrame) : PP s (ConnFlowP.emitC sd s id len rest) := by
  unfold ConnFlowP.emitC
  dsimp only
  generalize hs1 : (s.modStream id fun st => { st with pendingSend := rest }) = s1
  have h1 : PP s s1 := by rw [← hs1]; exact modStream_pp _ _ _ (fun _ => rfl) (fun _ => rfl)
  have hk := hsd (s1.stream id) len s1.prio.maxBufferSize
  generalize sd (s1.stream id) len s1.prio.maxBufferSize = p at hk ⊢
  obtain ⟨st', w, bad⟩ := p
  dsimp only at hk ⊢
  have h2 : PP s (s1.setStream st') := h1.trans (setStream_pp s1 id st' (hk.1.trans (stream_key _ _)) hk.2)
  pp_auto

theorem finish_pp {s' t : Streams} (id : Nat) (c : Prop) [Decidable c] (b : Bool) (h : PP s' t) :
    PP s' ((if c then (t.qPush .pendingSend id).1 else t).transitionAfter id b) := by
  refine PP.trans ?_ (transitionAfter_pp _ _ _)
  split
  · exact h.trans (qPush_pp _ _ _)
  · exact h

set_option hygiene false in
local macro "pp_data_rest" : tactic => `(tactic|
  (split
   · exact ih _ _
   · split
     · exact ih _ _
     · exact finish_pp id _ _ (emitC_pp _ hsd _ _ _ _)))

theorem popFrameC_pp (sd : Stream → Nat → Nat → Stream × List String × Bool) (hsd : SdPP sd) (fuel : Nat) :
    ∀ (s : Streams) (maxLen : Nat), PP s (ConnFlowP.popFrameC sd fuel s maxLen).1 := by
  induction fuel with
  | zero => intro s m; rw [ConnFlowP.popFrameC_zero]; exact .refl _
  | succ n ih =>
    intro s maxLen
    rw [ConnFlowP.popFrameC_succ']
    split
    · next s' heq => exact .of_fst_eq heq (qPop_pp _ _)
    · next s' id heq =>
      refine PP.trans (.of_fst_eq heq (qPop_pp _ _)) ?_
      dsimp only
      split
      · split
        · split
          · refine PP.trans ?_ (ih _ _)
            pp_auto
          · pp_data_rest
        · simp only [Bool.false_eq_true, if_false]
          pp_data_rest
      · exact finish_pp id _ _ (modStream_pp _ _ _ (fun _ => rfl) (fun _ => rfl))
      · exact finish_pp id _ _ (modStream_pp _ _ _ (fun _ => rfl) (fun _ => rfl))
      · split
        · refine PP.trans ?_ (ih _ _)
          exact finish_pp id _ _ (modStream_pp _ _ _ (fun _ => rfl) (fun _ => rfl))
        · refine finish_pp id _ _ ?_
          pp_auto
      · split
        · exact finish_pp id _ _ (modStreamW_pp _ _ _ (fun _ => (setReset_inert _ _ _).key) (fun _ => setReset_ppp _ _ _))
        · exact (transitionAfter_pp _ _ _).trans (ih _ _)

theorem popFrame_pp (fuel : Nat) (s : Streams) (maxLen : Nat) : PP s (Streams.popFrame fuel s maxLen).1 := by
  rw [ConnFlowP.popFrameC.eq]; exact popFrameC_pp _ sdPP_sendData fuel s maxLen

-- ===================================================================== buffer_pending, poll_complete

theorem reclaimFrameInner_pp (s : Streams) (fr : DataFrame) : PP s (s.reclaimFrameInner fr).1 := by
  unfold Streams.reclaimFrameInner; pp_auto
theorem reclaimFrame_pp (s : Streams) (w : Writer) : PP s (s.reclaimFrame w).1 := by
  unfold Streams.reclaimFrame; pp_auto
theorem bufferOut_pp (s : Streams) (w : Writer) (f : Streams.OutFrame) : PP s (s.bufferOut w f).1 := by
  unfold Streams.bufferOut; pp_auto
theorem prioBufferPendingLoop_pp (n : Nat) : ∀ (s : Streams) (w : Writer), PP s (Streams.prioBufferPendingLoop n s w).1 := by
  induction n with
  | zero => intro s w; unfold Streams.prioBufferPendingLoop; exact panic_pp _ _
  | succ n ih => intro s w; unfold Streams.prioBufferPendingLoop; pp_auto_ih ih
theorem prioBufferPending_pp (n : Nat) (s : Streams) (w : Writer) : PP s (Streams.prioBufferPending n s w).1 := by
  unfold Streams.prioBufferPending; pp_auto
theorem bufferPending_pp (n : Nat) (s : Streams) (w : Writer) : PP s (Streams.bufferPending n s w).1 := by
  unfold Streams.bufferPending; pp_auto
theorem pollComplete_pp (n : Nat) : ∀ (s : Streams) (w : Writer) (io : Tio) (t : String), PP s (Streams.pollComplete n s w io t).1 := by
  induction n with
  | zero => intro s w io t; unfold Streams.pollComplete; exact panic_pp _ _
  | succ n ih => intro s w io t; unfold Streams.pollComplete; pp_auto_ih ih
theorem pollSendPendingRefusal_pp (n : Nat) :
    ∀ (s : Streams) (w : Writer) (io : Tio) (t : String), PP s (Streams.pollSendPendingRefusal n s w io t).1 := by
  induction n with
  | zero => intro s w io t; unfold Streams.pollSendPendingRefusal; exact .refl _
  | succ n ih => intro s w io t; unfold Streams.pollSendPendingRefusal; pp_auto_ih ih

end H2V.Lemmas.ConnNoPanicP
