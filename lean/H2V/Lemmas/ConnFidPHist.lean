import H2V.Lemmas.ConnFidPReclaim
/-
  ConnFidP, part 16 — histories.  `Hist s w g`: the stream-layer state `s` and the codec `w` are reached from a
  fresh connection by model operations, `g` being the ghost log of that history:

      api       any sequence of elementary steps off the write path that `P` permits — every function of the stream
                layer other than `poll_complete` is one (ConnFidPFn*.lean) — under the side condition `ApiOK`
                (either nothing is cut, and message frames are queued only on entries that were not cut; or no
                message frame is queued at all);
      codec     the codec works on its buffer (flush, other frames buffered): the DATA frame it holds is kept;
      reclaim   `reclaim_frame`;
      popNone   `pop_frame` finds nothing to send;
      popBuffer `pop_frame` hands out a frame and `buffer_out` gives it to the codec.

  `Hist.inv`: the fidelity invariant holds in every history (as long as the `weird` flag is down).
-/
set_option linter.unusedSectionVars false
namespace H2V.Lemmas.ConnFidP
open H2V H2V.Model H2V.Model.Conn H2V.Lemmas.ConnWakeP

/-- side condition of an API step -/
def ApiOK (P : Perm) (s : Streams) (g : Ghost) : Prop :=
  g.weird = true ∨ ((∀ k, ¬P.cut k) ∧ PushOK P s g) ∨ (∀ k f, isMsg f = true → ¬P.push k f)

inductive Hist : Streams → Writer → Ghost → Prop
  | init (s : Streams) (w : Writer) : s.store.slab = [] → marker s = .nothing → held w = none → Hist s w {}
  | api {s s' : Streams} {w : Writer} {g g' : Ghost} (P : Perm) : Hist s w g → ¬P.write → ¬P.pop → ApiOK P s g →
      Run P s g s' g' → Hist s' w g'
  | codec {s : Streams} {w w' : Writer} {g : Ghost} : Hist s w g → held w' = held w → WOk w' → Hist s w' g
  | reclaim {s : Streams} {w : Writer} {g : Ghost} : Hist s w g → Hist (s.reclaimFrame w).1 (s.reclaimFrame w).2.1 g
  | popNone {s s1 : Streams} {w : Writer} {g g' : Ghost} (n m : Nat) : Hist s w g → held w = none →
      Streams.popFrame n s m = (s1, none) → Run permPop s g s1 g' → Hist s1 w g'
  | popBuffer {s s1 : Streams} {w : Writer} {g g' : Ghost} (n m : Nat) (f : Streams.OutFrame) : Hist s w g →
      held w = none → m ≤ w.maxFrameSize → Streams.popFrame n s m = (s1, some f) → Run permPop s g s1 g' →
      DataLast g' m (some f) → Hist (s1.bufferOut w f).1 (s1.bufferOut w f).2 (gbuf g' f)

theorem gbuf_weird (g : Ghost) (f : Streams.OutFrame) : (gbuf g f).weird = g.weird := by
  cases f <;> rfl

/-- the `weird` flag of a history never goes down -/
theorem Hist.weird_mono {s : Streams} {w : Writer} {g : Ghost} (h : Hist s w g) : True := trivial

theorem inv_init (s : Streams) (h0 : s.store.slab = []) (hm : marker s = .nothing) : Inv s none {} := by
  have hget : ∀ k, s.store.get? k = none := by intro k; unfold Store.get?; rw [h0]; rfl
  have hsq : ∀ k, sq s k = [] := fun k => sq_of_none (hget k)
  have hcp : Coupled s none := ⟨⟨fun _ => rfl, fun _ => hm⟩, fun j hj => by rw [hm] at hj; cases hj⟩
  refine ⟨?_, hcp, ?_, ?_, ?_, ?_, ?_, ?_⟩
  · intro k a ha; rw [hget] at ha; cases ha
  · intro k hk; exact absurd (inflight_none s k) hk
  · intro _ _; exact ⟨rfl, rfl, rfl⟩
  · intro k
    refine ⟨[], ?_, fun _ => rfl⟩
    have : out s none k = [] := by unfold out; rw [inflight_none, hsq]; rfl
    rw [this]; exact .nil
  · intro k hc; cases hc
  · intro k hk; exact absurd (inflight_none s k) hk
  · intro k hk; exact absurd rfl hk

/-- **the fidelity invariant holds in every history** -/
theorem Hist.inv {s : Streams} {w : Writer} {g : Ghost} (h : Hist s w g) (hw : g.weird = false) :
    Inv s (held w) g ∧ WOk w := by
  induction h with
  | init s w h0 hm hh =>
    rw [hh]
    exact ⟨inv_init s h0 hm, fun hn => ((held_none_iff w).mp hh).2⟩
  | api P _ hnw hnp hok r ih =>
    have hw0 := r.weird_mono hw
    obtain ⟨hI, hwk⟩ := ih hw0
    rcases hok with hwt | hok
    · rw [hw0] at hwt; cases hwt
    · exact ⟨(r.inv hnw (fun hp => absurd hp hnp) hok hI hw).1, hwk⟩
  | codec _ hh hwk ih =>
    obtain ⟨hI, _⟩ := ih hw
    rw [hh]; exact ⟨hI, hwk⟩
  | reclaim _ ih =>
    obtain ⟨hI, hwk⟩ := ih hw
    exact reclaimFrame_inv _ hI hwk hw
  | popNone n m _ hh _ r ih =>
    have hw0 := r.weird_mono hw
    obtain ⟨hI, hwk⟩ := ih hw0
    rw [hh] at hI ⊢
    exact ⟨(r.inv (h := none) (fun h => h) (fun _ => rfl) (Or.inr (fun _ _ _ h => h)) hI hw).1, hwk⟩
  | popBuffer n m f _ hh hm _ r hd ih =>
    rw [gbuf_weird] at hw
    have hw0 := r.weird_mono hw
    obtain ⟨hI, hwk⟩ := ih hw0
    rw [hh] at hI
    have hI1 := (r.inv (h := none) (fun h => h) (fun _ => rfl) (Or.inr (fun _ _ _ h => h)) hI hw).1
    exact bufferOut_inv _ f m hI1 hd hh hm

-- ===================================================================== what a run does to the ghost log

/-- along a run the accepted log of every entry only grows at the back, by message frames the permission allows;
    the emitted log only changes on the write path -/
theorem Run.acc_grows {P : Perm} {s0 s : Streams} {g0 g : Ghost} (r : Run P s0 g0 s g) (k : Nat) :
    ∃ added, g.acc k = g0.acc k ++ added ∧ ∀ f ∈ added, isMsg f = true ∧ P.push k f := by
  induction r with
  | refl => exact ⟨[], by simp, by simp⟩
  | tau _ _ ih => exact ih
  | lbl l _ _ ok ih =>
    obtain ⟨added, h1, h2⟩ := ih
    cases l with
    | push j f =>
      simp only [gstep]
      split
      · next hm =>
        by_cases hj : j = k
        · subst hj
          refine ⟨added ++ [f], by show upd _ j _ j = _; rw [upd_same, h1, List.append_assoc], ?_⟩
          intro x hx
          rcases List.mem_append.mp hx with hx | hx
          · exact h2 x hx
          · simp only [List.mem_singleton] at hx; subst hx
            refine ⟨hm, ?_⟩
            rcases ok with h' | ⟨h', _⟩
            · exact h'
            · rw [hm] at h'; cases h'
        · exact ⟨added, by show upd _ j _ k = _; rw [upd_other _ _ (fun e => hj e.symm)]; exact h1, h2⟩
      · exact ⟨added, h1, h2⟩
    | cut j n => simp only [gstep]; split <;> exact ⟨added, h1, h2⟩
    | gone j => simp only [gstep]; split <;> exact ⟨added, h1, h2⟩
    | pop j f => simp only [gstep]; split <;> exact ⟨added, h1, h2⟩
    | _ => exact ⟨added, h1, h2⟩

-- ===================================================================== closure under the API functions

section
variable {s : Streams} {w : Writer} {g : Ghost}

/-- a function that stays off the write path and queues no message frame -/
theorem Hist.tr_quiet (P : Perm) (hw : ¬P.write) (hp : ¬P.pop) (hn : ∀ k f, isMsg f = true → ¬P.push k f) {s' : Streams}
    (h : Hist s w g) (t : Tr P s s') : ∃ g', Hist s' w g' ∧ g'.acc = g.acc ∧ g'.emi = g.emi := by
  obtain ⟨g', r⟩ := t.run g
  refine ⟨g', .api P h hw hp (Or.inr (Or.inr hn)) r, ?_, r.emi_eq hp⟩
  funext k
  obtain ⟨added, h1, h2⟩ := r.acc_grows k
  cases added with
  | nil => simpa using h1
  | cons f _ => exact absurd (h2 f (List.mem_cons_self ..)).2 (hn k f (h2 f (List.mem_cons_self ..)).1)

end
end H2V.Lemmas.ConnFidP
