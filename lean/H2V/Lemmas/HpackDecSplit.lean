import H2V.Lemmas.HpackDecInv
/-
  Part D — split invariance: decoding a header block fragment by fragment (HEADERS then
  CONTINUATION frames, `continue_block` in between, the undecoded tail carried over) is the same as
  decoding the concatenation.
-/
namespace H2V.Lemmas.HpackDec
open H2V H2V.Model.Hpack H2V.Generated.Static

/-! ### one step under extension of the buffer -/

theorem stepLiteral_append_next (d : Decoder) (a b : Bytes) (index : Bool) (d' : Decoder) (c' : Bool)
    (rest : Bytes) (emit : List Header) (h : stepLiteral d a index = .next d' c' rest emit) :
    stepLiteral d (a ++ b) index = .next d' c' (rest ++ b) emit := by
  obtain ⟨hd, hk, he, hc, hd'⟩ := stepLiteral_next_inv _ _ _ _ _ _ _ h
  unfold stepLiteral
  simp only
  rw [decodeLiteral_append_ok _ _ _ b _ _ hk]
  subst he hc hd'
  cases index <;> rfl

theorem stepLiteral_append_err (d : Decoder) (a b : Bytes) (index : Bool) (d' : Decoder)
    (tl : Bytes) (e : DErr) (hn : e.isNeedMore = false)
    (h : stepLiteral d a index = .stop d' tl (.error e)) :
    stepLiteral d (a ++ b) index = .stop d' (tl ++ b) (.error e) := by
  obtain ⟨e', hk, he, hd'⟩ := stepLiteral_stop_inv _ _ _ _ _ _ h
  cases he
  unfold stepLiteral
  simp only
  rw [decodeLiteral_append_err _ _ _ b _ _ hn hk]
  subst hd'
  rfl

/-- P4 — a complete representation is decoded the same way whatever follows it -/
theorem step_append_next (d : Decoder) (c : Bool) (a b : Bytes) (d' : Decoder) (c' : Bool)
    (rest : Bytes) (emit : List Header) (h : step d c a = .next d' c' rest emit) :
    step d c (a ++ b) = .next d' c' (rest ++ b) emit := by
  cases a with
  | nil => cases h
  | cons ty tl0 =>
    rw [List.cons_append]
    unfold step at h ⊢
    simp only at h ⊢
    split at h
    · cases h
    · split at h
      · cases h
      · rename_i index rest0 hdi
        have hdi' := decodeInt_append_ok _ _ _ _ b hdi
        rw [List.cons_append] at hdi'
        rw [hdi']
        simp only
        split at h
        · cases h
        · simp only [Step.next.injEq] at h ⊢
          exact ⟨h.1, h.2.1, by rw [h.2.2.1], h.2.2.2⟩
    · have := stepLiteral_append_next _ _ b _ _ _ _ _ h
      rwa [List.cons_append] at this
    · have := stepLiteral_append_next _ _ b _ _ _ _ _ h
      rwa [List.cons_append] at this
    · have := stepLiteral_append_next _ _ b _ _ _ _ _ h
      rwa [List.cons_append] at this
    · split at h
      · cases h
      · rename_i hc
        rw [if_neg hc]
        split at h
        · cases h
        · rename_i newSize rest0 hdi
          have hdi' := decodeInt_append_ok _ _ _ _ b hdi
          rw [List.cons_append] at hdi'
          rw [hdi']
          simp only
          split at h
          · cases h
          · rename_i hle
            rw [if_neg hle]
            split at h
            · cases h
            · simp only [Step.next.injEq] at h ⊢
              exact ⟨h.1, h.2.1, by rw [h.2.2.1], h.2.2.2⟩

/-- P5 — an error other than `NeedMore` is final whatever follows; what is left in the buffer is
    just extended -/
theorem step_append_err (d : Decoder) (c : Bool) (a b : Bytes) (d' : Decoder)
    (tl : Bytes) (e : DErr) (hn : e.isNeedMore = false)
    (h : step d c a = .stop d' tl (.error e)) :
    step d c (a ++ b) = .stop d' (tl ++ b) (.error e) := by
  cases a with
  | nil => cases h
  | cons ty tl0 =>
    rw [List.cons_append]
    unfold step at h ⊢
    simp only at h ⊢
    split at h
    · simp only [Step.stop.injEq] at h ⊢
      exact ⟨h.1, by rw [← h.2.1]; rfl, h.2.2⟩
    · split at h
      · rename_i e' hdi
        simp only [Step.stop.injEq, Except.error.injEq] at h
        obtain ⟨h1, h2, h3⟩ := h
        subst h1 h2 h3
        have hdi' := decodeInt_append_err _ _ _ b hn hdi
        rw [List.cons_append] at hdi'
        rw [hdi']
        rfl
      · rename_i index rest0 hdi
        have hdi' := decodeInt_append_ok _ _ _ _ b hdi
        rw [List.cons_append] at hdi'
        rw [hdi']
        simp only
        split at h
        · simp only [Step.stop.injEq] at h ⊢
          exact ⟨h.1, by rw [← h.2.1]; rfl, h.2.2⟩
        · cases h
    · have := stepLiteral_append_err _ _ b _ _ _ _ hn h
      rwa [List.cons_append] at this
    · have := stepLiteral_append_err _ _ b _ _ _ _ hn h
      rwa [List.cons_append] at this
    · have := stepLiteral_append_err _ _ b _ _ _ _ hn h
      rwa [List.cons_append] at this
    · split at h
      · rename_i hc
        rw [if_pos hc]
        simp only [Step.stop.injEq] at h ⊢
        exact ⟨h.1, by rw [← h.2.1]; rfl, h.2.2⟩
      · rename_i hc
        rw [if_neg hc]
        split at h
        · rename_i e' hdi
          simp only [Step.stop.injEq, Except.error.injEq] at h
          obtain ⟨h1, h2, h3⟩ := h
          subst h1 h2 h3
          have hdi' := decodeInt_append_err _ _ _ b hn hdi
          rw [List.cons_append] at hdi'
          rw [hdi']
          rfl
        · rename_i newSize rest0 hdi
          have hdi' := decodeInt_append_ok _ _ _ _ b hdi
          rw [List.cons_append] at hdi'
          rw [hdi']
          simp only
          split at h
          · rename_i hgt
            rw [if_pos hgt]
            simp only [Step.stop.injEq] at h ⊢
            exact ⟨h.1, by rw [← h.2.1]; rfl, h.2.2⟩
          · rename_i hle
            rw [if_neg hle]
            split at h
            · simp only [Step.stop.injEq] at h ⊢
              exact ⟨h.1, by rw [← h.2.1]; rfl, h.2.2⟩
            · cases h

/-- P6 — after a `NeedMore` the returned decoder restarts the representation exactly like the
    decoder that entered the step (the only difference, `seen_field` already set by a field
    representation, is set again by the same representation) -/
theorem step_needMore_restart (d : Decoder) (a : Bytes) (d' : Decoder)
    (tl : Bytes) (e : DErr) (hn : e.isNeedMore = true)
    (h : step d (!d.seenField) a = .stop d' tl (.error e)) (b : Bytes) :
    step d' (!d'.seenField) (a ++ b) = step d (!d.seenField) (a ++ b) := by
  cases a with
  | nil => cases h
  | cons ty tl0 =>
    rw [List.cons_append]
    have lit : ∀ index, stepLiteral d (ty :: tl0) index = .stop d' tl (.error e) →
        stepLiteral d' (ty :: (tl0 ++ b)) index = stepLiteral d (ty :: (tl0 ++ b)) index := by
      intro index hl
      obtain ⟨-, -, -, hd'⟩ := stepLiteral_stop_inv _ _ _ _ _ _ hl
      subst hd'
      rfl
    unfold step at h ⊢
    simp only at h ⊢
    split at h
    · rename_i e' hr
      simp only [Step.stop.injEq, Except.error.injEq] at h
      rw [← h.2.2, Rep_load_err _ _ hr] at hn
      cases hn
    · have hd' : d' = { d with seenField := true } := by
        split at h
        · simp only [Step.stop.injEq] at h; exact h.1.symm
        · split at h
          · simp only [Step.stop.injEq] at h; exact h.1.symm
          · cases h
      subst hd'
      rfl
    · exact lit _ h
    · exact lit _ h
    · exact lit _ h
    · have hd' : d' = d := by
        split at h
        · simp only [Step.stop.injEq] at h; exact h.1.symm
        · split at h
          · simp only [Step.stop.injEq] at h; exact h.1.symm
          · split at h
            · simp only [Step.stop.injEq] at h; exact h.1.symm
            · split at h
              · simp only [Step.stop.injEq] at h; exact h.1.symm
              · cases h
      subst hd'
      rfl

/-! ### the loop, fuel-free -/

/-- the loop does not depend on the fuel once it exceeds the buffer length -/
theorem decodeLoop_fuel : ∀ (f1 f2 : Nat) (d : Decoder) (c : Bool) (buf : Bytes) (acc : List Header),
    buf.length < f1 → buf.length < f2 → decodeLoop f1 d c buf acc = decodeLoop f2 d c buf acc := by
  intro f1
  induction f1 with
  | zero => intro f2 d c buf acc h; omega
  | succ f1 ih =>
    intro f2 d c buf acc h1 h2
    cases f2 with
    | zero => omega
    | succ f2 =>
      rw [decodeLoop_succ, decodeLoop_succ]
      cases hs : step d c buf with
      | stop d' tl res => rfl
      | next d' c' rest emit =>
        simp only
        obtain ⟨⟨pre, hpre, hl⟩, -⟩ := step_next_props _ _ _ _ _ _ _ hs
        rw [hpre, List.length_append] at h1 h2
        exact ih f2 _ _ _ _ (by omega) (by omega)

/-- the loop of `Decoder::decode` with `can_resize = !seen_field` and enough fuel -/
def loop (d : Decoder) (buf : Bytes) (acc : List Header) : DecodeOut :=
  decodeLoop (buf.length + 1) d (!d.seenField) buf acc

theorem loop_unfold (d : Decoder) (buf : Bytes) (acc : List Header) :
    loop d buf acc =
      match step d (!d.seenField) buf with
      | .stop d' tl res => ⟨acc, d', tl, res⟩
      | .next d' _ rest emit => loop d' rest (acc ++ emit) := by
  unfold loop
  rw [decodeLoop_succ]
  cases hs : step d (!d.seenField) buf with
  | stop d' tl res => rfl
  | next d' c' rest emit =>
    simp only
    obtain ⟨⟨pre, hpre, hl⟩, -, hc, -⟩ := step_next_props _ _ _ _ _ _ _ hs
    rw [hc rfl]
    apply decodeLoop_fuel
    · rw [hpre, List.length_append]; omega
    · omega

theorem decode_eq_loop (d : Decoder) (src : Bytes) : d.decode src = loop (prep d) src [] :=
  decode_eq d src

/-- the accumulator is only ever appended to -/
theorem loop_acc : ∀ (n : Nat) (d : Decoder) (buf : Bytes) (acc : List Header), buf.length ≤ n →
    loop d buf acc =
      ⟨acc ++ (loop d buf []).fields, (loop d buf []).dec, (loop d buf []).tail, (loop d buf []).result⟩ := by
  intro n
  induction n with
  | zero =>
    intro d buf acc hn
    have : buf = [] := List.eq_nil_of_length_eq_zero (by omega)
    subst this
    rw [loop_unfold, loop_unfold d [] []]
    simp [step]
  | succ n ih =>
    intro d buf acc hn
    rw [loop_unfold, loop_unfold d buf []]
    cases hs : step d (!d.seenField) buf with
    | stop d' tl res => simp
    | next d' c' rest emit =>
      simp only [List.nil_append]
      obtain ⟨⟨pre, hpre, hl⟩, -⟩ := step_next_props _ _ _ _ _ _ _ hs
      have hlen : rest.length ≤ n := by rw [hpre, List.length_append] at hn; omega
      rw [ih d' rest (acc ++ emit) hlen, ih d' rest emit hlen]
      simp only [List.append_assoc]

/-- a result after which the framing layer goes on with the next fragment -/
def resumable : Except DErr Unit → Bool
  | .ok _ => true
  | .error e => e.isNeedMore

/-- D (core) — decoding `a ++ b` from `d` is: decode `a`; if that ended with `Ok` or `NeedMore`,
    go on from the returned decoder on the undecoded tail followed by `b`; otherwise the same
    error, with `b` left in the buffer -/
theorem loop_split : ∀ (n : Nat) (d : Decoder) (a : Bytes) (acc : List Header) (b : Bytes),
    a.length ≤ n →
    loop d (a ++ b) acc =
      (if resumable (loop d a acc).result then
        loop (loop d a acc).dec ((loop d a acc).tail ++ b) (loop d a acc).fields
      else ⟨(loop d a acc).fields, (loop d a acc).dec, (loop d a acc).tail ++ b, (loop d a acc).result⟩) := by
  intro n
  induction n with
  | zero =>
    intro d a acc b hn
    have : a = [] := List.eq_nil_of_length_eq_zero (by omega)
    subst this
    rw [loop_unfold d [] acc]
    simp [step, resumable]
  | succ n ih =>
    intro d a acc b hn
    rw [loop_unfold d a acc]
    cases hs : step d (!d.seenField) a with
    | stop d' tl res =>
      simp only
      obtain ⟨-, hok, hnm⟩ := step_stop_props _ _ _ _ _ _ hs
      cases res with
      | ok u =>
        obtain ⟨h1, h2, h3⟩ := hok rfl
        subst h1 h2 h3
        simp [resumable]
      | error e =>
        cases hn' : e.isNeedMore with
        | true =>
          have htl := hnm e rfl hn'
          subst htl
          simp only [resumable, hn', if_true]
          rw [loop_unfold d (tl ++ b) acc, loop_unfold d' (tl ++ b) acc,
            step_needMore_restart d tl d' tl e hn' hs b]
        | false =>
          simp only [resumable, hn', Bool.false_eq_true, if_false]
          rw [loop_unfold d (a ++ b) acc, step_append_err _ _ _ b _ _ _ hn' hs]
    | next d' c' rest emit =>
      simp only
      obtain ⟨⟨pre, hpre, hl⟩, -⟩ := step_next_props _ _ _ _ _ _ _ hs
      have hlen : rest.length ≤ n := by rw [hpre, List.length_append] at hn; omega
      rw [loop_unfold d (a ++ b) acc, step_append_next _ _ _ b _ _ _ _ hs]
      simp only
      exact ih d' rest (acc ++ emit) b hlen

/-! ### `Decoder::decode` across fragments -/

theorem decodeLoop_sameCfg : ∀ (fuel : Nat) (d : Decoder) (c : Bool) (buf : Bytes)
    (acc : List Header), SameCfg d (decodeLoop fuel d c buf acc).dec := by
  intro fuel
  induction fuel with
  | zero => intro d c buf acc; rw [decodeLoop_zero]; exact SameCfg.refl d
  | succ fuel ih =>
    intro d c buf acc
    rw [decodeLoop_succ]
    cases hs : step d c buf with
    | stop d' tl res =>
      simp only
      rcases (step_stop_props _ _ _ _ _ _ hs).1 with rfl | rfl
      · exact SameCfg.refl _
      · exact ⟨rfl, rfl, rfl⟩
    | next d' c' rest emit =>
      simp only
      obtain ⟨-, hcfg, -, -⟩ := step_next_props _ _ _ _ _ _ _ hs
      exact hcfg.trans (ih d' c' rest (acc ++ emit))

/-- after `decode`, `continue_block` followed by the entry of the next `decode` gives back the
    very decoder that `decode` returned -/
theorem prep_continueBlock_decode (d : Decoder) (a : Bytes) :
    prep (d.decode a).dec.continueBlock = (d.decode a).dec := by
  have h := decodeLoop_sameCfg (a.length + 1) (prep d) (!(prep d).seenField) a []
  rw [← decode_eq] at h
  have h1 := h.msu
  have h2 := h.cont
  rw [prep_maxSizeUpdate] at h1
  rw [prep_continuing] at h2
  generalize (d.decode a).dec = x at h1 h2
  obtain ⟨msu, lmu, t, cont, seen⟩ := x
  simp only at h1 h2
  subst h1 h2
  rfl

/-- what the framing layer does with the next fragment of the header block: after `Ok` or
    `NeedMore`, `continue_block` and `decode` on the undecoded tail followed by the fragment (the
    fields add up); after any other error nothing more is decoded -/
def feed (o : DecodeOut) (frag : Bytes) : DecodeOut :=
  if resumable o.result then
    let o2 := o.dec.continueBlock.decode (o.tail ++ frag)
    ⟨o.fields ++ o2.fields, o2.dec, o2.tail, o2.result⟩
  else ⟨o.fields, o.dec, o.tail ++ frag, o.result⟩

/-- D — `split_invariance`, two fragments: for every decoder state and every cut of the input,
    decoding fragment by fragment yields the same fields, decoder, tail and result as decoding the
    concatenation (no hypothesis on the input, the table or the Huffman decoder is needed) -/
theorem split_invariance (d : Decoder) (a b : Bytes) :
    d.decode (a ++ b) = feed (d.decode a) b := by
  unfold feed
  rw [decode_eq_loop d (a ++ b), loop_split a.length (prep d) a [] b (Nat.le_refl _),
    ← decode_eq_loop d a]
  split
  · simp only
    rw [decode_eq_loop (d.decode a).dec.continueBlock, prep_continueBlock_decode]
    exact loop_acc _ _ _ _ (Nat.le_refl _)
  · rfl

/-- D — `split_invariance` spelled out, resumable case: if the first fragment ends with `Ok` or a
    `NeedMore` error, then `continue_block` + `decode` on the tail followed by the second fragment
    completes to exactly what `decode` does on the concatenation -/
theorem split_invariance_resume (d : Decoder) (a b : Bytes)
    (h : (d.decode a).result = .ok () ∨ ∃ k, (d.decode a).result = .error (.needMore k)) :
    let o1 := d.decode a
    let o2 := o1.dec.continueBlock.decode (o1.tail ++ b)
    (d.decode (a ++ b)).fields = o1.fields ++ o2.fields ∧
    (d.decode (a ++ b)).dec = o2.dec ∧
    (d.decode (a ++ b)).tail = o2.tail ∧
    (d.decode (a ++ b)).result = o2.result := by
  have hr : resumable (d.decode a).result = true := by
    rcases h with h | ⟨k, h⟩ <;> rw [h] <;> rfl
  simp only [split_invariance d a b, feed, hr, if_true, and_self]

/-- D — `split_invariance` spelled out, fatal case: an error other than `NeedMore` on the first
    fragment is the error of the whole block (same fields before it, same decoder) -/
theorem split_invariance_error (d : Decoder) (a b : Bytes) (e : DErr)
    (h : (d.decode a).result = .error e) (hn : e.isNeedMore = false) :
    (d.decode (a ++ b)).result = .error e ∧
    (d.decode (a ++ b)).fields = (d.decode a).fields ∧
    (d.decode (a ++ b)).dec = (d.decode a).dec ∧
    (d.decode (a ++ b)).tail = (d.decode a).tail ++ b := by
  have hr : ¬ resumable (d.decode a).result = true := by rw [h]; simp [resumable, hn]
  rw [split_invariance d a b]
  unfold feed
  rw [if_neg hr]
  exact ⟨h, rfl, rfl, rfl⟩

/-- D — `split_invariance_list`: any number of fragments -/
theorem split_invariance_list (d : Decoder) (a : Bytes) (frags : List Bytes) :
    d.decode (a ++ frags.flatten) = frags.foldl feed (d.decode a) := by
  induction frags generalizing a with
  | nil => simp
  | cons f fs ih =>
    rw [List.flatten_cons, ← List.append_assoc, ih (a ++ f), split_invariance d a f]
    rfl

/-- D (the NOTE of the task) — whenever the loop of `decode` returns a `NeedMore` error, the tail
    it leaves is the whole buffer it was looking at when the incomplete representation started:
    nothing of that representation has been consumed (`decodeLiteral_needMore_tail` is the part
    about raw strings split off before validation: the errors raised after a split are those of
    `Header::new` / `into_entry`, never `NeedMore`) -/
theorem step_needMore_tail (d : Decoder) (c : Bool) (buf : Bytes) (d' : Decoder) (tl : Bytes)
    (e : DErr) (h : step d c buf = .stop d' tl (.error e)) (hn : e.isNeedMore = true) : tl = buf :=
  (step_stop_props _ _ _ _ _ _ h).2.2 e rfl hn

/-- after any `decode` the `continuing` mark is consumed: the next block starts fresh unless
    `continue_block` is called again -/
theorem decode_continuing_false (d : Decoder) (src : Bytes) : (d.decode src).dec.continuing = false := by
  rw [decode_eq, (decodeLoop_sameCfg _ _ _ _ _).cont]
  exact prep_continuing d

end H2V.Lemmas.HpackDec
