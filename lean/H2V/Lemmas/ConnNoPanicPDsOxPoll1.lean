import H2V.Lemmas.ConnNoPanicPDsOxStep
import H2V.Lemmas.ConnNoPanicPFiNoPPQ
/-
  C08 (no panic) — the residual hypothesis `OH` as an invariant, part 7: `pop_frame` keeps `XE` for every entry, given that
  no PUSH_PROMISE frame is queued (`NoPPQ`: every client, and a server that never calls `push_request`).
  The entry `pop_frame` takes from `pending_send` was scheduled, hence — if it waits in `pending_open` or is `is_pending_push` —
  "dead" (`PE`): only frames without DATA octets are popped from it, and it may be scheduled again.
-/
namespace H2V.Lemmas.ConnNoPanicP
open H2V H2V.Model H2V.Model.Conn H2V.Lemmas.ConnCountsP
attribute [local irreducible] wrapSubU32 wrapSubUsize

variable {sv : Bool} {E E' : Nat → Prop}

def XEs (sv : Bool) (s : Streams) : Prop := ∀ k, XE sv (s.stream k)
theorem XK.xes {s s' : Streams} (h : XK sv s s') (hx : XEs sv s) : XEs sv s' := fun k => h.xe 0 k (hx k)
theorem XEs.of_store {s t : Streams} (h : t.store = s.store) (hx : XEs sv s) : XEs sv t :=
  fun k => by rw [stream_of_store_eqP h]; exact hx k

/-- `NoPPQ` (np-fi, ConnNoPanicPFiNoPPQ.lean: no PUSH_PROMISE frame is queued) along an `FK` step -/
theorem FK.noppq {s s' : Streams} (h : FK s s') (hp : NoPPQ s) : NoPPQ s' := h.toQK.noPPQ hp

-- ===================================================================== the popped entry

/-- the entry taken from `pending_send`: dead if flagged, and not a send-unopened local entry -/
structure PE (sv : Bool) (x : Stream) : Prop where
  df : flagB x = true → Dd x
  ns : locId sv x.id = true → suB x.state = true → False

theorem pe_of_scheduled {x : Stream} (hx : XE sv x) (hs : x.isPendingSend = true) : PE sv x := by
  refine ⟨fun hf => ?_, fun hl hsu => ?_⟩
  · rcases hx.f hf with hw | hd
    · have := hw.1; rw [hs] at this; cases this
    · exact hd
  · have := (hx.n hl hsu).2.1; rw [hs] at this; cases this

theorem popped_pe {s s' : Streams} {id : Nat} (hq : QOK .pendingSend s) (heq : s.qPop .pendingSend = (s', some id))
    (hx : XEs sv s) : PE sv (s'.stream id) := by
  unfold Streams.qPop at heq
  split at heq
  · cases heq
  · next id' rest hget =>
    cases heq
    obtain ⟨x, hx0, hfl⟩ := (hq.mem id).mp (by rw [hget]; exact List.mem_cons_self ..)
    have hx' : (s.setQ .pendingSend rest).store.get? id = some x := by rw [setQ_store]; exact hx0
    have := modStream_get?_self (s.setQ .pendingSend rest) id (fun st => st.setQueued .pendingSend false) x hx' (setQueued_key _ _ _)
    rw [stream_of_get? this]
    have hp : PE sv x := pe_of_scheduled (by have := hx id; rw [stream_of_get? hx0] at this; exact this) hfl
    exact ⟨fun hf => hp.df hf, hp.ns⟩

theorem xp_rest (x : Stream) (f : SFrame) (rest : List SFrame) (hps : x.pendingSend = f :: rest) (hp : PE sv x) :
    ({ x with pendingSend := rest } : Stream).key = x.key ∧ Xp sv x { x with pendingSend := rest } := by
  have hdd : flagB x = true → Dd ({ x with pendingSend := rest } : Stream) := by
    intro hf
    have hd := hp.df hf
    refine ⟨hd.1, ?_, hd.2.2⟩
    have := dsum_tail_le f rest
    have h0 := hd.2.1
    rw [hps] at h0
    show dsum rest = 0
    omega
  refine ⟨rfl, ⟨fun r _ => ⟨fun hl hs => (hp.ns hl hs).elim, fun hf => .inr (hdd hf), fun hf => ?_⟩⟩⟩
  show x.bufferedSendData ≤ _
  rw [(hp.df hf).2.2]; exact Nat.zero_le _

theorem pe_rest (x : Stream) (f : SFrame) (rest : List SFrame) (hps : x.pendingSend = f :: rest) (hp : PE sv x) :
    PE sv { x with pendingSend := rest } := by
  refine ⟨fun hf => ?_, hp.ns⟩
  have hd := hp.df hf
  refine ⟨hd.1, ?_, hd.2.2⟩
  have := dsum_tail_le f rest
  have h0 := hd.2.1
  rw [hps] at h0
  show dsum rest = 0
  omega

theorem xp_sched_pe (x : Stream) (hp : PE sv x) :
    (x.setQueued .pendingSend true).key = x.key ∧ Xp sv x (x.setQueued .pendingSend true) :=
  ⟨rfl, ⟨fun _ hx => ⟨fun hl hs => (hp.ns hl hs).elim, fun hf => .inr (hp.df hf), fun hf => hx.e hf⟩⟩⟩

theorem qPushPE_xk (t : Streams) (id : Nat) (hp : Live t id → PE sv (t.stream id)) : XK sv t (t.qPush .pendingSend id).1 := by
  unfold Streams.qPush; split
  · exact .refl _
  · dsimp only
    exact (modStream_xk_live _ _ _ (fun hl => xp_sched_pe _ (hp hl))).trans (setQ_xk _ _ _)

theorem finish_xes {t : Streams} (id : Nat) (c : Prop) [Decidable c] (b : Bool) (hx : XEs sv t)
    (hp : Live t id → PE sv (t.stream id)) :
    XEs sv ((if c then (t.qPush .pendingSend id).1 else t).transitionAfter id b) := by
  refine (transitionAfter_xk _ _ _).xes ?_
  split
  · exact (qPushPE_xk t id hp).xes hx
  · exact hx

theorem finish_noppq {t : Streams} (id : Nat) (c : Prop) [Decidable c] (b : Bool) (hp : NoPPQ t) :
    NoPPQ ((if c then (t.qPush .pendingSend id).1 else t).transitionAfter id b) := by
  refine (transitionAfter_fk _ _ _).noppq ?_
  split
  · exact (qPush_fk _ _ _ (by decide)).noppq hp
  · exact hp

/-- popping the front frame of the popped entry -/
theorem popRest_xes {s : Streams} {id : Nat} {f : SFrame} {rest : List SFrame} (hl : Live s id)
    (hps : (s.stream id).pendingSend = f :: rest) (hx : XEs sv s) (hp : PE sv (s.stream id)) :
    XEs sv (s.modStream id fun st => { st with pendingSend := rest }) ∧
    PE sv ((s.modStream id fun st => { st with pendingSend := rest }).stream id) := by
  refine ⟨(modStream_xk s id _ (xp_rest _ f rest hps hp)).xes hx, ?_⟩
  have := stream_modStream_live hl (fun st => ({ st with pendingSend := rest } : Stream)) (fun _ => rfl)
  rw [this]; exact pe_rest _ f rest hps hp


-- ===================================================================== the discard arm: `clear_queue`, `reclaim_all_capacity`

theorem qPop_sp (s : Streams) (q : QName) (h : q ≠ .pendingResetExpired) : SP s (s.qPop q).1 :=
  fun j => qPop_spr (P := coreOf) s q (fun x v => setQueued_core x q v h) j

/-- `assign_connection_capacity` visits streams that are send-streaming or have buffered data: `transition_after` is a no-op -/
theorem assignConnectionCapacityLoop_sp (n : Nat) (s : Streams) : SP s (Streams.assignConnectionCapacityLoop n s) := by
  induction n generalizing s with
  | zero => unfold Streams.assignConnectionCapacityLoop; exact .refl _
  | succ n ih =>
    unfold Streams.assignConnectionCapacityLoop
    split
    · have h0 := qPop_sp s .pendingCapacity (by decide)
      split
      · next s1 heq => rw [heq] at h0; exact h0
      · next s1 id heq =>
        rw [heq] at h0
        have h1 : SP s s1 := h0
        dsimp only
        split
        · exact h1.trans (ih s1)
        · next hc =>
          have hc' : ((s1.stream id).state.isSendStreaming || decide ((s1.stream id).bufferedSendData > 0)) = true := by
            cases hh : ((s1.stream id).state.isSendStreaming || decide ((s1.stream id).bufferedSendData > 0)) with
            | true => rfl
            | false => rw [hh] at hc; simp at hc
          have hsp := tryAssignCapacity_sp s1 id id
          have hnc : ((s1.tryAssignCapacity id).stream id).isClosed = false := by
            rw [isClosed_of_core hsp]; exact ConnWakeP.not_closed_of_streaming hc'
          rw [transitionAfter_noop hnc (fun hb => by rw [resetAt_of_core hsp]; exact hb)]
          exact (h1.trans (tryAssignCapacity_sp s1 id)).trans (ih _)
    · exact .refl _

theorem reclaimAllCapacity_sp (s : Streams) (k : Nat) : SP s (s.reclaimAllCapacity k) := by
  unfold Streams.reclaimAllCapacity Streams.assignConnectionCapacity
  dsimp only
  split
  · refine SP.trans (b := (s.modStream k fun st =>
        { st with sendFlow := (st.sendFlow.claimCapacity (s.stream k).sendFlow.available.asSize).1 })) ?_ ?_
    · exact SP.modStream s k _ (fun _ => rfl) (fun _ => rfl)
    · exact SP.trans (SP.of_store rfl) (assignConnectionCapacityLoop_sp _ _)
  · exact .refl _

theorem closed_of_discard {st : State}
    (h : (match st.getScheduledReset with | some reason => reason != NO_ERROR | none => false) = true) :
    st.isClosed = true := by
  unfold State.getScheduledReset at h
  obtain ⟨inner⟩ := st
  rcases inner with _ | _ | _ | ⟨_ | _, _ | _⟩ | ⟨_ | _⟩ | ⟨_ | _⟩ | c <;> simp at h ⊢ <;> rfl

theorem discard_xes {s : Streams} {id : Nat} (hc : Live s id → (s.stream id).state.isClosed = true) (hx : XEs sv s) :
    XEs sv ((((s.clearQueue id).reclaimAllCapacity id).qPush .pendingSend id).1) := by
  have hca : ClosedAt s id := hc
  have x0 : XK sv s (s.clearQueue id) := clearQueue_xk s id (fun hl => closed_not_streaming (hc hl))
  have c0 := clearQueue_closedAt hca
  have f0 := clearQueue_self s id
  generalize s.clearQueue id = t0 at x0 c0 f0 ⊢
  have x1 : XK sv t0 (t0.reclaimAllCapacity id) := reclaimAllCapacity_xk t0 id
  have sp := reclaimAllCapacity_sp t0 id id
  have lk := (reclaimAllCapacity_lt t0 id).keys
  generalize t0.reclaimAllCapacity id = t at x1 sp lk ⊢
  refine (qPushPE_xk t id (fun hl => ?_)).xes (x1.xes (x0.xes hx))
  have hl0 : Live t0 id := lk.live.mp hl
  unfold coreOf at sp
  simp only [Prod.mk.injEq] at sp
  have hcl : (t.stream id).state.isClosed = true := by rw [sp.1]; exact c0 hl0
  refine ⟨fun _ => ⟨hcl, by rw [sp.2.2.1, f0.1]; rfl, by rw [sp.2.1, f0.2]⟩, fun _ hsu => ?_⟩
  rw [suB_closed hcl] at hsu; cases hsu

-- ===================================================================== the DATA arm

theorem emitC_xes (sd : Stream → Nat → Nat → Stream × List String × Bool) (hsd : SdNP sd) (hsk : SdSK sd) {s : Streams}
    {id len sz : Nat} {eos : Bool} {rest : List SFrame} (hl : Live s id)
    (hps : (s.stream id).pendingSend = .data sz eos :: rest) (hlen : len ≤ sz) (hx : XEs sv s) (hp : PE sv (s.stream id)) :
    XEs sv (ConnFlowP.emitC sd s id len rest) ∧
    (Live (ConnFlowP.emitC sd s id len rest) id → PE sv ((ConnFlowP.emitC sd s id len rest).stream id)) := by
  have hz : flagB (s.stream id) = true → len = 0 := by
    intro hf
    have := (hp.df hf).2.1
    rw [hps] at this; simp only [dsum] at this; omega
  have h1 := popRest_xes hl hps hx hp
  have hst1 := stream_modStream_live hl (fun st => ({ st with pendingSend := rest } : Stream)) (fun _ => rfl)
  have hl1 : Live (s.modStream id fun st => { st with pendingSend := rest }) id := (SameKeys.modStream _ _ _).live.mpr hl
  have hstore := ConnFlowP.emitC_store sd s id len rest
  generalize (s.modStream id fun st => { st with pendingSend := rest }) = s1 at h1 hst1 hl1 hstore
  have k1 := hsk (s1.stream id) len s1.prio.maxBufferSize
  have hsend := hsd.send (s1.stream id) len s1.prio.maxBufferSize
  have hbuf := hsd.buf (s1.stream id) len s1.prio.maxBufferSize
  have hfs := (hsd.same (s1.stream id) len s1.prio.maxBufferSize).fl .pendingSend
  have hfo := (hsd.same (s1.stream id) len s1.prio.maxBufferSize).fl .pendingOpen
  generalize (sd (s1.stream id) len s1.prio.maxBufferSize).1 = st' at k1 hsend hbuf hfs hfo hstore
  have hkey : st'.key = id := k1.1.trans (stream_key _ _)
  have hflag : flagB st' = flagB (s1.stream id) := by
    unfold flagB
    have : st'.isPendingOpen = (s1.stream id).isPendingOpen := hfo
    rw [this, k1.2.2.2]
  have hflag0 : flagB (s1.stream id) = flagB (s.stream id) := by rw [hst1]; rfl
  have hdd : flagB st' = true → Dd st' := by
    intro hf
    have hf1 : flagB (s1.stream id) = true := by rw [← hflag]; exact hf
    have hd := h1.2.df hf1
    have hl0 : len = 0 := hz (by rw [← hflag0]; exact hf1)
    refine ⟨by rw [k1.2.2.1]; exact hd.1, by rw [hsend]; exact hd.2.1, ?_⟩
    rw [hbuf, hd.2.2, hl0]
    exact wrapSubUsize_of_le (Nat.le_refl 0) (by decide)
  have hpe' : PE sv st' := ⟨hdd, fun hl' hs' => h1.2.ns (by rw [← k1.2.1]; exact hl') (by rw [← k1.2.2.1]; exact hs')⟩
  have hxp : Xp sv (s1.stream st'.key) st' := by
    rw [hkey]
    refine ⟨fun r _ => ⟨fun hl' hs' => (hpe'.ns hl' hs').elim, fun hf => .inr (hdd hf), fun hf => ?_⟩⟩
    rw [(hdd hf).2.2]; exact Nat.zero_le _
  have h2 : XEs sv (s1.setStream st') := (setStream_xk s1 st' hxp).xes h1.1
  refine ⟨h2.of_store hstore, fun hle => ?_⟩
  have hget : (s1.setStream st').store.get? id = some st' := by
    obtain ⟨y, hy⟩ := hl1
    rw [setStream_get?, hy]; simp [hkey, get?_key hy]
  have : (ConnFlowP.emitC sd s id len rest).stream id = st' := by
    rw [stream_of_store_eqP (s := s1.setStream st') hstore, stream_of_get? hget]
  rw [this]; exact hpe'

theorem notifyRecv_proj5 (x : Stream) : x.notifyRecv.1.id = x.id ∧ x.notifyRecv.1.pendingSend = x.pendingSend ∧
    x.notifyRecv.1.bufferedSendData = x.bufferedSendData ∧ x.notifyRecv.1.isPendingOpen = x.isPendingOpen ∧
    x.notifyRecv.1.isPendingPush = x.isPendingPush := by
  unfold Stream.notifyRecv; split <;> exact ⟨rfl, rfl, rfl, rfl, rfl⟩
theorem notifyPush_proj5 (x : Stream) : x.notifyPush.1.id = x.id ∧ x.notifyPush.1.pendingSend = x.pendingSend ∧
    x.notifyPush.1.bufferedSendData = x.bufferedSendData ∧ x.notifyPush.1.isPendingOpen = x.isPendingOpen ∧
    x.notifyPush.1.isPendingPush = x.isPendingPush := by
  unfold Stream.notifyPush; split <;> exact ⟨rfl, rfl, rfl, rfl, rfl⟩

theorem setReset_fields (x : Stream) (r : Reason) (i : Initiator) :
    (x.setReset r i).1.id = x.id ∧ (x.setReset r i).1.pendingSend = x.pendingSend ∧
    (x.setReset r i).1.bufferedSendData = x.bufferedSendData ∧ (x.setReset r i).1.isPendingOpen = x.isPendingOpen ∧
    (x.setReset r i).1.isPendingPush = x.isPendingPush ∧ (x.setReset r i).1.state.isClosed = true := by
  have hst := (ConnFlowP.setReset_state x r i).1
  have e : (x.setReset r i).1 =
      ((({ x with state := x.state.setReset x.id r i } : Stream).notifySend.1).notifyPush.1).notifyRecv.1 := rfl
  have a := notifySend_proj7 ({ x with state := x.state.setReset x.id r i } : Stream)
  have b := notifyPush_proj5 ({ x with state := x.state.setReset x.id r i } : Stream).notifySend.1
  have c := notifyRecv_proj5 (({ x with state := x.state.setReset x.id r i } : Stream).notifySend.1).notifyPush.1
  refine ⟨?_, ?_, ?_, ?_, ?_, by rw [hst]; rfl⟩
  · rw [e]; exact c.1.trans (b.1.trans a.2.1)
  · rw [e]; exact c.2.1.trans (b.2.1.trans a.2.2.2.1)
  · rw [e]; exact c.2.2.1.trans (b.2.2.1.trans a.2.2.2.2.2.1)
  · rw [e]; exact c.2.2.2.1.trans (b.2.2.2.1.trans a.2.2.2.2.2.2.1)
  · rw [e]; exact c.2.2.2.2.trans (b.2.2.2.2.trans a.2.2.2.2.2.2.2)

end H2V.Lemmas.ConnNoPanicP
