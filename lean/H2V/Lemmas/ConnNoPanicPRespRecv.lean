import H2V.Lemmas.ConnNoPanicPRespSend
/-
  C08 (no panic) — the client response path, part 3: the frame `RP` for recv.rs, `Store::for_each`, and the
  functions of streams.rs built on them.  The functions that append to / pop from / clear the receive queue of
  their argument stream `k` are frame steps for every other entry (`k ∈ X`).
-/
namespace H2V.Lemmas.ConnNoPanicP
open H2V H2V.Model H2V.Model.Conn H2V.Lemmas.ConnCountsP
attribute [local irreducible] wrapSubU32 wrapSubUsize

-- ===================================================================== state transitions of the receive half

theorem recvReset_str (st : State) (sid : Nat) (r : Reason) (q : Bool) (hs : (st.recvReset sid r q).isRecvStreaming = true) :
    st.isRecvStreaming = true := by
  obtain ⟨i⟩ := st
  unfold State.recvReset at hs
  cases i <;> first | (cases q <;> first | exact hs | cases hs) | cases hs

theorem handleError_str (st : State) (e : PErr) (hs : (st.handleError e).isRecvStreaming = true) : st.isRecvStreaming = true := by
  obtain ⟨i⟩ := st
  unfold State.handleError at hs
  cases i <;> first | exact hs | cases hs

theorem recvEof_str (st : State) (hs : st.recvEof.isRecvStreaming = true) : st.isRecvStreaming = true := by
  obtain ⟨i⟩ := st
  unfold State.recvEof at hs
  cases i <;> first | exact hs | cases hs

theorem recvClose_str {st st' : State} {r : Except PErr Unit} (h : st.recvClose = (st', r)) (hs : st'.isRecvStreaming = true) :
    st.isRecvStreaming = true := by
  obtain ⟨i⟩ := st
  unfold State.recvClose at h
  cases i <;> simp only [Prod.mk.injEq] at h <;> rw [← h.1] at hs <;> first | exact hs | cases hs

-- ===================================================================== recv.rs: connection level, bookkeeping

theorem releaseConnectionCapacity_rp {X : List Nat} (s : Streams) (c : Nat) (b : Bool) : RP X s (s.releaseConnectionCapacity c b) := by
  unfold Streams.releaseConnectionCapacity; rp_auto
theorem releaseCapacity_rp {X : List Nat} (s : Streams) (k c : Nat) (b : Bool) : RP X s (s.releaseCapacity k c b).1 := by
  unfold Streams.releaseCapacity; rp_auto
theorem setTargetConnectionWindow_rp {X : List Nat} (s : Streams) (t : Nat) : RP X s (s.setTargetConnectionWindow t).1 := by
  unfold Streams.setTargetConnectionWindow; rp_auto
theorem consumeConnectionWindow_rp {X : List Nat} (s : Streams) (sz : Nat) : RP X s (s.consumeConnectionWindow sz).1 := by
  unfold Streams.consumeConnectionWindow; rp_auto
theorem ignoreData_rp {X : List Nat} (s : Streams) (sz : Nat) : RP X s (s.ignoreData sz).1 := by
  unfold Streams.ignoreData; rp_auto
theorem recvOpen_rp {X : List Nat} (s : Streams) (id : Nat) (b : Bool) : RP X s (s.recvOpen id b).1 := by
  unfold Streams.recvOpen; rp_auto
theorem recvGoAway_rp {X : List Nat} (s : Streams) (l : Nat) : RP X s (s.recvGoAway l) := by
  unfold Streams.recvGoAway; rp_auto
theorem recvMaybeResetNextStreamId_rp {X : List Nat} (s : Streams) (id : Nat) : RP X s (s.recvMaybeResetNextStreamId id) := by
  unfold Streams.recvMaybeResetNextStreamId; rp_auto
theorem enqueueResetExpiration_rp {X : List Nat} (s : Streams) (k : Nat) : RP X s (s.enqueueResetExpiration k) := by
  unfold Streams.enqueueResetExpiration; rp_auto
theorem sendPendingRefusal_rp {X : List Nat} (s : Streams) (w : Writer) : RP X s (s.sendPendingRefusal w).1 := by
  unfold Streams.sendPendingRefusal; rp_auto
theorem scheduleRecv_rp {X : List Nat} (s : Streams) (k : Nat) (t : String) : RP X s (s.scheduleRecv k t).1 := by
  unfold Streams.scheduleRecv; rp_auto
theorem recvNextIncoming_rp {X : List Nat} (s : Streams) : RP X s s.recvNextIncoming.1 := by
  unfold Streams.recvNextIncoming; rp_auto

theorem recvRecvReset_rp {X : List Nat} (s : Streams) (k : Nat) (r : Reason) : RP X s (s.recvRecvReset k r).1 := by
  unfold Streams.recvRecvReset
  dsimp only
  generalize hp : (if (s.stream k).isPendingAccept = true then _ else (s, (none : Option PErr))) = p
  obtain ⟨s0, o⟩ := p
  have h0 : RP X s s0 := by
    have : RP X s (if (s.stream k).isPendingAccept = true then
        if s.counts.canIncNumRemoteResetStreams = true then
          (s.modCountsA "can_inc_num_remote_reset_streams" Counts.incNumRemoteResetStreams, (none : Option PErr))
        else (s, some (PErr.libraryGoAwayData ENHANCE_YOUR_CALM "too_many_resets"))
      else (s, none)).1 := by rp_auto
    rw [hp] at this; exact this
  cases o with
  | some e => exact h0
  | none =>
    simp only []
    have h1 : RP X s (s0.modStream k fun st => { st with state := st.state.recvReset st.id r st.isPendingSend }) :=
      h0.trans (modStream_rp _ _ _ (fun x => setState_rs _ _ (recvReset_str _ _ _ _)))
    rp_auto

theorem recvHandleError_rp {X : List Nat} (s : Streams) (k : Nat) (e : PErr) : RP X s (s.recvHandleError k e) := by
  unfold Streams.recvHandleError
  have h1 : RP X s (s.modStream k fun st => { st with state := st.state.handleError e }) :=
    modStream_rp _ _ _ (fun x => setState_rs _ _ (handleError_str _ _))
  rp_auto

theorem recvRecvEof_rp {X : List Nat} (s : Streams) (k : Nat) : RP X s (s.recvRecvEof k) := by
  unfold Streams.recvRecvEof
  have h1 : RP X s (s.modStream k fun st => { st with state := st.state.recvEof }) :=
    modStream_rp _ _ _ (fun x => setState_rs _ _ (recvEof_str _))
  rp_auto

-- ===================================================================== the queue-draining loops

theorem clearExpiredResetStreams_rp {X : List Nat} (n : Nat) (s : Streams) : RP X s (Streams.clearExpiredResetStreams n s) := by
  induction n generalizing s with
  | zero => exact .refl _ _
  | succ n ih => unfold Streams.clearExpiredResetStreams; rp_auto_ih ih
theorem clearStreamWindowUpdateQueue_rp {X : List Nat} (n : Nat) (s : Streams) :
    RP X s (Streams.clearStreamWindowUpdateQueue n s) := by
  induction n generalizing s with
  | zero => exact .refl _ _
  | succ n ih => unfold Streams.clearStreamWindowUpdateQueue; rp_auto_ih ih
theorem clearAllResetStreams_rp {X : List Nat} (n : Nat) (s : Streams) : RP X s (Streams.clearAllResetStreams n s) := by
  induction n generalizing s with
  | zero => exact .refl _ _
  | succ n ih => unfold Streams.clearAllResetStreams; rp_auto_ih ih
theorem clearAllPendingAccept_rp {X : List Nat} (n : Nat) (s : Streams) : RP X s (Streams.clearAllPendingAccept n s) := by
  induction n generalizing s with
  | zero => exact .refl _ _
  | succ n ih => unfold Streams.clearAllPendingAccept; rp_auto_ih ih
theorem recvClearQueues_rp {X : List Nat} (s : Streams) (b : Bool) : RP X s (s.recvClearQueues b) := by
  unfold Streams.recvClearQueues; rp_auto
theorem clearQueues_rp {X : List Nat} (s : Streams) (b : Bool) : RP X s (s.clearQueues b) := by
  unfold Streams.clearQueues; rp_auto

-- ===================================================================== functions that touch the queue of `k`

theorem clearRecvBuffer_rp {X : List Nat} (s : Streams) (k : Nat) (b : Bool) (hX : k ∈ X) : RP X s (s.clearRecvBuffer k b) := by
  unfold Streams.clearRecvBuffer
  dsimp only
  have h1 : RP X s (({ s with counts := (Streams.clearRecvBufferLoop (s.stream k).inFlightRecvData (s.stream k).pendingRecv 0 s.counts).2 } :
      Streams).modStream k fun st => { st with pendingRecv := [] }) :=
    (setCounts_rp s _).trans (modStream_rpx _ _ _ (fun _ => rfl) hX)
  rp_auto

theorem releaseClosedCapacity_rp {X : List Nat} (s : Streams) (k : Nat) (hX : k ∈ X) : RP X s (s.releaseClosedCapacity k) := by
  unfold Streams.releaseClosedCapacity; rp_auto

theorem recvPollData_rp {X : List Nat} (s : Streams) (k : Nat) (t : String) (hX : k ∈ X) : RP X s (s.recvPollData k t).1 := by
  unfold Streams.recvPollData
  split
  · exact modStream_rpx _ _ _ (fun _ => rfl) hX
  · rp_auto
  · rp_auto
theorem recvPollTrailers_rp {X : List Nat} (s : Streams) (k : Nat) (t : String) (hX : k ∈ X) : RP X s (s.recvPollTrailers k t).1 := by
  unfold Streams.recvPollTrailers
  split
  · exact modStream_rpx _ _ _ (fun _ => rfl) hX
  · rp_auto
  · rp_auto
theorem recvPollInformational_rp {X : List Nat} (s : Streams) (k : Nat) (t : String) (hX : k ∈ X) :
    RP X s (s.recvPollInformational k t).1 := by
  unfold Streams.recvPollInformational
  dsimp only
  split
  · next r heq =>
    split at heq
    · cases heq; exact .refl _ _
    · cases heq; exact modStream_rpx _ _ _ (fun _ => rfl) hX
    · cases heq
  · rp_auto
theorem recvPollResponse_rp {X : List Nat} (n : Nat) (s : Streams) (k : Nat) (t : String) (hX : k ∈ X) :
    RP X s (Streams.recvPollResponse n s k t).1 := by
  induction n generalizing s with
  | zero => exact .refl _ _
  | succ n ih =>
    unfold Streams.recvPollResponse
    split
    · exact modStream_rpx _ _ _ (fun _ => rfl) hX
    · refine RP.trans ?_ (ih _); exact modStream_rpx _ _ _ (fun _ => rfl) hX
    · refine RP.trans ?_ (panic_rp _ _); exact modStream_rpx _ _ _ (fun _ => rfl) hX
    · rp_auto
theorem recvTakeRequest_rp {X : List Nat} (s : Streams) (k : Nat) (hX : k ∈ X) : RP X s (s.recvTakeRequest k).1 := by
  unfold Streams.recvTakeRequest
  split
  · exact modStream_rpx _ _ _ (fun _ => rfl) hX
  · refine RP.trans ?_ (panic_rp _ _); exact modStream_rpx _ _ _ (fun _ => rfl) hX
  · exact panic_rp _ _

end H2V.Lemmas.ConnNoPanicP
