import H2V.Lemmas.ConnFidPFnRecv
import H2V.Lemmas.CompState
/-
  ConnFidP, part 7 — every function of ConnStreams.lean (streams.rs) as a sequence of elementary steps:
  the frame entry points, the teardown functions, `poll_complete`, and all handle operations.
-/
set_option linter.unusedSectionVars false
namespace H2V.Lemmas.ConnFidP
open H2V H2V.Model H2V.Model.Conn H2V.Lemmas.ConnWakeP

section
variable {P : Perm} {s0 s : Streams} (hg : P.gone)
include hg

omit hg in
theorem closedAt_modStreamW {s : Streams} {k : Nat} (j : Nat) (f : Stream → Stream × List String)
    (hf : ∀ a, Quiet a (f a).1) (h : ClosedAt s k) : ClosedAt (s.modStreamW j f) k := by
  intro a ha
  rw [get?_modStreamW s j f (fun a => (hf a).key)] at ha
  split at ha
  · next e =>
    subst e
    cases hs : s.store.get? k with
    | none => rw [hs] at ha; cases ha
    | some x => rw [hs] at ha; cases ha; exact (hf x).closed (h x hs)
  · exact h a ha

omit hg in
theorem closedAt_modStream_state {s : Streams} (k : Nat) (f : Stream → Stream) (hk : ∀ a, (f a).key = a.key)
    (hf : ∀ a, (f a).state.isClosed = true) : ClosedAt (s.modStream k f) k := by
  intro a ha
  rw [get?_modStream s k f hk] at ha
  simp only [if_true] at ha
  cases hs : s.store.get? k with
  | none => rw [hs] at ha; cases ha
  | some x => rw [hs] at ha; cases ha; exact hf x

omit hg in
theorem closedAt_recvHandleError (s : Streams) (k : Nat) (e : PErr) : ClosedAt (s.recvHandleError k e) k := by
  unfold Streams.recvHandleError
  refine closedAt_modStreamW _ _ notifyPush_quiet (closedAt_modStreamW _ _ notifyRecv_quiet
    (closedAt_modStreamW _ _ notifySend_quiet (closedAt_modStream_state k _ (fun _ => rfl) (fun a => ?_))))
  have := H2V.Lemmas.Comp.handleError_closed a.state e
  exact (H2V.Lemmas.Comp.isClosed_iff _).mpr this

omit hg in
theorem closedAt_recvRecvEof (s : Streams) (k : Nat) : ClosedAt (s.recvRecvEof k) k := by
  unfold Streams.recvRecvEof
  refine closedAt_modStreamW _ _ notifyPush_quiet (closedAt_modStreamW _ _ notifyRecv_quiet
    (closedAt_modStreamW _ _ notifySend_quiet (closedAt_modStream_state k _ (fun _ => rfl) (fun a => ?_))))
  have := H2V.Lemmas.Comp.recvEof_closed a.state
  exact (H2V.Lemmas.Comp.isClosed_iff _).mpr this

omit hg in
theorem closedAt_recvRecvReset {s s' : Streams} {k : Nat} {r : Reason} {u : Unit}
    (h : s.recvRecvReset k r = (s', .ok u)) : ClosedAt s' k := by
  unfold Streams.recvRecvReset at h
  simp only at h
  split at h
  · cases h
  · next s1 heq =>
    cases h
    refine closedAt_modStreamW _ _ notifyPush_quiet (closedAt_modStreamW _ _ notifyRecv_quiet
      (closedAt_modStreamW _ _ notifySend_quiet (closedAt_modStream_state k _ (fun _ => rfl) (fun a => ?_))))
    have := H2V.Lemmas.Comp.recvReset_closed a.state a.id r a.isPendingSend
    exact (H2V.Lemmas.Comp.isClosed_iff _).mpr this

theorem transition_acc {α : Type} (k : Nat) (f : Streams → Streams × α)
    (hf : ∀ {s' : Streams}, Tr P s0 s' → Tr P s0 (f s').1) (h : Tr P s0 s) :
    Tr P s0 (s.transition k f).1 := by
  unfold Streams.transition
  exact transitionAfter_acc hg _ _ (hf h)
grind_pattern transition_acc => Tr P s0 (Prod.fst (Streams.transition s k f))

@[grind ←] theorem resetOnRecvStreamErr_acc (k : Nat) (r : Except PErr Unit) (hc : P.cut k) (h : Tr P s0 s) :
    Tr P s0 (s.resetOnRecvStreamErr k r).1 := by
  unfold Streams.resetOnRecvStreamErr; fid_grind
@[grind ←] theorem actionsSendReset_acc (k : Nat) (r : Reason) (i : Initiator) (hc : P.cut k) (h : Tr P s0 s) :
    Tr P s0 (s.actionsSendReset k r i).1 := by
  unfold Streams.actionsSendReset; fid_grind
@[grind ←] theorem clearQueues_acc (b : Bool) (h : Tr P s0 s) : Tr P s0 (s.clearQueues b) := by
  unfold Streams.clearQueues; fid_grind
@[grind ←] theorem recvHeaders_acc (hd : HeadersIn) (hc : CutAll P) (hA : RpushAll P)
    (h431 : Push431 P)
    (h : Tr P s0 s) : Tr P s0 (s.recvHeaders hd).1 := by
  unfold Streams.recvHeaders; simp only [f431_fold]; fid_grind
@[grind ←] theorem recvData_acc (k : Nat) (p : Bytes) (eos : Bool) (pad : Option Nat) (hc : CutAll P)
    (hA : RpushAll P) (h : Tr P s0 s) :
    Tr P s0 (s.recvData k p eos pad).1 := by
  unfold Streams.recvData; fid_grind
@[grind ←] theorem recvReset_acc (k : Nat) (r : Reason) (hc : CutAll P) (h : Tr P s0 s) : Tr P s0 (s.recvReset k r).1 := by
  unfold Streams.recvReset
  have hcl := @closedAt_recvRecvReset
  fid_grind
@[grind ←] theorem recvWindowUpdate_acc (k inc : Nat) (hc : CutAll P) (h : Tr P s0 s) :
    Tr P s0 (s.recvWindowUpdate k inc).1 := by
  unfold Streams.recvWindowUpdate; fid_grind
@[grind ←] theorem recvPushPromise_acc (k : Nat) (hd : HeadersIn) (hc : CutAll P) (hA : RpushAll P) (h : Tr P s0 s) :
    Tr P s0 (s.recvPushPromise k hd).1 := by
  unfold Streams.recvPushPromise; fid_grind

/-- the closure `handle_error` / `recv_go_away` run on a stream -/
theorem errClosure_acc (e : PErr) (k : Nat) (hc : P.cut k) (h : Tr P s0 s) :
    Tr P s0 (s.transition k fun s => ((s.recvHandleError k e).sendHandleError k, ())).1 := by
  have h1 := sendHandleError_acc hg k hc (closedAt_recvHandleError s k e) (recvHandleError_acc hg k e h)
  simp only [Streams.transition]
  exact transitionAfter_acc hg _ _ h1
/-- the closure `recv_eof` runs on a stream -/
theorem eofClosure_acc (k : Nat) (hc : P.cut k) (h : Tr P s0 s) :
    Tr P s0 (s.transition k fun s => ((s.recvRecvEof k).sendHandleError k, ())).1 := by
  have h1 := sendHandleError_acc hg k hc (closedAt_recvRecvEof s k) (recvRecvEof_acc hg k h)
  simp only [Streams.transition]
  exact transitionAfter_acc hg _ _ h1

@[grind ←] theorem handleError_acc (e : PErr) (hc : CutAll P) (h : Tr P s0 s) : Tr P s0 (s.handleError e).1 := by
  unfold Streams.handleError
  exact setConnError_acc e (storeForEach_acc hg _ (fun k h => errClosure_acc hg e k (hc k) h) h)
@[grind ←] theorem recvGoAwayFrame_acc (l : Nat) (r : Reason) (d : Bytes) (hc : CutAll P) (h : Tr P s0 s) :
    Tr P s0 (s.recvGoAwayFrame l r d).1 := by
  unfold Streams.recvGoAwayFrame
  have h0 := sendRecvGoAway_acc hg l h
  split
  · next heq => rw [heq] at h0; exact h0
  · next s1 _ heq =>
    rw [heq] at h0
    refine setConnError_acc _ (storeForEach_acc hg _ (fun k h => ?_) h0)
    dsimp only
    split
    · exact errClosure_acc hg _ k (hc k) h
    · exact h
@[grind ←] theorem recvEof_acc (b : Bool) (hc : CutAll P) (h : Tr P s0 s) : Tr P s0 (s.recvEof b) := by
  unfold Streams.recvEof
  refine clearQueues_acc hg b (storeForEach_acc hg _ (fun k h => eofClosure_acc hg k (hc k) h) ?_)
  split
  · exact setConnError_acc _ h
  · exact h
@[grind ←] theorem innerSendReset_acc (k : Nat) (r : Reason) (hc : CutAll P) (h : Tr P s0 s) :
    Tr P s0 (s.innerSendReset k r).1 := by
  unfold Streams.innerSendReset; fid_grind
@[grind ←] theorem bufferPending_acc (n : Nat) (w : Writer) (hw : P.write) (hp : P.pop) (hc : CutAll P) (h : Tr P s0 s) :
    Tr P s0 (Streams.bufferPending n s w).1 := by
  unfold Streams.bufferPending; fid_grind
@[grind ←] theorem pollSendPendingRefusal_acc (n : Nat) (w : Writer) (io : Tio) (t : String) (h : Tr P s0 s) :
    Tr P s0 (Streams.pollSendPendingRefusal n s w io t).1 := by
  induction n generalizing s w io with
  | zero => unfold Streams.pollSendPendingRefusal; exact h
  | succ n ih => unfold Streams.pollSendPendingRefusal; fid_grind
@[grind ←] theorem applyRemoteSettings_acc (v : List (Nat × Nat)) (b : Bool) (hc : CutAll P) (h : Tr P s0 s) :
    Tr P s0 (s.applyRemoteSettings v b).1 := by
  unfold Streams.applyRemoteSettings; fid_grind
@[grind ←] theorem applyLocalSettingsFrame_acc (v : List (Nat × Nat)) (h : Tr P s0 s) :
    Tr P s0 (s.applyLocalSettingsFrame v).1 := by
  unfold Streams.applyLocalSettingsFrame; fid_grind
@[grind ←] theorem refInc_acc (k : Nat) (h : Tr P s0 s) : Tr P s0 (s.refInc k) := by
  unfold Streams.refInc; fid_grind
@[grind ←] theorem cloneStreamRef_acc (k : Nat) (h : Tr P s0 s) : Tr P s0 (s.cloneStreamRef k) := by
  unfold Streams.cloneStreamRef; fid_grind
@[grind ←] theorem maybeCancel_acc (k : Nat) (h : Tr P s0 s) : Tr P s0 (s.maybeCancel k) := by
  unfold Streams.maybeCancel; fid_grind
theorem cancelPromises_acc (l : List Nat) (hr : RclearAll P) (h : Tr P s0 s) :
    Tr P s0 (l.foldl (fun s promise =>
        let s := s.modStream promise fun st => { st with isPendingAccept := false }
        (s.transition promise fun s =>
          let s := s.maybeCancel promise
          (if (s.stream promise).refCount == 0 then s.releaseClosedCapacity promise else s, ())).1) s) := by
  induction l generalizing s with
  | nil => exact h
  | cons p l ih =>
    rw [List.foldl_cons]
    apply ih
    have := hr p
    fid_grind
@[grind ←] theorem dropStreamRef_acc (k : Nat) (hr : RclearAll P) (h : Tr P s0 s) : Tr P s0 (s.dropStreamRef k) := by
  unfold Streams.dropStreamRef
  have hc := fun s l => @cancelPromises_acc P s0 s hg l hr
  have := hr k
  fid_grind
@[grind ←] theorem sendRequest_acc (b : Bool) (f : List Hpack.Field) (eos : Bool) (p : Option Nat)
    (hA : PushHeadAll P eos f) (h : Tr P s0 s) :
    Tr P s0 (s.sendRequest b f eos p).1 := by
  unfold Streams.sendRequest; fid_grind
@[grind ←] theorem nextIncoming_acc (h : Tr P s0 s) : Tr P s0 s.nextIncoming.1 := by
  unfold Streams.nextIncoming; fid_grind
@[grind ←] theorem refSendResponse_acc (k : Nat) (f : List Hpack.Field) (eos : Bool)
    (hA : P.ok (.push k (.headers eos f))) (h : Tr P s0 s) :
    Tr P s0 (s.refSendResponse k f eos).1 := by
  unfold Streams.refSendResponse; fid_grind
@[grind ←] theorem refSendInformationalHeaders_acc (k : Nat) (f : List Hpack.Field)
    (hA : P.ok (.push k (.headers false f))) (h : Tr P s0 s) :
    Tr P s0 (s.refSendInformationalHeaders k f).1 := by
  unfold Streams.refSendInformationalHeaders; fid_grind
@[grind ←] theorem refSendPushPromise_acc (k : Nat) (v : Bool) (f : List Hpack.Field)
    (hA : PushPromiseAll P k f) (h : Tr P s0 s) :
    Tr P s0 (s.refSendPushPromise k v f).1 := by
  unfold Streams.refSendPushPromise; fid_grind
@[grind ←] theorem cloneHandle_acc (h : Tr P s0 s) : Tr P s0 s.cloneHandle := by
  unfold Streams.cloneHandle; fid_grind
@[grind ←] theorem dropHandle_acc (h : Tr P s0 s) : Tr P s0 s.dropHandle := by
  unfold Streams.dropHandle; fid_grind
@[grind ←] theorem refSendData_acc (k len : Nat) (eos : Bool) (hA : P.ok (.push k (.data len eos))) (h : Tr P s0 s) :
    Tr P s0 (s.refSendData k len eos).1 := by
  unfold Streams.refSendData; fid_grind
@[grind ←] theorem refSendTrailers_acc (k : Nat) (f : List Hpack.Field) (hA : P.ok (.push k (.headers true f))) (h : Tr P s0 s) :
    Tr P s0 (s.refSendTrailers k f).1 := by
  unfold Streams.refSendTrailers; fid_grind
@[grind ←] theorem refSendReset_acc (k : Nat) (r : Reason) (hc : P.cut k) (h : Tr P s0 s) : Tr P s0 (s.refSendReset k r) := by
  unfold Streams.refSendReset; fid_grind
@[grind ←] theorem refReserveCapacity_acc (k c : Nat) (h : Tr P s0 s) : Tr P s0 (s.refReserveCapacity k c) := by
  unfold Streams.refReserveCapacity; fid_grind
@[grind ←] theorem refReleaseCapacity_acc (k c : Nat) (h : Tr P s0 s) : Tr P s0 (s.refReleaseCapacity k c).1 := by
  unfold Streams.refReleaseCapacity; fid_grind
@[grind ←] theorem refClearRecvBuffer_acc (k : Nat) (hr : P.rclear k) (h : Tr P s0 s) : Tr P s0 (s.refClearRecvBuffer k) := by
  unfold Streams.refClearRecvBuffer; fid_grind

@[grind ←] theorem refPollData_acc (k : Nat) (t : String) (hp : P.rpop k) (h : Tr P s0 s) : Tr P s0 (s.refPollData k t).1 := by
  unfold Streams.refPollData
  have := recvPollData_acc hg k t hp h
  fid_grind
@[grind ←] theorem refPollPushed_acc (k : Nat) (t : String) (hp : RpopAll P) (h : Tr P s0 s) : Tr P s0 (s.refPollPushed k t).1 := by
  unfold Streams.refPollPushed
  have := recvPollPushed_acc hg k t hp h
  fid_grind
@[grind ←] theorem pollPendingOpen_acc (p : Option Nat) (t : String) (h : Tr P s0 s) : Tr P s0 (s.pollPendingOpen p t).1 := by
  unfold Streams.pollPendingOpen; fid_grind

/-- `Streams::poll_complete`: the write path -/
theorem pollComplete_acc (n : Nat) (w : Writer) (io : Tio) (t : String) (hw : P.write) (hp : P.pop) (hc : CutAll P) (h : Tr P s0 s) :
    Tr P s0 (Streams.pollComplete n s w io t).1 := by
  induction n generalizing s w io with
  | zero => unfold Streams.pollComplete; exact panic_acc _ h
  | succ n ih => unfold Streams.pollComplete; fid_grind
end
end H2V.Lemmas.ConnFidP
