import Lean
import H2V.Model.ConnStreams
/-
  C08 (no panic) — the first recorded panic message is never overwritten, part 0: a kernel-friendly handle on
  `Streams.popFrame` (technique and command text shared with ConnCountsPClone / ConnFlowPClone — same text, own
  namespace and own names, so that the families do not depend on each other's files).

  The kernel cannot unfold `Streams.popFrame`: its body calls `Stream.sendData`, which matches on
  `if prev < s1.capacity max then … else …` with `s1.bufferedSendData = wrapSubUsize …`, i.e. a comparison with
  `x % 2^64 + 2^64 - y % 2^64` inside; as soon as a definitional-equality check has to reduce that `match` the
  kernel tries to decide the comparison by unary recursion over `2^64` (even `Streams.popFrame.eq_def` cannot be
  generated).  `abstract_const_st f c g` builds, from the kernel value of `f`, the definition
  `g := fun x => value(f)[c := x]` and the theorem `g.eq : f = g c` (proof `Eq.refl f`);
  `kernel_rfl_st` states the unfolding equations of the clone, checked by the kernel only.
  No axioms, no `unsafe`: both commands only call `addDecl`.
-/
namespace H2V.Lemmas.ConnNoPanicP.Sticky
open H2V H2V.Model H2V.Model.Conn

open Lean Elab Command Meta in
/-- `abstract_const f c g [aux]`: defines `g := fun x => (value of f)[c := x]` and proves `g.eq : @f = g c` by
    `Eq.refl` (checked by the kernel only: both sides unfold to the very same term).  When the body
    of `f` lives in auxiliary constants (`f._f` of a structural recursion) they are cloned first and
    `f`'s references to them redirected. -/
elab "abstract_const_st " src:ident c:ident dst:ident aux:ident* : command => do
  let srcName ← liftCoreM <| realizeGlobalConstNoOverloadWithInfo src
  let cName ← liftCoreM <| realizeGlobalConstNoOverloadWithInfo c
  let ci ← getConstInfo cName
  let dstName := (← getCurrNamespace) ++ dst.getId
  let auxNames ← aux.mapM fun a => liftCoreM <| realizeGlobalConstNoOverloadWithInfo a
  liftTermElabM do
    let cConst := mkConst cName (ci.levelParams.map mkLevelParam)
    -- (original constant, clone) pairs
    let mut clones : Array (Name × Name) := #[]
    for n in auxNames.push srcName do
      let .defnInfo di ← getConstInfo n | throwError "not a definition"
      let cloneName := if n == srcName then dstName else dstName ++ n.componentsRev.head!
      let cl := clones
      let (t, v) ← withLocalDeclD `f ci.type fun x => do
        let v := di.value.replace fun e =>
          if e.isConstOf cName then some x
          else match e with
            | .const m ls => (cl.find? (·.1 == m)).map fun (_, m') => mkApp (mkConst m' ls) x
            | _ => none
        pure (← mkForallFVars #[x] di.type, ← mkLambdaFVars #[x] v)
      addDecl (.defnDecl { name := cloneName, levelParams := di.levelParams, type := t, value := v,
                           hints := .regular (di.hints.getHeightEx + 1), safety := .safe })
      clones := clones.push (n, cloneName)
    let .defnInfo di ← getConstInfo srcName | throwError "not a definition"
    let lhs := mkConst srcName (di.levelParams.map mkLevelParam)
    let rhs := mkApp (mkConst dstName (di.levelParams.map mkLevelParam)) cConst
    let eqT ← mkEq lhs rhs
    addDecl (.thmDecl { name := dstName ++ `eq, levelParams := di.levelParams, type := eqT, value := ← mkEqRefl lhs })

open Lean Elab Command Meta Term in
/-- `kernel_rfl_st name : ∀ xs, a = b` adds the theorem with proof `fun xs => Eq.refl a`, checked by the kernel
    only (the elaborator's own `whnf` is not used: it has no smart unfolding for the cloned definitions) -/
elab "kernel_rfl_st " n:ident " : " t:term : command => do
  let name := (← getCurrNamespace) ++ n.getId
  liftTermElabM do
    let ty ← instantiateMVars (← elabType t)
    Term.synthesizeSyntheticMVarsNoPostponing
    let ty ← instantiateMVars ty
    let pf ← forallTelescope ty fun xs body => do
      let some (_, lhs, _) := body.eq? | throwError "not an equation"
      mkLambdaFVars xs (← mkEqRefl lhs)
    addDecl (.thmDecl { name := name, levelParams := [], type := ty, value := pf })

abstract_const_st Streams.popFrame Stream.sendData popFrameS Streams.popFrame._f

kernel_rfl_st popFrameS_zero : ∀ (sd : Stream → Nat → Nat → Stream × List String × Bool) (s : Streams) (maxLen : Nat),
    popFrameS sd 0 s maxLen = (s, none)

kernel_rfl_st popFrameS_succ : ∀ (sd : Stream → Nat → Nat → Stream × List String × Bool) (fuel : Nat) (s : Streams) (maxLen : Nat),
    popFrameS sd (fuel + 1) s maxLen =
    ((match s.qPop .pendingSend with
    | (s, none) => (s, none)
    | (s, some id) =>
      let st := s.stream id
      let isPendingReset := st.isPendingResetExpiration
      let finish := fun (s : Streams) (f : Streams.OutFrame) =>
        let st := s.stream id
        let s := if !st.pendingSend.isEmpty || st.state.isScheduledReset then (s.qPush .pendingSend id).1 else s
        (s.transitionAfter id isPendingReset, some f)
      match st.pendingSend with
      | .data sz eos :: rest =>
        let discard : Bool := match st.state.getScheduledReset with
          | some reason => reason != NO_ERROR
          | none => false
        if discard then
          let s := (s.clearQueue id).reclaimAllCapacity id
          popFrameS sd fuel (s.qPush .pendingSend id).1 maxLen
        else
          let streamCapacity := st.sendFlow.available
          if sz > 0 && streamCapacity.eqUsize 0 then
            popFrameS sd fuel s maxLen
          else
            let len := usizeAsU32 (min (min sz maxLen) streamCapacity.asSize)
            if len > 0 && len > st.sendFlow.windowSz then
              popFrameS sd fuel s maxLen
            else
              let s := s.modStream id fun st => { st with pendingSend := rest }
              let (st', w, bad) := sd (s.stream id) len s.prio.maxBufferSize
              let s := (s.setStream st').wake w
              let s := if bad then s.panic "assertion failed: self.window_size.0 >= sz as i32 (stream)" else s
              let s := s.modPrio fun p => { p with flow := (p.flow.assignCapacity len).1 }
              let (fl, r) := s.prio.flow.sendData len
              let s := s.modPrio fun p => { p with flow := fl }
              let s := match r with
                | .error .assertFailed => s.panic "assertion failed: self.window_size.0 >= sz as i32 (connection)"
                | _ => s
              let flagEos := if sz > len then false else eos
              finish s (.data len flagEos { key := id, sid := st.id, rest := sz - len, eos := eos })
      | .headers heos fields :: rest =>
        finish (s.modStream id fun st => { st with pendingSend := rest }) (.headers st.id heos fields)
      | .reset reason :: rest =>
        finish (s.modStream id fun st => { st with pendingSend := rest }) (.reset st.id reason)
      | .pushPromise pk pid fields :: rest =>
        let s := s.modStream id fun st => { st with pendingSend := rest }
        match s.store.findKey? pid with
        | none =>
          let st := s.stream id
          let s := if !st.pendingSend.isEmpty || st.state.isScheduledReset then (s.qPush .pendingSend id).1 else s
          popFrameS sd fuel (s.transitionAfter id isPendingReset) maxLen
        | some pushed =>
          let _ := pk
          let s := s.modStream pushed fun st => { st with isPendingPush := false }
          let s :=
            if !(s.stream pushed).pendingSend.isEmpty then
              if s.counts.canIncNumSendStreams then (((s.incNumSendStreams pushed).qPush .pendingSend pushed).1)
              else s.queueOpen pushed
            else s
          finish s (.pushPromise st.id pid fields)
      | [] =>
        match st.state.getScheduledReset with
        | some reason =>
          let s := s.modStreamW id fun st => st.setReset reason .library
          finish s (.reset st.id reason)
        | none =>
          popFrameS sd fuel (s.transitionAfter id isPendingReset) maxLen) : Streams × Option Streams.OutFrame)

end H2V.Lemmas.ConnNoPanicP.Sticky
