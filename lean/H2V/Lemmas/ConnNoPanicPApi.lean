import H2V.Lemmas.ConnNoPanicPTop
/-
  C08 (no panic) — part 7: the API functions of streams.rs built from `counts.transition` around a
  light closure keep the full invariant `NPI` (in particular: they do not panic).
-/
namespace H2V.Lemmas.ConnNoPanicP
open H2V H2V.Model H2V.Model.Conn H2V.Lemmas.ConnCountsP

theorem liveAll1 {s : Streams} {k : Nat} (h : Live s k) : LiveAll s [k] :=
  fun j hj => by rw [List.mem_singleton] at hj; subst hj; exact h
theorem liveAll0 (s : Streams) : LiveAll s [] := fun _ hj => absurd hj List.not_mem_nil

/-- `counts.transition(stream, f)` around a light closure -/
theorem transition_light_npi {E : Nat → Prop} {ρ : Bool} {α : Type} {ks : List Nat} {s : Streams} (k : Nat)
    (f : Streams → Streams × α) (h : NPI E s) (hlt : LT ks s (f s).1) (hl : LiveAll s ks)
    (e : EvB ρ s (f s).1) (hE : ρ = true → ∀ k, ¬ E k) (he : ErrOK s) : NPI E (s.transition k f).1 :=
  transition_npi k f (h.lt hlt.w hl e hE) e (hlt.err.errOK he)

theorem noE {E : Nat → Prop} : (false = true) → ∀ k, ¬ E k := fun h => Bool.noConfusion h

theorem refSendData_npi {E : Nat → Prop} {s : Streams} (h : NPI E s) {k : Nat} (hk : Live s k) (he : ErrOK s) (len : Nat) (eos : Bool) :
    NPI E (s.refSendData k len eos).1 := by
  unfold Streams.refSendData
  exact transition_light_npi k _ h (prioSendData_lt s k len eos) (liveAll1 hk) (prioSendData_ev (ρ := false) s k len eos) noE he

theorem refSendTrailers_npi {E : Nat → Prop} {s : Streams} (h : NPI E s) {k : Nat} (hk : Live s k) (he : ErrOK s) (f : List Hpack.Field) :
    NPI E (s.refSendTrailers k f).1 := by
  unfold Streams.refSendTrailers
  exact transition_light_npi k _ h (sendTrailers_lt s k f) (liveAll1 hk) (sendTrailers_ev (ρ := false) s k f) noE he

theorem refSendResponse_npi {E : Nat → Prop} {s : Streams} (h : NPI E s) {k : Nat} (hk : Live s k) (he : ErrOK s) (f : List Hpack.Field) (eos : Bool) :
    NPI E (s.refSendResponse k f eos).1 := by
  unfold Streams.refSendResponse
  exact transition_light_npi k _ h (sendHeaders_lt s k eos f) (liveAll1 hk) (sendHeaders_ev (ρ := false) s k eos f) noE he

theorem refSendInformationalHeaders_npi {E : Nat → Prop} {s : Streams} (h : NPI E s) {k : Nat} (hk : Live s k) (he : ErrOK s) (f : List Hpack.Field) :
    NPI E (s.refSendInformationalHeaders k f).1 := by
  unfold Streams.refSendInformationalHeaders
  exact transition_light_npi k _ h (sendInterimInformationalHeaders_lt s k f) (liveAll1 hk)
    (sendInterimInformationalHeaders_ev (ρ := false) s k f) noE he

end H2V.Lemmas.ConnNoPanicP
