import H2V.Lemmas.ConnNoPanicPTop
import H2V.Lemmas.ConnWakePStepSend
/-
  C08 (no panic) — part 7: the API functions of streams.rs built from `counts.transition` around a
  light closure keep the full invariant `NPI` (in particular: they do not panic).
-/
namespace H2V.Lemmas.ConnNoPanicP
open H2V H2V.Model H2V.Model.Conn H2V.Lemmas.ConnCountsP

theorem liveAll1 {s : Streams} {k : Nat} (h : Live s k) : LiveAll s [k] :=
  fun j hj => by rw [List.mem_singleton] at hj; subst hj; exact h
theorem liveAll0 (s : Streams) : LiveAll s [] := fun _ hj => absurd hj List.not_mem_nil

/-- `counts.transition(stream, f)` around a light closure -/
theorem transition_light_npi {E : Nat → Prop} {ρ : Bool} {α : Type} {ks : List Nat} {s : Streams} (k : Nat)
    (f : Streams → Streams × α) (h : NPI E s) (hlt : LT ks s (f s).1) (hl : LiveAll s ks)
    (e : EvB ρ s (f s).1) (hE : ρ = true → ∀ k, ¬ E k) (he : ErrOK s) : NPI E (s.transition k f).1 :=
  transition_npi k f (h.lt hlt.w hl e hE) e (hlt.err.errOK he)

theorem noE {E : Nat → Prop} : (false = true) → ∀ k, ¬ E k := fun h => Bool.noConfusion h

theorem refSendData_npi {E : Nat → Prop} {s : Streams} (h : NPI E s) {k : Nat} (hk : Live s k) (he : ErrOK s) (len : Nat) (eos : Bool) :
    NPI E (s.refSendData k len eos).1 := by
  unfold Streams.refSendData
  exact transition_light_npi k _ h (prioSendData_lt s k len eos) (liveAll1 hk) (prioSendData_ev (ρ := false) s k len eos) noE he

theorem refSendTrailers_npi {E : Nat → Prop} {s : Streams} (h : NPI E s) {k : Nat} (hk : Live s k) (he : ErrOK s) (f : List Hpack.Field) :
    NPI E (s.refSendTrailers k f).1 := by
  unfold Streams.refSendTrailers
  exact transition_light_npi k _ h (sendTrailers_lt s k f) (liveAll1 hk) (sendTrailers_ev (ρ := false) s k f) noE he

theorem refSendResponse_npi {E : Nat → Prop} {s : Streams} (h : NPI E s) {k : Nat} (hk : Live s k) (he : ErrOK s) (f : List Hpack.Field) (eos : Bool) :
    NPI E (s.refSendResponse k f eos).1 := by
  unfold Streams.refSendResponse
  exact transition_light_npi k _ h (sendHeaders_lt s k eos f) (liveAll1 hk) (sendHeaders_ev (ρ := false) s k eos f) noE he

theorem refSendInformationalHeaders_npi {E : Nat → Prop} {s : Streams} (h : NPI E s) {k : Nat} (hk : Live s k) (he : ErrOK s) (f : List Hpack.Field) :
    NPI E (s.refSendInformationalHeaders k f).1 := by
  unfold Streams.refSendInformationalHeaders
  exact transition_light_npi k _ h (sendInterimInformationalHeaders_lt s k f) (liveAll1 hk)
    (sendInterimInformationalHeaders_ev (ρ := false) s k f) noE he

theorem recordDataFrame_err (c : Counts) (n : Nat) :
    (c.recordDataFrame n).1.numLocalErrorResetStreams = c.numLocalErrorResetStreams ∧
    (c.recordDataFrame n).1.maxLocalErrorResetStreams = c.maxLocalErrorResetStreams := by
  unfold Counts.recordDataFrame
  dsimp only
  split
  · split <;> exact ⟨rfl, rfl⟩
  · split
    · split <;> exact ⟨rfl, rfl⟩
    · exact ⟨rfl, rfl⟩

/-- `ErrOK` of the state a `transition` closure leaves, from `ErrOK` of the result of the `transition` -/
theorem errOK_of_transition {α : Type} {s : Streams} {k : Nat} {f : Streams → Streams × α}
    (h : ErrOK (s.transition k f).1) : ErrOK (f s).1 := by
  have : (s.transition k f).1 = (f s).1.transitionAfter k (s.stream k).isPendingResetExpiration := by
    unfold Streams.transition; rfl
  rw [this] at h
  exact (transitionAfter_errSame _ _ _).errOK_back h


/-- a light step (without the error-reset counter) that is also an `Ev` step -/
structure LE (ks : List Nat) (s s' : Streams) : Prop where
  lt : LTw ks s s'
  ev : Ev s s'

theorem LE.refl (ks : List Nat) (s : Streams) : LE ks s s := ⟨.refl _ _, .refl _⟩
theorem LE.trans {ks ks' : List Nat} {a b c : Streams} (h1 : LE ks a b) (h2 : LE ks' b c) (hs : ∀ k ∈ ks', k ∈ ks) : LE ks a c :=
  ⟨h1.lt.trans h2.lt hs, .trans h1.ev h2.ev⟩
theorem LE.of {ks : List Nat} {s s' : Streams} (h : LT ks s s') (e : Ev s s') : LE ks s s' := ⟨h.w, e⟩
theorem LE.of_fst_eq {ks : List Nat} {s : Streams} {α : Type} {p : Streams × α} {a : Streams} {x : α}
    (h : p = (a, x)) (e : LE ks s p.1) : LE ks s a := by subst h; exact e
theorem LE.step0 {ks : List Nat} {a b c : Streams} (h1 : LE ks a b) (h2 : LT [] b c) (e : Ev b c) : LE ks a c :=
  h1.trans (LE.of h2 e) (fun _ h => absurd h List.not_mem_nil)
theorem LE.step1 {k : Nat} {a b c : Streams} (h1 : LE [k] a b) (h2 : LT [k] b c) (e : Ev b c) : LE [k] a c :=
  h1.trans (LE.of h2 e) (fun _ h => h)

theorem NPI.le {E : Nat → Prop} {ks : List Nat} {s s' : Streams} (h : NPI E s) (hle : LE ks s s') (hl : LiveAll s ks)
    (hE : ∀ k, ¬ E k) : NPI E s' := h.lt hle.lt hl hle.ev (fun _ => hE)


theorem stream_modStream_live {s : Streams} {k : Nat} (hl : Live s k) (f : Stream → Stream) (hk : ∀ x, (f x).key = x.key) :
    (s.modStream k f).stream k = f (s.stream k) := by
  obtain ⟨x, hx⟩ := hl
  unfold Streams.modStream
  rw [hx]
  rcases setStream_stream s (f x) k with e | ⟨e, _, _⟩
  · -- impossible: the entry is replaced
    unfold Streams.stream at e ⊢
    rw [setStream_get?, hx] at e ⊢
    simp only [Option.map_some, Option.getD_some, hk, get?_key hx, beq_self_eq_true, if_true] at e ⊢
  · rw [e, stream_of_get? hx]

theorem stream_modStreamW_live {s : Streams} {k : Nat} (hl : Live s k) (f : Stream → Stream × List String)
    (hk : ∀ x, (f x).1.key = x.key) : (s.modStreamW k f).stream k = (f (s.stream k)).1 := by
  obtain ⟨x, hx⟩ := hl
  have := stream_modStream_live ⟨x, hx⟩ (fun y => (f y).1) hk
  unfold Streams.modStream at this
  unfold Streams.modStreamW
  rw [hx] at this ⊢
  exact this

/-- `Closed` is absorbing along any function for which ConnWakeP proved its `Step` -/
theorem closed_absorbing {cx : Option String} {s s' : Streams} (hs : ConnWakeP.Step cx s s') (hkeys : KeysOK s) {k : Nat}
    (hk : Live s k) (hk' : Live s' k) (hc : (s.stream k).state.isClosed = true) : (s'.stream k).state.isClosed = true := by
  obtain ⟨a, ha⟩ := hk
  have hlt : k < s.store.nextKey := by
    have := hkeys.fresh a (get?_mem ha); rw [get?_key ha] at this; exact this
  rcases hs.keep k a hlt ha with hn | ⟨b, hb, hst⟩
  · obtain ⟨b, hb⟩ := hk'; rw [hn] at hb; cases hb
  · rw [stream_of_get? hb]; rw [stream_of_get? ha] at hc; exact hst.closed hc

theorem State.recvReset_isClosed (x : State) (sid : Nat) (r : Reason) (q : Bool) : (x.recvReset sid r q).isClosed = true := by
  cases x with
  | mk inner => cases inner <;> cases q <;> simp [State.recvReset, State.isClosed]

theorem notifySend_state (x : Stream) : x.notifySend.1.state = x.state := by
  unfold Stream.notifySend
  cases h1 : x.sendTask <;> cases h2 : x.openTask <;> simp [h1, h2]
theorem notifyRecv_state (x : Stream) : x.notifyRecv.1.state = x.state := by
  unfold Stream.notifyRecv; split <;> rfl
theorem notifyPush_state (x : Stream) : x.notifyPush.1.state = x.state := by
  unfold Stream.notifyPush; split <;> rfl

theorem recvRecvReset_closed {s s1 : Streams} {k : Nat} {r : Reason} {u : Unit} (hk : Live s k)
    (h : s.recvRecvReset k r = (s1, .ok u)) : (s1.stream k).state.isClosed = true := by
  unfold Streams.recvRecvReset at h
  dsimp only at h
  -- the state before the `match pre`
  generalize hp : (if (s.stream k).isPendingAccept = true then _ else (s, (none : Option PErr))) = pre at h
  obtain ⟨s0, o⟩ := pre
  have h0 : LT [k] s s0 := LT.of_fst_eq hp (recvRecvReset_pre_lt s k)
  have hk0 : Live s0 k := h0.keys.live.mpr hk
  cases o with
  | some e => simp only [] at h; cases h
  | none =>
    simp only [Prod.mk.injEq] at h
    obtain ⟨h, _⟩ := h
    subst h
    have l1 : Live (s0.modStream k fun st => { st with state := st.state.recvReset st.id r st.isPendingSend }) k :=
      (SameKeys.modStream _ _ _).live.mpr hk0
    have l2 := (modStreamW_lt _ k Stream.notifySend (fun _ => notifySend_inert _)).keys.live.mpr l1
    have l3 := (modStreamW_lt _ k Stream.notifyRecv (fun _ => notifyRecv_inert _)).keys.live.mpr l2
    rw [stream_modStreamW_live l3 _ (fun x => (notifyPush_inert x).key), notifyPush_state,
      stream_modStreamW_live l2 _ (fun x => (notifyRecv_inert x).key), notifyRecv_state,
      stream_modStreamW_live l1 _ (fun x => (notifySend_inert x).key), notifySend_state]
    have := stream_modStream_live hk0 (fun st => { st with state := st.state.recvReset st.id r st.isPendingSend }) (fun _ => rfl)
    rw [this]
    exact State.recvReset_isClosed _ _ _ _

theorem LTw.guard {ks : List Nat} {s t : Streams} (c : Bool) (m : String) (h : LTw ks s t)
    (hc : LiveAll s ks → NPQ s → c = true) : LTw ks s (if c = true then t else t.panic m) := by
  cases c
  · simp only [Bool.false_eq_true, if_false]
    exact ⟨h.keys.trans (SameKeys.panic' _ _), by rw [panic_store]; exact h.ids, h.sid.trans (.of_store (panic_store _ _)),
      h.ref.trans (.of_store (panic_store _ _)), fun hl hq => by have := hc hl hq; cases this⟩
  · simp only [if_true]; exact h


end H2V.Lemmas.ConnNoPanicP
