import H2V.Lemmas.ConnPartPRstMain
/-
  ConnPartP, part 8 — C09: which stream-level errors (`Error::Reset`) LEAVE the receive entry points of
  `Inner` (everything else is answered in place by `reset_on_recv_stream_err`, whose own result is never a
  stream error), and that an owed RST_STREAM comes out of `pop_frame`.
    recv_reset, recv_window_update : none
    recv_data                      : STREAM_CLOSED for a stream the id map has forgotten
    recv_headers                   : the same (client), and PROTOCOL_ERROR for trailers without END_STREAM
    recv_push_promise              : REFUSED_STREAM for the promised stream when the parent was reset by us
  All of them carry the frame's own stream id (the promised id for PUSH_PROMISE) and `Initiator::Library`;
  `handle_poll2_result` hands them to `Inner::send_reset` (ConnPartPRstMain).
-/
namespace H2V.Lemmas.ConnPartP
open H2V H2V.Model H2V.Model.Conn

/-- the result is not a stream-level error -/
def NoStreamErr {α : Type} (r : Except PErr α) : Prop := ∀ sid rs i, r ≠ .error (.reset sid rs i)

theorem NoStreamErr.ok {α : Type} (x : α) : NoStreamErr (.ok x : Except PErr α) := fun _ _ _ h => by cases h
theorem NoStreamErr.goAway {α : Type} (d : Bytes) (r : Reason) (i : Initiator) :
    NoStreamErr (.error (.goAway d r i) : Except PErr α) := fun _ _ _ h => by cases h
theorem NoStreamErr.libraryGoAway {α : Type} (r : Reason) : NoStreamErr (.error (PErr.libraryGoAway r) : Except PErr α) :=
  .goAway _ _ _
theorem NoStreamErr.libraryGoAwayData {α : Type} (r : Reason) (d : String) :
    NoStreamErr (.error (PErr.libraryGoAwayData r d) : Except PErr α) := .goAway _ _ _
theorem NoStreamErr.io {α : Type} (k : String) (m : Option String) :
    NoStreamErr (.error (.io k m) : Except PErr α) := fun _ _ _ h => by cases h

theorem transition_snd {α : Type} (s : Streams) (k : Nat) (f : Streams → Streams × α) : (s.transition k f).2 = (f s).2 := by
  unfold Streams.transition; rfl

/-- `reset_on_recv_stream_err` never hands a stream error on -/
theorem resetOnRecvStreamErr_noStreamErr (s : Streams) (k : Nat) (res : Except PErr Unit) :
    NoStreamErr (s.resetOnRecvStreamErr k res).2 := by
  unfold Streams.resetOnRecvStreamErr
  split
  · split
    · exact .ok _
    · exact .libraryGoAwayData _ _
  · next hres =>
    intro sid rs i h
    exact hres sid rs i h


macro "nse_close" : tactic => `(tactic| first
  | exact NoStreamErr.ok _ | exact NoStreamErr.libraryGoAway _ | exact NoStreamErr.libraryGoAwayData _ _
  | exact NoStreamErr.goAway _ _ _ | exact resetOnRecvStreamErr_noStreamErr _ _ _)

theorem recvRecvReset_noStreamErr (s : Streams) (k : Nat) (r : Reason) : NoStreamErr (s.recvRecvReset k r).2 := by
  unfold Streams.recvRecvReset
  simp only
  split
  · next heq =>
    split at heq
    · split at heq
      · cases heq
      · cases heq; exact .libraryGoAwayData _ _
    · cases heq
  · exact .ok _


theorem recvReset_noStreamErr (s : Streams) (id : Nat) (r : Reason) : NoStreamErr (s.recvReset id r).2 := by
  unfold Streams.recvReset
  repeat' split
  all_goals try nse_close
  rw [transition_snd]
  rename_i k _ _
  split
  · next s1 e heq =>
    have := recvRecvReset_noStreamErr s k r
    rw [heq] at this; exact this
  · exact .ok _

theorem recvWindowUpdate_noStreamErr (s : Streams) (id inc : Nat) : NoStreamErr (s.recvWindowUpdate id inc).2 := by
  unfold Streams.recvWindowUpdate
  repeat' split
  all_goals try nse_close

theorem consumeConnectionWindow_noStreamErr (s : Streams) (sz : Nat) : NoStreamErr (s.consumeConnectionWindow sz).2 := by
  unfold Streams.consumeConnectionWindow
  repeat' split
  all_goals try nse_close

theorem ignoreData_noStreamErr (s : Streams) (sz : Nat) : NoStreamErr (s.ignoreData sz).2 := by
  unfold Streams.ignoreData
  split
  · next heq => have := consumeConnectionWindow_noStreamErr s sz; rw [heq] at this; exact this
  · exact .ok _


theorem releaseConnectionCapacity_store (s : Streams) (c : Nat) (b : Bool) : (s.releaseConnectionCapacity c b).store = s.store := by
  unfold Streams.releaseConnectionCapacity
  simp only
  split
  · unfold Streams.notifyTask; split <;> rfl
  · rfl

theorem consumeConnectionWindow_store (s : Streams) (sz : Nat) : (s.consumeConnectionWindow sz).1.store = s.store := by
  unfold Streams.consumeConnectionWindow
  repeat' split
  all_goals first | rfl | exact ConnWakeP.panic_store' _ _

theorem ignoreData_store (s : Streams) (sz : Nat) : (s.ignoreData sz).1.store = s.store := by
  unfold Streams.ignoreData
  split
  · next heq => have := consumeConnectionWindow_store s sz; rw [heq] at this; exact this
  · next heq =>
    have := consumeConnectionWindow_store s sz; rw [heq] at this
    show (Streams.releaseConnectionCapacity _ _ _).store = _
    rw [releaseConnectionCapacity_store]; exact this

/-- `Inner::recv_data`: the only stream error that leaves the function is STREAM_CLOSED for a stream the
    id map has forgotten (nothing but connection flow control has run) -/
theorem recvData_streamErr (s : Streams) (id : Nat) (p : Bytes) (eos : Bool) (pad : Option Nat) (sid : Nat) (rs : Reason)
    (i : Initiator) (h : (s.recvData id p eos pad).2 = .error (.reset sid rs i)) :
    s.store.findKey? id = none ∧ sid = id ∧ rs = STREAM_CLOSED ∧ i = .library ∧
    (s.recvData id p eos pad).1.store = s.store := by
  unfold Streams.recvData at h ⊢
  simp only at h ⊢
  split at h
  · next hf =>
    rw [hf]
    simp only
    split at h
    · exfalso
      split at h
      · next s1 e heq =>
        have hn : NoStreamErr (s1, (Except.error e : Except PErr Unit)).2 := by rw [← heq]; exact ignoreData_noStreamErr _ _
        exact hn _ _ _ h
      · cases h
    · split at h
      · split at h
        · exfalso
          next s1 e heq =>
          have hn : NoStreamErr (s1, (Except.error e : Except PErr Unit)).2 := by rw [← heq]; exact ignoreData_noStreamErr _ _
          exact hn _ _ _ h
        · next s1 u heq =>
          simp only [PErr.libraryReset, Except.error.injEq, PErr.reset.injEq] at h
          refine ⟨trivial, h.1.symm, h.2.1.symm, h.2.2.symm, ?_⟩
          have hs1 : s1.store = s.store := by
            have := congrArg (fun x => x.1.store) heq
            simp only at this
            rw [← this]; exact ignoreData_store _ _
          rw [if_neg ‹_›, if_pos ‹_›]; exact hs1
      · cases h
  · exfalso
    rw [transition_snd] at h
    revert h
    repeat' split
    all_goals exact resetOnRecvStreamErr_noStreamErr _ _ _ _ _ _

theorem recvOpen_noStreamErr (s : Streams) (id : Nat) (b : Bool) : NoStreamErr (s.recvOpen id b).2 := by
  unfold Streams.recvOpen
  simp only
  repeat' split
  all_goals try nse_close

/-- `Inner::recv_headers`: two stream errors leave the function — STREAM_CLOSED for a stream the (client's)
    id map has forgotten, nothing done; PROTOCOL_ERROR for trailers without END_STREAM, which `return` out
    of the `transition` closure past `reset_on_recv_stream_err` -/
theorem recvHeaders_streamErr (s : Streams) (hd : HeadersIn) (sid : Nat) (rs : Reason) (i : Initiator)
    (h : (s.recvHeaders hd).2 = .error (.reset sid rs i)) :
    sid = hd.sid ∧ i = .library ∧
    ((rs = STREAM_CLOSED ∧ s.store.findKey? hd.sid = none ∧ s.counts.isServer = false ∧ (s.recvHeaders hd).1 = s) ∨
     (rs = PROTOCOL_ERROR ∧ hd.eos = false)) := by
  unfold Streams.recvHeaders at h ⊢
  simp only at h ⊢
  split at h
  · cases h
  · rw [if_neg ‹_›]
    split at h
    · -- the entry look-up failed
      next s1 e heq =>
      simp only at h
      split at heq
      · cases heq
      · next hf =>
        split at heq
        · next hc =>
          cases heq
          simp only [PErr.libraryReset, Except.error.injEq, PErr.reset.injEq] at h
          refine ⟨h.1.symm, h.2.2.symm, Or.inl ⟨h.2.1.symm, hf, ?_, ?_⟩⟩
          · simp at hc; exact hc.1
          · rfl
        · exfalso
          split at heq
          · next s2 e2 heq2 =>
            cases heq
            have hn : NoStreamErr (s1, (Except.error e : Except PErr Bool)).2 := by rw [← heq2]; exact recvOpen_noStreamErr _ _ _
            exact hn _ _ _ (by simp only; rw [Except.error.injEq] at h; rw [h])
          · cases heq
          · cases heq
    · cases h
    · next s1 k heq =>
      split at h
      · cases h
      · split at h
        · cases h
        · rw [transition_snd] at h
          split at h
          · next hc =>
            simp only [PErr.libraryReset, Except.error.injEq, PErr.reset.injEq] at h
            refine ⟨h.1.symm, h.2.2.symm, Or.inr ⟨h.2.1.symm, ?_⟩⟩
            simp at hc; exact hc.2
          · exfalso
            revert h
            repeat' split
            all_goals exact resetOnRecvStreamErr_noStreamErr _ _ _ _ _ _

theorem ensureCanReserve_noStreamErr (s : Streams) : NoStreamErr s.ensureCanReserve := by
  unfold Streams.ensureCanReserve
  split
  · exact .libraryGoAway _
  · exact .ok _

theorem NoStreamErr.of_err {α β : Type} {r : Except PErr α} {e : PErr} (h : NoStreamErr r) (he : r = .error e) :
    NoStreamErr (.error e : Except PErr β) := by
  intro sid rs i h2
  rw [Except.error.injEq] at h2
  exact h sid rs i (by rw [he, h2])

/-- the part of `Inner::recv_push_promise` that follows a successful look-up of the initiating stream -/
def ppTail (s : Streams) (parentKey : Nat) (h : HeadersIn) : Streams × Except PErr Unit :=
  let promisedId := h.sid
  match s.ensureCanReserve with
  | .error e => (s, .error e)
  | .ok _ =>
    match s.recvOpen promisedId true with
    | (s, .error e) => (s, .error e)
    | (s, .ok false) => (s, .ok ())
    | (s, .ok true) =>
      let s := if s.store.contains promisedId then s.panic "assertion failed: self.ids.insert(id, index).is_none()" else s
      let (store, child) := s.store.insert (Stream.new promisedId s.actions.send.initWindowSz s.recv.initWindowSz)
      let s := { s with store := store }
      let (s, res) : Streams × Except PErr Bool :=
        s.transition child fun s =>
          match s.recvRecvPushPromise child h with
          | (s, .ok) => (s, .ok true)
          | (s, .unsupported) => (s.unsup "promised request URI outside the modelled subset", .ok false)
          | (s, .err e) =>
            match s.resetOnRecvStreamErr child (.error e) with
            | (s, .ok _) => (s, .ok false)
            | (s, .error e) => (s, .error e)
      match res with
      | .error e => (s, .error e)
      | .ok false => (s, .ok ())
      | .ok true =>
        let s :=
          if (s.stream child).isPendingAccept then s
          else (s.modStream child fun st => { st with isPendingAccept := true }).modStream parentKey
                 fun st => { st with pendingPushPromises := st.pendingPushPromises ++ [child] }
        (s.modStreamW parentKey Stream.notifyPush, .ok ())

/-- the look-up of the initiating stream in `Inner::recv_push_promise` -/
def ppParent (s : Streams) (id : Nat) (h : HeadersIn) : Streams × Except PErr (Option Nat) :=
  match s.store.findKey? id with
  | some k =>
    if id > s.recv.maxStreamId then (s, .ok none)
    else if (s.stream k).state.isLocalError then
      match s.ensureCanReserve with
      | .error e => (s, .error e)
      | .ok _ =>
        match s.recvOpen h.sid true with
        | (s, .error e) => (s, .error e)
        | (s, .ok true) => (s, .error (PErr.libraryReset h.sid REFUSED_STREAM))
        | (s, .ok false) => (s, .ok none)
    else match (s.stream k).state.ensureRecvOpen with
      | .ok true => (s, .ok (some k))
      | _ => (s, .error (PErr.libraryGoAway PROTOCOL_ERROR))
  | none => (s, .error (PErr.libraryGoAway PROTOCOL_ERROR))

/-- (re-checked against the model on every build) -/
theorem recvPushPromise_eq (s : Streams) (id : Nat) (h : HeadersIn) :
    s.recvPushPromise id h =
      if s.counts.isServer then (s, .error (PErr.libraryGoAway PROTOCOL_ERROR)) else
      match ppParent s id h with
      | (s, .error e) => (s, .error e)
      | (s, .ok none) => (s, .ok ())
      | (s, .ok (some parentKey)) => ppTail s parentKey h := rfl

theorem ppTail_noStreamErr (s : Streams) (pk : Nat) (h : HeadersIn) : NoStreamErr (ppTail s pk h).2 := by
  unfold ppTail
  extract_lets promisedId
  split
  · next e he => have := ensureCanReserve_noStreamErr s; rw [he] at this; exact this
  · split
    · next s2 e2 heq2 => exact (recvOpen_noStreamErr s promisedId true).of_err (by rw [heq2])
    · exact .ok _
    · next s2 heq2 =>
      extract_lets s3
      split
      next store child hins =>
      extract_lets s4
      split
      next s5 res htr =>
      split
      · next e =>
        -- the error comes out of the `transition` closure, i.e. out of `reset_on_recv_stream_err`
        have h2 := congrArg Prod.snd htr
        rw [transition_snd] at h2
        simp only at h2
        revert h2
        split
        · intro h2; cases h2
        · intro h2; cases h2
        · next s6 e6 heq6 =>
          split
          · intro h2; cases h2
          · next s7 e7 heq7 =>
            intro h2
            simp only at h2
            rw [Except.error.injEq] at h2
            subst h2
            exact (resetOnRecvStreamErr_noStreamErr s6 child (.error e6)).of_err (by rw [heq7])
      · exact .ok _
      · exact .ok _

/-- the look-up of the initiating stream answers a stream error only for a parent we have reset:
    REFUSED_STREAM for the promised stream -/
theorem ppParent_streamErr (s : Streams) (id : Nat) (h : HeadersIn) (s1 : Streams) (sid : Nat) (rs : Reason) (i : Initiator)
    (he : ppParent s id h = (s1, .error (.reset sid rs i))) :
    sid = h.sid ∧ rs = REFUSED_STREAM ∧ i = .library ∧
    ∃ k, s.store.findKey? id = some k ∧ (s.stream k).state.isLocalError = true := by
  unfold ppParent at he
  split at he
  · next k hf =>
    split at he
    · cases he
    · split at he
      · next hle =>
        split at he
        · next e1 he1 =>
          exfalso
          have hn := ensureCanReserve_noStreamErr s
          rw [he1] at hn
          simp only [Prod.mk.injEq, Except.error.injEq] at he
          exact hn _ _ _ (by rw [he.2])
        · split at he
          · next s2 e2 heq2 =>
            exfalso
            simp only [Prod.mk.injEq, Except.error.injEq] at he
            exact (recvOpen_noStreamErr s h.sid true).of_err (β := Unit) (by rw [heq2]) _ _ _ (by rw [he.2])
          · simp only [PErr.libraryReset, Prod.mk.injEq, Except.error.injEq, PErr.reset.injEq] at he
            exact ⟨he.2.1.symm, he.2.2.1.symm, he.2.2.2.symm, k, hf, hle⟩
          · cases he
      · split at he
        · cases he
        · cases he
  · cases he

/-- `Inner::recv_push_promise`: the only stream error that leaves the function is REFUSED_STREAM for the
    promised stream, when the initiating stream is one we have reset -/
theorem recvPushPromise_streamErr (s : Streams) (id : Nat) (hd : HeadersIn) (sid : Nat) (rs : Reason) (i : Initiator)
    (h : (s.recvPushPromise id hd).2 = .error (.reset sid rs i)) :
    sid = hd.sid ∧ rs = REFUSED_STREAM ∧ i = .library ∧
    ∃ k, s.store.findKey? id = some k ∧ (s.stream k).state.isLocalError = true := by
  rw [recvPushPromise_eq] at h
  split at h
  · cases h
  · split at h
    · next s1 e heq =>
      simp only at h
      rw [Except.error.injEq] at h
      subst h
      exact ppParent_streamErr s id hd s1 sid rs i heq
    · cases h
    · next s1 pk heq => exact absurd h (ppTail_noStreamErr s1 pk hd _ _ _)

open H2V.Lemmas.ConnResetP in
/-- **the owed RST_STREAM comes out of `pop_frame`**: when the stream at the head of the connection's
    `pending_send` queue has RST_STREAM(reason) at the head of its own queue, `pop_frame` returns
    RST_STREAM(stream id, reason) -/
theorem popFrame_emits_rst (fuel : Nat) (s : Streams) (maxLen : Nat) (k : Nat) (rest : List Nat) (st : Stream)
    (r : Reason) (more : List SFrame) (hq : s.prio.pendingSend = k :: rest) (hg : s.store.get? k = some st)
    (hp : st.pendingSend = .reset r :: more) :
    (Streams.popFrame (fuel + 1) s maxLen).2 = some (.reset st.id r) := by
  rw [popFrameC.eq]
  generalize Stream.sendData = sd
  rw [popFrameC_succ]
  have hpop : s.qPop .pendingSend =
      (((s.setQ .pendingSend rest).modStream k fun x => x.setQueued .pendingSend false), some k) := by
    unfold Streams.qPop
    have : s.getQ .pendingSend = k :: rest := hq
    rw [this]
  have hg1 : (s.setQ .pendingSend rest).store.get? k = some st := hg
  have hst : ((s.setQ .pendingSend rest).modStream k fun x => x.setQueued .pendingSend false).stream k =
      st.setQueued .pendingSend false :=
    ConnWakeP.stream_eq_of_get? (ConnWakeP.get?_modStream_same _ hg1 rfl)
  split
  · next s1 heq => rw [hpop] at heq; cases heq
  · next s1 id heq =>
    rw [hpop] at heq
    obtain ⟨rfl, hid⟩ := Prod.mk.inj heq
    cases hid
    extract_lets x isPendingReset finish
    have hx : x.pendingSend = .reset r :: more := by
      show (Streams.stream _ k).pendingSend = _
      rw [hst]; exact hp
    have hxid : x.id = st.id := by
      show (Streams.stream _ k).id = _
      rw [hst]; rfl
    split
    · next heq2 => rw [hx] at heq2; cases heq2
    · next heq2 => rw [hx] at heq2; cases heq2
    · next reason rest2 heq2 =>
      rw [hx] at heq2
      cases heq2
      rw [← hxid]
    · next heq2 => rw [hx] at heq2; cases heq2
    · next heq2 => rw [hx] at heq2; cases heq2

/-- **`handle_poll2_result(Err(Reset(id, reason, Library)))` is `Inner::send_reset(id, reason)`**; a
    quota failure becomes the connection error ENHANCE_YOUR_CALM -/
theorem handlePoll2Result_reset (c : Conn) (id : Nat) (reason : Reason) :
    c.handlePoll2Result (.error (.reset id reason .library)) =
      (match c.streams.innerSendReset id reason with
       | (s, .ok _) => ({ c with streams := s }, .ok ())
       | (s, .error g) => (({ c with streams := s }).handleGoAway g.reason (Http.str g.debugData) .library, .ok ())) := rfl

end H2V.Lemmas.ConnPartP
