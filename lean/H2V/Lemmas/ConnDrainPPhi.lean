import H2V.Lemmas.ConnFlowPMain
import H2V.Lemmas.ConnCountsPQueueR
/-
  ConnDrainP, part 2 — a termination measure for the loop of `Prioritize::pop_frame`.

  `Phi s` = Σ over the slab entries of
      (frames queued on the stream)
    + 2 if the stream is linked in `pending_send` and a visit would not return at once
    + 2 if the stream is linked in `pending_capacity`.
  Every `continue` of `pop_frame` makes `Phi` strictly smaller (ConnDrainPFuel.lean), so the loop runs at
  most `Phi s` times before it returns; the model's fuel `popFrameFuel s` is larger.
  This file: the measure and what the primitive updates do to it.
-/
namespace H2V.Lemmas.ConnDrainP
open H2V H2V.Model H2V.Model.Conn
open H2V.Lemmas.ConnFlowP (KeysOk SafeInv SafeInvG ReqOk)
open H2V.Lemmas.ConnCountsP (QOK Flagged)

/-- visiting this stream in `pop_frame` returns at once: nothing queued, a reset scheduled (the RST_STREAM is emitted) -/
def ret0 (x : Stream) : Bool := x.pendingSend.isEmpty && x.state.getScheduledReset.isSome

/-- the share of one slab entry in the number of `continue`s `pop_frame` can still make -/
def phi (x : Stream) : Nat :=
  x.pendingSend.length + (if x.isPendingSend && !ret0 x then 2 else 0) + (if x.isPendingSendCapacity then 2 else 0)

def phiL (l : List Stream) : Nat := (l.map phi).sum

/-- bound on the number of `continue`s of `pop_frame` from this state -/
def Phi (s : Streams) : Nat := phiL s.store.slab

theorem phiL_set {l : List Stream} {k : Nat} {a b : Stream} (hn : (l.map (·.key)).Nodup)
    (ha : l.find? (·.key == k) = some a) (hb : b.key = k) :
    phiL (l.map fun x => if x.key == b.key then b else x) + phi a = phiL l + phi b := by
  induction l with
  | nil => cases ha
  | cons x t ih =>
    simp only [List.map_cons, List.nodup_cons] at hn
    simp only [List.find?_cons] at ha
    by_cases hx : x.key == k
    · simp only [hx] at ha
      have hax : a = x := (Option.some.inj ha).symm
      subst hax
      have hid : (t.map fun y => if y.key == b.key then b else y) = t := by
        have : ∀ y ∈ t, (if y.key == b.key then b else y) = y := by
          intro y hy
          have : ¬ (y.key == b.key) = true := by
            intro h
            apply hn.1
            have e : y.key = a.key := by simp at h hx; omega
            rw [← e]; exact List.mem_map.2 ⟨y, hy, rfl⟩
          simp [this]
        conv => rhs; rw [← List.map_id t]
        exact List.map_congr_left this
      have hxb : (a.key == b.key) = true := by simp at hx ⊢; omega
      simp only [phiL, List.map_cons, hxb, if_true, List.sum_cons]
      have := congrArg phiL hid
      simp only [phiL] at this
      rw [this]; omega
    · simp only [hx] at ha
      have hxb : (x.key == b.key) = false := by
        cases h : (x.key == b.key) with
        | false => rfl
        | true => exfalso; apply hx; simp at h ⊢; omega
      have := ih hn.2 ha
      simp only [phiL, List.map_cons, hxb, List.sum_cons] at this ⊢
      simp only [Bool.false_eq_true, if_false]
      omega

theorem phiL_filter_le (l : List Stream) (p : Stream → Bool) : phiL (l.filter p) ≤ phiL l := by
  induction l with
  | nil => exact Nat.le_refl _
  | cons x t ih =>
    simp only [List.filter_cons]
    split
    · simp only [phiL, List.map_cons, List.sum_cons] at ih ⊢; omega
    · simp only [phiL, List.map_cons, List.sum_cons] at ih ⊢; omega

theorem Phi_of_slab {s s' : Streams} (h : s'.store.slab = s.store.slab) : Phi s' = Phi s := by
  unfold Phi; rw [h]

theorem Phi_panic (s : Streams) (m : String) : Phi (s.panic m) = Phi s :=
  Phi_of_slab (by rw [ConnFlowP.panic_store])

theorem Phi_setQ (s : Streams) (q : QName) (l : List Nat) : Phi (s.setQ q l) = Phi s :=
  Phi_of_slab (by rw [ConnCountsP.setQ_store])

theorem Phi_modCountsA (s : Streams) (w : String) (f : Counts → Option Counts) : Phi (s.modCountsA w f) = Phi s := by
  unfold Streams.modCountsA; split
  · rfl
  · exact Phi_panic _ _

theorem Phi_remove_le (s : Streams) (k n : Nat) :
    Phi { s with store := s.store.remove k, recvBufferLeaked := n } ≤ Phi s := phiL_filter_le _ _

theorem Phi_setStream {s : Streams} (hk : KeysOk s.store) {a b : Stream} (ha : s.store.get? b.key = some a) :
    Phi (s.setStream b) + phi a = Phi s + phi b :=
  phiL_set hk.1 ha rfl

/-- `modStream` with a key-preserving update: the sum moves by the difference on that entry -/
theorem Phi_modStream {s : Streams} (hk : KeysOk s.store) (k : Nat) (f : Stream → Stream) (hkey : ∀ x, (f x).key = x.key) :
    (∀ a, s.store.get? k = some a → Phi (s.modStream k f) + phi a = Phi s + phi (f a)) ∧
    (s.store.get? k = none → Phi (s.modStream k f) = Phi s) := by
  refine ⟨fun a ha => ?_, fun hn => ?_⟩
  · unfold Streams.modStream; rw [ha]
    have hka : (f a).key = k := by rw [hkey]; exact (ConnFlowP.get?_mem ha).2
    exact Phi_setStream hk (by rw [hka]; exact ha)
  · unfold Streams.modStream; rw [hn]; exact Phi_panic _ _

theorem Phi_modStream_le {s : Streams} (hk : KeysOk s.store) (k : Nat) (f : Stream → Stream) (hkey : ∀ x, (f x).key = x.key)
    (c : Nat) (hf : ∀ a, s.store.get? k = some a → phi (f a) ≤ phi a + c) : Phi (s.modStream k f) ≤ Phi s + c := by
  cases ha : s.store.get? k with
  | none => rw [(Phi_modStream hk k f hkey).2 ha]; omega
  | some a => have := (Phi_modStream hk k f hkey).1 a ha; have := hf a ha; omega

theorem Phi_modStream_eq {s : Streams} (hk : KeysOk s.store) (k : Nat) (f : Stream → Stream) (hkey : ∀ x, (f x).key = x.key)
    (hf : ∀ a, phi (f a) = phi a) : Phi (s.modStream k f) = Phi s := by
  cases ha : s.store.get? k with
  | none => rw [(Phi_modStream hk k f hkey).2 ha]
  | some a => have := (Phi_modStream hk k f hkey).1 a ha; have := hf a; omega

theorem Phi_modStreamW_eq {s : Streams} (hk : KeysOk s.store) (k : Nat) (f : Stream → Stream × List String)
    (hkey : ∀ x, (f x).1.key = x.key) (hf : ∀ a, phi (f a).1 = phi a) : Phi (s.modStreamW k f) = Phi s := by
  unfold Streams.modStreamW
  cases ha : s.store.get? k with
  | none => exact Phi_panic _ _
  | some a =>
    show Phi ((s.setStream (f a).1).wake (f a).2) = Phi s
    have hka : (f a).1.key = k := by rw [hkey]; exact (ConnFlowP.get?_mem ha).2
    have := Phi_setStream hk (b := (f a).1) (by rw [hka]; exact ha)
    have h2 : Phi ((s.setStream (f a).1).wake (f a).2) = Phi (s.setStream (f a).1) := Phi_of_slab rfl
    have := hf a
    omega

-- ===================================================================== the link flags

theorem ret0_setQueued (a : Stream) (q : QName) (v : Bool) : ret0 (a.setQueued q v) = ret0 a := by cases q <;> rfl

theorem phi_setPS_false (a : Stream) (h : a.isPendingSend = true) :
    phi (a.setQueued .pendingSend false) + (if ret0 a then 0 else 2) = phi a := by
  unfold phi
  rw [ret0_setQueued]
  show a.pendingSend.length + (if (false && !ret0 a) = true then 2 else 0) + (if a.isPendingSendCapacity = true then 2 else 0) + _ = _
  rw [h]
  cases ret0 a <;> simp <;> omega

theorem phi_setPS_true_le (a : Stream) :
    phi (a.setQueued .pendingSend true) ≤ phi a + (if ret0 a then 0 else 2) := by
  unfold phi
  rw [ret0_setQueued]
  show a.pendingSend.length + (if (true && !ret0 a) = true then 2 else 0) + (if a.isPendingSendCapacity = true then 2 else 0) ≤ _
  cases ret0 a <;> cases a.isPendingSend <;> simp <;> omega

theorem phi_setPC_false (a : Stream) (h : a.isPendingSendCapacity = true) :
    phi (a.setQueued .pendingCapacity false) + 2 = phi a := by
  unfold phi
  rw [ret0_setQueued]
  show a.pendingSend.length + (if (a.isPendingSend && !ret0 a) = true then 2 else 0) + (if false = true then 2 else 0) + 2 = _
  rw [h]; simp

theorem phi_setPC_true_le (a : Stream) : phi (a.setQueued .pendingCapacity true) ≤ phi a + 2 := by
  unfold phi
  rw [ret0_setQueued]
  show a.pendingSend.length + (if (a.isPendingSend && !ret0 a) = true then 2 else 0) + (if true = true then 2 else 0) ≤ _
  cases a.isPendingSendCapacity <;> simp

theorem setQueued_key (a : Stream) (q : QName) (v : Bool) : (a.setQueued q v).key = a.key := by cases q <;> rfl

end H2V.Lemmas.ConnDrainP
