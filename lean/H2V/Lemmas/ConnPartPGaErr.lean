import H2V.Lemmas.ConnPartPGaProp
/-
  ConnPartP, part 4b — the same coverage for `Inner::handle_error(err)` (connection error, I/O error,
  `abrupt_shutdown`, the GOAWAY we send for a fatal error): EVERY stream linked in the id map is released or
  `Failed err`; every entry the id map does not know is `Unt`; no entry appears.
-/
namespace H2V.Lemmas.ConnPartP
open H2V H2V.Model H2V.Model.Conn H2V.Lemmas.ConnWakeP

/-- how an entry of the store can evolve during `handle_error` -/
def HR (err : PErr) (a b : Stream) : Prop := (Unt a b ∧ (Resolved a → Resolved b)) ∨ Failed err a b

section
variable {err : PErr} {a b c : Stream}

theorem HR.refl (a : Stream) : HR err a a := Or.inl ⟨Unt.refl a, fun h => h⟩

theorem HR.trans (h1 : HR err a b) (h2 : HR err b c) : HR err a c := by
  rcases h1 with ⟨u1, r1⟩ | f1
  · rcases h2 with ⟨u2, r2⟩ | f2
    · exact Or.inl ⟨u1.trans u2, fun h => r2 (r1 h)⟩
    · exact Or.inr (f2.of_unt_left u1)
  · rcases h2 with ⟨u2, r2⟩ | f2
    · exact Or.inr (f1.unt u2 (r2 f1.resolved))
    · exact Or.inr (f1.again f2)

theorem HR.mk (h : HR err a b) (hm : Mk a) : Mk b := by
  rcases h with ⟨u, r⟩ | f
  · exact ⟨r hm.resolved, ⟨u.pendingSend.trans hm.cleared.1, u.buffered.trans hm.cleared.2, u.requested.trans hm.cleared.3⟩,
      fun hp => by rw [u.state]; exact hm.sched (by rw [← u.isPendingOpen]; exact hp)⟩
  · exact f.toMk
end

structure HA (err : PErr) (s s' : Streams) : Prop where
  fresh : ∀ k, s.store.get? k = none → s'.store.get? k = none
  keep : ∀ k a, s.store.get? k = some a → s'.store.get? k = none ∨ ∃ b, s'.store.get? k = some b ∧ HR err a b

section
variable {err : PErr}

theorem HA.refl (s : Streams) : HA err s s := ⟨fun _ h => h, fun _ a h => Or.inr ⟨a, h, HR.refl a⟩⟩

theorem HA.trans {s s' s'' : Streams} (h1 : HA err s s') (h2 : HA err s' s'') : HA err s s'' where
  fresh := fun k h => h2.fresh k (h1.fresh k h)
  keep := fun k a h => by
    rcases h1.keep k a h with h' | ⟨b, hb, hab⟩
    · exact Or.inl (h2.fresh k h')
    · rcases h2.keep k b hb with h'' | ⟨c, hc, hbc⟩
      · exact Or.inl h''
      · exact Or.inr ⟨c, hc, hab.trans hbc⟩

/-- one call of the closure of `handle_error` -/
theorem ha_closure (t : Streams) (k : Nat) : HA err t (errClosure err t k) := by
  refine ⟨fun k' hn => errClosure_fresh err hn, fun k' a' ha' => ?_⟩
  by_cases hk : k' = k
  · subst hk
    rcases errClosure_self err ha' with hn | ⟨b, hb, hf⟩
    · exact Or.inl hn
    · exact Or.inr ⟨b, hb, Or.inr hf⟩
  · obtain ⟨b', hb', hu⟩ := errClosure_other err hk ha'
    refine Or.inr ⟨b', hb', Or.inl ⟨hu, fun hr => ?_⟩⟩
    rcases (errClosure_rs err t k).keep k' a' ha' with ⟨_, hn⟩ | ⟨c, hc, hac⟩
    · rw [hn] at hb'; cases hb'
    · rw [hc] at hb'; cases hb'; exact hac.res hr

/-- the entry of `e`, if it is still there, looks failed -/
def VisitedE (e : Nat × Nat) (t : Streams) : Prop := ∀ b, t.store.get? e.2 = some b → Mk b

theorem visitedE_of_ha {t t' : Streams} (h : HA err t t') {e : Nat × Nat} (hv : VisitedE e t) : VisitedE e t' := by
  intro b hb
  cases ha : t.store.get? e.2 with
  | none => rw [h.fresh _ ha] at hb; cases hb
  | some a =>
    rcases h.keep _ a ha with hn | ⟨c, hc, hac⟩
    · rw [hn] at hb; cases hb
    · rw [hc] at hb; cases hb; exact hac.mk (hv a ha)

theorem visitedE_closure (t : Streams) (e : Nat × Nat) : VisitedE e (errClosure err t e.2) := by
  intro b hb
  cases ha : t.store.get? e.2 with
  | none => rw [errClosure_fresh err ha] at hb; cases hb
  | some a =>
    rcases errClosure_self err ha with hn | ⟨b', hb', hf⟩
    · rw [hn] at hb; cases hb
    · rw [hb'] at hb; cases hb; exact hf.toMk

theorem errClosure_isClosure (err : PErr) : Closure (errClosure err) := by
  have h := errClosure_closure err
  unfold errClosure
  exact h

/-- entries the id map of `s1` does not know are never removed, and the id map only shrinks -/
def Unl (err : PErr) (s1 t : Streams) : Prop :=
  (∀ e ∈ t.store.ids, e ∈ s1.store.ids) ∧
  ∀ k a, s1.store.get? k = some a → (∀ e ∈ s1.store.ids, e.2 ≠ k) → ∃ b, t.store.get? k = some b ∧ Unt a b

theorem unl_closure {s1 t : Streams} (hI : IdsOK t.store) (hu : Unl err s1 t) {e : Nat × Nat} (he : e ∈ t.store.ids) :
    Unl err s1 (errClosure err t e.2) := by
  have hC := errClosure_isClosure err
  refine ⟨fun e' he' => ?_, fun k a ha hnl => ?_⟩
  · apply hu.1
    cases hg : t.store.get? e.2 with
    | none => rw [hC.ids_none t e.2 hg] at he'; exact he'
    | some a0 =>
      rcases hC.ids t e.2 a0 hg with h | h
      · rw [h] at he'; exact he'
      · rw [h] at he'; exact mem_of_mem_swapRemove he'
  · obtain ⟨b, hb, hab⟩ := hu.2 k a ha hnl
    have hk : k ≠ e.2 := fun h => hnl e (hu.1 e he) h.symm
    obtain ⟨b', hb', hu'⟩ := errClosure_other err hk hb
    exact ⟨b', hb', hab.trans hu'⟩

/-- the loop of `handle_error` -/
theorem ha_forEach (s1 : Streams) (hids : IdsOK s1.store) :
    HA err s1 (s1.storeForEach (errClosure err)) ∧ Unl err s1 (s1.storeForEach (errClosure err)) ∧
    ∀ e ∈ s1.store.ids, VisitedE e (s1.storeForEach (errClosure err)) := by
  have hC := errClosure_isClosure err
  have key := tryForEach_visits (errClosure err)
    (fun t => IdsOK t.store ∧ HA err s1 t ∧ Unl err s1 t)
    (fun e t => VisitedE e t)
    (fun t hI => hI.1.1)
    (fun t e _ _ => visitedE_closure t e)
    (fun t e e' _ _ hP => visitedE_of_ha (ha_closure t e.2) hP)
    (fun t e hI he => ⟨hC.idsOK hI.1 he, hI.2.1.trans (ha_closure t e.2), unl_closure hI.1 hI.2.2 he⟩)
    (fun t e hI he => by
      cases hga : t.store.get? e.2 with
      | none => exact Or.inl (hC.ids_none t e.2 hga)
      | some a0 => rw [← hI.1.2 e he a0 hga]; exact hC.ids t e.2 a0 hga)
    s1.store.ids (2 * s1.store.ids.length + 1) 0 s1
    ⟨hids, HA.refl s1, fun e he => he, fun k a ha _ => ⟨a, ha, Unt.refl a⟩⟩ (by omega)
    (fun e he => by
      obtain ⟨j, hj⟩ := List.getElem?_of_mem he
      exact Or.inr ⟨j, Nat.zero_le _, hj⟩)
  unfold Streams.storeForEach Streams.storeTryForEach
  exact ⟨key.1.2.1, key.1.2.2, key.2⟩
end

/-- **coverage of `Inner::handle_error(err)`** -/
theorem handleError_cover (s : Streams) (hg : Good s) (err : PErr) :
    (s.handleError err).1.actions.connError = some err ∧
    (∀ k, s.store.get? k = none → (s.handleError err).1.store.get? k = none) ∧
    (∀ e ∈ s.store.ids, ∀ a, s.store.get? e.2 = some a →
      (s.handleError err).1.store.get? e.2 = none ∨
      ∃ b, (s.handleError err).1.store.get? e.2 = some b ∧ Failed err a b ∧
        ∀ t, (a.sendTask = some t ∨ a.openTask = some t ∨ a.recvTask = some t ∨ a.pushTask = some t) →
          t ∈ newWakes s (s.handleError err).1) ∧
    (∀ k a, s.store.get? k = some a → (∀ e ∈ s.store.ids, e.2 ≠ k) →
      ∃ b, (s.handleError err).1.store.get? k = some b ∧ Unt a b) := by
  obtain ⟨hha, hunl, hvis⟩ := ha_forEach (err := err) s hg.ids
  have hloop : (s.handleError err).1.store = (s.storeForEach (errClosure err)).store := by
    unfold Streams.handleError errClosure; rfl
  have hstep := handleError_acc (cx := none) err (Step.refl none s)
  have hkeep := k_handleError err (GStep.refl s)
  refine ⟨by unfold Streams.handleError; rfl, fun k hn => by rw [hloop]; exact hha.fresh k hn,
    fun e he a ha => ?_, fun k a ha hnl => ?_⟩
  · rw [hloop]
    rcases hha.keep e.2 a ha with hn | ⟨b, hb, hab⟩
    · exact Or.inl hn
    · right
      have hf : Failed err a b := by
        rcases hab with ⟨hu, _⟩ | hf
        · have hm : Mk b := hvis e he b hb
          exact Failed.of_unt hu hm.resolved hm.cleared hm.sched
        · exact hf
      refine ⟨b, hb, hf, ?_⟩
      have hb2 : (s.handleError err).1.store.get? e.2 = some b := by rw [hloop]; exact hb
      rcases endedAt_of hg.bounded ha (Or.inr ⟨b, hb2, hf.resolved⟩) hkeep hstep with hn | ⟨b', hb', _, _, hw⟩
      · rw [hn] at hb2; cases hb2
      · exact hw
  · rw [hloop]
    exact hunl.2 k a ha hnl

end H2V.Lemmas.ConnPartP
