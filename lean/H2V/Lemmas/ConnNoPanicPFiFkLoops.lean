import H2V.Lemmas.ConnNoPanicPFiSkLoops
/-
  C08 (no panic) — PUSH_PROMISE bookkeeping, part 3: the frame `PP` for the teardown loops, `Store::for_each`,
  `counts.transition`, the settings functions and the frame entry points that do not insert.
-/
namespace H2V.Lemmas.ConnNoPanicP
open H2V H2V.Model H2V.Model.Conn H2V.Lemmas.ConnCountsP
attribute [local irreducible] wrapSubU32 wrapSubUsize


-- ===================================================================== queue-draining loops

theorem clearPendingCapacity_fk (n : Nat) (s : Streams) : FK s (Streams.clearPendingCapacity n s) := by
  induction n generalizing s with
  | zero => unfold Streams.clearPendingCapacity; exact .refl _
  | succ n ih => unfold Streams.clearPendingCapacity; fk_auto_ih ih
theorem clearPendingSend_fk (n : Nat) (s : Streams) : FK s (Streams.clearPendingSend n s) := by
  induction n generalizing s with
  | zero => unfold Streams.clearPendingSend; exact .refl _
  | succ n ih => unfold Streams.clearPendingSend; fk_auto_ih ih
theorem clearPendingOpen_fk (n : Nat) (s : Streams) : FK s (Streams.clearPendingOpen n s) := by
  induction n generalizing s with
  | zero => unfold Streams.clearPendingOpen; exact .refl _
  | succ n ih => unfold Streams.clearPendingOpen; fk_auto_ih ih
theorem sendClearQueues_fk (s : Streams) : FK s s.sendClearQueues := by
  unfold Streams.sendClearQueues; fk_auto
theorem clearExpiredResetStreams_fk (n : Nat) (s : Streams) : FK s (Streams.clearExpiredResetStreams n s) := by
  induction n generalizing s with
  | zero => unfold Streams.clearExpiredResetStreams; exact .refl _
  | succ n ih => unfold Streams.clearExpiredResetStreams; fk_auto_ih ih
theorem clearStreamWindowUpdateQueue_fk (n : Nat) (s : Streams) : FK s (Streams.clearStreamWindowUpdateQueue n s) := by
  induction n generalizing s with
  | zero => unfold Streams.clearStreamWindowUpdateQueue; exact .refl _
  | succ n ih => unfold Streams.clearStreamWindowUpdateQueue; fk_auto_ih ih
theorem clearAllResetStreams_fk (n : Nat) (s : Streams) : FK s (Streams.clearAllResetStreams n s) := by
  induction n generalizing s with
  | zero => unfold Streams.clearAllResetStreams; exact .refl _
  | succ n ih => unfold Streams.clearAllResetStreams; fk_auto_ih ih
theorem clearAllPendingAccept_fk (n : Nat) (s : Streams) : FK s (Streams.clearAllPendingAccept n s) := by
  induction n generalizing s with
  | zero => unfold Streams.clearAllPendingAccept; exact .refl _
  | succ n ih => unfold Streams.clearAllPendingAccept; fk_auto_ih ih
theorem recvClearQueues_fk (s : Streams) (b : Bool) : FK s (s.recvClearQueues b) := by
  unfold Streams.recvClearQueues; fk_auto
theorem clearQueues_fk (s : Streams) (b : Bool) : FK s (s.clearQueues b) := by
  unfold Streams.clearQueues; fk_auto

-- ===================================================================== `counts.transition`, `Store::for_each`

theorem transition_fk {α : Type} (s : Streams) (k : Nat) (f : Streams → Streams × α) (hf : ∀ s, FK s (f s).1) :
    FK s (s.transition k f).1 := by
  have : (s.transition k f).1 = (f s).1.transitionAfter k (s.stream k).isPendingResetExpiration := by
    unfold Streams.transition; rfl
  rw [this]
  exact (hf s).trans (transitionAfter_fk _ _ _)

theorem transition_fk' {α : Type} (s : Streams) (k : Nat) (f : Streams → Streams × α) (hf : FK s (f s).1) :
    FK s (s.transition k f).1 := by
  have : (s.transition k f).1 = (f s).1.transitionAfter k (s.stream k).isPendingResetExpiration := by
    unfold Streams.transition; rfl
  rw [this]
  exact hf.trans (transitionAfter_fk _ _ _)

theorem tryForEach_fk (f : Streams → Nat → Streams × Option PErr) (hf : ∀ s k, FK s (f s k).1) :
    ∀ (fuel i len : Nat) (s : Streams), FK s (Streams.tryForEach f fuel i len s).1 := by
  intro fuel
  induction fuel with
  | zero => intro i len s; exact .refl _
  | succ n ih =>
    intro i len s
    unfold Streams.tryForEach
    split
    · split
      · exact panic_fk _ _
      · next id _ =>
        have := hf s id
        split
        · next s' e heq => rw [heq] at this; exact this
        · next s' heq =>
          rw [heq] at this
          dsimp only
          split
          · exact .trans this (ih _ _ _)
          · exact .trans this (ih _ _ _)
    · exact .refl _

theorem storeTryForEach_fk (s : Streams) (f : Streams → Nat → Streams × Option PErr) (hf : ∀ s k, FK s (f s k).1) :
    FK s (s.storeTryForEach f).1 := tryForEach_fk f hf _ _ _ s

theorem storeForEach_fk (s : Streams) (f : Streams → Nat → Streams) (hf : ∀ s k, FK s (f s k)) :
    FK s (s.storeForEach f) := storeTryForEach_fk s _ (fun s k => hf s k)

theorem tryForEachAcc_fk (f : Nat → Streams → Nat → Streams × Nat × Option PErr) (hf : ∀ a s k, FK s (f a s k).1) :
    ∀ (fuel i len acc : Nat) (s : Streams), FK s (Streams.tryForEachAcc f fuel i len acc s).1 := by
  intro fuel
  induction fuel with
  | zero => intro i len acc s; exact .refl _
  | succ n ih =>
    intro i len acc s
    unfold Streams.tryForEachAcc
    split
    · split
      · exact panic_fk _ _
      · next id _ =>
        have := hf acc s id
        split
        · next s' a' e heq => rw [heq] at this; exact this
        · next s' a' heq =>
          rw [heq] at this
          dsimp only
          split
          · exact .trans this (ih _ _ _ _)
          · exact .trans this (ih _ _ _ _)
    · exact .refl _

theorem setConnError_fk (s : Streams) (o : Option PErr) :
    FK s { s with actions := { s.actions with connError := o } } := .of_eqs rfl rfl rfl

theorem errClosure_fk (s : Streams) (k : Nat) (e : PErr) :
    FK s (s.transition k fun s => ((s.recvHandleError k e).sendHandleError k, ())).1 :=
  transition_fk s k _ (fun s => (recvHandleError_fk s k e).trans (sendHandleError_fk _ k))

theorem handleError_fk (s : Streams) (err : PErr) : FK s (s.handleError err).1 := by
  unfold Streams.handleError
  exact (storeForEach_fk s _ (fun s k => errClosure_fk s k err)).trans (setConnError_fk _ _)

theorem recvGoAwayFrame_fk (s : Streams) (last : Nat) (r : Reason) (d : Bytes) : FK s (s.recvGoAwayFrame last r d).1 := by
  unfold Streams.recvGoAwayFrame
  have h0 := sendRecvGoAway_fk s last
  split
  · next s1 e heq => rw [heq] at h0; exact h0
  · next s1 _ heq =>
    rw [heq] at h0
    refine h0.trans (.trans (storeForEach_fk _ _ (fun s k => ?_)) (setConnError_fk _ _))
    dsimp only
    split
    · exact errClosure_fk _ _ _
    · exact .refl _

theorem recvEof_fk (s : Streams) (b : Bool) : FK s (s.recvEof b) := by
  unfold Streams.recvEof
  dsimp only
  generalize hs1 : (if s.actions.connError.isNone = true then _ else s) = s1
  have h1 : FK s s1 := by
    rw [← hs1]; split
    · exact setConnError_fk _ _
    · exact .refl _
  have a2 := storeForEach_fk s1 (fun s id => (s.transition id fun s => ((s.recvRecvEof id).sendHandleError id, ())).1)
    (fun s k => transition_fk s k _ (fun s => (recvRecvEof_fk s k).trans (sendHandleError_fk _ k)))
  exact (h1.trans a2).trans (clearQueues_fk _ _)

-- ===================================================================== settings

theorem sarsWindow_fk (s : Streams) (a : Option Nat) : FK s (sarsWindow s a).1 := by
  unfold sarsWindow
  split
  · exact .refl _
  · next val =>
    dsimp only
    have h2 : FK s (s.modSend fun sd => { sd with initWindowSz := val }) := modSend_fk _ _ (fun _ => rfl)
    generalize (s.modSend fun sd => { sd with initWindowSz := val }) = s2 at h2 ⊢
    split
    · have h3 := tryForEachAcc_fk (Streams.decStreamWindow (s.actions.send.initWindowSz - val))
        (fun a t k => decStreamWindow_fk _ a t k) (2 * s2.store.ids.length + 1) 0 s2.store.ids.length 0 s2
      split
      · next s3 _ e heq => rw [heq] at h3; exact h2.trans h3
      · next s3 total heq => rw [heq] at h3; exact h2.trans (h3.trans (assignConnectionCapacity_fk _ _))
    · split
      · refine h2.trans (storeTryForEach_fk _ _ (fun t k => ?_))
        have := sendRecvStreamWindowUpdate_fk t k (val - s.actions.send.initWindowSz)
        split
        · next s' r heq => rw [heq] at this; exact this
        · next s' _ heq => rw [heq] at this; exact this
      · exact h2

theorem sendApplyRemoteSettings_fk (s : Streams) (a b c : Option Nat) : FK s (s.sendApplyRemoteSettings a b c).1 := by
  rw [sars_eq]
  have h1 : FK s (match c with
      | some v => s.modSend fun sd => { sd with isExtendedConnectProtocolEnabled := v != 0 }
      | none => s) := by
    split
    · exact modSend_fk _ _ (fun _ => rfl)
    · exact .refl _
  have h2 := h1.trans (sarsWindow_fk _ a)
  generalize sarsWindow _ a = p at h2 ⊢
  obtain ⟨s2, res⟩ := p
  dsimp only at h2 ⊢
  split
  · exact h2
  · dsimp only
    split
    · exact h2.trans (modSend_fk _ _ (fun _ => rfl))
    · exact h2

theorem applyRemoteSettings_fk (s : Streams) (vals : List (Nat × Nat)) (b : Bool) : FK s (s.applyRemoteSettings vals b).1 := by
  unfold Streams.applyRemoteSettings
  exact (modCounts_fk _ _).trans (sendApplyRemoteSettings_fk _ _ _ _)

theorem alsDec_fk (dec : Nat) (s : Streams) (k : Nat) : FK s (alsDec dec s k).1 := by
  unfold alsDec; fk_auto
theorem alsInc_fk (inc : Nat) (s : Streams) (k : Nat) : FK s (alsInc inc s k).1 := by
  unfold alsInc; fk_auto

theorem alsRest_fk (s s1 : Streams) (h1 : FK s s1) (a : Option Nat) :
    FK s (match a with
      | none => (s1, (.ok () : Except PErr Unit))
      | some target =>
        let oldSz := s1.recv.initWindowSz
        let s := s1.modRecv fun r => { r with initWindowSz := target }
        let (s, res) : Streams × Option PErr :=
          if target < oldSz then s.storeTryForEach (alsDec (oldSz - target))
          else if target > oldSz then s.storeTryForEach (alsInc (target - oldSz))
          else (s, none)
        match res with
        | some e => (s, .error e)
        | none => (s, .ok ())).1 := by
  split
  · exact h1
  · next target =>
    dsimp only
    have h2 : FK s (s1.modRecv fun r => { r with initWindowSz := target }) := h1.trans (modRecv_fk _ _)
    generalize (s1.modRecv fun r => { r with initWindowSz := target }) = s2 at h2 ⊢
    have h3 : FK s (if target < s1.recv.initWindowSz then s2.storeTryForEach (alsDec (s1.recv.initWindowSz - target))
        else if target > s1.recv.initWindowSz then s2.storeTryForEach (alsInc (target - s1.recv.initWindowSz))
        else (s2, none)).1 := by
      split
      · exact h2.trans (storeTryForEach_fk _ _ (fun t k => alsDec_fk _ t k))
      · split
        · exact h2.trans (storeTryForEach_fk _ _ (fun t k => alsInc_fk _ t k))
        · exact h2
    generalize (if target < s1.recv.initWindowSz then s2.storeTryForEach (alsDec (s1.recv.initWindowSz - target))
        else if target > s1.recv.initWindowSz then s2.storeTryForEach (alsInc (target - s1.recv.initWindowSz))
        else (s2, none)) = p at h3 ⊢
    obtain ⟨s3, res⟩ := p
    dsimp only at h3 ⊢
    split <;> exact h3

theorem applyLocalSettings_fk (s : Streams) (a b : Option Nat) : FK s (s.applyLocalSettings a b).1 := by
  rw [als_eq]
  cases b with
  | none => exact alsRest_fk s s (.refl _) a
  | some v => exact alsRest_fk s _ (modRecv_fk _ _) a

theorem applyLocalSettingsFrame_fk (s : Streams) (vals : List (Nat × Nat)) : FK s (s.applyLocalSettingsFrame vals).1 := by
  unfold Streams.applyLocalSettingsFrame; exact applyLocalSettings_fk _ _ _

theorem setTargetConnectionWindow_fk (s : Streams) (t : Nat) : FK s (s.setTargetConnectionWindow t).1 := by
  unfold Streams.setTargetConnectionWindow; fk_auto

-- ===================================================================== frames and handle calls that do not insert

theorem resetOnRecvStreamErr_fk (s : Streams) (k : Nat) (r : Except PErr Unit) : FK s (s.resetOnRecvStreamErr k r).1 := by
  unfold Streams.resetOnRecvStreamErr; fk_auto

theorem actionsSendReset_fk (s : Streams) (k : Nat) (r : Reason) (i : Initiator) : FK s (s.actionsSendReset k r i).1 := by
  unfold Streams.actionsSendReset
  refine transition_fk s k _ (fun s => ?_)
  fk_auto

theorem refSendReset_fk (s : Streams) (k : Nat) (r : Reason) : FK s (s.refSendReset k r) := by
  unfold Streams.refSendReset
  have := actionsSendReset_fk s k r .user
  fk_auto

theorem recvData_fk (s : Streams) (id : Nat) (p : Bytes) (eos : Bool) (pad : Option Nat) : FK s (s.recvData id p eos pad).1 := by
  unfold Streams.recvData
  dsimp only
  split
  · fk_auto
  · next k _ =>
    refine transition_fk s k _ (fun s => ?_)
    fk_auto

theorem recvReset_fk (s : Streams) (id : Nat) (r : Reason) : FK s (s.recvReset id r).1 := by
  unfold Streams.recvReset
  split
  · exact .refl _
  split
  · exact .refl _
  split
  · split <;> exact .refl _
  · next k _ =>
    split
    · exact .refl _
    · refine transition_fk s k _ (fun s => ?_)
      fk_auto

theorem recvWindowUpdate_fk (s : Streams) (id inc : Nat) : FK s (s.recvWindowUpdate id inc).1 := by
  unfold Streams.recvWindowUpdate; fk_auto

theorem refSendInformationalHeaders_fk (s : Streams) (k : Nat) (f : List Hpack.Field) :
    FK s (s.refSendInformationalHeaders k f).1 :=
  transition_fk s k _ (fun s => sendInterimInformationalHeaders_fk s k f)
theorem refSendData_fk (s : Streams) (k len : Nat) (eos : Bool) : FK s (s.refSendData k len eos).1 :=
  transition_fk s k _ (fun s => prioSendData_fk s k len eos)
theorem refSendTrailers_fk (s : Streams) (k : Nat) (f : List Hpack.Field) : FK s (s.refSendTrailers k f).1 :=
  transition_fk s k _ (fun s => sendTrailers_fk s k f)

theorem refInc_fk (s : Streams) (k : Nat) : FK s (s.refInc k) := by
  unfold Streams.refInc; fk_auto
theorem cloneStreamRef_fk (s : Streams) (k : Nat) : FK s (s.cloneStreamRef k) := by
  unfold Streams.cloneStreamRef; fk_auto
theorem recvNextIncoming_fk (s : Streams) : FK s s.recvNextIncoming.1 := by
  unfold Streams.recvNextIncoming; fk_auto
theorem nextIncoming_fk (s : Streams) : FK s s.nextIncoming.1 := by
  unfold Streams.nextIncoming; fk_auto
theorem recvTakeRequest_fk (s : Streams) (k : Nat) : FK s (s.recvTakeRequest k).1 := by
  unfold Streams.recvTakeRequest; fk_auto
theorem recvPollResponse_fk (n : Nat) (s : Streams) (k : Nat) (t : String) : FK s (Streams.recvPollResponse n s k t).1 := by
  induction n generalizing s with
  | zero => unfold Streams.recvPollResponse; exact .refl _
  | succ n ih => unfold Streams.recvPollResponse; fk_auto_ih ih
theorem dropPre_fk (s : Streams) (k : Nat) : FK s (dropPre s k) := by
  unfold dropPre; fk_auto

end H2V.Lemmas.ConnNoPanicP
