import H2V.Model.HpackDec
import H2V.Spec.Hpack
/-
  Part A — HPACK integers (RFC 7541 §5.1): `decode_int` against the reference `Spec.Hpack.int`,
  the 5-octet bound, the shape of the consumed prefix, behaviour under extension of the buffer
  (used by `split_invariance`), and the `encode_int`/`decode_int` round trip with its exact range.
-/
namespace H2V.Lemmas.HpackDec
open H2V H2V.Model.Hpack H2V.Generated.Static

/-! ### bit facts on octets -/

theorem and128_eq_zero_iff : ∀ b, b < 256 → ((b &&& 128 = 0) ↔ b < 128) := by decide +kernel

theorem and128_eq_128_iff : ∀ b, b < 256 → ((b &&& 128 = 128) ↔ 128 ≤ b) := by decide +kernel

theorem and127 (b : Nat) : b &&& 127 = b % 128 := Nat.and_two_pow_sub_one_eq_mod b 7

theorem enc_cont_byte : ∀ x, x < 128 →
    ((128 ||| x) &&& 127 = x ∧ (128 ||| x) &&& 128 ≠ 0 ∧ 128 ||| x < 256) := by decide +kernel

theorem Valid_cons {b : Nat} {bs : Bytes} : Bytes.Valid (b :: bs) ↔ b < 256 ∧ Bytes.Valid bs := by
  simp [Bytes.Valid]

theorem Valid_append {a b : Bytes} : Bytes.Valid (a ++ b) ↔ Bytes.Valid a ∧ Bytes.Valid b := by
  simp only [Bytes.Valid, List.mem_append]
  constructor
  · intro h; exact ⟨fun x hx => h x (Or.inl hx), fun x hx => h x (Or.inr hx)⟩
  · rintro ⟨h1, h2⟩ x (hx | hx)
    · exact h1 x hx
    · exact h2 x hx

theorem Valid_nil : Bytes.Valid [] := by simp [Bytes.Valid]

theorem Valid_take {a : Bytes} (n : Nat) (h : Bytes.Valid a) : Bytes.Valid (a.take n) :=
  fun x hx => h x (List.mem_of_mem_take hx)

theorem Valid_drop {a : Bytes} (n : Nat) (h : Bytes.Valid a) : Bytes.Valid (a.drop n) :=
  fun x hx => h x (List.mem_of_mem_drop hx)

/-! ### the continuation loop -/

theorem decodeIntLoop_sound (buf : Bytes) (ret bytes shift v : Nat) (rest : Bytes)
    (hv : Bytes.Valid buf) (h : decodeIntLoop buf ret bytes shift = .ok (v, rest)) :
    Spec.Hpack.intCont buf ret shift = some (v, rest) := by
  induction buf generalizing ret bytes shift with
  | nil => simp [decodeIntLoop] at h
  | cons b tl ih =>
    rw [Valid_cons] at hv
    have hb := and128_eq_zero_iff b hv.1
    simp only [decodeIntLoop, and127, Nat.shiftLeft_eq] at h
    simp only [Spec.Hpack.intCont]
    by_cases hlt : b < 128
    · rw [if_pos (hb.2 hlt)] at h
      rw [if_pos hlt]
      simpa using h
    · rw [if_neg (fun hc => hlt (hb.1 hc))] at h
      rw [if_neg hlt]
      split at h
      · cases h
      · exact ih _ _ _ hv.2 h

/-- the loop consumes between 1 and `5 - bytes` octets, and the value is bounded accordingly -/
theorem decodeIntLoop_shape (buf : Bytes) (ret bytes shift v : Nat) (rest : Bytes) (k : Nat)
    (hk1 : 1 ≤ k) (hk : bytes + k = 5) (h : decodeIntLoop buf ret bytes shift = .ok (v, rest)) :
    ∃ pre, buf = pre ++ rest ∧ 1 ≤ pre.length ∧ pre.length ≤ k ∧
      v < ret + 2 ^ shift * 128 ^ pre.length - (2 ^ shift - 1) := by
  induction buf generalizing ret bytes shift k with
  | nil => simp [decodeIntLoop] at h
  | cons b tl ih =>
    simp only [decodeIntLoop, and127, Nat.shiftLeft_eq, DECODE_INT_MAX_BYTES] at h
    have hm : b % 128 < 128 := Nat.mod_lt _ (by decide)
    have hp : 0 < 2 ^ shift := Nat.pos_of_ne_zero (by simp)
    split at h
    · simp only [Except.ok.injEq, Prod.mk.injEq] at h
      refine ⟨[b], by simp [h.2], by simp, by simp; omega, ?_⟩
      simp only [List.length_singleton, Nat.pow_one]
      rw [← h.1]
      have : b % 128 * 2 ^ shift ≤ 127 * 2 ^ shift := Nat.mul_le_mul_right _ (by omega)
      generalize 2 ^ shift = A at *
      generalize b % 128 * A = X at *
      omega
    · split at h
      · cases h
      · rename_i hne
        obtain ⟨pre, hpre, h1, h2, h3⟩ := ih _ _ _ (k - 1) (by omega) (by omega) h
        refine ⟨b :: pre, by simp [hpre], by simp, by simp; omega, ?_⟩
        simp only [List.length_cons]
        have e1 : (2:Nat) ^ (shift + 7) = 2 ^ shift * 128 := by rw [Nat.pow_add]
        have e2 : (128:Nat) ^ (pre.length + 1) = 128 * 128 ^ pre.length := by
          rw [Nat.pow_succ, Nat.mul_comm]
        rw [e1] at h3
        rw [e2]
        have hq : 0 < 128 ^ pre.length := Nat.pos_of_ne_zero (by simp)
        have : b % 128 * 2 ^ shift ≤ 127 * 2 ^ shift := Nat.mul_le_mul_right _ (by omega)
        generalize hA : 2 ^ shift = A at *
        generalize hB : 128 ^ pre.length = B at *
        have e3 : A * 128 * B = 128 * (A * B) := by
          rw [Nat.mul_assoc, Nat.mul_left_comm]
        have e4 : A * (128 * B) = 128 * (A * B) := by rw [Nat.mul_left_comm]
        rw [e3] at h3
        rw [e4]
        have : A ≤ A * B := Nat.le_mul_of_pos_right _ hq
        omega

/-- extension of the buffer: a complete integer stays the same -/
theorem decodeIntLoop_append_ok (buf : Bytes) (ret bytes shift v : Nat) (rest ext : Bytes)
    (h : decodeIntLoop buf ret bytes shift = .ok (v, rest)) :
    decodeIntLoop (buf ++ ext) ret bytes shift = .ok (v, rest ++ ext) := by
  induction buf generalizing ret bytes shift with
  | nil => simp [decodeIntLoop] at h
  | cons b tl ih =>
    simp only [decodeIntLoop, List.cons_append] at h ⊢
    split at h
    · rename_i hz
      rw [if_pos hz]
      simp only [Except.ok.injEq, Prod.mk.injEq] at h
      simp [h.1, h.2]
    · rename_i hz
      rw [if_neg hz]
      split at h
      · cases h
      · rename_i hne
        rw [if_neg hne]
        exact ih _ _ _ h

/-- extension of the buffer: an error other than `NeedMore` stays the same -/
theorem decodeIntLoop_append_err (buf : Bytes) (ret bytes shift : Nat) (e : DErr) (ext : Bytes)
    (hn : e.isNeedMore = false)
    (h : decodeIntLoop buf ret bytes shift = .error e) :
    decodeIntLoop (buf ++ ext) ret bytes shift = .error e := by
  induction buf generalizing ret bytes shift with
  | nil =>
    simp only [decodeIntLoop, Except.error.injEq] at h
    subst h; simp [DErr.isNeedMore] at hn
  | cons b tl ih =>
    simp only [decodeIntLoop, List.cons_append] at h ⊢
    split at h
    · cases h
    · rename_i hz
      rw [if_neg hz]
      split at h
      · rename_i he
        rw [if_pos he]; exact h
      · rename_i hne
        rw [if_neg hne]
        exact ih _ _ _ h

/-! ### `decode_int` -/

/-- A.1 — an integer accepted by `decode_int` is the RFC 7541 §5.1 integer -/
theorem decodeInt_sound (buf : Bytes) (p v : Nat) (rest : Bytes)
    (hv : Bytes.Valid buf)
    (h : decodeInt buf p = .ok (v, rest)) :
    Spec.Hpack.int p buf = some (v, rest) := by
  unfold decodeInt at h
  split at h
  · cases h
  · cases buf with
    | nil => simp at h
    | cons b0 tl =>
      simp only [Nat.and_two_pow_sub_one_eq_mod] at h
      simp only [Spec.Hpack.int]
      rw [Valid_cons] at hv
      split at h
      · rename_i hlt
        rw [if_pos hlt]
        simpa using h
      · rename_i hlt
        rw [if_neg hlt]
        exact decodeIntLoop_sound _ _ _ _ _ _ hv.2 h

/-- A.1 (errors) — what the reference cannot read, `decode_int` rejects -/
theorem decodeInt_spec_none (buf : Bytes) (p : Nat) (hv : Bytes.Valid buf)
    (h : Spec.Hpack.int p buf = none) : ∃ e, decodeInt buf p = .error e := by
  cases hd : decodeInt buf p with
  | error e => exact ⟨e, rfl⟩
  | ok r =>
    obtain ⟨v, rest⟩ := r
    rw [decodeInt_sound buf p v rest hv hd] at h
    cases h

/-- the prefix size is checked: success implies `1 ≤ p ≤ 8` -/
theorem decodeInt_ok_prefix (buf : Bytes) (p v : Nat) (rest : Bytes)
    (h : decodeInt buf p = .ok (v, rest)) : 1 ≤ p ∧ p ≤ 8 := by
  unfold decodeInt at h
  split at h
  · cases h
  · omega

/-- A.2 — shape: `decode_int` consumes a prefix of 1..5 octets; the value is below
    `2^p - 1 + 2^28` (exact: `[2^p-1, 0xff, 0xff, 0xff, 0x7f]` decodes to `2^p - 2 + 2^28`) -/
theorem decodeInt_shape (buf : Bytes) (p v : Nat) (rest : Bytes)
    (h : decodeInt buf p = .ok (v, rest)) :
    ∃ pre, buf = pre ++ rest ∧ 1 ≤ pre.length ∧ pre.length ≤ 5 ∧ v < 2 ^ p - 1 + 2 ^ 28 := by
  unfold decodeInt at h
  split at h
  · cases h
  · cases buf with
    | nil => simp at h
    | cons b0 tl =>
      simp only [Nat.and_two_pow_sub_one_eq_mod] at h
      split at h
      · rename_i hlt
        simp only [Except.ok.injEq, Prod.mk.injEq] at h
        refine ⟨[b0], by simp [h.2], by simp, by simp, ?_⟩
        omega
      · rename_i hlt
        have hm : b0 % 2 ^ p < 2 ^ p := Nat.mod_lt _ (Nat.pos_of_ne_zero (by simp))
        obtain ⟨pre, hpre, h1, h2, h3⟩ := decodeIntLoop_shape _ _ _ _ _ _ 4 (by decide) (by rfl) h
        refine ⟨b0 :: pre, by simp [hpre], by simp, by simp; omega, ?_⟩
        have : (128:Nat) ^ pre.length ≤ 128 ^ 4 := Nat.pow_le_pow_right (by decide) h2
        simp only [Nat.pow_zero, Nat.one_mul, Nat.sub_self, Nat.sub_zero] at h3
        omega

/-- A.2 — `decode_int` never yields a value that overflows a `usize` (in fact `< 2^28 + 2^8`),
    and never consumes more than 5 octets -/
theorem decodeInt_bounded (buf : Bytes) (p v : Nat) (rest : Bytes)
    (h : decodeInt buf p = .ok (v, rest)) :
    v < 2 ^ 28 + 2 ^ 8 ∧ rest.length < buf.length ∧ buf.length - rest.length ≤ 5 := by
  obtain ⟨pre, hpre, h1, h2, h3⟩ := decodeInt_shape buf p v rest h
  have hp := decodeInt_ok_prefix buf p v rest h
  have : (2:Nat) ^ p ≤ 2 ^ 8 := Nat.pow_le_pow_right (by decide) hp.2
  subst hpre
  simp only [List.length_append]
  omega

theorem decodeInt_length (buf : Bytes) (p v : Nat) (rest : Bytes)
    (h : decodeInt buf p = .ok (v, rest)) : rest.length < buf.length :=
  (decodeInt_bounded buf p v rest h).2.1

/-- extension of the buffer: a complete integer stays the same -/
theorem decodeInt_append_ok (buf : Bytes) (p v : Nat) (rest ext : Bytes)
    (h : decodeInt buf p = .ok (v, rest)) :
    decodeInt (buf ++ ext) p = .ok (v, rest ++ ext) := by
  unfold decodeInt at h ⊢
  split at h
  · cases h
  · rename_i hp
    rw [if_neg hp]
    cases buf with
    | nil => simp at h
    | cons b0 tl =>
      simp only [List.cons_append] at h ⊢
      split at h
      · rename_i hlt
        rw [if_pos hlt]
        simp only [Except.ok.injEq, Prod.mk.injEq] at h
        simp [h.1, h.2]
      · rename_i hlt
        rw [if_neg hlt]
        exact decodeIntLoop_append_ok _ _ _ _ _ _ _ h

/-- extension of the buffer: an error other than `NeedMore` stays the same -/
theorem decodeInt_append_err (buf : Bytes) (p : Nat) (e : DErr) (ext : Bytes)
    (hn : e.isNeedMore = false)
    (h : decodeInt buf p = .error e) :
    decodeInt (buf ++ ext) p = .error e := by
  unfold decodeInt at h ⊢
  split at h
  · rename_i hp
    rw [if_pos hp]; exact h
  · rename_i hp
    rw [if_neg hp]
    cases buf with
    | nil =>
      simp only [Except.error.injEq] at h
      subst h; simp [DErr.isNeedMore] at hn
    | cons b0 tl =>
      simp only [List.cons_append] at h ⊢
      split at h
      · cases h
      · rename_i hlt
        rw [if_neg hlt]
        exact decodeIntLoop_append_err _ _ _ _ _ _ hn h

/-- the only errors of `decode_int` with a legal prefix size -/
theorem decodeIntLoop_err (buf : Bytes) (ret bytes shift : Nat) (e : DErr)
    (h : decodeIntLoop buf ret bytes shift = .error e) :
    e = .needMore .integerUnderflow ∨ e = .integerOverflow := by
  induction buf generalizing ret bytes shift with
  | nil => simp only [decodeIntLoop, Except.error.injEq] at h; exact Or.inl h.symm
  | cons b tl ih =>
    simp only [decodeIntLoop] at h
    split at h
    · cases h
    · split at h
      · simp only [Except.error.injEq] at h; exact Or.inr h.symm
      · exact ih _ _ _ h

theorem decodeInt_err (buf : Bytes) (p : Nat) (e : DErr) (hp : 1 ≤ p ∧ p ≤ 8)
    (h : decodeInt buf p = .error e) :
    e = .needMore .integerUnderflow ∨ e = .integerOverflow := by
  unfold decodeInt at h
  split at h
  · omega
  · cases buf with
    | nil => simp only [Except.error.injEq] at h; exact Or.inl h.symm
    | cons b0 tl =>
      simp only at h
      split at h
      · cases h
      · exact decodeIntLoop_err _ _ _ _ _ h

/-! ### `encode_int` / `decode_int` round trip -/

theorem decodeIntLoop_encode (k : Nat) : ∀ (fuel w ret bytes shift : Nat) (rest : Bytes),
    1 ≤ k → bytes + k = 5 → k ≤ fuel → w < 128 ^ k →
    decodeIntLoop (encodeIntLoop fuel w ++ rest) ret bytes shift = .ok (ret + w * 2 ^ shift, rest) := by
  induction k with
  | zero => intro _ _ _ _ _ _ h; omega
  | succ k ih =>
    intro fuel w ret bytes shift rest _ hb hf hw
    cases fuel with
    | zero => omega
    | succ fuel =>
      simp only [encodeIntLoop]
      by_cases hge : w ≥ 128
      · rw [if_pos hge]
        have hk : 1 ≤ k := by
          cases k with
          | zero => simp at hw; omega
          | succ k => omega
        obtain ⟨e1, e2, _⟩ := enc_cont_byte (w % 128) (Nat.mod_lt _ (by decide))
        simp only [List.cons_append, decodeIntLoop, e1, DECODE_INT_MAX_BYTES]
        rw [if_neg e2, if_neg (by omega)]
        have hw' : w >>> 7 < 128 ^ k := by
          rw [Nat.shiftRight_eq_div_pow]
          apply Nat.div_lt_of_lt_mul
          rw [Nat.pow_succ, Nat.mul_comm] at hw
          exact hw
        rw [ih fuel (w >>> 7) _ (bytes + 1) (shift + 7) rest hk (by omega) (by omega) hw']
        simp only [Nat.shiftLeft_eq, Nat.shiftRight_eq_div_pow, Except.ok.injEq, Prod.mk.injEq,
          and_true]
        have := Nat.div_add_mod w 128
        grind
      · rw [if_neg hge]
        have hz : w &&& 128 = 0 := (and128_eq_zero_iff w (by omega)).2 (by omega)
        simp only [List.cons_append, List.nil_append, decodeIntLoop, hz, if_true, and127,
          Nat.shiftLeft_eq]
        rw [Nat.mod_eq_of_lt (by omega)]

/-- when the value needs more than four continuation octets the decoder overflows -/
theorem decodeIntLoop_encode_overflow (k : Nat) : ∀ (fuel w ret bytes shift : Nat) (rest : Bytes),
    1 ≤ k → bytes + k = 5 → k ≤ fuel → 128 ^ k ≤ w →
    decodeIntLoop (encodeIntLoop fuel w ++ rest) ret bytes shift = .error .integerOverflow := by
  induction k with
  | zero => intro _ _ _ _ _ _ h; omega
  | succ k ih =>
    intro fuel w ret bytes shift rest _ hb hf hw
    cases fuel with
    | zero => omega
    | succ fuel =>
      have hge : w ≥ 128 := by
        have : (128:Nat) ^ 1 ≤ 128 ^ (k + 1) := Nat.pow_le_pow_right (by decide) (by omega)
        omega
      obtain ⟨e1, e2, _⟩ := enc_cont_byte (w % 128) (Nat.mod_lt _ (by decide))
      simp only [encodeIntLoop, if_pos hge, List.cons_append, decodeIntLoop]
      rw [if_neg e2]
      split
      · rfl
      · rename_i hne
        simp only [DECODE_INT_MAX_BYTES] at hne
        apply ih fuel _ _ _ _ rest (by omega) (by omega) (by omega)
        rw [Nat.shiftRight_eq_div_pow, Nat.le_div_iff_mul_le (by decide)]
        rw [Nat.pow_succ] at hw
        exact hw

theorem first_or_lt (first v p : Nat) (hf : first % 2 ^ p = 0) (hv : v < 2 ^ p) :
    (first ||| v) &&& (2 ^ p - 1) = v := by
  rw [Nat.and_two_pow_sub_one_eq_mod, Nat.or_mod_two_pow, hf, Nat.zero_or, Nat.mod_eq_of_lt hv]

/-- A.3 — round trip.  The range is exact: `encode_int` writes any `usize`, `decode_int` reads back
    exactly the values `< 2^28 + 2^p - 1` (see `int_roundtrip_overflow`). -/
theorem int_roundtrip_exact (v p first : Nat) (rest : Bytes)
    (hp : 1 ≤ p ∧ p ≤ 8) (hf : first % 2 ^ p = 0) (hv : v < 2 ^ 28 + 2 ^ p - 1) :
    decodeInt (encodeInt v p first ++ rest) p = .ok (v, rest) := by
  have hpos : 0 < 2 ^ p := Nat.pos_of_ne_zero (by simp)
  unfold encodeInt decodeInt
  rw [if_neg (by omega)]
  by_cases hlt : v < 2 ^ p - 1
  · simp only [if_pos hlt, List.cons_append, List.nil_append]
    rw [first_or_lt first v p hf (by omega), if_pos hlt]
  · simp only [if_neg hlt, List.cons_append]
    rw [first_or_lt first (2 ^ p - 1) p hf (by omega), if_neg (by omega)]
    rw [decodeIntLoop_encode 4 11 (v - (2 ^ p - 1)) _ 1 0 rest (by decide) (by rfl) (by decide)
      (by simp only [Nat.reducePow] at hv ⊢; omega)]
    simp only [Nat.pow_zero, Nat.mul_one, Except.ok.injEq, Prod.mk.injEq, and_true]
    omega

/-- A.3 — `int_roundtrip` as asked: every `v < 2^28` survives, for every prefix size -/
theorem int_roundtrip (v p first : Nat) (rest : Bytes)
    (hp : 1 ≤ p ∧ p ≤ 8) (hf : first % 2 ^ p = 0) (_hfirst : first < 256) (hv : v < 2 ^ 28) :
    decodeInt (encodeInt v p first ++ rest) p = .ok (v, rest) := by
  have hpos : 0 < 2 ^ p := Nat.pos_of_ne_zero (by simp)
  exact int_roundtrip_exact v p first rest hp hf (by omega)

/-- A.3 (finding) — `encode_int` emits a 6+-octet integer for every value `≥ 2^28 + 2^p - 1`
    and `decode_int` rejects each of them with `IntegerOverflow` -/
theorem int_roundtrip_overflow (v p first : Nat) (rest : Bytes)
    (hp : 1 ≤ p ∧ p ≤ 8) (hf : first % 2 ^ p = 0) (hv : 2 ^ 28 + 2 ^ p - 1 ≤ v) :
    decodeInt (encodeInt v p first ++ rest) p = .error .integerOverflow := by
  have hpos : 0 < 2 ^ p := Nat.pos_of_ne_zero (by simp)
  unfold encodeInt decodeInt
  rw [if_neg (by omega)]
  simp only [if_neg (show ¬ v < 2 ^ p - 1 by omega), List.cons_append]
  rw [first_or_lt first (2 ^ p - 1) p hf (by omega), if_neg (by omega)]
  exact decodeIntLoop_encode_overflow 4 11 _ _ 1 0 rest (by decide) (by rfl) (by decide)
    (by simp only [Nat.reducePow] at hv ⊢; omega)

end H2V.Lemmas.HpackDec
