import H2V.Model.Frame
import H2V.Spec.Frame
/-
  Codec lemmas, part 1: big-endian integers (model `be*/rd*`, spec `u*`), flag bits, frame head.
-/
namespace H2V.Lemmas.Codec
open H2V H2V.Model.Frame

-- ===================================================================== constants (data, not axioms)

theorem HEADER_LEN_eq : Generated.Consts.HEADER_LEN = 9 := by decide
theorem MAX_INITIAL_WINDOW_SIZE_eq : Generated.Consts.MAX_INITIAL_WINDOW_SIZE = 2 ^ 31 - 1 := by decide
theorem DEFAULT_MAX_FRAME_SIZE_eq : Generated.Consts.DEFAULT_MAX_FRAME_SIZE = 2 ^ 14 := by decide
theorem MAX_MAX_FRAME_SIZE_eq : Generated.Consts.MAX_MAX_FRAME_SIZE = 2 ^ 24 - 1 := by decide

-- ===================================================================== lengths and validity

@[simp] theorem be16_length (n : Nat) : (be16 n).length = 2 := rfl
@[simp] theorem be24_length (n : Nat) : (be24 n).length = 3 := rfl
@[simp] theorem be32_length (n : Nat) : (be32 n).length = 4 := rfl

theorem be16_valid (n : Nat) : Bytes.Valid (be16 n) := by
  intro b hb; simp [be16] at hb; omega
theorem be24_valid (n : Nat) : Bytes.Valid (be24 n) := by
  intro b hb; simp [be24] at hb; omega
theorem be32_valid (n : Nat) : Bytes.Valid (be32 n) := by
  intro b hb; simp [be32] at hb; omega

theorem valid_append {a b : Bytes} (ha : Bytes.Valid a) (hb : Bytes.Valid b) : Bytes.Valid (a ++ b) := by
  intro x hx
  rcases List.mem_append.1 hx with h | h
  · exact ha x h
  · exact hb x h

-- ===================================================================== round trips (model)

theorem be16_rd16 (n : Nat) (h : n < 2 ^ 16) (rest : Bytes) : rd16 (be16 n ++ rest) = n := by
  simp only [be16, rd16, List.cons_append]; omega
theorem be24_rd24 (n : Nat) (h : n < 2 ^ 24) (rest : Bytes) : rd24 (be24 n ++ rest) = n := by
  simp only [be24, rd24, List.cons_append]; omega
theorem be32_rd32 (n : Nat) (h : n < 2 ^ 32) (rest : Bytes) : rd32 (be32 n ++ rest) = n := by
  simp only [be32, rd32, List.cons_append]; omega

/-- the other direction: re-encoding what was read gives back the octets -/
theorem rd16_be16 (a b : Nat) (ha : a < 256) (hb : b < 256) (rest : Bytes) :
    be16 (rd16 (a :: b :: rest)) = [a, b] := by
  simp only [be16, rd16, List.cons.injEq, and_true]; omega
theorem rd24_be24 (a b c : Nat) (ha : a < 256) (hb : b < 256) (hc : c < 256) (rest : Bytes) :
    be24 (rd24 (a :: b :: c :: rest)) = [a, b, c] := by
  simp only [be24, rd24, List.cons.injEq, and_true]; omega
theorem rd32_be32 (a b c d : Nat) (ha : a < 256) (hb : b < 256) (hc : c < 256) (hd : d < 256) (rest : Bytes) :
    be32 (rd32 (a :: b :: c :: d :: rest)) = [a, b, c, d] := by
  simp only [be32, rd32, List.cons.injEq, and_true]; omega

-- ===================================================================== model reader = spec reader

theorem u16_eq_rd16 : (b : Bytes) → Spec.Frame.u16 b = rd16 b
  | [] | [_] | _ :: _ :: _ => rfl
theorem u24_eq_rd24 : (b : Bytes) → Spec.Frame.u24 b = rd24 b
  | [] | [_] | [_, _] => rfl
  | a :: b :: c :: _ => by simp only [Spec.Frame.u24, rd24]; omega
theorem u32_eq_rd32 : (b : Bytes) → Spec.Frame.u32 b = rd32 b
  | [] | [_] | [_, _] | [_, _, _] => rfl
  | a :: b :: c :: d :: _ => by simp only [Spec.Frame.u32, rd32]; omega
theorem u31_eq (b : Bytes) : Spec.Frame.u31 b = (parseStreamId b).1 := by
  simp [Spec.Frame.u31, parseStreamId, u32_eq_rd32]

-- ===================================================================== round trips (spec readers)

theorem be16_u16 (n : Nat) (h : n < 2 ^ 16) (rest : Bytes) : Spec.Frame.u16 (be16 n ++ rest) = n := by
  rw [u16_eq_rd16]; exact be16_rd16 n h rest
theorem be24_u24 (n : Nat) (h : n < 2 ^ 24) (rest : Bytes) : Spec.Frame.u24 (be24 n ++ rest) = n := by
  rw [u24_eq_rd24]; exact be24_rd24 n h rest
theorem be32_u32 (n : Nat) (h : n < 2 ^ 32) (rest : Bytes) : Spec.Frame.u32 (be32 n ++ rest) = n := by
  rw [u32_eq_rd32]; exact be32_rd32 n h rest
theorem be32_u31 (n : Nat) (h : n < 2 ^ 31) (rest : Bytes) : Spec.Frame.u31 (be32 n ++ rest) = n := by
  unfold Spec.Frame.u31; rw [be32_u32 n (by omega)]; omega

-- ===================================================================== flag bits

/-- the mask test of the Rust (`flags & bit == bit`) is the RFC's bit test, for every power of two -/
theorem and_two_pow' (f i : Nat) : f &&& 2 ^ i = if f.testBit i then 2 ^ i else 0 := by
  apply Nat.eq_of_testBit_eq
  intro j
  rw [Nat.testBit_and, Nat.testBit_two_pow]
  by_cases hij : i = j
  · subst hij
    cases h : f.testBit i <;> simp
  · cases h : f.testBit i <;> simp [hij]

theorem and_pow_eq_iff (f i : Nat) : (f &&& 2 ^ i = 2 ^ i) ↔ f / 2 ^ i % 2 = 1 := by
  rw [and_two_pow', Nat.testBit_eq_decide_div_mod_eq]
  have : 0 < 2 ^ i := Nat.two_pow_pos i
  by_cases h : f / 2 ^ i % 2 = 1
  · simp [h]
  · simp [h]; omega

theorem and_pow_ne_zero_iff (f i : Nat) : (f &&& 2 ^ i ≠ 0) ↔ f / 2 ^ i % 2 = 1 := by
  rw [and_two_pow', Nat.testBit_eq_decide_div_mod_eq]
  have : 0 < 2 ^ i := Nat.two_pow_pos i
  by_cases h : f / 2 ^ i % 2 = 1
  · simp [h]
  · simp [h]

theorem flag_iff_and (f i : Nat) : Spec.Frame.flag f (2 ^ i) = decide (f &&& 2 ^ i = 2 ^ i) := by
  unfold Spec.Frame.flag
  rw [Bool.eq_iff_iff]; simp [and_pow_eq_iff]

theorem flag1 (f : Nat) : Spec.Frame.flag f 1 = decide (f &&& 1 = 1) := flag_iff_and f 0
theorem flag4 (f : Nat) : Spec.Frame.flag f 4 = decide (f &&& 4 = 4) := flag_iff_and f 2
theorem flag8 (f : Nat) : Spec.Frame.flag f 8 = decide (f &&& 8 = 8) := flag_iff_and f 3
theorem flag32 (f : Nat) : Spec.Frame.flag f 32 = decide (f &&& 32 = 32) := flag_iff_and f 5

theorem and9_and8 (f : Nat) : f &&& 9 &&& 8 = f &&& 8 := by rw [Nat.and_assoc]; rfl
theorem and9_and1 (f : Nat) : f &&& 9 &&& 1 = f &&& 1 := by rw [Nat.and_assoc]; rfl

-- ===================================================================== frame head

@[simp] theorem Head.encode_length (h : Head) (n : Nat) : (h.encode n).length = 9 := rfl

theorem Head.encode_valid (h : Head) (n : Nat) (hk : h.kind < 256) (hf : h.flag < 256) :
    Bytes.Valid (h.encode n) := by
  intro b hb
  simp [Head.encode, be24, be32] at hb
  omega

theorem Head.encode_cons (h : Head) (n : Nat) (rest : Bytes) :
    h.encode n ++ rest =
      (n / 65536 % 256) :: (n / 256 % 256) :: (n % 256) :: h.kind :: h.flag ::
        (h.sid / 16777216 % 256) :: (h.sid / 65536 % 256) :: (h.sid / 256 % 256) :: (h.sid % 256) :: rest := rfl

/-- `Head::parse` reads back what `Head::encode` wrote -/
theorem Head.parse_encode (h : Head) (n : Nat) (hs : h.sid < 2 ^ 31) (rest : Bytes) :
    Head.parse (h.encode n ++ rest) = h := by
  rw [Head.encode_cons]
  cases h with
  | mk k f s =>
    simp only [Head.parse, parseStreamId, List.getD_cons_succ, List.getD_cons_zero, List.drop_succ_cons, List.drop_zero, rd32]
    simp only at hs
    congr 1; omega

theorem Head.rd24_encode (h : Head) (n : Nat) (hn : n < 2 ^ 24) (rest : Bytes) :
    rd24 (h.encode n ++ rest) = n := by
  rw [Head.encode_cons]; simp only [rd24]; omega

/-- the model's view of a frame head is the RFC's view (type, flags, 31-bit stream identifier) -/
theorem Head.parse_eq_spec (b : Bytes) :
    Head.parse b = ⟨b.getD 3 0, b.getD 4 0, Spec.Frame.u31 (b.drop 5)⟩ := by
  simp [Head.parse, u31_eq]

/-- a serialised frame (`Head::encode` + payload) is accepted by the reference parser, which sees
    exactly the head fields and the payload -/
theorem parse_head_encode (h : Head) (p : Bytes) (hs : h.sid < 2 ^ 31) (hp : p.length < 2 ^ 24) :
    Spec.Frame.parse (h.encode p.length ++ p) = some (Spec.Frame.ofParts h.kind h.flag h.sid p) := by
  have hl : (h.encode p.length ++ p).length = 9 + p.length := by simp
  have hu : Spec.Frame.u24 (h.encode p.length ++ p) = p.length := by
    rw [u24_eq_rd24]; exact Head.rd24_encode h _ hp p
  unfold Spec.Frame.parse
  rw [hu, hl]
  have hsid : Spec.Frame.u31 ((h.encode p.length ++ p).drop 5) = h.sid := by
    rw [Head.encode_cons]
    simp only [List.drop_succ_cons, List.drop_zero]
    exact be32_u31 h.sid hs p
  rw [hsid]
  rw [Head.encode_cons]
  simp

end H2V.Lemmas.Codec
