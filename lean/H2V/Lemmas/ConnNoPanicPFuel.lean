import H2V.Lemmas.ConnNoPanicPBase
import H2V.Lemmas.ConnResetPFuel
/-
  C08 — fuel of the remaining silent loops: `Store::try_for_each` (both variants) and
  `Recv::send_stream_window_updates`.  With at least `len - i + 1` (resp. `queue length + 1`) units the
  result no longer depends on the fuel; the callers pass `2·len + 1` (resp. `len + 1`).
-/
namespace H2V.Lemmas.ConnNoPanicP
open H2V H2V.Model H2V.Model.Conn H2V.Lemmas.ConnCountsP

theorem tryForEach_fuel (f : Streams → Nat → Streams × Option PErr) :
    ∀ (n m i len : Nat) (s : Streams), len - i < n → len - i < m →
      Streams.tryForEach f n i len s = Streams.tryForEach f m i len s := by
  intro n
  induction n with
  | zero => intro m i len s h; omega
  | succ n ih =>
    intro m i len s hn hm
    cases m with
    | zero => omega
    | succ m =>
      unfold Streams.tryForEach
      split
      · next hlt =>
        split
        · rfl
        · split
          · rfl
          · dsimp only
            split
            · exact ih m i (len - 1) _ (by omega) (by omega)
            · exact ih m (i + 1) len _ (by omega) (by omega)
      · rfl

/-- `Store::try_for_each` passes `2·len + 1 > len - 0` -/
theorem storeTryForEach_fuel_enough (s : Streams) : s.store.ids.length - 0 < 2 * s.store.ids.length + 1 := by omega

theorem tryForEachAcc_fuel (f : Nat → Streams → Nat → Streams × Nat × Option PErr) :
    ∀ (n m i len acc : Nat) (s : Streams), len - i < n → len - i < m →
      Streams.tryForEachAcc f n i len acc s = Streams.tryForEachAcc f m i len acc s := by
  intro n
  induction n with
  | zero => intro m i len acc s h; omega
  | succ n ih =>
    intro m i len acc s hn hm
    cases m with
    | zero => omega
    | succ m =>
      unfold Streams.tryForEachAcc
      split
      · next hlt =>
        split
        · rfl
        · split
          · rfl
          · dsimp only
            split
            · exact ih m i (len - 1) _ _ (by omega) (by omega)
            · exact ih m (i + 1) len _ _ (by omega) (by omega)
      · rfl

theorem qPop_length (s : Streams) (q : QName) (s' : Streams) (id : Nat) (h : s.qPop q = (s', some id)) :
    (s'.getQ q).length + 1 = (s.getQ q).length := by
  unfold Streams.qPop at h
  split at h
  · cases h
  · next id' rest heq =>
    cases h
    rw [heq, getQ_modStream, getQ_setQ]; rfl

theorem transitionAfter_getQ (s : Streams) (k : Nat) (b : Bool) (q : QName) : (s.transitionAfter k b).getQ q = s.getQ q := by
  unfold Streams.getQ Streams.prio Streams.recv; rw [ConnResetP.transitionAfter_actions]

/-- **`Recv::send_stream_window_updates` terminates after `pending_window_updates.len()` rounds** (the caller passes `len + 1`) -/
theorem sendStreamWindowUpdates_fuel :
    ∀ (n m : Nat) (s : Streams) (w : Writer), s.recv.pendingWindowUpdates.length < n → s.recv.pendingWindowUpdates.length < m →
      Streams.sendStreamWindowUpdates n s w = Streams.sendStreamWindowUpdates m s w := by
  intro n
  induction n with
  | zero => intro m s w h; omega
  | succ n ih =>
    intro m s w hn hm
    cases m with
    | zero => omega
    | succ m =>
      unfold Streams.sendStreamWindowUpdates
      split
      · rfl
      · cases hq : s.qPop .pendingWindowUpdates with
        | mk s1 o =>
          cases o with
          | none => rfl
          | some id =>
            have hlen := qPop_length s .pendingWindowUpdates s1 id hq
            simp only []
            generalize hp : (if (!(s1.stream id).state.isRecvStreaming) = true then (s1, w) else _ : Streams × Writer) = p
            obtain ⟨s2, w2⟩ := p
            have hq2 : s2.getQ .pendingWindowUpdates = s1.getQ .pendingWindowUpdates := by
              split at hp
              · cases hp; rfl
              · split at hp
                · split at hp
                  · cases hp; exact getQ_modStream _ _ _ _
                  · cases hp; exact panic_getQ _ _ _
                · cases hp; rfl
            simp only []
            have hl2 : ((s2.transitionAfter id (s1.stream id).isPendingResetExpiration).recv.pendingWindowUpdates).length + 1 =
                s.recv.pendingWindowUpdates.length := by
              have := transitionAfter_getQ s2 id (s1.stream id).isPendingResetExpiration .pendingWindowUpdates
              show ((s2.transitionAfter id _).getQ .pendingWindowUpdates).length + 1 = (s.getQ .pendingWindowUpdates).length
              rw [this, hq2]; exact hlen
            exact ih m _ _ (by omega) (by omega)

end H2V.Lemmas.ConnNoPanicP
