import H2V.Lemmas.ConnNoPanicPAll4
import H2V.Lemmas.ConnNoPanicPPollWitness
import H2V.Lemmas.ConnNoPanicPDsOxPoll4
import H2V.Lemmas.ConnNoPanicPFiNoPPQ
/-
  C08 (no panic) — stage 4, the residual form and a witness history with the write path.
-/
namespace H2V.Lemmas.ConnNoPanicP
open H2V H2V.Model H2V.Model.Conn H2V.Lemmas.ConnCountsP
open H2V.Lemmas.ConnResetP (Op run)

theorem oxPre_of {s : Streams} {H T : List Nat} {op : Op} (g : Good4 s H) (h : opPre5 s T op)
    (hin : ∀ k, opKey3 op = some k → k ∈ H) : oxPre s op := by
  cases op
  case refSendInformationalHeaders k f => exact h.2.1
  case refSendPushPromise p v f =>
    obtain ⟨x, hx, _⟩ := g.g3.good.hok p (hin p rfl)
    exact ⟨h.2.1, ⟨x, hx⟩⟩
  case recvPushPromise id hd => exact recvPushPromise_nopush g.g3.nopush id hd
  all_goals exact trivial

/-- no restriction on the operations -/
abbrev AllOps : Op → Prop := fun _ => True
/-- no residual promise about the states -/
abbrev RT : Streams → Prop := fun _ => True

/-- np-ds's `OXs` closes everything but `poll_complete`: there it is the history's promise (any operation allowed) -/
theorem plugOX : Plug AllOps OXs OXs where
  oh := OXs.oh
  blank := fun hb _ => OXs_blank hb
  step := fun g _ hd hx op hpre hin _ hnw _ _ =>
    OXs_step g.g3.good.npi hd hx op (oxPre_of g hpre hin) hpre.2.2.1 (opNoWriter_of hnw) (op_role g.g3.good.npi op)
  pc := fun _ _ _ _ _ _ _ _ _ h => h
  pr := fun g _ _ hx fuel io tag => OXs_pollSendPendingRefusal hx fuel _ io tag (op_role g.g3.good.npi (.pollSendPendingRefusal fuel _ io tag))

/-- the application never calls `push_request` (true of every client, and of every server that does not use server push) -/
def NoPushReq (op : Op) : Prop := ∀ p v f, op ≠ .refSendPushPromise p v f

/-- **without `push_request` nothing is left open**: `OXs` and "no PUSH_PROMISE frame is queued" (np-fi) are kept by every
    operation, `poll_complete` included (np-ds) -/
theorem plugFinal : Plug NoPushReq RT (fun s => OXs s ∧ NoPPQ s) where
  oh := fun h => h.1.oh
  blank := fun hb _ => ⟨OXs_blank hb, NoPPQ_blank hb⟩
  step := fun g _ hd hx op hpre hin _ hnw _ hA =>
    ⟨OXs_step g.g3.good.npi hd hx.1 op (oxPre_of g hpre hin) hpre.2.2.1 (opNoWriter_of hnw) (op_role g.g3.good.npi op),
     NoPPQ_step hx.2 op hA⟩
  pc := fun _ hw hj _ hx fuel io tag hn _ => OXs_pollComplete hw hj hx.1 hx.2 fuel io tag hn
  pr := fun g _ _ hx fuel io tag =>
    ⟨OXs_pollSendPendingRefusal hx.1 fuel _ io tag (op_role g.g3.good.npi (.pollSendPendingRefusal fuel _ io tag)),
     NoPPQ_step hx.2 (.pollSendPendingRefusal fuel _ io tag) (by intro p v f e; cases e)⟩

/-- the one lemma still open when `push_request` is used: `poll_complete` keeps `OXs` (in a good, un-panicked state) -/
def PcOX : Prop :=
  ∀ {g : ConnRecvP.Ghost} {s : Streams} {w : Writer} {H : List Nat}, Good4 s H → WI (fun _ => False) g s w → FJ s → KM s w → OXs s →
    ∀ (fuel : Nat) (io : Tio) (tag : String), (Streams.pollComplete fuel s w io tag).1.panicked = none →
    OXs (Streams.pollComplete fuel s w io tag).1

theorem plug_of_pc (h : PcOX) : Plug AllOps RT OXs where
  oh := OXs.oh
  blank := fun hb _ => OXs_blank hb
  step := plugOX.step
  pc := fun g hw hj hk hx fuel io tag hn _ => h g hw hj hk hx fuel io tag hn
  pr := plugOX.pr

/-- **the stream-layer theorem, no `push_request`: NO residual hypothesis** -/
theorem wreach_final {s : Streams} {w : Writer} {H T : List Nat} (h : WReach NoPushReq RT s w H T) (he : ErrOK s) :
    (s.panicked = none ∧ GoodW (fun s => OXs s ∧ NoPPQ s) s w H T) ∨ ∃ m, s.panicked = some m ∧ FuelAll m :=
  wreach_good plugFinal h he

/-- **the stream-layer theorem with `push_request`; residual state hypothesis: `OXs` after each `poll_complete`** -/
theorem wreach_residual {s : Streams} {w : Writer} {H T : List Nat} (h : WReach AllOps OXs s w H T) (he : ErrOK s) :
    (s.panicked = none ∧ GoodW OXs s w H T) ∨ ∃ m, s.panicked = some m ∧ FuelAll m :=
  wreach_good plugOX h he

/-- in an un-panicked state of a history the request head `next_incoming` hands out is there for `take_request` -/
theorem wreach_accept {A : Op → Prop} {R Q : Streams → Prop} (P : Plug A R Q) {s : Streams} {w : Writer} {H T : List Nat} (h : WReach A R s w H T)
    (he : ErrOK s) (hn : s.panicked = none) {k : Nat} (hk : s.nextIncoming.2 = some k) : ReqHead (s.nextIncoming.1.stream k) := by
  rcases wreach_good P h he with ⟨_, g⟩ | ⟨m, hm, _⟩
  · exact ((nextIncoming_npi g.g4.g3.good.npi g.g4.j g.g4.g3.good.hok).2.2.2 k hk).2.2.2.2.2
  · rw [hn] at hm; cases hm

instance {α : Type} (l : List α) : Decidable (l = []) :=
  match l with
  | [] => isTrue rfl
  | _ :: _ => isFalse (fun h => by cases h)

instance (l : List SFrame) : Decidable (hnd l) := by unfold hnd; infer_instance
instance (x : Stream) : Decidable (Nn x) := by unfold Nn; infer_instance
instance (x : Stream) : Decidable (Wv x) := by unfold Wv; infer_instance
instance (x : Stream) : Decidable (Dd x) := by unfold Dd; infer_instance

instance (sv : Bool) (r : Nat) (x : Stream) : Decidable (XEr sv r x) :=
  decidable_of_iff ((locId sv x.id = true → suB x.state = true → Nn x) ∧ (flagB x = true → Wv x ∨ Dd x) ∧
      (flagB x = true → x.bufferedSendData ≤ dsum x.pendingSend + r))
    ⟨fun h => ⟨h.1, h.2.1, h.2.2⟩, fun h => ⟨h.n, h.f, h.e⟩⟩

theorem OXs_of_slab {s : Streams} (h : ∀ x ∈ s.store.slab, XE s.counts.isServer x) : OXs s := by
  intro k
  rcases stream_mem_or_blank s k with hm | hb
  · exact h _ hm
  · rw [hb]; exact XEr.blank 0 k

theorem WReach.op' {A : Op → Prop} {R : Streams → Prop} {s : Streams} {w : Writer} {H T : List Nat} (op : Op) (h : WReach A R s w H T)
    (hnw : usesWriter op = false) (hnp : ∀ m, op ≠ .panic m) (hpre : opPre5 s T op)
    (hin : ∀ k, opKey3 op = some k → k ∈ H) (hA : A op) {H' T' : List Nat}
    (eh : H' = opHandles3 s H op) (et : T' = opResp s H T op) : WReach A R (op.apply s) w H' T' := by
  subst eh; subst et; exact .op op h hnw hnp hpre hin hA

/-- witness: a client (ENABLE_PUSH = 0) sends a request, `poll_complete` writes it, the response head arrives, the response
    future returns it, the handle is dropped, `poll_complete` again, EOF -/
def wS1 : Streams := (Op.sendRequest false [] true none).apply wInit3
def wP1 := Streams.pollComplete 8 wS1 {} {} "t"
def wS2 : Streams := (Op.recvHeaders { sid := 1, eos := true, status := some [50, 48, 48] }).apply wP1.1
def wS3 : Streams := (Op.recvPollResponse 4 0 "f").apply wS2
def wS4 : Streams := (Op.dropStreamRef 0).apply wS3
def wP2 := Streams.pollComplete 8 wS4 wP1.2.1 {} "t"
def wS5 : Streams := (Op.recvEof false).apply wP2.1

set_option maxRecDepth 20000 in
theorem wS5_wreach : WReach NoPushReq RT wS5 wP2.2.1 [] [] := by
  have r0 : WReach NoPushReq RT wInit3 {} [] [] := .init wInit3_init2 wInit3_nopush rfl rfl
  have r1 : WReach NoPushReq RT wS1 {} [0] [0] :=
    r0.op' (.sendRequest false [] true none) rfl (by intro m e; cases e) ⟨fun _ => trivial, trivial, trivial, trivial⟩
      (by intro k h; cases h) (by intro p v f e; cases e) (by decide +kernel) (by decide +kernel)
  have r2 : WReach NoPushReq RT wP1.1 wP1.2.1 [0] [0] := .pollComplete 8 {} "t" r1 trivial
  have r3 : WReach NoPushReq RT wS2 wP1.2.1 [0] [0] :=
    r2.op' (.recvHeaders { sid := 1, eos := true, status := some [50, 48, 48] }) rfl (by intro m e; cases e)
      ⟨fun _ => (by show _ = none; decide +kernel), trivial, trivial, trivial⟩ (by intro k h; cases h)
      (by intro p v f e; cases e) (by decide +kernel) (by decide +kernel)
  have r4 : WReach NoPushReq RT wS3 wP1.2.1 [0] [] :=
    r3.op' (.recvPollResponse 4 0 "f") rfl (by intro m e; cases e)
      ⟨fun h => (by cases h), trivial, trivial, (by show 0 ∈ [0]; decide)⟩ (by intro k h; cases h; decide)
      (by intro p v f e; cases e) (by decide +kernel) (by decide +kernel)
  have r5 : WReach NoPushReq RT wS4 wP1.2.1 [] [] :=
    r4.op' (.dropStreamRef 0) rfl (by intro m e; cases e) ⟨fun _ => trivial, trivial, trivial, trivial⟩
      (by intro k h; cases h; decide) (by intro p v f e; cases e) (by decide +kernel) (by decide +kernel)
  have r6 : WReach NoPushReq RT wP2.1 wP2.2.1 [] [] := .pollComplete 8 {} "t" r5 trivial
  exact r6.op' (.recvEof false) rfl (by intro m e; cases e) ⟨fun _ => trivial, trivial, trivial, trivial⟩
    (by intro k h; cases h) (by intro p v f e; cases e) (by decide +kernel) (by decide +kernel)

set_option maxRecDepth 20000 in
theorem wS5_facts : ErrOK wS5 ∧ wS5.panicked = none ∧ wS5.store.slab.length = 0 :=
  ⟨by unfold ErrOK; decide +kernel, by decide +kernel, by decide +kernel⟩

end H2V.Lemmas.ConnNoPanicP
