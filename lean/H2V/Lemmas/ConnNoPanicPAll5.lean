import H2V.Lemmas.ConnNoPanicPAll4
import H2V.Lemmas.ConnNoPanicPPollWitness
/-
  C08 (no panic) — stage 4, the residual form and a witness history with the write path.
-/
namespace H2V.Lemmas.ConnNoPanicP
open H2V H2V.Model H2V.Model.Conn H2V.Lemmas.ConnCountsP
open H2V.Lemmas.ConnResetP (Op run)

/-- **the stream-layer theorem with `OH` as residual state hypothesis** on the states of the history -/
theorem wreach_residual {s : Streams} {w : Writer} {H T : List Nat} (h : WReach OH s w H T) (he : ErrOK s) :
    (s.panicked = none ∧ GoodW OH s w H T) ∨ ∃ m, s.panicked = some m ∧ FuelAll m :=
  wreach_good Plug.residual h he

/-- in an un-panicked state of a history the request head `next_incoming` hands out is there for `take_request` -/
theorem wreach_accept {R Q : Streams → Prop} (P : Plug R Q) {s : Streams} {w : Writer} {H T : List Nat} (h : WReach R s w H T)
    (he : ErrOK s) (hn : s.panicked = none) {k : Nat} (hk : s.nextIncoming.2 = some k) : ReqHead (s.nextIncoming.1.stream k) := by
  rcases wreach_good P h he with ⟨_, g⟩ | ⟨m, hm, _⟩
  · exact ((nextIncoming_npi g.g4.g3.good.npi g.g4.j g.g4.g3.good.hok).2.2.2 k hk).2.2.2.2.2
  · rw [hn] at hm; cases hm

instance (x : Stream) : Decidable (OHead x) := by unfold OHead; infer_instance

theorem OH_of_slab {s : Streams} (h : ∀ x ∈ s.store.slab, OHead x) : OH s := by
  intro k
  rcases stream_mem_or_blank s k with hm | hb
  · exact h _ hm
  · rw [hb]; exact OHead.blank k

theorem WReach.op' {R : Streams → Prop} {s : Streams} {w : Writer} {H T : List Nat} (op : Op) (h : WReach R s w H T)
    (hnw : usesWriter op = false) (hnp : ∀ m, op ≠ .panic m) (hpre : opPre5 s T op)
    (hin : ∀ k, opKey3 op = some k → k ∈ H) (hR : R (op.apply s)) {H' T' : List Nat}
    (eh : H' = opHandles3 s H op) (et : T' = opResp s H T op) : WReach R (op.apply s) w H' T' := by
  subst eh; subst et; exact .op op h hnw hnp hpre hin hR

/-- witness: a client (ENABLE_PUSH = 0) sends a request, `poll_complete` writes it, the response head arrives, the response
    future returns it, the handle is dropped, `poll_complete` again, EOF -/
def wS1 : Streams := (Op.sendRequest false [] true none).apply wInit3
def wP1 := Streams.pollComplete 8 wS1 {} {} "t"
def wS2 : Streams := (Op.recvHeaders { sid := 1, eos := true, status := some [50, 48, 48] }).apply wP1.1
def wS3 : Streams := (Op.recvPollResponse 4 0 "f").apply wS2
def wS4 : Streams := (Op.dropStreamRef 0).apply wS3
def wP2 := Streams.pollComplete 8 wS4 wP1.2.1 {} "t"
def wS5 : Streams := (Op.recvEof false).apply wP2.1

set_option maxRecDepth 20000 in
theorem wS5_wreach : WReach OH wS5 wP2.2.1 [] [] := by
  have r0 : WReach OH wInit3 {} [] [] := .init wInit3_init2 wInit3_nopush rfl rfl (OH_blank wInit3_init2.blank)
  have r1 : WReach OH wS1 {} [0] [0] :=
    r0.op' (.sendRequest false [] true none) rfl (by intro m e; cases e) ⟨fun _ => trivial, trivial, trivial, trivial⟩
      (by intro k h; cases h) (OH_of_slab (by decide +kernel)) (by decide +kernel) (by decide +kernel)
  have r2 : WReach OH wP1.1 wP1.2.1 [0] [0] := .pollComplete 8 {} "t" r1 (OH_of_slab (by decide +kernel))
  have r3 : WReach OH wS2 wP1.2.1 [0] [0] :=
    r2.op' (.recvHeaders { sid := 1, eos := true, status := some [50, 48, 48] }) rfl (by intro m e; cases e)
      ⟨fun _ => (by show _ = none; decide +kernel), trivial, trivial, trivial⟩ (by intro k h; cases h)
      (OH_of_slab (by decide +kernel)) (by decide +kernel) (by decide +kernel)
  have r4 : WReach OH wS3 wP1.2.1 [0] [] :=
    r3.op' (.recvPollResponse 4 0 "f") rfl (by intro m e; cases e)
      ⟨fun h => (by cases h), trivial, trivial, (by show 0 ∈ [0]; decide)⟩ (by intro k h; cases h; decide)
      (OH_of_slab (by decide +kernel)) (by decide +kernel) (by decide +kernel)
  have r5 : WReach OH wS4 wP1.2.1 [] [] :=
    r4.op' (.dropStreamRef 0) rfl (by intro m e; cases e) ⟨fun _ => trivial, trivial, trivial, trivial⟩
      (by intro k h; cases h; decide) (OH_of_slab (by decide +kernel)) (by decide +kernel) (by decide +kernel)
  have r6 : WReach OH wP2.1 wP2.2.1 [] [] := .pollComplete 8 {} "t" r5 (OH_of_slab (by decide +kernel))
  exact r6.op' (.recvEof false) rfl (by intro m e; cases e) ⟨fun _ => trivial, trivial, trivial, trivial⟩
    (by intro k h; cases h) (OH_of_slab (by decide +kernel)) (by decide +kernel) (by decide +kernel)

set_option maxRecDepth 20000 in
theorem wS5_facts : ErrOK wS5 ∧ wS5.panicked = none ∧ wS5.store.slab.length = 0 :=
  ⟨by unfold ErrOK; decide +kernel, by decide +kernel, by decide +kernel⟩

end H2V.Lemmas.ConnNoPanicP
