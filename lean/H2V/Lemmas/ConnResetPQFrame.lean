import H2V.Lemmas.ConnResetPQInv
/-
  ConnResetP — `QInv` is preserved by every operation of the model, part 1: rules for the primitive
  transformers, ConnStore / ConnSend / ConnRecv.  Continuation form `QInv s → QInv (op s …)`, chained by `ev`.
-/
set_option linter.unusedSectionVars false
namespace H2V.Lemmas.ConnResetP
open H2V H2V.Model H2V.Model.Conn

-- ===================================================================== store-preserving primitives

section prim
variable {s : Streams} (h : QInv s)
include h

theorem QInv.panic (m : String) : QInv (s.panic m) := fun hn => absurd hn (panic_panicked_ne s m)
theorem QInv.unsup (m : String) : QInv (s.unsup m) :=
  h.of_same (by simp) (fun q => by unfold Streams.getQ Streams.prio Streams.recv; simp) (by simp)
theorem QInv.wake (t : List String) : QInv (s.wake t) := h.of_same rfl (fun _ => rfl) (fun x => x)
theorem QInv.notifyTask : QInv s.notifyTask :=
  h.of_same (by simp) (fun q => by unfold Streams.getQ; cases q <;> simp) (by simp)
theorem QInv.modCounts (f : Counts → Counts) : QInv (s.modCounts f) := h.of_same rfl (fun _ => rfl) (fun x => x)
theorem QInv.modCountsA (w : String) (f : Counts → Option Counts) : QInv (s.modCountsA w f) := by
  unfold Streams.modCountsA; split
  · exact h.of_same rfl (fun _ => rfl) (fun x => x)
  · exact h.panic _
theorem QInv.modSend (f : Send → Send) (hf : ∀ sd, (f sd).prioritize = sd.prioritize) : QInv (s.modSend f) :=
  h.of_same rfl (fun q => by unfold Streams.getQ Streams.prio Streams.recv Streams.modSend; cases q <;> simp [hf]) (fun x => x)
theorem QInv.modPrio (f : Prioritize → Prioritize) (h1 : ∀ p, (f p).pendingSend = p.pendingSend)
    (h2 : ∀ p, (f p).pendingCapacity = p.pendingCapacity) (h3 : ∀ p, (f p).pendingOpen = p.pendingOpen) :
    QInv (s.modPrio f) :=
  h.of_same rfl (fun q => by unfold Streams.getQ; cases q <;> simp [h1, h2, h3]) (fun x => x)
theorem QInv.modRecv (f : Recv → Recv) (h1 : ∀ r, (f r).pendingWindowUpdates = r.pendingWindowUpdates)
    (h2 : ∀ r, (f r).pendingAccept = r.pendingAccept) (h3 : ∀ r, (f r).pendingResetExpired = r.pendingResetExpired) :
    QInv (s.modRecv f) :=
  h.of_same rfl (fun q => by unfold Streams.getQ; cases q <;> simp [h1, h2, h3]) (fun x => x)

end prim

macro_rules | `(tactic| ev_step) => `(tactic| with_reducible apply QInv.panic)
macro_rules | `(tactic| ev_step) => `(tactic| with_reducible apply QInv.unsup)
macro_rules | `(tactic| ev_step) => `(tactic| with_reducible apply QInv.wake)
macro_rules | `(tactic| ev_step) => `(tactic| with_reducible apply QInv.notifyTask)
macro_rules | `(tactic| ev_step) => `(tactic| with_reducible apply QInv.modCounts)
macro_rules | `(tactic| ev_step) => `(tactic| with_reducible apply QInv.modCountsA)
macro_rules | `(tactic| ev_step) => `(tactic| (with_reducible refine QInv.modSend ?_ _ (fun _ => rfl)))
macro_rules
  | `(tactic| ev_step) => `(tactic| (with_reducible refine QInv.modPrio ?_ _ (fun _ => rfl) (fun _ => rfl) (fun _ => rfl)))
macro_rules
  | `(tactic| ev_step) => `(tactic| (with_reducible refine QInv.modRecv ?_ _ (fun _ => rfl) (fun _ => rfl) (fun _ => rfl)))
macro_rules | `(tactic| ev_step) => `(tactic| with_reducible apply QInv.qPush)
macro_rules | `(tactic| ev_step) => `(tactic| with_reducible apply QInv.qPushFront)
macro_rules | `(tactic| ev_step) => `(tactic| with_reducible apply QInv.qPop)
macro_rules | `(tactic| ev_step) => `(tactic| with_reducible apply QInv.unlink)
macro_rules | `(tactic| ev_step) => `(tactic| with_reducible apply QInv.insert)

/-- raw record updates of `Streams` that leave store and `actions`' queues alone (`refs`, `wakes`, `counts`,
    `connError`, `task` …) -/
macro_rules
  | `(tactic| ev_step) =>
    `(tactic| (refine QInv.of_same (s := ?s) ?h ?hs ?hq ?hp;
               case hs => (simp only [crp_store]; rfl)
               case hq => (intro q; cases q <;> rfl)
               case hp => exact fun x => x))

-- ===================================================================== key and flags of a stream

/-- same key, same six queue flags -/
structure FlagsEq (a b : Stream) : Prop where
  key : b.key = a.key
  flags : ∀ q, b.isQueued q = a.isQueued q

theorem FlagsEq.rfl' (a : Stream) : FlagsEq a a := ⟨rfl, fun _ => rfl⟩
theorem FlagsEq.trans {a b c : Stream} (h1 : FlagsEq a b) (h2 : FlagsEq b c) : FlagsEq a c :=
  ⟨h2.key.trans h1.key, fun q => (h2.flags q).trans (h1.flags q)⟩

syntax "flags_tac" : tactic
macro_rules | `(tactic| flags_tac) => `(tactic| exact ⟨rfl, fun q => by cases q <;> rfl⟩)

theorem flagsEq_notifySend (st : Stream) : FlagsEq st st.notifySend.1 := by
  unfold Stream.notifySend
  cases h1 : st.sendTask <;> dsimp only <;> split <;> flags_tac
theorem flagsEq_notifyRecv (st : Stream) : FlagsEq st st.notifyRecv.1 := by
  unfold Stream.notifyRecv; split <;> flags_tac
theorem flagsEq_notifyPush (st : Stream) : FlagsEq st st.notifyPush.1 := by
  unfold Stream.notifyPush; split <;> flags_tac
theorem flagsEq_notifyCapacity (st : Stream) : FlagsEq st st.notifyCapacity.1 := by
  unfold Stream.notifyCapacity
  exact FlagsEq.trans (b := { st with sendCapacityInc := true }) (by flags_tac) (flagsEq_notifySend _)
theorem flagsEq_assignCapacity (st : Stream) (c m : Nat) : FlagsEq st (st.assignCapacity c m).1 := by
  unfold Stream.assignCapacity
  simp only
  split
  · exact FlagsEq.trans (b := { st with sendFlow := (st.sendFlow.assignCapacity c).1 }) (by flags_tac) (flagsEq_notifyCapacity _)
  · flags_tac
theorem flagsEq_setReset (st : Stream) (r : Reason) (i : Initiator) : FlagsEq st (st.setReset r i).1 := by
  have h0 : FlagsEq st { st with state := st.state.setReset st.id r i } := by flags_tac
  have h1 := flagsEq_notifySend { st with state := st.state.setReset st.id r i }
  have h2 := flagsEq_notifyPush ({ st with state := st.state.setReset st.id r i }).notifySend.1
  have h3 := flagsEq_notifyRecv (({ st with state := st.state.setReset st.id r i }).notifySend.1).notifyPush.1
  exact ((h0.trans h1).trans h2).trans h3

macro_rules | `(tactic| flags_tac) => `(tactic| exact flagsEq_notifySend _)
macro_rules | `(tactic| flags_tac) => `(tactic| exact flagsEq_notifyRecv _)
macro_rules | `(tactic| flags_tac) => `(tactic| exact flagsEq_notifyPush _)
macro_rules | `(tactic| flags_tac) => `(tactic| exact flagsEq_notifyCapacity _)
macro_rules | `(tactic| flags_tac) => `(tactic| exact flagsEq_assignCapacity _ _ _)
macro_rules | `(tactic| flags_tac) => `(tactic| exact flagsEq_setReset _ _ _)

theorem QInv.modStream' {s : Streams} (h : QInv s) (id : Nat) (f : Stream → Stream) (hf : ∀ st, FlagsEq st (f st)) :
    QInv (s.modStream id f) := h.modStream id f (fun st => (hf st).key) (fun st => (hf st).flags)
theorem QInv.modStreamW' {s : Streams} (h : QInv s) (id : Nat) (f : Stream → Stream × List String)
    (hf : ∀ st, FlagsEq st (f st).1) : QInv (s.modStreamW id f) :=
  h.modStreamW id f (fun st => (hf st).key) (fun st => (hf st).flags)

macro_rules
  | `(tactic| ev_step) => `(tactic| ((with_reducible refine QInv.modStream' ?_ _ _ ?hf); case hf => (intro _; flags_tac)))
macro_rules
  | `(tactic| ev_step) => `(tactic| ((with_reducible refine QInv.modStreamW' ?_ _ _ ?hf); case hf => (intro _; flags_tac)))

-- ===================================================================== ConnStore

section
variable {s : Streams}

theorem incNumSendStreams_qi (h : QInv s) (id : Nat) : QInv (s.incNumSendStreams id) := by
  unfold Streams.incNumSendStreams; ev
macro_rules | `(tactic| ev_step) => `(tactic| with_reducible apply incNumSendStreams_qi)

theorem incNumRecvStreams_qi (h : QInv s) (id : Nat) : QInv (s.incNumRecvStreams id) := by
  unfold Streams.incNumRecvStreams; ev
macro_rules | `(tactic| ev_step) => `(tactic| with_reducible apply incNumRecvStreams_qi)

theorem decNumStreams_qi (h : QInv s) (id : Nat) : QInv (s.decNumStreams id) := by
  unfold Streams.decNumStreams; ev
macro_rules | `(tactic| ev_step) => `(tactic| with_reducible apply decNumStreams_qi)

theorem taPrefix_qi (h : QInv s) (id : Nat) (b : Bool) : QInv (taPrefix s id b) := by
  unfold taPrefix; ev

end
end H2V.Lemmas.ConnResetP
