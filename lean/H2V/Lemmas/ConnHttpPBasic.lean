import H2V.Spec.Http
import H2V.Model.ConnProto
/-
  C13 (ConnHttpP), part 1 — constants: the byte strings the model compares header names with
  (`Http.str`, UTF-8 of a literal) against the reference's (`Spec.Http.ascii`).
-/
namespace H2V.Lemmas.ConnHttpP
open H2V H2V.Model H2V.Model.Frame H2V.Model.Hpack

theorem str_connection : Http.str "connection" = [99, 111, 110, 110, 101, 99, 116, 105, 111, 110] := by decide +kernel
theorem str_transfer_encoding : Http.str "transfer-encoding" =
    [116, 114, 97, 110, 115, 102, 101, 114, 45, 101, 110, 99, 111, 100, 105, 110, 103] := by decide +kernel
theorem str_upgrade : Http.str "upgrade" = [117, 112, 103, 114, 97, 100, 101] := by decide +kernel
theorem str_keep_alive : Http.str "keep-alive" = [107, 101, 101, 112, 45, 97, 108, 105, 118, 101] := by decide +kernel
theorem str_proxy_connection : Http.str "proxy-connection" =
    [112, 114, 111, 120, 121, 45, 99, 111, 110, 110, 101, 99, 116, 105, 111, 110] := by decide +kernel
theorem str_te : Http.str "te" = [116, 101] := by decide +kernel
theorem str_trailers : Http.str "trailers" = [116, 114, 97, 105, 108, 101, 114, 115] := by decide +kernel
theorem str_content_length : Http.str "content-length" =
    [99, 111, 110, 116, 101, 110, 116, 45, 108, 101, 110, 103, 116, 104] := by decide +kernel
theorem str_CONNECT : Http.str "CONNECT" = [67, 79, 78, 78, 69, 67, 84] := by decide +kernel
theorem str_GET : Http.str "GET" = [71, 69, 84] := by decide +kernel
theorem str_HEAD : Http.str "HEAD" = [72, 69, 65, 68] := by decide +kernel
theorem str_http : Http.str "http" = [104, 116, 116, 112] := by decide +kernel
theorem str_https : Http.str "https" = [104, 116, 116, 112, 115] := by decide +kernel
theorem str_200 : Http.str "200" = [50, 48, 48] := by decide +kernel
theorem str_204 : Http.str "204" = [50, 48, 52] := by decide +kernel
theorem str_304 : Http.str "304" = [51, 48, 52] := by decide +kernel

theorem ascii_te : Spec.Http.ascii "te" = [116, 101] := by decide
theorem ascii_trailers : Spec.Http.ascii "trailers" = [116, 114, 97, 105, 108, 101, 114, 115] := by decide
theorem ascii_content_length : Spec.Http.ascii "content-length" =
    [99, 111, 110, 116, 101, 110, 116, 45, 108, 101, 110, 103, 116, 104] := by decide
theorem ascii_CONNECT : Spec.Http.ascii "CONNECT" = [67, 79, 78, 78, 69, 67, 84] := by decide
theorem ascii_method : Spec.Http.ascii ":method" = pMethod := by decide
theorem ascii_scheme : Spec.Http.ascii ":scheme" = pScheme := by decide
theorem ascii_authority : Spec.Http.ascii ":authority" = pAuthority := by decide
theorem ascii_path : Spec.Http.ascii ":path" = pPath := by decide
theorem ascii_protocol : Spec.Http.ascii ":protocol" = pProtocol := by decide
theorem ascii_status : Spec.Http.ascii ":status" = pStatus := by decide

theorem knownPseudo_eq : Spec.Http.knownPseudo = [pMethod, pScheme, pAuthority, pPath, pStatus, pProtocol] := by decide

theorem connHeaders_eq : connHeaders =
    [[99, 111, 110, 110, 101, 99, 116, 105, 111, 110],
     [116, 114, 97, 110, 115, 102, 101, 114, 45, 101, 110, 99, 111, 100, 105, 110, 103],
     [117, 112, 103, 114, 97, 100, 101],
     [107, 101, 101, 112, 45, 97, 108, 105, 118, 101],
     [112, 114, 111, 120, 121, 45, 99, 111, 110, 110, 101, 99, 116, 105, 111, 110]] := by
  simp only [connHeaders, str_connection, str_transfer_encoding, str_upgrade, str_keep_alive, str_proxy_connection]

theorem connectionSpecific_eq : Spec.Http.connectionSpecific =
    [[99, 111, 110, 110, 101, 99, 116, 105, 111, 110],
     [112, 114, 111, 120, 121, 45, 99, 111, 110, 110, 101, 99, 116, 105, 111, 110],
     [107, 101, 101, 112, 45, 97, 108, 105, 118, 101],
     [116, 114, 97, 110, 115, 102, 101, 114, 45, 101, 110, 99, 111, 100, 105, 110, 103],
     [117, 112, 103, 114, 97, 100, 101]] := by decide

/-- the model's list of connection-specific names is the reference's (in another order) -/
theorem connHeaders_contains (n : Bytes) : connHeaders.contains n = Spec.Http.connectionSpecific.contains n := by
  rw [connHeaders_eq, connectionSpecific_eq]
  simp only [List.contains_cons, List.contains_nil, Bool.or_false]
  cases (n == [99, 111, 110, 110, 101, 99, 116, 105, 111, 110]) <;>
  cases (n == [116, 114, 97, 110, 115, 102, 101, 114, 45, 101, 110, 99, 111, 100, 105, 110, 103]) <;>
  cases (n == [117, 112, 103, 114, 97, 100, 101]) <;>
  cases (n == [107, 101, 101, 112, 45, 97, 108, 105, 118, 101]) <;>
  cases (n == [112, 114, 111, 120, 121, 45, 99, 111, 110, 110, 101, 99, 116, 105, 111, 110]) <;> rfl

end H2V.Lemmas.ConnHttpP
