import H2V.Lemmas.ConnWakePGoAway
/-
  ConnWakeP, part 19 — C06 (D) continued: `StreamRef::send_data` and `drop_stream_ref` as whole functions.
  Needs that the flags `is_pending_open` / `is_pending_push` (= `is_send_ready`) of a stream are not
  touched by the capacity bookkeeping (`reserve_capacity`, `try_assign_capacity`,
  `assign_connection_capacity`, `reclaim_reserved_capacity`): frame relation `PO`.
-/
namespace H2V.Lemmas.ConnWakeP
open H2V H2V.Model H2V.Model.Conn

/-- `is_pending_open` and `is_pending_push` untouched -/
structure PO (a b : Stream) : Prop where
  key : b.key = a.key
  id : b.id = a.id
  po : b.isPendingOpen = a.isPendingOpen
  pp : b.isPendingPush = a.isPendingPush

instance : IsPre PO where
  refl _ := ⟨rfl, rfl, rfl, rfl⟩
  trans h1 h2 := ⟨h2.key.trans h1.key, h2.id.trans h1.id, h2.po.trans h1.po, h2.pp.trans h1.pp⟩
  key h := h.key

@[grind =] theorem po_iff (a b : Stream) : PO a b ↔ (b.key = a.key ∧ b.id = a.id ∧ b.isPendingOpen = a.isPendingOpen ∧
    b.isPendingPush = a.isPendingPush) :=
  ⟨fun h => ⟨h.1, h.2, h.3, h.4⟩, fun ⟨h1, h2, h3, h4⟩ => ⟨h1, h2, h3, h4⟩⟩

abbrev PS := GStep False PO

theorem assignCapacity_flags (x : Stream) (c m : Nat) :
    (x.assignCapacity c m).1.isPendingOpen = x.isPendingOpen ∧ (x.assignCapacity c m).1.isPendingPush = x.isPendingPush := by
  unfold Stream.assignCapacity Stream.notifyCapacity Stream.notifySend
  simp only
  split
  · cases x.sendTask <;> cases x.openTask <;> exact ⟨rfl, rfl⟩
  · exact ⟨rfl, rfl⟩
@[grind ←] theorem po_assignCapacity (x : Stream) (c m : Nat) : PO x (x.assignCapacity c m).1 := by
  obtain ⟨h1, h2, _⟩ := assignCapacity_fields x c m
  obtain ⟨h3, h4⟩ := assignCapacity_flags x c m
  exact ⟨h1, h2, h3, h4⟩

section
variable {s0 s : Streams}

@[grind ←] theorem p_qPush_capacity (k : Nat) (h : PS s0 s) : PS s0 (s.qPush .pendingCapacity k).1 := by
  unfold Streams.qPush Stream.setQueued; tear_grind
@[grind ←] theorem p_qPush_send (k : Nat) (h : PS s0 s) : PS s0 (s.qPush .pendingSend k).1 := by
  unfold Streams.qPush Stream.setQueued; tear_grind
@[grind ←] theorem p_qPop_capacity (h : PS s0 s) : PS s0 (s.qPop .pendingCapacity).1 := by
  unfold Streams.qPop Stream.setQueued; tear_grind
@[grind ←] theorem p_tryAssignCapacity (k : Nat) (h : PS s0 s) : PS s0 (s.tryAssignCapacity k) := by
  unfold Streams.tryAssignCapacity; tear_grind

theorem p_assignConnectionCapacityLoop (n : Nat) (h : PS s0 s) : PS s0 (Streams.assignConnectionCapacityLoop n s) := by
  induction n generalizing s with
  | zero => unfold Streams.assignConnectionCapacityLoop; exact h
  | succ n ih =>
    unfold Streams.assignConnectionCapacityLoop
    split
    · split
      · next s1 heq => exact (p_qPop_capacity h).of_fst heq
      · next s1 id heq =>
        have h1 : PS s0 s1 := (p_qPop_capacity h).of_fst heq
        simp only
        split
        · exact ih h1
        · next hc =>
          have hc' : ((s1.stream id).state.isSendStreaming || decide ((s1.stream id).bufferedSendData > 0)) = true := by
            cases hh : ((s1.stream id).state.isSendStreaming || decide ((s1.stream id).bufferedSendData > 0)) with
            | true => rfl
            | false => rw [hh] at hc; simp at hc
          have hnc : ((s1.tryAssignCapacity id).stream id).isClosed = false := by
            rw [FS.isClosed_eq (f_tryAssignCapacity id (GStep.refl s1))]
            exact not_closed_of_streaming hc'
          exact ih ((p_tryAssignCapacity id h1).trans (.of_store_eq (transitionAfter_store_of_not_closed hnc)))
    · exact h
attribute [grind ←] p_assignConnectionCapacityLoop

@[grind ←] theorem p_assignConnectionCapacity (inc : Nat) (h : PS s0 s) : PS s0 (s.assignConnectionCapacity inc) := by
  unfold Streams.assignConnectionCapacity; tear_grind
@[grind ←] theorem p_reserveCapacity (k c : Nat) (h : PS s0 s) : PS s0 (s.reserveCapacity k c) := by
  unfold Streams.reserveCapacity; tear_grind
@[grind ←] theorem p_reclaimReservedCapacity (k : Nat) (h : PS s0 s) : PS s0 (s.reclaimReservedCapacity k) := by
  unfold Streams.reclaimReservedCapacity; tear_grind
end

theorem PS.isSendReady {s1 s2 : Streams} (h : PS s1 s2) (k : Nat) : (s2.stream k).isSendReady = (s1.stream k).isSendReady := by
  cases h1 : s1.store.get? k with
  | none => simp [Streams.stream, h1, h.fresh k h1]
  | some a =>
    rcases h.keep k a h1 with ⟨f, _⟩ | ⟨b, hb, hab⟩
    · exact f.elim
    · simp [Streams.stream, h1, hb, Stream.isSendReady, hab.po, hab.pp]

/-- `Send::schedule_implicit_reset` on a stream that is not closed yet and may send: the connection
    task is woken (it has a RST_STREAM to generate) -/
theorem scheduleImplicitReset_woken {s : Streams} {k : Nat} (r : Reason)
    (hc : (s.stream k).state.isClosed = false) (hr : (s.stream k).isSendReady = true) :
    TaskWoken s (s.scheduleImplicitReset k r) := by
  unfold Streams.scheduleImplicitReset
  simp only [hc, Bool.false_eq_true, if_false]
  have h1 : Step none s ((s.modStream k fun st => { st with state := st.state.setScheduledReset r }).reclaimReservedCapacity k) := by
    step_grind
  refine .after h1 (scheduleSend_woken ?_) (scheduleSend_acc (cx := none) k (Step.refl _ _)).wakes
  rw [PS.isSendReady (p_reclaimReservedCapacity k (GStep.refl _)),
    isSendReady_modStream (fun st => { st with state := st.state.setScheduledReset r }) fun a => ⟨rfl, rfl, rfl⟩]
  exact hr

/-- `maybe_cancel`: nobody is interested in the stream any more and it is not closed -/
theorem maybeCancel_woken {s : Streams} {k : Nat} (h0 : (s.stream k).refCount = 0)
    (hc : (s.stream k).state.isClosed = false) (hr : (s.stream k).isSendReady = true) :
    TaskWoken s (s.maybeCancel k) := by
  unfold Streams.maybeCancel
  have : (s.stream k).isCanceledInterest = true := by simp [Stream.isCanceledInterest, h0, hc]
  simp only [this, if_true]
  exact (scheduleImplicitReset_woken _ hc hr).before
    (scheduleImplicitReset_acc (cx := none) k _ (Step.refl _ _)).wakes (enqueueResetExpiration_acc k (Step.refl _ _))

/-- **`drop_stream_ref`** of the LAST handle of a stream that is not closed (the application lost interest
    mid-flight: the implicit `CANCEL` / `NO_ERROR` reset is scheduled): the connection task is woken -/
theorem dropStreamRef_woken {s : Streams} {k : Nat} (h1 : (s.stream k).refCount = 1)
    (hc : (s.stream k).state.isClosed = false) (hr : (s.stream k).isSendReady = true) :
    TaskWoken s (s.dropStreamRef k) := by
  -- the stream exists (a dangling key reads as a blank stream with `ref_count = 0`)
  obtain ⟨a, ha⟩ : ∃ a, s.store.get? k = some a := by
    cases hg : s.store.get? k with
    | some a => exact ⟨a, rfl⟩
    | none => simp [Streams.stream, hg] at h1
  have hst : s.stream k = a := stream_eq_of_get? ha
  rw [hst] at h1 hc hr
  unfold Streams.dropStreamRef
  simp only
  -- the decrement
  have hget0 : ({ s with refs := s.refs - 1 } : Streams).store.get? k = some a := ha
  have hst0 : ({ s with refs := s.refs - 1 } : Streams).stream k = a := stream_eq_of_get? hget0
  rw [hst0, if_pos (by omega : a.refCount > 0)]
  generalize hs1 : (({ s with refs := s.refs - 1 } : Streams).modStream k fun st => { st with refCount := st.refCount - 1 }) = s1
  have hget1 : s1.store.get? k = some { a with refCount := a.refCount - 1 } := by
    rw [← hs1]; exact get?_modStream_same (fun st => { st with refCount := st.refCount - 1 }) hget0 rfl
  have hst1 : s1.stream k = { a with refCount := a.refCount - 1 } := stream_eq_of_get? hget1
  have hstep1 : Step none s s1 := by
    rw [← hs1]
    exact modStream_acc k _ (sstep_of_inert _ (by rw [hst0]; inert)) (setRefs_acc _ (Step.refl _ _))
  -- the (possible) wake of F35 in between does not touch the store
  generalize hs2 : (if ((s1.stream k).refCount == 0 && (s1.stream k).isClosed || s1.refs == 1) = true then s1.notifyTask else s1) = s2
  have hstore2 : s2.store = s1.store := by
    subst hs2; split
    · unfold Streams.notifyTask; split <;> rfl
    · rfl
  have hst2 : s2.stream k = { a with refCount := a.refCount - 1 } := by
    unfold Streams.stream; rw [hstore2]; exact hst1
  have hstep2 : Step none s s2 := by
    subst hs2; split
    · exact notifyTask_acc hstep1
    · exact hstep1
  -- inside `transition`: `maybe_cancel` wakes, the rest are steps
  have hw : TaskWoken s2 (s2.maybeCancel k) :=
    maybeCancel_woken (by rw [hst2]; simp [h1]) (by rw [hst2]; exact hc) (by rw [hst2]; exact hr)
  have hsm : Step none s2 (s2.maybeCancel k) := maybeCancel_acc k (Step.refl _ _)
  have hw2 : TaskWoken s (s2.maybeCancel k) := TaskWoken.after hstep2 hw hsm.wakes
  have hwk : s.wakes <+: (s2.maybeCancel k).wakes := hstep2.wakes.trans hsm.wakes
  unfold Streams.transition
  simp only
  split
  · refine hw2.before hwk ?_
    refine transitionAfter_acc _ _ ?_
    refine cancelPromises_acc _ ?_
    step_grind
  · exact hw2.before hwk (transitionAfter_acc _ _ (Step.refl _ _))

theorem panic_refs (s : Streams) (m : String) : (s.panic m).refs = s.refs := by
  unfold Streams.panic; split <;> rfl
theorem modStream_refs (s : Streams) (k : Nat) (f : Stream → Stream) : (s.modStream k f).refs = s.refs := by
  unfold Streams.modStream; split
  · rfl
  · exact panic_refs _ _

/-- **`drop_stream_ref` of the last reference besides the connection's own** (repair F35: a `SendRequest` drops its
    `Streams` handle before its `pending` stream reference, so a stream reference can be the last one): the
    connection task is woken — an idle client can notice that nobody is left and close itself -/
theorem dropStreamRef_last_ref_woken {s : Streams} {k : Nat} (hrefs : s.refs = 2) : TaskWoken s (s.dropStreamRef k) := by
  unfold Streams.dropStreamRef
  simp only
  generalize hs1 : ((if (({ s with refs := s.refs - 1 } : Streams).stream k).refCount > 0 then ({ s with refs := s.refs - 1 } : Streams)
      else ({ s with refs := s.refs - 1 } : Streams).panic "assertion failed: self.ref_count > 0").modStream k
        fun st => { st with refCount := st.refCount - 1 }) = s1
  have hstep1 : Step none s s1 := by subst hs1; step_grind
  have hr1 : s1.refs = 1 := by
    subst hs1; rw [modStream_refs]; split
    · simp [hrefs]
    · rw [panic_refs]; simp [hrefs]
  have hcond : ((s1.stream k).refCount == 0 && (s1.stream k).isClosed || s1.refs == 1) = true := by simp [hr1]
  rw [hcond]
  simp only [if_true]
  refine TaskWoken.step_notify_step hstep1 ?_
  have hc := @cancelPromises_acc none s1.notifyTask
  have h0 : Step none s1.notifyTask s1.notifyTask := Step.refl _ _
  generalize s1.notifyTask = s2 at *
  clear hcond hr1 hstep1 hs1
  step_grind

namespace F35
/-- client: one request whose only stream reference is the `SendRequest`'s `pending` one; the `SendRequest` drops its
    `Streams` handle first (no wake: two references left), the connection task parks … -/
def f1 : Streams := ((Conn.init {}).streams.sendRequest false [] true none).1.dropHandle
def f2 : Streams := { f1 with actions := { f1.actions with task := some "c" }, wakes := [] }
/-- … then the `pending` reference goes: it was the last one besides the connection's own -/
def f3 : Streams := f2.dropStreamRef 0
theorem last_stream_ref_wakes_connection_example :
    f2.refs = 2 ∧ f2.actions.task = some "c" ∧ f3.refs = 1 ∧ "c" ∈ f3.wakes ∧ f3.actions.task = none := by decide
end F35

/-- the stream has buffered DATA but not one octet of send capacity: nothing of it can be written -/
def NoCapacity (s : Streams) (k : Nat) : Prop :=
  (s.stream k).sendFlow.available.gtUsize 0 = false ∧ (s.stream k).bufferedSendData ≠ 0

/-- `Prioritize::send_data` up to the point where it decides whether to schedule the stream -/
def sdPrefix (s : Streams) (k len : Nat) (eos : Bool) : Streams :=
  let s := s.modStream k fun st => { st with bufferedSendData := st.bufferedSendData + len }
  let st := s.stream k
  let s :=
    if st.requestedSendCapacity < st.bufferedSendData then
      (s.modStream k fun st => { st with requestedSendCapacity := min st.bufferedSendData U32_MAX }).tryAssignCapacity k
    else s
  if eos then
    let s := match (s.stream k).state.sendClose with
      | some st' => s.modStream k fun st => { st with state := st' }
      | none => s.panic "send_close: unexpected state"
    s.reserveCapacity k 0
  else s

theorem prioSendData_eq {s : Streams} {k len : Nat} {eos : Bool} (h1 : ¬ len > Generated.Consts.MAX_WINDOW_SIZE)
    (h2 : (s.stream k).state.isSendStreaming = true) :
    s.prioSendData k len eos =
      (if ((sdPrefix s k len eos).stream k).sendFlow.available.gtUsize 0 || ((sdPrefix s k len eos).stream k).bufferedSendData == 0 then
        ((sdPrefix s k len eos).queueFrame k (.data len eos), .ok ())
      else
        ((sdPrefix s k len eos).modStream k fun st => { st with pendingSend := st.pendingSend ++ [.data len eos] }, .ok ())) := by
  unfold Streams.prioSendData sdPrefix
  simp only [h1, if_false, h2, Bool.not_true, Bool.false_eq_true]
  rfl

theorem sdPrefix_step (s : Streams) (k len : Nat) (eos : Bool) : Step none s (sdPrefix s k len eos) := by
  unfold sdPrefix; step_grind
theorem sdPrefix_ps (s : Streams) (k len : Nat) (eos : Bool) : PS s (sdPrefix s k len eos) := by
  unfold sdPrefix; tear_grind

/-- **`Prioritize::send_data`** that succeeds on a stream that may send: the connection task is woken —
    unless the stream has no capacity at all (then the frame only joins the stream's own queue, and
    the connection learns about it when capacity arrives: `try_assign_capacity` schedules the stream) -/
theorem prioSendData_woken {s : Streams} {k len : Nat} {eos : Bool}
    (hok : (s.prioSendData k len eos).2 = .ok ()) (hr : (s.stream k).isSendReady = true) :
    TaskWoken s (s.prioSendData k len eos).1 ∨ NoCapacity (s.prioSendData k len eos).1 k := by
  by_cases h1 : len > Generated.Consts.MAX_WINDOW_SIZE
  · unfold Streams.prioSendData at hok; simp [h1] at hok
  · by_cases h2 : (s.stream k).state.isSendStreaming = true
    · rw [prioSendData_eq h1 h2]
      have hstep := sdPrefix_step s k len eos
      have hr3 : ((sdPrefix s k len eos).stream k).isSendReady = true := by
        rw [(sdPrefix_ps s k len eos).isSendReady]; exact hr
      split
      · exact Or.inl (.after hstep (queueFrame_woken _ hr3) (queueFrame_acc (cx := none) k _ (Step.refl _ _)).wakes)
      · next hcond =>
        refine Or.inr ?_
        simp only [Bool.or_eq_true, not_or, Bool.not_eq_true, beq_eq_false_iff_ne] at hcond
        cases hg : (sdPrefix s k len eos).store.get? k with
        | none => simp [Streams.stream, hg] at hcond
        | some a =>
          rw [stream_eq_of_get? hg] at hcond
          unfold NoCapacity
          simp only
          rw [stream_modStream_same _ hg rfl]
          exact hcond
    · unfold Streams.prioSendData at hok; simp [h1, h2] at hok

/-- **`StreamRef::send_data`** (the handle operation) -/
theorem refSendData_woken {s : Streams} {k len : Nat} {eos : Bool}
    (hok : (s.refSendData k len eos).2 = .ok ()) (hr : (s.stream k).isSendReady = true) :
    TaskWoken s (s.refSendData k len eos).1 ∨ NoCapacity (s.refSendData k len eos).1 k := by
  unfold Streams.refSendData Streams.transition at hok ⊢
  simp only at hok ⊢
  rcases prioSendData_woken hok hr with h | h
  · exact Or.inl (h.before (prioSendData_acc (cx := none) k len eos (Step.refl _ _)).wakes (transitionAfter_acc _ _ (Step.refl _ _)))
  · refine Or.inr ?_
    have hnc : ((s.prioSendData k len eos).1.stream k).isClosed = false := by
      unfold Stream.isClosed; simp [h.2]
    unfold NoCapacity Streams.stream at h ⊢
    rw [transitionAfter_store_of_not_closed hnc]
    exact h

end H2V.Lemmas.ConnWakeP
