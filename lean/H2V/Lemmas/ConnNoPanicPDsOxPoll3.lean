import H2V.Lemmas.ConnNoPanicPDsOxPoll2
/-
  C08 (no panic) — the residual hypothesis `OH` as an invariant, part 9: `reclaim_frame`, `pop_pending_open`, the loops of
  `buffer_pending` / `poll_complete` (under `NoPPQ`).
-/
namespace H2V.Lemmas.ConnNoPanicP
open H2V H2V.Model H2V.Model.Conn H2V.Lemmas.ConnCountsP
attribute [local irreducible] wrapSubU32 wrapSubUsize

variable {sv : Bool} {E E' : Nat → Prop}

/-- the bundle carried next to `WI` and `FB` -/
structure XB (sv : Bool) (s : Streams) : Prop where
  xe : XEs sv s
  pq : NoPPQ s

theorem XB.of_store {s t : Streams} (h : XB sv s) (hst : t.store = s.store) : XB sv t :=
  ⟨h.xe.of_store hst, fun k => by unfold ppq; rw [stream_of_store_eqP hst]; exact h.pq k⟩

theorem XB.st {s t : Streams} (h : XB sv s) (hx : XK sv s t) (hf : FK s t) : XB sv t := ⟨hx.xes h.xe, hf.noppq h.pq⟩

/-- an update of one entry, at slack 0 -/
theorem xes_modStream {s : Streams} {k : Nat} (f : Stream → Stream) (hk : ∀ x, (f x).key = x.key) (hx : XEs sv s)
    (h : Live s k → XE sv (s.stream k) → XE sv (f (s.stream k))) : XEs sv (s.modStream k f) := by
  intro j
  by_cases hj : j = k
  · subst hj
    by_cases hl : Live s j
    · rw [stream_modStream_live hl f hk]; exact h hl (hx j)
    · rw [stream_modStream_dead hl]; exact hx j
  · rw [ConnFlowP.stream_modStream_other f hk hj]; exact hx j

-- ===================================================================== reclaim_frame

/-- **`Prioritize::reclaim_frame_inner`**: the remainder goes back to the front of the queue of an entry with
    `rest + Σ queued DATA ≤ buffered_send_data` — which a flagged entry (`buffered ≤ Σ queued DATA`) cannot be -/
theorem reclaimFrameInner_xb {s : Streams} {fr : DataFrame} (hb : XB sv s)
    (hok : (∃ k, s.prio.inFlightDataFrame = .dataFrame k) → HeldOK s fr) : XB sv (s.reclaimFrameInner fr).1 := by
  unfold Streams.reclaimFrameInner
  dsimp only
  have hb0 : XB sv (s.modPrio fun p => { p with inFlightDataFrame := .nothing }) := hb.of_store rfl
  generalize hs0 : (s.modPrio fun p => { p with inFlightDataFrame := .nothing }) = s0 at hb0
  have hst0 : ∀ j, s0.stream j = s.stream j := fun j => by rw [← hs0]; rfl
  have hl0 : ∀ j, Live s0 j ↔ Live s j := fun j => by rw [← hs0]; exact Iff.rfl
  cases hin : s.prio.inFlightDataFrame with
  | nothing => exact hb0.of_store (panic_store _ _)
  | drop => exact hb0
  | dataFrame k =>
    dsimp only
    split
    · next hr =>
      have ho := hok ⟨k, hin⟩ hr
      have hnf : flagB (s0.stream fr.key) = false := by
        cases hf : flagB (s0.stream fr.key) with
        | false => rfl
        | true =>
          have := (hb0.xe fr.key).e hf
          rw [hst0] at this
          have := ho.2.1
          omega
      have hx1 : XEs sv (s0.modStream fr.key fun st => { st with pendingSend := .data fr.rest fr.eos :: st.pendingSend }) := by
        refine xes_modStream _ (fun _ => rfl) hb0.xe (fun _ hx => ?_)
        refine ⟨fun hl hs => ?_, fun hf => ?_, fun hf => ?_⟩
        · have := (hx.n hl hs).2.2
          rw [hst0] at this
          have := ho.2.1
          omega
        · have : flagB (s0.stream fr.key) = true := hf
          rw [hnf] at this; cases this
        · have : flagB (s0.stream fr.key) = true := hf
          rw [hnf] at this; cases this
      have hfk1 : FK s0 (s0.modStream fr.key fun st => { st with pendingSend := .data fr.rest fr.eos :: st.pendingSend }) :=
        modStream_fk _ _ _ (fun x => ⟨rfl, id, id, id, by
            show (ppIdsOf (.data fr.rest fr.eos :: x.pendingSend)).Sublist _
            rw [ppIdsOf_data]; exact .refl _⟩)
      have hb1 : XB sv (s0.modStream fr.key fun st => { st with pendingSend := .data fr.rest fr.eos :: st.pendingSend }) :=
        ⟨hx1, hfk1.noppq hb0.pq⟩
      have hlk : Live s0 fr.key := (hl0 _).mpr ho.1
      have hst1 := stream_modStream_live hlk
        (fun st => ({ st with pendingSend := .data fr.rest fr.eos :: st.pendingSend } : Stream)) (fun _ => rfl)
      generalize (s0.modStream fr.key fun st => { st with pendingSend := .data fr.rest fr.eos :: st.pendingSend }) = s1
        at hb1 hst1 ⊢
      split
      · refine hb1.st (qPushSend_xk s1 fr.key ?_ ?_) (qPush_fk _ _ _ (by decide))
        · rw [hst1]
          unfold flagB at hnf
          unfold Stream.isSendReady
          show (!(s0.stream fr.key).isPendingOpen && !(s0.stream fr.key).isPendingPush) = true
          cases h1 : (s0.stream fr.key).isPendingOpen <;> cases h2 : (s0.stream fr.key).isPendingPush <;> simp_all
        · intro _ r hx hl hs
          have := (hx.n hl hs).1
          rw [hst1] at this
          cases this
      · exact hb1
    · exact hb0

theorem reclaimFrame_xb {s : Streams} {w : Writer} (hb : XB sv s) (hc : Coupled s w) : XB sv (s.reclaimFrame w).1 := by
  unfold Streams.reclaimFrame Writer.takeLastDataFrame
  cases hld : w.lastDataFrame with
  | none => exact hb
  | some fr =>
    dsimp only
    exact reclaimFrameInner_xb hb (hc.ok fr (.inl hld))

theorem bufferReclaim_xb {s : Streams} {w : Writer} {f : Streams.OutFrame} (h : PI E' s) (hb : XB sv s)
    (hw1 : w.lastDataFrame = none) (hw2 : w.next = none)
    (hlen : ∀ len e fr, f = .data len e fr → len ≤ w.maxFrameSize)
    (hheld : ∀ len e fr, f = .data len e fr → HeldOK s fr) :
    XB sv ((s.bufferOut w f).1.reclaimFrame (s.bufferOut w f).2).1 :=
  reclaimFrame_xb (hb.of_store (bufferOut_pi h w f hlen).2.1) (bufferOut_coupled h hw1 hw2 hlen hheld)


-- ===================================================================== pop_pending_open

theorem popPendingOpen_xk (s : Streams) : XK sv s s.popPendingOpen.1 := by
  unfold Streams.popPendingOpen; xk_auto

theorem popPendingOpen_noppq (s : Streams) (hp : NoPPQ s) : NoPPQ s.popPendingOpen.1 := by
  unfold Streams.popPendingOpen
  split
  · split
    · next s1 id heq =>
      dsimp only
      have h1 : NoPPQ s1 := (FK.of_fst_eq heq (qPop_fk s _)).noppq hp
      have h2 : NoPPQ (s1.incNumSendStreams id) := fun k => by rw [(incNumSendStreams_raise s1 id).ppq_eq k]; exact h1 k
      exact (modStreamW_fk _ _ _ (fun _ => by flg_tac)).noppq h2
    · next s1 heq => exact (FK.of_fst_eq heq (qPop_fk s _)).noppq hp
  · exact hp

theorem qPushFrontSend_xk (s : Streams) (k : Nat) (h1 : (s.stream k).isSendReady = true)
    (h2 : Live s k → ∀ r, XEr sv r (s.stream k) → locId sv (s.stream k).id = true → suB (s.stream k).state = true → False) :
    XK sv s (s.qPushFront .pendingSend k).1 := by
  unfold Streams.qPushFront; split
  · exact .refl _
  · dsimp only
    exact (modStream_xk_live _ _ _ (fun hl => xp_sched _ h1 (h2 hl))).trans (setQ_xk _ _ _)

/-- the entry `pop_pending_open` hands out carries no flag any more, and its send half is open -/
theorem popPendingOpen_ready {s : Streams} (hn : NPI E' s) (hb : FB sv E s) (id : Nat) (h : s.popPendingOpen.2 = some id) :
    ((s.popPendingOpen.1).stream id).isSendReady = true ∧ Opn sv s.popPendingOpen.1 id := by
  have hq := hn.qs .pendingOpen (by decide)
  unfold Streams.popPendingOpen at h ⊢
  split at h
  · next hcan =>
    rw [if_pos hcan]
    split at h
    · next s1 id' heq =>
      dsimp only at h ⊢
      cases h
      have hl := qPopQ_live hq heq
      have hf := popOpen_flags hq hb.fi.unc heq
      have hsk : SK sv s s1 := SK.of_fst_eq heq (qPop_sk s _)
      have hloc := hb.fx.ol id hf.1
      have hnsu : suB (s.stream id).state = false := by
        cases hsu : suB (s.stream id).state with
        | false => rfl
        | true => have := (hb.fx.q id hloc hsu).po; rw [hf.1] at this; cases this
      have hnsu1 : suB (s1.stream id).state = false := by
        rcases (Cl.sk (s := s) (k := id) (.inr hnsu) hsk) with h' | h'
        · exact absurd hl.2.1 h'
        · exact h'
      have hcan1 : s1.counts.canIncNumSendStreams = true := by
        have := qPopQ_counts s .pendingOpen; rw [heq] at this
        show s1.counts.canIncNumSendStreams = true
        rw [this]; exact hcan
      have hst2 := incNumSendStreams_stream hl.2.1 hcan1 hf.2.1
      have hl2 : Live (s1.incNumSendStreams id) id := (SameKeys.incNumSendStreams s1 id).live.mpr hl.2.1
      have hst3 := stream_modStreamW_live hl2 Stream.notifySend (fun x => (notifySend_proj7 x).1)
      have pj := notifySend_proj7 ((s1.incNumSendStreams id).stream id)
      have hpo : (s1.stream id).isPendingOpen = false := hl.2.2
      refine ⟨?_, .inr (.inl ?_)⟩
      · rw [hst3]
        unfold Stream.isSendReady
        rw [pj.2.2.2.2.2.2.1, pj.2.2.2.2.2.2.2, hst2]
        show (!(s1.stream id).isPendingOpen && !(s1.stream id).isPendingPush) = true
        rw [hpo, hf.2.2]; rfl
      · rw [hst3, pj.2.2.1, hst2]; exact hnsu1
    · next s1 heq => cases h
  · cases h

theorem loopOpen_xb {s : Streams} (h : PI E' s) (hb : FB sv E s) (hx : XB sv s) :
    ∀ s1, s1 = (match s.popPendingOpen.2 with
      | some id => ((s.popPendingOpen.1.qPushFront .pendingSend id).1).tryAssignCapacity id
      | none => s.popPendingOpen.1) → XB sv s1 := by
  intro s1 hs1
  subst hs1
  have hpx : XEs sv s.popPendingOpen.1 := (popPendingOpen_xk s).xes hx.xe
  have hpp := popPendingOpen_noppq s hx.pq
  have hrd := popPendingOpen_ready h.npi hb
  generalize s.popPendingOpen = p at hpx hpp hrd ⊢
  obtain ⟨s0, o⟩ := p
  cases o with
  | some id =>
    dsimp only at hpx hpp hrd ⊢
    have hf := hrd id rfl
    refine ⟨(tryAssignCapacity_xk _ _).xes ((qPushFrontSend_xk s0 id hf.1 hf.2.nsu).xes hpx), FK.noppq ?_ hpp⟩
    fk_auto
  | none => exact ⟨hpx, hpp⟩

end H2V.Lemmas.ConnNoPanicP
