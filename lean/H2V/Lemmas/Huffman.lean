import H2V.Lemmas.HuffmanCode
import H2V.Lemmas.HuffmanBits
import H2V.Lemmas.HuffmanGo
import H2V.Lemmas.HuffmanTables
import H2V.Lemmas.HuffmanDecode
import H2V.Lemmas.HuffmanPack
import H2V.Lemmas.HuffmanEncode
/-
  Huffman codec of h2's HPACK (model in `H2V.Model.Huffman`, mirror of `src/hpack/huffman/mod.rs`
  over the tables regenerated from `table.rs`) against RFC 7541 §5.2 / Appendix B
  (`H2V.Spec.Huffman` over the independent table `H2V.Spec.Rfc7541.huffmanCode`).

  Main results (all in `H2V.Lemmas.Huffman`):
    * `encL_eq`            ENCODE_TABLE is the RFC table                        (HuffmanCode)
    * `prefix_free`        the RFC code is prefix-free                         (HuffmanCode)
    * `code_range`         code lengths are 5..30 and codes fit their length   (HuffmanCode)
    * `table0_chk` .. `table14_chk`, `tables_ok`
                           each decode sub-table agrees with the code + pathL  (HuffmanTables)
    * `leaf_bits_pos`      every leaf consumes 1..8 bits                        (HuffmanTables)
    * `decode_eq_spec`     table-walk decoder = RFC bit-by-bit decoder          (HuffmanDecode)
    * `spec_roundtrip`     reference decode ∘ encode = id                       (HuffmanPack)
    * `encode_eq_spec`     register/flush encoder = reference encoder           (HuffmanEncode)
    * `roundtrip`          model decode ∘ model encode = id                     (here)
-/
namespace H2V.Lemmas.Huffman
open H2V

/-- **Round trip through the model codec**: decoding what `huffman::encode` produced gives the
    input back, for every byte string. -/
theorem roundtrip (s : Bytes) (h : Bytes.Valid s) :
    Model.Huffman.decode (Model.Huffman.encode s) = Res.ok s := by
  rw [encode_eq_spec s h, decode_eq_spec _ (spec_encode_valid s), spec_roundtrip s h]

/-- the model encoder produces octets -/
theorem encode_valid (s : Bytes) (h : Bytes.Valid s) : Bytes.Valid (Model.Huffman.encode s) := by
  rw [encode_eq_spec s h]; exact spec_encode_valid s

/-- the model decoder never runs out of fuel -/
theorem decode_ne_loop (bs : Bytes) (h : Bytes.Valid bs) : Model.Huffman.decode bs ≠ Res.loop := by
  rw [decode_eq_spec bs h]
  cases Spec.Huffman.decode bs <;> simp

end H2V.Lemmas.Huffman
